/-
  C10, soundness of the chosen prefix: the XML-Namespaces resolution of a written name
  (`resolvePrefix`, `resolveElementName`, `resolveAttributeName`; the vocabulary of the C10 theorems,
  hence in namespace `XotModel.Props`) and the two core lemmas behind `C10_sound_prefix` /
  `C10_sound_attribute`.  They live here, not in Props/C10.lean, because the round-trip development
  (Lemmas/RoundTripScope.lean, C01) uses them and Props/C10.lean in turn states a corollary of C01.
-/
import XotModel.Lemmas.FStack
import XotModel.Lemmas.Scope10

namespace XotModel.Props
open XotModel

/-- The namespace a prefix denotes in the scope `fs`: the `xml` prefix is reserved (XML Namespaces
    §3: bound by definition to the XML namespace), any other prefix has its nearest declaration. -/
def resolvePrefix (fs : Frames) (p : Nat) : Option Nat :=
  if p == Env.xmlPrefix then some Env.xmlNamespace else lookupFrames fs p

/-- The namespace an element name written with prefix `p` (`none` = unprefixed) denotes in the scope
    `fs` (XML Namespaces §6.2: an unprefixed element takes the default namespace, if any). -/
def resolveElementName (fs : Frames) : Option Nat → Option Nat
  | some p => resolvePrefix fs p
  | none => some ((lookupFrames fs Env.emptyPrefix).getD Env.noNamespace)

/-- … an attribute name (an unprefixed attribute is in no namespace). -/
def resolveAttributeName (fs : Frames) : Option Nat → Option Nat
  | some p => resolvePrefix fs p
  | none => some Env.noNamespace

/-- Namespace constraint on the tree: the reserved prefix `xml` is not declared for another
    namespace (XML Namespaces §3, "Reserved Prefixes and Namespace Names"). -/
def XmlPrefixReserved (fs : Frames) : Prop :=
  ∀ n, lookupFrames fs Env.xmlPrefix = some n → n = Env.xmlNamespace

/-- Under the reserved-prefix constraint, XML-Namespaces resolution of a prefix is its nearest
    declaration. -/
theorem resolve_lookup {fs : Frames} (hx : XmlPrefixReserved fs) {q ns : Nat}
    (hl : lookupFrames fs q = some ns) : resolvePrefix fs q = some ns := by
  unfold resolvePrefix
  by_cases hq : (q == Env.xmlPrefix) = true
  · have : q = Env.xmlPrefix := by simpa using hq
    subst this
    simp [hx ns hl]
  · simp [hq, hl]

/-- The prefix `element_prefix` answers resolves to the name's namespace whenever the check of the
    `StartTagOpen` arm passes (the name is not a no-namespace name while `has_default_namespace`).
    Names in the XML namespace get the reserved `xml` prefix whatever the stack holds. -/
theorem sound_prefix (env : Env) (s : FStack) (fs : Frames) (name : Nat) (p : Option Nat)
    (hinv : StackInv s fs) (hx : XmlPrefixReserved fs) (h : s.elementPrefix env name = .ok p)
    (hcheck : ¬ (env.nsOfName name = Env.noNamespace ∧ s.hasDefaultNamespace = true)) :
    resolveElementName fs p = some (env.nsOfName name) := by
  obtain ⟨_, hflat⟩ := hinv.flat
  unfold FStack.elementPrefix at h
  by_cases hns : (env.nsOfName name == Env.noNamespace) = true
  · simp only [hns, if_true] at h
    cases h
    have hz : env.nsOfName name = Env.noNamespace := by simpa using hns
    have hnd : ¬ s.hasDefaultNamespace = true := fun hd => hcheck ⟨hz, hd⟩
    rw [hasDefaultNamespace_iff hinv.flat] at hnd
    simp only [resolveElementName, hz, Option.some.injEq]
    cases hl : lookupFrames fs Env.emptyPrefix with
    | none => rfl
    | some n =>
      by_cases hn : n = Env.noNamespace
      · simp [hn]
      · exact absurd ⟨n, hl, hn⟩ hnd
  · simp only [hns] at h
    by_cases hxml : (env.nsOfName name == Env.xmlNamespace) = true
    · simp only [hxml, if_true] at h
      cases h
      have hz : env.nsOfName name = Env.xmlNamespace := by simpa using hxml
      simp [resolveElementName, resolvePrefix, hz]
    · simp only [hxml] at h
      cases hp : elementPrefixByNamespace s.top (env.nsOfName name) with
      | none => simp [hp] at h
      | some q =>
        have hl := (hflat q _).mp (elementPrefixByNamespace_mem hp)
        simp only [hp] at h
        by_cases hq : (q == Env.emptyPrefix) = true
        · simp only [hq, if_true] at h
          cases h
          have : q = Env.emptyPrefix := by simpa using hq
          subst this
          simp [resolveElementName, hl]
        · simp only [hq] at h
          cases h
          simpa [resolveElementName] using resolve_lookup hx hl

/-- Attribute names: full strength, no guard — the chosen prefix resolves to the attribute's
    namespace, and an attribute is written unprefixed only when it is in no namespace. -/
theorem sound_attribute (env : Env) (s : FStack) (fs : Frames) (name : Nat) (p : Option Nat)
    (hinv : StackInv s fs) (hx : XmlPrefixReserved fs) (h : s.attributePrefix env name = .ok p) :
    resolveAttributeName fs p = some (env.nsOfName name) ∧ p ≠ some Env.emptyPrefix := by
  obtain ⟨_, hflat⟩ := hinv.flat
  unfold FStack.attributePrefix at h
  by_cases hns : (env.nsOfName name == Env.noNamespace) = true
  · simp only [hns, if_true] at h
    cases h
    have hz : env.nsOfName name = Env.noNamespace := by simpa using hns
    simp [resolveAttributeName, hz]
  · simp only [hns] at h
    by_cases hxml : (env.nsOfName name == Env.xmlNamespace) = true
    · simp only [hxml, if_true] at h
      cases h
      have hz : env.nsOfName name = Env.xmlNamespace := by simpa using hxml
      refine ⟨by simp [resolveAttributeName, resolvePrefix, hz], by decide⟩
    · simp only [hxml] at h
      cases hp : attributePrefixByNamespace s.top (env.nsOfName name) with
      | none => simp [hp] at h
      | some q =>
        obtain ⟨hmem, hne⟩ := attributePrefixByNamespace_mem hp
        have hl := (hflat q _).mp hmem
        simp only [hp] at h
        cases h
        exact ⟨by simpa [resolveAttributeName] using resolve_lookup hx hl, by simpa using hne⟩

end XotModel.Props
