/-
  XotModel.Lemmas.SpanSliceDelims — C17, the bytes AROUND the recorded spans, for every accepted string
  (tokenizer `Token.Delims` / `TextAdj`, Lemmas/LexDelims*.lean, composed with the description `Desc` of the
  accepted tree, Lemmas/SpanDesc*.lean):

    * `parseString_element_end`   the `ElementEnd` span of an element closed by an end tag slices to `</`, the
                                  qualified name exactly as the START tag wrote it, white space, `>`;
    * `parseString_comment_delims`, `parseString_pi_delims`   `<!--` / `-->` and `<?` … `?>` stand directly
                                  before / after the recorded body spans;
    * `parseString_text_mode`     the run behind a text node starts inside a CDATA section iff the nine bytes
                                  in front of the `Text` span are `<![CDATA[` (`cdataOpenBefore`), so the
                                  decoder's start mode is a function of the source.
-/
import XotModel.Lemmas.SpanSliceNode
import XotModel.Lemmas.LexDelimsLoop

namespace XotModel

/-! ### `str::get` backwards: a slice is a piece of the text -/

theorem dropBytes_split : ∀ (n : Nat) (s r : Str), dropBytes n s = some r → ∃ a, s = a ++ r ∧ n = strLen a
  | n, [], r, h => by
    simp only [dropBytes] at h
    split at h
    · next h0 => cases h; exact ⟨[], rfl, by simp [strLen, h0]⟩
    · cases h
  | n, x :: xs, r, h => by
    simp only [dropBytes] at h
    split at h
    · next h0 => cases h; exact ⟨[], rfl, by simp [strLen, h0]⟩
    · split at h
      · next h0 hle =>
        obtain ⟨a, ha, hn⟩ := dropBytes_split _ xs r h
        exact ⟨x :: a, by rw [ha]; rfl, by simp only [strLen]; omega⟩
      · cases h

theorem takeBytes_split : ∀ (n : Nat) (s w : Str), takeBytes n s = some w → ∃ b, s = w ++ b ∧ n = strLen w
  | n, [], w, h => by
    simp only [takeBytes] at h
    split at h
    · next h0 => cases h; exact ⟨[], rfl, by simp [strLen, h0]⟩
    · cases h
  | n, x :: xs, w, h => by
    simp only [takeBytes] at h
    split at h
    · next h0 => cases h; exact ⟨x :: xs, rfl, by simp [strLen, h0]⟩
    · split at h
      · next h0 hle =>
        cases ht : takeBytes (n - utf8Len x) xs with
        | none => rw [ht] at h; cases h
        | some w' =>
          rw [ht] at h
          simp only [Option.map_some, Option.some.injEq] at h
          subst h
          obtain ⟨b, hb, hn⟩ := takeBytes_split _ xs w' ht
          exact ⟨b, by rw [hb]; rfl, by simp only [strLen]; omega⟩
      · cases h

/-- `s.get(i..j) == Some(w)`: `w` stands in `s` at byte `i` and ends at byte `j`. -/
theorem sliceBytes_split {s w : Str} {i j : Nat} (h : sliceBytes s i j = some w) :
    ∃ a b, s = a ++ w ++ b ∧ i = strLen a ∧ j = i + strLen w := by
  unfold sliceBytes at h
  split at h
  · next hle =>
    cases hd : dropBytes i s with
    | none => rw [hd] at h; cases h
    | some r =>
      rw [hd] at h
      simp only [Option.bind_some] at h
      obtain ⟨a, ha, hi⟩ := dropBytes_split i s r hd
      obtain ⟨b, hb, hj⟩ := takeBytes_split _ r w h
      exact ⟨a, b, by rw [ha, hb, List.append_assoc], hi, by omega⟩
  · cases h

theorem sliceBytes_mid (a x b : Str) : sliceBytes (a ++ x ++ b) (strLen a) (strLen a + strLen x) = some x :=
  sliceBytes_of_sliceOf (sp := ⟨x, strLen a⟩) ⟨a, b, rfl, rfl⟩

/-! ### What the tokenizer guarantees, part 2 -/

structure LexFacts2 (s : Str) (ts : List Token) : Prop where
  delims : ∀ t ∈ ts, t.Delims
  textAdj : AdjChain TextAdj ts
  textFirst : TextFirst ts

theorem lexMode_facts2 (m : Mode) (s : Str) : LexFacts2 s (lexMode m s).1 := by
  cases m with
  | document => exact ⟨(lexDocument_delims s).1, (lexDocument_delims s).2.1, (lexDocument_delims s).2.2⟩
  | fragment => exact ⟨(lexFragment_delims s).1, (lexFragment_delims s).2.1, (lexFragment_delims s).2.2⟩

/-! ### The end tag repeats the start tag's name as written -/

/-- How the element at `q` ends: `/>`, or an end tag `</` name white-space `>` whose name is `nm`. -/
def EndSliced (s : Str) (ts : List Token) (g : SpanKey → Option Span) (q : Path) (pfx loc : StrSpan) : Prop :=
  ∃ e esp, Token.elementEnd e esp ∈ ts ∧ SlicesTo s g ⟨q, .elementEnd⟩ esp.text ∧
    ((e = .empty ∧ esp.text = ['/', '>']) ∨
     ∃ pe le ws, e = .close pe le ∧ pe.text = pfx.text ∧ le.text = loc.text ∧ (∀ c ∈ ws, isXmlSpace c = true) ∧
       esp.text = '<' :: '/' :: (tokQName pfx.text loc.text ++ ws ++ ['>']))

theorem nodeFacts_element_end {s : Str} {ts : List Token} {g : SpanKey → Option Span} {env : Env} {scope : NsStack}
    {q : Path} {id : Nat} {ks : List Tree} (hl : LexFacts s ts) (hl2 : LexFacts2 s ts)
    (hpok : tokensPrefixOk ts = true)
    (h : NodeFacts ts g env scope q (.element id) ks) :
    ∃ pfx loc wsp, Token.elementStart pfx loc wsp ∈ ts ∧
      SlicesTo s g ⟨q, .elementStart⟩ (tokQName pfx.text loc.text) ∧ EndSliced s ts g q pfx loc := by
  obtain ⟨⟨⟨p, l, sp, hm, h1, _⟩, _⟩, e, esp, hem, hne, h2, hlink⟩ := h
  have hslice := slicesTo_span h2 (Token.wholeSpan_all _ (hl.slices _ hem))
  cases e with
  | «open» => exact absurd rfl hne
  | empty =>
    have hsp : NameSlice s p l := hl.spelled _ hm
    exact ⟨p, l, sp, hm, ⟨_, h1, hsp.sliceBytes⟩, .empty, esp, hem, hslice, .inl ⟨rfl, hl.spelled _ hem⟩⟩
  | close pe le =>
    obtain ⟨ps, ls, wsp, hms, hgs, hp, hlo⟩ := hlink pe le rfl
    have hsp : NameSlice s ps ls := hl.spelled _ hms
    obtain ⟨nm, ws, htext, hws, hnm⟩ := hl2.delims _ hem
    have hbc : pe.bareColon = false := by
      have hok : (Token.elementEnd (.close pe le) esp).prefixOk = true := by
        simp only [tokensPrefixOk, List.all_eq_true] at hpok
        exact hpok _ hem
      rw [Token.prefixOk_of_qname (p := pe) (l := le) rfl] at hok
      simpa using hok
    refine ⟨ps, ls, wsp, hms, ⟨_, hgs, hsp.sliceBytes⟩, .close pe le, esp, hem, hslice,
      .inr ⟨pe, le, ws, rfl, hp.symm, hlo.symm, hws, ?_⟩⟩
    rw [htext, hnm hbc, hp, hlo]

theorem parseString_element_end {m : Mode} {env : Env} {s : Str} {p : Parsed} (h : parseString m env s = .ok p)
    {q : Path} {id : Nat} {ks : List Tree} (hat : p.tree.at? q = some (.node (.element id) ks)) :
    ∃ pfx loc wsp, Token.elementStart pfx loc wsp ∈ (lexMode m s).1 ∧
      SlicesTo s p.spans.get ⟨q, .elementStart⟩ (tokQName pfx.text loc.text) ∧
      EndSliced s (lexMode m s).1 p.spans.get q pfx loc := by
  have hd := build_desc h
  have := desc_at q p.tree baseStack [] (.element id) ks hd hat
  rw [List.nil_append] at this
  exact nodeFacts_element_end (lexMode_facts m s) (lexMode_facts2 m s)
    (build_ok_prefixOk (show build m (strLen s) env (lexMode m s).1 (lexMode m s).2 = .ok p from h)) this

/-! ### Comment and PI delimiters -/

/-- The recorded span under `key` slices to `txt`, and the source reads `before ++ txt ++ after` there:
    `before` ends at the span's start, `after` begins at its end. -/
def SlicesBetween (s : Str) (g : SpanKey → Option Span) (key : SpanKey) (before txt after : Str) : Prop :=
  ∃ sp a b, g key = some sp ∧ s = a ++ before ++ txt ++ after ++ b ∧ sp.start = strLen a + strLen before ∧
    sp.stop = sp.start + strLen txt

theorem SlicesBetween.slicesTo {s : Str} {g : SpanKey → Option Span} {key : SpanKey} {before txt after : Str}
    (h : SlicesBetween s g key before txt after) : SlicesTo s g key txt := by
  obtain ⟨sp, a, b, hg, hs, h1, h2⟩ := h
  refine ⟨sp, hg, ?_⟩
  have := sliceBytes_mid (a ++ before) txt (after ++ b)
  rw [strLen_append] at this
  rw [h2, h1, hs]
  simpa [List.append_assoc] using this

/-- … in terms of `str::get`: the bytes directly before the span and directly after it. -/
theorem SlicesBetween.around {s : Str} {g : SpanKey → Option Span} {key : SpanKey} {before txt after : Str}
    (h : SlicesBetween s g key before txt after) :
    ∃ sp, g key = some sp ∧ strLen before ≤ sp.start ∧
      sliceBytes s (sp.start - strLen before) sp.start = some before ∧
      sliceBytes s sp.stop (sp.stop + strLen after) = some after := by
  obtain ⟨sp, a, b, hg, hs, h1, h2⟩ := h
  refine ⟨sp, hg, by omega, ?_, ?_⟩
  · have := sliceBytes_mid a before (txt ++ after ++ b)
    rw [h1, hs]
    have e : strLen a + strLen before - strLen before = strLen a := by omega
    rw [e]
    simpa [List.append_assoc] using this
  · have := sliceBytes_mid (a ++ before ++ txt) after b
    rw [h2, h1, hs]
    simp only [strLen_append] at this
    simpa [List.append_assoc] using this

theorem nodeFacts_comment_delims {s : Str} {ts : List Token} {g : SpanKey → Option Span} {env : Env} {scope : NsStack}
    {q : Path} {v : Str} {ks : List Tree} (hl : LexFacts s ts) (hl2 : LexFacts2 s ts)
    (h : NodeFacts ts g env scope q (.comment v) ks) :
    ∃ w, SlicesBetween s g ⟨q, .comment⟩ Lex.litCommentOpen w Lex.litCommentClose ∧ v = normalizeLineEnds w := by
  obtain ⟨t, sp, hm, hg, rfl⟩ := h
  obtain ⟨htext, hstart⟩ := hl2.delims _ hm
  obtain ⟨a, b, hsrc, hst⟩ := (hl.slices _ hm).2
  refine ⟨t.text, ⟨t.span, a, b, hg, ?_, ?_, rfl⟩, rfl⟩
  · rw [hsrc, htext]; simp only [List.append_assoc]
  · show t.start = _
    rw [hstart, hst]; rfl

/-- The PI at `q`: the source reads `<?`, the target (= the `PiTarget` span), white space, the data as
    written (= the `PiContent` span when the node has data; empty otherwise), `?>`. -/
def PiDelims (s : Str) (g : SpanKey → Option Span) (q : Path) (d : Option Str) : Prop :=
  ∃ target ws body a b, (∀ c ∈ ws, isXmlSpace c = true) ∧
    s = a ++ Lex.litPiOpen ++ target ++ ws ++ body ++ Lex.litPiClose ++ b ∧
    (∃ sp, g ⟨q, .piTarget⟩ = some sp ∧ sp.start = strLen a + 2 ∧ sp.stop = sp.start + strLen target) ∧
    (∀ c, d = some c → c = normalizeLineEnds body ∧
      ∃ sp, g ⟨q, .piContent⟩ = some sp ∧ sp.start = strLen a + 2 + strLen target + strLen ws ∧
        sp.stop = sp.start + strLen body) ∧
    (d = none → body = [])

theorem nodeFacts_pi_delims {s : Str} {ts : List Token} {g : SpanKey → Option Span} {env : Env} {scope : NsStack}
    {q : Path} {id : Nat} {d : Option Str} {ks : List Tree} (hl : LexFacts s ts) (hl2 : LexFacts2 s ts)
    (h : NodeFacts ts g env scope q (.pi id d) ks) : PiDelims s g q d := by
  obtain ⟨tg, c, sp, hm, h1, h2, h3, h4, h5⟩ := h
  obtain ⟨ws, body, htext, hws, htg, hcs, hnone⟩ := hl2.delims _ hm
  obtain ⟨a, b, hsrc, hst⟩ := (hl.slices _ hm).2.2
  refine ⟨tg.text, ws, body, a, b, hws, ?_, ⟨tg.span, h1, ?_, rfl⟩, ?_, ?_⟩
  · rw [hsrc, htext]; simp only [List.append_assoc]
  · show tg.start = _
    rw [htg, hst]
  · intro c' hc'
    subst h3
    cases c with
    | none => cases hc'
    | some cs =>
      simp only [Option.map_some, Option.some.injEq] at hc'
      obtain ⟨hb, hstart⟩ := hcs cs rfl
      refine ⟨by rw [← hc', hb], cs.span, h4 cs rfl, ?_, by rw [← hb]; rfl⟩
      show cs.start = _
      rw [hstart, hst]
  · intro hd
    subst h3
    cases c with
    | none => exact hnone rfl
    | some cs => cases hd

theorem parseString_comment_delims {m : Mode} {env : Env} {s : Str} {p : Parsed} (h : parseString m env s = .ok p)
    {q : Path} {v : Str} {ks : List Tree} (hat : p.tree.at? q = some (.node (.comment v) ks)) :
    ∃ w, SlicesBetween s p.spans.get ⟨q, .comment⟩ Lex.litCommentOpen w Lex.litCommentClose ∧
      v = normalizeLineEnds w := by
  have hd := build_desc h
  have := desc_at q p.tree baseStack [] (.comment v) ks hd hat
  rw [List.nil_append] at this
  exact nodeFacts_comment_delims (lexMode_facts m s) (lexMode_facts2 m s) this

theorem parseString_pi_delims {m : Mode} {env : Env} {s : Str} {p : Parsed} (h : parseString m env s = .ok p)
    {q : Path} {id : Nat} {d : Option Str} {ks : List Tree} (hat : p.tree.at? q = some (.node (.pi id d) ks)) :
    PiDelims s p.spans.get q d := by
  have hd := build_desc h
  have := desc_at q p.tree baseStack [] (.pi id d) ks hd hat
  rw [List.nil_append] at this
  exact nodeFacts_pi_delims (lexMode_facts m s) (lexMode_facts2 m s) this

/-! ### The start mode of the run decoder, read off the source -/

/-- `src[..pos].ends_with("<![CDATA[")` (the harness oracle's test). -/
def cdataOpenBefore (s : Str) (pos : Nat) : Bool :=
  decide (9 ≤ pos) && (sliceBytes s (pos - 9) pos == some Lex.litCdataOpen)

theorem cdataOpenBefore_of_open {a b : Str} : cdataOpenBefore (a ++ Lex.litCdataOpen ++ b) (strLen a + 9) = true := by
  have := sliceBytes_mid a Lex.litCdataOpen b
  have e : strLen Lex.litCdataOpen = 9 := by decide
  rw [e] at this
  simp only [cdataOpenBefore, Bool.and_eq_true, decide_eq_true_eq, beq_iff_eq]
  refine ⟨by omega, ?_⟩
  have e2 : strLen a + 9 - 9 = strLen a := by omega
  rw [e2]
  exact this

/-- Directly behind a `>` there is no `<![CDATA[`. -/
theorem cdataOpenBefore_of_gt {x y : Str} : cdataOpenBefore (x ++ ['>'] ++ y) (strLen (x ++ ['>'])) = false := by
  cases hc : cdataOpenBefore (x ++ ['>'] ++ y) (strLen (x ++ ['>'])) with
  | false => rfl
  | true =>
    exfalso
    simp only [cdataOpenBefore, Bool.and_eq_true, decide_eq_true_eq, beq_iff_eq] at hc
    obtain ⟨h9, hs⟩ := hc
    obtain ⟨a, b, hsrc, hi, hj⟩ := sliceBytes_split hs
    have e : strLen Lex.litCdataOpen = 9 := by decide
    have hlen : strLen (a ++ Lex.litCdataOpen) = strLen (x ++ ['>']) := by
      rw [strLen_append, e]; omega
    have heq := prefix_eq_of_strLen (a ++ Lex.litCdataOpen) (x ++ ['>']) b y (by rw [← hsrc]) hlen
    have h1 : (a ++ Lex.litCdataOpen).getLast? = some '[' := by
      simp [Lex.litCdataOpen, List.getLast?_append]
    have h2 : (x ++ ['>']).getLast? = some '>' := by simp
    rw [heq, h2] at h1
    cases h1

theorem cdataOpenBefore_zero (s : Str) : cdataOpenBefore s 0 = false := by
  simp [cdataOpenBefore]

theorem textFacts_mode {s : Str} {ts : List Token} {g : SpanKey → Option Span} {q : Path} {v : Str}
    (hl : LexFacts s ts) (hl2 : LexFacts2 s ts) (h : TextFacts ts g q v) :
    ∃ run sp, run <:+: ts ∧ run ≠ [] ∧ (∀ t ∈ run, t.isCharData = true) ∧ g ⟨q, .text⟩ = some sp ∧
      sliceBytes s sp.start sp.stop = some (runSlice run) ∧ runValue run = some v ∧
      startsInCdata run = cdataOpenBefore s sp.start ∧
      decodeRun (cdataOpenBefore s sp.start) (runSlice run) = some v := by
  obtain ⟨run, sp, hin, hne, hall, hadj, hok, hv, hg, hsl⟩ := TextFacts.slice hl h
  suffices hmode : startsInCdata run = cdataOpenBefore s sp.start by
    refine ⟨run, sp, hin, hne, fun t ht => (hall t ht).1, hg, hsl, hv, hmode, ?_⟩
    rw [← hmode, decodeRun_runSlice ⟨hall, hadj⟩, hv]
  obtain ⟨t0, r0, f, hrun, hreal, hf, hstart⟩ := hok.first
  have hmem0 : t0 ∈ ts := hin.subset (by rw [hrun]; simp)
  cases t0 with
  | cdata c w =>
    simp only [Token.textSpan?, Option.some.injEq] at hf
    subst hf
    obtain ⟨htext, hcstart, _⟩ : (Token.cdata c w).Spelled s := hl.spelled _ hmem0
    obtain ⟨a, b, hsrc, hst⟩ := (hl.slices _ hmem0).2
    rw [hrun, hstart, hcstart, hst]
    simp only [startsInCdata]
    rw [hsrc, htext]
    have := @cdataOpenBefore_of_open a (c.text ++ Lex.litCdataClose ++ b)
    simp only [List.append_assoc] at this ⊢
    exact this.symm
  | text t =>
    simp only [Token.textSpan?, Option.some.injEq] at hf
    subst hf
    rw [hrun, hstart]
    simp only [startsInCdata]
    obtain ⟨pre, post, hts⟩ := hin
    rw [hrun] at hts
    cases hpre : pre.reverse with
    | nil =>
      have hp : pre = [] := by simpa using hpre
      subst hp
      have := hl2.textFirst (.text t) (r0 ++ post) (by rw [← hts]; simp) rfl
      simp only [Token.wholeSpan] at this
      rw [this, cdataOpenBefore_zero]
    | cons a pre' =>
      have hp : pre = pre'.reverse ++ [a] := by
        have := congrArg List.reverse hpre
        simpa using this
      subst hp
      have hinf : [a, Token.text t] <:+: ts := ⟨pre'.reverse, r0 ++ post, by rw [← hts]; simp⟩
      have hadj2 := (hl2.textAdj.infix hinf).1 rfl
      obtain ⟨hstop, pre2, hgt⟩ := hadj2
      have hma : a ∈ ts := hinf.subset (by simp)
      obtain ⟨x, y, hsrc, hst⟩ := Token.wholeSpan_all a (hl.slices a hma)
      have hstop' : a.wholeSpan.stop = t.start := hstop
      rw [← hstop', StrSpan.stop, hst, hsrc, hgt]
      have := @cdataOpenBefore_of_gt (x ++ pre2) y
      simp only [List.append_assoc, strLen_append] at this ⊢
      exact this.symm
  | _ => simp [Token.isReal] at hreal

theorem parseString_text_mode {m : Mode} {env : Env} {s : Str} {p : Parsed} (h : parseString m env s = .ok p)
    {q : Path} {v : Str} {ks : List Tree} (hat : p.tree.at? q = some (.node (.text v) ks)) :
    ∃ run sp, run <:+: (lexMode m s).1 ∧ run ≠ [] ∧ (∀ t ∈ run, t.isCharData = true) ∧
      p.spans.get ⟨q, .text⟩ = some sp ∧ sliceBytes s sp.start sp.stop = some (runSlice run) ∧
      runValue run = some v ∧ startsInCdata run = cdataOpenBefore s sp.start ∧
      decodeRun (cdataOpenBefore s sp.start) (runSlice run) = some v := by
  have hd := build_desc h
  have := desc_at q p.tree baseStack [] (.text v) ks hd hat
  rw [List.nil_append] at this
  exact textFacts_mode (lexMode_facts m s) (lexMode_facts2 m s) this

end XotModel
