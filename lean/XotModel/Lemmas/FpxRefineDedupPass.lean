/-
  FpxRefineDedup, part 5: ONE PASS of `deduplicate_namespaces(node)` — the forest model (running
  `Forest.dedupCalls env node`, Model/FatomSpec2.lean) refines the tree model (`dedupPass`,
  Model/Scope.lean) on `(r.erase, path, sub)`, `r` the parentless tree of `node`, `path` its path.

  Both take `to_remove` from the same erased tree; the forest model removes in traversal order through
  handles, the tree model last entry first through paths.  `fpxd_pass`:
  same "removed something" flag, the erased root afterwards is `(dedupPass …).1`, every other root is
  untouched, `next` is unchanged, the handles afterwards are a sublist of the old ones and the
  `(handle, value)` pairs of all nodes that are not namespace nodes are unchanged (only namespace nodes
  disappear), `node` — and every node not strictly below it — stays at its path.
-/
import XotModel.Lemmas.FpxRefineDedupWalk
import XotModel.Lemmas.DedupFuel

namespace XotModel
open HTree

/-! ### The `(handle, value)` pairs of a tree in which one subtree was replaced -/

namespace HTree

mutual
  theorem hv_graft_filter (nd : Nat) (S' : HTree) (P : Nat × Value → Bool) : ∀ r : HTree,
      (∀ (q : Path) (S0 : HTree), r.at? q = some S0 → S0.handle = nd →
        (hv S').filter P = (hv S0).filter P) →
      (hv (mapAt nd (fun _ => S') r)).filter P = (hv r).filter P
    | .node h v ks, hx => by
      by_cases hh : h = nd
      · have e1 : mapAt nd (fun _ => S') (.node h v ks) = S' := by unfold mapAt; rw [if_pos hh]
        rw [e1]
        exact hx [] _ rfl hh
      · have e1 : mapAt nd (fun _ => S') (.node h v ks) = .node h v (mapAtList nd (fun _ => S') ks) := by
          unfold mapAt; rw [if_neg hh]
        rw [e1]
        simp only [hv_node, List.filter_cons]
        rw [hvList_graft_filter nd S' P ks (fun i k hik q S0 hq hS0 =>
          hx (i :: q) S0 (by simp only [HTree.at?, hik]; exact hq) hS0)]
  theorem hvList_graft_filter (nd : Nat) (S' : HTree) (P : Nat × Value → Bool) : ∀ ks : List HTree,
      (∀ (i : Nat) (k : HTree), ks[i]? = some k → ∀ (q : Path) (S0 : HTree), k.at? q = some S0 → S0.handle = nd →
        (hv S').filter P = (hv S0).filter P) →
      (hvList (mapAtList nd (fun _ => S') ks)).filter P = (hvList ks).filter P
    | [], _ => rfl
    | k :: ks, hx => by
      simp only [mapAtList, hvList_cons, List.filter_append]
      rw [hv_graft_filter nd S' P k (hx 0 k rfl),
        hvList_graft_filter nd S' P ks (fun i k' hik => hx (i + 1) k' (by simpa using hik))]
end

theorem hv_graft_filter' {r S S' : HTree} {nd : Nat} {top : Path} (P : Nat × Value → Bool)
    (hnd : (handles r).Nodup) (hS : r.at? top = some S) (hSh : S.handle = nd)
    (hf : (hv S').filter P = (hv S).filter P) :
    (hv (mapAt nd (fun _ => S') r)).filter P = (hv r).filter P := by
  apply hv_graft_filter nd S' P r
  intro q S0 hq hS0
  have : q = top := at?_handle_inj hnd hq hS (by rw [hS0, hSh])
  subst this
  rw [hq] at hS
  cases hS
  exact hf

/-- Handles of a tree in which one subtree was replaced by one with fewer handles. -/
theorem handles_graft_sublist {r S S' : HTree} {nd : Nat} {top : Path} (hnd : (handles r).Nodup)
    (hS : r.at? top = some S) (hSh : S.handle = nd) (hsub : (handles S').Sublist (handles S)) :
    (handles (mapAt nd (fun _ => S') r)).Sublist (handles r) := by
  have hf : find? nd r = some S := by
    have := fpx_find?_of_at? top r S hnd hS
    rwa [hSh] at this
  obtain ⟨pre, post, h1, h2⟩ := Fmap.handles_mapAt_split nd (fun _ => S') r S hnd hf
  rw [h1, h2]
  exact List.Sublist.append (List.Sublist.append (List.Sublist.refl _) hsub) (List.Sublist.refl _)

/-- **Paths outside the edited subtree** are unchanged when the subtree `S` of `nd` is replaced by `S'`
    with the same top handle and no new handles. -/
theorem path_stable_graft {r S S' : HTree} {nd : Nat} {path : Path} (hndr : (handles r).Nodup)
    (hS : r.at? path = some S) (hSh : S.handle = nd) (hS'h : S'.handle = nd)
    (hnd' : (handles S').Nodup) (hsub : ∀ x ∈ handles S', x ∈ handles S)
    {x : Nat} {q : Path} (hx : pathOf x r = some q) (hq : path <+: q → q = path) :
    pathOf x (mapAt nd (fun _ => S') r) = some q := by
  have h1 : x ∉ handlesList S.kids := by
    intro hm
    obtain ⟨j, q', hq'⟩ := pathOf_below hndr hS hm
    rw [hx] at hq'
    simp only [Option.some.injEq] at hq'
    have := hq (by rw [hq']; exact List.prefix_append _ _)
    rw [hq'] at this
    have := congrArg List.length this
    simp at this
  have h2 : x ∉ handlesList S'.kids := by
    intro hm
    have hxS' : x ∈ handles S' := by
      cases S' with
      | node a b c => simp only [fi_handles_node, List.mem_cons]; exact Or.inr hm
    have hxS : x ∈ handles S := hsub x hxS'
    cases S with
    | node a b c =>
      simp only [fi_handles_node, List.mem_cons] at hxS
      rcases hxS with e | e
      · simp only [HTree.handle] at hSh
        cases S' with
        | node a' b' c' =>
          simp only [HTree.handle] at hS'h
          simp only [fi_handles_node, List.nodup_cons] at hnd'
          simp only [HTree.kids] at hm
          exact hnd'.1 (by rw [hS'h, ← hSh, ← e]; exact hm)
      · exact h1 e
  rw [pathOf_graft' hndr hS hSh hS'h h1 h2, hx]

end HTree

theorem isEmpty_eq_of_length_eq {α β : Type} {a : List α} {b : List β} (h : a.length = b.length) :
    a.isEmpty = b.isEmpty := by
  cases a <;> cases b <;> simp_all

mutual
  theorem dpRemH_length (env : Env) : ∀ (x : HTree) (K : List (List (Nat × Nat))),
      (dpRemH env K x).length = (dpRem env K x.erase).length
    | .node h v ks, K => by
      unfold dpRemH
      simp only [erase, dpRem]
      split
      · simp only [List.length_append, List.length_map, dpRemHList_length env ks _ 0]
      · exact dpRemHList_length env ks K 0
  theorem dpRemHList_length (env : Env) : ∀ (ks : List HTree) (K : List (List (Nat × Nat))) (i : Nat),
      (dpRemHList env K ks).length = (dpRem.dpRemList env K i (eraseList ks)).length
    | [], _, _ => rfl
    | k :: ks, K, i => by
      simp only [dpRemHList, eraseList, dpRem.dpRemList, List.length_append, List.length_map,
        dpRemH_length env k K, dpRemHList_length env ks K (i + 1)]
end

namespace Forest

/-- With distinct handles, replacing "the root that contains `nd`" by that root is the identity. -/
theorem fpxd_map_self {f : Forest} (hnd : f.allHandles.Nodup) {nd : Nat} {r : HTree} (hr : r ∈ f.roots)
    (hn : nd ∈ handles r) :
    f.roots.map (fun y => if (pathOf nd y).isSome then r else y) = f.roots := by
  conv => rhs; rw [← List.map_id f.roots]
  apply List.map_congr_left
  intro y hy
  cases hp : pathOf nd y with
  | none => simp
  | some q =>
    have : y = r := fpxr_root_unique hnd hy hr (ftrav_pathOf_mem hp) hn
    simp [this]

/-- **The calls of one pass** are the removals `dpRemH` of the subtree of the node. -/
theorem fpxd_dedupCalls_eq (env : Env) {f : Forest} {nd : Nat} {r : HTree} (hr : f.rootOf? nd = some r)
    {path : Path} (hp : r.pathOf nd = some path) {S : HTree} (hS : r.at? path = some S) :
    f.dedupCalls env nd = (dpRemH env [] S).map rmCallOf := by
  have hSe : r.erase.at? path = some S.erase := by rw [ftrav_at?_erase, hS]; rfl
  unfold dedupCalls
  rw [hr]
  simp only [hp, hSe]
  rw [dedupToRemove_eq, ← dpRem_handles env S []]
  generalize dpRem env [] S.erase = L
  induction L with
  | nil => rfl
  | cons rm L ih =>
    have hh : r.handleAt (prefixRem path rm).1 = S.handleAt rm.1 := by
      rw [ftrav_handleAt_eq, ftrav_handleAt_eq]
      show (r.at? (path ++ rm.1)).map _ = _
      rw [at?_append', hS]
      rfl
    simp only [List.map_cons, List.flatMap_cons, List.filterMap_cons, ih, hh, rmHandle]
    cases S.handleAt rm.1 with
    | none => rfl
    | some h => rfl

/-- **One pass of `deduplicate_namespaces(node)`, forest model against tree model.** -/
theorem fpxd_pass {f : Forest} (hi : f.Inv) (env : Env) {nd : Nat} {r : HTree} (hr : f.rootOf? nd = some r)
    {path : Path} (hp : r.pathOf nd = some path) :
    ∃ S r', r.at? path = some S ∧ f.get? nd = some S ∧
      (f.dedupCalls env nd).isEmpty = (dedupToRemove env path S.erase).isEmpty ∧
      f.runCalls (f.dedupCalls env nd) =
        ({ f with roots := f.roots.map (fun y => if (pathOf nd y).isSome then r' else y) }, .ok) ∧
      r'.erase = (dedupPass env r.erase path S.erase).1 ∧
      (f.runCalls (f.dedupCalls env nd)).1.Inv ∧
      (f.runCalls (f.dedupCalls env nd)).1.rootOf? nd = some r' ∧
      pathOf nd r' = some path ∧
      (handles r').Sublist (handles r) ∧
      (hv r').filter notNsPair = (hv r).filter notNsPair ∧
      ∀ x q, pathOf x r = some q → (path <+: q → q = path) → pathOf x r' = some q := by
  obtain ⟨hrm, hnr⟩ := fpxr_rootOf_mem hr
  have hndr : (handles r).Nodup := ftrav_nodup_mem _ r hi.nodup hrm
  obtain ⟨S, hS, hSh⟩ := ftrav_pathOf_at? nd r path hp
  have hg : f.get? nd = some S := by
    have := fpx_get?_of_at? hi.nodup hrm hS
    rwa [hSh] at this
  have hSe : r.erase.at? path = some S.erase := by rw [ftrav_at?_erase, hS]; rfl
  have hSnd : (handles S).Nodup := Fmap.findList?_nodup nd f.roots S hi.nodup hg
  have hcalls := fpxd_dedupCalls_eq env hr hp hS
  have htargets : ∀ c ∈ dpRemH env [] S, f.isElement c.1 = true ∧ c.1 ∈ handles S := by
    intro c hc
    refine ⟨?_, dpRemH_mem env S [] c hc⟩
    have := (fpx_dedupCalls hi env nd (rmCallOf c) (by rw [hcalls]; exact List.mem_map.mpr ⟨c, hc, rfl⟩)).1
    exact this
  obtain ⟨S', k1, k2, k3, k4, k5, k6⟩ := fpxd_runCalls_graft (dpRemH env [] S) hi hg htargets
  obtain ⟨_, hi1, _⟩ := fpx_runCalls_ok (f.dedupCalls env nd) hi
    (fun c hc => (fpx_dedupCalls hi env nd c hc).1)
  have hroots : mapAtList nd (fun _ => S') f.roots =
      f.roots.map (fun y => if (pathOf nd y).isSome then mapAt nd (fun _ => S') r else y) :=
    fpxr_roots_graft hi.nodup S' hrm hnr
  have hrun : f.runCalls (f.dedupCalls env nd) =
      ({ f with roots := f.roots.map (fun y => if (pathOf nd y).isSome then mapAt nd (fun _ => S') r else y) },
        .ok) := by
    rw [hcalls, k2, hroots]
  have hS'nd : (handles S').Nodup := hSnd.sublist k4
  have hstab : ∀ x q, pathOf x r = some q → (path <+: q → q = path) →
      pathOf x (mapAt nd (fun _ => S') r) = some q :=
    fun x q hx hq => path_stable_graft hndr hS hSh k1 hS'nd (fun y hy => k4.subset hy) hx hq
  have hpn := hstab nd path hp (fun _ => rfl)
  refine ⟨S, mapAt nd (fun _ => S') r, hS, hg, ?_, hrun, ?_, hi1, ?_, hpn, ?_, ?_, hstab⟩
  · rw [hcalls, dedupToRemove_eq]
    apply isEmpty_eq_of_length_eq
    simp only [List.length_map]
    exact dpRemH_length env S []
  · rw [erase_graft nd S' r path hndr hp, dedupPass_eq env r.erase path S.erase hSe]
    simp only
    have : erase S' = dpWalk env [] S.erase := by
      rw [← eraseWithout_nil S', k6 [], List.append_nil]
      exact eraseWithout_dpRemH env S [] hSnd
    rw [this]
    exact (Repair.scopeModifyAt_const (dpWalk env []) path r.erase S.erase hSe).symm
  · rw [hrun]
    unfold rootOf?
    simp only
    rw [← hroots]
    exact fpxr_find_graft hi.nodup S' hrm hnr hnr (ftrav_pathOf_mem hpn)
  · exact handles_graft_sublist hndr hS hSh k4
  · exact hv_graft_filter' notNsPair hndr hS hSh k5

end Forest
end XotModel
