/-
  C06 lemmas that need the full invariant (child ordering): an element with a normal child has
  a normal last child, so `element_unwrap` never reaches its `unwrap` on `last_child`.
-/
import XotModel.Lemmas.FatomUnwrap

namespace XotModel
open HTree

mutual
  theorem find?_valid (b : Bool) (h : Nat) : ∀ (t t' : HTree), validTree b t = true →
      find? h t = some t' → validTree b t' = true
    | .node h' v ks, t' => by
      intro hv
      unfold find?
      by_cases hh : h' = h
      · simp only [hh, if_true, Option.some.injEq]
        intro e; subst e; rw [← hh]; exact hv
      · simp only [hh, if_false]
        simp only [validTree, Bool.and_eq_true] at hv
        exact findList?_valid b h ks t' hv.2
  theorem findList?_valid (b : Bool) (h : Nat) : ∀ (ks : List HTree) (t' : HTree),
      validList b ks = true → findList? h ks = some t' → validTree b t' = true
    | [], t' => by simp [findList?]
    | k :: ks, t' => by
      intro hv
      simp only [validList, Bool.and_eq_true] at hv
      unfold findList?
      cases hk : find? h k with
      | some t => simp only [Option.some.injEq]; intro e; subst e; exact find?_valid b h k t hv.1 hk
      | none => simp only; exact findList?_valid b h ks t' hv.2
end

theorem fa_rank_normal (c : Category) : 2 ≤ c.rank ↔ c = .normal := by
  cases c <;> simp [Category.rank]

theorem kidsOrdered_last_normal : ∀ ks : List HTree, kidsOrdered ks = true →
    (∃ k ∈ ks, k.value.isNormal = true) → ∃ l, ks.getLast? = some l ∧ l.value.isNormal = true
  | [], _, ⟨k, hk, _⟩ => by cases hk
  | [a], _, ⟨k, hk, hn⟩ => by
    simp only [List.mem_singleton] at hk; subst hk
    exact ⟨k, rfl, hn⟩
  | a :: b :: rest, ho, ⟨k, hk, hn⟩ => by
    simp only [kidsOrdered, Bool.and_eq_true, decide_eq_true_eq] at ho
    rw [List.getLast?_cons_cons]
    apply kidsOrdered_last_normal (b :: rest) ho.2
    rcases List.mem_cons.1 hk with e | e
    · subst e
      refine ⟨b, List.mem_cons_self .., ?_⟩
      simp only [Value.isNormal, beq_iff_eq] at hn ⊢
      rw [← fa_rank_normal]
      rw [hn] at ho
      exact ho.1
    · exact ⟨k, e, hn⟩

namespace Forest

theorem lastChild_of_firstChild {f : Forest} (hi : f.Inv) {n c : Nat}
    (h : f.firstChild n = some c) : ∃ l, f.lastChild n = some l := by
  unfold firstChild at h
  unfold lastChild
  cases hg : f.get? n with
  | none => rw [hg] at h; cases h
  | some t =>
    rw [hg] at h
    simp only at h ⊢
    cases hd : (t.kids.dropWhile (fun k => !k.value.isNormal)).head? with
    | none => rw [hd] at h; cases h
    | some k =>
      have hk : k ∈ t.kids := (List.dropWhile_sublist _).subset (List.mem_of_head? hd)
      have hkn : k.value.isNormal = true := by
        have := List.head?_dropWhile_not (fun k => !k.value.isNormal) t.kids
        rw [hd] at this
        simpa using this
      have hv : validTree (!f.everOff) t = true := findList?_valid _ n f.roots t hi.valid hg
      have ho : kidsOrdered t.kids = true := by
        cases t with
        | node a v ks =>
          simp only [validTree, Bool.and_eq_true] at hv
          exact hv.1.1.1.1.2
      obtain ⟨l, hl, hln⟩ := kidsOrdered_last_normal t.kids ho ⟨k, hk, hkn⟩
      rw [hl]
      simp only [hln, if_true]
      exact ⟨l.handle, rfl⟩

end Forest
end XotModel
