/-
  Tree-level lemmas for the C06 proofs: `find?`, `handles`, parent lookup, `ancestorsOf`.
  Everything here is a mutual structural induction over `HTree` / `List HTree`.
-/
import XotModel.Lemmas.ForestBasic

namespace XotModel
open HTree

/-! ### `find?` and `handles` -/

mutual
  theorem find?_handle (h : Nat) : ∀ (t t' : HTree), find? h t = some t' → t'.handle = h
    | .node h' v ks, t' => by
      unfold find?
      by_cases hh : h' = h
      · simp only [hh, if_true, Option.some.injEq]
        intro e; subst e; rfl
      · simp only [hh, if_false]
        exact findList?_handle h ks t'
  theorem findList?_handle (h : Nat) : ∀ (ks : List HTree) (t' : HTree),
      findList? h ks = some t' → t'.handle = h
    | [], t' => by simp [findList?]
    | k :: ks, t' => by
      unfold findList?
      cases hk : find? h k with
      | some t => simp only [Option.some.injEq]; intro e; subst e; exact find?_handle h k t hk
      | none => simp only; exact findList?_handle h ks t'
end

mutual
  theorem find?_isSome_iff (h : Nat) : ∀ t : HTree, (find? h t).isSome = true ↔ h ∈ handles t
    | .node h' v ks => by
      unfold find? handles
      by_cases hh : h' = h
      · simp [hh]
      · simp only [hh, if_false, List.mem_cons]
        rw [findList?_isSome_iff h ks]
        constructor
        · exact Or.inr
        · rintro (e | e)
          · exact absurd e.symm hh
          · exact e
  theorem findList?_isSome_iff (h : Nat) : ∀ ks : List HTree,
      (findList? h ks).isSome = true ↔ h ∈ handlesList ks
    | [] => by simp [findList?, handlesList]
    | k :: ks => by
      unfold findList? handlesList
      rw [List.mem_append, ← find?_isSome_iff h k, ← findList?_isSome_iff h ks]
      cases hk : find? h k <;> simp
end

theorem find?_none_iff (h : Nat) (t : HTree) : find? h t = none ↔ h ∉ handles t := by
  rw [← find?_isSome_iff]; cases find? h t <;> simp

theorem findList?_none_iff (h : Nat) (ks : List HTree) : findList? h ks = none ↔ h ∉ handlesList ks := by
  rw [← findList?_isSome_iff]; cases findList? h ks <;> simp

theorem find?_some_mem {h : Nat} {t t' : HTree} (e : find? h t = some t') : h ∈ handles t := by
  rw [← find?_isSome_iff, e]; rfl

theorem findList?_some_mem {h : Nat} {ks : List HTree} {t' : HTree} (e : findList? h ks = some t') :
    h ∈ handlesList ks := by
  rw [← findList?_isSome_iff, e]; rfl

mutual
  /-- The handles of a subtree found are handles of the whole. -/
  theorem find?_handles_sub (h : Nat) : ∀ (t t' : HTree), find? h t = some t' →
      ∀ x ∈ handles t', x ∈ handles t
    | .node h' v ks, t' => by
      unfold find?
      by_cases hh : h' = h
      · simp only [hh, if_true, Option.some.injEq]
        intro e; subst e; intro x hx; exact hx
      · simp only [hh, if_false]
        intro e x hx
        unfold handles
        exact List.mem_cons_of_mem _ (findList?_handles_sub h ks t' e x hx)
  theorem findList?_handles_sub (h : Nat) : ∀ (ks : List HTree) (t' : HTree),
      findList? h ks = some t' → ∀ x ∈ handles t', x ∈ handlesList ks
    | [], t' => by simp [findList?]
    | k :: ks, t' => by
      unfold findList? handlesList
      cases hk : find? h k with
      | some t =>
        simp only [Option.some.injEq]; intro e; subst e
        intro x hx; exact List.mem_append_left _ (find?_handles_sub h k t hk x hx)
      | none =>
        simp only; intro e x hx
        exact List.mem_append_right _ (findList?_handles_sub h ks t' e x hx)
end

theorem handle_mem_handles (t : HTree) : t.handle ∈ handles t := by
  cases t with | node h v ks => simp [handles, HTree.handle]

theorem handles_eq (t : HTree) : handles t = t.handle :: handlesList t.kids := by
  cases t with | node h v ks => simp [handles, HTree.handle, HTree.kids]

theorem fa_handlesList_append (a b : List HTree) :
    handlesList (a ++ b) = handlesList a ++ handlesList b := by
  induction a with
  | nil => simp [handlesList]
  | cons k ks ih => simp [handlesList, ih]

theorem handles_sub_of_mem {k : HTree} {ks : List HTree} (hk : k ∈ ks) :
    ∀ x ∈ handles k, x ∈ handlesList ks := by
  induction ks with
  | nil => cases hk
  | cons a ks ih =>
    intro x hx
    unfold handlesList
    rcases List.mem_cons.1 hk with e | e
    · subst e; exact List.mem_append_left _ hx
    · exact List.mem_append_right _ (ih e x hx)

/-! ### Leaves: only elements and documents have children -/

mutual
  /-- Only element and document nodes have children. -/
  def leafOk : HTree → Bool
    | .node _ v ks => (ks.isEmpty || v.isElement || v.isDocument) && leafOkList ks
  def leafOkList : List HTree → Bool
    | [] => true
    | k :: ks => leafOk k && leafOkList ks
end

theorem leafOkList_append (a b : List HTree) :
    leafOkList (a ++ b) = (leafOkList a && leafOkList b) := by
  induction a with
  | nil => simp [leafOkList]
  | cons k ks ih => simp [leafOkList, ih, Bool.and_assoc]

theorem leafOkList_of_mem {k : HTree} {ks : List HTree} (h : leafOkList ks = true) (hk : k ∈ ks) :
    leafOk k = true := by
  induction ks with
  | nil => cases hk
  | cons a ks ih =>
    simp only [leafOkList, Bool.and_eq_true] at h
    rcases List.mem_cons.1 hk with e | e
    · subst e; exact h.1
    · exact ih h.2 e

mutual
  theorem validTree_leafOk (b : Bool) : ∀ t : HTree, validTree b t = true → leafOk t = true
    | .node h v ks => by
      intro hv
      simp only [validTree, Bool.and_eq_true] at hv
      obtain ⟨⟨⟨⟨⟨h1, _⟩, _⟩, _⟩, _⟩, h6⟩ := hv
      simp only [leafOk, Bool.and_eq_true, Bool.or_eq_true]
      refine ⟨?_, validList_leafOk b ks h6⟩
      cases ks with
      | nil => simp
      | cons k ks =>
        simp only [List.all_cons, Bool.and_eq_true] at h1
        have := h1.1
        cases v <;> simp_all [kidAllowed, Value.isElement, Value.isDocument]
  theorem validList_leafOk (b : Bool) : ∀ ks : List HTree, validList b ks = true → leafOkList ks = true
    | [] => by simp [leafOkList]
    | k :: ks => by
      intro hv
      simp only [validList, Bool.and_eq_true] at hv
      simp only [leafOkList, Bool.and_eq_true]
      exact ⟨validTree_leafOk b k hv.1, validList_leafOk b ks hv.2⟩
end

mutual
  theorem find?_leafOk (h : Nat) : ∀ (t t' : HTree), leafOk t = true → find? h t = some t' →
      leafOk t' = true
    | .node h' v ks, t' => by
      intro hl
      unfold find?
      by_cases hh : h' = h
      · simp only [hh, if_true, Option.some.injEq]
        intro e; subst e; rw [← hh]; exact hl
      · simp only [hh, if_false]
        simp only [leafOk, Bool.and_eq_true] at hl
        exact findList?_leafOk h ks t' hl.2
  theorem findList?_leafOk (h : Nat) : ∀ (ks : List HTree) (t' : HTree), leafOkList ks = true →
      findList? h ks = some t' → leafOk t' = true
    | [], t' => by simp [findList?]
    | k :: ks, t' => by
      intro hl
      simp only [leafOkList, Bool.and_eq_true] at hl
      unfold findList?
      cases hk : find? h k with
      | some t => simp only [Option.some.injEq]; intro e; subst e; exact find?_leafOk h k t hl.1 hk
      | none => simp only; exact findList?_leafOk h ks t' hl.2
end

/-- A node that is neither element nor document has no children. -/
theorem leafOk_kids_nil {t : HTree} (hl : leafOk t = true) (he : t.value.isElement = false)
    (hd : t.value.isDocument = false) : t.kids = [] := by
  cases t with
  | node h v ks =>
    simp only [HTree.value] at he hd
    simp only [leafOk, Bool.and_eq_true, Bool.or_eq_true, he, hd, List.isEmpty_iff] at hl
    simpa [HTree.kids] using hl.1

/-! ### Sublists, `Nodup` of subtrees, finding a child -/

mutual
  theorem fa_find?_sublist (h : Nat) : ∀ (t t' : HTree), find? h t = some t' →
      (handles t').Sublist (handles t)
    | .node h' v ks, t' => by
      unfold find?
      by_cases hh : h' = h
      · simp only [hh, if_true, Option.some.injEq]
        intro e; subst e; exact List.Sublist.refl _
      · simp only [hh, if_false]
        intro e
        show (handles t').Sublist (h' :: handlesList ks)
        exact List.Sublist.cons _ (findList?_sublist h ks t' e)
  theorem findList?_sublist (h : Nat) : ∀ (ks : List HTree) (t' : HTree),
      findList? h ks = some t' → (handles t').Sublist (handlesList ks)
    | [], t' => by simp [findList?]
    | k :: ks, t' => by
      unfold findList? handlesList
      cases hk : find? h k with
      | some t =>
        simp only [Option.some.injEq]; intro e; subst e
        exact List.Sublist.trans (fa_find?_sublist h k t hk) (List.sublist_append_left _ _)
      | none =>
        simp only; intro e
        exact List.Sublist.trans (findList?_sublist h ks t' e) (List.sublist_append_right _ _)
end

theorem find?_self (t : HTree) : find? t.handle t = some t := by
  cases t with | node h v ks => simp [find?, HTree.handle]

theorem findList?_of_mem {k : HTree} : ∀ {ks : List HTree}, (handlesList ks).Nodup → k ∈ ks →
    findList? k.handle ks = some k
  | [], _, hk => by cases hk
  | a :: ks, hn, hk => by
    unfold handlesList at hn
    unfold findList?
    rcases List.mem_cons.1 hk with e | e
    · subst e; rw [find?_self]
    · have hks : k.handle ∈ handlesList ks := handles_sub_of_mem e _ (handle_mem_handles k)
      have hna : k.handle ∉ handles a := fun ha => (List.nodup_append.1 hn).2.2 _ ha _ hks rfl
      rw [(find?_none_iff _ _).2 hna]
      exact findList?_of_mem (List.nodup_append.1 hn).2.1 e

/-! ### Parent lookup without the accumulator -/

mutual
  /-- The parent component of `ctxBelow`. -/
  def parentBelow (h : Nat) : HTree → Option Nat
    | .node p _ ks => parentKids h p ks
  def parentKids (h p : Nat) : List HTree → Option Nat
    | [] => none
    | k :: ks =>
      if k.handle = h then some p
      else match parentBelow h k with
        | some q => some q
        | none => parentKids h p ks
end

mutual
  theorem ctxBelow_parent (h : Nat) : ∀ t : HTree,
      (ctxBelow h t).map (·.parent) = parentBelow h t
    | .node p v ks => by
      unfold ctxBelow parentBelow
      exact ctxKids_parent h p [] ks
  theorem ctxKids_parent (h p : Nat) : ∀ (acc ks : List HTree),
      (ctxKids h p acc ks).map (·.parent) = parentKids h p ks
    | _, [] => by simp [ctxKids, parentKids]
    | acc, k :: ks => by
      unfold ctxKids parentKids
      by_cases hk : k.handle = h
      · simp [hk]
      · simp only [hk, if_false]
        have := ctxBelow_parent h k
        cases hc : ctxBelow h k with
        | some c => rw [hc] at this; simp only [Option.map_some] at this; rw [← this]; rfl
        | none =>
          rw [hc] at this; simp only [Option.map_none] at this; rw [← this]
          exact ctxKids_parent h p (acc ++ [k]) ks
end

mutual
  theorem parentBelow_mem (h : Nat) : ∀ (t : HTree) (q : Nat), parentBelow h t = some q →
      h ∈ handlesList t.kids ∧ q ∈ handles t
    | .node p v ks, q => by
      unfold parentBelow
      intro e
      have := parentKids_mem h p ks q e
      refine ⟨this.1, ?_⟩
      unfold handles
      rcases this.2 with e | e
      · simp [e]
      · exact List.mem_cons_of_mem _ e
  theorem parentKids_mem (h p : Nat) : ∀ (ks : List HTree) (q : Nat), parentKids h p ks = some q →
      h ∈ handlesList ks ∧ (q = p ∨ q ∈ handlesList ks)
    | [], q => by simp [parentKids]
    | k :: ks, q => by
      unfold parentKids handlesList
      by_cases hk : k.handle = h
      · simp only [hk, if_true, Option.some.injEq]
        intro e
        exact ⟨List.mem_append_left _ (hk ▸ handle_mem_handles k), Or.inl e.symm⟩
      · simp only [hk, if_false]
        cases hc : parentBelow h k with
        | some q' =>
          simp only [Option.some.injEq]; intro e; subst e
          have := parentBelow_mem h k q' hc
          refine ⟨List.mem_append_left _ ?_, Or.inr (List.mem_append_left _ this.2)⟩
          rw [handles_eq]; exact List.mem_cons_of_mem _ this.1
        | none =>
          simp only; intro e
          have := parentKids_mem h p ks q e
          refine ⟨List.mem_append_right _ this.1, ?_⟩
          rcases this.2 with e | e
          · exact Or.inl e
          · exact Or.inr (List.mem_append_right _ e)
end

mutual
  theorem parentBelow_none (h : Nat) : ∀ (t : HTree), parentBelow h t = none →
      h ∉ handlesList t.kids
    | .node p v ks => by
      unfold parentBelow
      exact parentKids_none h p ks
  theorem parentKids_none (h p : Nat) : ∀ (ks : List HTree), parentKids h p ks = none →
      h ∉ handlesList ks
    | [] => by simp [handlesList]
    | k :: ks => by
      unfold parentKids handlesList
      by_cases hk : k.handle = h
      · simp [hk]
      · simp only [hk, if_false]
        cases hc : parentBelow h k with
        | some q' => simp
        | none =>
          simp only; intro e
          rw [List.mem_append, handles_eq]
          rintro (hm | hm)
          · rcases List.mem_cons.1 hm with e' | e'
            · exact hk e'.symm
            · exact parentBelow_none h k hc e'
          · exact parentKids_none h p ks e hm
end

theorem parentBelow_none_of_not_mem {h : Nat} {t : HTree} (hm : h ∉ handles t) :
    parentBelow h t = none := by
  cases hc : parentBelow h t with
  | none => rfl
  | some q =>
    have := (parentBelow_mem h t q hc).1
    rw [handles_eq] at hm
    exact absurd (List.mem_cons_of_mem _ this) hm

theorem parentKids_none_of_not_mem {h p : Nat} {ks : List HTree} (hm : h ∉ handlesList ks) :
    parentKids h p ks = none := by
  cases hc : parentKids h p ks with
  | none => rfl
  | some q => exact absurd (parentKids_mem h p ks q hc).1 hm

theorem parentKids_of_mem {k : HTree} (p : Nat) : ∀ {ks : List HTree}, (handlesList ks).Nodup → k ∈ ks →
    parentKids k.handle p ks = some p
  | [], _, hk => by cases hk
  | a :: ks, hn, hk => by
    unfold handlesList at hn
    unfold parentKids
    by_cases ha : a.handle = k.handle
    · simp [ha]
    · simp only [ha, if_false]
      rcases List.mem_cons.1 hk with e | e
      · subst e; exact absurd rfl ha
      · have hks : k.handle ∈ handlesList ks := handles_sub_of_mem e _ (handle_mem_handles k)
        have hna : k.handle ∉ handles a := fun h' => (List.nodup_append.1 hn).2.2 _ h' _ hks rfl
        rw [parentBelow_none_of_not_mem hna]
        exact parentKids_of_mem p (List.nodup_append.1 hn).2.1 e

end XotModel
