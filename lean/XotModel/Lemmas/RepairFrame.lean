/-
  `create_missing_prefixes_for_element` on the whole tree: what `scopeModifyAt` at the element's path
  leaves alone (everything but namespace nodes inside the element; the declarations of the ancestors),
  and the call unfolded into walk, prefix assignment and rebuilt element.
-/
import XotModel.Lemmas.RepairTop
import XotModel.Lemmas.Doctype

namespace XotModel.Repair
open XotModel

/-! ### The tree without its namespace nodes -/

mutual
/-- The tree with every namespace node removed: names, attributes and content. -/
def stripNs : Tree → Tree
  | .node v ks => .node v (stripNsKids ks)
def stripNsKids : List Tree → List Tree
  | [] => []
  | k :: ks => if k.value.category == .namespace then stripNsKids ks else stripNs k :: stripNsKids ks
end

theorem stripNsKids_insertNsKid (p ns : Nat) (ks : List Tree) :
    stripNsKids (insertNsKid p ns ks) = stripNsKids ks := by
  induction ks with
  | nil => simp [insertNsKid, stripNsKids, Tree.value, Value.category]
  | cons k ks ih =>
    cases k with
    | node kv kk =>
      cases kv with
      | «namespace» q m =>
        simp only [insertNsKid, Tree.value]
        by_cases hq : (q == p) = true
        · simp [hq, stripNsKids, Tree.value, Value.category]
        · simp [hq, stripNsKids, Tree.value, Value.category, ih]
      | _ => simp [insertNsKid, stripNsKids, Tree.value, Value.category]

theorem stripNs_insertNamespace (p ns : Nat) (t : Tree) : stripNs (insertNamespace p ns t) = stripNs t := by
  cases t with
  | node v ks => simp only [insertNamespace, stripNs, stripNsKids_insertNsKid]

theorem stripNs_insertNamespaces (nd : List (Nat × Nat)) (t : Tree) :
    stripNs (insertNamespaces nd t) = stripNs t := by
  unfold insertNamespaces
  induction nd generalizing t with
  | nil => rfl
  | cons d nd ih => simp only [List.foldl_cons]; rw [ih, stripNs_insertNamespace]

mutual
theorem stripNs_rebuild (nsOf : Nat → Nat) (nd : List (Nat × Nat)) : ∀ (x : Tree) (b : Bool)
    (top : List (Nat × Nat)), stripNs (rebuild nsOf nd b top x) = stripNs x
  | .node v ks, b, top => by
    by_cases hv : v.isElement = true
    · cases v <;> simp [Value.isElement] at hv
      rename_i name
      simp only [rebuild]
      split <;> split <;>
        simp only [stripNs_insertNamespace, stripNs_insertNamespaces, stripNs, stripNsKids_rebuildKids]
    · have hve : v.isElement = false := by simpa using hv
      rw [rebuild_other nsOf nd b top v ks hve]
      split <;> simp only [stripNs_insertNamespaces, stripNs, stripNsKids_rebuildKids]
theorem stripNsKids_rebuildKids (nsOf : Nat → Nat) (nd : List (Nat × Nat)) : ∀ (ks : List Tree)
    (top : List (Nat × Nat)), stripNsKids (rebuildKids nsOf nd top ks) = stripNsKids ks
  | [], _ => by simp [rebuildKids]
  | k :: ks, top => by
    simp only [rebuildKids, stripNsKids, value_rebuild, stripNs_rebuild nsOf nd k false top,
      stripNsKids_rebuildKids nsOf nd ks top]
end

/-! ### `scopeModifyAt` -/

theorem scopeModifyAt_nil (f : Tree → Tree) (t : Tree) : scopeModifyAt f t [] = f t := by
  cases t; rfl

theorem scopeModifyAt_cons (f : Tree → Tree) (v : Value) (ks : List Tree) (i : Nat) (p : Path) :
    scopeModifyAt f (.node v ks) (i :: p) = .node v (ks.modify i (fun k => scopeModifyAt f k p)) := rfl

theorem modify_eq_of_none {α : Type} (l : List α) (i : Nat) (g : α → α) (h : l[i]? = none) :
    l.modify i g = l := by
  induction l generalizing i with
  | nil => simp
  | cons a l ih =>
    cases i with
    | zero => simp at h
    | succ i => simp only [List.modify_succ_cons]; rw [ih i (by simpa using h)]

theorem modify_eq_set {α : Type} (l : List α) (i : Nat) (g : α → α) (a : α) (h : l[i]? = some a) :
    l.modify i g = l.set i (g a) := by
  induction l generalizing i with
  | nil => simp at h
  | cons b l ih =>
    cases i with
    | zero => simp at h; subst h; simp
    | succ i => simp only [List.modify_succ_cons, List.set_cons_succ]; rw [ih i (by simpa using h)]

theorem set_eq_self_of_getElem? {α : Type} (l : List α) (i : Nat) (a : α) (h : l[i]? = some a) :
    l.set i a = l := by
  induction l generalizing i with
  | nil => simp
  | cons b l ih =>
    cases i with
    | zero => simp at h; subst h; simp
    | succ i => simp only [List.set_cons_succ]; rw [ih i (by simpa using h)]

/-- Same result when the two functions agree on the node at the path. -/
theorem scopeModifyAt_congr (f g : Tree → Tree) : ∀ (path : Path) (t : Tree),
    (∀ x, t.at? path = some x → f x = g x) → scopeModifyAt f t path = scopeModifyAt g t path
  | [], t, h => by rw [scopeModifyAt_nil, scopeModifyAt_nil]; exact h t rfl
  | i :: p, .node v ks, h => by
    rw [scopeModifyAt_cons, scopeModifyAt_cons]
    cases hk : ks[i]? with
    | none => rw [modify_eq_of_none _ _ _ hk, modify_eq_of_none _ _ _ hk]
    | some k =>
      rw [modify_eq_set _ _ _ k hk, modify_eq_set _ _ _ k hk,
        scopeModifyAt_congr f g p k (fun x hx => h x (by rw [at?_cons, hk]; exact hx))]

theorem at?_scopeModifyAt (f : Tree → Tree) : ∀ (path : Path) (t : Tree),
    (scopeModifyAt f t path).at? path = (t.at? path).map f
  | [], t => by rw [scopeModifyAt_nil]; rfl
  | i :: p, .node v ks => by
    rw [scopeModifyAt_cons, at?_cons, at?_cons]
    cases hk : ks[i]? with
    | none => rw [modify_eq_of_none _ _ _ hk, hk]; rfl
    | some k =>
      rw [modify_eq_set _ _ _ k hk]
      have hlt : i < ks.length := by
        rcases Nat.lt_or_ge i ks.length with h | h
        · exact h
        · rw [List.getElem?_eq_none h] at hk; cases hk
      rw [List.getElem?_set_self hlt]
      simp only [Option.bind_some]
      exact at?_scopeModifyAt f p k

/-- Modifying at the path with the node found there. -/
theorem scopeModifyAt_const (f : Tree → Tree) (path : Path) (t E : Tree) (h : t.at? path = some E) :
    scopeModifyAt f t path = scopeModifyAt (fun _ => f E) t path :=
  scopeModifyAt_congr f (fun _ => f E) path t (fun x hx => by rw [h] at hx; cases hx; rfl)

theorem scopeModifyAt_id : ∀ (path : Path) (t E : Tree), t.at? path = some E →
    scopeModifyAt (fun _ => E) t path = t
  | [], t, E, h => by rw [scopeModifyAt_nil]; simp only [Tree.at?, Option.some.injEq] at h; exact h.symm
  | i :: p, .node v ks, E, h => by
    rw [scopeModifyAt_cons]
    rw [at?_cons] at h
    cases hk : ks[i]? with
    | none => rw [hk] at h; cases h
    | some k =>
      rw [hk] at h
      simp only [Option.bind_some] at h
      rw [modify_eq_set _ _ _ k hk, scopeModifyAt_id p k E h, set_eq_self_of_getElem? _ _ _ hk]

/-- Values along the way, and everywhere, stay. -/
theorem value_scopeModifyAt (f : Tree → Tree) : ∀ (path : Path) (t : Tree),
    (∀ x, t.at? path = some x → (f x).value = x.value) → (scopeModifyAt f t path).value = t.value
  | [], t, h => by rw [scopeModifyAt_nil]; exact h t rfl
  | _ :: _, .node _ _, _ => rfl

theorem map_value_modify (ks : List Tree) (i : Nat) (g : Tree → Tree)
    (h : ∀ k, ks[i]? = some k → (g k).value = k.value) :
    (ks.modify i g).map Tree.value = ks.map Tree.value := by
  induction ks generalizing i with
  | nil => simp
  | cons a ks ih =>
    cases i with
    | zero => simp [h a (by simp)]
    | succ i =>
      simp only [List.modify_succ_cons, List.map_cons]
      rw [ih i (fun k hk => h k (by simpa using hk))]

theorem stripNsKids_modify (ks : List Tree) (i : Nat) (g : Tree → Tree)
    (h : ∀ k, ks[i]? = some k → (g k).value = k.value ∧ stripNs (g k) = stripNs k) :
    stripNsKids (ks.modify i g) = stripNsKids ks := by
  induction ks generalizing i with
  | nil => simp
  | cons a ks ih =>
    cases i with
    | zero =>
      obtain ⟨h1, h2⟩ := h a (by simp)
      simp [stripNsKids, h1, h2]
    | succ i =>
      simp only [List.modify_succ_cons, stripNsKids]
      rw [ih i (fun k hk => h k (by simpa using hk))]

theorem stripNs_scopeModifyAt (f : Tree → Tree) : ∀ (path : Path) (t : Tree),
    (∀ x, t.at? path = some x → (f x).value = x.value ∧ stripNs (f x) = stripNs x) →
    stripNs (scopeModifyAt f t path) = stripNs t
  | [], t, h => by rw [scopeModifyAt_nil]; exact (h t rfl).2
  | i :: p, .node v ks, h => by
    rw [scopeModifyAt_cons]
    simp only [stripNs]
    rw [stripNsKids_modify]
    intro k hk
    have hx : ∀ x, k.at? p = some x → (f x).value = x.value ∧ stripNs (f x) = stripNs x :=
      fun x hx => h x (by rw [at?_cons, hk]; exact hx)
    exact ⟨value_scopeModifyAt f p k (fun x h' => (hx x h').1), stripNs_scopeModifyAt f p k hx⟩

/-- The declarations of every proper ancestor of the modified node stay. -/
theorem nsDecls_scopeModifyAt_below (f : Tree → Tree) (i : Nat) (r : Path) (t : Tree)
    (h : ∀ x, t.at? (i :: r) = some x → (f x).value = x.value) :
    (scopeModifyAt f t (i :: r)).nsDecls = t.nsDecls := by
  cases t with
  | node v ks =>
    rw [scopeModifyAt_cons, nsDecls_node, nsDecls_node]
    apply declsOfKids_congr
    apply map_value_modify
    intro k hk
    exact value_scopeModifyAt f r k (fun x hx => h x (by rw [at?_cons, hk]; exact hx))

theorem ancestors_scopeModifyAt_below (f : Tree → Tree) : ∀ (p : Path) (i : Nat) (r : Path) (t : Tree),
    (∀ x, t.at? (p ++ i :: r) = some x → (f x).value = x.value) →
    ((scopeModifyAt f t (p ++ i :: r)).ancestorsOrSelf p).map (List.map Tree.nsDecls) =
      (t.ancestorsOrSelf p).map (List.map Tree.nsDecls)
  | [], i, r, t, h => by
    simp only [List.nil_append, Tree.ancestorsOrSelf, Option.map_some, List.map_cons, List.map_nil]
    rw [nsDecls_scopeModifyAt_below f i r t h]
  | j :: p, i, r, .node v ks, h => by
    have hd : (scopeModifyAt f (.node v ks) (j :: p ++ i :: r)).nsDecls = (Tree.node v ks).nsDecls :=
      nsDecls_scopeModifyAt_below f j (p ++ i :: r) _ h
    simp only [List.cons_append] at hd ⊢
    rw [scopeModifyAt_cons] at hd ⊢
    simp only [Tree.ancestorsOrSelf, Tree.kids]
    cases hk : ks[j]? with
    | none => rw [modify_eq_of_none _ _ _ hk, hk]
    | some k =>
      have hlt : j < ks.length := by
        rcases Nat.lt_or_ge j ks.length with h' | h'
        · exact h'
        · rw [List.getElem?_eq_none h'] at hk; cases hk
      rw [modify_eq_set _ _ _ k hk, List.getElem?_set_self hlt]
      dsimp only
      have ih := ancestors_scopeModifyAt_below f p i r k
        (fun x hx => h x (by simp only [List.cons_append]; rw [at?_cons, hk]; exact hx))
      rw [modify_eq_set _ _ _ k hk] at hd
      cases h1 : (scopeModifyAt f k (p ++ i :: r)).ancestorsOrSelf p with
      | none =>
        rw [h1] at ih
        cases h2 : k.ancestorsOrSelf p with
        | none => rfl
        | some c => rw [h2] at ih; cases ih
      | some c1 =>
        rw [h1] at ih
        cases h2 : k.ancestorsOrSelf p with
        | none => rw [h2] at ih; cases ih
        | some c2 =>
          rw [h2] at ih
          simp only [Option.map_some, Option.some.injEq] at ih ⊢
          simp only [List.map_append, List.map_cons, List.map_nil, ih, hd]

/-- `namespaces_in_scope` reads the declarations of the chain only. -/
theorem traverseChain_congr : ∀ (c1 c2 : List Tree) (seen : List Nat),
    c1.map Tree.nsDecls = c2.map Tree.nsDecls → traverseChain seen c1 = traverseChain seen c2
  | [], [], _, _ => rfl
  | [], _ :: _, _, h => by simp at h
  | _ :: _, [], _, h => by simp at h
  | a :: c1, b :: c2, seen, h => by
    simp only [List.map_cons, List.cons.injEq] at h
    simp only [traverseChain, h.1]
    rw [traverseChain_congr c1 c2 _ h.2]

theorem namespacesInScopeChain_congr (c1 c2 : List Tree) (h : c1.map Tree.nsDecls = c2.map Tree.nsDecls) :
    namespacesInScopeChain c1 = namespacesInScopeChain c2 := by
  unfold namespacesInScopeChain
  rw [traverseChain_congr c1 c2 [] h]

/-- The declarations the element inherits are the scope of the rest of its ancestor chain. -/
theorem inheritedDecls_eq (t : Tree) (path : Path) (E : Tree) (rest : List Tree)
    (h : t.ancestorsOrSelf path = some (E :: rest)) :
    inheritedDecls t path = namespacesInScopeChain rest := by
  unfold inheritedDecls
  rcases List.eq_nil_or_concat path with rfl | ⟨p, i, hp⟩
  · simp only [Tree.ancestorsOrSelf, Option.some.injEq, List.cons.injEq] at h
    rw [← h.2]
    rfl
  · rw [List.concat_eq_append] at hp
    subst hp
    have hne : (p ++ [i]).isEmpty = false := by cases p <;> rfl
    simp only [hne, Bool.false_eq_true, if_false, List.dropLast_concat]
    cases hc : t.ancestorsOrSelf p with
    | none =>
      -- the chain of the child extends the chain of the parent
      exfalso
      have : ∀ (p : Path) (t : Tree), t.ancestorsOrSelf p = none → t.ancestorsOrSelf (p ++ [i]) = none := by
        intro p
        induction p with
        | nil => intro t ht; simp [Tree.ancestorsOrSelf] at ht
        | cons j p ih =>
          intro t ht
          simp only [Tree.ancestorsOrSelf, List.cons_append] at ht ⊢
          cases hk : t.kids[j]? with
          | none => rfl
          | some k =>
            simp only [hk, Option.map_eq_none_iff] at ht ⊢
            exact ih k ht
      rw [this p t hc] at h
      cases h
    | some chain =>
      have hat : ∃ el, t.at? (p ++ [i]) = some el := by
        have : ∀ (q : Path) (t : Tree) (c : List Tree), t.ancestorsOrSelf q = some c → ∃ el, t.at? q = some el := by
          intro q
          induction q with
          | nil => intro t c _; exact ⟨t, rfl⟩
          | cons j q ih =>
            intro t c hc
            cases t with
            | node v ks =>
              simp only [Tree.ancestorsOrSelf, Tree.kids] at hc
              rw [at?_cons]
              cases hk : ks[j]? with
              | none => simp [hk] at hc
              | some k =>
                simp only [hk] at hc
                cases hq : k.ancestorsOrSelf q with
                | none => simp [hq] at hc
                | some c' => exact ih k c' hq
        exact this _ t _ h
      obtain ⟨el, hel⟩ := hat
      have := ancestorsOrSelf_child t p i chain el hc hel
      rw [this] at h
      simp only [Option.some.injEq, List.cons.injEq] at h
      simp [namespacesInScope, hc, h.2]

/-! ### The call, unfolded -/

theorem repairElement_eq (env : Env) (t : Tree) (path : Path) (E : Tree) (hat : t.at? path = some E) :
    repairElement env t path =
      match assignPrefixes env
          ((collectRec env.nsOfName (inheritedDecls t path) path E ⟨[], [], []⟩).used ++
            ((namespacesInScope t path).getD []).map (·.1)) 0
          (collectRec env.nsOfName (inheritedDecls t path) path E ⟨[], [], []⟩).missing with
      | none => .panic
      | some r => .ok (r.1, scopeModifyAt
          (fun _ => rebuild env.nsOfName r.2 true (inheritedDecls t path) E) t path) := by
  unfold repairElement
  simp only [hat, repairWalk_eq, withAcc, Bool.false_eq_true, if_false]
  cases assignPrefixes env _ 0 _ with
  | none => rfl
  | some r =>
    obtain ⟨env', nd⟩ := r
    simp only
    rw [scopeModifyAt_const _ path t E hat, applyRepair_walk]

end XotModel.Repair
