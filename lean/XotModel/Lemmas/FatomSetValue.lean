/-
  C06 lemmas: what `setValue` changes (one value) and what it keeps (handles, parents, leaves).
-/
import XotModel.Lemmas.FatomForest

namespace XotModel
open HTree

theorem handle_mapAt_setValue (h : Nat) (v : Value) (t : HTree) :
    (mapAt h (HTree.setValue v) t).handle = t.handle := by
  cases t with
  | node h' v' ks =>
    unfold mapAt
    by_cases hh : h' = h <;> simp [hh, HTree.setValue, HTree.handle]

mutual
  theorem parentBelow_mapAt_setValue (x h : Nat) (v : Value) : ∀ t : HTree,
      parentBelow x (mapAt h (HTree.setValue v) t) = parentBelow x t
    | .node h' v' ks => by
      unfold mapAt
      by_cases hh : h' = h
      · simp [hh, HTree.setValue, parentBelow]
      · simp only [hh, if_false, parentBelow]
        exact parentKids_mapAtList_setValue x h' h v ks
  theorem parentKids_mapAtList_setValue (x p h : Nat) (v : Value) : ∀ ks : List HTree,
      parentKids x p (mapAtList h (HTree.setValue v) ks) = parentKids x p ks
    | [] => by simp [mapAtList]
    | k :: ks => by
      simp only [mapAtList, parentKids, handle_mapAt_setValue]
      rw [parentBelow_mapAt_setValue x h v k, parentKids_mapAtList_setValue x p h v ks]
end

mutual
  theorem find?_mapAt_setValue (x h : Nat) (v : Value) : ∀ t : HTree,
      (find? x (mapAt h (HTree.setValue v) t)).map HTree.value =
        if x = h then (find? x t).map (fun _ => v) else (find? x t).map HTree.value
    | .node h' v' ks => by
      unfold mapAt
      by_cases hh : h' = h
      · subst hh
        by_cases hx : x = h'
        · subst hx; simp [HTree.setValue, find?, HTree.value]
        · have hx' : ¬ h' = x := fun e => hx e.symm
          simp [HTree.setValue, find?, hx, hx']
      · simp only [hh, if_false]
        unfold find?
        by_cases hx : h' = x
        · subst hx; simp [hh, HTree.value]
        · simp only [hx, if_false]
          exact findList?_mapAtList_setValue x h v ks
  theorem findList?_mapAtList_setValue (x h : Nat) (v : Value) : ∀ ks : List HTree,
      (findList? x (mapAtList h (HTree.setValue v) ks)).map HTree.value =
        if x = h then (findList? x ks).map (fun _ => v) else (findList? x ks).map HTree.value
    | [] => by simp [mapAtList, findList?]
    | k :: ks => by
      simp only [mapAtList, findList?]
      have hk := find?_mapAt_setValue x h v k
      have hks := findList?_mapAtList_setValue x h v ks
      cases h1 : find? x (mapAt h (HTree.setValue v) k) with
      | some t1 =>
        rw [h1] at hk
        cases h2 : find? x k with
        | some t2 => rw [h2] at hk; simpa using hk
        | none => rw [h2] at hk; by_cases hx : x = h <;> simp [hx] at hk
      | none =>
        rw [h1] at hk
        cases h2 : find? x k with
        | some t2 => rw [h2] at hk; by_cases hx : x = h <;> simp [hx] at hk
        | none => simpa using hks
end

mutual
  theorem leafOk_mapAt (h : Nat) (g : HTree → HTree) : ∀ t : HTree, (handles t).Nodup →
      leafOk t = true → (∀ t', find? h t = some t' → leafOk (g t') = true) →
      leafOk (mapAt h g t) = true
    | .node h' v' ks => by
      intro hn hl hg
      unfold mapAt
      by_cases hh : h' = h
      · simp only [hh, if_true]
        apply hg
        simp [find?, hh]
      · simp only [hh, if_false]
        unfold handles at hn
        simp only [leafOk, Bool.and_eq_true] at hl ⊢
        refine ⟨?_, leafOkList_mapAtList h g ks (List.nodup_cons.1 hn).2 hl.2 ?_⟩
        · cases ks with
          | nil => simp [mapAtList]
          | cons k ks =>
            simp only [List.isEmpty_cons, Bool.false_or, Bool.or_eq_true] at hl
            simp only [mapAtList, List.isEmpty_cons, Bool.false_or, Bool.or_eq_true]
            exact hl.1
        · intro t' e; apply hg; simp [find?, hh, e]
  theorem leafOkList_mapAtList (h : Nat) (g : HTree → HTree) : ∀ ks : List HTree,
      (handlesList ks).Nodup → leafOkList ks = true →
      (∀ t', findList? h ks = some t' → leafOk (g t') = true) →
      leafOkList (mapAtList h g ks) = true
    | [] => by simp [mapAtList, leafOkList]
    | k :: ks => by
      intro hn hl hg
      unfold handlesList at hn
      have hna := List.nodup_append.1 hn
      simp only [leafOkList, Bool.and_eq_true, mapAtList] at hl ⊢
      refine ⟨leafOk_mapAt h g k hna.1 hl.1 ?_, leafOkList_mapAtList h g ks hna.2.1 hl.2 ?_⟩
      · intro t' e; apply hg; simp [findList?, e]
      · intro t' e; apply hg
        have hm : h ∈ handlesList ks := findList?_some_mem e
        have : h ∉ handles k := fun h' => hna.2.2 _ h' _ hm rfl
        simp [findList?, (find?_none_iff _ _).2 this, e]
end

namespace Forest

@[simp] theorem setValue_corrupt (f : Forest) (h : Nat) (v : Value) :
    (f.setValue h v).corrupt = f.corrupt := rfl
@[simp] theorem setValue_consolidation (f : Forest) (h : Nat) (v : Value) :
    (f.setValue h v).consolidation = f.consolidation := rfl
@[simp] theorem setValue_next (f : Forest) (h : Nat) (v : Value) :
    (f.setValue h v).next = f.next := rfl
@[simp] theorem setValue_everOff (f : Forest) (h : Nat) (v : Value) :
    (f.setValue h v).everOff = f.everOff := rfl

theorem setValue_parent? (f : Forest) (h : Nat) (v : Value) (x : Nat) :
    (f.setValue h v).parent? x = f.parent? x := by
  rw [parent?_eq, parent?_eq]
  unfold setValue
  simp only
  induction f.roots with
  | nil => rfl
  | cons r rs ih =>
    simp only [List.map_cons, List.findSome?_cons, parentBelow_mapAt_setValue, ih]

theorem setValue_value? (f : Forest) (h : Nat) (v : Value) (x : Nat) :
    (f.setValue h v).value? x = if x = h then (f.value? x).map (fun _ => v) else f.value? x := by
  unfold value? get? setValue
  simp only
  rw [← mapAtList_eq_map]
  have := findList?_mapAtList_setValue x h v f.roots
  rw [this]
  by_cases hx : x = h
  · simp only [hx, if_true, Option.map_map]; rfl
  · simp only [hx, if_false]

theorem setValue_isLive (f : Forest) (h : Nat) (v : Value) (x : Nat) :
    (f.setValue h v).isLive x = f.isLive x := by
  rw [isLive_iff_value?, isLive_iff_value?, setValue_value?]
  by_cases hx : x = h <;> simp [hx]

theorem setValue_W {f : Forest} (w : f.W) (h : Nat) (v : Value)
    (hv : ∀ t, f.get? h = some t → t.kids = [] ∨ v.isElement = true ∨ v.isDocument = true) :
    (f.setValue h v).W := by
  refine ⟨by rw [allHandles_setValue]; exact w.nodup, ?_,
    by rw [allHandles_setValue]; exact w.below⟩
  unfold setValue
  simp only
  rw [← mapAtList_eq_map]
  apply leafOkList_mapAtList h _ f.roots w.nodup w.leaves
  intro t' e
  have hl := findList?_leafOk h f.roots t' w.leaves e
  cases t' with
  | node h' v' ks =>
    simp only [HTree.setValue, leafOk, Bool.and_eq_true, Bool.or_eq_true] at hl ⊢
    refine ⟨?_, hl.2⟩
    rcases hv _ e with hk | hk | hk
    · simp only [HTree.kids] at hk; simp [hk]
    · simp [hk]
    · simp [hk]

end Forest
end XotModel
