/-
  FspecPairAppend4 — what `append` does in the corner excluded from `append_pair`
  (`Spec.selfMerge`, recorded finding `C05:move-changes-character-data`): the call succeeds and the
  moved text node is destroyed (merged "into itself").
-/
import XotModel.Lemmas.FspecPairAppend3
import XotModel.Lemmas.FspecReplGapNF

namespace XotModel
open HTree Spec

namespace PairAppend

/-- `selfMerge` for `append`, unpacked. -/
theorem selfMerge_unpack {f : Forest} {p c : Nat} (h : selfMerge f (.lastChildOf p) c = true) :
    f.consolidation = true ∧ ∃ l' a t b, f.ctx? c = some ⟨p, l' ++ [a], t, [b]⟩ ∧
      t.value.isText = true ∧ a.value.isText = true ∧ b.value.isText = true := by
  unfold selfMerge at h
  rw [Bool.and_eq_true] at h
  obtain ⟨hc, h⟩ := h
  refine ⟨hc, ?_⟩
  cases hctx : f.ctx? c with
  | none => rw [hctx] at h; cases h
  | some cx =>
    rw [hctx] at h
    obtain ⟨po, l, t, r⟩ := cx
    simp only [Bool.and_eq_true] at h
    obtain ⟨⟨ht, ha⟩, hr⟩ := h
    cases hl : l.getLast? with
    | none => rw [hl] at ha; cases ha
    | some a =>
      rw [hl] at ha
      simp only at ha
      obtain ⟨l', el⟩ := List.getLast?_eq_some_iff.1 hl
      cases r with
      | nil => cases hr
      | cons b rest =>
        simp only [Bool.and_eq_true, beq_iff_eq, List.isEmpty_iff] at hr
        obtain ⟨hb, hp, hrest⟩ := hr
        subst hp hrest el
        exact ⟨l', a, t, b, rfl, ht, ha, hb⟩

end PairAppend

open PairAppend

/-- **The defect** (`C05:move-changes-character-data`): in the corner `selfMerge` the call
    `append` succeeds and the moved text node is gone afterwards. -/
theorem append_selfMerge {f : Forest} {p c : Nat} (inv : f.Inv)
    (h : selfMerge f (.lastChildOf p) c = true) :
    (f.append p c).2 = .ok ∧ (f.append p c).1.isLive c = false := by
  have nd := inv.nodup
  obtain ⟨hc, l', a, t, b, hctx, htt, hat, hbt⟩ := selfMerge_unpack h
  obtain ⟨e0, vo, so⟩ := SiteAt.of_ctx nd hctx
  simp only at e0 so
  subst e0
  obtain ⟨ndL, hpL⟩ := so.nodupKids
  obtain ⟨tl, tr⟩ := tops_ne_of_nodup ndL
  have hgc : f.get? t.handle = some t := so.getKid
  have hleaf : t.kids = [] := leaf_of_text inv.valid hgc htt
  have hpt : p ∉ handles t := by
    intro hin
    apply hpL
    rw [fs_handlesList_append, handlesList_cons]
    exact List.mem_append_right _ (List.mem_append_left _ hin)
  have hvo : vo.isElement = true ∨ vo.isDocument = true := by
    have hv := (validTree_node (so.valid inv.valid)).1 t (by simp)
    cases vo <;> simp_all [kidAllowed, Value.isElement, Value.isDocument]
  have hnorm : t.value.isNormal = true := isNormal_of_text htt
  have hndoc : t.value.isDocument = false := by
    cases hv : t.value <;> rw [hv] at htt <;> simp_all [Value.isText, Value.isDocument]
  have hsc : f.structureCheck (some p) t.handle = true :=
    ReplGapNF.structureCheck_pack nd so.kids hvo hgc hpt hnorm hndoc
  have hsame' : ¬ f.lastChild p = some t.handle := by
    rw [Forest.lastChild_of_get so.kids]
    have e : (l' ++ [a]) ++ t :: [b] = (l' ++ [a] ++ [t]) ++ [b] := by simp
    rw [e, lastOf_concat, if_pos (isNormal_of_text hbt)]
    intro e'
    exact tr b (by simp) (Option.some.inj e')
  rw [append_eq_tail hsc hsame', Forest.prevSibling_of_ctx hctx, Forest.nextSibling_of_ctx hctx]
  simp only
  obtain ⟨l1, r1, O⟩ := old_pair inv so
  rcases O.shape with ⟨_, _, hno⟩ | ⟨_, l2, a2, b2, r2, x, y, el, er, hx, hy, e1, e2⟩
  · exact absurd ⟨hat, hbt⟩ (hno hc a b (by simp) rfl)
  · have hr2 : r2 = [] := by
      have := congrArg List.tail er
      simpa using this.symm
    rw [hr2] at e2
    have sX := O.sX
    rw [e2] at sX
    generalize (f.removeConsolidate (prevOf (l' ++ [a]) t) (nextOf [b] t)).1 = X at sX O ⊢
    have hcX : X.consolidation = true := O.cons_eq.trans hc
    obtain ⟨tc, htd⟩ := isText_iff_textData.1 htt
    have hXtext : X.textOf t.handle = some tc := (Forest.textOf_of_get sX.getKid).trans htd
    have hlastX : X.lastChild p = some t.handle := by
      rw [Forest.lastChild_of_get sX.kids]; exact lastOf_self hnorm
    have hadd : X.addConsolidate t.handle (X.lastChild p) none =
        ((X.setValue t.handle (.text (tc ++ tc))).spliceOut t.handle, true) := by
      rw [hlastX]
      exact Forest.addConsolidate_prev hcX hXtext hXtext none
    unfold appendTail
    rw [hadd]
    simp only [if_true, true_and]
    -- the forest after the "merge into itself"
    let t' := t.setValue (.text (tc ++ tc))
    let S : List HTree → List HTree := replaceTop t.handle (fun k => [k.setValue (.text (tc ++ tc))])
    obtain ⟨ndL1, _⟩ := sX.nodupKids
    have hSL : S (l1 ++ t :: []) = l1 ++ t' :: [] := by
      simp only [S]
      rw [replaceTop_mid rfl (tops_ne_of_nodup ndL1).1]
      simp [t']
    have sZ : SiteAt (X.editAt (some p) S) p vo (l1 ++ t' :: []) := by
      have := sX.edit S (by simp only [S]; rw [handlesList_setValTop]; exact List.Sublist.refl _)
      rwa [hSL] at this
    have hth : t'.handle = t.handle := setValue_handle _ _
    have hgZ : (X.editAt (some p) S).get? t.handle = some t' := hth ▸ sZ.getKid
    have hparZ : (X.editAt (some p) S).parent? t.handle = some p := hth ▸ Forest.parent?_of_ctx sZ.ctx
    rw [Forest.setValue_of_ctx _ sX.nd sX.ctx,
      Forest.spliceOut_leaf sZ.nd hgZ (by simp only [t']; rw [setValue_kids]; exact hleaf), hparZ]
    obtain ⟨ndLZ, _⟩ := sZ.nodupKids
    obtain ⟨tlZ, trZ⟩ := tops_ne_of_nodup ndLZ
    have hcount := sZ.count (dropTop t.handle) t.handle
    rw [dropTop_mid hth (fun k hk => hth ▸ tlZ k hk) (fun k hk => hth ▸ trZ k hk), count_handles_mid] at hcount
    have h1 := List.nodup_iff_count.1 sZ.nd t.handle
    have h2 : 0 < (handles t').count t.handle :=
      List.count_pos_iff.2 (hth ▸ fs_handle_mem_handles t')
    have h0 : ((X.editAt (some p) S).editAt (some p) (dropTop t.handle)).allHandles.count t.handle = 0 := by omega
    unfold Forest.isLive
    rw [Forest.get?_eq, findList?_eq_none _ (List.count_eq_zero.1 h0)]
    rfl

/-- The hypothesis of `append_selfMerge` is satisfiable: `append(e, c)` on the children `a b c d`
    (`b` and `d` are merged, `c` is then the last child already); the model's result differs from
    the pair reading, which keeps the data of `c`. -/
example :
    PairAppend.witness.inv = true ∧ selfMerge PairAppend.witness (.lastChildOf 0) 3 = true ∧
    (PairAppend.witness.append 0 3).2 = .ok ∧ (PairAppend.witness.append 0 3).1.isLive 3 = false ∧
    (PairAppend.witness.append 0 3).1 ≠ specMoveP (.lastChildOf 0) 3 PairAppend.witness ∧
    ((PairAppend.witness.append 0 3).1.content.head?).map (·.kids) =
      some [.node (.text ['a']) [], .node (.text ['b', 'd']) []] ∧
    ((specMoveP (.lastChildOf 0) 3 PairAppend.witness).content.head?).map (·.kids) =
      some [.node (.text ['a']) [], .node (.text ['b', 'd', 'c']) []] := by
  decide

end XotModel
