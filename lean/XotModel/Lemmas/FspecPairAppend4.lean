/-
  FspecPairAppend4 — what `append` does in the corner `Spec.selfMerge` (finding
  `C05:move-changes-character-data`, fixed by xot eccbbb7): the old-place merge makes the moved text
  node the last child already; the call succeeds, the node is merged into its own previous sibling
  (the merged text node) and the result is the specification `specMoveP`: no character data is lost.
-/
import XotModel.Lemmas.FspecPairAppend3
import XotModel.Lemmas.FspecReplGapNF

namespace XotModel
open HTree Spec

namespace PairAppend

/-- `selfMerge` for `append`, unpacked. -/
theorem selfMerge_unpack {f : Forest} {p c : Nat} (h : selfMerge f (.lastChildOf p) c = true) :
    f.consolidation = true ∧ ∃ l' a t b, f.ctx? c = some ⟨p, l' ++ [a], t, [b]⟩ ∧
      t.value.isText = true ∧ a.value.isText = true ∧ b.value.isText = true := by
  unfold selfMerge at h
  rw [Bool.and_eq_true] at h
  obtain ⟨hc, h⟩ := h
  refine ⟨hc, ?_⟩
  cases hctx : f.ctx? c with
  | none => rw [hctx] at h; cases h
  | some cx =>
    rw [hctx] at h
    obtain ⟨po, l, t, r⟩ := cx
    simp only [Bool.and_eq_true] at h
    obtain ⟨⟨ht, ha⟩, hr⟩ := h
    cases hl : l.getLast? with
    | none => rw [hl] at ha; cases ha
    | some a =>
      rw [hl] at ha
      simp only at ha
      obtain ⟨l', el⟩ := List.getLast?_eq_some_iff.1 hl
      cases r with
      | nil => cases hr
      | cons b rest =>
        simp only [Bool.and_eq_true, beq_iff_eq, List.isEmpty_iff] at hr
        obtain ⟨hb, hp, hrest⟩ := hr
        subst hp hrest el
        exact ⟨l', a, t, b, rfl, ht, ha, hb⟩

end PairAppend

open PairAppend

/-- **The repaired corner** (`C05:move-changes-character-data`, xot eccbbb7): in the corner
    `selfMerge` the call `append` succeeds and is the specification: the moved text node is merged
    into the text node its two neighbours have become. -/
theorem append_selfMerge {f : Forest} {p c : Nat} (inv : f.Inv)
    (h : selfMerge f (.lastChildOf p) c = true) :
    (f.append p c).2 = .ok ∧ (f.append p c).1 = specMoveP (.lastChildOf p) c f := by
  have nd := inv.nodup
  obtain ⟨hc, l', a, t, b, hctx, htt, hat, hbt⟩ := selfMerge_unpack h
  obtain ⟨e0, vo, so⟩ := SiteAt.of_ctx nd hctx
  simp only at e0 so
  subst e0
  obtain ⟨ndL, hpL⟩ := so.nodupKids
  obtain ⟨tl, tr⟩ := tops_ne_of_nodup ndL
  have hgc : f.get? t.handle = some t := so.getKid
  have hpt : p ∉ handles t := by
    intro hin
    apply hpL
    rw [fs_handlesList_append, handlesList_cons]
    exact List.mem_append_right _ (List.mem_append_left _ hin)
  have hvo : vo.isElement = true ∨ vo.isDocument = true := by
    have hv := (validTree_node (so.valid inv.valid)).1 t (by simp)
    cases vo <;> simp_all [kidAllowed, Value.isElement, Value.isDocument]
  have hnorm : t.value.isNormal = true := isNormal_of_text htt
  have hndoc : t.value.isDocument = false := by
    cases hv : t.value <;> rw [hv] at htt <;> simp_all [Value.isText, Value.isDocument]
  have hsc : f.structureCheck (some p) t.handle = true :=
    ReplGapNF.structureCheck_pack nd so.kids hvo hgc hpt hnorm hndoc
  have hsame' : ¬ f.lastChild p = some t.handle := by
    rw [Forest.lastChild_of_get so.kids]
    have e : (l' ++ [a]) ++ t :: [b] = (l' ++ [a] ++ [t]) ++ [b] := by simp
    rw [e, lastOf_concat, if_pos (isNormal_of_text hbt)]
    intro e'
    exact tr b (by simp) (Option.some.inj e')
  have hok : (f.append p t.handle).2 = .ok := by
    rw [append_eq_tail hsc hsame', Forest.prevSibling_of_ctx hctx, Forest.nextSibling_of_ctx hctx]
    simp only
    obtain ⟨l1, r1, O⟩ := old_pair inv so
    rcases O.shape with ⟨_, _, hno⟩ | ⟨_, l2, a2, b2, r2, x, y, el, er, hx, hy, e1, e2⟩
    · exact absurd ⟨hat, hbt⟩ (hno hc a b (by simp) rfl)
    · have hr2 : r2 = [] := by
        have := congrArg List.tail er
        simpa using this.symm
      rw [hr2] at e2
      have sX := O.sX
      rw [e2, e1] at sX
      generalize (f.removeConsolidate (prevOf (l' ++ [a]) t) (nextOf [b] t)).1 = X at sX O ⊢
      have hcX : X.consolidation = true := O.cons_eq.trans hc
      obtain ⟨tc, htd⟩ := isText_iff_textData.1 htt
      have hXtext : X.textOf t.handle = some tc := (Forest.textOf_of_get sX.getKid).trans htd
      have hlastX : X.lastChild p = some t.handle := by
        rw [Forest.lastChild_of_get sX.kids]; exact lastOf_self hnorm
      have han : (a2.setValue (.text (x ++ y))).value.isNormal = true := by rw [setValue_value]; rfl
      have c1 : (a2.setValue (.text (x ++ y))).value.category = .normal := by
        simpa [Value.isNormal] using han
      have c2 : t.value.category = .normal := by simpa [Value.isNormal] using hnorm
      have hprevX : X.prevSibling t.handle = some (a2.setValue (.text (x ++ y))).handle := by
        rw [Forest.prevSibling_of_ctx sX.ctx]
        simp [prevOf, c1, c2]
      have sXa : SiteAt X p vo (l2 ++ a2.setValue (.text (x ++ y)) :: (t :: [])) := by
        have e : l2 ++ a2.setValue (.text (x ++ y)) :: (t :: []) =
            (l2 ++ [a2.setValue (.text (x ++ y))]) ++ t :: [] := by simp
        rw [e]; exact sX
      have hXa : X.textOf (a2.setValue (.text (x ++ y))).handle = some (x ++ y) := by
        rw [Forest.textOf_of_get sXa.getKid]
        exact textData_of_value (setValue_value _ _)
      have hadd : X.addConsolidate t.handle (X.lastChild p) none =
          ((X.setValue (a2.setValue (.text (x ++ y))).handle (.text ((x ++ y) ++ tc))).spliceOut t.handle,
            true) := by
        rw [hlastX]; exact Forest.addConsolidate_prev_self hcX hXtext hprevX hXa none
      unfold appendTail
      rw [hadd]
      simp
  exact ⟨hok, append_pair inv hok⟩

/-- The hypothesis of `append_selfMerge` is satisfiable: `append(e, c)` on the children `a b c d`
    (`b` and `d` are merged, `c` is then the last child already and is merged into `bd`): the
    model's result is the pair reading, `a` `bdc`; the node `c` is gone, its data is not. -/
example :
    PairAppend.witness.inv = true ∧ selfMerge PairAppend.witness (.lastChildOf 0) 3 = true ∧
    (PairAppend.witness.append 0 3).2 = .ok ∧ (PairAppend.witness.append 0 3).1.isLive 3 = false ∧
    (PairAppend.witness.append 0 3).1 = specMoveP (.lastChildOf 0) 3 PairAppend.witness ∧
    ((PairAppend.witness.append 0 3).1.content.head?).map (·.kids) =
      some [.node (.text ['a']) [], .node (.text ['b', 'd', 'c']) []] := by
  decide

end XotModel
