/-
  FspecAllRepl2 — C05 for `replace`, pair reading, part 2: the forest `replMid` after the first
  steps of the specification (the replacing node has left its place, stands where the replaced
  node stood, and the two nodes it separated are merged), described at the parent `q` of the
  replaced node in all geometries (`PutSite`): the child list is `lX ++ t :: rX`, where `rX` begins
  with (what has become of) the right neighbour of the replaced node and `lX` ends with its left
  neighbour — unless that neighbour has been merged away (`Consumed`: the children were
  `… x new p old …` with `x`, `p` text nodes).
-/
import XotModel.Lemmas.FspecAllRepl1
import XotModel.Lemmas.FspecAllNormal

namespace XotModel
open HTree Spec

/-- The forest after the first steps of `specReplaceP`. -/
def replMid (f : Forest) (a b q : Nat) (t : HTree) : Forest :=
  ((f.editAt (f.parent? b) (dropTop b)).editAt (some q) (replaceTop a (fun _ => [t]))).mergeLeftAt (f.parent? b)
    (f.nbOf b)

/-- The right neighbour: same identity, still a text node or still none. -/
def RightShape (r rX : List HTree) : Prop :=
  (r = [] ∧ rX = []) ∨
  ∃ N r0 N' r1, r = N :: r0 ∧ rX = N' :: r1 ∧ N'.handle = N.handle ∧ N'.value.isText = N.value.isText

/-- The left neighbour is still there, unchanged. -/
def LeftLive (l lX : List HTree) : Prop :=
  (l = [] ∧ lX = []) ∨
  ∃ l0 P l1 P', l = l0 ++ [P] ∧ lX = l1 ++ [P'] ∧ P'.handle = P.handle ∧ P'.value = P.value

/-- The left neighbour `P` has been merged into the text node `x` before the replacing node. -/
def Consumed (f : Forest) (X : Forest) (t : HTree) (l lX : List HTree) : Prop :=
  f.consolidation = true ∧
  ∃ u x P l1 x', l = u ++ x :: t :: [P] ∧ x.value.isText = true ∧ P.value.isText = true ∧
    lX = l1 ++ [x'] ∧ x'.value.isText = true ∧ x'.handle = x.handle ∧ P.handle ∉ X.allHandles

structure PutSite (f : Forest) (a b q : Nat) (vq : Value) (l : List HTree) (r : List HTree) (t : HTree)
    (lX rX : List HTree) : Prop where
  site : SiteAt (replMid f a b q t) q vq (lX ++ t :: rX)
  leafL : ∀ k ∈ lX, k.value.isText = true → k.kids = []
  leafR : ∀ k ∈ rX, k.value.isText = true → k.kids = []
  right : RightShape r rX
  left : LeftLive l lX ∨ Consumed f (replMid f a b q t) t l lX

namespace PairAll

theorem rightShape_refl (r : List HTree) : RightShape r r := by
  cases r with
  | nil => exact Or.inl ⟨rfl, rfl⟩
  | cons N r0 => exact Or.inr ⟨N, r0, N, r0, rfl, rfl, rfl, rfl⟩

theorem leftLive_refl (l : List HTree) : LeftLive l l := by
  rcases List.eq_nil_or_concat l with e | ⟨l0, P, e⟩
  · exact Or.inl ⟨e, e⟩
  · rw [List.concat_eq_append] at e
    exact Or.inr ⟨l0, P, l0, P, e, e, rfl, rfl⟩

theorem rightShape_map {φ : HTree → HTree} (hφ : KidMap φ) (r : List HTree) : RightShape r (r.map φ) := by
  cases r with
  | nil => exact Or.inl ⟨rfl, rfl⟩
  | cons N r0 => exact Or.inr ⟨N, r0, φ N, r0.map φ, rfl, rfl, hφ.handle N, by rw [hφ.value]⟩

theorem leftLive_map {φ : HTree → HTree} (hφ : KidMap φ) (l : List HTree) : LeftLive l (l.map φ) := by
  rcases List.eq_nil_or_concat l with e | ⟨l0, P, e⟩
  · subst e; exact Or.inl ⟨rfl, rfl⟩
  · rw [List.concat_eq_append] at e
    subst e
    exact Or.inr ⟨l0, P, l0.map φ, φ P, rfl, by simp, hφ.handle P, hφ.value P⟩

/-- The site after an edit, from a count of handles. -/
theorem edit_of_count {f : Forest} {p : Nat} {v : Value} {L : List HTree} (s : SiteAt f p v L)
    (g : List HTree → List HTree)
    (h : ∀ z, f.allHandles.count z + (handlesList (g L)).count z ≤ 1 + (handlesList L).count z) :
    SiteAt (f.editAt (some p) g) p v (g L) :=
  ⟨s.nodup_of_count g h, Forest.get?_editAt_self g s.kids⟩

/-! ### Lookups and handles through the pair merge -/

theorem findList?_mergeAdj {z a b : Nat} : ∀ (L : List HTree),
    (∀ k ∈ L, k.value.isText = true → k.kids = [] ∧ k.handle ≠ z) →
    findList? z (mergeAdj a b L) = findList? z L
  | [], _ => by rw [mergeAdj_nil]
  | [x], _ => by rw [mergeAdj_single]
  | x :: y :: rest, h => by
    rw [mergeAdj_cons_cons]
    split
    · by_cases hb : x.value.isText = true ∧ y.value.isText = true
      · obtain ⟨s, hs⟩ := text_of_isText hb.1
        obtain ⟨u, hu⟩ := text_of_isText hb.2
        rw [joinLeft_text hs hu]
        simp only [Option.map_some, Option.getD_some]
        obtain ⟨hx1, hx2⟩ := h x (by simp) hb.1
        obtain ⟨hy1, hy2⟩ := h y (by simp) hb.2
        rw [findList?_cons, findList?_cons, findList?_cons, find?_setValue _ hx2, find?_leaf hx1 hx2,
          find?_leaf hy1 hy2]
        rfl
      · rw [joinLeft_none hb]; rfl
    · rw [findList?_cons, findList?_cons (k := x),
        findList?_mergeAdj (y :: rest) (fun k hk => h k (List.mem_cons_of_mem _ hk))]

theorem findList?_adjOpt {z : Nat} (nb : Option Nat × Option Nat) {L : List HTree}
    (h : ∀ k ∈ L, k.value.isText = true → k.kids = [] ∧ k.handle ≠ z) :
    findList? z (adjOpt nb L) = findList? z L := by
  obtain ⟨oa, ob⟩ := nb
  cases oa with
  | none => rfl
  | some a =>
    cases ob with
    | none => rfl
    | some b => exact findList?_mergeAdj L h

theorem handlesList_adjOpt_sublist (nb : Option Nat × Option Nat) (L : List HTree) :
    (handlesList (adjOpt nb L)).Sublist (handlesList L) := by
  obtain ⟨oa, ob⟩ := nb
  cases oa with
  | none => exact List.Sublist.refl _
  | some a =>
    cases ob with
    | none => exact List.Sublist.refl _
    | some b => exact handlesList_mergeAdj_sublist a b L

/-- The pair merge at the seam of `u ++ w`, inside a longer child list. -/
theorem adjOpt_seam (Y u w Z : List HTree) (nd : (handlesList (Y ++ ((u ++ w) ++ Z))).Nodup) :
    adjOpt (u.getLast?.map (·.handle), w.head?.map (·.handle)) (Y ++ ((u ++ w) ++ Z)) =
      Y ++ (adjOpt (u.getLast?.map (·.handle), w.head?.map (·.handle)) (u ++ w) ++ Z) := by
  cases hu : u.getLast? with
  | none => rfl
  | some x =>
    cases hw : w.head? with
    | none => rfl
    | some y =>
      obtain ⟨u', eu⟩ := List.getLast?_eq_some_iff.1 hu
      obtain ⟨w', ew⟩ := List.head?_eq_some_iff.1 hw
      subst eu ew
      simp only [Option.map_some, adjOpt]
      have e1 : Y ++ (((u' ++ [x]) ++ y :: w') ++ Z) = (Y ++ u') ++ x :: y :: (w' ++ Z) := by simp
      have e2 : (u' ++ [x]) ++ y :: w' = u' ++ x :: y :: w' := by simp
      rw [e1] at nd
      have t1 := (tops_ne_of_nodup nd).1
      rw [e1, e2, mergeAdj_mid (w' ++ Z) (Y ++ u') t1,
        mergeAdj_mid w' u' (fun k hk => t1 k (List.mem_append_right _ hk))]
      cases joinLeft x y <;> simp

/-- What the pair merge at a seam gives. -/
theorem seam_cases (u' : List HTree) (x y : HTree) (w' : List HTree) (tl : ∀ k ∈ u', k.handle ≠ x.handle) :
    adjOpt (some x.handle, some y.handle) (u' ++ x :: y :: w') = u' ++ x :: y :: w' ∨
    ∃ s v, x.value = .text s ∧ y.value = .text v ∧
      adjOpt (some x.handle, some y.handle) (u' ++ x :: y :: w') = u' ++ x.setValue (.text (s ++ v)) :: w' := by
  by_cases hb : x.value.isText = true ∧ y.value.isText = true
  · obtain ⟨s, hs⟩ := text_of_isText hb.1
    obtain ⟨v, hv⟩ := text_of_isText hb.2
    exact Or.inr ⟨s, v, hs, hv, mergeAdj_mid_text hs hv w' tl⟩
  · exact Or.inl (mergeAdj_mid_other hb w' tl)

theorem ctx_none_of_not_mem {f : Forest} {h : Nat} (hn : h ∉ f.allHandles) : f.ctx? h = none := by
  rw [Forest.ctx?_eq]
  unfold Forest.allHandles at hn
  generalize f.roots = rs at hn
  induction rs with
  | nil => rfl
  | cons k ks ih =>
    rw [handlesList_cons] at hn
    simp only [List.mem_append, not_or] at hn
    simp only [List.findSome?_cons, ctxBelow_of_not_mem k hn.1]
    exact ih hn.2

end PairAll

/-! ### The geometries -/

namespace ReplArgs
variable {f : Forest} {a b q : Nat} {vq : Value} {l : List HTree} {A : HTree} {r : List HTree} {t : HTree}
open PairAll

theorem replaced_eq (h : ReplArgs f a b q vq l A r t) :
    replaceTop a (fun _ => [t]) (l ++ A :: r) = l ++ t :: r := by
  rw [replaceTop_mid h.ha h.tops.1]; simp

/-- The replacing node is a parentless tree. -/
theorem putSite_root (h : ReplArgs f a b q vq l A r t) (inv : f.Inv) (hctx : f.ctx? b = none) :
    PutSite f a b q vq l r t l r := by
  have nd := inv.nodup
  have hpar : f.parent? b = none := Forest.parent?_of_no_ctx hctx
  have hroot : f.isRoot b = true := by
    rcases Forest.root_or_ctx h.hgb with h' | ⟨cx, h'⟩
    · exact h'
    · rw [hctx] at h'; cases h'
  have hX : replMid f a b q t = (f.editAt none (dropTop b)).editAt (some q) (replaceTop a (fun _ => [t])) := by
    unfold replMid
    rw [hpar, Forest.nbOf_root hpar, Forest.mergeLeftAt_none]
  have s0 := h.sq.dropRoot h.hgb h.hqt
  have hleaf := h.sq.leaf inv.valid
  refine ⟨?_, fun k hk => hleaf k (List.mem_append_left _ hk),
    fun k hk => hleaf k (List.mem_append_right _ (List.mem_cons_of_mem _ hk)), rightShape_refl r,
    Or.inl (leftLive_refl l)⟩
  rw [hX]
  have := edit_of_count s0 (replaceTop a (fun _ => [t])) (by
    intro z
    rw [h.replaced_eq, count_handles_mid, count_handles_mid z l A r]
    have h1 : (f.editAt none (dropTop b)).allHandles.count z + (handles t).count z = f.allHandles.count z :=
      count_dropTop_root nd h.hgb hroot z
    have h2 := (List.nodup_iff_count.1 nd) z
    omega)
  rw [h.replaced_eq] at this
  exact this

/-- The replacing node is a child of another node. -/
theorem putSite_far (h : ReplArgs f a b q vq l A r t) (inv : f.Inv) {po : Nat} {vo : Value} {lo ro : List HTree}
    (so : SiteAt f po vo (lo ++ t :: ro)) (hne : po ≠ q) :
    ∃ lX rX, PutSite f a b q vq l r t lX rX := by
  have nd := inv.nodup
  have hbt := h.hb
  have hpar : f.parent? b = some po := by rw [← hbt]; exact Forest.parent?_of_ctx so.ctx
  obtain ⟨ndLo, hpoL⟩ := so.nodupKids
  obtain ⟨tlo, tro⟩ := tops_ne_of_nodup ndLo
  rw [hbt] at tlo tro
  have hdrop : dropTop b (lo ++ t :: ro) = lo ++ ro := dropTop_mid hbt tlo tro
  have hpot : po ∉ handles t := by
    intro hin
    apply hpoL
    rw [fs_handlesList_append, handlesList_cons]
    exact List.mem_append_right _ (List.mem_append_left _ hin)
  -- the two edits at the old place as one
  let G : List HTree → List HTree := (if f.consolidation then adjOpt (f.nbOf b) else id) ∘ dropTop b
  have hX : replMid f a b q t = (f.editAt (some po) G).editAt (some q) (replaceTop a (fun _ => [t])) := by
    unfold replMid
    rw [hpar]
    have hnatR : ∀ g, NatFor (HTree.editAt po g) (replaceTop a (fun _ => [t])) := fun g =>
      natFor_replaceTop (kidMap_editAt _ _) a (fun k => by simp [editAt_of_not_mem t hpot])
    cases hc : f.consolidation with
    | false =>
      rw [Forest.mergeLeftAt_off (by rw [Forest.editAt_consolidation, Forest.editAt_consolidation]; exact hc)]
      simp only [G, hc, Bool.false_eq_true, if_false, Function.id_comp]
    | true =>
      rw [mergeLeftAt_eq_adjOpt (by rw [Forest.editAt_consolidation, Forest.editAt_consolidation]; exact hc),
        Forest.editAt_comm _ hne (natFor_adjOpt (kidMap_editAt _ _) _) (hnatR _), Forest.editAt_editAt]
      simp only [G, hc, if_true]
  have hleafo := so.leaf inv.valid
  have hleafq := h.sq.leaf inv.valid
  have hvq : vq.isText = false := by
    cases h.hvq with
    | inl e => cases vq <;> simp_all [Value.isElement, Value.isText]
    | inr e => cases vq <;> simp_all [Value.isDocument, Value.isText]
  have hsub : (handlesList (G (lo ++ t :: ro))).Sublist (handlesList (lo ++ ro)) := by
    simp only [G, Function.comp]
    rw [hdrop]
    split
    · exact handlesList_adjOpt_sublist _ _
    · exact List.Sublist.refl _
  have hsub' : (handlesList (G (lo ++ t :: ro))).Sublist (handlesList (lo ++ t :: ro)) := by
    refine hsub.trans ?_
    simp only [fs_handlesList_append, handlesList_cons]
    exact (List.Sublist.refl _).append (List.sublist_append_right _ _)
  have hlook : findList? q (G (lo ++ t :: ro)) = findList? q (lo ++ t :: ro) := by
    have h0 : findList? q (dropTop b (lo ++ t :: ro)) = findList? q (lo ++ t :: ro) := by
      apply findList?_dropTop
      intro k hk hkb
      have : k = t := PairAfter.eq_of_handle ndLo hk (by simp) (hkb.trans hbt.symm)
      rw [this]; exact h.hqt
    simp only [G, Function.comp]
    split
    · rw [findList?_adjOpt, h0]
      intro k hk hkt
      rw [hdrop] at hk
      have hkL : k ∈ lo ++ t :: ro := by
        cases List.mem_append.1 hk with
        | inl e => exact List.mem_append_left _ e
        | inr e => exact List.mem_append_right _ (List.mem_cons_of_mem _ e)
      exact ⟨hleafo k hkL hkt, PairAfter.text_ne_site h.sq hvq (PairAfter.site_getKid so hkL) hkt⟩
    · exact h0
  have sY := so.other h.sq.kids (fun e => hne e.symm) G hsub' hlook
  have hcount : ∀ z, (f.editAt (some po) G).allHandles.count z + (handles t).count z ≤ f.allHandles.count z := by
    intro z
    have h1 := so.count G z
    have h2 := hsub.count_le z
    have h3 := count_handles_mid z lo t ro
    omega
  generalize hφ : HTree.editAt po G = φ at sY
  have kφ : KidMap φ := hφ ▸ kidMap_editAt _ _
  have hA' : (φ A).handle = a := by rw [kφ.handle]; exact h.ha
  have hrepl : replaceTop a (fun _ => [t]) ((l ++ A :: r).map φ) = l.map φ ++ t :: r.map φ := by
    rw [List.map_append, List.map_cons, replaceTop_mid hA' (handlesTop_map kφ h.tops.1)]
    simp
  have hleafφ : ∀ k ∈ l ++ A :: r, k.value.isText = true → (φ k).kids = [] := by
    intro k hk hkt
    have hkl := hleafq k hk hkt
    rw [← hφ]
    exact ReplGapNF.editAt_kids_leaf hkl (PairAfter.leaf_ne_site so (PairAfter.site_getKid h.sq hk) hkl)
  refine ⟨l.map φ, r.map φ, ?_, ?_, ?_, rightShape_map kφ r, Or.inl (leftLive_map kφ l)⟩
  · rw [hX]
    have := edit_of_count sY (replaceTop a (fun _ => [t])) (by
      intro z
      rw [hrepl, count_handles_mid, List.map_append, List.map_cons, count_handles_mid z (l.map φ) (φ A) (r.map φ)]
      have h1 := hcount z
      have h2 := (List.nodup_iff_count.1 nd) z
      omega)
    rw [hrepl] at this
    exact this
  · intro k hk hkt
    obtain ⟨k0, hk0, e⟩ := List.mem_map.1 hk
    subst e
    rw [kφ.value] at hkt
    exact hleafφ k0 (List.mem_append_left _ hk0) hkt
  · intro k hk hkt
    obtain ⟨k0, hk0, e⟩ := List.mem_map.1 hk
    subst e
    rw [kφ.value] at hkt
    exact hleafφ k0 (List.mem_append_right _ (List.mem_cons_of_mem _ hk0)) hkt

end ReplArgs
end XotModel
