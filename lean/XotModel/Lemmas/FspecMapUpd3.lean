/-
  FspecMapUpd3 — C05 for the attribute / namespace maps, the element's child list afterwards:
  exactly one child changed its payload / appeared / disappeared, every other child is the same
  node at the same place.
-/
import XotModel.Lemmas.FspecMapUpd2

namespace XotModel
open HTree Spec
open Forest (MapKind entryKey entryUpdate)

theorem any_isEntry_iff_find (k : MapKind) (key : Nat) (L : List HTree) :
    L.any (isEntry k key) = (L.find? (isEntry k key)).isSome := by
  induction L with
  | nil => rfl
  | cons c cs ih =>
    simp only [List.any_cons, List.find?_cons]
    cases h : isEntry k key c <;> simp [ih]

/-- **insert**, the element afterwards.  Existing key: the same child list with the payload of that
    one entry replaced (same handle, same place), no handle handed out.  New key: the same child
    list with exactly one new leaf (handle `f.next`, the given entry) inserted after the children
    of rank ≤ the view's and before the others; `next` grows by one. -/
theorem mapInsert_kids {f : Forest} (inv : f.Inv) {k : MapKind} {e : Nat} {entry v : Value} {ks : List HTree}
    (he : f.isElement e = true) (hm : k.matches entry = true) (hg : f.get? e = some (.node e v ks)) :
    (∀ n, ks.find? (isEntry k (entryKey entry)) = some n →
      ∃ X Y, ks = X ++ n :: Y ∧ (∀ c ∈ X, isEntry k (entryKey entry) c = false) ∧
        (f.mapInsert k e entry).1.get? e = some (.node e v (X ++ n.setValue (entryUpdate n.value entry) :: Y)) ∧
        (f.mapInsert k e entry).1.next = f.next) ∧
    (ks.find? (isEntry k (entryKey entry)) = none →
      ∃ A B, ks = A ++ B ∧ (∀ c ∈ A, kidRank c ≤ viewRank k) ∧ (∀ c ∈ B, viewRank k < kidRank c) ∧
        (f.mapInsert k e entry).1.get? e = some (.node e v (A ++ .node f.next entry [] :: B)) ∧
        (f.mapInsert k e entry).1.next = f.next + 1) := by
  rw [mapInsert_spec inv he hm]
  simp only
  have hord : kidsOrdered ks = true := (validTree_node (valid_findList f.roots _ inv.valid hg)).2.1
  unfold specMapInsert
  rw [Forest.kidsOf_of_get hg, any_isEntry_iff_find]
  constructor
  · intro n hn
    rw [hn]
    simp only [Option.isSome_some, if_true]
    obtain ⟨X, Y, e1, e2, e3⟩ := (updateEntry_spec k entry ks).1 n hn
    refine ⟨X, Y, e1, e2, ?_, rfl⟩
    rw [Forest.get?_editAt_self _ hg, e3]
  · intro hn
    rw [hn]
    simp only [Option.isSome_none, Bool.false_eq_true, if_false]
    obtain ⟨A, B, e1, e2, e3, e4⟩ := insertEntry_spec_ordered k (.node f.next entry []) hord
    refine ⟨A, B, e1, e3, e4, ?_, ?_⟩
    · show (f.editAt (some e) _).get? e = _
      rw [Forest.get?_editAt_self _ hg, e2]
    · first | rfl | trivial

/-- **remove**, the element afterwards: the child list without the entry with the key (the same
    list when the key is absent); `next` unchanged. -/
theorem mapRemove_kids {f : Forest} (inv : f.Inv) {k : MapKind} {e key : Nat} {v : Value} {ks : List HTree}
    (he : f.isElement e = true) (hg : f.get? e = some (.node e v ks)) :
    (∀ n, ks.find? (isEntry k key) = some n →
      ∃ X Y, ks = X ++ n :: Y ∧ (f.mapRemove k e key).1.get? e = some (.node e v (X ++ Y))) ∧
    (ks.find? (isEntry k key) = none → (f.mapRemove k e key).1.get? e = some (.node e v ks)) ∧
    (f.mapRemove k e key).1.next = f.next := by
  rw [mapRemove_spec inv he]
  simp only
  have hv := valid_findList f.roots _ inv.valid hg
  simp only [validTree, Bool.and_eq_true] at hv
  rw [specMapRemove_eq]
  have hu : keysUnique (Fmap.kindCat k) ks = true := by
    cases k
    · exact hv.1.1.1.2
    · exact hv.1.1.2
  obtain ⟨r1, r2⟩ := removeEntry_spec (key := key) hu
  refine ⟨?_, ?_, rfl⟩
  · intro n hn
    obtain ⟨X, Y, e1, e2⟩ := r1 n hn
    exact ⟨X, Y, e1, by rw [Forest.get?_editAt_self _ hg, e2]⟩
  · intro hn
    rw [Forest.get?_editAt_self _ hg, r2 hn]

end XotModel
