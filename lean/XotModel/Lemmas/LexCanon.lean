/-
  XotModel.Lemmas.LexCanon — the canonical-rendering theorem of the reference tokenizer:

      LexOK true  ts  →  lexFragment (renderTokens ts) = (placeTokens 0 ts, none)
      LexOK false ts  →  lexDocument (renderTokens ts) = (placeTokens 0 ts, none)

  for token lists of every length and nesting depth; `placeTokens` (Lemmas/LexCanonDefs.lean) only
  re-positions: `(placeTokens 0 ts).map Token.erase = ts.map Token.erase`.
-/
import XotModel.Lemmas.LexCanonStep

namespace XotModel.Lex.Canon

open XotModel.Lex XotModel.Lex.Stream

/-- The tokenizer stands where the context of `lexNest` says. -/
def Matches (frag : Bool) : LexCtx → Tokenizer → Prop
  | .prolog, tk => tk.fragment = frag ∧ tk.depth = 0 ∧
      (tk.state = .declaration ∨ tk.state = .afterDeclaration ∨ tk.state = .afterDtd)
  | .inTag d, tk => tk.fragment = frag ∧ tk.depth = d ∧ tk.state = .attributes
  | .content d, tk => tk.fragment = frag ∧ tk.depth = d ∧ tk.state = .elements
  | .after, tk => tk.fragment = frag ∧ tk.state = .afterElements

theorem matches_closed (frag : Bool) (d : Nat) (s : Stream) :
    Matches frag (LexCtx.closed frag d) ⟨s, stateAfterTag d frag, d, frag⟩ := by
  unfold LexCtx.closed stateAfterTag
  split <;> simp [Matches]

theorem renderTokens_cons (t : Token) (ts : List Token) :
    renderTokens (t :: ts) = renderToken t ++ renderTokens ts := by
  simp [renderTokens]

/-! ### What follows a token, read off `lexNest` -/

theorem nest_inTag_stops {frag : Bool} {d : Nat} {ts : List Token}
    (h : lexNest frag (.inTag d) ts = true) : Stops isNameChar (renderTokens ts) := by
  cases ts with
  | nil => exact Stops.nil _
  | cons t ts =>
    rw [renderTokens_cons]
    cases t with
    | «attribute» p l v sp => exact Stops.cons _ (by decide)
    | elementEnd e sp =>
      cases e with
      | «open» => exact Stops.cons _ (by decide)
      | empty => exact Stops.cons _ (by decide)
      | close p l => simp [lexNest] at h
    | _ => simp [lexNest] at h

theorem nest_after_text {frag : Bool} {d : Nat} {a : StrSpan} {ts : List Token}
    (h : lexNest frag (.content d) (.text a :: ts) = true) :
    StartsMarkup (renderTokens ts) ∧ lexNest frag (.content d) ts = true := by
  cases ts with
  | nil => exact ⟨.inl rfl, rfl⟩
  | cons t ts =>
    rw [renderTokens_cons]
    cases t with
    | text b => simp [lexNest] at h
    | cdata b sp => exact ⟨.inr ⟨_, rfl⟩, by simpa [lexNest] using h⟩
    | comment b sp => exact ⟨.inr ⟨_, rfl⟩, by simpa [lexNest] using h⟩
    | pi b c sp => cases c <;> exact ⟨.inr ⟨_, rfl⟩, by simpa [lexNest] using h⟩
    | elementStart p l sp => exact ⟨.inr ⟨_, rfl⟩, by simpa [lexNest] using h⟩
    | elementEnd e sp =>
      cases e with
      | close p l => exact ⟨.inr ⟨_, rfl⟩, by simpa [lexNest] using h⟩
      | «open» => simp [lexNest] at h
      | empty => simp [lexNest] at h
    | _ => simp [lexNest] at h

/-! ### One token, then the rest -/

/-- A token step followed by the induction hypothesis. -/
theorem loop_step {tk tk' : Tokenizer} {t : Token} {ts : List Token} {r : Str} (position : Nat)
    (he : tk.stream.atEnd = false) (hf : tk.state ≠ .finished)
    (hstep : parseNextImpl tk = .token (t.place tk.stream.pos) tk')
    (hs' : tk'.stream = ⟨tk.stream.pos + strLen (renderToken t), r⟩)
    (ih : lexLoop tk' tk'.stream.pos = (placeTokens tk'.stream.pos ts, none)) :
    lexLoop tk position = (placeTokens tk.stream.pos (t :: ts), none) := by
  rw [lexLoop_token position he hf hstep, ih, hs']
  rfl

/-! ### The prolog: reaching the state in which the token is read -/

theorem loop_declaration (tk : Tokenizer) (position : Nat) (hst : tk.state = .declaration)
    (he : tk.stream.atEnd = false) (hx : tk.stream.startsWith litXmlDecl = false) :
    lexLoop tk position = lexLoop { tk with state := .afterDeclaration } position :=
  lexLoop_skip position he (by rw [hst]; simp) (step_declaration_skip tk hst he hx)

theorem loop_prolog_misc {frag : Bool} (tk : Tokenizer) (position : Nat) (hm : Matches frag .prolog tk)
    (he : tk.stream.atEnd = false) (hx : tk.stream.startsWith litXmlDecl = false) :
    ∃ st, MiscState st ∧ (st = .afterDeclaration ∨ st = .afterDtd) ∧
      lexLoop tk position = lexLoop { tk with state := st } position := by
  obtain ⟨_, _, h | h | h⟩ := hm
  · exact ⟨.afterDeclaration, .inl rfl, .inl rfl, loop_declaration tk position h he hx⟩
  · refine ⟨.afterDeclaration, .inl rfl, .inl rfl, ?_⟩
    rw [← h]
  · refine ⟨.afterDtd, .inr (.inl rfl), .inr rfl, ?_⟩
    rw [← h]

theorem loop_prolog_start {frag : Bool} (tk : Tokenizer) (position pos : Nat) (p l sp : StrSpan) (r : Str)
    (hm : Matches frag .prolog tk)
    (hs : tk.stream = ⟨pos, renderToken (.elementStart p l sp) ++ r⟩)
    (hok : (Token.elementStart p l sp).lexOK = true) :
    lexLoop tk position = lexLoop { tk with state := .afterDtd } position := by
  obtain ⟨qc, qs, hq, hqc⟩ := tokQName_head hok
  have n2 : ¬ '?' = qc := fun e => nameStart_ne hqc (d := '?') (by decide) e.symm
  have he : tk.stream.atEnd = false := by rw [hs]; rfl
  have hx : tk.stream.startsWith litXmlDecl = false := by
    rw [hs]; simp [renderToken, hq, startsWith, litXmlDecl, List.isPrefixOf_cons_cons, n2]
  have step2 : ∀ tk1 : Tokenizer, tk1.state = .afterDeclaration → tk1.stream = tk.stream →
      lexLoop tk1 position = lexLoop { tk1 with state := .afterDtd } position := by
    intro tk1 h1 hs1
    exact lexLoop_skip position (by rw [hs1]; exact he) (by rw [h1]; simp)
      (step_afterDeclaration_start tk1 pos p l sp r h1 (by rw [hs1]; exact hs) hok)
  obtain ⟨_, _, h | h | h⟩ := hm
  · rw [loop_declaration tk position h he hx]
    exact step2 { tk with state := .afterDeclaration } rfl rfl
  · exact step2 tk h rfl
  · rw [← h]

theorem render_ne_nil {t : Token} (h : t.lexOK = true) : renderToken t ≠ [] := by
  cases t with
  | text a =>
    simp only [Token.lexOK, Bool.and_eq_true, Bool.not_eq_true', List.isEmpty_eq_false_iff] at h
    exact h.1.1
  | elementEnd e sp => cases e <;> simp [renderToken]
  | pi a c sp => cases c <;> simp [renderToken]
  | declaration => simp [Token.lexOK] at h
  | dtdStart => simp [Token.lexOK] at h
  | emptyDtd => simp [Token.lexOK] at h
  | entityDecl => simp [Token.lexOK] at h
  | dtdEnd => simp [Token.lexOK] at h
  | _ => simp [renderToken]

theorem atEnd_of_render {tk : Tokenizer} {t : Token} {pos : Nat} {r : Str} (h : t.lexOK = true)
    (hs : tk.stream = ⟨pos, renderToken t ++ r⟩) : tk.stream.atEnd = false := by
  rw [hs]
  have := render_ne_nil h
  cases hr : renderToken t with
  | nil => exact absurd hr this
  | cons c cs => rfl

theorem comment_not_xmldecl (a sp : StrSpan) (r : Str) :
    litXmlDecl.isPrefixOf (renderToken (.comment a sp) ++ r) = false := by
  simp [renderToken, litXmlDecl, List.isPrefixOf_cons_cons]

/-! ### Contexts along a token list, and what may follow it -/

/-- The context after one token (mirrors the transitions of `lexNest`). -/
def ctxStep (frag : Bool) : LexCtx → Token → LexCtx
  | .prolog, .elementStart _ _ _ => .inTag 0
  | .prolog, _ => .prolog
  | .inTag d, .elementEnd .open _ => .content (d + 1)
  | .inTag d, .elementEnd .empty _ => LexCtx.closed frag d
  | .inTag d, _ => .inTag d
  | .content d, .elementStart _ _ _ => .inTag d
  | .content d, .elementEnd (.close _ _) _ => LexCtx.closed frag (d - 1)
  | .content d, _ => .content d
  | .after, _ => .after

/-- The context after a token list. -/
def ctxAfter (frag : Bool) (ctx : LexCtx) (ts : List Token) : LexCtx := ts.foldl (ctxStep frag) ctx

/-- The text `r` after the canonical spelling of `ts` does not extend the last token: after a
    start-tag name it does not begin with a name character, after a text token it is empty or
    begins with `<`. -/
def JoinOK (ts : List Token) (r : Str) : Prop :=
  match ts.getLast? with
  | some (.elementStart _ _ _) => Stops isNameChar r
  | some (.text _) => StartsMarkup r
  | _ => True

theorem JoinOK.tail {t : Token} {ts : List Token} {r : Str} (h : JoinOK (t :: ts) r) : JoinOK ts r := by
  cases ts with
  | nil => simp [JoinOK]
  | cons u us => simpa [JoinOK, List.getLast?_cons_cons] using h

theorem JoinOK.nil_right (ts : List Token) : JoinOK ts [] := by
  unfold JoinOK
  split
  · exact Stops.nil _
  · exact .inl rfl
  · trivial

theorem stops_of_join {frag : Bool} {d : Nat} {p l sp : StrSpan} {ts : List Token} {r : Str}
    (hn : lexNest frag (.inTag d) ts = true) (hj : JoinOK (.elementStart p l sp :: ts) r) :
    Stops isNameChar (renderTokens ts ++ r) := by
  cases ts with
  | nil => simpa [JoinOK, renderTokens] using hj
  | cons u us =>
    have := nest_inTag_stops hn
    rw [renderTokens_cons] at this ⊢
    intro c hc
    apply this c
    cases hu : renderToken u with
    | nil =>
      rw [hu] at this
      cases u with
      | «attribute» => simp [renderToken] at hu
      | elementEnd e sp => cases e <;> simp [renderToken] at hu <;> simp [lexNest] at hn
      | _ => simp [lexNest] at hn
    | cons x xs => rw [hu] at hc; simpa using hc

theorem markup_of_join {frag : Bool} {d : Nat} {a : StrSpan} {ts : List Token} {r : Str}
    (hn : lexNest frag (.content d) (.text a :: ts) = true) (hj : JoinOK (.text a :: ts) r) :
    StartsMarkup (renderTokens ts ++ r) ∧ lexNest frag (.content d) ts = true := by
  obtain ⟨h1, h2⟩ := nest_after_text hn
  refine ⟨?_, h2⟩
  cases ts with
  | nil => simpa [JoinOK, renderTokens] using hj
  | cons u us =>
    rcases h1 with h1 | ⟨cs, h1⟩
    · -- the rendering of a non-empty legal continuation is not empty
      rw [renderTokens_cons] at h1
      have : renderToken u = [] := (List.append_eq_nil_iff.mp h1).1
      cases u with
      | text b => simp [lexNest] at hn
      | elementEnd e sp => cases e <;> simp [renderToken] at this <;> simp [lexNest] at h2
      | pi b c sp => cases c <;> simp [renderToken] at this
      | cdata => simp [renderToken] at this
      | comment => simp [renderToken] at this
      | elementStart => simp [renderToken] at this
      | _ => simp [lexNest] at h2
    · exact .inr ⟨cs ++ r, by rw [h1]; rfl⟩

theorem strLen_renderTokens_cons (t : Token) (ts : List Token) :
    strLen (renderTokens (t :: ts)) = strLen (renderToken t) + strLen (renderTokens ts) := by
  rw [renderTokens_cons, strLen_app]

/-- A token step followed by the induction hypothesis (with a continuation). -/
theorem loop_step_app {tk tk1 tk' : Tokenizer} {t : Token} {ts : List Token} {r : Str} {p' : Nat}
    (position : Nat) (he : tk.stream.atEnd = false) (hf : tk.state ≠ .finished)
    (hstep : parseNextImpl tk = .token (t.place tk.stream.pos) tk1)
    (hs1 : tk1.stream = ⟨tk.stream.pos + strLen (renderToken t), r⟩)
    (ih : lexLoop tk1 tk1.stream.pos =
      (placeTokens tk1.stream.pos ts ++ (lexLoop tk' p').1, (lexLoop tk' p').2)) :
    lexLoop tk position =
      (placeTokens tk.stream.pos (t :: ts) ++ (lexLoop tk' p').1, (lexLoop tk' p').2) := by
  rw [lexLoop_token position he hf hstep, ih, hs1]
  rfl

/-- **Canonical prefix.**  On the canonical spelling of `ts` followed by ANY text `r` that does not
    extend the last token, the tokenizer reads `ts` back (re-positioned) and then continues on `r`
    from the context `ts` ends in, with the position of the last token end as the pending error
    position. -/
theorem lexLoop_render_app (frag : Bool) (ts : List Token) (r : Str) :
    ∀ (ctx : LexCtx) (tk : Tokenizer) (position : Nat), Matches frag ctx tk →
      ts.all Token.lexOK = true → lexNest frag ctx ts = true →
      tk.stream.rest = renderTokens ts ++ r → JoinOK ts r →
      ∃ tk', Matches frag (ctxAfter frag ctx ts) tk' ∧
        tk'.stream = ⟨tk.stream.pos + strLen (renderTokens ts), r⟩ ∧
        lexLoop tk position =
          (placeTokens tk.stream.pos ts ++
              (lexLoop tk' (if ts.isEmpty then position else tk'.stream.pos)).1,
            (lexLoop tk' (if ts.isEmpty then position else tk'.stream.pos)).2) := by
  induction ts with
  | nil =>
    intro ctx tk position hm _ _ hs _
    refine ⟨tk, hm, ?_, by simp [placeTokens]⟩
    cases hst : tk.stream; simp_all [renderTokens, strLen]
  | cons t ts ih =>
    intro ctx tk position hm hok hn hs hj
    simp only [List.all_cons, Bool.and_eq_true] at hok
    obtain ⟨hok1, hoks⟩ := hok
    rw [renderTokens_cons, List.append_assoc] at hs
    have hs' : tk.stream = ⟨tk.stream.pos, renderToken t ++ (renderTokens ts ++ r)⟩ := by
      cases hst : tk.stream; simp_all
    have he := atEnd_of_render hok1 hs'
    have hjt := hj.tail
    -- assembling the conclusion from a token step and the induction hypothesis
    have finish : ∀ (ctx1 : LexCtx) (tk1 : Tokenizer) (tk0 : Tokenizer),
        lexLoop tk position = lexLoop tk0 position → tk0.stream = tk.stream →
        tk0.state ≠ .finished →
        parseNextImpl tk0 = .token (t.place tk.stream.pos) tk1 →
        tk1.stream = ⟨tk.stream.pos + strLen (renderToken t), renderTokens ts ++ r⟩ →
        Matches frag ctx1 tk1 → lexNest frag ctx1 ts = true → ctxStep frag ctx t = ctx1 →
        ∃ tk', Matches frag (ctxAfter frag ctx (t :: ts)) tk' ∧
          tk'.stream = ⟨tk.stream.pos + strLen (renderTokens (t :: ts)), r⟩ ∧
          lexLoop tk position =
            (placeTokens tk.stream.pos (t :: ts) ++
                (lexLoop tk' (if (t :: ts).isEmpty then position else tk'.stream.pos)).1,
              (lexLoop tk' (if (t :: ts).isEmpty then position else tk'.stream.pos)).2) := by
      intro ctx1 tk1 tk0 e0 hs0 hf0 hstep hs1 hm1 hn1 hc1
      obtain ⟨tk', hm', hst', e'⟩ := ih ctx1 tk1 tk1.stream.pos hm1 hoks hn1 (by rw [hs1]) hjt
      have hp1 : tk1.stream.pos = tk.stream.pos + strLen (renderToken t) := by rw [hs1]
      have hpos : tk'.stream.pos = tk1.stream.pos + strLen (renderTokens ts) := by rw [hst']
      have hif : (if ts.isEmpty then tk1.stream.pos else tk'.stream.pos) = tk'.stream.pos := by
        split
        · next h =>
          have : ts = [] := by simpa using h
          subst this
          simp [hpos, renderTokens, strLen]
        · rfl
      rw [hif] at e'
      refine ⟨tk', ?_, ?_, ?_⟩
      · simpa [ctxAfter, hc1] using hm'
      · rw [hst', hp1, strLen_renderTokens_cons]; simp [Nat.add_assoc]
      · rw [e0]
        have he0 : tk0.stream.atEnd = false := by rw [hs0]; exact he
        have hstep' : parseNextImpl tk0 = .token (t.place tk0.stream.pos) tk1 := by rw [hs0]; exact hstep
        have hs1' : tk1.stream = ⟨tk0.stream.pos + strLen (renderToken t), renderTokens ts ++ r⟩ := by
          rw [hs0]; exact hs1
        have := loop_step_app position he0 hf0 hstep' hs1' e'
        simpa [hs0] using this
    cases ctx with
    | prolog =>
      cases t with
      | comment a sp =>
        have hx : tk.stream.startsWith litXmlDecl = false := by
          rw [hs']; exact comment_not_xmldecl a sp _
        obtain ⟨st, hms, hst2, e⟩ := loop_prolog_misc tk position hm he hx
        have hstep := step_misc_comment { tk with state := st } tk.stream.pos a sp _ hms hs' hok1
        exact finish .prolog _ { tk with state := st } e rfl (by rcases hst2 with h | h <;> simp [h])
          hstep rfl ⟨hm.1, hm.2.1, by rcases hst2 with h | h <;> simp [h]⟩
          (by simpa [lexNest] using hn) rfl
      | pi a c sp =>
        have hx : tk.stream.startsWith litXmlDecl = false := by
          rw [hs']; exact pi_not_xmldecl a c sp _ hok1
        obtain ⟨st, hms, hst2, e⟩ := loop_prolog_misc tk position hm he hx
        have hstep := step_misc_pi { tk with state := st } tk.stream.pos a c sp _ hms hs' hok1
        exact finish .prolog _ { tk with state := st } e rfl (by rcases hst2 with h | h <;> simp [h])
          hstep rfl ⟨hm.1, hm.2.1, by rcases hst2 with h | h <;> simp [h]⟩
          (by simpa [lexNest] using hn) rfl
      | elementStart p l sp =>
        have hn' : lexNest frag (.inTag 0) ts = true := by simpa [lexNest] using hn
        have e := loop_prolog_start tk position tk.stream.pos p l sp _ hm hs' hok1
        have hstep := step_afterDtd_start { tk with state := .afterDtd } tk.stream.pos p l sp _ rfl hs'
          hok1 (stops_of_join hn' hj)
        exact finish (.inTag 0) _ { tk with state := .afterDtd } e rfl (by simp) hstep rfl
          ⟨hm.1, hm.2.1, rfl⟩ hn' rfl
      | _ => simp [lexNest] at hn
    | inTag d =>
      obtain ⟨hfr, hd, hst⟩ := hm
      have hf : tk.state ≠ .finished := by simp [hst]
      cases t with
      | «attribute» p l v sp =>
        have hstep := step_attr_attribute tk tk.stream.pos p l v sp _ hst hs' hok1
        exact finish (.inTag d) _ tk rfl rfl hf hstep rfl ⟨hfr, hd, hst⟩ (by simpa [lexNest] using hn) rfl
      | elementEnd e sp =>
        cases e with
        | «open» =>
          have hstep := step_attr_open tk tk.stream.pos sp _ hst hs'
          exact finish (.content (d + 1)) _ tk rfl rfl hf hstep rfl ⟨hfr, by simp [hd], rfl⟩
            (by simpa [lexNest] using hn) rfl
        | empty =>
          have hstep := step_attr_empty tk tk.stream.pos sp _ hst hs'
          refine finish (LexCtx.closed frag d) _ tk rfl rfl hf hstep rfl ?_
            (by simpa [lexNest] using hn) rfl
          rw [hd, hfr]; exact matches_closed frag d _
        | close p l => simp [lexNest] at hn
      | _ => simp [lexNest] at hn
    | content d =>
      obtain ⟨hfr, hd, hst⟩ := hm
      have hf : tk.state ≠ .finished := by simp [hst]
      cases t with
      | text a =>
        obtain ⟨hmk, hn'⟩ := markup_of_join hn hj
        have hstep := step_el_text tk tk.stream.pos a _ hst hs' hok1 hmk
        exact finish (.content d) _ tk rfl rfl hf hstep rfl ⟨hfr, hd, hst⟩ hn' rfl
      | cdata a sp =>
        have hstep := step_el_cdata tk tk.stream.pos a sp _ hst hs' hok1
        exact finish (.content d) _ tk rfl rfl hf hstep rfl ⟨hfr, hd, hst⟩ (by simpa [lexNest] using hn) rfl
      | comment a sp =>
        have hstep := step_el_comment tk tk.stream.pos a sp _ hst hs' hok1
        exact finish (.content d) _ tk rfl rfl hf hstep rfl ⟨hfr, hd, hst⟩ (by simpa [lexNest] using hn) rfl
      | pi a c sp =>
        have hstep := step_el_pi tk tk.stream.pos a c sp _ hst hs' hok1
        exact finish (.content d) _ tk rfl rfl hf hstep rfl ⟨hfr, hd, hst⟩ (by simpa [lexNest] using hn) rfl
      | elementStart p l sp =>
        have hn' : lexNest frag (.inTag d) ts = true := by simpa [lexNest] using hn
        have hstep := step_el_start tk tk.stream.pos p l sp _ hst hs' hok1 (stops_of_join hn' hj)
        exact finish (.inTag d) _ tk rfl rfl hf hstep rfl ⟨hfr, hd, rfl⟩ hn' rfl
      | elementEnd e sp =>
        cases e with
        | close p l =>
          have hstep := step_el_close tk tk.stream.pos p l sp _ hst hs' hok1
          refine finish (LexCtx.closed frag (d - 1)) _ tk rfl rfl hf hstep rfl ?_
            (by simpa [lexNest] using hn) rfl
          rw [hd, hfr]; exact matches_closed frag (d - 1) _
        | «open» => simp [lexNest] at hn
        | empty => simp [lexNest] at hn
      | _ => simp [lexNest] at hn
    | after =>
      obtain ⟨hfr, hst⟩ := hm
      have hf : tk.state ≠ .finished := by simp [hst]
      cases t with
      | comment a sp =>
        have hstep := step_misc_comment tk tk.stream.pos a sp _ (.inr (.inr hst)) hs' hok1
        exact finish .after _ tk rfl rfl hf hstep rfl ⟨hfr, hst⟩ (by simpa [lexNest] using hn) rfl
      | pi a c sp =>
        have hstep := step_misc_pi tk tk.stream.pos a c sp _ (.inr (.inr hst)) hs' hok1
        exact finish .after _ tk rfl rfl hf hstep rfl ⟨hfr, hst⟩ (by simpa [lexNest] using hn) rfl
      | _ => simp [lexNest] at hn

/-- The canonical-rendering theorem at loop level (nothing follows the spelling). -/
theorem lexLoop_render (frag : Bool) (ts : List Token) (ctx : LexCtx) (tk : Tokenizer) (position : Nat)
    (hm : Matches frag ctx tk) (hok : ts.all Token.lexOK = true) (hn : lexNest frag ctx ts = true)
    (hs : tk.stream.rest = renderTokens ts) :
    lexLoop tk position = (placeTokens tk.stream.pos ts, none) := by
  obtain ⟨tk', _, hst', e⟩ := lexLoop_render_app frag ts [] ctx tk position hm hok hn (by simpa using hs)
    (JoinOK.nil_right ts)
  have hend : ∀ p, lexLoop tk' p = ([], none) := fun p => lexLoop_end p (by rw [hst']; rfl)
  rw [e, hend]; simp

/-- A canonical document does not begin with a byte-order mark. -/
theorem prolog_no_bom {ts : List Token} (h : lexNest false .prolog ts = true) :
    ((Stream.ofStr (renderTokens ts)).curr? == some '\uFEFF') = false := by
  cases ts with
  | nil => rfl
  | cons t ts =>
    rw [renderTokens_cons]
    cases t with
    | comment a sp => rfl
    | pi a c sp => cases c <;> rfl
    | elementStart p l sp => rfl
    | _ => simp [lexNest] at h

end XotModel.Lex.Canon

namespace XotModel

open XotModel.Lex XotModel.Lex.Canon

/-- **Canonical rendering, fragment mode.**  For every token list that meets `LexOK true` — of any
    length and nesting depth — the reference tokenizer reads the canonical spelling back as the
    same tokens, at the byte positions the spelling implies, without error. -/
theorem lexFragment_render (ts : List Token) (h : LexOK true ts = true) :
    lexFragment (renderTokens ts) = (placeTokens 0 ts, none) := by
  simp only [LexOK, Bool.and_eq_true] at h
  exact lexLoop_render true ts (.content 0) (Tokenizer.ofFragment (renderTokens ts)) _
    ⟨rfl, rfl, rfl⟩ h.1 h.2 rfl

/-- **Canonical rendering, document mode.** -/
theorem lexDocument_render (ts : List Token) (h : LexOK false ts = true) :
    lexDocument (renderTokens ts) = (placeTokens 0 ts, none) := by
  simp only [LexOK, Bool.and_eq_true] at h
  have hb := prolog_no_bom h.2
  have e : Tokenizer.ofStr (renderTokens ts) = ⟨Stream.ofStr (renderTokens ts), .declaration, 0, false⟩ := by
    simp only [Tokenizer.ofStr, hb, Bool.false_eq_true, if_false]
  unfold lexDocument
  rw [e]
  exact lexLoop_render false ts .prolog _ _ ⟨rfl, rfl, .inl rfl⟩ h.1 h.2 rfl

/-- The tokens read back are the given ones up to byte positions. -/
theorem lexFragment_render_erase (ts : List Token) (h : LexOK true ts = true) :
    ∃ ts', lexFragment (renderTokens ts) = (ts', none) ∧ ts'.map Token.erase = ts.map Token.erase ∧
      tokensPrefixOk ts' = true :=
  ⟨placeTokens 0 ts, lexFragment_render ts h, placeTokens_erase 0 ts,
    placeTokens_prefixOk ts 0⟩

theorem lexDocument_render_erase (ts : List Token) (h : LexOK false ts = true) :
    ∃ ts', lexDocument (renderTokens ts) = (ts', none) ∧ ts'.map Token.erase = ts.map Token.erase ∧
      tokensPrefixOk ts' = true :=
  ⟨placeTokens 0 ts, lexDocument_render ts h, placeTokens_erase 0 ts,
    placeTokens_prefixOk ts 0⟩

end XotModel
