/-
  XotModel.Lemmas.LexCanon — the canonical-rendering theorem of the reference tokenizer:

      LexOK true  ts  →  lexFragment (renderTokens ts) = (placeTokens 0 ts, none)
      LexOK false ts  →  lexDocument (renderTokens ts) = (placeTokens 0 ts, none)

  for token lists of every length and nesting depth; `placeTokens` (Lemmas/LexCanonDefs.lean) only
  re-positions: `(placeTokens 0 ts).map Token.erase = ts.map Token.erase`.
-/
import XotModel.Lemmas.LexCanonStep

namespace XotModel.Lex.Canon

open XotModel.Lex XotModel.Lex.Stream

/-- The tokenizer stands where the context of `lexNest` says. -/
def Matches (frag : Bool) : LexCtx → Tokenizer → Prop
  | .prolog, tk => tk.fragment = frag ∧ tk.depth = 0 ∧
      (tk.state = .declaration ∨ tk.state = .afterDeclaration ∨ tk.state = .afterDtd)
  | .inTag d, tk => tk.fragment = frag ∧ tk.depth = d ∧ tk.state = .attributes
  | .content d, tk => tk.fragment = frag ∧ tk.depth = d ∧ tk.state = .elements
  | .after, tk => tk.fragment = frag ∧ tk.state = .afterElements

theorem matches_closed (frag : Bool) (d : Nat) (s : Stream) :
    Matches frag (LexCtx.closed frag d) ⟨s, stateAfterTag d frag, d, frag⟩ := by
  unfold LexCtx.closed stateAfterTag
  split <;> simp [Matches]

theorem renderTokens_cons (t : Token) (ts : List Token) :
    renderTokens (t :: ts) = renderToken t ++ renderTokens ts := by
  simp [renderTokens]

/-! ### What follows a token, read off `lexNest` -/

theorem nest_inTag_stops {frag : Bool} {d : Nat} {ts : List Token}
    (h : lexNest frag (.inTag d) ts = true) : Stops isNameChar (renderTokens ts) := by
  cases ts with
  | nil => exact Stops.nil _
  | cons t ts =>
    rw [renderTokens_cons]
    cases t with
    | «attribute» p l v sp => exact Stops.cons _ (by decide)
    | elementEnd e sp =>
      cases e with
      | «open» => exact Stops.cons _ (by decide)
      | empty => exact Stops.cons _ (by decide)
      | close p l => simp [lexNest] at h
    | _ => simp [lexNest] at h

theorem nest_after_text {frag : Bool} {d : Nat} {a : StrSpan} {ts : List Token}
    (h : lexNest frag (.content d) (.text a :: ts) = true) :
    StartsMarkup (renderTokens ts) ∧ lexNest frag (.content d) ts = true := by
  cases ts with
  | nil => exact ⟨.inl rfl, rfl⟩
  | cons t ts =>
    rw [renderTokens_cons]
    cases t with
    | text b => simp [lexNest] at h
    | cdata b sp => exact ⟨.inr ⟨_, rfl⟩, by simpa [lexNest] using h⟩
    | comment b sp => exact ⟨.inr ⟨_, rfl⟩, by simpa [lexNest] using h⟩
    | pi b c sp => cases c <;> exact ⟨.inr ⟨_, rfl⟩, by simpa [lexNest] using h⟩
    | elementStart p l sp => exact ⟨.inr ⟨_, rfl⟩, by simpa [lexNest] using h⟩
    | elementEnd e sp =>
      cases e with
      | close p l => exact ⟨.inr ⟨_, rfl⟩, by simpa [lexNest] using h⟩
      | «open» => simp [lexNest] at h
      | empty => simp [lexNest] at h
    | _ => simp [lexNest] at h

/-! ### One token, then the rest -/

/-- A token step followed by the induction hypothesis. -/
theorem loop_step {tk tk' : Tokenizer} {t : Token} {ts : List Token} {r : Str} (position : Nat)
    (he : tk.stream.atEnd = false) (hf : tk.state ≠ .finished)
    (hstep : parseNextImpl tk = .token (t.place tk.stream.pos) tk')
    (hs' : tk'.stream = ⟨tk.stream.pos + strLen (renderToken t), r⟩)
    (ih : lexLoop tk' tk'.stream.pos = (placeTokens tk'.stream.pos ts, none)) :
    lexLoop tk position = (placeTokens tk.stream.pos (t :: ts), none) := by
  rw [lexLoop_token position he hf hstep, ih, hs']
  rfl

/-! ### The prolog: reaching the state in which the token is read -/

theorem loop_declaration (tk : Tokenizer) (position : Nat) (hst : tk.state = .declaration)
    (he : tk.stream.atEnd = false) (hx : tk.stream.startsWith litXmlDecl = false) :
    lexLoop tk position = lexLoop { tk with state := .afterDeclaration } position :=
  lexLoop_skip position he (by rw [hst]; simp) (step_declaration_skip tk hst he hx)

theorem loop_prolog_misc {frag : Bool} (tk : Tokenizer) (position : Nat) (hm : Matches frag .prolog tk)
    (he : tk.stream.atEnd = false) (hx : tk.stream.startsWith litXmlDecl = false) :
    ∃ st, MiscState st ∧ (st = .afterDeclaration ∨ st = .afterDtd) ∧
      lexLoop tk position = lexLoop { tk with state := st } position := by
  obtain ⟨_, _, h | h | h⟩ := hm
  · exact ⟨.afterDeclaration, .inl rfl, .inl rfl, loop_declaration tk position h he hx⟩
  · refine ⟨.afterDeclaration, .inl rfl, .inl rfl, ?_⟩
    rw [← h]
  · refine ⟨.afterDtd, .inr (.inl rfl), .inr rfl, ?_⟩
    rw [← h]

theorem loop_prolog_start {frag : Bool} (tk : Tokenizer) (position pos : Nat) (p l sp : StrSpan) (r : Str)
    (hm : Matches frag .prolog tk)
    (hs : tk.stream = ⟨pos, renderToken (.elementStart p l sp) ++ r⟩)
    (hok : (Token.elementStart p l sp).lexOK = true) :
    lexLoop tk position = lexLoop { tk with state := .afterDtd } position := by
  obtain ⟨qc, qs, hq, hqc⟩ := tokQName_head hok
  have n2 : ¬ '?' = qc := fun e => nameStart_ne hqc (d := '?') (by decide) e.symm
  have he : tk.stream.atEnd = false := by rw [hs]; rfl
  have hx : tk.stream.startsWith litXmlDecl = false := by
    rw [hs]; simp [renderToken, hq, startsWith, litXmlDecl, List.isPrefixOf_cons_cons, n2]
  have step2 : ∀ tk1 : Tokenizer, tk1.state = .afterDeclaration → tk1.stream = tk.stream →
      lexLoop tk1 position = lexLoop { tk1 with state := .afterDtd } position := by
    intro tk1 h1 hs1
    exact lexLoop_skip position (by rw [hs1]; exact he) (by rw [h1]; simp)
      (step_afterDeclaration_start tk1 pos p l sp r h1 (by rw [hs1]; exact hs) hok)
  obtain ⟨_, _, h | h | h⟩ := hm
  · rw [loop_declaration tk position h he hx]
    exact step2 { tk with state := .afterDeclaration } rfl rfl
  · exact step2 tk h rfl
  · rw [← h]

theorem render_ne_nil {t : Token} (h : t.lexOK = true) : renderToken t ≠ [] := by
  cases t with
  | text a =>
    simp only [Token.lexOK, Bool.and_eq_true, Bool.not_eq_true', List.isEmpty_eq_false_iff] at h
    exact h.1.1
  | elementEnd e sp => cases e <;> simp [renderToken]
  | pi a c sp => cases c <;> simp [renderToken]
  | declaration => simp [Token.lexOK] at h
  | dtdStart => simp [Token.lexOK] at h
  | emptyDtd => simp [Token.lexOK] at h
  | entityDecl => simp [Token.lexOK] at h
  | dtdEnd => simp [Token.lexOK] at h
  | _ => simp [renderToken]

theorem atEnd_of_render {tk : Tokenizer} {t : Token} {pos : Nat} {r : Str} (h : t.lexOK = true)
    (hs : tk.stream = ⟨pos, renderToken t ++ r⟩) : tk.stream.atEnd = false := by
  rw [hs]
  have := render_ne_nil h
  cases hr : renderToken t with
  | nil => exact absurd hr this
  | cons c cs => rfl

theorem comment_not_xmldecl (a sp : StrSpan) (r : Str) :
    litXmlDecl.isPrefixOf (renderToken (.comment a sp) ++ r) = false := by
  simp [renderToken, litXmlDecl, List.isPrefixOf_cons_cons]

/-- The canonical-rendering theorem at loop level. -/
theorem lexLoop_render (frag : Bool) (ts : List Token) :
    ∀ (ctx : LexCtx) (tk : Tokenizer) (position : Nat), Matches frag ctx tk →
      ts.all Token.lexOK = true → lexNest frag ctx ts = true → tk.stream.rest = renderTokens ts →
      lexLoop tk position = (placeTokens tk.stream.pos ts, none) := by
  induction ts with
  | nil =>
    intro ctx tk position _ _ _ hs
    exact lexLoop_end position (by simp [atEnd, hs, renderTokens])
  | cons t ts ih =>
    intro ctx tk position hm hok hn hs
    simp only [List.all_cons, Bool.and_eq_true] at hok
    obtain ⟨hok1, hoks⟩ := hok
    rw [renderTokens_cons] at hs
    have hs' : tk.stream = ⟨tk.stream.pos, renderToken t ++ renderTokens ts⟩ := by
      cases hst : tk.stream; simp_all
    have he := atEnd_of_render hok1 hs'
    cases ctx with
    | prolog =>
      cases t with
      | comment a sp =>
        have hx : tk.stream.startsWith litXmlDecl = false := by
          rw [hs']; exact comment_not_xmldecl a sp _
        obtain ⟨st, hms, hst2, e⟩ := loop_prolog_misc tk position hm he hx
        rw [e]
        have hstep := step_misc_comment { tk with state := st } tk.stream.pos a sp _ hms hs' hok1
        refine loop_step position he (by rcases hst2 with h | h <;> simp [h]) hstep rfl ?_
        exact ih .prolog _ _ ⟨hm.1, hm.2.1, by rcases hst2 with h | h <;> simp [h]⟩ hoks
          (by simpa [lexNest] using hn) rfl
      | pi a c sp =>
        have hx : tk.stream.startsWith litXmlDecl = false := by
          rw [hs']; exact pi_not_xmldecl a c sp _ hok1
        obtain ⟨st, hms, hst2, e⟩ := loop_prolog_misc tk position hm he hx
        rw [e]
        have hstep := step_misc_pi { tk with state := st } tk.stream.pos a c sp _ hms hs' hok1
        refine loop_step position he (by rcases hst2 with h | h <;> simp [h]) hstep rfl ?_
        exact ih .prolog _ _ ⟨hm.1, hm.2.1, by rcases hst2 with h | h <;> simp [h]⟩ hoks
          (by simpa [lexNest] using hn) rfl
      | elementStart p l sp =>
        have hn' : lexNest frag (.inTag 0) ts = true := by simpa [lexNest] using hn
        rw [loop_prolog_start tk position tk.stream.pos p l sp _ hm hs' hok1]
        have hstep := step_afterDtd_start { tk with state := .afterDtd } tk.stream.pos p l sp _ rfl hs'
          hok1 (nest_inTag_stops hn')
        refine loop_step position he (by simp) hstep rfl ?_
        exact ih (.inTag 0) _ _ ⟨hm.1, hm.2.1, rfl⟩ hoks hn' rfl
      | _ => simp [lexNest] at hn
    | inTag d =>
      obtain ⟨hfr, hd, hst⟩ := hm
      have hf : tk.state ≠ .finished := by simp [hst]
      cases t with
      | «attribute» p l v sp =>
        have hstep := step_attr_attribute tk tk.stream.pos p l v sp _ hst hs' hok1
        refine loop_step position he hf hstep rfl ?_
        exact ih (.inTag d) _ _ ⟨hfr, hd, hst⟩ hoks (by simpa [lexNest] using hn) rfl
      | elementEnd e sp =>
        cases e with
        | «open» =>
          have hstep := step_attr_open tk tk.stream.pos sp _ hst hs'
          refine loop_step position he hf hstep rfl ?_
          exact ih (.content (d + 1)) _ _ ⟨hfr, by simp [hd], rfl⟩ hoks (by simpa [lexNest] using hn) rfl
        | empty =>
          have hstep := step_attr_empty tk tk.stream.pos sp _ hst hs'
          refine loop_step position he hf hstep rfl ?_
          refine ih (LexCtx.closed frag d) _ _ ?_ hoks (by simpa [lexNest] using hn) rfl
          rw [hd, hfr]; exact matches_closed frag d _
        | close p l => simp [lexNest] at hn
      | _ => simp [lexNest] at hn
    | content d =>
      obtain ⟨hfr, hd, hst⟩ := hm
      have hf : tk.state ≠ .finished := by simp [hst]
      cases t with
      | text a =>
        obtain ⟨hmk, hn'⟩ := nest_after_text hn
        have hstep := step_el_text tk tk.stream.pos a _ hst hs' hok1 hmk
        refine loop_step position he hf hstep rfl ?_
        exact ih (.content d) _ _ ⟨hfr, hd, hst⟩ hoks hn' rfl
      | cdata a sp =>
        have hstep := step_el_cdata tk tk.stream.pos a sp _ hst hs' hok1
        refine loop_step position he hf hstep rfl ?_
        exact ih (.content d) _ _ ⟨hfr, hd, hst⟩ hoks (by simpa [lexNest] using hn) rfl
      | comment a sp =>
        have hstep := step_el_comment tk tk.stream.pos a sp _ hst hs' hok1
        refine loop_step position he hf hstep rfl ?_
        exact ih (.content d) _ _ ⟨hfr, hd, hst⟩ hoks (by simpa [lexNest] using hn) rfl
      | pi a c sp =>
        have hstep := step_el_pi tk tk.stream.pos a c sp _ hst hs' hok1
        refine loop_step position he hf hstep rfl ?_
        exact ih (.content d) _ _ ⟨hfr, hd, hst⟩ hoks (by simpa [lexNest] using hn) rfl
      | elementStart p l sp =>
        have hn' : lexNest frag (.inTag d) ts = true := by simpa [lexNest] using hn
        have hstep := step_el_start tk tk.stream.pos p l sp _ hst hs' hok1 (nest_inTag_stops hn')
        refine loop_step position he hf hstep rfl ?_
        exact ih (.inTag d) _ _ ⟨hfr, hd, rfl⟩ hoks hn' rfl
      | elementEnd e sp =>
        cases e with
        | close p l =>
          have hstep := step_el_close tk tk.stream.pos p l sp _ hst hs' hok1
          refine loop_step position he hf hstep rfl ?_
          refine ih (LexCtx.closed frag (d - 1)) _ _ ?_ hoks (by simpa [lexNest] using hn) rfl
          rw [hd, hfr]; exact matches_closed frag (d - 1) _
        | «open» => simp [lexNest] at hn
        | empty => simp [lexNest] at hn
      | _ => simp [lexNest] at hn
    | after =>
      obtain ⟨hfr, hst⟩ := hm
      have hf : tk.state ≠ .finished := by simp [hst]
      cases t with
      | comment a sp =>
        have hstep := step_misc_comment tk tk.stream.pos a sp _ (.inr (.inr hst)) hs' hok1
        refine loop_step position he hf hstep rfl ?_
        exact ih .after _ _ ⟨hfr, hst⟩ hoks (by simpa [lexNest] using hn) rfl
      | pi a c sp =>
        have hstep := step_misc_pi tk tk.stream.pos a c sp _ (.inr (.inr hst)) hs' hok1
        refine loop_step position he hf hstep rfl ?_
        exact ih .after _ _ ⟨hfr, hst⟩ hoks (by simpa [lexNest] using hn) rfl
      | _ => simp [lexNest] at hn

/-- A canonical document does not begin with a byte-order mark. -/
theorem prolog_no_bom {ts : List Token} (h : lexNest false .prolog ts = true) :
    ((Stream.ofStr (renderTokens ts)).curr? == some '\uFEFF') = false := by
  cases ts with
  | nil => rfl
  | cons t ts =>
    rw [renderTokens_cons]
    cases t with
    | comment a sp => rfl
    | pi a c sp => cases c <;> rfl
    | elementStart p l sp => rfl
    | _ => simp [lexNest] at h

end XotModel.Lex.Canon

namespace XotModel

open XotModel.Lex XotModel.Lex.Canon

/-- **Canonical rendering, fragment mode.**  For every token list that meets `LexOK true` — of any
    length and nesting depth — the reference tokenizer reads the canonical spelling back as the
    same tokens, at the byte positions the spelling implies, without error. -/
theorem lexFragment_render (ts : List Token) (h : LexOK true ts = true) :
    lexFragment (renderTokens ts) = (placeTokens 0 ts, none) := by
  simp only [LexOK, Bool.and_eq_true] at h
  exact lexLoop_render true ts (.content 0) (Tokenizer.ofFragment (renderTokens ts)) _
    ⟨rfl, rfl, rfl⟩ h.1 h.2 rfl

/-- **Canonical rendering, document mode.** -/
theorem lexDocument_render (ts : List Token) (h : LexOK false ts = true) :
    lexDocument (renderTokens ts) = (placeTokens 0 ts, none) := by
  simp only [LexOK, Bool.and_eq_true] at h
  have hb := prolog_no_bom h.2
  have e : Tokenizer.ofStr (renderTokens ts) = ⟨Stream.ofStr (renderTokens ts), .declaration, 0, false⟩ := by
    simp only [Tokenizer.ofStr, hb, Bool.false_eq_true, if_false]
  unfold lexDocument
  rw [e]
  exact lexLoop_render false ts .prolog _ _ ⟨rfl, rfl, .inl rfl⟩ h.1 h.2 rfl

/-- The tokens read back are the given ones up to byte positions. -/
theorem lexFragment_render_erase (ts : List Token) (h : LexOK true ts = true) :
    ∃ ts', lexFragment (renderTokens ts) = (ts', none) ∧ ts'.map Token.erase = ts.map Token.erase :=
  ⟨placeTokens 0 ts, lexFragment_render ts h, placeTokens_erase 0 ts⟩

theorem lexDocument_render_erase (ts : List Token) (h : LexOK false ts = true) :
    ∃ ts', lexDocument (renderTokens ts) = (ts', none) ∧ ts'.map Token.erase = ts.map Token.erase :=
  ⟨placeTokens 0 ts, lexDocument_render ts h, placeTokens_erase 0 ts⟩

end XotModel
