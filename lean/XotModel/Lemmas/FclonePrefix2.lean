/-
  Lemmas for C12, part 19 (clone_with_prefixes serialises): the transfer induction.  If a subtree
  is writable with the stack `sIn` (in place), the stack `sCl` (in the clone) offers everything
  the declarations inside the subtree offer (`sOnly`) and everything `sIn` offers for the
  namespaces that `unresolved_namespaces` reports, then the subtree is writable with `sCl`.
-/
import XotModel.Lemmas.FclonePrefix1

namespace XotModel

theorem fcIsError_eq_true_iff {ε α} (x : Except ε α) : fcIsError x = true ↔ ¬ fcIsError x = false := by
  cases x <;> simp [fcIsError]

theorem unresolvedHere_elem (env : Env) (s : FStack) (name : Nat) (attrs : List Nat)
    (h : ¬ NameOK env s.top name false) : env.nsOfName name ∈ unresolvedHere env s name attrs := by
  unfold unresolvedHere
  have : fcIsError (s.elementPrefix env name) = true := by
    rw [fcIsError_eq_true_iff, elementPrefix_ok]; exact h
  simp [this]

theorem unresolvedHere_attr (env : Env) (s : FStack) (name : Nat) (attrs : List Nat) (a : Nat)
    (ha : a ∈ attrs) (h : ¬ NameOK env s.top a true) :
    env.nsOfName a ∈ unresolvedHere env s name attrs := by
  unfold unresolvedHere
  have : fcIsError (s.attributePrefix env a) = true := by
    rw [fcIsError_eq_true_iff, attributePrefix_ok]; exact h
  simp only [List.mem_append, List.mem_filterMap]
  right
  exact ⟨a, ha, by simp [this]⟩

/-- The top of the stack binds the empty prefix to a real namespace. -/
def HasDefault (L : List (Nat × Nat)) : Prop := ∃ n, (Env.emptyPrefix, n) ∈ L ∧ n ≠ Env.noNamespace

theorem fcHasDefaultNamespace_iff (s : FStack) : s.hasDefaultNamespace = true ↔ HasDefault s.top := by
  unfold FStack.hasDefaultNamespace HasDefault
  simp only [List.any_eq_true, Bool.and_eq_true, beq_iff_eq, bne_iff_ne]
  constructor
  · rintro ⟨⟨p, n⟩, hm, hp, hn⟩
    simp only at hp hn
    subst hp
    exact ⟨n, hm, hn⟩
  · rintro ⟨n, hm, hn⟩
    exact ⟨(Env.emptyPrefix, n), hm, rfl, hn⟩

/-- Pushing the same declarations keeps "a default namespace here implies one there". -/
theorem push_default {sA sB : FStack} (d : List (Nat × Nat))
    (h : HasDefault sA.top → HasDefault sB.top) : HasDefault (sA.push d).top → HasDefault (sB.push d).top := by
  rintro ⟨n, hm, hn⟩
  rw [push_top, fc_mem_fullnameInfoNew] at hm
  rcases hm with h1 | ⟨h1, h2⟩
  · exact ⟨n, by rw [push_top, fc_mem_fullnameInfoNew]; exact Or.inl h1, hn⟩
  · obtain ⟨m, hm2, hn2⟩ := h ⟨n, h1, hn⟩
    exact ⟨m, by rw [push_top, fc_mem_fullnameInfoNew]; exact Or.inr ⟨hm2, h2⟩, hn2⟩

/-- The check of /repo a32c6f4 passes for the clone when it passes in place. -/
theorem noDefault_transfer (a : Bool) (sIn sCl : FStack) (h4 : HasDefault sCl.top → HasDefault sIn.top)
    (h : (!(a && sIn.hasDefaultNamespace)) = true) : (!(a && sCl.hasDefaultNamespace)) = true := by
  cases a with
  | false => rfl
  | true =>
    simp only [Bool.true_and, Bool.not_eq_true'] at h ⊢
    cases hc : sCl.hasDefaultNamespace with
    | false => rfl
    | true =>
      have := (fcHasDefaultNamespace_iff sIn).mpr (h4 ((fcHasDefaultNamespace_iff sCl).mp hc))
      rw [h] at this
      cases this

theorem push_sub {sA sB : FStack} (d : List (Nat × Nat)) (P : Nat × Nat → Prop)
    (h : ∀ b ∈ sA.top, P b → b ∈ sB.top) : ∀ b ∈ (sA.push d).top, P b → b ∈ (sB.push d).top := by
  intro b hb hp
  rw [push_top, fc_mem_fullnameInfoNew] at hb ⊢
  rcases hb with h1 | ⟨h1, h2⟩
  · exact Or.inl h1
  · exact Or.inr ⟨h b h1 hp, h2⟩

mutual
  theorem writable_transfer (env : Env) (U : Nat → Prop) : ∀ (t : Tree) (sIn sOnly sCl : FStack),
      (∀ b ∈ sOnly.top, b ∈ sCl.top) → (∀ b ∈ sIn.top, U b.2 → b ∈ sCl.top) →
      (∀ n ∈ unresolvedTree env sOnly t, U n) → (HasDefault sCl.top → HasDefault sIn.top) →
      writableTree env sIn t = true → writableTree env sCl t = true
    | .node v ks, sIn, sOnly, sCl, H1, H2, H3, H4, hw => by
      cases v with
      | element name =>
        simp only [writableTree, Bool.and_eq_true, List.all_eq_true] at hw ⊢
        simp only [unresolvedTree, List.mem_append] at H3
        obtain ⟨⟨⟨hd, hn⟩, ha⟩, hk⟩ := hw
        have H4' := push_default (sA := sCl) (sB := sIn) (Tree.node (.element name) ks).nsDecls H4
        have H1' := push_sub (sA := sOnly) (sB := sCl) (Tree.node (.element name) ks).nsDecls (fun _ => True)
          (fun b hb _ => H1 b hb)
        have H2' := push_sub (sA := sIn) (sB := sCl) (Tree.node (.element name) ks).nsDecls (fun b => U b.2) H2
        refine ⟨⟨⟨noDefault_transfer _ _ _ H4' hd, ?_⟩, ?_⟩, ?_⟩
        · rw [elementFullname_ok] at hn ⊢
          exact name_transfer env U _ _ _ name false (fun b hb => H1' b hb trivial) H2'
            (fun h => H3 _ (Or.inl (unresolvedHere_elem env _ name _ h))) hn
        · intro a haa
          have := ha a haa
          rw [attributeFullname_ok] at this ⊢
          exact name_transfer env U _ _ _ a true (fun b hb => H1' b hb trivial) H2'
            (fun h => H3 _ (Or.inl (unresolvedHere_attr env _ name _ a haa h))) this
        · exact writableList_transfer env U ks _ _ _ (fun b hb => H1' b hb trivial) H2'
            (fun n hn => H3 n (Or.inr hn)) H4' hk
      | pi t d =>
        simp only [writableTree, Bool.and_eq_true] at hw ⊢
        simp only [unresolvedTree] at H3
        exact ⟨hw.1, writableList_transfer env U ks _ _ _ H1 H2 H3 H4 hw.2⟩
      | document =>
        simp only [writableTree] at hw ⊢
        simp only [unresolvedTree] at H3
        exact writableList_transfer env U ks _ _ _ H1 H2 H3 H4 hw
      | text s =>
        simp only [writableTree] at hw ⊢
        simp only [unresolvedTree] at H3
        exact writableList_transfer env U ks _ _ _ H1 H2 H3 H4 hw
      | comment s =>
        simp only [writableTree] at hw ⊢
        simp only [unresolvedTree] at H3
        exact writableList_transfer env U ks _ _ _ H1 H2 H3 H4 hw
      | «attribute» a s =>
        simp only [writableTree] at hw ⊢
        simp only [unresolvedTree] at H3
        exact writableList_transfer env U ks _ _ _ H1 H2 H3 H4 hw
      | «namespace» p ns =>
        simp only [writableTree] at hw ⊢
        simp only [unresolvedTree] at H3
        exact writableList_transfer env U ks _ _ _ H1 H2 H3 H4 hw
  theorem writableList_transfer (env : Env) (U : Nat → Prop) : ∀ (ks : List Tree) (sIn sOnly sCl : FStack),
      (∀ b ∈ sOnly.top, b ∈ sCl.top) → (∀ b ∈ sIn.top, U b.2 → b ∈ sCl.top) →
      (∀ n ∈ unresolvedList env sOnly ks, U n) → (HasDefault sCl.top → HasDefault sIn.top) →
      writableList env sIn ks = true → writableList env sCl ks = true
    | [], _, _, _, _, _, _, _, _ => by simp [writableList]
    | k :: ks, sIn, sOnly, sCl, H1, H2, H3, H4, hw => by
      simp only [writableList, Bool.and_eq_true] at hw ⊢
      simp only [unresolvedList, List.mem_append] at H3
      exact ⟨writable_transfer env U k _ _ _ H1 H2 (fun n hn => H3 n (Or.inl hn)) H4 hw.1,
        writableList_transfer env U ks _ _ _ H1 H2 (fun n hn => H3 n (Or.inr hn)) H4 hw.2⟩
end

/-- Monotonicity: a stack that offers more, without a new default namespace, writes at least as
    much. -/
theorem writableList_mono (env : Env) (ks : List Tree) (s1 s2 : FStack) (h : ∀ b ∈ s1.top, b ∈ s2.top)
    (h4 : HasDefault s2.top → HasDefault s1.top)
    (hw : writableList env s1 ks = true) : writableList env s2 ks = true :=
  writableList_transfer env (fun _ => True) ks s1 s1 s2 h (fun b hb _ => h b hb) (fun _ _ => trivial) h4 hw

end XotModel
