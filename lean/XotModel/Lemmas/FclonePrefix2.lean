/-
  Lemmas for C12, part 19 (clone_with_prefixes serialises): the transfer induction.  If a subtree
  is writable with the stack `sIn` (in place), the stack `sCl` (in the clone) offers everything
  the declarations inside the subtree offer (`sOnly`) and everything `sIn` offers for the
  namespaces that `unresolved_namespaces` reports, then the subtree is writable with `sCl`.
-/
import XotModel.Lemmas.FclonePrefix1

namespace XotModel

theorem fcIsError_eq_true_iff {ε α} (x : Except ε α) : fcIsError x = true ↔ ¬ fcIsError x = false := by
  cases x <;> simp [fcIsError]

theorem unresolvedHere_elem (env : Env) (s : FStack) (name : Nat) (attrs : List Nat)
    (h : ¬ NameOK env s.top name false) : env.nsOfName name ∈ unresolvedHere env s name attrs := by
  unfold unresolvedHere
  have : fcIsError (s.elementPrefix env name) = true := by
    rw [fcIsError_eq_true_iff, elementPrefix_ok]; exact h
  simp [this]

theorem unresolvedHere_attr (env : Env) (s : FStack) (name : Nat) (attrs : List Nat) (a : Nat)
    (ha : a ∈ attrs) (h : ¬ NameOK env s.top a true) :
    env.nsOfName a ∈ unresolvedHere env s name attrs := by
  unfold unresolvedHere
  have : fcIsError (s.attributePrefix env a) = true := by
    rw [fcIsError_eq_true_iff, attributePrefix_ok]; exact h
  simp only [List.mem_append, List.mem_filterMap]
  right
  exact ⟨a, ha, by simp [this]⟩

theorem push_sub {sA sB : FStack} (d : List (Nat × Nat)) (P : Nat × Nat → Prop)
    (h : ∀ b ∈ sA.top, P b → b ∈ sB.top) : ∀ b ∈ (sA.push d).top, P b → b ∈ (sB.push d).top := by
  intro b hb hp
  rw [push_top, mem_fullnameInfoNew] at hb ⊢
  rcases hb with h1 | ⟨h1, h2⟩
  · exact Or.inl h1
  · exact Or.inr ⟨h b h1 hp, h2⟩

mutual
  theorem writable_transfer (env : Env) (U : Nat → Prop) : ∀ (t : Tree) (sIn sOnly sCl : FStack),
      (∀ b ∈ sOnly.top, b ∈ sCl.top) → (∀ b ∈ sIn.top, U b.2 → b ∈ sCl.top) →
      (∀ n ∈ unresolvedTree env sOnly t, U n) →
      writableTree env sIn t = true → writableTree env sCl t = true
    | .node v ks, sIn, sOnly, sCl, H1, H2, H3, hw => by
      cases v with
      | element name =>
        simp only [writableTree, Bool.and_eq_true, List.all_eq_true] at hw ⊢
        simp only [unresolvedTree, List.mem_append] at H3
        obtain ⟨⟨hn, ha⟩, hk⟩ := hw
        have H1' := push_sub (sA := sOnly) (sB := sCl) (Tree.node (.element name) ks).nsDecls (fun _ => True)
          (fun b hb _ => H1 b hb)
        have H2' := push_sub (sA := sIn) (sB := sCl) (Tree.node (.element name) ks).nsDecls (fun b => U b.2) H2
        refine ⟨⟨?_, ?_⟩, ?_⟩
        · rw [elementFullname_ok] at hn ⊢
          exact name_transfer env U _ _ _ name false (fun b hb => H1' b hb trivial) H2'
            (fun h => H3 _ (Or.inl (unresolvedHere_elem env _ name _ h))) hn
        · intro a haa
          have := ha a haa
          rw [attributeFullname_ok] at this ⊢
          exact name_transfer env U _ _ _ a true (fun b hb => H1' b hb trivial) H2'
            (fun h => H3 _ (Or.inl (unresolvedHere_attr env _ name _ a haa h))) this
        · exact writableList_transfer env U ks _ _ _ (fun b hb => H1' b hb trivial) H2'
            (fun n hn => H3 n (Or.inr hn)) hk
      | pi t d =>
        simp only [writableTree, Bool.and_eq_true] at hw ⊢
        simp only [unresolvedTree] at H3
        exact ⟨hw.1, writableList_transfer env U ks _ _ _ H1 H2 H3 hw.2⟩
      | document =>
        simp only [writableTree] at hw ⊢
        simp only [unresolvedTree] at H3
        exact writableList_transfer env U ks _ _ _ H1 H2 H3 hw
      | text s =>
        simp only [writableTree] at hw ⊢
        simp only [unresolvedTree] at H3
        exact writableList_transfer env U ks _ _ _ H1 H2 H3 hw
      | comment s =>
        simp only [writableTree] at hw ⊢
        simp only [unresolvedTree] at H3
        exact writableList_transfer env U ks _ _ _ H1 H2 H3 hw
      | «attribute» a s =>
        simp only [writableTree] at hw ⊢
        simp only [unresolvedTree] at H3
        exact writableList_transfer env U ks _ _ _ H1 H2 H3 hw
      | «namespace» p ns =>
        simp only [writableTree] at hw ⊢
        simp only [unresolvedTree] at H3
        exact writableList_transfer env U ks _ _ _ H1 H2 H3 hw
  theorem writableList_transfer (env : Env) (U : Nat → Prop) : ∀ (ks : List Tree) (sIn sOnly sCl : FStack),
      (∀ b ∈ sOnly.top, b ∈ sCl.top) → (∀ b ∈ sIn.top, U b.2 → b ∈ sCl.top) →
      (∀ n ∈ unresolvedList env sOnly ks, U n) →
      writableList env sIn ks = true → writableList env sCl ks = true
    | [], _, _, _, _, _, _, _ => by simp [writableList]
    | k :: ks, sIn, sOnly, sCl, H1, H2, H3, hw => by
      simp only [writableList, Bool.and_eq_true] at hw ⊢
      simp only [unresolvedList, List.mem_append] at H3
      exact ⟨writable_transfer env U k _ _ _ H1 H2 (fun n hn => H3 n (Or.inl hn)) hw.1,
        writableList_transfer env U ks _ _ _ H1 H2 (fun n hn => H3 n (Or.inr hn)) hw.2⟩
end

/-- Monotonicity: a stack that offers more writes at least as much. -/
theorem writableList_mono (env : Env) (ks : List Tree) (s1 s2 : FStack) (h : ∀ b ∈ s1.top, b ∈ s2.top)
    (hw : writableList env s1 ks = true) : writableList env s2 ks = true :=
  writableList_transfer env (fun _ => True) ks s1 s1 s2 h (fun b hb _ => h b hb) (fun _ _ => trivial) hw

end XotModel
