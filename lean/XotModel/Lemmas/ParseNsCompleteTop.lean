/-
  Completeness of `WellNsDoc`, part 5: the parse entry points.

  `WellSpelledTokens mode ts`  : every XML declaration in `ts` has version 1.0 and `ts` without its
                                 declaration tokens IS the token list of a well-formed spelling
                                 (with one element and no text at top level in document mode).
  `build_accepts_iff`          : `build mode len env ts none` succeeds exactly on these lists (token
                                 lists with the tag shape a tokenizer guarantees and no empty text
                                 token).
-/
import XotModel.Lemmas.ParseNsCompleteList
import XotModel.Lemmas.ParseNsTop
import XotModel.Lemmas.ParseErase

namespace XotModel

/-! ### The two guards / corners -/

def Token.isDeclTok : Token → Bool
  | .declaration _ _ _ _ => true
  | _ => false

/-- No EMPTY text token (the tokenizer never emits one; the builder would make an empty text node
    of it, which no spelling denotes). -/
def Token.nonEmptyText : Token → Bool
  | .text t => !t.text.isEmpty
  | _ => true

/-- The token list without its XML-declaration tokens. -/
def dropDecls (ts : List Token) : List Token := ts.filter fun t => !t.isDeclTok

/-- Every XML declaration in the list says version 1.0 (the only test the builder makes on it;
    WHERE it stands is the tokenizer's business). -/
def declsV10 (ts : List Token) : Prop :=
  ∀ v e s sp, Token.declaration v e s sp ∈ ts → v.text = ['1', '.', '0']

theorem plain_of_dropDecls {ts : List Token} (h : ∀ t ∈ ts, t.nonEmptyText = true) :
    ∀ t ∈ dropDecls ts, t.plain = true := by
  intro t ht
  simp only [dropDecls, List.mem_filter, Bool.not_eq_true'] at ht
  have := h t ht.1
  cases t <;> simp_all [Token.plain, Token.nonEmptyText, Token.isDeclTok]

theorem tagsOk_dropDecls : ∀ (ts : List Token) (i : Bool), TagsOk i ts → TagsOk i (dropDecls ts)
  | [], _, _ => by simp [dropDecls, TagsOk]
  | t :: ts, i, h => by
    have ih := tagsOk_dropDecls ts
    cases t with
    | elementEnd e sp =>
      cases e <;> cases i <;>
        simp_all [dropDecls, Token.isDeclTok, TagsOk]
    | _ =>
      cases i <;> simp_all [dropDecls, Token.isDeclTok, TagsOk]

theorem step_declaration (b : Builder) {v : StrSpan} (e : Option StrSpan) (s : Option Bool) (sp : StrSpan)
    (hv : v.text = ['1', '.', '0']) : b.step (.declaration v e s sp) = .ok b := by
  simp [Builder.step, hv]

/-- The builder skips version-1.0 declarations. -/
theorem run_dropDecls : ∀ (ts : List Token) (b : Builder) (le : Option Nat), declsV10 ts →
    b.run ts le = b.run (dropDecls ts) le
  | [], _, _, _ => rfl
  | t :: ts, b, le, h => by
    have ih := fun b' => run_dropDecls ts b' le (fun v e s sp hm => h v e s sp (by simp [hm]))
    cases ht : t.isDeclTok with
    | true =>
      cases t with
      | declaration v e s sp =>
        have hv := h v e s sp (by simp)
        simp only [dropDecls, List.filter_cons, ht, Bool.not_true, Bool.false_eq_true, if_false]
        simp only [Builder.run, step_declaration b e s sp hv]
        exact ih b
      | _ => simp [Token.isDeclTok] at ht
    | false =>
      simp only [dropDecls, List.filter_cons, ht, Bool.not_false, if_true]
      simp only [Builder.run]
      cases b.step t with
      | ok b1 => exact ih b1
      | err e env => rfl
      | panic => rfl

/-- A run that comes to its end met version-1.0 declarations only. -/
theorem run_ok_declsV10 : ∀ (ts : List Token) (b bfin : Builder) (le : Option Nat), b.run ts le = .ok bfin →
    declsV10 ts
  | [], _, _, _, _ => fun _ _ _ _ h => by cases h
  | t :: ts, b, bfin, le, h => by
    obtain ⟨b1, hs, hr⟩ := run_cons_ok h
    have ih := run_ok_declsV10 ts b1 bfin le hr
    intro v e s sp hm
    simp only [List.mem_cons] at hm
    rcases hm with hm | hm
    · subst hm
      simp only [Builder.step] at hs
      split at hs
      · cases hs
      · rename_i hne
        simpa using hne
    · exact ih v e s sp hm

/-! ### From `build` to the loop and back -/

/-- An accepted parse: the loop came to its end at document level, the result is read off the
    final state. -/
theorem build_ok_parsed {mode : Mode} {len : Nat} {env : Env} {ts : List Token} {le : Option Nat} {p : Parsed}
    (h : build mode len env ts le = .ok p) :
    ∃ b, (Builder.new env).run ts le = .ok b ∧ p = b.parsed ∧ b.cur.value.isDocument = true := by
  unfold build at h
  split at h
  · cases h
  · cases h
  · rename_i b hb
    refine ⟨b, hb, ?_⟩
    cases mode with
    | document =>
      simp only [Builder.finishDocument] at h
      split at h
      · rename_i hd
        refine ⟨?_, hd⟩
        split at h
        · cases h
        · cases h
        · split at h
          · cases h
          · exact (BuildResult.ok.inj h).symm
          · split at h <;> cases h
      · unfold Builder.unclosed at h; split at h <;> cases h
    | fragment =>
      simp only [Builder.finishFragment] at h
      split at h
      · rename_i hd
        exact ⟨(BuildResult.ok.inj h).symm, hd⟩
      · unfold Builder.unclosed at h; split at h <;> cases h

theorem build_dropDecls (mode : Mode) (len : Nat) (env : Env) (ts : List Token) (h : declsV10 ts) :
    build mode len env ts none = build mode len env (dropDecls ts) none := by
  unfold build
  rw [run_dropDecls ts _ none h]

/-- An end tag at document level is refused. -/
theorem closeElement_top {b b1 : Builder} {p l sp : StrSpan} (hp : b.parents = []) :
    b.closeElement p l sp ≠ .ok b1 := by
  intro h
  unfold Builder.closeElement at h
  split at h
  · cases h
  · cases h
  · simp [hp] at h

/-! ### The loop from the initial state -/

/-- The whole token list the loop accepts from the initial state (ending at document level) is
    the token list of a well-formed spelling. -/
theorem run_complete {env : Env} (h : EnvBaseNs env) (ts : List Token) (htags : TagsOk false ts)
    (hplain : ∀ t ∈ ts, t.plain = true) {bfin : Builder} (hrun : (Builder.new env).run ts none = .ok bfin)
    (hdoc : bfin.cur.value.isDocument = true) :
    ∃ sns, NSNode.tokens.tokensList sns = ts ∧ WellNsDoc sns := by
  have hh0 : HeadOk (Builder.new env) := by intro s ks more heq; simp [Builder.new] at heq
  obtain ⟨sns, rest, e1, e2, e3, e4, _, e6, _⟩ := complete_upTo ts.length ts (Nat.le_refl _) htags hplain
    (Builder.new env) baseFrames bfin (readyNs_new h) (fun _ _ _ _ => hh0) hdoc hrun
  rcases e6 with hnil | ⟨p, l, sp, r, hcl⟩
  · subst hnil
    refine ⟨sns, by rw [e1]; simp, e2, e3, e4.1⟩
  · exfalso
    subst hcl
    obtain ⟨hsim, _⟩ := sim_list_ns sns baseFrames e2 e3 (Builder.new env) (readyNs_new h)
      (fun _ _ _ _ => hh0) e4
    obtain ⟨idn, spn, hk⟩ := hsim (.elementEnd (.close p l) sp :: r) none
    rw [e1, hk] at hrun
    obtain ⟨b1, hs, _⟩ := run_cons_ok hrun
    have hc := Builder.step_ok_core hs
    simp only [Builder.stepCore] at hc
    exact closeElement_top (by simp [Builder.emitNs, Builder.new]) hc

/-! ### Top-level shape read back -/

theorem encodeNsList_notext_inv : ∀ (ds : List NPNode) (env : Env),
    (∀ k ∈ (NPNode.encode.encodeList env ds).2, k.value.isText = false) → ∀ d ∈ ds, d.isText = false
  | [], _, _, d, hd => by cases hd
  | d0 :: ds, env, h, d, hd => by
    simp only [NPNode.encode.encodeList] at h
    simp only [List.mem_cons] at hd
    rcases hd with rfl | hd
    · rw [← (encodeNs_kind d env).2]; exact h _ (by simp)
    · exact encodeNsList_notext_inv ds (d0.encode env).1 (fun k hk => h k (List.mem_cons_of_mem _ hk)) d hd

theorem abstractNs_of_wellFormedTop {env : Env} {ds : List NPNode}
    (h : WellFormedTop (.node .document (NPNode.encode.encodeList env ds).2)) : AbstractTopNs ds := by
  obtain ⟨h1, h2⟩ := h
  simp only [Tree.kids] at h1 h2
  exact ⟨by rw [← (encodeNsList_top ds env).1]; exact h1, encodeNsList_notext_inv ds env h2⟩

/-! ### The characterisation -/

/-- The token lists `build` accepts, as spellings: every XML declaration says version 1.0, and the
    list without its declaration tokens is EXACTLY the token list of a well-formed spelling (every
    span, every position) which, in document mode, has one element and no text at top level. -/
def WellSpelledTokens (mode : Mode) (ts : List Token) : Prop :=
  declsV10 ts ∧ ∃ sns, WellNsDoc sns ∧ (mode = .document → AbstractTopNs (NSNode.denote.denoteList baseScope sns)) ∧
    NSNode.tokens.tokensList sns = dropDecls ts

/-- Soundness at the entry points (`build_document_spelled_ns` / `build_fragment_spelled_ns`), read
    back as the denoted document. -/
theorem build_spelled_ns {env : Env} (h : EnvBaseNs env) (mode : Mode) (len : Nat) (sns : List NSNode)
    (hw : WellNsDoc sns) (htop : mode = .document → AbstractTopNs (NSNode.denote.denoteList baseScope sns)) :
    ∃ p, build mode len env (NSNode.tokens.tokensList sns) none = .ok p ∧ p.tree.value = .document ∧
      decodeNs p.env p.tree.kids = some (NSNode.denote.denoteList baseScope sns) := by
  cases mode with
  | document =>
    obtain ⟨p, hb, ht, he⟩ := build_document_spelled_ns h len sns hw (wellFormedTop_of_abstractNs (htop rfl))
    refine ⟨p, hb, by rw [ht]; rfl, ?_⟩
    rw [ht, he]
    exact decodeNs_encodeList _ env
  | fragment =>
    obtain ⟨p, hb, ht, he⟩ := build_fragment_spelled_ns h len sns hw
    refine ⟨p, hb, by rw [ht]; rfl, ?_⟩
    rw [ht, he]
    exact decodeNs_encodeList _ env

/-- … with the declarations: a well-spelled list is accepted and the result is the denoted
    document. -/
theorem build_of_spelling {env : Env} (h : EnvBaseNs env) (mode : Mode) (len : Nat) (ts : List Token)
    (hd : declsV10 ts) (sns : List NSNode) (hw : WellNsDoc sns)
    (htop : mode = .document → AbstractTopNs (NSNode.denote.denoteList baseScope sns))
    (htok : NSNode.tokens.tokensList sns = dropDecls ts) :
    ∃ p, build mode len env ts none = .ok p ∧ p.tree.value = .document ∧
      decodeNs p.env p.tree.kids = some (NSNode.denote.denoteList baseScope sns) := by
  rw [build_dropDecls mode len env ts hd, ← htok]
  exact build_spelled_ns h mode len sns hw htop

/-- Completeness at the entry points: whatever `build` accepts is a well-spelled list, and the
    result is the document its spelling denotes. -/
theorem build_complete {env : Env} (h : EnvBaseNs env) (mode : Mode) (len : Nat) (ts : List Token)
    (htags : TagsOk false ts) (hne : ∀ t ∈ ts, t.nonEmptyText = true) {p : Parsed}
    (hb : build mode len env ts none = .ok p) :
    declsV10 ts ∧ ∃ sns, WellNsDoc sns ∧
      (mode = .document → AbstractTopNs (NSNode.denote.denoteList baseScope sns)) ∧
      NSNode.tokens.tokensList sns = dropDecls ts ∧ p.tree.value = .document ∧
      decodeNs p.env p.tree.kids = some (NSNode.denote.denoteList baseScope sns) := by
  obtain ⟨b0, hrun0, _, _⟩ := build_ok_parsed hb
  have hd := run_ok_declsV10 ts _ b0 none hrun0
  refine ⟨hd, ?_⟩
  rw [build_dropDecls mode len env ts hd] at hb
  obtain ⟨b, hrun, hp, hdoc⟩ := build_ok_parsed hb
  obtain ⟨sns, htok, hw⟩ := run_complete h (dropDecls ts) (tagsOk_dropDecls ts false htags)
    (plain_of_dropDecls hne) hrun hdoc
  -- the state the loop ends in, from soundness
  obtain ⟨seen, idn, sp, hrs⟩ := run_spelled_ns h sns hw
  rw [htok, hrun] at hrs
  have hb' := Step.ok.inj hrs
  subst hb'
  have htree : p.tree = .node .document (NPNode.encode.encodeList env (NSNode.denote.denoteList baseScope sns)).2 := by
    rw [hp]; simp only [Builder.parsed]; exact emitNs_new_root env _ _ _ _ sp
  have henv : p.env = (NPNode.encode.encodeList env (NSNode.denote.denoteList baseScope sns)).1 := by
    rw [hp]; rfl
  refine ⟨sns, hw, ?_, htok, by rw [htree]; rfl, ?_⟩
  · intro hm
    subst hm
    have := build_document_wellFormed hb
    rw [htree] at this
    exact abstractNs_of_wellFormedTop this
  · rw [htree, henv]
    exact decodeNs_encodeList _ env

/-- `build` accepts EXACTLY the well-spelled token lists. -/
theorem build_accepts_iff {env : Env} (h : EnvBaseNs env) (mode : Mode) (len : Nat) (ts : List Token)
    (htags : TagsOk false ts) (hne : ∀ t ∈ ts, t.nonEmptyText = true) :
    (∃ p, build mode len env ts none = .ok p) ↔ WellSpelledTokens mode ts := by
  constructor
  · rintro ⟨p, hb⟩
    obtain ⟨hd, sns, hw, htop, htok, _, _⟩ := build_complete h mode len ts htags hne hb
    exact ⟨hd, sns, hw, htop, htok⟩
  · rintro ⟨hd, sns, hw, htop, htok⟩
    obtain ⟨p, hb, _, _⟩ := build_of_spelling h mode len ts hd sns hw htop htok
    exact ⟨p, hb⟩

/-! ### Up to byte positions -/

/-- The same up to byte positions and whole-token spans (`Token.erase`): the list lets
    `check_qname` pass (every empty prefix at offset 0 — the one position xot reads), every XML
    declaration says version 1.0, and the list without its declarations has the erased tokens of
    a well-formed spelling. -/
def SpelledUpToPositions (mode : Mode) (ts : List Token) : Prop :=
  tokensPrefixOk ts = true ∧ declsV10 ts ∧
    ∃ sns, WellNsDoc sns ∧ (mode = .document → AbstractTopNs (NSNode.denote.denoteList baseScope sns)) ∧
      (NSNode.tokens.tokensList sns).map Token.erase = (dropDecls ts).map Token.erase

theorem prefixOk_dropDecls {ts : List Token} (h : tokensPrefixOk ts = true) : tokensPrefixOk (dropDecls ts) = true := by
  simp only [tokensPrefixOk, List.all_eq_true] at h ⊢
  intro t ht
  simp only [dropDecls, List.mem_filter] at ht
  exact h t ht.1

theorem build_accepts_iff_erased {env : Env} (h : EnvBaseNs env) (mode : Mode) (len : Nat) (ts : List Token)
    (htags : TagsOk false ts) (hne : ∀ t ∈ ts, t.nonEmptyText = true) :
    (∃ p, build mode len env ts none = .ok p) ↔ SpelledUpToPositions mode ts := by
  constructor
  · rintro ⟨p, hb⟩
    obtain ⟨hd, sns, hw, htop, htok, _, _⟩ := build_complete h mode len ts htags hne hb
    exact ⟨build_ok_prefixOk hb, hd, sns, hw, htop, by rw [htok]⟩
  · rintro ⟨hq, hd, sns, hw, htop, htok⟩
    obtain ⟨p0, hb0, _, _⟩ := build_spelled_ns h mode len sns hw htop
    obtain ⟨p, hb, _⟩ := build_erase_ok mode len len env _ (dropDecls ts) htok (prefixOk_dropDecls hq) p0 hb0
    exact ⟨p, by rw [build_dropDecls mode len env ts hd]; exact hb⟩

end XotModel
