/-
  Lemmas for C11, part 10: node-style insertion (`append_attribute_node` /
  `append_namespace_node` / `any_append` of a parentless entry node), and histories.
-/
import XotModel.Lemmas.FmapOps3

namespace XotModel
namespace Fmap
open HTree
open Forest (MapKind entryKey mapChildren)

theorem leafRoot_get (f : Forest) (hnd : f.allHandles.Nodup) (nd : Nat) (v : Value)
    (hroot : HTree.node nd v [] ∈ f.roots) : f.get? nd = some (.node nd v []) :=
  findList?_direct f.roots hnd _ hroot

theorem leafRoot_ne_elem {f : Forest} {e nm : Nat} {N A S : List HTree} (h : MInv f e nm N A S)
    (k : MapKind) (nd : Nat) (v : Value) (hm : k.matches v = true)
    (hroot : HTree.node nd v [] ∈ f.roots) : e ≠ nd := by
  intro hh
  subst hh
  have := leafRoot_get f h.loc.nodup e v hroot
  rw [h.loc.get] at this
  simp only [Option.some.injEq, HTree.node.injEq] at this
  obtain ⟨_, hv, _⟩ := this
  subst hv
  cases k <;> simp [MapKind.matches] at hm

theorem leafRoot_mem_withKids (roots : List HTree) (e nd : Nat) (v : Value) (ks' : List HTree)
    (hroot : HTree.node nd v [] ∈ roots) (hne : e ≠ nd) :
    HTree.node nd v [] ∈ withKids roots e ks' := by
  unfold withKids
  rw [mapAtList_eq_map]
  apply List.mem_map.mpr
  refine ⟨_, hroot, ?_⟩
  apply mapAt_not_mem
  simp [handles, handlesList, hne]

/-- `append_attribute_node` / `append_namespace_node` of a parentless entry node `nd`.
    Key present: the existing node keeps place and handle and takes the value, `nd` stays a
    parentless node.  Key absent: `nd` becomes the last entry of the view. -/
theorem appendEntryNode_step {f : Forest} {e nm : Nat} {N A S : List HTree} (h : MInv f e nm N A S)
    (k : MapKind) (nd : Nat) (v : Value) (hm : k.matches v = true)
    (hroot : HTree.node nd v [] ∈ f.roots) :
    ∃ s' roots0, Step f (f.appendEntryNode k e nd).1 e nm N A S k roots0 s' ∧
      (f.appendEntryNode k e nd).2.1 = .ok ∧
      s'.map entryPair = omInsert ((Sect.sec k N A).map entryPair) (entryKey v) (payloadOf v) ∧
      (f.appendEntryNode k e nd).1.next = f.next ∧
      (∀ n, f.mapGetNode k e (entryKey v) = some n →
        (f.appendEntryNode k e nd).2.2 = n.handle ∧
        s'.map (·.handle) = (Sect.sec k N A).map (·.handle) ∧
        HTree.node nd v [] ∈ (f.appendEntryNode k e nd).1.roots ∧ roots0 = f.roots) ∧
      (f.mapGetNode k e (entryKey v) = none →
        (f.appendEntryNode k e nd).2.2 = nd ∧
        s'.map (·.handle) = (Sect.sec k N A).map (·.handle) ++ [nd] ∧
        roots0 = rootsWithout f nd) := by
  have hne := leafRoot_ne_elem h k nd v hm hroot
  have hval : f.value? nd = some v := by
    simp [Forest.value?, leafRoot_get f h.loc.nodup nd v hroot, HTree.value]
  unfold Forest.appendEntryNode
  rw [h.isElement]
  simp only [Bool.not_true, Bool.false_eq_true, if_false, hval, hm]
  unfold Forest.mapInsertNode
  simp only [hval, hm, Bool.not_true, Bool.false_eq_true, if_false]
  rw [h.getNode k]
  cases hf : (Sect.sec k N A).find? (fun c => entryKey c.value == entryKey v) with
  | some n =>
    obtain ⟨hkey, s1, s2, hs, hs1⟩ := find?_key_split _ _ _ hf
    obtain ⟨heq, hinv, hmap, hnodes⟩ := insert_existing h k v hm n s1 s2 hs _ hkey hs1
    simp only
    rw [heq]
    refine ⟨_, f.roots, ⟨rfl, hinv, Nat.le_refl _⟩, (by first | rfl | trivial), hmap, (by first | rfl | trivial), ?_, fun hn => (by cases hn)⟩
    intro n' hn'
    cases hn'
    exact ⟨rfl, hnodes, leafRoot_mem_withKids f.roots e nd v _ hroot hne, rfl⟩
  | none =>
    have habs := find?_key_none _ _ hf
    obtain ⟨hplace, hinv, hmap, hnodes⟩ := place_absent h k nd v hm hroot hne habs
    simp only
    rw [hplace]
    exact ⟨_, rootsWithout f nd, ⟨rfl, hinv, Nat.le_refl _⟩, (by first | rfl | trivial), hmap,
      (by first | rfl | trivial), fun n hn => (by cases hn), fun _ => ⟨(by first | rfl | trivial), hnodes, (by first | rfl | trivial)⟩⟩

/-- `any_append` of an entry node is the matching `append_*_node`. -/
theorem anyAppend_entry (f : Forest) (k : MapKind) (e nd : Nat) (v : Value)
    (hval : f.value? nd = some v) (hm : k.matches v = true) :
    f.anyAppend e nd = f.appendEntryNode k e nd := by
  unfold Forest.anyAppend
  rw [hval]
  cases k <;> cases v <;> simp [MapKind.matches] at hm ⊢

/-! ### Histories -/

theorem specFor_same (op : MapOp) (m : OMap Payload) : op.specFor op.kind m = op.spec m := by
  simp [MapOp.specFor]

theorem specFor_other (op : MapOp) (k : MapKind) (m : OMap Payload) (h : k ≠ op.kind) :
    op.specFor k m = m := by
  simp [MapOp.specFor, Ne.symm h]

/-- From a `Step` on kind `k0` whose section's content is `spec` of the old one. -/
theorem step_views {f f' : Forest} {e nm : Nat} {N A S roots0 s' : List HTree} {k0 : MapKind}
    (h : MInv f e nm N A S) (st : Step f f' e nm N A S k0 roots0 s') (op : MapOp)
    (hk : op.kind = k0) (hmap : s'.map entryPair = op.spec ((Sect.sec k0 N A).map entryPair)) :
    ∀ k, abs k f' e = op.specFor k (abs k f e) := by
  intro k
  by_cases hkk : k = k0
  · subst hkk
    rw [st.abs_same, hmap, h.abs_eq k, ← hk, specFor_same]
  · rw [st.abs_other h hkk, specFor_other op k _ (by rw [hk]; exact hkk)]

theorem op_step {f : Forest} {e nm : Nat} {N A S : List HTree} (h : MInv f e nm N A S)
    (op : MapOp) (hwf : op.wf = true) :
    ∃ N' A', MInv (op.run e f).1 e nm N' A' S ∧ (op.run e f).2 = .ok ∧
      ∀ k, abs k (op.run e f).1 e = op.specFor k (abs k f e) := by
  cases op with
  | insert k v =>
    obtain ⟨s', st, hok, hmap, _, _⟩ := mapInsert_step h k v hwf
    exact ⟨_, _, st.inv, hok, step_views h st (.insert k v) rfl hmap⟩
  | remove k key =>
    obtain ⟨s', st, hok, hmap, _⟩ := mapRemove_step h k key
    exact ⟨_, _, st.inv, hok, step_views h st (.remove k key) rfl hmap⟩
  | clear k =>
    obtain ⟨st, hok⟩ := mapClear_step h k
    exact ⟨_, _, st.inv, hok, step_views h st (.clear k) rfl rfl⟩
  | insertNode k v =>
    obtain ⟨hloc1, hroot1, _, hbelow1⟩ := located_newNode h.loc h.below v
    have h1 : MInv (f.newNode v).1 e nm N A S := ⟨hloc1, h.sect, h.uniq, hbelow1, h.leaf⟩
    obtain ⟨s', roots0, st, hok, hmap, _, _, _⟩ := appendEntryNode_step h1 k f.next v hwf hroot1
    have habs : ∀ k', abs k' (f.newNode v).1 e = abs k' f e := by
      intro k'; rw [h1.abs_eq, h.abs_eq]
    refine ⟨_, _, st.inv, hok, ?_⟩
    intro k'
    have := step_views h1 st (.insertNode k v) rfl hmap k'
    rw [habs k'] at this
    exact this

theorem runOps_spec (e nm : Nat) (S : List HTree) : ∀ (ops : List MapOp) (f : Forest)
    (N A : List HTree), MInv f e nm N A S → (∀ op ∈ ops, op.wf = true) →
    ∃ N' A', MInv (runOps e f ops).1 e nm N' A' S ∧
      (∀ r ∈ (runOps e f ops).2, r = .ok) ∧
      ∀ k, abs k (runOps e f ops).1 e = specOps k (abs k f e) ops
  | [], f, N, A => by
    intro h _
    exact ⟨N, A, h, by simp [runOps], fun k => rfl⟩
  | op :: ops, f, N, A => by
    intro h hwf
    obtain ⟨N1, A1, h1, hok, hv⟩ := op_step h op (hwf op List.mem_cons_self)
    obtain ⟨N2, A2, h2, hoks, hvs⟩ :=
      runOps_spec e nm S ops (op.run e f).1 N1 A1 h1 (fun o ho => hwf o (List.mem_cons_of_mem _ ho))
    refine ⟨N2, A2, h2, ?_, ?_⟩
    · intro r hr
      simp only [runOps, List.mem_cons] at hr
      rcases hr with hr | hr
      · rw [hr]; exact hok
      · exact hoks r hr
    · intro k
      simp only [runOps, specOps, List.foldl_cons]
      rw [hvs k, hv k]
      rfl

end Fmap
end XotModel
