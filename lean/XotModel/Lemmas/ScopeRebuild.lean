/-
  XotModel.Lemmas.ScopeRebuild — `deduplicate_namespaces` as structural recursion.

  1. `ddWalk`: the first loop (traverse, FullnameSerializer stack, DeduplicateTracker, fix-up list)
     as a recursive function of the top frame and the tracker; `dedup_fold` ties it to the fold.
  2. `rbWalk`: the tree after the second and third loops, rebuilt recursively;
     `deduplicateNamespaces_root` : `deduplicateNamespaces env t [] = some (rbWalk env [] t []).2`.
-/
import XotModel.Lemmas.ScopeWalk

namespace XotModel

def prefixPath (pre : Path) (fp : Path × List Nat) : Path × List Nat := (pre ++ fp.1, fp.2)

/-- `to_remove` at `End(node)`, from the parent's top frame and the popped tracker. -/
def dedupToRemove (top : List (Nat × Nat)) (tracker : Tracker) (decls : List (Nat × Nat)) : List Nat :=
  decls.filterMap (fun kv =>
    if kv.2 != Env.noNamespace && FStack.isNamespaceKnown [top] kv.2 &&
      trackerIsSafeToRemove kv.2 tracker then some kv.2 else none)

/-- First loop of `deduplicate_namespaces` on a subtree: resulting tracker and the fix-ups
    (paths relative to the subtree). -/
def ddWalk (env : Env) (top : List (Nat × Nat)) : Tree → Tracker → Tracker × List (Path × List Nat)
  | .node v ks, tr =>
    match v with
    | .element _ =>
      let r := ddWalkList env (pushTop top (Tree.node v ks).nsDecls) 0 ks
        (trackerPush env tr (Tree.node v ks))
      let toRemove := dedupToRemove top r.1.tail (Tree.node v ks).nsDecls
      (r.1.tail, r.2 ++ (if !toRemove.isEmpty then [([], toRemove)] else []))
    | _ => ddWalkList env top 0 ks tr
where
  ddWalkList (env : Env) (top : List (Nat × Nat)) (i : Nat) :
      List Tree → Tracker → Tracker × List (Path × List Nat)
    | [], tr => (tr, [])
    | k :: ks, tr =>
      ((ddWalkList env top (i + 1) ks (ddWalk env top k tr).1).1,
       (ddWalk env top k tr).2.map (prefixPath [i]) ++
         (ddWalkList env top (i + 1) ks (ddWalk env top k tr).1).2)

theorem isNamespaceKnown_top (s : FStack) (ns : Nat) :
    s.isNamespaceKnown ns = FStack.isNamespaceKnown [s.top] ns := by
  simp [FStack.isNamespaceKnown, FStack.top]

theorem prefixPath_prefixPath (pre : Path) (i : Nat) (l : List (Path × List Nat)) :
    (l.map (prefixPath [i])).map (prefixPath pre) = l.map (prefixPath (pre ++ [i])) := by
  simp [prefixPath, List.append_assoc]

theorem dedupStep_stop_element (env : Env) (st : DedupState) (pre : Path) (name : Nat)
    (ks : List Tree) :
    dedupStep env st (.stop pre (.node (.element name) ks)) =
      { fs := st.fs.pop (hasNamespaceDeclarations (.node (.element name) ks)),
        tracker := st.tracker.tail,
        fixups := st.fixups ++
          (if !(dedupToRemove (st.fs.pop (hasNamespaceDeclarations (.node (.element name) ks))).top
                st.tracker.tail (Tree.node (.element name) ks).nsDecls).isEmpty
           then [(pre, dedupToRemove (st.fs.pop (hasNamespaceDeclarations (.node (.element name) ks))).top
                st.tracker.tail (Tree.node (.element name) ks).nsDecls)] else []) } := by
  simp only [dedupStep, Tree.value, Value.isElement, ↓reduceIte, dedupToRemove,
    ← isNamespaceKnown_top]
  split <;> simp

mutual
theorem dedup_fold (env : Env) : ∀ (t : Tree) (pre : Path) (st : DedupState),
    (scopeTraverse pre t).foldl (dedupStep env) st =
      { fs := st.fs, tracker := (ddWalk env st.fs.top t st.tracker).1,
        fixups := st.fixups ++ (ddWalk env st.fs.top t st.tracker).2.map (prefixPath pre) }
  | .node v ks, pre, st => by
    rw [foldl_scopeTraverse]
    cases v with
    | element name =>
      simp only [Value.isNormal, Value.category, beq_self_eq_true, ↓reduceIte]
      rw [show dedupStep env st (.start pre (.node (.element name) ks)) =
          { st with tracker := trackerPush env st.tracker (.node (.element name) ks),
                    fs := st.fs.push (Tree.node (.element name) ks).nsDecls } from rfl]
      rw [dedup_fold_list env ks pre 0]
      rw [dedupStep_stop_element]
      simp only [hasNamespaceDeclarations, FStack.pop_push_sc, FStack.top_push, ddWalk]
      split <;>
        simp only [List.map_append, List.map_cons, List.map_nil, prefixPath, List.append_nil,
          List.append_assoc]
    | document => simpa [Value.isNormal, Value.category, dedupStep, Tree.value, Value.isElement, ddWalk] using dedup_fold_list env ks pre 0 st
    | text s => simpa [Value.isNormal, Value.category, dedupStep, Tree.value, Value.isElement, ddWalk] using dedup_fold_list env ks pre 0 st
    | pi a b => simpa [Value.isNormal, Value.category, dedupStep, Tree.value, Value.isElement, ddWalk] using dedup_fold_list env ks pre 0 st
    | comment s => simpa [Value.isNormal, Value.category, dedupStep, Tree.value, Value.isElement, ddWalk] using dedup_fold_list env ks pre 0 st
    | «attribute» a b => simpa [Value.isNormal, Value.category, ddWalk] using dedup_fold_list env ks pre 0 st
    | «namespace» a b => simpa [Value.isNormal, Value.category, ddWalk] using dedup_fold_list env ks pre 0 st
theorem dedup_fold_list (env : Env) : ∀ (ks : List Tree) (pre : Path) (i : Nat) (st : DedupState),
    (scopeTraverse.go pre i ks).foldl (dedupStep env) st =
      { fs := st.fs, tracker := (ddWalk.ddWalkList env st.fs.top i ks st.tracker).1,
        fixups := st.fixups ++ (ddWalk.ddWalkList env st.fs.top i ks st.tracker).2.map (prefixPath pre) }
  | [], pre, i, st => by simp [foldl_go_nil, ddWalk.ddWalkList]
  | k :: ks, pre, i, st => by
    rw [foldl_go_cons, dedup_fold env k, dedup_fold_list env ks]
    simp [ddWalk.ddWalkList, prefixPath, List.append_assoc]
end

theorem dedupFixups_eq (env : Env) (path : Path) (sub : Tree) :
    dedupFixups env path sub = (ddWalk env [] sub []).2.map (prefixPath path) := by
  simp [dedupFixups, dedup_fold, FStack.new, FStack.top]

/-! ### The tree after the fix-ups, rebuilt recursively -/

/-- Second and third loop for the fix-up of one node: per namespace to remove, the prefixes the
    (original) node binds to it are removed one by one. -/
def eraseOwn (decls : List (Nat × Nat)) (toRemove : List Nat) (n : Tree) : Tree :=
  (toRemove.map fun ns => (decls.filter (fun kv => kv.2 == ns)).map (·.1)).foldl
    (fun n pfxs => pfxs.foldl (fun n p => removeNsKidsOf p n) n) n

def rbWalk (env : Env) (top : List (Nat × Nat)) : Tree → Tracker → Tracker × Tree
  | .node v ks, tr =>
    match v with
    | .element _ =>
      let r := rbList env (pushTop top (Tree.node v ks).nsDecls) ks
        (trackerPush env tr (Tree.node v ks))
      (r.1.tail,
       eraseOwn (Tree.node v ks).nsDecls (dedupToRemove top r.1.tail (Tree.node v ks).nsDecls)
         (.node v r.2))
    | _ => ((rbList env top ks tr).1, .node v (rbList env top ks tr).2)
where
  rbList (env : Env) (top : List (Nat × Nat)) : List Tree → Tracker → Tracker × List Tree
    | [], tr => (tr, [])
    | k :: ks, tr =>
      ((rbList env top ks (rbWalk env top k tr).1).1,
       (rbWalk env top k tr).2 :: (rbList env top ks (rbWalk env top k tr).1).2)

theorem applyFixups_append (t : Tree) (a b : List (Path × List Nat)) :
    applyFixups t (a ++ b) = applyFixups (applyFixups t a) b := by
  simp [applyFixups, List.foldl_append]

theorem dedupFixupPrefixes_append (t : Tree) (a b : List (Path × List Nat)) :
    dedupFixupPrefixes t (a ++ b) = dedupFixupPrefixes t a ++ dedupFixupPrefixes t b := by
  simp [dedupFixupPrefixes]

theorem removeNamespacesAt_cons (v : Value) (q : Path) (i : Nat) (pfxs : List Nat) :
    ∀ l : List Tree, removeNamespacesAt (.node v l) (i :: q) pfxs =
      .node v (l.modify i (fun k => removeNamespacesAt k q pfxs)) := by
  induction pfxs with
  | nil => intro l; simp only [removeNamespacesAt, List.foldl_nil]; exact congrArg (Tree.node v) (List.modify_id i l).symm
  | cons p rest ih =>
    intro l
    have := ih (l.modify i (fun k => scopeModifyAt (removeNsKidsOf p) k q))
    simp only [removeNamespacesAt, List.foldl_cons, scopeModifyAt] at this ⊢
    rw [this, List.modify_modify_eq]
    rfl

theorem applyFixups_kid (v : Value) (i : Nat) (fps : List (Path × List Nat)) :
    ∀ l : List Tree, applyFixups (.node v l) (fps.map (prefixPath [i])) =
      .node v (l.modify i (fun k => applyFixups k fps)) := by
  induction fps with
  | nil => intro l; simp only [applyFixups, List.map_nil, List.foldl_nil]; exact congrArg (Tree.node v) (List.modify_id i l).symm
  | cons fp rest ih =>
    intro l
    have := ih (l.modify i (fun k => removeNamespacesAt k fp.1 fp.2))
    simp only [applyFixups, List.map_cons, List.foldl_cons, prefixPath, List.singleton_append,
      removeNamespacesAt_cons] at this ⊢
    rw [this, List.modify_modify_eq]
    rfl

theorem modify_length_append (done : List Tree) (k : Tree) (ks : List Tree) (f : Tree → Tree) :
    (done ++ k :: ks).modify done.length f = done ++ f k :: ks := by
  induction done with
  | nil => simp
  | cons d rest ih => simp [ih]

theorem dedupFixupPrefixes_kid (v : Value) (l : List Tree) (i : Nat) (k : Tree)
    (hk : l[i]? = some k) (fps : List (Path × List Nat)) :
    dedupFixupPrefixes (.node v l) (fps.map (prefixPath [i])) =
      (dedupFixupPrefixes k fps).map (prefixPath [i]) := by
  simp only [dedupFixupPrefixes, List.flatMap_map, List.map_flatMap]
  congr 1
  funext fp
  obtain ⟨q, toRemove⟩ := fp
  simp [prefixPath, Tree.at?, hk]

theorem applyFixups_own (x n : Tree) (toRemove : List Nat) :
    applyFixups n (dedupFixupPrefixes x [([], toRemove)]) = eraseOwn x.nsDecls toRemove n := by
  simp only [dedupFixupPrefixes, Tree.at?, List.flatMap_cons, List.flatMap_nil, List.append_nil,
    applyFixups, eraseOwn, List.foldl_map, removeNamespacesAt, scopeModifyAt]

theorem eraseOwn_nil (decls : List (Nat × Nat)) (n : Tree) : eraseOwn decls [] n = n := by
  simp [eraseOwn]

mutual
theorem rebuild_tree (env : Env) : ∀ (x : Tree) (top : List (Nat × Nat)) (tr : Tracker),
    (ddWalk env top x tr).1 = (rbWalk env top x tr).1 ∧
    applyFixups x (dedupFixupPrefixes x (ddWalk env top x tr).2) = (rbWalk env top x tr).2
  | .node v ks, top, tr => by
    cases v with
    | element name =>
      obtain ⟨h1, h2⟩ := rebuild_list env ks (pushTop top (Tree.node (.element name) ks).nsDecls)
        (trackerPush env tr (.node (.element name) ks)) 0 (.element name) [] [] rfl rfl
      simp only [List.nil_append] at h2
      simp only [ddWalk, rbWalk, h1, true_and, dedupFixupPrefixes_append, applyFixups_append, h2]
      split
      · rw [applyFixups_own]
      · rename_i h
        have : dedupToRemove top (rbWalk.rbList env (pushTop top (Tree.node (.element name) ks).nsDecls) ks
            (trackerPush env tr (.node (.element name) ks))).1.tail
            (Tree.node (.element name) ks).nsDecls = [] := by simpa using h
        simp [this, eraseOwn_nil, dedupFixupPrefixes, applyFixups]
    | document =>
      obtain ⟨h1, h2⟩ := rebuild_list env ks top tr 0 .document [] [] rfl rfl
      simpa [ddWalk, rbWalk, h1] using h2
    | text s =>
      obtain ⟨h1, h2⟩ := rebuild_list env ks top tr 0 (.text s) [] [] rfl rfl
      simpa [ddWalk, rbWalk, h1] using h2
    | pi a b =>
      obtain ⟨h1, h2⟩ := rebuild_list env ks top tr 0 (.pi a b) [] [] rfl rfl
      simpa [ddWalk, rbWalk, h1] using h2
    | comment s =>
      obtain ⟨h1, h2⟩ := rebuild_list env ks top tr 0 (.comment s) [] [] rfl rfl
      simpa [ddWalk, rbWalk, h1] using h2
    | «attribute» a b =>
      obtain ⟨h1, h2⟩ := rebuild_list env ks top tr 0 (.attribute a b) [] [] rfl rfl
      simpa [ddWalk, rbWalk, h1] using h2
    | «namespace» a b =>
      obtain ⟨h1, h2⟩ := rebuild_list env ks top tr 0 (.namespace a b) [] [] rfl rfl
      simpa [ddWalk, rbWalk, h1] using h2
theorem rebuild_list (env : Env) : ∀ (ks : List Tree) (top : List (Nat × Nat)) (tr : Tracker) (i : Nat)
    (v : Value) (done orig : List Tree), done.length = i → orig.length = i →
    (ddWalk.ddWalkList env top i ks tr).1 = (rbWalk.rbList env top ks tr).1 ∧
    applyFixups (.node v (done ++ ks))
        (dedupFixupPrefixes (.node v (orig ++ ks)) (ddWalk.ddWalkList env top i ks tr).2) =
      .node v (done ++ (rbWalk.rbList env top ks tr).2)
  | [], top, tr, i, v, done, orig, _, _ => by
    simp [ddWalk.ddWalkList, rbWalk.rbList, dedupFixupPrefixes, applyFixups]
  | k :: ks, top, tr, i, v, done, orig, hd, ho => by
    subst hd
    obtain ⟨h1, h2⟩ := rebuild_tree env k top tr
    have hk : (orig ++ k :: ks)[done.length]? = some k := by simp [← ho]
    obtain ⟨h3, h4⟩ := rebuild_list env ks top (rbWalk env top k tr).1 (done.length + 1) v (done ++ [rbWalk env top k tr |>.2])
      (orig ++ [k]) (by simp) (by simp [ho])
    simp only [ddWalk.ddWalkList, rbWalk.rbList, h1, h3, true_and, dedupFixupPrefixes_append,
      applyFixups_append, dedupFixupPrefixes_kid v _ done.length k hk, applyFixups_kid]
    rw [modify_length_append, h2]
    simp only [List.append_assoc, List.singleton_append] at h4
    exact h4
end

/-- `deduplicate_namespaces` called on the root, as a recursive rebuild. -/
theorem deduplicateNamespaces_root (env : Env) (t : Tree) :
    deduplicateNamespaces env t [] = some (rbWalk env [] t []).2 := by
  simp only [deduplicateNamespaces, Tree.at?, dedupFixups_eq]
  have : prefixPath [] = id := by funext ⟨a, b⟩; rfl
  rw [this, List.map_id, (rebuild_tree env t [] []).2]

end XotModel
