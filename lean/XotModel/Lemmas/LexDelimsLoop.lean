/-
  XotModel.Lemmas.LexDelimsLoop — `Token.Delims` and `TextAdj` (Lemmas/LexDelims.lean) for every token the
  reference tokenizer returns, on every input: one call of `parse_next_impl` (with the tests that select
  the comment / PI / end-tag parser), then the loop.
-/
import XotModel.Lemmas.LexDelims

namespace XotModel.Lex.Slice

open XotModel.Lex.Stream

/-- Neither a comment, nor a PI, nor an end tag. -/
def NotOpener (t : Token) : Prop :=
  (∀ a b, t ≠ .comment a b) ∧ (∀ a c b, t ≠ .pi a c b) ∧ (∀ p l b, t ≠ .elementEnd (.close p l) b)

/-- How `parse_next_impl` came to return a comment / PI / end-tag token: the parser and the test on the
    stream that selected it. -/
inductive Opener (tk : Tokenizer) (t : Token) (s' : Lex.Stream) : Prop where
  | comment : tk.stream.startsWith litCommentOpen = true → parseComment tk.stream = some (t, s') → Opener tk t s'
  | pi : tk.stream.startsWith litPiOpen = true → parsePI tk.stream = some (t, s') → Opener tk t s'
  | close : tk.stream.curr? = some '<' → tk.stream.next? = some '/' →
      parseCloseElement tk.stream = some (t, s') → Opener tk t s'
  | other : NotOpener t → Opener tk t s'

theorem notOpener_decl {s s' : Lex.Stream} {t : Token} (h : parseDeclaration s = some (t, s')) : NotOpener t := by
  obtain ⟨v, e, sa, sp, rfl⟩ := parseDeclaration_form h
  exact ⟨fun _ _ h => (by cases h), fun _ _ _ h => (by cases h), fun _ _ _ h => (by cases h)⟩

theorem notOpener_entity {s s' : Lex.Stream} {t : Token} (h : parseEntityDecl s = some (t, s')) : NotOpener t := by
  obtain ⟨sp, rfl⟩ := parseEntityDecl_form h
  exact ⟨fun _ _ h => (by cases h), fun _ _ _ h => (by cases h), fun _ _ _ h => (by cases h)⟩

theorem notOpener_doctype {src : Str} {s s' : Lex.Stream} {t : Token} (hw : SWf src s)
    (h : parseDoctype s = some (t, s')) : NotOpener t := by
  rcases (parseDoctype_good hw h).2 with ⟨sp, rfl⟩ | ⟨sp, rfl⟩ <;>
    exact ⟨fun _ _ h => (by cases h), fun _ _ _ h => (by cases h), fun _ _ _ h => (by cases h)⟩

theorem notOpener_start {s s' : Lex.Stream} {t : Token} (h : parseElementStart s = some (t, s')) : NotOpener t := by
  simp only [parseElementStart, Option.bind_eq_bind, Option.bind_eq_some_iff, Option.some.injEq,
    Prod.mk.injEq] at h
  obtain ⟨⟨p, l, s1⟩, h1, rfl, rfl⟩ := h
  exact ⟨fun _ _ h => (by cases h), fun _ _ _ h => (by cases h), fun _ _ _ h => (by cases h)⟩

theorem notOpener_cdata {s s' : Lex.Stream} {t : Token} (h : parseCdata s = some (t, s')) : NotOpener t := by
  obtain ⟨s2, rfl, _, _⟩ := parseCdata_form h
  exact ⟨fun _ _ h => (by cases h), fun _ _ _ h => (by cases h), fun _ _ _ h => (by cases h)⟩

theorem notOpener_text {s s' : Lex.Stream} {t : Token} (h : parseText s = some (t, s')) : NotOpener t := by
  obtain ⟨rfl, _⟩ := parseText_form h
  exact ⟨fun _ _ h => (by cases h), fun _ _ _ h => (by cases h), fun _ _ _ h => (by cases h)⟩

theorem notOpener_attr {src : Str} {s s' : Lex.Stream} {t : Token} (hw : SWf src s)
    (h : parseAttribute s = some (t, s')) : NotOpener t := by
  rcases parseAttribute_good hw h with hg | ⟨sp, rfl, _⟩ | ⟨sp, rfl, _⟩
  · have hk := hg.kind
    refine ⟨fun _ _ h => ?_, fun _ _ _ h => ?_, fun _ _ _ h => ?_⟩ <;> (subst h; simp [kind] at hk)
  · exact ⟨fun _ _ h => (by cases h), fun _ _ _ h => (by cases h), fun _ _ _ h => (by cases h)⟩
  · exact ⟨fun _ _ h => (by cases h), fun _ _ _ h => (by cases h), fun _ _ _ h => (by cases h)⟩

/-- `miscStep` returning a token. -/
theorem miscStep_opener {tk tk' : Tokenizer} {other : Step} {t : Token}
    (h : miscStep tk other = .token t tk') : Opener tk t tk'.stream ∨ other = .token t tk' := by
  unfold miscStep at h
  dsimp only at h
  split at h
  · next ho =>
    obtain ⟨s', hr, rfl⟩ := Step.ofParse_token h
    exact .inl (.comment ho hr)
  · split at h
    · next ho =>
      split at h
      · simp at h
      · obtain ⟨s', hr, rfl⟩ := Step.ofParse_token h
        exact .inl (.pi ho hr)
    · exact .inr h

theorem startsWith_of_curr_next {s : Lex.Stream} {a b : Char} (hc : s.curr? = some a) (hn : s.next? = some b) :
    s.startsWith [a, b] = true := by
  obtain ⟨r, hr⟩ := curr_rest hc
  simp only [Stream.next?, hr, List.tail_cons] at hn
  cases r with
  | nil => cases hn
  | cons d r' =>
    simp only [List.head?_cons, Option.some.injEq] at hn
    subst hn
    simp [Stream.startsWith, hr, List.isPrefixOf]

/-- Which parser returned the token, with the test that selected it. -/
theorem parseNextImpl_opener {src : Str} {tk tk' : Tokenizer} {t : Token}
    (hw : SWf src tk.stream) (he : tk.stream.atEnd = false)
    (h : parseNextImpl tk = .token t tk') : Opener tk t tk'.stream := by
  unfold parseNextImpl at h
  simp only [he, Bool.false_eq_true, if_false] at h
  split at h
  · -- declaration
    split at h
    · obtain ⟨s', hr, rfl⟩ := Step.ofParse_token h
      exact .other (notOpener_decl hr)
    · simp at h
  · -- afterDeclaration
    split at h
    · split at h
      · simp at h
      · next t1 s1 hd =>
        simp only [Step.token.injEq] at h
        obtain ⟨rfl, rfl⟩ := h
        exact .other (notOpener_doctype hw hd)
    · rcases miscStep_opener h with h | h
      · exact h
      · split at h <;> simp at h
  · -- dtd
    split at h
    · obtain ⟨s', hr, rfl⟩ := Step.ofParse_token h
      exact .other (notOpener_entity hr)
    · rcases miscStep_opener h with h | h
      · exact h
      · split at h
        · split at h
          · simp only [Step.token.injEq] at h
            obtain ⟨rfl, rfl⟩ := h
            exact .other ⟨fun _ _ h => (by cases h), fun _ _ _ h => (by cases h), fun _ _ _ h => (by cases h)⟩
          · simp at h
        · split at h
          · simp at h
          · split at h
            · split at h <;> simp at h
            · simp at h
  · -- afterDtd
    rcases miscStep_opener h with h | h
    · exact h
    · split at h
      · simp at h
      · split at h
        · obtain ⟨s', hr, rfl⟩ := Step.ofParse_token h
          exact .other (notOpener_start hr)
        · split at h <;> simp at h
  · -- elements
    split at h
    · next hc =>
      have hc' : tk.stream.curr? = some '<' := by simpa using hc
      split at h
      · simp at h
      · next c hn =>
        split at h
        · split at h
          · next ho =>
            obtain ⟨s', hr, rfl⟩ := Step.ofParse_token h
            exact .comment ho hr
          · split at h
            · obtain ⟨s', hr, rfl⟩ := Step.ofParse_token h
              exact .other (notOpener_cdata hr)
            · simp at h
        · split at h
          · next hq =>
            split at h
            · obtain ⟨s', hr, rfl⟩ := Step.ofParse_token h
              have hn' : tk.stream.next? = some '?' := by
                rw [hn]; congr 1; simpa using hq
              exact .pi (startsWith_of_curr_next hc' hn') hr
            · simp at h
          · split at h
            · next hsl =>
              obtain ⟨s', hr, rfl⟩ := Step.ofParse_token h
              have hn' : tk.stream.next? = some '/' := by
                rw [hn]; congr 1; simpa using hsl
              exact .close hc' hn' hr
            · obtain ⟨s', hr, rfl⟩ := Step.ofParse_token h
              exact .other (notOpener_start hr)
    · obtain ⟨s', hr, rfl⟩ := Step.ofParse_token h
      exact .other (notOpener_text hr)
  · -- attributes
    split at h
    · simp at h
    · next t1 s1 ha =>
      have hno := notOpener_attr hw ha
      split at h <;>
        (simp only [Step.token.injEq] at h; obtain ⟨rfl, rfl⟩ := h; exact .other hno)
  · -- afterElements
    rcases miscStep_opener h with h | h
    · exact h
    · split at h <;> simp at h
  · simp at h

theorem NotOpener.delims {t : Token} (h : NotOpener t) : t.Delims := by
  cases t with
  | comment a b => exact absurd rfl (h.1 a b)
  | pi a c b => exact absurd rfl (h.2.1 a c b)
  | elementEnd e sp =>
    cases e with
    | close p l => exact absurd rfl (h.2.2 p l sp)
    | «open» => trivial
    | empty => trivial
  | _ => trivial

/-- The `>` / `/>` token of `parse_attribute` ends at the stream position after it. -/
theorem parseAttribute_end_stop {s s' : Lex.Stream} {e : ElementEnd} {sp : StrSpan}
    (h : parseAttribute s = some (.elementEnd e sp, s')) : sp.stop = s'.pos := by
  unfold parseAttribute at h
  dsimp only at h
  split at h
  · simp only [Option.bind_eq_bind, Option.bind_eq_some_iff, Option.some.injEq,
      Prod.mk.injEq, Token.elementEnd.injEq] at h
    obtain ⟨s2, h2, ⟨_, rfl⟩, rfl⟩ := h
    exact Reach.sliceBack_stop ((Reach.adv _ 1).trans (consumeByte_reach h2))
  · split at h
    · simp only [Option.some.injEq, Prod.mk.injEq, Token.elementEnd.injEq] at h
      obtain ⟨⟨_, rfl⟩, rfl⟩ := h
      exact Reach.sliceBack_stop (Reach.adv _ 1)
    · split at h
      · simp at h
      · simp only [Option.bind_eq_bind, Option.bind_eq_some_iff, Option.some.injEq,
          Prod.mk.injEq] at h
        obtain ⟨⟨p, l, s2⟩, h2, s3, h3, ⟨q, s4⟩, h4, s5, h5, s6, h6, hh, _⟩ := h
        cases hh

/-- One call of `parse_next_impl` that returns a token: its delimiters; and when the tokenizer is left in
    `Elements` (where text tokens come from) the token ends at the stream position and, unless it is a
    text token itself, with `>`. -/
theorem parseNextImpl_delims {src : Str} {tk tk' : Tokenizer} {t : Token}
    (hw : SWf src tk.stream) (he : tk.stream.atEnd = false)
    (h : parseNextImpl tk = .token t tk') :
    t.Delims ∧ (tk'.state = .elements → t.wholeSpan.stop = tk'.stream.pos ∧ (t.isTextTok = false → t.EndsGt)) := by
  cases parseNextImpl_opener hw he h with
  | comment ho hr =>
    obtain ⟨a, b, c, _⟩ := parseComment_delims ho hr
    exact ⟨a, fun _ => ⟨b, fun _ => c⟩⟩
  | pi ho hr =>
    obtain ⟨a, b, c, _⟩ := parsePI_delims ho hr
    exact ⟨a, fun _ => ⟨b, fun _ => c⟩⟩
  | close hc hn hr =>
    obtain ⟨a, b, c, _⟩ := parseCloseElement_delims hc hn hr
    exact ⟨a, fun _ => ⟨b, fun _ => c⟩⟩
  | other hno =>
    refine ⟨hno.delims, fun hst' => ?_⟩
    have sf := parseNextImpl_facts hw he h
    have ts := parseNextImpl_tokStep hw he h
    cases ts with
    | decl _ hp => cases hst'
    | doctype st _ hp hor => rcases hor with rfl | rfl <;> cases hst'
    | entity hs hp => simp only at hst'; rw [hs] at hst'; cases hst'
    | comment _ hp =>
      obtain ⟨a, b, rfl⟩ := parseComment_form hp
      exact absurd rfl (hno.1 a b)
    | pi _ hp =>
      obtain ⟨a, c, b, rfl⟩ := parsePI_form hp
      exact absurd rfl (hno.2.1 a c b)
    | dtdEnd _ _ => cases hst'
    | start _ hp => cases hst'
    | cdata hs hp =>
      obtain ⟨s2, rfl, r1, r2⟩ := parseCdata_form hp
      refine ⟨sf.charStop rfl, fun _ => ?_⟩
      have hsp := sf.spelled.1
      exact ⟨litCdataOpen ++ (sliceBack (tk.stream.adv 9) s2).text ++ [']', ']'], by
        show (sliceBack tk.stream _).text = _
        rw [hsp]; simp [litCdataClose]⟩
    | text hs hp =>
      obtain ⟨rfl, r⟩ := parseText_form hp
      exact ⟨sf.charStop rfl, fun hx => by cases hx⟩
    | close hs hp =>
      have := (parseCloseElement_good hw hp).kind
      cases t with
      | elementEnd e sp =>
        cases e with
        | close p l => exact absurd rfl (hno.2.2 p l sp)
        | «open» => simp [kind] at this
        | empty => simp [kind] at this
      | _ => simp [kind] at this
    | attr hs hp _ => simp only at hst'; rw [hs] at hst'; cases hst'
    | tagOpen _ hp =>
      refine ⟨parseAttribute_end_stop hp, fun _ => ⟨[], ?_⟩⟩
      have := sf.spelled
      simpa [Token.Spelled, Token.wholeSpan] using this
    | tagEmpty _ hp =>
      refine ⟨parseAttribute_end_stop hp, fun _ => ⟨['/'], ?_⟩⟩
      have := sf.spelled
      simpa [Token.Spelled, Token.wholeSpan] using this

/-! ### The loop -/

theorem lexLoop_delims (src : Str) (tk : Tokenizer) (position : Nat) :
    SWf src tk.stream →
    (∀ t ∈ (lexLoop tk position).1, t.Delims) ∧ AdjChain TextAdj (lexLoop tk position).1 := by
  fun_induction lexLoop tk position with
  | case1 tk pos hc =>
    intro _
    exact ⟨fun t ht => (by cases ht), trivial⟩
  | case2 tk pos hc tk' hs ih =>
    intro hw
    have he : tk.stream.atEnd = false := by
      cases h : tk.stream.atEnd <;> simp_all
    have sk := parseNextImpl_skipStep he (fun h => hc (.inr h)) hs
    exact ih (hw.reach sk.reach)
  | case3 tk pos hc t tk' hs r ih =>
    intro hw
    have he : tk.stream.atEnd = false := by
      cases h : tk.stream.atEnd <;> simp_all
    have hw' : SWf src tk'.stream := hw.reach (parseNextImpl_token he hs).reach
    obtain ⟨hd, hstop⟩ := parseNextImpl_delims hw he hs
    have sf := parseNextImpl_facts hw he hs
    obtain ⟨h1, h3⟩ := ih hw'
    obtain ⟨_, k2, _⟩ := lexLoop_spelled src tk' tk'.stream.pos hw'
    refine ⟨?_, ?_⟩
    · intro t' ht'
      rcases List.mem_cons.mp ht' with rfl | ht'
      · exact hd
      · exact h1 t' ht'
    · cases hr : r.1 with
      | nil => trivial
      | cons t2 rest =>
        rw [hr] at h3
        refine ⟨?_, h3⟩
        intro htt
        have hcd := Token.isCharData_of_isTextTok htt
        obtain ⟨hst, hstart, htb⟩ := k2 t2 rest hr hcd
        obtain ⟨e1, e2⟩ := hstop hst
        refine ⟨by rw [e1, hstart], e2 ?_⟩
        -- two text tokens never follow each other
        cases ht1 : t.isTextTok with
        | false => rfl
        | true =>
          rcases sf.textAfter ht1 with hae | hlt
          · have : r.1 = [] := by
              show (lexLoop tk' tk'.stream.pos).1 = []
              rw [lexLoop]; simp [hae]
            rw [this] at hr; cases hr
          · exact absurd hlt (htb htt)
  | case4 tk pos hc hs =>
    intro _
    exact ⟨fun t ht => (by cases ht), trivial⟩

end XotModel.Lex.Slice

namespace XotModel

open XotModel.Lex.Slice

/-- A first token that is a text token starts at byte 0 (fragment mode; a document never starts so). -/
def TextFirst (ts : List Token) : Prop :=
  ∀ t rest, ts = t :: rest → t.isTextTok = true → t.wholeSpan.start = 0

theorem lexDocument_delims (s : Str) :
    (∀ t ∈ (lexDocument s).1, t.Delims) ∧ AdjChain TextAdj (lexDocument s).1 ∧ TextFirst (lexDocument s).1 := by
  have h := lexLoop_delims s (Lex.Tokenizer.ofStr s) (Lex.Tokenizer.ofStr s).stream.pos (ofStr_swf s)
  refine ⟨h.1, h.2, ?_⟩
  intro t rest hl ht
  have := (lexLoop_spelled s (Lex.Tokenizer.ofStr s) (Lex.Tokenizer.ofStr s).stream.pos (ofStr_swf s)).2.1 t rest hl
    (Token.isCharData_of_isTextTok ht)
  exact absurd this.1 (by simp [Lex.Tokenizer.ofStr])

theorem lexFragment_delims (s : Str) :
    (∀ t ∈ (lexFragment s).1, t.Delims) ∧ AdjChain TextAdj (lexFragment s).1 ∧ TextFirst (lexFragment s).1 := by
  have h := lexLoop_delims s (Lex.Tokenizer.ofFragment s) (Lex.Tokenizer.ofFragment s).stream.pos (SWf.ofStr s)
  refine ⟨h.1, h.2, ?_⟩
  intro t rest hl ht
  have := (lexLoop_spelled s (Lex.Tokenizer.ofFragment s) (Lex.Tokenizer.ofFragment s).stream.pos (SWf.ofStr s)).2.1 t rest hl
    (Token.isCharData_of_isTextTok ht)
  exact this.2.1

end XotModel
