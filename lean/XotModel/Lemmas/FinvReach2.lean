/-
  Finv (C04), part 26: one step and histories — every call in `Op.core` preserves the invariant.
-/
import XotModel.Lemmas.FinvClone2
import XotModel.Lemmas.FinvReplFinal

namespace XotModel
namespace Forest

theorem step_inv {f : Forest} (hi : f.Inv) (o : Op) (hc : o.core = true) : (f.step o).Inv := by
  cases o with
  | newDocument => exact newNode_inv hi _
  | newElement n => exact newNode_inv hi _
  | newText s => exact newNode_inv hi _
  | newComment s => exact newNode_inv hi _
  | newPi t d => exact newNode_inv hi _
  | newAttributeNode n v => exact newNode_inv hi _
  | newNamespaceNode p n => exact newNode_inv hi _
  | append p c => exact append_inv hi p c
  | prepend p c => exact prepend_inv hi p c
  | insertAfter r n => exact insertAfter_inv hi r n
  | insertBefore r n => exact insertBefore_inv hi r n
  | detach n => exact detach_inv hi n
  | remove n => exact remove_inv hi n
  | anyAppend p c => exact anyAppend_inv hi p c
  | appendAttributeNode p c => exact appendEntryNode_inv hi _ p c
  | appendNamespaceNode p c => exact appendEntryNode_inv hi _ p c
  | attrInsert p n v => exact mapInsert_inv hi _ p _ rfl
  | nsInsert p pf ns => exact mapInsert_inv hi _ p _ rfl
  | attrRemove p n => exact mapRemove_inv hi _ p n
  | nsRemove p pf => exact mapRemove_inv hi _ p pf
  | attrClear p => exact mapClear_inv hi _ p
  | nsClear p => exact mapClear_inv hi _ p
  | setElementName n name => exact setElementName_inv hi n name
  | setText n s => exact setText_inv hi n s
  | setComment n s => exact setComment_inv hi n s
  | setPiData n d => exact setPiData_inv hi n d
  | textContentSet n s => exact textContentSet_inv hi n s
  | setConsolidation b => exact setConsolidation_inv hi b
  | removeInsignificantWhitespace n => exact removeInsignificantWhitespace_inv hi n
  | replace a b => exact replace_inv hi a b
  | elementWrap n name => exact elementWrap_inv hi n name
  | elementUnwrap n => exact elementUnwrap_inv hi n
  | cloneNode n => exact cloneNode_inv hi n

theorem run_inv {f : Forest} (hi : f.Inv) (ops : List Op) (hc : ∀ o ∈ ops, o.core = true) :
    (f.run ops).Inv := by
  unfold run
  induction ops generalizing f with
  | nil => exact hi
  | cons o ops ih =>
    exact ih (step_inv hi o (hc o (by simp))) (fun o' h' => hc o' (by simp [h']))

end Forest
end XotModel
