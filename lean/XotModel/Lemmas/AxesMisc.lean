/-
  The plain variants never yield a namespace or attribute node; `document_element`,
  `top_element`.
-/
import XotModel.Lemmas.AxesCats

namespace XotModel.Axes

/-! ### Plain variants yield normal nodes only -/

theorem mem_pre_filter {t : Tree} {P : Path → Bool} {q : Path} (h : q ∈ (pre t).filter P) :
    Valid t q ∧ isNormalAt t q = true := (mem_pre_iff t q).mp (List.mem_filter.mp h).1

theorem descendants_normal_only {t : Tree} {p : Path} (h : Valid t p) :
    ∀ q ∈ descendants t p, Valid t q ∧ isNormalAt t q = true := by
  intro q hq; rw [descendants_eq h] at hq; exact mem_pre_filter hq

theorem following_normal_only {t : Tree} {p : Path} (h : Valid t p) :
    ∀ q ∈ following t p, Valid t q ∧ isNormalAt t q = true := by
  intro q hq; rw [following_eq h] at hq; exact mem_pre_filter hq

theorem preceding_normal_only {t : Tree} {p : Path} (hw : wf t = true) (h : Valid t p) :
    ∀ q ∈ preceding t p, Valid t q ∧ isNormalAt t q = true := by
  intro q hq; rw [preceding_eq hw h, List.mem_reverse] at hq; exact mem_pre_filter hq

theorem reversePreorder_normal_only {t : Tree} {p : Path} (h : Valid t p) :
    ∀ q ∈ reversePreorder t p, Valid t q ∧ isNormalAt t q = true := by
  intro q hq; rw [reversePreorder_eq h, List.mem_reverse] at hq; exact mem_pre_filter hq

theorem children_normal_only {t : Tree} {p : Path} (hw : wf t = true) (h : Valid t p) :
    ∀ q ∈ children t p, Valid t q ∧ isNormalAt t q = true := by
  intro q hq; rw [children_spec hw h] at hq; exact mem_pre_filter hq

theorem ancestor_normal_only {t : Tree} {p : Path} (hw : wf t = true) (h : Valid t p) :
    ∀ q ∈ axis t .ancestor p, Valid t q ∧ isNormalAt t q = true := by
  intro q hq; rw [axis_ancestor_spec hw h, List.mem_reverse] at hq; exact mem_pre_filter hq

theorem traverse_normal_only (t : Tree) (p : Path) :
    (∀ e ∈ traverse t p, isNormalAt t e.node = true) ∧
    (∀ e ∈ reverseTraverse t p, isNormalAt t e.node = true) := by
  constructor
  · intro e he; exact (List.mem_filter.mp he).2
  · intro e he; exact (List.mem_filter.mp he).2

/-- Sibling stepping stays within the category of the node (any tree, any node). -/
theorem sibling_same_category (t : Tree) (p : Path) :
    (∀ s, nextSibling t p = some s → categoryAt t s = categoryAt t p) ∧
    (∀ s, previousSibling t p = some s → categoryAt t s = categoryAt t p) ∧
    (∀ s ∈ followingSiblings t p, categoryAt t s = categoryAt t p) ∧
    (∀ s ∈ precedingSiblings t p, categoryAt t s = categoryAt t p) := by
  refine ⟨?_, ?_, ?_, ?_⟩
  · intro s hs
    unfold nextSibling at hs
    cases h1 : internalNextSibling t p with
    | none => rw [h1] at hs; cases hs
    | some s' =>
      rw [h1] at hs
      simp only at hs
      split at hs
      · cases hs
      · rename_i hc
        injection hs with hs; subst hs
        exact (by simpa using hc : categoryAt t p = categoryAt t s').symm
  · intro s hs
    unfold previousSibling at hs
    cases h1 : internalPreviousSibling p with
    | none => rw [h1] at hs; cases hs
    | some s' =>
      rw [h1] at hs
      simp only at hs
      split at hs
      · cases hs
      · rename_i hc
        injection hs with hs; subst hs
        exact (by simpa using hc : categoryAt t p = categoryAt t s').symm
  · intro s hs; simpa using (List.mem_filter.mp hs).2
  · intro s hs; simpa using (List.mem_filter.mp hs).2

/-- `level_order` below the start node yields normal nodes only (well-formed trees). -/
theorem levelAt_normal_only {t : Tree} {p : Path} (hw : wf t = true) (h : Valid t p) (k : Nat) :
    ∀ q ∈ levelAt t p (k + 1), Valid t q ∧ isNormalAt t q = true := by
  intro q hq
  simp only [levelAt, List.mem_flatMap] at hq
  obtain ⟨m, hm, hq⟩ := hq
  exact children_normal_only hw (levelAt_valid h k m hm).1 q hq

/-! ### document_element, top_element -/

/-- The result of `document_element` on a document node, from the search for an element child. -/
def docElemOf : Option Path → Outcome AxErr Path
  | some c => .ok c
  | none => .err .noElementAtTopLevel

theorem documentElement_eq (t : Tree) (p : Path) :
    documentElement t p =
      if (valueAt t p).isDocument then docElemOf ((children t p).find? (fun c => (valueAt t c).isElement))
      else .err .notDocument := by
  unfold documentElement
  cases (valueAt t p).isDocument
  · simp
  · cases h : (children t p).find? (fun c => (valueAt t c).isElement) <;> simp [docElemOf]

/-- `document_element(p) = Ok(c)`: `p` is a document node and `c` is its first element child. -/
theorem documentElement_ok {t : Tree} {p c : Path} (hw : wf t = true) (h : Valid t p)
    (hc : documentElement t p = .ok c) :
    (valueAt t p).isDocument = true ∧ c ∈ children t p ∧ (valueAt t c).isElement = true ∧
    ∀ c' ∈ children t p, docLt c' c = true → (valueAt t c').isElement = false := by
  rw [documentElement_eq] at hc
  cases hd : (valueAt t p).isDocument with
  | false => rw [hd] at hc; simp at hc
  | true =>
    rw [hd] at hc
    simp only [if_true] at hc
    cases hf : (children t p).find? (fun c => (valueAt t c).isElement) with
    | none => rw [hf] at hc; cases hc
    | some c0 =>
      rw [hf] at hc
      simp only [docElemOf] at hc
      injection hc with hc; subst hc
      obtain ⟨he, as, bs, hl, has⟩ := List.find?_eq_some_iff_append.mp hf
      refine ⟨rfl, by rw [hl]; simp, he, ?_⟩
      intro c' hc' hlt
      have hsorted : (children t p).Pairwise (fun a b => docLt a b = true) := by
        rw [children_spec hw h]; exact (pre_sorted t).filter _
      rw [hl] at hc' hsorted
      rcases List.mem_append.mp hc' with hin | hin
      · simpa using has c' hin
      · rcases List.mem_cons.mp hin with rfl | hin
        · rw [docLt_irrefl] at hlt; cases hlt
        · have := (List.pairwise_append.mp hsorted).2.1
          rw [List.pairwise_cons] at this
          have := docLt_asymm (this.1 c' hin)
          rw [this] at hlt; cases hlt

/-- `document_element` errors: not a document node; or a document node without element child. -/
theorem documentElement_err (t : Tree) (p : Path) :
    (documentElement t p = .err .notDocument ↔ (valueAt t p).isDocument = false) ∧
    (documentElement t p = .err .noElementAtTopLevel ↔
      (valueAt t p).isDocument = true ∧ ∀ c ∈ children t p, (valueAt t c).isElement = false) ∧
    documentElement t p ≠ .panic := by
  rw [documentElement_eq]
  cases hd : (valueAt t p).isDocument
  · simp
  · cases hf : (children t p).find? (fun c => (valueAt t c).isElement) with
    | none => simpa [docElemOf, List.find?_eq_none] using hf
    | some c0 =>
      have h1 := List.find?_some hf
      have h2 := List.mem_of_find?_eq_some hf
      simp only [if_true, docElemOf]
      refine ⟨by simp, ?_, by simp⟩
      constructor
      · intro h; cases h
      · intro h; have := h.2 c0 h2; rw [h1] at this; cases this

/-- `fold`ing "take the ancestor if it is an element" over a list keeps the last element. -/
theorem foldl_last (P : Path → Bool) : ∀ (l : List Path) (init : Path),
    l.foldl (fun top a => if P a then a else top) init = (l.reverse.find? P).getD init
  | [], _ => rfl
  | x :: l, init => by
    rw [List.foldl_cons, foldl_last P l, List.reverse_cons, List.find?_append]
    cases l.reverse.find? P with
    | some a => simp
    | none => by_cases hx : P x = true <;> simp [hx]

/-- `top_element` never panics. On a document node it is the first element child
    (`document_element`), the document node itself if there is none; on any other node it is
    the first element on the way from the root down to the node, the node itself if there is
    none (`XXX in an unattached tree this may not be an element`). -/
theorem topElement_eq (t : Tree) (p : Path) :
    topElement t p ≠ .panic ∧
    ((valueAt t p).isDocument = true →
      topElement t p = .ok (((children t p).find? (fun c => (valueAt t c).isElement)).getD p)) ∧
    ((valueAt t p).isDocument = true → ∀ c, documentElement t p = .ok c → topElement t p = .ok c) ∧
    ((valueAt t p).isDocument = false →
      topElement t p = .ok (((ancRel p ++ [p]).find? (fun a => (valueAt t a).isElement)).getD p)) := by
  have hdoc : (valueAt t p).isDocument = true →
      topElement t p = .ok (((children t p).find? (fun c => (valueAt t c).isElement)).getD p) := by
    intro hd
    unfold topElement
    rw [documentElement_eq]
    cases hf : (children t p).find? (fun c => (valueAt t c).isElement) <;> simp [hd, docElemOf]
  have hnd : (valueAt t p).isDocument = false →
      topElement t p = .ok (((ancRel p ++ [p]).find? (fun a => (valueAt t a).isElement)).getD p) := by
    intro hd
    unfold topElement
    rw [foldl_last, ancestors_eq]
    simp [hd]
  refine ⟨?_, hdoc, ?_, hnd⟩
  · cases hd : (valueAt t p).isDocument
    · rw [hnd hd]; intro h; cases h
    · rw [hdoc hd]; intro h; cases h
  · intro hd c hc
    rw [hdoc hd]
    rw [documentElement_eq, hd] at hc
    simp only [if_true] at hc
    cases hf : (children t p).find? (fun c => (valueAt t c).isElement) with
    | none => rw [hf] at hc; cases hc
    | some c0 => rw [hf] at hc; simp only [docElemOf] at hc; injection hc with hc; subst hc; rfl

end XotModel.Axes
