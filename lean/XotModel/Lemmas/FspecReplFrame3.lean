/-
  FspecReplFrame3 — C05 for `replace`, the specification `specReplace` (no model function):
  F3, the content (`Forest.content`, handles forgotten) does not depend on the survivor rule
  (`specReplace_content_keep`), and closed examples for F1 – F3.

  Geometries: `b` parentless or a child of `q` — one edit of one site of a forest that does not
  depend on the rule; `b` a child of another node `po` — the two merges (at `po`, at `q`)
  commute, so the rule is exchanged at one site at a time.
-/
import XotModel.Lemmas.FspecReplFrame2

namespace XotModel
open HTree Spec

namespace ReplFrame

variable {f : Forest} {k1 k2 : Keep} {a b q : Nat} {vq : Value} {l : List HTree} {A : HTree} {r : List HTree}
  {t : HTree} {Y : Forest} {l' r' : List HTree}

theorem mergeOpt_nil (c : Bool) (keep : Keep) : mergeOpt c keep [] = [] := by
  cases c <;> rfl

/-- Merging erases to the same list whichever rule is used (text nodes being leaves). -/
theorem erase_mergeOpt_keep (c : Bool) (k1 k2 : Keep) {L : List HTree}
    (hl : ∀ k ∈ L, k.value.isText = true → k.kids = []) :
    eraseList (mergeOpt c k1 L) = eraseList (mergeOpt c k2 L) := by
  cases c
  · rfl
  · exact erase_mergeRuns_keep k1 k2 hl

/-- Exchange of the rule at `q`. -/
theorem Stage.content_step (st : Stage f k1 a b q vq l A r t Y l' r') (inv : f.Inv)
    (ra : ReplArgs f a b q vq l A r t) (k2 : Keep) :
    (Y.editAt (some q) (mergeOpt f.consolidation k1 ∘ replaceTop a (fun _ => [t]))).content =
      (Y.editAt (some q) (mergeOpt f.consolidation k2 ∘ replaceTop a (fun _ => [t]))).content := by
  apply st.site.content_congr
  simp only [Function.comp]
  rw [st.put ra.ha]
  apply erase_mergeOpt_keep
  intro k hk hkt
  rcases mem_put hk with e | e
  · rw [e] at hkt ⊢; exact leaf_of_text inv.valid ra.hgb hkt
  · exact (st.text_kid inv ra.sq e hkt).1

/-- Both rules pass through the same forest `Y`. -/
theorem content_same_stage (st1 : Stage f k1 a b q vq l A r t Y l' r') (st2 : Stage f k2 a b q vq l A r t Y l' r')
    (inv : f.Inv) (ra : ReplArgs f a b q vq l A r t) :
    (specReplace k1 a b f).content = (specReplace k2 a b f).content := by
  rw [st1.spec, st2.spec]
  exact st1.content_step inv ra k2

/-- Text children that are leaves and not the edited node are not touched by an edit below. -/
theorem text_map_editAt {po : Nat} {g : List HTree → List HTree} {L : List HTree}
    (hleaf : ∀ k ∈ L, k.value.isText = true → k.kids = [])
    (hne : ∀ k ∈ L, k.value.isText = true → k.handle ≠ po) :
    ∀ k ∈ L.map (HTree.editAt po g), k.value.isText = true → k ∈ L := by
  intro k hk hkt
  obtain ⟨k0, hk0, e⟩ := List.mem_map.1 hk
  subst e
  rw [editAt_value] at hkt
  rw [editAt_leaf (hleaf k0 hk0 hkt) (hne k0 hk0 hkt)]
  exact hk0

/-- `b` is a child of another node: the content for two rules. -/
theorem content_far (inv : f.Inv) (ra : ReplArgs f a b q vq l A r t) {po : Nat}
    (hpb : f.parent? b = some po) (hne : po ≠ q) :
    (specReplace k1 a b f).content = (specReplace k2 a b f).content := by
  have nd := inv.nodup
  obtain ⟨φ1, st1⟩ := stage_far (keep := k1) inv ra hpb hne
  obtain ⟨φ2, st2⟩ := stage_far (keep := k2) inv ra hpb hne
  obtain ⟨vo, lo, ro, so⟩ := site_of_b nd ra.hgb hpb
  have hb := ra.hb
  have hvq := isText_false_of_parent ra.hvq
  have hvo := site_not_text so inv.valid
  obtain ⟨ndL, hpoL⟩ := so.nodupKids
  obtain ⟨tl, tr⟩ := tops_ne_of_nodup ndL
  have hdrop : dropTop b (lo ++ t :: ro) = lo ++ ro := dropTop_mid hb (hb ▸ tl) (hb ▸ tr)
  have hpot : po ∉ handles t := by
    intro hin
    apply hpoL
    rw [fs_handlesList_append, handlesList_cons]
    exact List.mem_append_right _ (List.mem_append_left _ hin)
  have hpoA : po ∉ handles A := by
    intro hin
    apply ra.hbA
    rw [← hb]
    exact child_inside so ra.live_a hin (List.mem_append_right _ List.mem_cons_self)
  have hleafo := so.leaf inv.valid
  have hleafq := ra.sq.leaf inv.valid
  -- the forest after the cut, before any merge
  have s1o := so.edit (dropTop b) (handlesList_dropTop_sublist _ _)
  rw [hdrop] at s1o
  have s1q := so.other ra.sq.kids (fun e => hne e.symm) (dropTop b) (handlesList_dropTop_sublist _ _)
    (findList?_dropTop _ (by
      intro k hk hkb
      rw [top_unique ndL hk (hkb.trans hb.symm)]
      exact ra.hqt))
  rw [List.map_append, List.map_cons, editAt_of_not_mem A hpoA] at s1q
  have hcount1 : ∀ z, (f.editAt (some po) (dropTop b)).allHandles.count z + (handles t).count z ≤
      f.allHandles.count z := by
    intro z
    have h1 := so.count (dropTop b) z
    rw [hdrop] at h1
    have h2 := count_handles_mid z lo t ro
    omega
  have htext1 : ∀ k ∈ l.map (HTree.editAt po (dropTop b)) ++ r.map (HTree.editAt po (dropTop b)),
      k.value.isText = true → k ∈ l ++ r := by
    intro k hk hkt
    rw [← List.map_append] at hk
    have hsubLR : ∀ k0 ∈ l ++ r, k0 ∈ l ++ A :: r := by
      intro k0 hk0
      rcases List.mem_append.1 hk0 with h | h
      · exact List.mem_append_left _ h
      · exact List.mem_append_right _ (List.mem_cons_of_mem _ h)
    exact text_map_editAt (fun k0 hk0 => hleafq k0 (hsubLR k0 hk0))
      (fun k0 hk0 => text_kid_ne ra.sq so hvo k0 (hsubLR k0 hk0)) k hk hkt
  -- the forest `V`: replacement and merge (rule `k2`) at `q` done, no merge at `po` yet
  let G2 : List HTree → List HTree := mergeOpt f.consolidation k2 ∘ replaceTop a (fun _ => [t])
  obtain ⟨ndL1, _⟩ := s1q.nodupKids
  obtain ⟨tl1, _⟩ := tops_ne_of_nodup ndL1
  have hput1 : replaceTop a (fun _ => [t])
      (l.map (HTree.editAt po (dropTop b)) ++ A :: r.map (HTree.editAt po (dropTop b))) =
      l.map (HTree.editAt po (dropTop b)) ++ t :: r.map (HTree.editAt po (dropTop b)) := by
    rw [replaceTop_mid ra.ha (ra.ha ▸ tl1)]; simp
  have hndV : ((f.editAt (some po) (dropTop b)).editAt (some q) G2).allHandles.Nodup := by
    apply s1q.nodup_of_count
    intro z
    simp only [G2, Function.comp]
    rw [hput1]
    have h2 := (mergeOpt_sublist f.consolidation k2
      (l.map (HTree.editAt po (dropTop b)) ++ t :: r.map (HTree.editAt po (dropTop b)))).count_le z
    have h3 := count_handles_mid z (l.map (HTree.editAt po (dropTop b))) t (r.map (HTree.editAt po (dropTop b)))
    have h4 := count_handles_mid z (l.map (HTree.editAt po (dropTop b))) A (r.map (HTree.editAt po (dropTop b)))
    have h5 := hcount1 z
    have h6 := (List.nodup_iff_count.1 nd) z
    omega
  have sVo := site_other s1q s1o.kids hne G2 hndV (by
    simp only [G2, Function.comp]
    rw [findList?_mergeOpt, findList?_putTop hpot]
    · intro k hk hka
      rw [top_unique ndL1 hk (hka.trans ra.ha.symm)]
      exact hpoA
    · rw [hput1]
      intro k hk hkt
      rcases mem_put hk with e | e
      · rw [e] at hkt ⊢
        exact ⟨leaf_of_text inv.valid ra.hgb hkt, fun e' => hpot (e' ▸ fs_handle_mem_handles t)⟩
      · have hkl := htext1 k e hkt
        have hkL : k ∈ l ++ A :: r := by
          rcases List.mem_append.1 hkl with h | h
          · exact List.mem_append_left _ h
          · exact List.mem_append_right _ (List.mem_cons_of_mem _ h)
        exact ⟨hleafq k hkL hkt, text_kid_ne ra.sq so hvo k hkL hkt⟩)
  -- exchange of the rule at `po`
  have hD : ∀ k : Keep,
      (specRemove k b f).editAt (some q) G2 =
        ((f.editAt (some po) (dropTop b)).editAt (some q) G2).editAt (some po) (mergeOpt f.consolidation k) := by
    intro k
    rw [specRemove_kid hpb, ← Forest.editAt_editAt f (some po) (dropTop b) (mergeOpt f.consolidation k)]
    exact (Forest.editAt_comm (f.editAt (some po) (dropTop b)) (p := po) (q := q)
      (g := mergeOpt f.consolidation k) (g' := G2) hne
      (natFor_mergeOpt (kidMap_editAt _ _) _ _)
      (NatFor.comp (natFor_putTop (kidMap_editAt _ _) a (editAt_of_not_mem t hpot))
        (natFor_mergeOpt (kidMap_editAt _ _) _ _))).symm
  have hstep2 : ((specRemove k1 b f).editAt (some q) G2).content = ((specRemove k2 b f).editAt (some q) G2).content := by
    rw [hD k1, hD k2]
    apply sVo.content_congr
    apply erase_mergeOpt_keep
    intro k hk hkt
    obtain ⟨k0, hk0, e⟩ := List.mem_map.1 hk
    subst e
    rw [editAt_value] at hkt
    have hk0' : k0 ∈ lo ++ t :: ro := by
      rcases List.mem_append.1 hk0 with h | h
      · exact List.mem_append_left _ h
      · exact List.mem_append_right _ (List.mem_cons_of_mem _ h)
    apply editAt_kids_nil _ (hleafo k0 hk0' hkt)
    simp only [G2, Function.comp]
    exact mergeOpt_nil _ _
  rw [st1.spec, st2.spec]
  exact (st1.content_step inv ra k2).trans hstep2

end ReplFrame

/-- **F3**: once handles are forgotten, `specReplace` does not depend on the survivor rule. -/
theorem specReplace_content_keep {f : Forest} {a b q : Nat} {vq : Value} {l : List HTree} {A : HTree}
    {r : List HTree} {t : HTree} (inv : f.Inv) (ra : ReplArgs f a b q vq l A r t) (k1 k2 : Keep) :
    (specReplace k1 a b f).content = (specReplace k2 a b f).content := by
  cases hpb : f.parent? b with
  | none =>
    exact ReplFrame.content_same_stage (ReplFrame.stage_root (keep := k1) inv ra hpb)
      (ReplFrame.stage_root (keep := k2) inv ra hpb) inv ra
  | some po =>
    by_cases hne : po = q
    · subst hne
      exact ReplFrame.content_same_stage (ReplFrame.stage_same (keep := k1) inv ra hpb)
        (ReplFrame.stage_same (keep := k2) inv ra hpb) inv ra
    · exact ReplFrame.content_far inv ra hpb hne

/-! ### Closed examples: the hypotheses are satisfiable, the statements say something -/

namespace ReplFrame

/-- A document with two elements holding text / element / text each, and a second parentless tree. -/
def sample : Forest :=
  { roots := [.node 0 .document [
      .node 1 (.element 0) [.node 2 (.text ['x']) [], .node 3 (.element 1) [.node 9 (.element 2) []],
        .node 4 (.text ['y']) []],
      .node 5 (.element 0) [.node 6 (.text ['p']) [], .node 7 (.element 1) [.node 12 (.text ['z']) []],
        .node 8 (.text ['q']) []]],
      .node 10 (.element 3) [.node 11 (.text ['r']) []]],
    next := 13 }

theorem sample_inv : sample.Inv := (Forest.inv_iff _).1 (by decide)

/-- `replace(3, 7)`: the replacing element `7` is a child of another node (`5`). -/
theorem sample_args_far : ReplArgs sample 3 7 1 (.element 0) [.node 2 (.text ['x']) []]
    (.node 3 (.element 1) [.node 9 (.element 2) []]) [.node 4 (.text ['y']) []]
    (.node 7 (.element 1) [.node 12 (.text ['z']) []]) :=
  ⟨⟨by decide, by decide⟩, by decide, by decide, by decide, by decide, by decide, by decide, by decide, by decide⟩

/-- `replace(3, 6)`: the replacing node is the text node `6`; it is merged with `2` and `4`. -/
theorem sample_args_text : ReplArgs sample 3 6 1 (.element 0) [.node 2 (.text ['x']) []]
    (.node 3 (.element 1) [.node 9 (.element 2) []]) [.node 4 (.text ['y']) []] (.node 6 (.text ['p']) []) :=
  ⟨⟨by decide, by decide⟩, by decide, by decide, by decide, by decide, by decide, by decide, by decide, by decide⟩

/-- `replace(3, 10)`: the replacing node is a parentless tree. -/
theorem sample_args_root : ReplArgs sample 3 10 1 (.element 0) [.node 2 (.text ['x']) []]
    (.node 3 (.element 1) [.node 9 (.element 2) []]) [.node 4 (.text ['y']) []]
    (.node 10 (.element 3) [.node 11 (.text ['r']) []]) :=
  ⟨⟨by decide, by decide⟩, by decide, by decide, by decide, by decide, by decide, by decide, by decide, by decide⟩

/-- `replace(3, 4)`: the replacing node stands next to the replaced one. -/
theorem sample_args_same : ReplArgs sample 3 4 1 (.element 0) [.node 2 (.text ['x']) []]
    (.node 3 (.element 1) [.node 9 (.element 2) []]) [.node 4 (.text ['y']) []] (.node 4 (.text ['y']) []) :=
  ⟨⟨by decide, by decide⟩, by decide, by decide, by decide, by decide, by decide, by decide, by decide, by decide⟩

-- F1: node `11` (child of the parentless `10`) keeps its place under `replace(3, 7)`.
example : ∃ cx', (specReplace (Keep.resident 7) 3 7 sample).ctx? 11 = some cx' ∧
    cx'.shape = (10, [], .text ['r'], []) :=
  frame_specReplace (cx := ⟨10, [], .node 11 (.text ['r']) [], []⟩) _ sample_inv sample_args_far
    rfl (by decide) (by decide) (by decide) (by decide) (by decide)

-- F2: the handles after the call, for two rules; `3` and `9` are gone, `8` was merged into `6`.
example : (specReplace Keep.earlier 3 7 sample).allHandles = [0, 1, 2, 7, 12, 4, 5, 6, 10, 11] := by decide
example : (specReplace (fun _ _ => false) 3 7 sample).allHandles = [0, 1, 2, 7, 12, 4, 5, 8, 10, 11] := by decide
example : (specReplace Keep.earlier 3 6 sample).allHandles = [0, 1, 2, 5, 7, 12, 8, 10, 11] := by decide
example : (specReplace (Keep.resident 6) 3 6 sample).get? 2 = some (.node 2 (.text ['x', 'p', 'y']) []) := by decide

-- F2, precise form: the text nodes that vanish are children of `1` or `5` (or `b` itself).
example : ∀ h ∈ sample.allHandles, h ∉ [3, 9] →
    (h ∈ (specReplace Keep.earlier 3 6 sample).allHandles ↔ h ∉ [6, 4]) := by decide

-- F3: different handles, the same content.
example : specReplace Keep.earlier 3 6 sample ≠ specReplace (fun _ _ => false) 3 6 sample := by decide
example : (specReplace Keep.earlier 3 6 sample).content = (specReplace (fun _ _ => false) 3 6 sample).content :=
  specReplace_content_keep sample_inv sample_args_text _ _
example : (specReplace Keep.earlier 3 10 sample).content = (specReplace (Keep.resident 10) 3 10 sample).content :=
  specReplace_content_keep sample_inv sample_args_root _ _
example : (specReplace Keep.earlier 3 4 sample).content = (specReplace (Keep.resident 4) 3 4 sample).content :=
  specReplace_content_keep sample_inv sample_args_same _ _

-- All statements at once on the sample, for every pair (a, b) the argument checks let through.
example : ∀ a ∈ [2, 3, 4, 6, 7, 8], ∀ b ∈ [2, 4, 6, 7, 8, 10, 11, 12], ∀ A, sample.get? a = some A → b ∉ handles A →
    (specReplace (Keep.resident b) a b sample).allHandles.Nodup ∧
    (∀ h ∈ (specReplace (Keep.resident b) a b sample).allHandles, h ∈ sample.allHandles ∧ h ∉ handles A) ∧
    (∀ h ∈ sample.allHandles, h ∉ handles A → sample.textOf h = none →
      h ∈ (specReplace (Keep.resident b) a b sample).allHandles) ∧
    (specReplace (Keep.resident b) a b sample).content = (specReplace Keep.earlier a b sample).content := by
  decide

end ReplFrame
end XotModel
