/-
  The tree induction: the indenting writer on the events of a `nodeOK` subtree writes
  `wrapP ps value (rendering of spellNodeP)`, restores both stacks, and fails exactly where `serNodeO` fails.
-/
import XotModel.Lemmas.SerIndentTree

namespace XotModel
open Gen

variable (env : Env) (pr : TokenParams) (sup : List Nat) (t : Tree)

/-! ### Single events -/

theorem runPEvent_at (ps : PStack) (s : FStack) (p : Path) (o : Output) (n : Tree) (h : t.at? p = some n) :
    runPEvent env pr sup t ps s p o =
      (match runEvent xmlEscapers env pr t s p o with
       | .ok (s', w) => .ok ((prettify sup ps n o).1, s', prePost (prettify sup ps n o) w)
       | .err e => .err e
       | .panic => .panic) := by
  unfold runPEvent
  rw [prettifyAt_at sup t ps p o n h]
  cases runEvent xmlEscapers env pr t s p o with
  | ok x => rfl
  | err e => rfl
  | panic => rfl

theorem prePost_plain (ps : PStack) (w : Str) : prePost (ps, 0, false) w = w := by simp [prePost]

theorem prePost_ind (ps : PStack) (w : Str) : prePost (ps, ps.getIndentation, false) w = indOf ps ++ w := by
  simp [prePost, indOf]

theorem prePost_both (ps : PStack) (w : Str) :
    prePost (ps, ps.getIndentation, ps.getNewline) w = indOf ps ++ w ++ nlOf ps := by
  simp [prePost, indOf, nlOf]

/-- A leaf event of a markup node (comment, PI): indentation, token, newline. -/
theorem runPEvent_leaf (ps : PStack) (s : FStack) (path : Path) (n : Tree) (hat : t.at? path = some n)
    (o : Output) (ho : prettify sup ps n o = (ps, ps.getIndentation, ps.getNewline)) (w : Str)
    (hw : runEvent xmlEscapers env pr t s path o = .ok (s, w)) :
    runPEvent env pr sup t ps s path o = .ok (ps, s, indOf ps ++ w ++ nlOf ps) := by
  rw [runPEvent_at env pr sup t ps s path o n hat, hw, ho]
  simp only [prePost_both]

theorem declEvents_plain (ps : PStack) (path : Path) (n : Tree) (hat : t.at? path = some n)
    (ds : List (Nat × Nat)) :
    ∀ po ∈ ds.map (fun d => (path, Output.pfx d.1 d.2)), prettifyAt sup t ps po.1 po.2 = (ps, 0, false) := by
  intro po hpo
  obtain ⟨d, _, rfl⟩ := List.mem_map.mp hpo
  rw [prettifyAt_at sup t ps _ _ n hat]; rfl

theorem attrEvents_plain (ps : PStack) (path : Path) (n : Tree) (hat : t.at? path = some n)
    (as : List (Nat × Str)) :
    ∀ po ∈ as.map (fun a => (path, Output.attribute a.1 a.2)), prettifyAt sup t ps po.1 po.2 = (ps, 0, false) := by
  intro po hpo
  obtain ⟨a, _, rfl⟩ := List.mem_map.mp hpo
  rw [prettifyAt_at sup t ps _ _ n hat]; rfl

theorem prePost_newline (pc : PStack) (w : Str) : prePost (pc, 0, pc.getNewline) w = w ++ nlOf pc := by
  simp [prePost, nlOf]

theorem prePost_end (pc ps : PStack) (w : Str) :
    prePost (ps, if !(pc.inMixed || pc.inSpacePreserve) then ps.getIndentation else 0, ps.getNewline) w =
      (if !(pc.inMixed || pc.inSpacePreserve) then indOf ps else []) ++ w ++ nlOf ps := by
  cases h : (!(pc.inMixed || pc.inSpacePreserve)) <;> simp [prePost, indOf, nlOf]

theorem prePost_nl (ps : PStack) (w : Str) : prePost (ps, 0, ps.getNewline) w = w ++ nlOf ps := by
  simp [prePost, nlOf]

theorem kidsBytes_abnormal (inScope : List (Nat × Nat)) (s : FStack) (cd : Bool) (pc : PStack) (ks : List Tree)
    (h : ∀ k ∈ ks, k.value.isNormal = false ∧ k.kids = []) :
    kidsBytes env pr sup inScope s cd pc ks = [] := by
  induction ks with
  | nil => rfl
  | cons k ks ih =>
    have hk := h k (by simp)
    have := ih (fun k' hk' => h k' (by simp [hk']))
    simp only [kidsBytes, List.flatMap_cons] at this ⊢
    rw [this, spellNodeP_abnormal env pr sup inScope false s cd pc hk.1 hk.2]
    cases hv : k.value <;> simp [hv, Value.isNormal, Value.category] at hk <;> rfl

theorem spellKidsP_abnormal (inScope : List (Nat × Nat)) (s : FStack) (cd : Bool) (pc : PStack) (gap : Str)
    (ks : List Tree) (h : ∀ k ∈ ks, k.value.isNormal = false ∧ k.kids = []) :
    spellNodeP.spellKidsP env pr sup inScope s cd pc gap ks = [] := by
  induction ks with
  | nil => rfl
  | cons k ks ih =>
    have hk := h k (by simp)
    simp only [spellNodeP.spellKidsP, hk.1, Bool.false_eq_true, if_false, List.nil_append,
      spellNodeP_abnormal env pr sup inScope false s cd pc hk.1 hk.2, ih (fun k' hk' => h k' (by simp [hk']))]

/-! ### The tree induction -/

mutual
theorem runP_node (inScope : List (Nat × Nat)) (isTop : Bool) (path : Path) (n : Tree) (s : FStack) (ps : PStack)
    (hat : t.at? path = some n) (hs : Named env s) (hn : n.allNodes (nodeOK env) = true)
    (hdoc : n.value.isDocument = false) :
    runPEvents env pr sup t ps s (genNode inScope isTop path n) =
      tokRunP ps s (serNodeO env pr inScope isTop s (isCdataElement pr (t.parentAt? path)) n)
        (wrapP ps n.value (renderTokens (NSNode.tokens.tokensList
          (spellNodeP env pr sup inScope isTop s (isCdataElement pr (t.parentAt? path)) ps n)))) := by
  cases n with
  | node v ks =>
    have hkn : ∀ k ∈ ks, k.allNodes (nodeOK env) = true := fun k hk => allNodes_kid hn hk
    have hnode : nodeOK env v ks = true := by
      rw [allNodes_node, Bool.and_eq_true] at hn; exact hn.1
    obtain ⟨_, hkinds, _, _, _⟩ := (nodeOK_iff env v ks).mp hnode
    have hk := fun pc s' hs' => runP_kids inScope path 0 ks s' pc v ks hat (at?_kid t hat) hs' hkn hkinds.2.2
    cases v with
    | document => simp [Tree.value, Value.isDocument] at hdoc
    | «attribute» a b =>
      have hl := allNodes_leaf env hn rfl
      subst hl
      rw [genNode_attribute]
      rfl
    | «namespace» a b =>
      have hl := allNodes_leaf env hn rfl
      subst hl
      rw [genNode_namespace]
      rfl
    | text str =>
      have hl := allNodes_leaf env hn rfl
      subst hl
      rw [genNode_text, genNode.genKids, runPEvents_single, runPEvent_at env pr sup t ps s path _ _ hat,
        runEvent_textO env pr t s path _ hat]
      simp only [prettify, prePost_plain, serNodeO, serNodeO.serKidsO, appendOk, tokRunP, wrapP, Tree.value,
        spellNodeP, spellNodeP.spellKidsP, NSNode.tokens.tokensList, NSNode.tokens, List.append_nil, textTokens]
    | comment str =>
      have hl := allNodes_leaf env hn rfl
      subst hl
      rw [genNode_comment, genNode.genKids, runPEvents_single,
        runPEvent_leaf env pr sup t ps s path _ hat _ rfl _ (runEvent_comment env pr t s path _ hat str)]
      simp only [serNodeO, serNodeO.serKidsO, appendOk, tokRunP, wrapP, Tree.value,
        spellNodeP, spellNodeP.spellKidsP, NSNode.tokens.tokensList, NSNode.tokens, List.append_nil]
    | pi target data =>
      have hl := allNodes_leaf env hn rfl
      subst hl
      rw [genNode_pi, genNode.genKids, runPEvents_single, serNodeO]
      by_cases hc : (!(env.namespaceStr (env.nsOfName target)).isEmpty) = true
      · rw [runPEvent_at env pr sup t ps s path _ _ hat, runEvent_pi env pr t s path _ hat]
        simp only [hc, if_true]; rfl
      · have hev := runEvent_pi env pr t s path _ hat target data
        simp only [hc, Bool.false_eq_true, if_false] at hev
        rw [runPEvent_leaf env pr sup t ps s path _ hat _ rfl _ hev]
        simp only [hc, Bool.false_eq_true, if_false, serNodeO.serKidsO, appendOk, tokRunP, wrapP, Tree.value,
          spellNodeP, spellNodeP.spellKidsP, NSNode.tokens.tokensList, NSNode.tokens, List.append_nil]
    | element name =>
      have hdn : declsNamed env (.element name) ks = true := by
        have := nodeOK_declsNamed env _ hn
        rw [allNodes_node, Bool.and_eq_true] at this
        exact this.1
      have hs' := Named.push env hs hdn
      rw [genNode_element', runPEvents_cons, runPEvent_at env pr sup t ps s path _ _ hat,
        runEvent_open env pr t s path _ hat, serNodeO]
      by_cases hc : (env.nsOfName name == Env.noNamespace &&
          (s.push (Tree.node (.element name) ks).nsDecls).hasDefaultNamespace) = true
      · simp only [hc, if_true]; rfl
      · simp only [hc, Bool.false_eq_true, if_false]
        cases hp : (s.push (Tree.node (.element name) ks).nsDecls).elementPrefix env name with
        | error e => rfl
        | ok p =>
          simp only [prettify, prePost_ind, runPThen_ok]
          rw [runPEvents_append, runPEvents_plain env pr sup t ps _ _ (declEvents_plain sup t ps path _ hat _),
            runEvents_pfx env pr t _ path _ hat]
          simp only [runPThen_ok]
          rw [runPEvents_append, runPEvents_plain env pr sup t ps _ _ (attrEvents_plain sup t ps path _ hat _),
            runEvents_attrs env pr t _ hs' path _ hat]
          cases ha : attrTokens env (s.push (Tree.node (.element name) ks).nsDecls)
              (Tree.node (.element name) ks).attrs with
          | error e => rfl
          | ok ats =>
            simp only [runPThen_ok]
            have hq := qname_tokQName env p name (fun q hq => elementPrefix_some env hs' (hq ▸ hp))
            have hpop : (s.push (Tree.node (.element name) ks).nsDecls).pop
                (Tree.node (.element name) ks).hasNsDecls = s := FStack.pop_push s _
            have hi := spellItems_tokens env inScope isTop _ _ ats ha
            rw [runPEvents_cons, runPEvent_at env pr sup t ps _ path _ _ hat,
              runEvent_close env pr t _ path _ hat]
            by_cases hfc : (Tree.node (.element name) ks).firstChild?.isNone = true
            · have hsome : (Tree.node (.element name) ks).firstChild?.isSome = false := by
                cases h : (Tree.node (.element name) ks).firstChild? <;> simp_all
              have hab : ∀ k ∈ ks, k.value.isNormal = false ∧ k.kids = [] := by
                intro k hk'
                have h1 := firstChild_none_abnormal hfc k hk'
                refine ⟨h1, ?_⟩
                cases k with
                | node v' ks' => exact allNodes_leaf env (hkn _ hk') (abnormal_leafKind h1)
              rw [prettify_close_none sup ps _ hsome]
              simp only [prePost_plain, runPThen_ok]
              rw [runPEvents_append, hk ps _ hs']
              cases hkids : serNodeO.serKidsO env pr inScope
                  (s.push (Tree.node (.element name) ks).nsDecls) (kidsCd pr (.element name)) ks with
              | error e => rfl
              | ok content =>
                simp only [tokRunP, runPThen_ok, runPEvents_single]
                rw [runPEvent_at env pr sup t ps _ path _ _ hat, runEvent_end env pr t _ path _ hat]
                simp only [hsome, Bool.false_eq_true, if_false, prettify_end_none sup ps _ name hsome, prePost_nl, hpop,
                  kidsBytes_abnormal env pr sup inScope _ _ ps ks hab]
                simp only [wrapP, Tree.value, spellNodeP, hfc, if_true, hp, okPrefix, tokensList_cons,
                  spellKidsP_abnormal env pr sup inScope _ _ ps [] ks hab, NSNode.tokens.tokensList, List.append_nil,
                  render_empty, hi, hq, renderTokens_append]
                simp
            · have hsome : (Tree.node (.element name) ks).firstChild?.isSome = true := by
                cases h : (Tree.node (.element name) ks).firstChild? <;> simp_all
              rw [prettify_close_some sup ps name ks hsome]
              simp only [prePost_newline, runPThen_ok]
              rw [runPEvents_append, hk _ _ hs']
              cases hkids : serNodeO.serKidsO env pr inScope
                  (s.push (Tree.node (.element name) ks).nsDecls) (kidsCd pr (.element name)) ks with
              | error e => rfl
              | ok content =>
                simp only [tokRunP, runPThen_ok, runPEvents_single]
                rw [runPEvent_at env pr sup t _ _ path _ _ hat, runEvent_end env pr t _ path _ hat]
                simp only [hsome, if_true, hp, prettify_end_some sup _ _ name hsome, List.tail_cons, prePost_end, hpop]
                have hreg := kids_regroup env pr sup inScope (s.push (Tree.node (.element name) ks).nsDecls)
                  (kidsCd pr (.element name)) (entryFor sup (.node (.element name) ks) :: ps)
                  ((if !(PStack.inMixed (entryFor sup (.node (.element name) ks) :: ps) ||
                      PStack.inSpacePreserve (entryFor sup (.node (.element name) ks) :: ps)) then indOf ps else []) ++
                    ('<' :: '/' :: (qname env p name ++ ['>']) ++ nlOf ps))
                  ks (kidsFacts_element env sup hn ps)
                simp only [wrapP, Tree.value, spellNodeP, hfc, Bool.false_eq_true, if_false, hp, okPrefix,
                  NSNode.tokens.tokensList, List.append_nil, render_elem, hi, hq, renderTokens_append, tokensList_append,
                  render_wsChars _ (gapEnd_ws (entryFor sup (.node (.element name) ks) :: ps) ps)]
                simp only [gapEnd]
                simp only [hq] at hreg
                simp only [List.append_assoc, List.cons_append, List.nil_append] at hreg ⊢
                rw [hreg]

theorem runP_kids (inScope : List (Nat × Nat)) (path : Path) (i : Nat) (ks : List Tree) (s : FStack) (pc : PStack)
    (pv : Value) (pks : List Tree) (hpar : t.at? path = some (.node pv pks))
    (hat : ∀ j k, ks[j]? = some k → t.at? (path ++ [i + j]) = some k) (hs : Named env s)
    (hn : ∀ k ∈ ks, k.allNodes (nodeOK env) = true) (hdocs : ∀ k ∈ ks, k.value.isDocument = false) :
    runPEvents env pr sup t pc s (genNode.genKids inScope path i ks) =
      tokRunP pc s (serNodeO.serKidsO env pr inScope s (kidsCd pr pv) ks)
        (kidsBytes env pr sup inScope s (kidsCd pr pv) pc ks) := by
  cases ks with
  | nil => rfl
  | cons k ks =>
    have hcd : isCdataElement pr (t.parentAt? (path ++ [i])) = kidsCd pr pv := by
      rw [parentAt?_kid, hpar, isCdataElement_some]; rfl
    rw [genNode.genKids, runPEvents_append, serNodeO.serKidsO,
      runP_node inScope false (path ++ [i]) k s pc (by simpa using hat 0 k rfl) hs (hn k (by simp))
        (hdocs k (by simp)), hcd]
    simp only [kidsBytes, List.flatMap_cons]
    apply runPThen_tokRunP
    apply runP_kids inScope path (i + 1) ks s pc pv pks hpar _ hs (fun k' hk' => hn k' (by simp [hk']))
      (fun k' hk' => hdocs k' (by simp [hk']))
    intro j k' hk'
    have h1 : i + 1 + j = i + (j + 1) := by omega
    rw [h1]
    exact hat (j + 1) k' (by simpa using hk')
end

end XotModel
