/-
  FspecPairBefore4 — what `insert_before` does in the corner `Spec.selfMerge f (.before r) c`
  (the moved text node `c` stands between two text nodes `a c b`, and `r` stands directly after
  `b`; finding `C05:move-changes-character-data`, fixed by xot eccbbb7): the call succeeds, the
  previous sibling of `r` after the merge of `a` and `b` is `c` itself, the helper takes `c`'s own
  previous sibling — the merged text node — instead, and the result is the specification
  `specMoveP`: no character data is lost.
-/
import XotModel.Lemmas.FspecPairBefore3
import XotModel.Lemmas.FspecFrame

namespace XotModel
open HTree Spec

namespace PairBefore

theorem structureCheck_pack {f : Forest} {p c : Nat} {vp : Value} {Lp : List HTree} {t : HTree}
    (nd : f.allHandles.Nodup) (hgp : f.get? p = some (.node p vp Lp))
    (hvp : vp.isElement = true ∨ vp.isDocument = true) (hgc : f.get? c = some t)
    (hpt : p ∉ handles t) (htn : t.value.isNormal = true) (htd : t.value.isDocument = false) :
    f.structureCheck (some p) c = true := by
  have hanc : (f.ancestors p).contains c = false := by
    cases h : (f.ancestors p).contains c with
    | false => rfl
    | true =>
      obtain ⟨u, hu, hin⟩ := (Forest.ancestors_contains_iff nd).1 h
      rw [hgc] at hu
      cases hu
      exact absurd hin hpt
  have h1 : (f.isElement p || f.isDocument p) = true := by
    unfold Forest.isElement Forest.isDocument Forest.value?
    rw [hgp]
    simp only [Option.map_some, HTree.value]
    cases hvp with
    | inl h => simp [h]
    | inr h => simp [h]
  unfold Forest.structureCheck
  simp only [h1, hanc, Bool.not_false, Bool.true_and]
  unfold Forest.value?
  rw [hgc]
  simp only [Option.map_some]
  cases hv : t.value <;> rw [hv] at htn htd <;> simp_all [Value.isNormal, Value.category, Value.isDocument]

theorem siblingReferenceCheck_pack {f : Forest} {ref c : Nat} {w : HTree} (hne : ref ≠ c)
    (hg : f.get? ref = some w) (hwn : w.value.isNormal = true) : f.siblingReferenceCheck ref c = true := by
  unfold Forest.siblingReferenceCheck Forest.isNormalNode Forest.value?
  rw [hg]
  simp [hne, hwn]

/-- What `selfMerge` says. -/
theorem selfMerge_unpack {f : Forest} {r c : Nat} (nd : f.allHandles.Nodup)
    (h : selfMerge f (.before r) c = true) :
    f.consolidation = true ∧ ∃ p vo l' a t b kr B, SiteAt f p vo ((l' ++ [a]) ++ t :: b :: kr :: B) ∧
      t.handle = c ∧ kr.handle = r ∧ a.value.isText = true ∧ t.value.isText = true ∧ b.value.isText = true := by
  unfold selfMerge at h
  rw [Bool.and_eq_true] at h
  obtain ⟨hc, h⟩ := h
  refine ⟨hc, ?_⟩
  cases hctx : f.ctx? c with
  | none => rw [hctx] at h; cases h
  | some cx =>
    rw [hctx] at h
    obtain ⟨e0, vo, so⟩ := SiteAt.of_ctx nd hctx
    obtain ⟨p, l, t, rr⟩ := cx
    simp only at e0 so h
    rw [Bool.and_eq_true, Bool.and_eq_true] at h
    obtain ⟨⟨htt, hl⟩, hr⟩ := h
    cases hla : l.getLast? with
    | none => rw [hla] at hl; cases hl
    | some a =>
      rw [hla] at hl
      simp only at hl
      obtain ⟨l', el⟩ := List.getLast?_eq_some_iff.1 hla
      subst el
      cases rr with
      | nil => cases hr
      | cons b rest =>
        simp only [Bool.and_eq_true, beq_iff_eq] at hr
        obtain ⟨hbt, hrest⟩ := hr
        cases rest with
        | nil => simp at hrest
        | cons kr B =>
          simp only [List.head?_cons, Option.map_some, Option.some.injEq] at hrest
          exact ⟨p, vo, l', a, t, b, kr, B, so, e0, hrest, hl, htt, hbt⟩

end PairBefore

open PairBefore

/-- **The repaired corner** (xot eccbbb7): in the `selfMerge` corner `insert_before` succeeds and
    is the specification: the moved text node is merged into the text node its two neighbours have
    become. -/
theorem insertBefore_selfMerge {f : Forest} {r c : Nat} (inv : f.Inv) (h : selfMerge f (.before r) c = true) :
    (f.insertBefore r c).2 = .ok ∧ (f.insertBefore r c).1 = specMoveP (.before r) c f := by
  have nd := inv.nodup
  obtain ⟨hc, p, vo, l', a, t, b, kr, B, so, e0, e1, hat, htt, hbt⟩ := selfMerge_unpack nd h
  subst e0 e1
  obtain ⟨x, hxd⟩ := isText_iff_textData.1 hat
  obtain ⟨y, hyd⟩ := isText_iff_textData.1 hbt
  obtain ⟨tc, htd⟩ := isText_iff_textData.1 htt
  have hx := textData_some hxd
  have hy := textData_some hyd
  obtain ⟨ndL, hpL⟩ := so.nodupKids
  obtain ⟨tl, tr⟩ := tops_ne_of_nodup ndL
  have hleafAll := so.leaf inv.valid
  have hvalid := so.valid inv.valid
  obtain ⟨hallowed, hord, _, _⟩ := validTree_node hvalid
  have htn : t.value.isNormal = true := by simp [Value.isNormal, text_category htt]
  have hbn : b.value.isNormal = true := by simp [Value.isNormal, text_category hbt]
  have han : a.value.isNormal = true := by simp [Value.isNormal, text_category hat]
  have htdoc : t.value.isDocument = false := by
    cases hv : t.value <;> rw [hv] at htt <;> simp_all [Value.isText, Value.isDocument]
  have hvp : vo.isElement = true ∨ vo.isDocument = true := by
    have := hallowed t (by simp)
    cases vo <;> simp_all [kidAllowed, Value.isElement, Value.isDocument]
  have hpt : p ∉ handles t := by
    intro hin
    apply hpL
    rw [fs_handlesList_append, handlesList_cons]
    exact List.mem_append_right _ (List.mem_append_left _ hin)
  have hkrn : kr.value.isNormal = true := by
    have e : (l' ++ [a]) ++ t :: b :: kr :: B = ((l' ++ [a]) ++ [t]) ++ b :: kr :: B := by simp
    rw [e] at hord
    have h1 := kidsOrdered_drop _ hord
    have h2 := kidsOrdered_rank_le _ h1 kr List.mem_cons_self
    rw [rank_normal.2 (text_category hbt)] at h2
    have := rank_normal.1 (Nat.le_antisymm (rank_le_two _) h2)
    simp [Value.isNormal, this]
  have skr : SiteAt f p vo ((((l' ++ [a]) ++ [t]) ++ [b]) ++ kr :: B) := by
    have e : (((l' ++ [a]) ++ [t]) ++ [b]) ++ kr :: B = (l' ++ [a]) ++ t :: b :: kr :: B := by simp
    rw [e]; exact so
  have hkrt : kr.handle ≠ t.handle := tr kr (by simp)
  have hbt' : b.handle ≠ t.handle := tr b (by simp)
  have hsc : f.structureCheck (f.parent? kr.handle) t.handle = true := by
    rw [Forest.parent?_of_ctx skr.ctx]
    exact structureCheck_pack nd so.kids hvp so.getKid hpt htn htdoc
  have hsr : f.siblingReferenceCheck kr.handle t.handle = true := siblingReferenceCheck_pack hkrt skr.getKid hkrn
  have hprevr : f.prevSibling kr.handle = some b.handle := by
    rw [Forest.prevSibling_of_ctx skr.ctx]
    exact prevOf_concat_normal hbn hkrn
  have hprevc : f.prevSibling t.handle = some a.handle := by
    rw [Forest.prevSibling_of_ctx so.ctx]
    exact prevOf_concat_normal han htn
  have hnextc : f.nextSibling t.handle = some b.handle := by
    rw [Forest.nextSibling_of_ctx so.ctx]
    simp [nextOf, normal_category hbn, normal_category htn]
  have s0 : SiteAt f p vo (l' ++ a :: ([t] ++ b :: (kr :: B))) := by
    have e : l' ++ a :: ([t] ++ b :: (kr :: B)) = (l' ++ [a]) ++ t :: b :: kr :: B := by simp
    rw [e]; exact so
  have hmerge := merge_at_site s0 hc hx hy (hleafAll b (by simp) hbt)
  have O := oldP_merged so hleafAll hc hx hy
  have sX := O.site
  have hne : (some b.handle == some t.handle) = false := by simpa using hbt'
  have hok : (f.insertBefore kr.handle t.handle).2 = .ok := by
    rw [insertBefore_unfold]
    simp only [hsc, hsr, hprevr, hne, Bool.not_true, Bool.false_eq_true, if_false]
    rw [hprevc, hnextc, hmerge]
    simp only
    generalize hX : f.editAt (some p) (fun _ => l' ++ a.setValue (.text (x ++ y)) :: ([t] ++ kr :: B)) = X at sX ⊢
    -- the second half: the previous sibling of the reference is now the moved node itself
    have sX' : SiteAt X p vo (((l' ++ [a.setValue (.text (x ++ y))]) ++ [t]) ++ kr :: B) := by
      have e : ((l' ++ [a.setValue (.text (x ++ y))]) ++ [t]) ++ kr :: B =
          (l' ++ [a.setValue (.text (x ++ y))]) ++ t :: kr :: B := by simp
      rw [e]; exact sX
    have hXprev : X.prevSibling kr.handle = some t.handle := by
      rw [Forest.prevSibling_of_ctx sX'.ctx]
      exact prevOf_concat_normal htn hkrn
    have ha'n : (a.setValue (.text (x ++ y))).value.isNormal = true := by
      simp [setValue_value, Value.isNormal, Value.category]
    have hXprevc : X.prevSibling t.handle = some (a.setValue (.text (x ++ y))).handle := by
      rw [Forest.prevSibling_of_ctx sX.ctx]
      exact prevOf_concat_normal ha'n htn
    have sXa : SiteAt X p vo (l' ++ a.setValue (.text (x ++ y)) :: (t :: kr :: B)) := by
      have e : l' ++ a.setValue (.text (x ++ y)) :: (t :: kr :: B) =
          (l' ++ [a.setValue (.text (x ++ y))]) ++ t :: kr :: B := by simp
      rw [e]; exact sX
    have hXa : X.textOf (a.setValue (.text (x ++ y))).handle = some (x ++ y) := by
      rw [Forest.textOf_of_get sXa.getKid]
      exact textData_of_value (setValue_value _ _)
    have hXc : X.consolidation = true := by rw [← hX, Forest.editAt_consolidation]; exact hc
    have hXtext : X.textOf t.handle = some tc := (Forest.textOf_of_get sX.getKid).trans htd
    unfold insertBeforeTail
    rw [hXprev, Forest.addConsolidate_prev_self hXc hXtext hXprevc hXa]
    simp
  exact ⟨hok, insertBefore_pair inv hok⟩

end XotModel

namespace XotModel
open HTree Spec

/-- The corner exists in a forest satisfying the invariant: `a b c <e/>`, `insert_before(e, b)`
    gives `acb <e/>`; the node `b` is gone, its data is not. -/
example :
    let f : Forest := { roots := [.node 0 (.element 2) [.node 1 (.text ['a']) [], .node 2 (.text ['b']) [],
                          .node 3 (.text ['c']) [], .node 4 (.element 3) []]],
                        next := 5, consolidation := true, everOff := true }
    f.inv = true ∧ selfMerge f (.before 4) 2 = true ∧ (f.insertBefore 4 2).2 = .ok ∧
      (f.insertBefore 4 2).1.isLive 2 = false ∧
      (f.insertBefore 4 2).1 = specMoveP (.before 4) 2 f ∧
      (f.insertBefore 4 2).1.content =
        [.node (.element 2) [.node (.text ['a', 'c', 'b']) [], .node (.element 3) []]] := by
  decide

end XotModel
