/-
  FspecAllFrame2 — consequences of `FspecAllFrame.lean` and `FspecAllNormal.lean`: the frame theorems
  of `remove` and the four moves without `Forest.Normal` (through the pair theorems), and
  `specRemoveP = specRemove`, `specDetachP = specDetach`, `specMoveP = specMove` (from xot's argument
  checks) on forests without adjacent text nodes.
-/
import XotModel.Lemmas.FspecAllFrame

/-! ### The calls -/

namespace XotModel
open HTree Spec

theorem append_frame_all {f : Forest} {p c : Nat} {t : HTree} (inv : f.Inv)
    (hok : (f.append p c).2 = .ok) (hgc : f.get? c = some t)
    {x : Nat} {cx : Ctx} (hx : f.ctx? x = some cx)
    (h1 : cx.parent ≠ p) (h2 : some cx.parent ≠ f.parent? c) (h3 : cx.parent ∉ handles t) (h4 : x ∉ handles t) :
    ∃ cx', (f.append p c).1.ctx? x = some cx' ∧ cx'.shape = cx.shape := by
  rw [append_pair inv hok]
  have nd := inv.nodup
  have hsc : f.structureCheck (some p) c = true := by
    cases h : f.structureCheck (some p) c with
    | true => rfl
    | false => rw [Forest.append_unfold] at hok; simp [h] at hok
  obtain ⟨vp, Lp, t', hgp, hgc', hpt, hnorm, hndoc, hvp⟩ := Forest.structureCheck_unpack nd hsc
  rw [hgc] at hgc'
  have := Option.some.inj hgc'
  subst this
  have hvq : vp.isText = false := by
    cases hvp with
    | inl h => cases vp <;> simp_all [Value.isElement, Value.isText]
    | inr h => cases vp <;> simp_all [Value.isDocument, Value.isText]
  exact frame_specMoveP inv hgc ⟨nd, hgp⟩ hpt hvq (by simp [Dest.site, Forest.isLive_of_get hgp]) hx h1 h2 h3 h4

theorem prepend_frame_all {f : Forest} {p c : Nat} {t : HTree} (inv : f.Inv)
    (hok : (f.prepend p c).2 = .ok) (hgc : f.get? c = some t)
    {x : Nat} {cx : Ctx} (hx : f.ctx? x = some cx)
    (h1 : cx.parent ≠ p) (h2 : some cx.parent ≠ f.parent? c) (h3 : cx.parent ∉ handles t) (h4 : x ∉ handles t) :
    ∃ cx', (f.prepend p c).1.ctx? x = some cx' ∧ cx'.shape = cx.shape := by
  rw [prepend_pair inv hok]
  have nd := inv.nodup
  have hsc : f.structureCheck (some p) c = true := by
    cases h : f.structureCheck (some p) c with
    | true => rfl
    | false => rw [prepend_unfold] at hok; simp [h] at hok
  obtain ⟨vp, Lp, t', hgp, hgc', hpt, hnorm, hndoc, hvp⟩ := Forest.structureCheck_unpack nd hsc
  rw [hgc] at hgc'
  have := Option.some.inj hgc'
  subst this
  have hvq : vp.isText = false := by
    cases hvp with
    | inl h => cases vp <;> simp_all [Value.isElement, Value.isText]
    | inr h => cases vp <;> simp_all [Value.isDocument, Value.isText]
  exact frame_specMoveP inv hgc ⟨nd, hgp⟩ hpt hvq (by simp [Dest.site, Forest.isLive_of_get hgp]) hx h1 h2 h3 h4

theorem insertAfter_frame_all {f : Forest} {r c q : Nat} {t : HTree} (inv : f.Inv)
    (hok : (f.insertAfter r c).2 = .ok) (hgc : f.get? c = some t) (hq : f.parent? r = some q)
    {x : Nat} {cx : Ctx} (hx : f.ctx? x = some cx)
    (h1 : cx.parent ≠ q) (h2 : some cx.parent ≠ f.parent? c) (h3 : cx.parent ∉ handles t) (h4 : x ∉ handles t) :
    ∃ cx', (f.insertAfter r c).1.ctx? x = some cx' ∧ cx'.shape = cx.shape := by
  rw [insertAfter_pair inv hok]
  have nd := inv.nodup
  have hsc : f.structureCheck (f.parent? r) c = true := by
    cases h : f.structureCheck (f.parent? r) c with
    | true => rfl
    | false => rw [insertAfter_unfold] at hok; simp [h] at hok
  have hsr : f.siblingReferenceCheck r c = true := by
    cases h : f.siblingReferenceCheck r c with
    | true => rfl
    | false => rw [insertAfter_unfold] at hok; simp [hsc, h] at hok
  obtain ⟨q', vq, A, kr, B, t', sq, ekr, hkrn, hrc, hgc', hqt, hnorm, hndoc, hvq⟩ := sibling_checks_unpack nd hsc hsr
  subst ekr
  rw [hgc] at hgc'
  have := Option.some.inj hgc'
  subst this
  have hq' : q' = q := by
    have := Forest.parent?_of_ctx sq.ctx
    rw [hq] at this
    exact (Option.some.inj this).symm
  subst hq'
  exact frame_specMoveP inv hgc sq hqt hvq (by simp only [Dest.site]; exact hq) hx h1 h2 h3 h4

theorem insertBefore_frame_all {f : Forest} {r c q : Nat} {t : HTree} (inv : f.Inv)
    (hok : (f.insertBefore r c).2 = .ok) (hgc : f.get? c = some t) (hq : f.parent? r = some q)
    {x : Nat} {cx : Ctx} (hx : f.ctx? x = some cx)
    (h1 : cx.parent ≠ q) (h2 : some cx.parent ≠ f.parent? c) (h3 : cx.parent ∉ handles t) (h4 : x ∉ handles t) :
    ∃ cx', (f.insertBefore r c).1.ctx? x = some cx' ∧ cx'.shape = cx.shape := by
  rw [insertBefore_pair inv hok]
  have nd := inv.nodup
  have hsc : f.structureCheck (f.parent? r) c = true := by
    cases h : f.structureCheck (f.parent? r) c with
    | true => rfl
    | false => rw [insertBefore_unfold] at hok; simp [h] at hok
  have hsr : f.siblingReferenceCheck r c = true := by
    cases h : f.siblingReferenceCheck r c with
    | true => rfl
    | false => rw [insertBefore_unfold] at hok; simp [hsc, h] at hok
  obtain ⟨q', vq, A, kr, B, t', sq, ekr, hkrn, hrc, hgc', hqt, hnorm, hndoc, hvq⟩ := sibling_checks_unpack nd hsc hsr
  subst ekr
  rw [hgc] at hgc'
  have := Option.some.inj hgc'
  subst this
  have hq' : q' = q := by
    have := Forest.parent?_of_ctx sq.ctx
    rw [hq] at this
    exact (Option.some.inj this).symm
  subst hq'
  exact frame_specMoveP inv hgc sq hqt hvq (by simp only [Dest.site]; exact hq) hx h1 h2 h3 h4

theorem remove_frame_all {f : Forest} {n : Nat} {t : HTree} (inv : f.Inv)
    (hg : f.get? n = some t) {x : Nat} {cx : Ctx} (hx : f.ctx? x = some cx)
    (h1 : some cx.parent ≠ f.parent? n) (h3 : cx.parent ∉ handles t) (h4 : x ∉ handles t) :
    ∃ cx', (f.remove n).1.ctx? x = some cx' ∧ cx'.shape = cx.shape := by
  rw [remove_pair inv (Forest.isLive_of_get hg)]
  exact frame_specRemoveP inv hg hx h1 h3 h4

end XotModel

/-! ### `specRemoveP = specRemove` on forests without adjacent text -/

namespace XotModel
open HTree Spec PairAll

/-- The two readings of `remove` agree on forests without adjacent text nodes (any survivor rule
    that keeps a node other than the removed one when it is the earlier one). -/
theorem specRemoveP_eq_specRemove {f : Forest} {n : Nat} {keep : Keep} {t : HTree} (inv : f.Inv) (norm : f.Normal)
    (hkeep : ∀ a b, a ≠ n → keep a b = true) (hg : f.get? n = some t) :
    specRemoveP n f = specRemove keep n f := by
  have nd := inv.nodup
  rcases Forest.root_or_ctx hg with hroot | ⟨c, hctx⟩
  · have hp := Forest.parent?_of_no_ctx (Forest.ctx_none_of_root nd hroot)
    rw [specRemoveP_root hp, specRemove_root hp]
  · obtain ⟨e0, v, so⟩ := SiteAt.of_ctx nd hctx
    have hself : c.self = t := by
      have := Forest.get?_of_ctx nd hctx
      rw [hg] at this
      exact (Option.some.inj this).symm
    obtain ⟨p, l, k, r⟩ := c
    simp only at e0 so hself
    subst hself
    subst e0
    have hpar : f.parent? k.handle = some p := Forest.parent?_of_ctx hctx
    rw [specRemoveP_kid hpar, specRemove_kid hpar]
    obtain ⟨ndL, _⟩ := so.nodupKids
    obtain ⟨tl, tr⟩ := tops_ne_of_nodup ndL
    apply so.congr
    simp only [Function.comp]
    rw [dropTop_mid rfl tl tr, so.nbOf]
    unfold pairOpt mergeOpt
    cases hc : f.consolidation with
    | false => rfl
    | true =>
      simp only [if_true]
      have hnoL : noAdjacentText (l ++ k :: r) = true := (validTree_node (so.valid (norm hc))).2.2.1 rfl
      obtain ⟨hnl, hnkr, _⟩ := noAdj_append.1 hnoL
      have ndlr : (handlesList (l ++ r)).Nodup := by
        have : (handlesList (l ++ r)).Sublist (handlesList (l ++ k :: r)) := by
          simp only [fs_handlesList_append, handlesList_cons]
          exact (List.Sublist.refl _).append (List.sublist_append_right _ _)
        exact this.nodup ndL
      exact (mergeRuns_eq_mergeAdj hnl (noAdj_tail hnkr) ndlr (fun a ha b => hkeep _ _ (tl a ha))).symm

end XotModel

/-! ### `specMoveP = specMove` from the argument checks of the four moves -/

namespace XotModel
open HTree Spec PairAll

theorem not_text_of_site_value {vp : Value} (hvp : vp.isElement = true ∨ vp.isDocument = true) : vp.isText = false := by
  cases hvp with
  | inl h => cases vp <;> simp_all [Value.isElement, Value.isText]
  | inr h => cases vp <;> simp_all [Value.isDocument, Value.isText]

/-- A move below a parent (`append` / `prepend`) that passes `add_structure_check`. -/
theorem specMoveP_eq_specMove_under {f : Forest} {p c : Nat} (inv : f.Inv) (norm : f.Normal)
    (hsc : f.structureCheck (some p) c = true) :
    specMoveP (.lastChildOf p) c f = specMove (Keep.resident c) (.lastChildOf p) c f ∧
    specMoveP (.firstNormalChildOf p) c f = specMove (Keep.resident c) (.firstNormalChildOf p) c f := by
  have nd := inv.nodup
  obtain ⟨vp, Lp, t, hgp, hgc, hpt, _, _, hvp⟩ := Forest.structureCheck_unpack nd hsc
  have hvq := not_text_of_site_value hvp
  exact ⟨specMoveP_eq_specMove inv norm hgc ⟨nd, hgp⟩ hpt hvq (by simp [Dest.site, Forest.isLive_of_get hgp])
      (fun x h => by rcases h with h | h <;> cases h),
    specMoveP_eq_specMove inv norm hgc ⟨nd, hgp⟩ hpt hvq (by simp [Dest.site, Forest.isLive_of_get hgp])
      (fun x h => by rcases h with h | h <;> cases h)⟩

/-- A move next to a reference node (`insert_after` / `insert_before`) that passes
    `add_structure_check` and `sibling_reference_check`. -/
theorem specMoveP_eq_specMove_beside {f : Forest} {r c : Nat} (inv : f.Inv) (norm : f.Normal)
    (hsc : f.structureCheck (f.parent? r) c = true) (hsr : f.siblingReferenceCheck r c = true) :
    specMoveP (.after r) c f = specMove (Keep.resident c) (.after r) c f ∧
    specMoveP (.before r) c f = specMove (Keep.resident c) (.before r) c f := by
  have nd := inv.nodup
  obtain ⟨q, vq, A, kr, B, t, sq, ekr, _, hrc, hgc, hqt, _, _, hvq⟩ := sibling_checks_unpack nd hsc hsr
  subst ekr
  have hq : f.parent? kr.handle = some q := Forest.parent?_of_ctx sq.ctx
  exact ⟨specMoveP_eq_specMove inv norm hgc sq hqt hvq (by simp only [Dest.site]; exact hq)
      (fun x h => by
        rcases h with h | h
        · injection h with h; rw [← h]; exact hrc
        · cases h),
    specMoveP_eq_specMove inv norm hgc sq hqt hvq (by simp only [Dest.site]; exact hq)
      (fun x h => by
        rcases h with h | h
        · cases h
        · injection h with h; rw [← h]; exact hrc)⟩

end XotModel

/-! ### `specDetachP = specDetach` on forests without adjacent text -/

namespace XotModel
open HTree Spec PairAll

theorem specDetachP_eq_specDetach {f : Forest} {n : Nat} {keep : Keep} {t : HTree} (inv : f.Inv) (norm : f.Normal)
    (hkeep : ∀ a b, a ≠ n → keep a b = true) (hg : f.get? n = some t) :
    specDetachP n f = specDetach keep n f := by
  have nd := inv.nodup
  unfold specDetachP specDetach
  rw [hg]
  simp only
  rcases Forest.root_or_ctx hg with hroot | ⟨c, hctx⟩
  · have hp := Forest.parent?_of_no_ctx (Forest.ctx_none_of_root nd hroot)
    rw [hp]
    rfl
  · obtain ⟨e0, v, so⟩ := SiteAt.of_ctx nd hctx
    have hself : c.self = t := by
      have := Forest.get?_of_ctx nd hctx
      rw [hg] at this
      exact (Option.some.inj this).symm
    obtain ⟨p, l, k, r⟩ := c
    simp only at e0 so hself
    subst hself
    subst e0
    have hpar : f.parent? k.handle = some p := Forest.parent?_of_ctx hctx
    rw [hpar]
    obtain ⟨ndL, _⟩ := so.nodupKids
    obtain ⟨tl, tr⟩ := tops_ne_of_nodup ndL
    have hdrop : dropTop k.handle (l ++ k :: r) = l ++ r := dropTop_mid rfl tl tr
    -- the site after the raw detach (as in `detach_pair`)
    have s1 : SiteAt ((f.editAt (some p) (dropTop k.handle)).editAt none (insertLast k)) p v (l ++ r) := by
      constructor
      · show (handlesList ((f.roots.map (HTree.editAt p (dropTop k.handle))) ++ [k])).Nodup
        rw [fs_handlesList_append, handlesList_cons, handlesList_nil, List.append_nil]
        have hperm := handlesList_editAt_perm (g := dropTop k.handle) (E := handles k)
          (by
            rw [hdrop]
            simp only [fs_handlesList_append, handlesList_cons]
            rw [List.append_assoc]
            exact List.Perm.append_left _ List.perm_append_comm) f.roots nd so.kids
        exact hperm.symm.nodup nd
      · show findList? p ((f.roots.map (HTree.editAt p (dropTop k.handle))) ++ [k]) = _
        apply findList?_append_left
        have := findList?_editAt_self (g := dropTop k.handle) f.roots so.kids
        rw [hdrop] at this
        exact this
    rw [mergeLeftAt_eq_pairOpt, mergeAt_eq_mergeOpt]
    apply s1.congr
    rw [so.nbOf]
    have hcX : ((f.editAt (some p) (dropTop k.handle)).editAt none (insertLast k)).consolidation = f.consolidation := rfl
    rw [hcX]
    unfold pairOpt mergeOpt
    cases hc : f.consolidation with
    | false => rfl
    | true =>
      simp only [if_true]
      have hnoL : noAdjacentText (l ++ k :: r) = true := (validTree_node (so.valid (norm hc))).2.2.1 rfl
      obtain ⟨hnl, hnkr, _⟩ := noAdj_append.1 hnoL
      exact (mergeRuns_eq_mergeAdj hnl (noAdj_tail hnkr) s1.nodupKids.1 (fun a ha b => hkeep _ _ (tl a ha))).symm

end XotModel
