/-
  Lemmas for C11, part 3: forest-level facts under the invariant — which root a node lives in,
  `isRoot`, `ancestors`, `ctx?` of a direct child, roots filtered / appended, validity of
  subtrees.
-/
import XotModel.Lemmas.FmapLocal

namespace XotModel
namespace Fmap
open HTree

theorem mem_handlesList_of_mem (ks : List HTree) (r : HTree) (hr : r ∈ ks) (x : Nat)
    (hx : x ∈ handles r) : x ∈ handlesList ks := by
  induction ks with
  | nil => cases hr
  | cons k ks ih =>
    simp only [handlesList, List.mem_append]
    rcases List.mem_cons.mp hr with rfl | hr
    · exact Or.inl hx
    · exact Or.inr (ih hr)

theorem nodup_of_mem (ks : List HTree) (hnd : (handlesList ks).Nodup) (r : HTree) (hr : r ∈ ks) :
    (handles r).Nodup := by
  induction ks with
  | nil => cases hr
  | cons k ks ih =>
    simp only [handlesList] at hnd
    have hnd' := List.nodup_append.mp hnd
    rcases List.mem_cons.mp hr with rfl | hr
    · exact hnd'.1
    · exact ih hnd'.2.1 hr

/-- With distinct handles, a handle lies in one tree of the list only. -/
theorem sameTree (ks : List HTree) (hnd : (handlesList ks).Nodup) (r r' : HTree)
    (hr : r ∈ ks) (hr' : r' ∈ ks) (x : Nat) (hx : x ∈ handles r) (hx' : x ∈ handles r') :
    r = r' := by
  induction ks with
  | nil => cases hr
  | cons k ks ih =>
    simp only [handlesList] at hnd
    have hnd' := List.nodup_append.mp hnd
    rcases List.mem_cons.mp hr with h1 | h1
    · rcases List.mem_cons.mp hr' with h2 | h2
      · rw [h1, h2]
      · subst h1
        exact absurd rfl (hnd'.2.2 _ hx _ (mem_handlesList_of_mem ks r' h2 x hx'))
    · rcases List.mem_cons.mp hr' with h2 | h2
      · subst h2
        exact absurd rfl (hnd'.2.2 _ hx' _ (mem_handlesList_of_mem ks r h1 x hx))
      · exact ih hnd'.2.1 h1 h2

theorem findList?_root (e : Nat) (ks : List HTree) (t : HTree) (hf : findList? e ks = some t) :
    ∃ r ∈ ks, find? e r = some t := by
  induction ks with
  | nil => simp [findList?] at hf
  | cons k ks ih =>
    simp only [findList?] at hf
    cases hk : find? e k with
    | some t' =>
      rw [hk] at hf; cases hf
      exact ⟨k, List.mem_cons_self, hk⟩
    | none =>
      rw [hk] at hf
      obtain ⟨r, hr, h⟩ := ih hf
      exact ⟨r, List.mem_cons_of_mem _ hr, h⟩

/-- A direct child of a node is no root. -/
theorem not_root_of_child (ks : List HTree) (hnd : (handlesList ks).Nodup) (e c : Nat) (t : HTree)
    (hf : findList? e ks = some t) (hc : c ∈ handlesList t.kids) :
    ∀ r ∈ ks, r.handle ≠ c := by
  intro r hr hh
  obtain ⟨r0, hr0, h0⟩ := findList?_root e ks t hf
  have hck : c ∈ handlesList r0.kids := find?_kids_sub' e r0 t h0 c hc
  have hc0 : c ∈ handles r0 := by rw [handles_eq]; exact List.mem_cons_of_mem _ hck
  have hcr : c ∈ handles r := hh ▸ handle_mem_handles r
  have : r = r0 := sameTree ks hnd r r0 hr hr0 c hcr hc0
  subst this
  have hn := nodup_of_mem ks hnd r hr
  rw [handles_eq, List.nodup_cons] at hn
  exact hn.1 (hh ▸ hck)

/-! ### `ancestors` -/

mutual
  theorem ancestorsOf_sub (h : Nat) : ∀ (t : HTree) (l : List Nat), ancestorsOf h t = some l →
      (∀ x ∈ l, x ∈ handles t) ∧ h ∈ handles t
    | .node h' v ks, l => by
      intro ha
      simp only [ancestorsOf] at ha
      split at ha
      · rename_i hh
        cases ha
        simp [handles, hh]
      · cases hk : ancestorsOfList h ks with
        | none => rw [hk] at ha; cases ha
        | some l' =>
          rw [hk] at ha; cases ha
          have := ancestorsOfList_sub h ks l' hk
          constructor
          · intro x hx
            simp only [List.mem_append, List.mem_singleton] at hx
            simp only [handles, List.mem_cons]
            rcases hx with hx | hx
            · exact Or.inr (this.1 x hx)
            · exact Or.inl hx
          · simp only [handles, List.mem_cons]; exact Or.inr this.2
  theorem ancestorsOfList_sub (h : Nat) : ∀ (ks : List HTree) (l : List Nat),
      ancestorsOfList h ks = some l → (∀ x ∈ l, x ∈ handlesList ks) ∧ h ∈ handlesList ks
    | [], l => by simp [ancestorsOfList]
    | k :: ks, l => by
      intro ha
      simp only [ancestorsOfList] at ha
      simp only [handlesList, List.mem_append]
      cases hk : ancestorsOf h k with
      | some l' =>
        rw [hk] at ha; cases ha
        have := ancestorsOf_sub h k _ hk
        exact ⟨fun x hx => Or.inl (this.1 x hx), Or.inl this.2⟩
      | none =>
        rw [hk] at ha
        have := ancestorsOfList_sub h ks l ha
        exact ⟨fun x hx => Or.inr (this.1 x hx), Or.inr this.2⟩
end

/-- Every ancestor-or-self of `h` lies in the same root tree as `h`. -/
theorem ancestors_sameRoot (f : Forest) (h x : Nat) (hx : x ∈ f.ancestors h) :
    ∃ r ∈ f.roots, x ∈ handles r ∧ h ∈ handles r := by
  unfold Forest.ancestors at hx
  cases hs : f.roots.findSome? (ancestorsOf h) with
  | none => rw [hs] at hx; simp at hx
  | some l =>
    rw [hs] at hx
    simp only [Option.getD_some] at hx
    obtain ⟨r, hr, hrl⟩ := List.exists_of_findSome?_eq_some hs
    have := ancestorsOf_sub h r l hrl
    exact ⟨r, hr, this.1 x hx, this.2⟩

/-- A parentless leaf is no ancestor of another node. -/
theorem ancestors_not_leafRoot (f : Forest) (hnd : f.allHandles.Nodup) (nd h : Nat) (v : Value)
    (hroot : HTree.node nd v [] ∈ f.roots) (hne : h ≠ nd) :
    (f.ancestors h).contains nd = false := by
  cases hc : (f.ancestors h).contains nd with
  | false => rfl
  | true =>
    exfalso
    have hm : nd ∈ f.ancestors h := by simpa using hc
    obtain ⟨r, hr, h1, h2⟩ := ancestors_sameRoot f h nd hm
    have : r = .node nd v [] :=
      sameTree f.roots hnd r _ hr hroot nd h1 (by simp [handles])
    subst this
    simp [handles, handlesList] at h2
    exact hne h2

/-! ### roots filtered -/

theorem handlesList_filter_sublist (p : HTree → Bool) (ks : List HTree) :
    (handlesList (ks.filter p)).Sublist (handlesList ks) := by
  induction ks with
  | nil => simp
  | cons k ks ih =>
    simp only [List.filter_cons, handlesList]
    split
    · simp only [handlesList]
      exact List.Sublist.append (List.Sublist.refl _) ih
    · exact List.Sublist.trans ih (List.sublist_append_right _ _)

theorem findList?_filter (e : Nat) (p : HTree → Bool) (ks : List HTree)
    (h : ∀ r ∈ ks, p r = false → find? e r = none) :
    findList? e (ks.filter p) = findList? e ks := by
  induction ks with
  | nil => rfl
  | cons k ks ih =>
    have ih' := ih (fun r hr => h r (List.mem_cons_of_mem _ hr))
    simp only [List.filter_cons]
    cases hp : p k with
    | true => simp [findList?, ih']
    | false =>
      simp only [findList?, h k List.mem_cons_self hp]
      simpa using ih'

/-- A root that is a leaf: the other roots are those with another handle. -/
theorem find?_leafRoot_filter (ks : List HTree) (hnd : (handlesList ks).Nodup) (nd e : Nat)
    (v : Value) (hroot : HTree.node nd v [] ∈ ks) (hne : e ≠ nd) :
    findList? e (ks.filter (fun r => r.handle != nd)) = findList? e ks := by
  apply findList?_filter
  intro r hr hp
  have hh : r.handle = nd := by simpa using hp
  have : r = .node nd v [] :=
    sameTree ks hnd r _ hr hroot nd (hh ▸ handle_mem_handles r) (by simp [handles])
  subst this
  apply find?_none_of_not_mem
  simp [handles, handlesList, hne]

theorem not_mem_handlesList_filter_leafRoot (ks : List HTree) (hnd : (handlesList ks).Nodup)
    (nd : Nat) (v : Value) (hroot : HTree.node nd v [] ∈ ks) :
    nd ∉ handlesList (ks.filter (fun r => r.handle != nd)) := by
  induction ks with
  | nil => cases hroot
  | cons k ks ih =>
    simp only [handlesList] at hnd
    have hnd' := List.nodup_append.mp hnd
    simp only [List.filter_cons]
    rcases List.mem_cons.mp hroot with heq | hr
    · subst heq
      simp only [HTree.handle, bne_self_eq_false, Bool.false_eq_true, if_false]
      intro hx
      have := (handlesList_filter_sublist (fun r => r.handle != nd) ks).subset hx
      exact hnd'.2.2 nd (by simp [handles]) nd this rfl
    · have hndks : nd ∈ handlesList ks := mem_handlesList_of_mem ks _ hr nd (by simp [handles])
      have hk : nd ∉ handles k := fun hx => hnd'.2.2 _ hx _ hndks rfl
      have hkh : k.handle ≠ nd := fun hh => hk (hh ▸ handle_mem_handles k)
      simp only [bne_iff_ne, ne_eq, hkh, not_false_eq_true, if_true, handlesList, List.mem_append,
        not_or]
      exact ⟨hk, ih hnd'.2.1 hr⟩

/-! ### `ctx?` of a direct child -/

mutual
  theorem ctxBelow_none (c : Nat) : ∀ t : HTree, c ∉ handlesList t.kids → ctxBelow c t = none
    | .node p v ks => by
      intro hn
      simp only [ctxBelow]
      exact ctxKids_none c p ks [] hn
  theorem ctxKids_none (c p : Nat) : ∀ (ks acc : List HTree), c ∉ handlesList ks →
      ctxKids c p acc ks = none
    | [], acc => by simp [ctxKids]
    | k :: ks, acc => by
      intro hn
      simp only [handlesList, List.mem_append, not_or] at hn
      have h3 : k.handle ≠ c := fun hh => hn.1 (hh ▸ handle_mem_handles k)
      have h4 : c ∉ handlesList k.kids := fun hx => hn.1 (by rw [handles_eq]; exact List.mem_cons_of_mem _ hx)
      simp only [ctxKids, if_neg h3, ctxBelow_none c k h4]
      exact ctxKids_none c p ks (acc ++ [k]) hn.2
end

theorem ctxKids_direct (c p : Nat) (l r acc : List HTree) (n : HTree) (hn : n.handle = c)
    (hl : c ∉ handlesList l) :
    ctxKids c p acc (l ++ n :: r) = some ⟨p, acc ++ l, n, r⟩ := by
  induction l generalizing acc with
  | nil => simp [ctxKids, hn]
  | cons x l ih =>
    simp only [handlesList, List.mem_append, not_or] at hl
    have h3 : x.handle ≠ c := fun hh => hl.1 (hh ▸ handle_mem_handles x)
    have h4 : c ∉ handlesList x.kids := fun hx => hl.1 (by rw [handles_eq]; exact List.mem_cons_of_mem _ hx)
    simp only [List.cons_append, ctxKids, if_neg h3, ctxBelow_none c x h4]
    rw [ih (acc ++ [x]) hl.2]
    simp

mutual
  theorem ctxBelow_child (e : Nat) (l r : List HTree) (n : HTree) : ∀ (k t : HTree),
      (handles k).Nodup → find? e k = some t → t.kids = l ++ n :: r →
      ctxBelow n.handle k = some ⟨e, l, n, r⟩
    | .node h' v ks, t => by
      intro hnd hf hk
      simp only [handles, List.nodup_cons] at hnd
      simp only [find?] at hf
      simp only [ctxBelow]
      split at hf
      · rename_i hh
        cases hf
        simp only [HTree.kids] at hk
        subst hk
        have := (nodup_split l r n hnd.2).1
        rw [ctxKids_direct n.handle h' l r [] n rfl this, hh]
        simp
      · exact ctxKids_child e l r n h' ks [] t hnd.2 hf hk
  theorem ctxKids_child (e : Nat) (l r : List HTree) (n : HTree) (p : Nat) :
      ∀ (ks acc : List HTree) (t : HTree),
      (handlesList ks).Nodup → findList? e ks = some t → t.kids = l ++ n :: r →
      ctxKids n.handle p acc ks = some ⟨e, l, n, r⟩
    | [], acc, t => by simp [findList?]
    | k :: ks, acc, t => by
      intro hnd hf hkids
      simp only [handlesList] at hnd
      have hnd' := List.nodup_append.mp hnd
      simp only [findList?] at hf
      have hct : n.handle ∈ handlesList t.kids := by
        rw [hkids, handlesList_append]
        simp only [handlesList, List.mem_append]
        exact Or.inr (Or.inl (handle_mem_handles n))
      simp only [ctxKids]
      cases hk : find? e k with
      | some t' =>
        rw [hk] at hf; cases hf
        have hckk : n.handle ∈ handlesList k.kids := find?_kids_sub' e k _ hk _ hct
        have h3 : k.handle ≠ n.handle := by
          have := hnd'.1
          rw [handles_eq, List.nodup_cons] at this
          exact fun hh => this.1 (hh ▸ hckk)
        rw [if_neg h3, ctxBelow_child e l r n k _ hnd'.1 hk hkids]
      | none =>
        rw [hk] at hf
        have hcm : n.handle ∈ handlesList ks := by
          apply findList?_sub e ks t hf
          rw [handles_eq]; exact List.mem_cons_of_mem _ hct
        have h1 : n.handle ∉ handles k := fun hx => hnd'.2.2 _ hx _ hcm rfl
        have h3 : k.handle ≠ n.handle := fun hh => h1 (hh ▸ handle_mem_handles k)
        have h4 : n.handle ∉ handlesList k.kids :=
          fun hx => h1 (by rw [handles_eq]; exact List.mem_cons_of_mem _ hx)
        rw [if_neg h3, ctxBelow_none _ k h4]
        exact ctxKids_child e l r n p ks (acc ++ [k]) t hnd'.2.1 hf hkids
end

/-- The context of a direct child of `e`. -/
theorem ctx?_child (f : Forest) (hnd : f.allHandles.Nodup) (e : Nat) (t : HTree)
    (l r : List HTree) (n : HTree) (hf : f.get? e = some t) (hk : t.kids = l ++ n :: r) :
    f.ctx? n.handle = some ⟨e, l, n, r⟩ := by
  unfold Forest.ctx?
  unfold Forest.get? at hf
  unfold Forest.allHandles at hnd
  generalize f.roots = ks at hf hnd
  induction ks with
  | nil => simp [findList?] at hf
  | cons k ks ih =>
    simp only [handlesList] at hnd
    have hnd' := List.nodup_append.mp hnd
    simp only [findList?] at hf
    have hct : n.handle ∈ handlesList t.kids := by
      rw [hk, handlesList_append]
      simp only [handlesList, List.mem_append]
      exact Or.inr (Or.inl (handle_mem_handles n))
    simp only [List.findSome?_cons]
    cases hfk : find? e k with
    | some t' =>
      rw [hfk] at hf; cases hf
      rw [ctxBelow_child e l r n k _ hnd'.1 hfk hk]
    | none =>
      rw [hfk] at hf
      have hcm : n.handle ∈ handlesList ks := by
        apply findList?_sub e ks t hf
        rw [handles_eq]; exact List.mem_cons_of_mem _ hct
      have h1 : n.handle ∉ handles k := fun hx => hnd'.2.2 _ hx _ hcm rfl
      have h4 : n.handle ∉ handlesList k.kids :=
        fun hx => h1 (by rw [handles_eq]; exact List.mem_cons_of_mem _ hx)
      rw [ctxBelow_none _ k h4]
      exact ih hf hnd'.2.1

/-! ### validity of subtrees -/

mutual
  theorem validTree_find? (b : Bool) (e : Nat) : ∀ (k t : HTree), validTree b k = true →
      find? e k = some t → validTree b t = true
    | .node h' v ks, t => by
      intro hv hf
      simp only [find?] at hf
      split at hf
      · cases hf; exact hv
      · simp only [validTree, Bool.and_eq_true] at hv
        exact validList_findList? b e ks t hv.2 hf
  theorem validList_findList? (b : Bool) (e : Nat) : ∀ (ks : List HTree) (t : HTree),
      validList b ks = true → findList? e ks = some t → validTree b t = true
    | [], t => by simp [findList?]
    | k :: ks, t => by
      intro hv hf
      simp only [validList, Bool.and_eq_true] at hv
      simp only [findList?] at hf
      cases hk : find? e k with
      | some t' =>
        rw [hk] at hf; cases hf
        exact validTree_find? b e k _ hv.1 hk
      | none =>
        rw [hk] at hf
        exact validList_findList? b e ks t hv.2 hf
end

end Fmap
end XotModel
