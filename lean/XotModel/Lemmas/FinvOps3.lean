/-
  Finv (C04), part 14: `insertBefore` and `insertAfter` preserve the invariant (all outcomes).
-/
import XotModel.Lemmas.FinvOps2

namespace XotModel
open HTree

namespace Forest

theorem ctx?_none_of_not_mem {f : Forest} {x : Nat} (h : x ∉ f.allHandles) : f.ctx? x = none := by
  unfold ctx?
  apply findSome?_ctxBelow_none
  intro k hk hc
  apply h
  unfold allHandles
  obtain ⟨a, b, hab⟩ := List.append_of_mem hk
  rw [hab]
  simp only [fi_handlesList_append, fi_handlesList_cons, List.mem_append]
  refine Or.inr (Or.inl ?_)
  rw [fi_handles_eq]; exact List.mem_cons_of_mem _ hc

/-- A context comes from a decomposition below some frame. -/
theorem ctx?_some_loc {f : Forest} (nd : f.allHandles.Nodup) {x : Nat} {ctx : Ctx}
    (h : f.ctx? x = some ctx) :
    ∃ init fr, Loc f.roots x (init ++ [fr]) ctx.left ctx.self ctx.right ∧ fr.h = ctx.parent := by
  have hx : x ∈ f.allHandles := by
    apply Classical.byContradiction
    intro hn
    rw [ctx?_none_of_not_mem hn] at h; cases h
  obtain ⟨path, l, k, r, lc⟩ := exists_loc hx
  rcases List.eq_nil_or_concat path with hp0 | ⟨init, fr, hp0⟩
  · subst hp0; rw [ctx?_of_loc_nil lc nd] at h; cases h
  rw [List.concat_eq_append] at hp0
  subst hp0
  rw [ctx?_of_loc_snoc lc nd] at h
  cases h
  exact ⟨init, fr, lc, rfl⟩

theorem parent?_some_ctx {f : Forest} {x par : Nat} (h : f.parent? x = some par) :
    ∃ ctx, f.ctx? x = some ctx ∧ ctx.parent = par := by
  unfold parent? at h
  cases hc : f.ctx? x with
  | none => rw [hc] at h; cases h
  | some ctx => rw [hc] at h; exact ⟨ctx, rfl, by simpa using h⟩

theorem isRoot_false_of_ctx? {f : Forest} (nd : f.allHandles.Nodup) {x : Nat} {ctx : Ctx}
    (h : f.ctx? x = some ctx) : f.isRoot x = false := by
  obtain ⟨init, fr, lc, _⟩ := ctx?_some_loc nd h
  exact isRoot_of_loc_ne lc (by simp) nd

theorem ancestors_of_ctx? {f : Forest} (nd : f.allHandles.Nodup) {x : Nat} {ctx : Ctx}
    (h : f.ctx? x = some ctx) : f.ancestors x = x :: f.ancestors ctx.parent := by
  obtain ⟨init, fr, lc, hfr⟩ := ctx?_some_loc nd h
  have lcp : Loc f.roots fr.h init fr.l (.node fr.h fr.v (ctx.left ++ ctx.self :: ctx.right)) fr.r :=
    ⟨by rw [lc.eq, plug_append]; rfl, rfl⟩
  rw [ancestors_of_loc lc nd, ← hfr, ancestors_of_loc lcp nd]
  simp

theorem value?_of_mem_ctx {f : Forest} (nd : f.allHandles.Nodup) {x : Nat} {ctx : Ctx}
    (h : f.ctx? x = some ctx) {n : HTree} (hn : n ∈ ctx.left ∨ n ∈ ctx.right) :
    f.value? n.handle = some n.value := by
  obtain ⟨init, fr, lc, _⟩ := ctx?_some_loc nd h
  rcases hn with hn | hn
  · obtain ⟨a, b, hab⟩ := List.append_of_mem hn
    have : Loc f.roots n.handle (init ++ [fr]) a n (b ++ ctx.self :: ctx.right) :=
      ⟨by rw [lc.eq, hab]; simp, rfl⟩
    exact value?_of_loc this nd
  · obtain ⟨a, b, hab⟩ := List.append_of_mem hn
    have : Loc f.roots n.handle (init ++ [fr]) (ctx.left ++ ctx.self :: a) n b :=
      ⟨by rw [lc.eq, hab]; simp, rfl⟩
    exact value?_of_loc this nd

theorem value?_of_ctx_self {f : Forest} (nd : f.allHandles.Nodup) {x : Nat} {ctx : Ctx}
    (h : f.ctx? x = some ctx) : f.value? x = some ctx.self.value := by
  obtain ⟨init, fr, lc, _⟩ := ctx?_some_loc nd h
  exact value?_of_loc lc nd

theorem value?_of_isNormalNode {f : Forest} {x : Nat} (h : f.isNormalNode x = true) :
    ∃ sv, f.value? x = some sv ∧ sv.category = .normal := by
  unfold isNormalNode at h
  cases hv : f.value? x with
  | none => rw [hv] at h; simp at h
  | some sv =>
    rw [hv] at h
    refine ⟨sv, rfl, ?_⟩
    simpa [Value.isNormal] using h

theorem category_of_sameKind_normal {v v' : Value} (h : SameKind v v') (hn : v.category = .normal) :
    v'.category = .normal := by rw [← h.cat]; exact hn

/-- The facts about the reference node shared by `insert_before` and `insert_after`. -/
theorem sibling_guards {f : Forest} (hi : f.Inv) {ref c : Nat}
    (hsc : f.structureCheck (f.parent? ref) c = true) (hsr : f.siblingReferenceCheck ref c = true) :
    ∃ cv sv ctx, f.value? c = some cv ∧ cv.category = .normal ∧ cv.isDocument = false ∧
      f.value? ref = some sv ∧ sv.category = .normal ∧ ref ≠ c ∧
      f.ctx? ref = some ctx ∧ ctx.self.value = sv ∧
      f.isRoot ref = false ∧ (f.ancestors ref).contains c = false := by
  cases hpar : f.parent? ref with
  | none => rw [hpar] at hsc; simp [structureCheck] at hsc
  | some par =>
    rw [hpar] at hsc
    obtain ⟨pv, cv, hpv, hpk, hancp, hcv, hcn, hcd⟩ := fi_structureCheck_some hsc
    unfold siblingReferenceCheck at hsr
    simp only [Bool.and_eq_true, bne_iff_ne, ne_eq] at hsr
    obtain ⟨sv, hsv, hsn⟩ := value?_of_isNormalNode hsr.2
    obtain ⟨ctx, hctx, hcp⟩ := parent?_some_ctx hpar
    have hself := value?_of_ctx_self hi.nodup hctx
    rw [hsv] at hself
    refine ⟨cv, sv, ctx, hcv, hcn, hcd, hsv, hsn, hsr.1, hctx, (Option.some.inj hself).symm,
      isRoot_false_of_ctx? hi.nodup hctx, ?_⟩
    rw [ancestors_of_ctx? hi.nodup hctx, hcp]
    simp only [List.contains_cons, Bool.or_eq_false_iff, beq_eq_false_iff_ne, ne_eq]
    exact ⟨fun e => hsr.1 e.symm, hancp⟩

/-- `insertBefore` preserves the invariant, whatever it answers. -/
theorem insertBefore_inv {f : Forest} (hi : f.Inv) (ref c : Nat) : (f.insertBefore ref c).1.Inv := by
  unfold insertBefore
  split
  · exact hi
  rename_i hsc
  split
  · exact hi
  rename_i hsr
  split
  · exact hi
  rename_i hprev
  obtain ⟨cv, sv, ctx, hcv, hcn, hcd, hsv, hsn, hne, hctx, hself, hroot, hanc⟩ :=
    sibling_guards hi (by simpa using hsc) (by simpa using hsr)
  obtain ⟨g, b, so⟩ := exists_sibsOut hi (mem_allHandles_of_isLive (isLive_of_value? hcv))
  rw [so.eq]
  simp only
  cases h2 : g.addConsolidate c (g.prevSibling ref) (some ref) with
  | mk f2 cc =>
    simp only
    have hi2 : f2.Inv := by
      have := addConsolidate_inv so.inv c (g.prevSibling ref) (some ref); rw [h2] at this; exact this
    cases cc with
    | true => simpa using hi2
    | false =>
      have := addConsolidate_false h2; subst this
      simp only [Bool.false_eq_true, if_false]
      have hcv' : f2.value? c = some cv := by rw [so.valC]; exact hcv
      -- `ref` is not the text node that was merged away
      have hrefN : b = true → f.nextSibling c ≠ some ref := by
        intro hb e
        obtain ⟨P, N, ps, ns, _, h2', _, _, _, _, _, _, h9⟩ := so.merged hb
        rw [h2'] at e; cases e
        apply hprev; rw [h9]; simp
      obtain ⟨sv', hsv', hsk, _⟩ := so.keep ref sv hsv hrefN
      have hrefg : ref ∈ f2.allHandles := mem_allHandles_of_isLive (isLive_of_value? hsv')
      have key : (f2.checkedInsertBefore ref c).1.Inv := by
        apply checkedInsertBefore_inv so.inv hcv' hcn hcd hsv' (category_of_sameKind_normal hsk hsn)
          (by rw [so.isRoot]; exact hroot) (by rw [so.anc ref hrefg]; exact hanc) so.cutOK
        intro hoff hct
        have hoff' : f.everOff = false := by rw [← so.everOff]; exact hoff
        obtain ⟨e1, e2⟩ := so.same hoff' (fun cv' h => by rw [hcv] at h; cases h; exact hct)
        subst e1
        have hcons := consolidation_of_strict hi hoff'
        obtain ⟨a, hta⟩ := textOf_of_value? hcv hct
        rw [hsv] at hsv'; cases hsv'
        refine ⟨?_, ?_⟩
        · cases hst : sv.isText with
          | false => rfl
          | true =>
            exfalso
            obtain ⟨s, hts⟩ := textOf_of_value? hsv hst
            have := addConsolidate_next_true (f2.prevSibling ref) hcons hta hts hne
            rw [h2] at this; cases this
        · intro ctx' hctx' n hn
          rw [hctx] at hctx'; cases hctx'
          have hnv := value?_of_mem_ctx hi.nodup hctx (Or.inl (List.mem_of_getLast? hn))
          have hps : f2.prevSibling ref =
              if n.value.category == ctx.self.value.category then some n.handle else none := by
            unfold prevSibling; rw [hctx]; simp only; rw [hn]
          rw [hself, hsn] at hps
          by_cases hnn : n.value.category = .normal
          · rw [if_pos (by simp [hnn])] at hps
            have hnc : n.handle ≠ c := by intro e; apply hprev; rw [hps, e]; simp
            refine ⟨hnc, ?_⟩
            · cases hnt : n.value.isText with
              | false => rfl
              | true =>
                exfalso
                obtain ⟨s, hts⟩ := textOf_of_value? hnv hnt
                have := addConsolidate_prev_true (some ref) hcons hta hts hnc
                rw [← hps, h2] at this
                cases this
          · refine ⟨?_, ?_⟩
            · intro e
              rw [e, hcv] at hnv
              cases hnv
              exact hnn hcn
            · cases hnt : n.value.isText with
              | false => rfl
              | true => exact absurd (category_normal_of_isText hnt) hnn
      cases h3 : f2.checkedInsertBefore ref c with
      | mk f3 okb =>
        rw [h3] at key
        cases okb <;> simpa using key

/-- `insertAfter` preserves the invariant, whatever it answers. -/
theorem insertAfter_inv {f : Forest} (hi : f.Inv) (ref c : Nat) : (f.insertAfter ref c).1.Inv := by
  unfold insertAfter
  split
  · exact hi
  rename_i hsc
  split
  · exact hi
  rename_i hsr
  split
  · exact hi
  rename_i hnext
  obtain ⟨cv, sv, ctx, hcv, hcn, hcd, hsv, hsn, hne, hctx, hself, hroot, hanc⟩ :=
    sibling_guards hi (by simpa using hsc) (by simpa using hsr)
  obtain ⟨g, b, so⟩ := exists_sibsOut hi (mem_allHandles_of_isLive (isLive_of_value? hcv))
  simp only [so.eq]
  generalize hr' : (if (b && f.nextSibling c == some ref) = true then (f.prevSibling c).getD ref else ref) = ref'
  have hcv' : g.value? c = some cv := by rw [so.valC]; exact hcv
  -- what is needed of `ref'` in `g`
  have href' : ∃ sv', g.value? ref' = some sv' ∧ sv'.category = .normal ∧ g.isRoot ref' = false ∧
      (g.ancestors ref').contains c = false ∧ (b = false → ref' = ref) := by
    by_cases hcase : (b && f.nextSibling c == some ref) = true
    · rw [if_pos hcase] at hr'
      simp only [Bool.and_eq_true, beq_iff_eq] at hcase
      obtain ⟨P, N, ps, ns, h1, _, _, _, h5, h6, h7, _, _⟩ := so.merged hcase.1
      rw [h1] at hr'
      simp only [Option.getD_some] at hr'
      subst hr'
      exact ⟨_, h5, rfl, h6, h7, fun hb => by rw [hb] at hcase; cases hcase.1⟩
    · rw [if_neg hcase] at hr'
      subst hr'
      have hrefN : b = true → f.nextSibling c ≠ some ref := by
        intro hb e; apply hcase; simp [hb, e]
      obtain ⟨sv', hsv', hsk, _⟩ := so.keep ref sv hsv hrefN
      have hrefg : ref ∈ g.allHandles := mem_allHandles_of_isLive (isLive_of_value? hsv')
      exact ⟨sv', hsv', category_of_sameKind_normal hsk hsn, by rw [so.isRoot]; exact hroot,
        by rw [so.anc ref hrefg]; exact hanc, fun _ => rfl⟩
  obtain ⟨sv', hsv', hsn', hroot', hanc', hrefeq⟩ := href'
  cases h2 : g.addConsolidate c (some ref') (g.nextSibling ref') with
  | mk f2 cc =>
    simp only
    have hi2 : f2.Inv := by
      have := addConsolidate_inv so.inv c (some ref') (g.nextSibling ref'); rw [h2] at this; exact this
    cases cc with
    | true => simpa using hi2
    | false =>
      have := addConsolidate_false h2; subst this
      simp only [Bool.false_eq_true, if_false]
      have key : (f2.checkedInsertAfter ref' c).1.Inv := by
        apply checkedInsertAfter_inv so.inv hcv' hcn hcd hsv'
          (right_normal_of_normal so.inv hsv' hsn') hroot' hanc' so.cutOK
        intro hoff hct
        have hoff' : f.everOff = false := by rw [← so.everOff]; exact hoff
        obtain ⟨e1, e2⟩ := so.same hoff' (fun cv' h => by rw [hcv] at h; cases h; exact hct)
        subst e1
        have := hrefeq e2
        subst this
        have hcons := consolidation_of_strict hi hoff'
        obtain ⟨a, hta⟩ := textOf_of_value? hcv hct
        rw [hsv] at hsv'; cases hsv'
        refine ⟨?_, ?_⟩
        · cases hst : sv.isText with
          | false => rfl
          | true =>
            exfalso
            obtain ⟨s, hts⟩ := textOf_of_value? hsv hst
            have := addConsolidate_prev_true (f2.nextSibling ref') hcons hta hts hne
            rw [h2] at this; cases this
        · intro ctx' hctx' n rest hn
          rw [hctx] at hctx'; cases hctx'
          have hnmem : n ∈ ctx.right := by rw [hn]; simp
          have hnv := value?_of_mem_ctx hi.nodup hctx (Or.inr hnmem)
          have hnn : n.value.category = .normal := right_normal_of_normal hi hsv hsn ctx hctx n hnmem
          have hns : f2.nextSibling ref' = some n.handle := by
            unfold nextSibling; rw [hctx]; simp only; rw [hn]
            simp [hnn, hself, hsn]
          have hnc : n.handle ≠ c := by intro e; apply hnext; rw [hns, e]; simp
          refine ⟨hnc, ?_⟩
          · cases hnt : n.value.isText with
            | false => rfl
            | true =>
              exfalso
              obtain ⟨s, hts⟩ := textOf_of_value? hnv hnt
              have := addConsolidate_next_true (some ref') hcons hta hts hnc
              rw [← hns, h2] at this
              cases this
      cases h3 : f2.checkedInsertAfter ref' c with
      | mk f3 okb =>
        rw [h3] at key
        cases okb <;> simpa using key

end Forest
end XotModel
