/-
  XotModel.Lemmas.ArenaMeta — pointer-only updates: an arena whose slots carry the same stamps
  and data as another one (and the same free-list heads) has the same live slots, the same ids,
  the same free list; closed forms of `detach_from_siblings` on a single node and of `detach`;
  list facts about splitting a list without repetition at an element.
-/
import XotModel.Lemmas.ArenaNew

namespace XotModel
namespace Arena

/-- Same stamps, data and free-list heads (the pointers may differ). -/
structure MetaEq (a a' : Arena) : Prop where
  stamp : ∀ j, (a'.slot j).map (·.stamp) = (a.slot j).map (·.stamp)
  data : ∀ j, (a'.slot j).map (·.data) = (a.slot j).map (·.data)
  first : a'.firstFree = a.firstFree
  last : a'.lastFree = a.lastFree

/-- `f` writes pointers only. -/
def PtrOnly (f : Slot → Slot) : Prop := ∀ s, (f s).stamp = s.stamp ∧ (f s).data = s.data

theorem MetaEq.refl (a : Arena) : MetaEq a a := ⟨fun _ => rfl, fun _ => rfl, rfl, rfl⟩

theorem MetaEq.trans {a b c : Arena} (h1 : MetaEq a b) (h2 : MetaEq b c) : MetaEq a c :=
  ⟨fun j => (h2.stamp j).trans (h1.stamp j), fun j => (h2.data j).trans (h1.data j),
   h2.first.trans h1.first, h2.last.trans h1.last⟩

theorem MetaEq.mod (a : Arena) (i : Nat) {f : Slot → Slot} (hf : PtrOnly f) : MetaEq a (a.mod i f) := by
  refine ⟨fun j => ?_, fun j => ?_, rfl, rfl⟩
  · rw [slot_mod]; split
    · cases a.slot j <;> simp [(hf _).1]
    · rfl
  · rw [slot_mod]; split
    · cases a.slot j <;> simp [(hf _).2]
    · rfl

theorem MetaEq.modOpt (a : Arena) (o : Option NodeId) {f : Slot → Slot} (hf : PtrOnly f) :
    MetaEq a (a.modOpt o f) := by
  cases o with
  | none => exact MetaEq.refl a
  | some id => exact MetaEq.mod a _ hf

namespace MetaEq
variable {a a' : Arena}

theorem slot_some (h : MetaEq a a') {j : Nat} {s : Slot} (hs : a.slot j = some s) :
    ∃ s', a'.slot j = some s' ∧ s'.stamp = s.stamp ∧ s'.data = s.data := by
  have h1 := h.stamp j
  have h2 := h.data j
  rw [hs] at h1 h2
  cases hs' : a'.slot j with
  | none => rw [hs'] at h1; simp at h1
  | some s' =>
    rw [hs'] at h1 h2
    simp at h1 h2
    exact ⟨s', rfl, h1, h2⟩

theorem slot_some' (h : MetaEq a a') {j : Nat} {s' : Slot} (hs : a'.slot j = some s') :
    ∃ s, a.slot j = some s ∧ s'.stamp = s.stamp ∧ s'.data = s.data := by
  have h1 := h.stamp j
  have h2 := h.data j
  rw [hs] at h1 h2
  cases hs' : a.slot j with
  | none => rw [hs'] at h1; simp at h1
  | some s =>
    rw [hs'] at h1 h2
    simp at h1 h2
    exact ⟨s, rfl, h1, h2⟩

theorem live (h : MetaEq a a') (j : Nat) : Live a' j ↔ Live a j := by
  constructor
  · rintro ⟨s', hs', h0⟩
    obtain ⟨s, hs, hst, _⟩ := h.slot_some' hs'
    exact ⟨s, hs, by omega⟩
  · rintro ⟨s, hs, h0⟩
    obtain ⟨s', hs', hst, _⟩ := h.slot_some hs
    exact ⟨s', hs', by omega⟩

theorem idAt (h : MetaEq a a') (j : Nat) : a'.idAt j = a.idAt j := by
  have h1 := h.stamp j
  unfold Arena.idAt
  unfold slot at h1
  cases ha : a.nodes[j]? <;> cases ha' : a'.nodes[j]? <;> rw [ha, ha'] at h1 <;> simp at h1 ⊢
  exact h1

theorem idAgree (h : MetaEq a a') : IdAgree a a' := fun k _ => h.idAt k

theorem freeOk (h : MetaEq a a') {fl : List Nat} (f : FreeOk a fl) : FreeOk a' fl := by
  refine ⟨f.nodup, ?_, by rw [h.first]; exact f.head, by rw [h.last]; exact f.last, ?_⟩
  · intro i
    rw [f.mem i]
    constructor
    · rintro ⟨s, hs, hn⟩
      obtain ⟨s', hs', hst, _⟩ := h.slot_some hs
      exact ⟨s', hs', by omega⟩
    · rintro ⟨s', hs', hn⟩
      obtain ⟨s, hs, hst, _⟩ := h.slot_some' hs'
      exact ⟨s, hs, by omega⟩
  · intro k i hk
    obtain ⟨s, hs, hd⟩ := f.link k i hk
    obtain ⟨s', hs', _, hdd⟩ := h.slot_some hs
    exact ⟨s', hs', by rw [hdd, hd]⟩

theorem stampRange (h : MetaEq a a') (r : ∀ i s, a.slot i = some s → -32767 ≤ s.stamp ∧ s.stamp ≤ 32767) :
    ∀ i s, a'.slot i = some s → -32767 ≤ s.stamp ∧ s.stamp ≤ 32767 := by
  intro i s' hs'
  obtain ⟨s, hs, hst, _⟩ := h.slot_some' hs'
  have := r i s hs
  omega

theorem dataLive (h : MetaEq a a') (r : ∀ i s, a.slot i = some s → (0 ≤ s.stamp ↔ ∃ v, s.data = .data v)) :
    ∀ i s, a'.slot i = some s → (0 ≤ s.stamp ↔ ∃ v, s.data = .data v) := by
  intro i s' hs'
  obtain ⟨s, hs, hst, hd⟩ := h.slot_some' hs'
  rw [hst, hd]
  exact r i s hs

end MetaEq

/-! ### Splitting a list without repetition at an element -/

theorem split_unique {x : Nat} : ∀ {L R L' R' : List Nat}, (L ++ x :: R).Nodup → L ++ x :: R = L' ++ x :: R' →
    L = L' ∧ R = R'
  | [], R, [], R', _, h => by simp at h; exact ⟨rfl, h⟩
  | [], R, y :: L', R', hn, h => by
    simp only [List.nil_append, List.cons_append, List.cons.injEq] at h
    obtain ⟨hxy, hR⟩ := h
    simp only [List.nil_append, List.nodup_cons] at hn
    exact absurd (by rw [hR]; simp) hn.1
  | y :: L, R, [], R', hn, h => by
    simp only [List.nil_append, List.cons_append, List.cons.injEq] at h
    obtain ⟨hxy, hR⟩ := h
    subst hxy
    simp only [List.cons_append, List.nodup_cons] at hn
    exact absurd (by simp) hn.1
  | y :: L, R, z :: L', R', hn, h => by
    simp only [List.cons_append, List.cons.injEq] at h
    obtain ⟨hyz, hrest⟩ := h
    simp only [List.cons_append, List.nodup_cons] at hn
    obtain ⟨h1, h2⟩ := split_unique hn.2 hrest
    exact ⟨by rw [hyz, h1], h2⟩

theorem erase_split {x : Nat} {L R : List Nat} (hn : (L ++ x :: R).Nodup) : (L ++ x :: R).erase x = L ++ R := by
  have hx : x ∉ L := by
    intro hm
    have := List.nodup_append.mp hn
    exact this.2.2 x hm x (by simp) rfl
  rw [List.erase_append_right _ hx]
  simp

theorem exists_split_of_mem {x : Nat} {l : List Nat} (h : x ∈ l) : ∃ L R, l = L ++ x :: R :=
  List.append_of_mem h

end Arena
end XotModel
