/-
  C02_spelled, part 3: by induction over the spelled document, the builder run on its tokens adds
  exactly the encoded abstract nodes to the current frame.
-/
import XotModel.Lemmas.ParseQName
import XotModel.Lemmas.ParseSpellNodes

namespace XotModel

/-- Running `toks` from `b` adds `trees` to the current frame and leaves the tables `env'`. -/
def Sim (b : Builder) (toks : List Token) (env' : Env) (trees : List Tree) : Prop :=
  ∀ (rest : List Token) (lexErr : Option Nat),
    ∃ sp, b.run (toks ++ rest) lexErr = (b.emit env' trees sp).run rest lexErr

theorem encodeAttrs_leaves : ∀ (attrs : List (Str × Str)) (env : Env),
    ∀ k ∈ (encodeAttrs env attrs).2, ∃ n v, k = .node (.attribute n v) []
  | [], _, k, hk => by simp [encodeAttrs] at hk
  | (a, v) :: rest, env, k, hk => by
    simp only [encodeAttrs, List.mem_cons] at hk
    rcases hk with rfl | hk
    · exact ⟨_, _, rfl⟩
    · exact encodeAttrs_leaves rest _ k hk

theorem headOk_opened (b : Builder) (name : Str) (attrs : List (Str × Str)) (sp : SpanMap) :
    HeadOk (b.opened name attrs sp) := by
  intro s ks more heq
  simp only [Builder.opened] at heq
  have hm : Tree.node (.text s) ks ∈ (encodeAttrs (b.env.internName name Env.noNamespace).1 attrs).2 := by
    have : Tree.node (.text s) ks ∈ (encodeAttrs (b.env.internName name Env.noNamespace).1 attrs).2.reverse := by
      rw [heq]; simp
    simpa using this
  obtain ⟨n, v, h⟩ := encodeAttrs_leaves attrs _ _ hm
  cases h

theorem ready_opened {b : Builder} (hr : Ready b) (name : Str) (attrs : List (Str × Str)) (sp : SpanMap) :
    Ready (b.opened name attrs sp) := by
  have hext : EnvExt b.env (encodeAttrs (b.env.internName name Env.noNamespace).1 attrs).1 :=
    (internName_ext b.env name Env.noNamespace).trans (encodeAttrs_ext attrs _)
  refine ⟨rfl, ?_, ?_, ?_⟩
  · simp only [Builder.opened]; rw [hext.1]; exact hr.pfx0
  · simp only [Builder.opened]; rw [lookup_push_empty]; exact hr.look
  · obtain ⟨x, ns, hx1, hns⟩ := hr.xmlId
    exact ⟨x, ns, hext.names_get hx1, hns⟩

/-- The end tag `</name>` after the children were added. -/
theorem run_close (b : Builder) (hr : Ready b) (name : Str) (attrs : List (Str × Str)) (sp0 : SpanMap)
    (ek : Env) (tk : List Tree) (spk : SpanMap)
    (hext : EnvExt (encodeAttrs (b.env.internName name Env.noNamespace).1 attrs).1 ek)
    (cname : StrSpan) (cp : Nat) (closeSp : StrSpan) (hc : cname.text = name) (hcp : cp = 0)
    (rest : List Token) (lexErr : Option Nat) :
    ∃ sp, ((b.opened name attrs sp0).emit ek tk spk).run (.elementEnd (.close ⟨[], cp⟩ cname) closeSp :: rest) lexErr =
      (b.emit ek [.node (.element (b.env.internName name Env.noNamespace).2)
        ((encodeAttrs (b.env.internName name Env.noNamespace).1 attrs).2 ++ tk)] sp).run rest lexErr := by
  have hext0 : EnvExt (b.env.internName name Env.noNamespace).1 ek := (encodeAttrs_ext attrs _).trans hext
  have hall : EnvExt b.env ek := (internName_ext b.env name Env.noNamespace).trans hext0
  have hname : elementNameId ek ([] :: b.nsStack) [] cname.text (⟨[], cp⟩ : StrSpan).span =
      .ok (ek, (b.env.internName name Env.noNamespace).2) := by
    rw [elementNameId_plain cname.text _ (by rw [hall.1]; exact hr.pfx0) (by rw [lookup_push_empty]; exact hr.look), hc]
    exact congrArg Step.ok (internName_again name 0 hext0)
  refine ⟨spk.add ⟨(b.opened name attrs sp0).curPath, .elementEnd⟩ closeSp.span, ?_⟩
  have hbc : (⟨[], cp⟩ : StrSpan).bareColon = false := by rw [hcp]; rfl
  simp only [Builder.run, Builder.step, hbc, Bool.false_eq_true, if_false]
  have hstep : ((b.opened name attrs sp0).emit ek tk spk).closeElement ⟨[], cp⟩ cname closeSp =
      .ok (b.emit ek [.node (.element (b.env.internName name Env.noNamespace).2)
        ((encodeAttrs (b.env.internName name Env.noNamespace).1 attrs).2 ++ tk)]
        (spk.add ⟨(b.opened name attrs sp0).curPath, .elementEnd⟩ closeSp.span)) := by
    unfold Builder.closeElement
    simp only [Builder.emit, Builder.opened] at hname ⊢
    rw [hname]
    simp only [List.isEmpty_cons, Bool.false_eq_true, if_false, bne_self_eq_false, samePrefix, List.head?_cons,
      BEq.rfl, Bool.not_true, Bool.or_false]
    simp only [Builder.leave, Builder.toParent, Frame.close, Builder.curPath, List.reverse_append, List.reverse_reverse,
      List.reverse_cons, List.reverse_nil, List.nil_append, List.singleton_append, List.tail_cons, hr.eb]
  rw [hstep]

/-- The empty-element tag `/>` right after the start tag was read. -/
theorem closeImmediate_opened (b : Builder) (he : b.eb = none) (name : Str) (attrs : List (Str × Str)) (sp0 : SpanMap)
    (endSp : StrSpan) :
    (b.opened name attrs sp0).closeImmediate endSp =
      .ok (b.emit (encodeAttrs (b.env.internName name Env.noNamespace).1 attrs).1
        [.node (.element (b.env.internName name Env.noNamespace).2)
          (encodeAttrs (b.env.internName name Env.noNamespace).1 attrs).2]
        (sp0.add ⟨(b.opened name attrs sp0).curPath, .elementEnd⟩ endSp.span)) := by
  simp only [Builder.closeImmediate, Builder.opened, Value.isElement, if_true, Builder.leave, Builder.toParent,
    Frame.close, Builder.emit, Builder.curPath, List.reverse_reverse, List.reverse_cons, List.reverse_nil,
    List.nil_append, List.singleton_append, List.tail_cons, he]

/-- A single non-character-data node leaves a non-text last child. -/
theorem headOk_emit_single {b : Builder} {env' : Env} {t : Tree} {sp : SpanMap} (h : t.value.isText = false) :
    HeadOk (b.emit env' [t] sp) :=
  headOk_of_head (k := t) (more := b.cur.rkids) h (by simp [Builder.emit])

theorem noAdjChars_tail {k : SNode} {ks : List SNode} (h : noAdjChars (k :: ks) = true) : noAdjChars ks = true := by
  cases ks with
  | nil => rfl
  | cons k2 rest => simp only [noAdjChars, Bool.and_eq_true] at h; exact h.2

mutual
theorem sim_node : ∀ (sn : SNode), sn.Well → ∀ (b : Builder), Ready b → (sn.isChars = true → HeadOk b) →
    Sim b sn.tokens (PNode.encode.encodeList b.env sn.denote).1 (PNode.encode.encodeList b.env sn.denote).2 ∧
    (sn.isChars = false → ∀ sp, HeadOk (b.emit (PNode.encode.encodeList b.env sn.denote).1
      (PNode.encode.encodeList b.env sn.denote).2 sp))
  | .elem name pstart junk attrs openSp kids cname cpstart closeSp, hw, b, hr, _ => by
    obtain ⟨hwa, hcn, hadj, hwk, hps, hcps⟩ := hw
    simp only [SNode.denote, encodeList_single, PNode.encode]
    refine ⟨?_, fun _ sp => headOk_emit_single rfl⟩
    intro rest lexErr
    simp only [SNode.tokens, List.cons_append, List.append_assoc, List.nil_append]
    obtain ⟨b2, heb, henv, hcur, hpar, hns, hsi, hid, _, hop, hrun⟩ := run_start b hr name pstart junk attrs hwa hps
      (.elementEnd .open openSp :: (SNode.tokens.tokensList kids ++
        (.elementEnd (.close ⟨[], cpstart⟩ cname) closeSp :: rest))) lexErr
    rw [hrun]
    obtain ⟨sp0, hopen⟩ := openElement_plain b b2 hr name pstart attrs hwa heb henv hcur hpar hns hsi hid hop
    simp only [Builder.run, Builder.step, hopen]
    have hr1 := ready_opened hr name.text (attrs.map SAttr.denote) sp0
    obtain ⟨hsim, _⟩ := sim_list kids hwk hadj (b.opened name.text (attrs.map SAttr.denote) sp0) hr1
      (fun _ _ _ _ => headOk_opened b _ _ sp0)
    obtain ⟨spk, hk⟩ := hsim (.elementEnd (.close ⟨[], cpstart⟩ cname) closeSp :: rest) lexErr
    rw [hk]
    have hext := encodeList_ext (SNode.denote.denoteList kids) (b.opened name.text (attrs.map SAttr.denote) sp0).env
    obtain ⟨sp, hc⟩ := run_close b hr name.text (attrs.map SAttr.denote) sp0 _ _ spk hext cname cpstart closeSp hcn hcps rest lexErr
    exact ⟨sp, hc⟩
  | .empty name pstart junk attrs endSp, hw, b, hr, _ => by
    simp only [SNode.denote, encodeList_single, PNode.encode, PNode.encode.encodeList, List.append_nil]
    refine ⟨?_, fun _ sp => headOk_emit_single rfl⟩
    intro rest lexErr
    simp only [SNode.tokens, List.cons_append, List.append_assoc, List.nil_append]
    obtain ⟨b2, heb, henv, hcur, hpar, hns, hsi, hid, _, hop, hrun⟩ := run_start b hr name pstart junk attrs hw.1 hw.2
      (.elementEnd .empty endSp :: rest) lexErr
    rw [hrun]
    obtain ⟨sp0, hopen⟩ := openElement_plain b b2 hr name pstart attrs hw.1 heb henv hcur hpar hns hsi hid hop
    simp only [Builder.run, Builder.step, hopen, closeImmediate_opened b hr.eb]
    exact ⟨_, rfl⟩
  | .chars parts, hw, b, hr, hh => by
    refine ⟨?_, fun h => by simp [SNode.isChars] at h⟩
    intro rest lexErr
    obtain ⟨sp, h⟩ := run_chars b hr (hh rfl) parts hw rest lexErr
    refine ⟨sp, ?_⟩
    simp only [SNode.tokens, SNode.denote]
    rw [h]
    by_cases hv : partsValue parts = []
    · simp [hv, PNode.encode.encodeList]
    · simp [hv, PNode.encode.encodeList, PNode.encode]
  | .comment text junk, _, b, _, _ => by
    simp only [SNode.denote, encodeList_single, PNode.encode]
    refine ⟨?_, fun _ sp => headOk_emit_single rfl⟩
    intro rest lexErr
    exact run_comment b text junk rest lexErr
  | .pi target content junk, hw, b, _, _ => by
    simp only [SNode.denote, encodeList_single, PNode.encode]
    refine ⟨?_, fun _ sp => headOk_emit_single rfl⟩
    intro rest lexErr
    exact run_pi b target content junk rest lexErr hw
theorem sim_list : ∀ (sns : List SNode), SNode.Well.wellList sns → noAdjChars sns = true →
    ∀ (b : Builder), Ready b → (∀ sn rest, sns = sn :: rest → sn.isChars = true → HeadOk b) →
    Sim b (SNode.tokens.tokensList sns) (PNode.encode.encodeList b.env (SNode.denote.denoteList sns)).1
      (PNode.encode.encodeList b.env (SNode.denote.denoteList sns)).2 ∧ True
  | [], _, _, b, _, _ => by
    refine ⟨?_, trivial⟩
    intro rest lexErr
    refine ⟨b.spans, ?_⟩
    simp [SNode.tokens.tokensList, SNode.denote.denoteList, PNode.encode.encodeList, Builder.emit]
  | k :: ks, hw, hadj, b, hr, hstart => by
    refine ⟨?_, trivial⟩
    obtain ⟨hwk, hwks⟩ := hw
    obtain ⟨hsimk, hheadk⟩ := sim_node k hwk b hr (hstart k ks rfl)
    intro rest lexErr
    simp only [SNode.tokens.tokensList, SNode.denote.denoteList, List.append_assoc]
    obtain ⟨sp1, h1⟩ := hsimk (SNode.tokens.tokensList ks ++ rest) lexErr
    rw [h1]
    have hext1 := encodeList_ext k.denote b.env
    have hr1 : Ready (b.emit (PNode.encode.encodeList b.env k.denote).1 (PNode.encode.encodeList b.env k.denote).2 sp1) :=
      hr.emit hext1 _ _
    have hstart1 : ∀ sn rest', ks = sn :: rest' → sn.isChars = true →
        HeadOk (b.emit (PNode.encode.encodeList b.env k.denote).1 (PNode.encode.encodeList b.env k.denote).2 sp1) := by
      intro sn rest' hks hsn
      subst hks
      have hk : k.isChars = false := by
        simp only [noAdjChars, Bool.and_eq_true, Bool.not_eq_true', Bool.and_eq_false_iff] at hadj
        rcases hadj.1 with h | h
        · exact h
        · rw [hsn] at h; cases h
      exact hheadk hk sp1
    obtain ⟨hsims, _⟩ := sim_list ks hwks (noAdjChars_tail hadj) _ hr1 hstart1
    obtain ⟨sp2, h2⟩ := hsims rest lexErr
    refine ⟨sp2, ?_⟩
    rw [h2, emit_emit, encodeList_append]
    rfl
end

end XotModel
