/-
  Round trip: when does serialisation succeed?  `serNode` succeeds exactly when the serialiser's own
  `MissingPrefix` checks pass on every element (`okRec`, Lemmas/RepairOk.lean: the recursive form of
  `namesWritable`, Model/Scope.lean) — provided no processing-instruction target is in a namespace
  (the other error `render_output` can return; excluded by `nodeOK`).
-/
import XotModel.Lemmas.RoundTripEncode

namespace XotModel
open XotModel.Repair

variable {env : Env}

/-- No processing-instruction target has a namespace URI. -/
def piOK (env : Env) (v : Value) (_ : List Tree) : Bool :=
  match v with
  | .pi target _ => (env.namespaceStr (env.nsOfName target)).isEmpty
  | _ => true

theorem exceptIsOk_appendOk (a b : Except XotError (List Token)) :
    exceptIsOk (appendOk a b) = (exceptIsOk a && exceptIsOk b) := by
  cases a <;> cases b <;> rfl

theorem exceptIsOk_elementPrefix (s : FStack) (name : Nat) :
    exceptIsOk (s.elementPrefix env name) = elemOk (env.nsOfName name) s.top := by
  rw [← exceptIsOk_elementFullname]
  unfold FStack.elementFullname
  cases s.elementPrefix env name <;> rfl

theorem exceptIsOk_attributePrefix (s : FStack) (name : Nat) :
    exceptIsOk (s.attributePrefix env name) = attrOk (env.nsOfName name) s.top := by
  rw [← exceptIsOk_attributeFullname]
  unfold FStack.attributeFullname
  cases s.attributePrefix env name <;> rfl

theorem exceptIsOk_attrTokens (s : FStack) : ∀ (as : List (Nat × Str)),
    exceptIsOk (attrTokens env s as) = (as.map (·.1)).all (fun a => attrOk (env.nsOfName a) s.top)
  | [] => rfl
  | (name, v) :: rest => by
    have ih := exceptIsOk_attrTokens s rest
    have hp := exceptIsOk_attributePrefix (env := env) s name
    rw [attrTokens]
    cases h1 : s.attributePrefix env name with
    | error e =>
      rw [h1] at hp
      simp only [List.map_cons, List.all_cons, ← hp]
      rfl
    | ok p =>
      rw [h1] at hp
      simp only [List.map_cons, List.all_cons, ← hp, ← ih]
      cases attrTokens env s rest <;> rfl

mutual
theorem serNode_ok_iff (ugt : Bool) (inScope : List (Nat × Nat)) (n : Tree) (s : FStack)
    (hpi : n.allNodes (piOK env) = true) :
    exceptIsOk (serNode env ugt inScope false s n) = okRec env.nsOfName s.top n := by
  cases n with
  | node v ks =>
    rw [allNodes_node, Bool.and_eq_true, List.all_eq_true] at hpi
    have hk := serKids_ok_iff ugt inScope ks s hpi.2
    cases v with
    | document => simpa [serNode, okRec] using hk
    | «attribute» a b => simpa [serNode, okRec] using hk
    | «namespace» a b => simpa [serNode, okRec] using hk
    | text str =>
      rw [serNode, exceptIsOk_appendOk, hk]
      simp [okRec, exceptIsOk]
    | comment str =>
      rw [serNode, exceptIsOk_appendOk, hk]
      simp [okRec, exceptIsOk]
    | pi target data =>
      have h0 : (env.namespaceStr (env.nsOfName target)).isEmpty = true := hpi.1
      rw [serNode]
      simp only [h0, Bool.not_true, Bool.false_eq_true, if_false]
      rw [exceptIsOk_appendOk, hk]
      simp [okRec, exceptIsOk]
    | element name =>
      have hk' := serKids_ok_iff ugt inScope ks (s.push (Tree.node (.element name) ks).nsDecls) hpi.2
      have he := exceptIsOk_elementPrefix (env := env) (s.push (Tree.node (.element name) ks).nsDecls) name
      have ha := exceptIsOk_attrTokens (env := env) (s.push (Tree.node (.element name) ks).nsDecls)
        (Tree.node (.element name) ks).attrs
      simp only [okRec, elementOkAt, ← top_push, ← hk', ← he, ← ha]
      rw [serNode]
      simp only [hasDefaultNamespace_eq]
      by_cases hc : (env.nsOfName name == Env.noNamespace &&
          hasDefault (s.push (Tree.node (.element name) ks).nsDecls).top) = true
      · simp [hc, exceptIsOk]
      · have hc' : (env.nsOfName name == Env.noNamespace &&
            hasDefault (s.push (Tree.node (.element name) ks).nsDecls).top) = false := by
          simpa using hc
        simp only [hc', Bool.false_eq_true, if_false, Bool.not_false, Bool.true_and]
        cases h1 : (s.push (Tree.node (.element name) ks).nsDecls).elementPrefix env name with
        | error e => simp [exceptIsOk]
        | ok p =>
          cases h2 : attrTokens env (s.push (Tree.node (.element name) ks).nsDecls)
              (Tree.node (.element name) ks).attrs with
          | error e => simp [exceptIsOk]
          | ok ats =>
            cases h3 : serNode.serKids env ugt inScope (s.push (Tree.node (.element name) ks).nsDecls) ks with
            | error e => simp [exceptIsOk]
            | ok content => simp [exceptIsOk]

theorem serKids_ok_iff (ugt : Bool) (inScope : List (Nat × Nat)) (ks : List Tree) (s : FStack)
    (hpi : ∀ k ∈ ks, k.allNodes (piOK env) = true) :
    exceptIsOk (serNode.serKids env ugt inScope s ks) = okKids env.nsOfName s.top ks := by
  cases ks with
  | nil => simp [serNode.serKids, okKids, exceptIsOk]
  | cons k ks =>
    rw [serNode.serKids, exceptIsOk_appendOk, serNode_ok_iff ugt inScope k s (hpi k (by simp)),
      serKids_ok_iff ugt inScope ks s (fun k' hk' => hpi k' (by simp [hk']))]
    simp [okKids]
end

theorem nodeOK_piOK (he : EnvFacts env) (n : Tree) (h : n.allNodes (nodeOK env) = true) :
    n.allNodes (piOK env) = true := by
  have key : ∀ (m : Tree), m.allNodes (nodeOK env) = true →
      m.allNodes (fun v ks => (Tree.node v ks).allNodes (nodeOK env)) = true := by
    intro m
    induction m using Tree.rec (motive_2 := fun ks => ∀ k ∈ ks, k.allNodes (nodeOK env) = true →
        k.allNodes (fun v ks => (Tree.node v ks).allNodes (nodeOK env)) = true) with
    | node v ks ih =>
      intro hm
      rw [allNodes_node, Bool.and_eq_true, List.all_eq_true]
      exact ⟨hm, fun k hk => ih k hk (allNodes_kid hm hk)⟩
    | nil => rename_i hk _; cases hk
    | cons k ks ih1 ih2 =>
      rename_i k' hk' hk2
      rcases List.mem_cons.mp hk' with rfl | hk'
      · exact ih1 hk2
      · exact ih2 k' hk' hk2
  refine allNodes_mono ?_ n (key n h)
  intro v ks hv
  have hval := allNodes_value env hv
  cases v <;> try rfl
  rename_i target data
  obtain ⟨_, h2⟩ := valueOK_pi_facts hval
  simp only [piOK, h2, he.ns0]
  rfl

/-- For a representable fragment: `serTokensTop` succeeds iff `namesWritable` answers `true`. -/
theorem serTokensTop_ok_iff {t : Tree} (hr : RepresentableFragment env t = true) :
    exceptIsOk (serTokensTop env t) = true ↔ namesWritable env t [] = some true := by
  obtain ⟨henv, hdocv, hn, _⟩ := (representableFragment_iff env t).mp hr
  have he := envFacts_of_envOK henv
  cases t with
  | node v ks =>
    cases v <;> simp [Tree.value, Value.isDocument] at hdocv
    have hpi := nodeOK_piOK he _ hn
    rw [allNodes_node, Bool.and_eq_true, List.all_eq_true] at hpi
    rw [serTokensTop_document, serKids_ok_iff false _ ks _ hpi.2]
    simp [namesWritable, Tree.ancestorsOrSelf, Tree.at?, namesWritableChain_eq, okRec, FStack.new, FStack.top]

end XotModel
