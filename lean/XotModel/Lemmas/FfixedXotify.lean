/-
  `Element::xotify` builds the abstract element: `newElementWithMaps`, the `append` loop, and the
  mutual induction over `FContent` / `List FContent`.
-/
import XotModel.Lemmas.FfixedLoops

namespace XotModel
open HTree

theorem Good.add_roots {f : Forest} (hg : Good f) (ts : List HTree) (n' : Nat)
    (hnd : (handlesList ts).Nodup) (hb : ∀ h ∈ handlesList ts, f.next ≤ h ∧ h < n') (hn : f.next ≤ n') :
    Good { f with roots := f.roots ++ ts, next := n' } := by
  apply Good.of_nodup_below
  · show (handlesList (f.roots ++ ts)).Nodup
    rw [handlesList_append_ff]
    refine List.nodup_append.2 ⟨hg.nodup, hnd, ?_⟩
    intro a ha b hb' e
    have := hg.below a ha
    have := (hb b hb').1
    omega
  · intro a ha
    show a < n'
    change a ∈ handlesList (f.roots ++ ts) at ha
    rw [handlesList_append_ff, List.mem_append] at ha
    rcases ha with ha | ha
    · have := hg.below a ha; omega
    · exact (hb a ha).2

/-! ### Text adjacency on built trees -/

theorem noAdjacentText_last : ∀ (k1 : List HTree) (k t : HTree) (r : List HTree),
    noAdjacentText (k1 ++ k :: t :: r) = true → ¬ (k.value.isText = true ∧ t.value.isText = true)
  | [], k, t, r => by
    intro h
    simp only [List.nil_append, noAdjacentText, Bool.and_eq_true, Bool.not_eq_true'] at h
    intro ⟨h1, h2⟩
    simp [h1, h2] at h
  | [a], k, t, r => by
    intro h
    simp only [List.cons_append, List.nil_append, noAdjacentText, Bool.and_eq_true] at h
    exact noAdjacentText_last [] k t r (by simpa [noAdjacentText] using h.2)
  | a :: b :: k1, k, t, r => by
    intro h
    simp only [List.cons_append, noAdjacentText, Bool.and_eq_true] at h
    exact noAdjacentText_last (b :: k1) k t r h.2

theorem noAdjacentText_append_nontext : ∀ (K ts : List HTree), (∀ k ∈ K, k.value.isText = false) →
    noAdjacentText ts = true → noAdjacentText (K ++ ts) = true
  | [], ts, _, h => h
  | [a], ts, hK, h => by
    cases ts with
    | nil => rfl
    | cons t ts =>
      simp only [List.cons_append, List.nil_append, noAdjacentText, Bool.and_eq_true]
      exact ⟨by simp [hK a (by simp)], h⟩
  | a :: b :: K, ts, hK, h => by
    simp only [List.cons_append, noAdjacentText, Bool.and_eq_true]
    refine ⟨by simp [hK a (by simp)], ?_⟩
    exact noAdjacentText_append_nontext (b :: K) ts (fun k hk => hK k (List.mem_cons_of_mem _ hk)) h

theorem ffx_erase_value (t : HTree) : t.erase.value = t.value := by
  cases t; rfl

theorem treeOfContent_isText (c : FContent) : (treeOfContent c).value.isText = c.isText := by
  cases c <;> simp [treeOfContent, Tree.value, Value.isText, FContent.isText]

theorem treeOfContent_normal (c : FContent) :
    (treeOfContent c).value.isNormal = true ∧ (treeOfContent c).value.isDocument = false := by
  cases c <;> simp [treeOfContent, Tree.value, Value.isNormal, Value.category, Value.isDocument]

theorem built_normal : ∀ (ts : List HTree) (cs : List FContent), eraseList ts = treeOfList cs →
    ∀ t ∈ ts, t.value.isNormal = true ∧ t.value.isDocument = false
  | [], _, _ => by intro t ht; cases ht
  | t :: ts, [], h => by simp [eraseList, treeOfList] at h
  | t :: ts, c :: cs, h => by
    simp only [eraseList, treeOfList, List.cons.injEq] at h
    intro x hx
    rw [List.mem_cons] at hx
    rcases hx with rfl | hx
    · rw [← ffx_erase_value, h.1]; exact treeOfContent_normal c
    · exact built_normal ts cs h.2 x hx

theorem built_noAdjacentText : ∀ (ts : List HTree) (cs : List FContent), eraseList ts = treeOfList cs →
    noAdjacentFText cs = true → noAdjacentText ts = true
  | [], _, _, _ => rfl
  | [t], _, _, _ => rfl
  | t :: u :: ts, [], h, _ => by simp [eraseList, treeOfList] at h
  | t :: u :: ts, [c], h, _ => by simp [eraseList, treeOfList] at h
  | t :: u :: ts, c :: d :: cs, h, hn => by
    simp only [eraseList, treeOfList, List.cons.injEq] at h
    simp only [noAdjacentFText, Bool.and_eq_true] at hn
    simp only [noAdjacentText, Bool.and_eq_true]
    refine ⟨?_, built_noAdjacentText (u :: ts) (d :: cs) (by simp [eraseList, treeOfList, h.2.1, h.2.2]) hn.2⟩
    rw [← ffx_erase_value t, ← ffx_erase_value u, h.1, h.2.1, treeOfContent_isText, treeOfContent_isText]
    exact hn.1

namespace Forest

/-- The head of an element: its namespace and attribute leaves. -/
def headKids (n : Nat) (ps : List (Nat × Nat)) (as : List (Nat × Str)) : List HTree :=
  leavesFrom (n + 1) (ps.map nsVal ++ as.map attrVal)

theorem headKids_nontext {n : Nat} {ps : List (Nat × Nat)} {as : List (Nat × Str)} :
    ∀ k ∈ headKids n ps as, k.value.isText = false ∧ k.value.isNormal = false := by
  intro k hk
  have := (mem_leavesFrom hk).1
  rw [List.mem_append, List.mem_map, List.mem_map] at this
  rcases this with ⟨p, _, e⟩ | ⟨a, _, e⟩ <;> rw [← e] <;>
    simp [nsVal, attrVal, Value.isText, Value.isNormal, Value.category]

theorem eraseList_headKids (n : Nat) (ps : List (Nat × Nat)) (as : List (Nat × Str)) :
    eraseList (headKids n ps as) = ps.map nsTree ++ as.map attrTree := by
  unfold headKids
  rw [eraseList_leavesFrom, List.map_append, List.map_map, List.map_map]
  rfl

theorem mem_handlesList_headKids {n h : Nat} {ps : List (Nat × Nat)} {as : List (Nat × Str)} :
    h ∈ handlesList (headKids n ps as) ↔ n + 1 ≤ h ∧ h < n + 1 + ps.length + as.length := by
  unfold headKids
  rw [mem_handlesList_leavesFrom]
  simp only [List.length_append, List.length_map]
  omega

/-- `new_element` + the two map loops. -/
theorem newElementWithMaps_spec (f : Forest) (hg : Good f) (nm : Nat) (ps : List (Nat × Nat))
    (as : List (Nat × Str)) (hps : (ps.map (·.1)).Nodup) (has : (as.map (·.1)).Nodup) :
    f.newElementWithMaps nm ps as =
      some ({ f with roots := f.roots ++ [HTree.node f.next (.element nm) (headKids f.next ps as)],
                     next := f.next + 1 + ps.length + as.length }, f.next) := by
  unfold newElementWithMaps newElement
  have hg1 := hg.newNode (.element nm)
  simp only [newNode] at hg1 ⊢
  rw [insertPrefixes_spec (A := f.roots) (el := f.next) (nm := nm) ps _ [] rfl hg1
    (by intro c hc; cases hc) (by simpa using hps)]
  simp only [List.nil_append]
  have hns : ∀ c ∈ leavesFrom (f.next + 1) (ps.map nsVal), c.value.category = .namespace := by
    intro c hc
    have := (mem_leavesFrom hc).1
    rw [List.mem_map] at this
    obtain ⟨p, _, e⟩ := this
    rw [← e]; rfl
  have hg2 : Good { f with roots := f.roots ++ [HTree.node f.next (.element nm) (leavesFrom (f.next + 1) (ps.map nsVal))],
                           next := f.next + 1 + ps.length } := by
    have := hg.add_roots [HTree.node f.next (.element nm) (leavesFrom (f.next + 1) (ps.map nsVal))]
      (f.next + 1 + ps.length)
      (by
        simp only [handlesList, handles, List.append_nil, List.nodup_cons]
        refine ⟨?_, nodup_handlesList_leavesFrom _ _⟩
        rw [mem_handlesList_leavesFrom]; omega)
      (by
        intro h hh
        simp only [handlesList, handles, List.append_nil, List.mem_cons] at hh
        rcases hh with rfl | hh
        · omega
        · rw [mem_handlesList_leavesFrom, List.length_map] at hh; omega)
      (by omega)
    exact this
  rw [insertAttributes_spec (A := f.roots) (el := f.next) (nm := nm) hns as _ [] (by simp) hg2
    (by intro c hc; cases hc) (by simpa using has)]
  simp only [List.nil_append, headKids, leavesFrom_append, List.length_map]

theorem appendOk_eq {f f' : Forest} {p c : Nat} (h : f.append p c = (f', .ok)) :
    f.appendOk p c = some f' := by
  unfold appendOk; rw [h]

/-- The `append` loop: the roots `ts` right after the root `p` become its last children. -/
theorem appendAllOk_after {A B : List HTree} {p : Nat} {v : Value}
    (hpv : v.isElement = true ∨ v.isDocument = true) : ∀ (ts : List HTree) (f : Forest)
    (ks : List HTree), f.roots = A ++ HTree.node p v ks :: (ts ++ B) → Good f →
    (∀ t ∈ ts, t.value.isNormal = true ∧ t.value.isDocument = false) →
    (f.consolidation = true → noAdjacentText (ks ++ ts) = true) →
    f.appendAllOk p (ts.map HTree.handle) = some { f with roots := A ++ HTree.node p v (ks ++ ts) :: B }
  | [], f, ks, hroots, _, _, _ => by
    simp only [List.map_nil, appendAllOk, List.append_nil]
    simp only [List.nil_append] at hroots
    rw [← hroots]
  | t :: ts, f, ks, hroots, hg, hnorm, htext => by
    have hR : RootAt f (A ++ [HTree.node p v ks]) t (ts ++ B) := ⟨by simp [hroots], hg.nodup⟩
    have hXY : (A ++ [HTree.node p v ks]) ++ (ts ++ B) = A ++ HTree.node p v ks :: (ts ++ B) := by simp
    have happ := hR.append_root hXY hpv (hnorm t (by simp)).1 (hnorm t (by simp)).2 (by
      intro hc ht k hk
      obtain ⟨k1, rfl⟩ := List.getLast?_eq_some_iff.1 hk
      have := noAdjacentText_last k1 k t ts (by simpa using htext hc)
      cases hkt : k.value.isText with
      | false => rfl
      | true => exact absurd ⟨hkt, ht⟩ this)
    simp only [List.map_cons, appendAllOk]
    rw [appendOk_eq happ]
    simp only
    have hg' : Good { f with roots := A ++ HTree.node p v (ks ++ [t]) :: (ts ++ B) } := by
      refine Good.of_count_eq (f' := { f with roots := A ++ HTree.node p v (ks ++ [t]) :: (ts ++ B) })
        hg (Nat.le_refl f.next) ?_
      intro a
      show (handlesList (A ++ HTree.node p v (ks ++ [t]) :: (ts ++ B))).count a = _
      rw [count_move_last hXY a, hR.roots]
    rw [appendAllOk_after hpv ts _ (ks ++ [t]) rfl hg'
      (fun x hx => hnorm x (List.mem_cons_of_mem _ hx))
      (by intro hc; simpa using htext hc)]
    simp

end Forest
end XotModel
