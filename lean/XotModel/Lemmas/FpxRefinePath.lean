/-
  FpxRefine, part 5: replacing the subtree of the node `nd` of a tree with distinct handles
  (`mapAt nd (fun _ => S')`):
  * erases to `scopeModifyAt` at the path of `nd` (`erase_graft`);
  * the path of every handle that is not strictly below `nd` — neither before nor after — is unchanged
    (`pathOf_graft`);
  * in the forest: the root tree of such a handle is the replaced root (`fpxr_find_graft`).
-/
import XotModel.Lemmas.FpxRefineApply

namespace XotModel
open HTree Repair

namespace HTree

theorem pathOf_none_of_not_mem {x : Nat} {r : HTree} (h : x ∉ handles r) : pathOf x r = none := by
  cases hp : pathOf x r with
  | none => rfl
  | some q => exact absurd (ftrav_pathOf_mem hp) h

theorem not_mem_of_pathOf_none {x : Nat} {r : HTree} (h : pathOf x r = none) : x ∉ handles r := by
  intro hm
  have := ftrav_pathOf_isSome x r hm
  rw [h] at this; cases this

theorem pathOfList_none_of_not_mem {x : Nat} : ∀ (ks : List HTree) (j : Nat), x ∉ handlesList ks →
    pathOfList x j ks = none
  | [], _, _ => rfl
  | k :: ks, j, h => by
    simp only [fi_handlesList_cons, List.mem_append, not_or] at h
    simp only [pathOfList, pathOf_none_of_not_mem h.1, pathOfList_none_of_not_mem ks (j + 1) h.2]

/-! ### Erasing a replaced subtree -/

mutual
  theorem erase_graft (nd : Nat) (S' : HTree) : ∀ (r : HTree) (top : Path), (handles r).Nodup →
      pathOf nd r = some top →
      erase (mapAt nd (fun _ => S') r) = scopeModifyAt (fun _ => erase S') (erase r) top
    | .node h v ks, top, hnd, hp => by
      simp only [pathOf] at hp
      simp only [fi_handles_node, List.nodup_cons] at hnd
      by_cases hh : h = nd
      · rw [if_pos hh] at hp
        cases hp
        unfold mapAt
        rw [if_pos hh]
        rfl
      · rw [if_neg hh] at hp
        obtain ⟨i, p, hq, hl⟩ := eraseList_graft nd S' ks 0 top hnd.2 hp
        subst hq
        unfold mapAt
        rw [if_neg hh]
        simp only [erase, hl, Nat.zero_add, scopeModifyAt]
  theorem eraseList_graft (nd : Nat) (S' : HTree) : ∀ (ks : List HTree) (j : Nat) (q : Path),
      (handlesList ks).Nodup → pathOfList nd j ks = some q →
      ∃ i p, q = (j + i) :: p ∧ eraseList (mapAtList nd (fun _ => S') ks) =
        (eraseList ks).modify i (fun k => scopeModifyAt (fun _ => erase S') k p)
    | [], _, _, _, hp => by simp [pathOfList] at hp
    | k :: ks, j, q, hnd, hp => by
      simp only [fi_handlesList_cons, List.nodup_append] at hnd
      simp only [pathOfList] at hp
      cases hk : pathOf nd k with
      | some p =>
        rw [hk] at hp
        simp only [Option.some.injEq] at hp
        subst hp
        have hin : nd ∈ handles k := ftrav_pathOf_mem hk
        have hout : nd ∉ handlesList ks := fun x => hnd.2.2 nd hin nd x rfl
        refine ⟨0, p, rfl, ?_⟩
        simp only [mapAtList, eraseList, mapAtList_of_not_mem nd _ ks hout, erase_graft nd S' k p hnd.1 hk,
          List.modify_zero_cons]
      | none =>
        rw [hk] at hp
        obtain ⟨i, p, hq, hl⟩ := eraseList_graft nd S' ks (j + 1) q hnd.2.1 hp
        refine ⟨i + 1, p, by rw [hq]; congr 1; omega, ?_⟩
        simp only [mapAtList, eraseList, mapAt_of_not_mem nd _ k (not_mem_of_pathOf_none hk), hl,
          List.modify_succ_cons]
end

/-! ### Paths outside the replaced subtree -/

mutual
  theorem pathOf_graft (nd x : Nat) (S' : HTree) (hS' : S'.handle = nd) (hx' : x ∉ handlesList S'.kids) :
      ∀ r : HTree, (∀ (q : Path) (S0 : HTree), r.at? q = some S0 → S0.handle = nd → x ∉ handlesList S0.kids) →
      pathOf x (mapAt nd (fun _ => S') r) = pathOf x r
    | .node h v ks, hx => by
      by_cases hh : h = nd
      · have e1 : mapAt nd (fun _ => S') (.node h v ks) = S' := by unfold mapAt; rw [if_pos hh]
        rw [e1]
        have h0 : x ∉ handlesList ks := hx [] (.node h v ks) rfl hh
        cases S' with
        | node h' v' ks' =>
          simp only [HTree.handle] at hS'
          simp only [HTree.kids] at hx'
          simp only [pathOf, hS', hh, pathOfList_none_of_not_mem ks' 0 hx', pathOfList_none_of_not_mem ks 0 h0]
      · have e1 : mapAt nd (fun _ => S') (.node h v ks) = .node h v (mapAtList nd (fun _ => S') ks) := by
          unfold mapAt; rw [if_neg hh]
        rw [e1]
        simp only [pathOf]
        rw [pathOfList_graft nd x S' hS' hx' ks 0 (fun i k hik q S0 hq hS0 =>
          hx (i :: q) S0 (by simp only [HTree.at?, hik]; exact hq) hS0)]
  theorem pathOfList_graft (nd x : Nat) (S' : HTree) (hS' : S'.handle = nd) (hx' : x ∉ handlesList S'.kids) :
      ∀ (ks : List HTree) (j : Nat),
      (∀ (i : Nat) (k : HTree), ks[i]? = some k → ∀ (q : Path) (S0 : HTree), k.at? q = some S0 → S0.handle = nd →
        x ∉ handlesList S0.kids) →
      pathOfList x j (mapAtList nd (fun _ => S') ks) = pathOfList x j ks
    | [], _, _ => rfl
    | k :: ks, j, hx => by
      simp only [mapAtList, pathOfList]
      rw [pathOf_graft nd x S' hS' hx' k (hx 0 k rfl),
        pathOfList_graft nd x S' hS' hx' ks (j + 1) (fun i k' hik => hx (i + 1) k' (by simpa using hik))]
end

/-- The same, from distinct handles and the subtree found at the path of `nd`. -/
theorem pathOf_graft' {r S S' : HTree} {nd x : Nat} {top : Path} (hnd : (handles r).Nodup)
    (hS : r.at? top = some S) (hSh : S.handle = nd) (hS' : S'.handle = nd)
    (hx : x ∉ handlesList S.kids) (hx' : x ∉ handlesList S'.kids) :
    pathOf x (mapAt nd (fun _ => S') r) = pathOf x r := by
  apply pathOf_graft nd x S' hS' hx' r
  intro q S0 hq hS0
  have : q = top := at?_handle_inj hnd hq hS (by rw [hS0, hSh])
  subst this
  rw [hq] at hS
  cases hS
  exact hx

/-- The replaced subtree is found at the unchanged path. -/
theorem at?_graft (nd : Nat) (S' : HTree) : ∀ (top : Path) (r : HTree), (handles r).Nodup →
    pathOf nd r = some top → (mapAt nd (fun _ => S') r).at? top = some S' := by
  intro top r hnd hp
  -- via the erased statement is not enough (handles); direct recursion on the path
  induction top generalizing r with
  | nil =>
    cases r with
    | node h v ks =>
      simp only [pathOf] at hp
      by_cases hh : h = nd
      · unfold mapAt; rw [if_pos hh]; rfl
      · rw [if_neg hh] at hp
        obtain ⟨i, p, k, hq, _⟩ := ftrav_pathOfList_at? nd ks 0 [] hp
        cases hq
  | cons i p ih =>
    cases r with
    | node h v ks =>
      simp only [pathOf] at hp
      simp only [fi_handles_node, List.nodup_cons] at hnd
      by_cases hh : h = nd
      · rw [if_pos hh] at hp; cases hp
      · rw [if_neg hh] at hp
        obtain ⟨S0, hS0, hS0h⟩ := ftrav_pathOf_at? nd (.node h v ks) (i :: p) (by simp only [pathOf, if_neg hh]; exact hp)
        simp only [HTree.at?] at hS0
        cases hk : ks[i]? with
        | none => rw [hk] at hS0; cases hS0
        | some k =>
          rw [hk] at hS0
          have hndk : (handles k).Nodup := fpx_nodup_getElem? ks i k hk hnd.2
          have hpk : pathOf nd k = some p := by
            have := ftrav_pathOf_of_at? p k S0 hndk hS0
            rwa [hS0h] at this
          unfold mapAt
          rw [if_neg hh]
          simp only [HTree.at?, mapAtList_eq_map, List.getElem?_map, hk, Option.map_some]
          exact ih k hndk hpk

end HTree

namespace Forest

/-- With distinct handles a handle lies in one root only. -/
theorem fpxr_root_unique : ∀ {L : List HTree}, (handlesList L).Nodup → ∀ {y r : HTree}, y ∈ L → r ∈ L →
    ∀ {h : Nat}, h ∈ handles y → h ∈ handles r → y = r
  | [], _, _, _, hy, _, _, _, _ => by cases hy
  | a :: L, hnd, y, r, hy, hr, h, h1, h2 => by
    simp only [fi_handlesList_cons, List.nodup_append] at hnd
    rcases List.mem_cons.mp hy with rfl | hy' <;> rcases List.mem_cons.mp hr with rfl | hr'
    · rfl
    · exact absurd rfl (hnd.2.2 h h1 h (ftrav_mem_handlesList L r h hr' h2))
    · exact absurd rfl (hnd.2.2 h h2 h (ftrav_mem_handlesList L y h hy' h1))
    · exact fpxr_root_unique hnd.2.1 hy' hr' h1 h2

theorem fpxr_find_map (P : HTree → Bool) (g : HTree → HTree) (r : HTree) : ∀ L : List HTree,
    (∀ y ∈ L, y ≠ r → g y = y ∧ P y = false) → r ∈ L → P (g r) = true → (L.map g).find? P = some (g r)
  | [], _, hr, _ => by cases hr
  | a :: L, h, hr, hp => by
    by_cases ha : a = r
    · subst ha; simp [hp]
    · obtain ⟨h1, h2⟩ := h a (by simp) ha
      have hr' : r ∈ L := by
        rcases List.mem_cons.mp hr with e | e
        · exact absurd e.symm ha
        · exact e
      simp only [List.map_cons, List.find?, h1, h2]
      exact fpxr_find_map P g r L (fun y hy => h y (by simp [hy])) hr' hp

theorem fpxr_rootOf_mem {f : Forest} {x : Nat} {r : HTree} (h : f.rootOf? x = some r) :
    r ∈ f.roots ∧ x ∈ handles r := by
  unfold rootOf? at h
  refine ⟨List.mem_of_find?_eq_some h, ?_⟩
  have := List.find?_some h
  cases hp : pathOf x r with
  | none => rw [hp] at this; cases this
  | some q => exact ftrav_pathOf_mem hp

theorem fpxr_rootOf_of_mem {f : Forest} (hnd : f.allHandles.Nodup) {x : Nat} {r : HTree} (hr : r ∈ f.roots)
    (hx : x ∈ handles r) : f.rootOf? x = some r := by
  have := fpxr_find_map (fun y => (pathOf x y).isSome) id r f.roots
    (fun y hy hne => ⟨rfl, by
      cases hp : pathOf x y with
      | none => rfl
      | some q => exact absurd (fpxr_root_unique hnd hy hr (ftrav_pathOf_mem hp) hx) hne⟩)
    hr (ftrav_pathOf_isSome x r hx)
  simpa [rootOf?] using this

/-- After replacing the subtree of `nd` (which lies in the root `r`), the root tree of a handle `x` of
    the new root is the new root. -/
theorem fpxr_find_graft {f : Forest} (hnd : f.allHandles.Nodup) {nd x : Nat} {r : HTree} (S' : HTree)
    (hr : r ∈ f.roots) (hn : nd ∈ handles r) (hxr : x ∈ handles r)
    (hx : x ∈ handles (mapAt nd (fun _ => S') r)) :
    (mapAtList nd (fun _ => S') f.roots).find? (fun y => (pathOf x y).isSome) =
      some (mapAt nd (fun _ => S') r) := by
  rw [mapAtList_eq_map]
  apply fpxr_find_map _ _ r f.roots _ hr (ftrav_pathOf_isSome x _ hx)
  intro y hy hne
  refine ⟨mapAt_of_not_mem nd _ y (fun hm => hne (fpxr_root_unique hnd hy hr hm hn)), ?_⟩
  cases hp : pathOf x y with
  | none => rfl
  | some q => exact absurd (fpxr_root_unique hnd hy hr (ftrav_pathOf_mem hp) hxr) hne

/-- The other roots are untouched. -/
theorem fpxr_roots_graft {f : Forest} (hnd : f.allHandles.Nodup) {nd : Nat} {r : HTree} (S' : HTree)
    (hr : r ∈ f.roots) (hn : nd ∈ handles r) :
    mapAtList nd (fun _ => S') f.roots =
      f.roots.map (fun y => if (pathOf nd y).isSome then mapAt nd (fun _ => S') r else y) := by
  rw [mapAtList_eq_map]
  apply List.map_congr_left
  intro y hy
  cases hp : pathOf nd y with
  | none => simp [mapAt_of_not_mem nd _ y (not_mem_of_pathOf_none hp)]
  | some q =>
    have : y = r := fpxr_root_unique hnd hy hr (ftrav_pathOf_mem hp) hn
    subst this
    simp

end Forest
end XotModel
