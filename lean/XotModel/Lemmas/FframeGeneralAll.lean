/-
  FframeGeneralAll — `C05_frame_general`: constructor by constructor over `XCall.framed`.  append / prepend /
  insert_after / insert_before / remove / detach through their pair readings (`append_pair` …) and
  `getFrame_specMoveP` / `getFrame_specRemoveP` (Lemmas/FframeGeneralMove.lean); replace, element_unwrap,
  element_wrap, clone_node, clone_with_prefixes, map insert / remove, text_content_mut().set() through
  FframeGeneralReplace / Unwrap / More / Cwp; the setters, node creation, `set_text_consolidation` through
  `frame_general_framed` (Lemmas/FframeGeneral.lean).  The parent from the child list of the parent.
-/
import XotModel.Lemmas.FframeGeneralMove
import XotModel.Lemmas.FframeGeneralMore
import XotModel.Lemmas.FframeGeneralUnwrap
import XotModel.Lemmas.FframeGeneralReplace
import XotModel.Lemmas.FframeGeneralCwp

namespace XotModel
open HTree Spec PairAll

/-! ### What `h ∉ siteW …` says -/

theorem ne_of_not_mem_siteW {f : Forest} {z q : Nat} (h : z ∉ f.siteW (some q)) : z ≠ q :=
  fun e => h (by rw [e]; exact List.mem_cons_self ..)

theorem ne_parent_of_not_mem_siteW {f : Forest} {z : Nat} {p : Option Nat} (h : z ∉ f.siteW p) : some z ≠ p := by
  intro e
  apply h
  rw [← e]
  exact List.mem_cons_self ..

theorem not_mem_handles_of_subtree {f : Forest} {z n : Nat} {t : HTree} (hg : f.get? n = some t)
    (h : z ∉ f.subtreeHandles n) : z ∉ handles t := by
  unfold Forest.subtreeHandles at h
  rw [hg] at h
  exact h

/-! ### The six calls -/

theorem getFrame_remove {f : Forest} {n : Nat} {t : HTree} (inv : f.Inv) (hg : f.get? n = some t) {z : Nat}
    (hw : z ∉ f.siteW (f.parent? n)) (h3 : z ∉ handles t) : GetFrame f (f.remove n).1 z := by
  rw [remove_pair inv (Forest.isLive_of_get hg)]
  exact getFrame_specRemoveP inv hg (ne_parent_of_not_mem_siteW hw) (textFree_of_not_mem hw) h3

theorem getFrame_insertLast (Z : Forest) (t : HTree) (z : Nat) : GetFrame Z (Z.editAt none (insertLast t)) z := by
  intro u hu
  refine ⟨u, ?_, rfl, rfl⟩
  show findList? z (Z.roots ++ [t]) = some u
  rw [findList?_append]
  have : findList? z Z.roots = some u := hu
  rw [this]; rfl

theorem getFrame_detach {f : Forest} {n : Nat} {t : HTree} (inv : f.Inv) (hg : f.get? n = some t) {z : Nat}
    (hw : z ∉ f.siteW (f.parent? n)) (h3 : z ∉ handles t) : GetFrame f (f.detach n).1 z := by
  rw [detach_pair inv (Forest.isLive_of_get hg), specDetachP_eq inv.nodup hg]
  exact (getFrame_specRemoveP inv hg (ne_parent_of_not_mem_siteW hw) (textFree_of_not_mem hw) h3).trans
    (getFrame_insertLast _ t z)

theorem getFrame_append {f : Forest} {p c : Nat} {t : HTree} (inv : f.Inv)
    (hok : (f.append p c).2 = .ok) (hgc : f.get? c = some t) {z : Nat}
    (hwo : z ∉ f.siteW (f.parent? c)) (hwp : z ∉ f.siteW (some p)) (h3 : z ∉ handles t) :
    GetFrame f (f.append p c).1 z := by
  rw [append_pair inv hok]
  have nd := inv.nodup
  have hsc : f.structureCheck (some p) c = true := by
    cases h : f.structureCheck (some p) c with
    | true => rfl
    | false => rw [Forest.append_unfold] at hok; simp [h] at hok
  obtain ⟨vp, Lp, t', hgp, hgc', hpt, hnorm, hndoc, hvp⟩ := Forest.structureCheck_unpack nd hsc
  rw [hgc] at hgc'
  have := Option.some.inj hgc'
  subst this
  have hvq : vp.isText = false := by
    cases hvp with
    | inl h => cases vp <;> simp_all [Value.isElement, Value.isText]
    | inr h => cases vp <;> simp_all [Value.isDocument, Value.isText]
  exact getFrame_specMoveP inv hgc ⟨nd, hgp⟩ hpt hvq (by simp [Dest.site, Forest.isLive_of_get hgp])
    (ne_of_not_mem_siteW hwp) (ne_parent_of_not_mem_siteW hwo) h3 (textFree_of_not_mem hwp) (textFree_of_not_mem hwo)

theorem getFrame_prepend {f : Forest} {p c : Nat} {t : HTree} (inv : f.Inv)
    (hok : (f.prepend p c).2 = .ok) (hgc : f.get? c = some t) {z : Nat}
    (hwo : z ∉ f.siteW (f.parent? c)) (hwp : z ∉ f.siteW (some p)) (h3 : z ∉ handles t) :
    GetFrame f (f.prepend p c).1 z := by
  rw [prepend_pair inv hok]
  have nd := inv.nodup
  have hsc : f.structureCheck (some p) c = true := by
    cases h : f.structureCheck (some p) c with
    | true => rfl
    | false => rw [prepend_unfold] at hok; simp [h] at hok
  obtain ⟨vp, Lp, t', hgp, hgc', hpt, hnorm, hndoc, hvp⟩ := Forest.structureCheck_unpack nd hsc
  rw [hgc] at hgc'
  have := Option.some.inj hgc'
  subst this
  have hvq : vp.isText = false := by
    cases hvp with
    | inl h => cases vp <;> simp_all [Value.isElement, Value.isText]
    | inr h => cases vp <;> simp_all [Value.isDocument, Value.isText]
  exact getFrame_specMoveP inv hgc ⟨nd, hgp⟩ hpt hvq (by simp [Dest.site, Forest.isLive_of_get hgp])
    (ne_of_not_mem_siteW hwp) (ne_parent_of_not_mem_siteW hwo) h3 (textFree_of_not_mem hwp) (textFree_of_not_mem hwo)

theorem getFrame_insertAfter {f : Forest} {r c : Nat} {t : HTree} (inv : f.Inv)
    (hok : (f.insertAfter r c).2 = .ok) (hgc : f.get? c = some t) {z : Nat}
    (hwo : z ∉ f.siteW (f.parent? c)) (hwp : z ∉ f.siteW (f.parent? r)) (h3 : z ∉ handles t) :
    GetFrame f (f.insertAfter r c).1 z := by
  rw [insertAfter_pair inv hok]
  have nd := inv.nodup
  have hsc : f.structureCheck (f.parent? r) c = true := by
    cases h : f.structureCheck (f.parent? r) c with
    | true => rfl
    | false => rw [insertAfter_unfold] at hok; simp [h] at hok
  have hsr : f.siblingReferenceCheck r c = true := by
    cases h : f.siblingReferenceCheck r c with
    | true => rfl
    | false => rw [insertAfter_unfold] at hok; simp [hsc, h] at hok
  obtain ⟨q, vq, A, kr, B, t', sq, ekr, hkrn, hrc, hgc', hqt, hnorm, hndoc, hvq⟩ := sibling_checks_unpack nd hsc hsr
  subst ekr
  rw [hgc] at hgc'
  have := Option.some.inj hgc'
  subst this
  have hq : f.parent? kr.handle = some q := Forest.parent?_of_ctx sq.ctx
  rw [hq] at hwp
  exact getFrame_specMoveP inv hgc sq hqt hvq (by simp only [Dest.site]; exact hq)
    (ne_of_not_mem_siteW hwp) (ne_parent_of_not_mem_siteW hwo) h3 (textFree_of_not_mem hwp) (textFree_of_not_mem hwo)

theorem getFrame_insertBefore {f : Forest} {r c : Nat} {t : HTree} (inv : f.Inv)
    (hok : (f.insertBefore r c).2 = .ok) (hgc : f.get? c = some t) {z : Nat}
    (hwo : z ∉ f.siteW (f.parent? c)) (hwp : z ∉ f.siteW (f.parent? r)) (h3 : z ∉ handles t) :
    GetFrame f (f.insertBefore r c).1 z := by
  rw [insertBefore_pair inv hok]
  have nd := inv.nodup
  have hsc : f.structureCheck (f.parent? r) c = true := by
    cases h : f.structureCheck (f.parent? r) c with
    | true => rfl
    | false => rw [insertBefore_unfold] at hok; simp [h] at hok
  have hsr : f.siblingReferenceCheck r c = true := by
    cases h : f.siblingReferenceCheck r c with
    | true => rfl
    | false => rw [insertBefore_unfold] at hok; simp [hsc, h] at hok
  obtain ⟨q, vq, A, kr, B, t', sq, ekr, hkrn, hrc, hgc', hqt, hnorm, hndoc, hvq⟩ := sibling_checks_unpack nd hsc hsr
  subst ekr
  rw [hgc] at hgc'
  have := Option.some.inj hgc'
  subst this
  have hq : f.parent? kr.handle = some q := Forest.parent?_of_ctx sq.ctx
  rw [hq] at hwp
  exact getFrame_specMoveP inv hgc sq hqt hvq (by simp only [Dest.site]; exact hq)
    (ne_of_not_mem_siteW hwp) (ne_parent_of_not_mem_siteW hwo) h3 (textFree_of_not_mem hwp) (textFree_of_not_mem hwo)

/-! ### A moved node is live when the call answers `ok` -/

theorem live_of_append_ok {f : Forest} {p c : Nat} (nd : f.allHandles.Nodup) (hok : (f.append p c).2 = .ok) :
    ∃ t, f.get? c = some t := by
  have hsc : f.structureCheck (some p) c = true := by
    cases h : f.structureCheck (some p) c with
    | true => rfl
    | false => rw [Forest.append_unfold] at hok; simp [h] at hok
  obtain ⟨vp, Lp, t', hgp, hgc', _⟩ := Forest.structureCheck_unpack nd hsc
  exact ⟨t', hgc'⟩

theorem live_of_prepend_ok {f : Forest} {p c : Nat} (nd : f.allHandles.Nodup) (hok : (f.prepend p c).2 = .ok) :
    ∃ t, f.get? c = some t := by
  have hsc : f.structureCheck (some p) c = true := by
    cases h : f.structureCheck (some p) c with
    | true => rfl
    | false => rw [prepend_unfold] at hok; simp [h] at hok
  obtain ⟨vp, Lp, t', hgp, hgc', _⟩ := Forest.structureCheck_unpack nd hsc
  exact ⟨t', hgc'⟩

theorem live_of_insertAfter_ok {f : Forest} {r c : Nat} (nd : f.allHandles.Nodup)
    (hok : (f.insertAfter r c).2 = .ok) : ∃ t, f.get? c = some t := by
  have hsc : f.structureCheck (f.parent? r) c = true := by
    cases h : f.structureCheck (f.parent? r) c with
    | true => rfl
    | false => rw [insertAfter_unfold] at hok; simp [h] at hok
  have hsr : f.siblingReferenceCheck r c = true := by
    cases h : f.siblingReferenceCheck r c with
    | true => rfl
    | false => rw [insertAfter_unfold] at hok; simp [hsc, h] at hok
  obtain ⟨q, vq, A, kr, B, t', sq, ekr, hkrn, hrc, hgc', _⟩ := sibling_checks_unpack nd hsc hsr
  exact ⟨t', hgc'⟩

theorem live_of_insertBefore_ok {f : Forest} {r c : Nat} (nd : f.allHandles.Nodup)
    (hok : (f.insertBefore r c).2 = .ok) : ∃ t, f.get? c = some t := by
  have hsc : f.structureCheck (f.parent? r) c = true := by
    cases h : f.structureCheck (f.parent? r) c with
    | true => rfl
    | false => rw [insertBefore_unfold] at hok; simp [h] at hok
  have hsr : f.siblingReferenceCheck r c = true := by
    cases h : f.siblingReferenceCheck r c with
    | true => rfl
    | false => rw [insertBefore_unfold] at hok; simp [hsc, h] at hok
  obtain ⟨q, vq, A, kr, B, t', sq, ekr, hkrn, hrc, hgc', _⟩ := sibling_checks_unpack nd hsc hsr
  exact ⟨t', hgc'⟩

/-! ### The general frame -/

/-- **Value and child list.** -/
theorem isElement_of_mapInsert_ok {f : Forest} {k : Forest.MapKind} {e : Nat} {entry : Value}
    (hok : (f.mapInsert k e entry).2 = .ok) : f.isElement e = true := by
  cases he : f.isElement e with
  | true => rfl
  | false => unfold Forest.mapInsert at hok; simp [he] at hok

theorem isElement_of_mapRemove_ok {f : Forest} {k : Forest.MapKind} {e key : Nat}
    (hok : (f.mapRemove k e key).2 = .ok) : f.isElement e = true := by
  cases he : f.isElement e with
  | true => rfl
  | false => unfold Forest.mapRemove at hok; simp [he] at hok

theorem frame_general {s : Store} {c : Forest.XCall} (inv : s.forest.Inv) (hw : c.wellKinded) (hf : c.framed = true)
    (hla : c.liveArgs s.forest) (hok : (c.run s).2 = .ok) {h : Nat} (hl : s.forest.isLive h = true)
    (hnw : h ∉ c.writtenParents s.forest) (hnr : h ∉ c.removedHandles s.forest)
    (hnm : h ∉ c.movedSubtree s.forest) :
    Forest.FrameAt s.forest (c.run s).1.forest h := by
  by_cases hs : simpleCall c = true
  · exact (frame_general_framed inv hs hl hnw).1
  · have nd := inv.nodup
    cases c with
    | call k =>
      cases k with
      | append p c =>
        obtain ⟨t, hg⟩ := live_of_append_ok nd hok
        simp only [Forest.XCall.writtenParents, List.mem_append, not_or] at hnw
        exact (getFrame_append inv hok hg hnw.1.1 hnw.1.2 (not_mem_handles_of_subtree hg hnm)).frameAt hl
      | prepend p c =>
        obtain ⟨t, hg⟩ := live_of_prepend_ok nd hok
        simp only [Forest.XCall.writtenParents, List.mem_append, not_or] at hnw
        exact (getFrame_prepend inv hok hg hnw.1.1 hnw.1.2 (not_mem_handles_of_subtree hg hnm)).frameAt hl
      | insertAfter r c =>
        obtain ⟨t, hg⟩ := live_of_insertAfter_ok nd hok
        simp only [Forest.XCall.writtenParents, List.mem_append, not_or] at hnw
        exact (getFrame_insertAfter inv hok hg hnw.1.1 hnw.1.2 (not_mem_handles_of_subtree hg hnm)).frameAt hl
      | insertBefore r c =>
        obtain ⟨t, hg⟩ := live_of_insertBefore_ok nd hok
        simp only [Forest.XCall.writtenParents, List.mem_append, not_or] at hnw
        exact (getFrame_insertBefore inv hok hg hnw.1.1 hnw.1.2 (not_mem_handles_of_subtree hg hnm)).frameAt hl
      | detach n =>
        cases hg : s.forest.get? n with
        | none =>
          have := hla n (List.mem_singleton.2 rfl)
          unfold Forest.isLive at this
          rw [hg] at this; cases this
        | some t =>
          exact (getFrame_detach inv hg hnw (not_mem_handles_of_subtree hg hnm)).frameAt hl
      | remove n =>
        cases hg : s.forest.get? n with
        | none =>
          have := hla n (List.mem_singleton.2 rfl)
          unfold Forest.isLive at this
          rw [hg] at this; cases this
        | some t =>
          exact (getFrame_remove inv hg hnw (not_mem_handles_of_subtree hg hnr)).frameAt hl
      | elementWrap n name =>
        obtain ⟨t, hg⟩ := Forest.get_of_live (hla n (List.mem_singleton.2 rfl))
        exact (getFrame_wrap inv hok hg hl (ne_parent_of_not_mem_siteW hnw)
          (not_mem_handles_of_subtree hg hnm)).frameAt hl
      | replace a b =>
        simp only [Forest.XCall.writtenParents, List.mem_append, not_or] at hnw
        exact (getFrame_replace inv hok hnw.1.1 hnw.1.2 hnm hnr).frameAt hl
      | elementUnwrap n =>
        obtain ⟨t, hg⟩ := Forest.get_of_live (hla n (List.mem_singleton.2 rfl))
        simp only [Forest.XCall.writtenParents, List.mem_cons, List.mem_append, not_or] at hnw
        simp only [Forest.XCall.removedHandles, List.mem_cons, not_or] at hnr
        have hok' : (s.forest.elementUnwrap n).2 = .ok := hok
        cases hp : s.forest.parent? n with
        | none =>
          have e : (Forest.XCall.run s (.call (.elementUnwrap n))).1.forest = (s.forest.remove n).1 := by
            show (s.forest.elementUnwrap n).1 = _
            rw [elementUnwrap_parentless hok' hp]
          rw [e]
          exact (getFrame_remove inv hg (by rw [hp]; intro hm; cases hm)
            (not_mem_handles_of_subtree hg hnm)).frameAt hl
        | some p =>
          rw [hp] at hnw
          exact (getFrame_unwrap_kid inv hok' hp hnw.1.1 hnw.2 hnw.1.2 hnr.2).frameAt hl
      | cloneNode n =>
        obtain ⟨t, hg⟩ := Forest.get_of_live (hla n (List.mem_singleton.2 rfl))
        exact (getFrame_cloneNode inv hg h).frameAt hl
      | mapInsert k e entry =>
        have he := isElement_of_mapInsert_ok hok
        simp only [Forest.XCall.writtenParents, List.mem_cons, not_or] at hnw
        exact (getFrame_mapInsert inv he hw hnw.1 hnw.2).frameAt hl
      | mapRemove k e key =>
        have he := isElement_of_mapRemove_ok hok
        simp only [Forest.XCall.writtenParents, List.mem_cons, not_or] at hnw
        exact (getFrame_mapRemove inv he hnw.1 hnw.2).frameAt hl
      | textContentSet n str =>
        simp only [Forest.XCall.writtenParents, List.mem_cons, not_or] at hnw
        exact (getFrame_textContentSet inv hok hl hnw.1 hnw.2).frameAt hl
      | setElementName n name => exact absurd rfl hs
      | setText n t => exact absurd rfl hs
      | setComment n t => exact absurd rfl hs
      | setPiData n d => exact absurd rfl hs
      | _ => cases hf
    | newNode v => exact absurd rfl hs
    | setConsolidation b => exact absurd rfl hs
    | cloneWithPrefixes n order =>
      obtain ⟨t, hg⟩ := Forest.get_of_live (hla n (List.mem_singleton.2 rfl))
      exact (getFrame_cloneWithPrefixes inv s.env hg order hl).frameAt hl
    | _ => cases hf

/-- The parent of a child of `p` read off the child list of `p`. -/
theorem parent?_of_kid {f : Forest} (nd : f.allHandles.Nodup) {p h : Nat} (hk : h ∈ f.kidHandles p) :
    f.parent? h = some p := by
  unfold Forest.kidHandles at hk
  cases hg : f.get? p with
  | none => rw [hg] at hk; cases hk
  | some t =>
    rw [hg] at hk
    obtain ⟨k, hkm, e⟩ := List.mem_map.1 hk
    have hth : t.handle = p := (findList?_some f.roots t hg).1
    cases t with
    | node q v L =>
      have : q = p := hth
      subst this
      have so : SiteAt f q v L := ⟨nd, hg⟩
      rw [← e]
      exact PairAfter.site_parent so hkm

theorem kid_of_parent? {f : Forest} (nd : f.allHandles.Nodup) {p h : Nat} (hp : f.parent? h = some p) :
    h ∈ f.kidHandles p := by
  cases hctx : f.ctx? h with
  | none => rw [Forest.parent?_of_no_ctx hctx] at hp; cases hp
  | some cx =>
    obtain ⟨e0, v, so⟩ := SiteAt.of_ctx nd hctx
    have hpp : cx.parent = p := by
      rw [Forest.parent?_of_ctx hctx] at hp
      exact Option.some.inj hp
    rw [hpp] at so
    unfold Forest.kidHandles
    rw [so.kids]
    show h ∈ (cx.left ++ cx.self :: cx.right).map (·.handle)
    rw [List.map_append, List.map_cons, e0]
    exact List.mem_append_right _ (List.mem_cons_self ..)

/-- **The parent**: a node whose parent is framed keeps it. -/
theorem parent_of_frameAt {f f' : Forest} (nd : f.allHandles.Nodup) (nd' : f'.allHandles.Nodup) {p h : Nat}
    (hp : f.parent? h = some p) (fr : Forest.FrameAt f f' p) : f'.parent? h = some p := by
  apply parent?_of_kid nd'
  rw [fr.kids]
  exact kid_of_parent? nd hp

end XotModel
