/-
  Lemmas for C12, part 6: one step of the edge replay = `snocClone`.
-/
import XotModel.Lemmas.FcloneAppend2

namespace XotModel
open HTree

/-- `v` may come next under a node with value `vc` whose (already copied) children are `K`:
    what structural validity of the source gives at each step of the replay. -/
def Admissible (vc : Value) (K : List HTree) (v : Value) : Prop :=
  match v with
  | .document => False
  | .namespace p _ =>
    vc.isElement = true ∧ (∀ k ∈ K, k.value.category = .namespace) ∧
      (∀ k ∈ K, Forest.entryKey k.value ≠ p)
  | .attribute a _ =>
    vc.isElement = true ∧ ∃ Kn Ka, K = Kn ++ Ka ∧ (∀ k ∈ Kn, k.value.category = .namespace) ∧
      (∀ k ∈ Ka, k.value.category = .attribute ∧ Forest.entryKey k.value ≠ a)
  | _ => vc.isElement = true ∨ vc.isDocument = true

theorem snocClone_off (K : List HTree) (t : HTree) : snocClone false K t = K ++ [t] := by
  simp [snocClone]

theorem snocClone_nontext (b : Bool) (K : List HTree) (t : HTree) (h : t.value.isText = false) :
    snocClone b K t = K ++ [t] := by
  unfold snocClone
  cases b <;> cases hv : t.value <;> simp_all [Value.isText]

theorem snocClone_merge (K' : List HTree) (m n : Nat) (ps s : Str) (mk : List HTree) :
    snocClone true (K' ++ [.node m (.text ps) mk]) (.node n (.text s) []) =
      K' ++ [.node m (.text (ps ++ s)) mk] := by
  simp [snocClone, HTree.value]

theorem snocClone_nomerge (b : Bool) (K : List HTree) (t : HTree)
    (h : ∀ K' x, K = K' ++ [x] → x.value.isText = false) : snocClone b K t = K ++ [t] := by
  unfold snocClone
  rcases List.eq_nil_or_concat K with rfl | ⟨K', x, rfl⟩
  · cases b <;> cases t.value <;> simp
  · rw [List.concat_eq_append]
    have hx := h K' x (by rw [List.concat_eq_append])
    cases x with
    | node m vm mk =>
      cases b <;> cases t.value <;> cases vm <;> simp_all [Value.isText, HTree.value]

namespace Work

variable {g : Forest} {R : List HTree} {fs : List CFrame} {c : Nat} {vc : Value} {K : List HTree}
  {n : Nat} {v : Value}

theorem mapGetNode_ns_none (w : Work g R fs c vc K n v) (p : Nat)
    (h : ∀ k ∈ K, Forest.entryKey k.value ≠ p) : g.mapGetNode .namespaces c p = none := by
  unfold Forest.mapGetNode
  rw [w.get?_c]
  simp only [Forest.mapChildren, HTree.kids]
  rw [List.find?_eq_none]
  intro x hx
  have := h x ((List.takeWhile_sublist _).mem hx)
  simpa using this

theorem mapIP_ns (w : Work g R fs c vc K n v) (h : ∀ k ∈ K, k.value.category = .namespace) :
    g.mapInsertionPoint .namespaces c = K.getLast?.map (·.handle) := by
  unfold Forest.mapInsertionPoint
  rw [w.get?_c]
  simp only [Forest.mapChildren, HTree.kids]
  rw [takeWhile_all _ K (by intro a ha; simp [h a ha])]
  cases K.getLast? <;> rfl

theorem mapChildren_attr {Kn Ka : List HTree} (hn : ∀ k ∈ Kn, k.value.category = .namespace)
    (ha : ∀ k ∈ Ka, k.value.category = .attribute) (c : Nat) (vc : Value) :
    Forest.mapChildren .attributes (.node c vc (Kn ++ Ka)) = Ka := by
  simp only [Forest.mapChildren, HTree.kids]
  rw [List.dropWhile_append_of_pos (by intro a h; simp [hn a h]),
    dropWhile_none _ Ka (by intro a h; simp [ha a h]),
    takeWhile_all _ Ka (by intro a h; simp [ha a h])]

theorem mapGetNode_attr_none {Kn Ka : List HTree} (w : Work g R fs c vc (Kn ++ Ka) n v) (a : Nat)
    (hn : ∀ k ∈ Kn, k.value.category = .namespace)
    (ha : ∀ k ∈ Ka, k.value.category = .attribute ∧ Forest.entryKey k.value ≠ a) :
    g.mapGetNode .attributes c a = none := by
  unfold Forest.mapGetNode
  rw [w.get?_c]
  simp only
  rw [mapChildren_attr hn (fun k hk => (ha k hk).1), List.find?_eq_none]
  intro x hx
  simpa using (ha x hx).2

theorem mapIP_attr {Kn Ka : List HTree} (w : Work g R fs c vc (Kn ++ Ka) n v)
    (hn : ∀ k ∈ Kn, k.value.category = .namespace)
    (ha : ∀ k ∈ Ka, k.value.category = .attribute) :
    g.mapInsertionPoint .attributes c = (Kn ++ Ka).getLast?.map (·.handle) := by
  unfold Forest.mapInsertionPoint
  rw [w.get?_c]
  simp only
  rw [mapChildren_attr hn ha]
  rcases List.eq_nil_or_concat Ka with rfl | ⟨Ka', x, rfl⟩
  · simp only [List.getLast?_nil, List.append_nil, HTree.kids]
    rw [takeWhile_all _ Kn (by intro a h; simp [hn a h])]
  · simp [List.concat_eq_append, List.getLast?_append]

/-- One step of the replay: `any_append(current, new_node)` puts the new node where `snocClone`
    says, and does not fail. -/
theorem anyAppend_fresh12 (w : Work g R fs c vc K n v) (adm : Admissible vc K v) :
    ((g.anyAppend c n).1, (g.anyAppend c n).2.1) =
      (g.withRoots (R ++ [fcPlug fs (.node c vc (snocClone g.consolidation K (.node n v [])))]), .ok) := by
  unfold Forest.anyAppend
  rw [w.value?_n]
  cases v with
  | document => exact absurd adm (by simp [Admissible])
  | element e =>
    simp only
    rw [w.append_plain adm rfl rfl (Or.inr (Or.inl rfl)), snocClone_nontext _ _ _ rfl]
  | pi t d =>
    simp only
    rw [w.append_plain adm rfl rfl (Or.inr (Or.inl rfl)), snocClone_nontext _ _ _ rfl]
  | comment s =>
    simp only
    rw [w.append_plain adm rfl rfl (Or.inr (Or.inl rfl)), snocClone_nontext _ _ _ rfl]
  | text s =>
    simp only
    by_cases hc : g.consolidation = true
    · by_cases hl : ∀ K' x, K = K' ++ [x] → x.value.isText = false
      · rw [w.append_plain adm rfl rfl (Or.inr (Or.inr hl)), snocClone_nomerge _ _ _ hl]
      · have : ∃ K' m ps mk, K = K' ++ [.node m (.text ps) mk] := by
          apply Classical.byContradiction
          intro hne
          apply hl
          intro K' x hK
          cases x with
          | node m vm mk =>
            cases vm <;> try rfl
            exact absurd ⟨K', m, _, mk, hK⟩ hne
        obtain ⟨K', m, ps, mk, rfl⟩ := this
        rw [w.append_merge adm hc, hc, snocClone_merge]
    · have hc' : g.consolidation = false := by simpa using hc
      rw [w.append_plain adm rfl rfl (Or.inl hc'), hc', snocClone_off]
  | «namespace» p ns =>
    simp only
    obtain ⟨h1, h2, h3⟩ := adm
    rw [w.appendEntryNode_fresh .namespaces h1 rfl (w.mapGetNode_ns_none p h3) (w.mapIP_ns h2),
      snocClone_nontext _ _ _ rfl]
  | «attribute» a s =>
    simp only
    obtain ⟨h1, Kn, Ka, rfl, h2, h3⟩ := adm
    rw [w.appendEntryNode_fresh .attributes h1 rfl (w.mapGetNode_attr_none a h2 h3)
      (w.mapIP_attr h2 (fun k hk => (h3 k hk).1)), snocClone_nontext _ _ _ rfl]

/-- The same with the answered handle (the new node, or the text node it was merged into). -/
theorem anyAppend_fresh (w : Work g R fs c vc K n v) (adm : Admissible vc K v) :
    ∃ h, g.anyAppend c n =
      (g.withRoots (R ++ [fcPlug fs (.node c vc (snocClone g.consolidation K (.node n v [])))]), .ok, h) := by
  have h := w.anyAppend_fresh12 adm
  refine ⟨(g.anyAppend c n).2.2, ?_⟩
  have h1 := congrArg Prod.fst h
  have h2 := congrArg Prod.snd h
  simp only at h1 h2
  rw [← h1, ← h2]

end Work
end XotModel
