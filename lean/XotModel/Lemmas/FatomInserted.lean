/-
  C06 lemmas: where the inserted node ends up: its parent after `placeAfter` / `placeFirst` /
  `placeLast` (needed for `clone_node`: the clone's root is the only child of the scratch
  element).
-/
import XotModel.Lemmas.FatomText

namespace XotModel
open HTree

mutual
  /-- After inserting `t` next to `ref`, the parent of `t`'s root is the parent of `ref`. -/
  theorem replaceBelow_parent_inserted (ref : Nat) (t : HTree) (F : HTree → List HTree)
      (hF : ∀ (r : HTree) (rest : List HTree) (q : Nat), t.handle ∉ handles r →
        parentKids t.handle q (F r ++ rest) = some q) : ∀ T : HTree, t.handle ∉ handles T →
      parentBelow t.handle (replaceBelow ref F T) = parentBelow ref T
    | .node h v ks => by
      intro hm
      simp only [replaceBelow, parentBelow]
      exact replaceKids_parent_inserted ref t F hF h ks
        (fun h' => hm (by unfold handles; exact List.mem_cons_of_mem _ h'))
  theorem replaceKids_parent_inserted (ref : Nat) (t : HTree) (F : HTree → List HTree)
      (hF : ∀ (r : HTree) (rest : List HTree) (q : Nat), t.handle ∉ handles r →
        parentKids t.handle q (F r ++ rest) = some q) (q : Nat) : ∀ ks : List HTree,
      t.handle ∉ handlesList ks →
      parentKids t.handle q (replaceKids ref F ks) = parentKids ref q ks
    | [] => by simp [replaceKids, parentKids]
    | k :: ks => by
      intro hm
      unfold handlesList at hm
      have hmk : t.handle ∉ handles k := fun h' => hm (List.mem_append_left _ h')
      have hmks : t.handle ∉ handlesList ks := fun h' => hm (List.mem_append_right _ h')
      unfold replaceKids
      by_cases hk : k.handle = ref
      · simp only [hk, if_true]
        rw [hF k ks q hmk]
        simp [parentKids, hk]
      · simp only [hk, if_false]
        have hne : ¬ k.handle = t.handle := fun e => hmk (e ▸ handle_mem_handles k)
        simp only [parentKids, handle_replaceBelow, hne, hk, if_false]
        rw [replaceBelow_parent_inserted ref t F hF k hmk,
          replaceKids_parent_inserted ref t F hF q ks hmks]
end

theorem insertedAfter (t : HTree) (r : HTree) (rest : List HTree) (q : Nat)
    (h : t.handle ∉ handles r) : parentKids t.handle q ([r, t] ++ rest) = some q := by
  have hne : ¬ r.handle = t.handle := fun e => h (e ▸ handle_mem_handles r)
  simp [parentKids, hne, parentBelow_none_of_not_mem h]

namespace Forest

theorem placeAfter_parent_inserted {f : Forest} {t : HTree} (fr : Fresh f t) (ref : Nat) :
    (f.placeAfter ref t).parent? t.handle = f.parent? ref := by
  rw [parent?_eq, parent?_eq]
  unfold placeAfter
  simp only
  have hroots : ∀ r ∈ f.roots, t.handle ∉ handles r := by
    intro r hr h'
    exact fr.disjoint _ (handle_mem_handles t) (handles_sub_of_mem hr _ h')
  generalize f.roots = rs at hroots
  induction rs with
  | nil => rfl
  | cons r rs ih =>
    rw [List.map_cons, List.findSome?_cons, List.findSome?_cons,
      replaceBelow_parent_inserted ref t _ (insertedAfter t) r (hroots r (List.mem_cons_self ..)),
      ih (fun r' hr' => hroots r' (List.mem_cons_of_mem _ hr'))]

theorem placeFirst_get? (f : Forest) (p : Nat) (t : HTree) :
    (f.placeFirst p t).get? p = (f.get? p).map (fun n => n.setKids (t :: n.kids)) := by
  unfold placeFirst get?
  simp only
  rw [← mapAtList_eq_map]
  exact findList?_mapAtList_self p _ (insertsFirst t).handle f.roots

/-- The moved subtree sits under `p` after `placeLast` / `placeFirst`. -/
theorem placeUnder_inserted {f : Forest} {t : HTree} {p : Nat} {n : HTree}
    (hg : f.get? p = some n) :
    ((f.placeLast p t).W → (f.placeLast p t).parent? t.handle = some p ∧
      (f.placeLast p t).get? t.handle = some t) ∧
    ((f.placeFirst p t).W → (f.placeFirst p t).parent? t.handle = some p ∧
      (f.placeFirst p t).get? t.handle = some t) := by
  constructor
  · intro w2
    have hg2 : (f.placeLast p t).get? p = some (n.setKids (n.kids ++ [t])) := by
      rw [placeLast_get?, hg]; rfl
    have hm : t ∈ (n.setKids (n.kids ++ [t])).kids := by cases n; simp [HTree.setKids, HTree.kids]
    have := kid_spec w2 hg2 hm
    exact ⟨this.2, this.1⟩
  · intro w2
    have hg2 : (f.placeFirst p t).get? p = some (n.setKids (t :: n.kids)) := by
      rw [placeFirst_get?, hg]; rfl
    have hm : t ∈ (n.setKids (t :: n.kids)).kids := by cases n; simp [HTree.setKids, HTree.kids]
    have := kid_spec w2 hg2 hm
    exact ⟨this.2, this.1⟩

end Forest
end XotModel
