/-
  XotModel.Lemmas.LexCanonParse — one token: each token parser of the reference tokenizer, run on
  the canonical spelling of a token that meets `Token.lexOK`, followed by text `r` that does not
  extend the token, returns the token re-positioned (`Token.place`) and stops exactly before `r`.
-/
import XotModel.Lemmas.LexCanonStream

namespace XotModel.Lex.Canon

open XotModel.Lex XotModel.Lex.Stream

theorem utf8Len_ascii {c : Char} (h : c.toNat < 0x80) : utf8Len c = 1 := by
  simp [utf8Len, h]

theorem stops_name_of {c : Char} (r : Str) (h : isNameChar c = false) : Stops isNameChar (c :: r) :=
  Stops.cons r h

theorem parseElementStart_app (pos : Nat) (p l sp : StrSpan) (r : Str)
    (h : qnameOK p.text l.text = true) (hr : Stops isNameChar r) :
    parseElementStart ⟨pos, renderToken (.elementStart p l sp) ++ r⟩ =
      some ((Token.elementStart p l sp).place pos,
        ⟨pos + strLen (renderToken (.elementStart p l sp)), r⟩) := by
  simp only [renderToken, List.cons_append, parseElementStart, adv_one, Option.bind_eq_bind]
  rw [show utf8Len '<' = 1 from by decide, consumeQName_app (pos + 1) h hr]
  simp only [Option.bind_some, Token.place, strLen, show utf8Len '<' = 1 from by decide]
  rw [show '<' :: (tokQName p.text l.text ++ r) = ('<' :: tokQName p.text l.text) ++ r from rfl,
    sliceBack_app]
  simp only [Option.some.injEq, Prod.mk.injEq, Stream.mk.injEq, and_true, true_and]
  omega

theorem parseCloseElement_app (pos : Nat) (p l sp : StrSpan) (r : Str)
    (h : qnameOK p.text l.text = true) :
    parseCloseElement ⟨pos, renderToken (.elementEnd (.close p l) sp) ++ r⟩ =
      some ((Token.elementEnd (.close p l) sp).place pos,
        ⟨pos + strLen (renderToken (.elementEnd (.close p l) sp)), r⟩) := by
  have hgt : Stops isNameChar ('>' :: r) := Stops.cons r (by decide)
  have hsp : Stops isXmlSpace ('>' :: r) := Stops.cons r (by decide)
  have e2 : (Stream.mk pos ('<' :: '/' :: (tokQName p.text l.text ++ '>' :: r))).adv 2 =
      ⟨pos + 2, tokQName p.text l.text ++ '>' :: r⟩ := by
    rw [show '<' :: '/' :: (tokQName p.text l.text ++ '>' :: r) =
      ['<', '/'] ++ (tokQName p.text l.text ++ '>' :: r) from rfl, adv_app pos _ _ 2 rfl]
    rfl
  simp only [renderToken, List.cons_append, List.append_assoc, List.nil_append, parseCloseElement,
    Option.bind_eq_bind, e2]
  rw [consumeQName_app (pos + 2) h hgt]
  simp only [Option.bind_some, skipSpaces_stop _ hsp, consumeByte, curr?, List.head?_cons,
    beq_self_eq_true, if_true, adv_one, Token.place]
  rw [show '<' :: '/' :: (tokQName p.text l.text ++ '>' :: r) =
      ('<' :: '/' :: (tokQName p.text l.text ++ ['>'])) ++ r from by simp, sliceBack_app]
  simp only [Option.some.injEq, Prod.mk.injEq, Stream.mk.injEq, and_true, true_and, strLen, strLen_app,
    show utf8Len '<' = 1 from by decide, show utf8Len '/' = 1 from by decide,
    show utf8Len '>' = 1 from by decide]
  omega

theorem sliceBack_eq {a b : Stream} (x : Str) (h : a.rest = x ++ b.rest) :
    sliceBack a b = ⟨x, a.pos⟩ := by
  cases a; cases b; simp only at h; subst h; exact sliceBack_app _ _ _ _

theorem curr?_cons (p : Nat) (c : Char) (r : Str) : (Stream.mk p (c :: r)).curr? = some c := rfl

theorem consumeByte_self (c : Char) (p : Nat) (r : Str) :
    consumeByte c ⟨p, c :: r⟩ = some ⟨p + utf8Len c, r⟩ := by
  simp [consumeByte, curr?, adv_one]

theorem consumeQuote_dq (p : Nat) (r : Str) : consumeQuote ⟨p, '"' :: r⟩ = some ('"', ⟨p + 1, r⟩) := by
  simp [consumeQuote, curr?, adv_one, show utf8Len '"' = 1 from by decide]

theorem consumeEq_eq (p : Nat) (r : Str) (hr : Stops isXmlSpace r) :
    consumeEq ⟨p, '=' :: r⟩ = some ⟨p + 1, r⟩ := by
  have h1 : Stops isXmlSpace ('=' :: r) := Stops.cons _ (by decide)
  simp [consumeEq, skipSpaces_stop _ h1, consumeByte_self, skipSpaces_stop _ hr,
    show utf8Len '=' = 1 from by decide]

theorem parseAttribute_open (pos : Nat) (sp : StrSpan) (r : Str) :
    parseAttribute ⟨pos, renderToken (.elementEnd .open sp) ++ r⟩ =
      some ((Token.elementEnd .open sp).place pos, ⟨pos + strLen (renderToken (.elementEnd .open sp)), r⟩) := by
  have hsp : Stops isXmlSpace ('>' :: r) := Stops.cons r (by decide)
  simp only [renderToken, List.cons_append, List.nil_append, parseAttribute, skipSpaces_stop _ hsp,
    curr?_cons, adv_one, Token.place]
  rw [sliceBack_eq ['>'] rfl]
  simp [strLen, show utf8Len '>' = 1 from by decide]

theorem parseAttribute_empty (pos : Nat) (sp : StrSpan) (r : Str) :
    parseAttribute ⟨pos, renderToken (.elementEnd .empty sp) ++ r⟩ =
      some ((Token.elementEnd .empty sp).place pos, ⟨pos + strLen (renderToken (.elementEnd .empty sp)), r⟩) := by
  have hsp : Stops isXmlSpace ('/' :: '>' :: r) := Stops.cons _ (by decide)
  simp only [renderToken, List.cons_append, List.nil_append, parseAttribute, skipSpaces_stop _ hsp,
    curr?_cons, adv_one, Token.place, consumeByte_self, Option.bind_eq_bind, Option.bind_some,
    beq_self_eq_true, if_true]
  rw [sliceBack_eq ['/', '>'] rfl]
  simp [strLen, show utf8Len '>' = 1 from by decide, show utf8Len '/' = 1 from by decide]

/-- The first character of a canonical qualified name is a name-start character. -/
theorem tokQName_head {p l : Str} (h : qnameOK p l = true) :
    ∃ c cs, tokQName p l = c :: cs ∧ isNameStart c = true := by
  simp only [qnameOK, Bool.and_eq_true, Bool.not_eq_true', List.isEmpty_eq_false_iff] at h
  obtain ⟨⟨hp, hl⟩, hne⟩ := h
  cases p with
  | nil =>
    obtain ⟨lc, ls, rfl⟩ := List.exists_cons_of_ne_nil hne
    exact ⟨lc, ls, by simp [tokQName], ncNameOK_start hl⟩
  | cons pc ps => exact ⟨pc, ps ++ ':' :: l, by simp [tokQName], ncNameOK_start hp⟩

theorem nameStart_not_space {c : Char} (h : isNameStart c = true) : isXmlSpace c = false := by
  cases hs : isXmlSpace c
  · rfl
  · simp only [isXmlSpace, Bool.or_eq_true, beq_iff_eq] at hs
    rcases hs with ((rfl | rfl) | rfl) | rfl <;> revert h <;> decide

theorem nameStart_ne {c d : Char} (h : isNameStart c = true) (hd : isNameStart d = false) : c ≠ d := by
  intro e; rw [e, hd] at h; cases h

theorem parseAttribute_attr (pos : Nat) (p l v sp : StrSpan) (r : Str)
    (h : qnameOK p.text l.text = true)
    (hv : v.text.all (fun c => isXmlChar c && c != '"' && c != '<') = true) :
    parseAttribute ⟨pos, renderToken (.attribute p l v sp) ++ r⟩ =
      some ((Token.attribute p l v sp).place pos,
        ⟨pos + strLen (renderToken (.attribute p l v sp)), r⟩) := by
  obtain ⟨qc, qs, hq, hqc⟩ := tokQName_head h
  have hsp1 : isXmlSpace ' ' = true := by decide
  -- the text after the blank
  have hrest : Stops isXmlSpace (tokQName p.text l.text ++ '=' :: '"' :: (v.text ++ '"' :: r)) := by
    rw [hq]; exact Stops.cons _ (nameStart_not_space hqc)
  have e1 : skipSpaces ⟨pos, ' ' :: (tokQName p.text l.text ++ '=' :: '"' :: (v.text ++ '"' :: r))⟩ =
      ⟨pos + 1, tokQName p.text l.text ++ '=' :: '"' :: (v.text ++ '"' :: r)⟩ := by
    have := skipBytes_app (f := isXmlSpace) pos (a := [' ']) (by simp [hsp1]) hrest
    simpa [skipSpaces, strLen, show utf8Len ' ' = 1 from by decide] using this
  have hc1 : ((Stream.mk (pos + 1) (tokQName p.text l.text ++ '=' :: '"' :: (v.text ++ '"' :: r))).curr?
      == some '/') = false := by
    rw [hq]; simp [curr?, nameStart_ne hqc (d := '/') (by decide)]
  have hc2 : ((Stream.mk (pos + 1) (tokQName p.text l.text ++ '=' :: '"' :: (v.text ++ '"' :: r))).curr?
      == some '>') = false := by
    rw [hq]; simp [curr?, nameStart_ne hqc (d := '>') (by decide)]
  have heq : Stops isNameChar ('=' :: '"' :: (v.text ++ '"' :: r)) := Stops.cons _ (by decide)
  have hs3 : Stops isXmlSpace ('"' :: (v.text ++ '"' :: r)) := Stops.cons _ (by decide)
  have hv' : v.text.all (fun c => isXmlChar c && (fun c => c != '"' && c != '<') c) = true := by
    simpa [Bool.and_assoc] using hv
  have hscan := scanChars_simple (g := fun c => c != '"' && c != '<') (a := v.text) (r := '"' :: r) hv'
    (.inr ⟨'"', r, rfl, by decide, by decide⟩)
  have e5 := fun q => skipChars_of_scan (f := fun _ c => c != '"' && c != '<') q hscan
  simp only [renderToken, List.cons_append, List.append_assoc, List.nil_append, parseAttribute,
    startsWithSpace, hsp1, e1, hc1, hc2, Bool.false_eq_true, if_false, Bool.not_true,
    Option.bind_eq_bind, consumeQName_app (pos + 1) h heq, Option.bind_some, consumeEq_eq _ _ hs3,
    consumeQuote_dq, e5, consumeByte_self, Token.place]
  rw [sliceBack_eq v.text rfl,
    sliceBack_eq (tokQName p.text l.text ++ '=' :: '"' :: (v.text ++ ['"'])) (by simp)]
  simp only [Option.some.injEq, Prod.mk.injEq, Stream.mk.injEq, and_true, true_and, strLen, strLen_app,
    show utf8Len '=' = 1 from by decide, show utf8Len '"' = 1 from by decide,
    show utf8Len ' ' = 1 from by decide]
  omega

/-! ### Character data, CDATA, comments, PIs -/

/-- What may follow a text token: nothing, or markup. -/
def StartsMarkup (r : Str) : Prop := r = [] ∨ ∃ cs, r = '<' :: cs

theorem parseText_app (pos : Nat) (t : StrSpan) (r : Str)
    (h : (Token.text t).lexOK = true) (hr : StartsMarkup r) :
    parseText ⟨pos, renderToken (.text t) ++ r⟩ =
      some ((Token.text t).place pos, ⟨pos + strLen (renderToken (.text t)), r⟩) := by
  simp only [Token.lexOK, Bool.and_eq_true, Bool.not_eq_true'] at h
  obtain ⟨⟨_, hall⟩, hinf⟩ := h
  have hr' : r = [] ∨ ∃ c cs, r = c :: cs ∧ isXmlChar c = true ∧ (fun c => c != '<') c = false := by
    rcases hr with rfl | ⟨cs, rfl⟩
    · exact .inl rfl
    · exact .inr ⟨'<', cs, rfl, by decide, by decide⟩
  have hscan := scanChars_simple (g := fun c => c != '<') (a := t.text) (r := r) hall hr'
  have e := skipChars_of_scan (f := fun _ c => c != '<') pos hscan
  simp only [renderToken, parseText, Option.bind_eq_bind, e, Option.bind_some, Token.place,
    sliceBack_app, litCdataClose, hinf, Bool.and_false, Bool.false_eq_true, if_false]

theorem parseCdata_app (pos : Nat) (t sp : StrSpan) (r : Str) (h : (Token.cdata t sp).lexOK = true) :
    parseCdata ⟨pos, renderToken (.cdata t sp) ++ r⟩ =
      some ((Token.cdata t sp).place pos, ⟨pos + strLen (renderToken (.cdata t sp)), r⟩) := by
  simp only [Token.lexOK, Bool.and_eq_true, Bool.not_eq_true'] at h
  have hscan := scanChars_cdata (r := r) h.1 h.2
  have e := fun q => skipChars_of_scan q hscan
  have e9 : (Stream.mk pos (['<', '!', '[', 'C', 'D', 'A', 'T', 'A', '['] ++ (t.text ++ ']' :: ']' :: '>' :: r))).adv 9
      = ⟨pos + 9, t.text ++ ']' :: ']' :: '>' :: r⟩ := by
    rw [adv_app pos _ _ 9 rfl]; rfl
  have e3 : skipString litCdataClose ⟨pos + 9 + strLen t.text, ']' :: ']' :: '>' :: r⟩ =
      some ⟨pos + 9 + strLen t.text + 3, r⟩ := by
    simp only [skipString, startsWith, litCdataClose, List.isPrefixOf_cons_cons, beq_self_eq_true,
      Bool.true_and, List.isPrefixOf_nil_left, if_true, List.length_cons, List.length_nil]
    rw [show (']' :: ']' :: '>' :: r) = [']', ']', '>'] ++ r from rfl, adv_app _ _ _ 3 rfl]; rfl
  simp only [renderToken, List.append_assoc, List.cons_append, List.nil_append, parseCdata,
    Option.bind_eq_bind]
  rw [show '<' :: '!' :: '[' :: 'C' :: 'D' :: 'A' :: 'T' :: 'A' :: '[' :: (t.text ++ ']' :: ']' :: '>' :: r) =
    ['<', '!', '[', 'C', 'D', 'A', 'T', 'A', '['] ++ (t.text ++ ']' :: ']' :: '>' :: r) from rfl, e9,
    e (pos + 9)]
  simp only [Option.bind_some, e3, Token.place, renderToken]
  rw [sliceBack_eq t.text rfl,
    sliceBack_eq (['<', '!', '[', 'C', 'D', 'A', 'T', 'A', '['] ++ t.text ++ [']', ']', '>']) (by simp)]
  simp only [Option.some.injEq, Prod.mk.injEq, Stream.mk.injEq, and_true, true_and]
  simp only [strLen, strLen_app, show utf8Len '<' = 1 from by decide, show utf8Len '!' = 1 from by decide,
    show utf8Len '[' = 1 from by decide, show utf8Len 'C' = 1 from by decide,
    show utf8Len 'D' = 1 from by decide, show utf8Len 'A' = 1 from by decide,
    show utf8Len 'T' = 1 from by decide, show utf8Len ']' = 1 from by decide,
    show utf8Len '>' = 1 from by decide]
  omega

theorem skipString_app (lit : Str) (p : Nat) (r : Str) :
    skipString lit ⟨p, lit ++ r⟩ = some ⟨p + strLen lit, r⟩ := by
  have : lit.isPrefixOf (lit ++ r) = true := by
    rw [List.isPrefixOf_iff_prefix]; exact List.prefix_append lit r
  simp only [skipString, startsWith, this, if_true, adv_app p lit r _ rfl]

theorem parseComment_app (pos : Nat) (t sp : StrSpan) (r : Str)
    (h : (Token.comment t sp).lexOK = true) :
    parseComment ⟨pos, renderToken (.comment t sp) ++ r⟩ =
      some ((Token.comment t sp).place pos, ⟨pos + strLen (renderToken (.comment t sp)), r⟩) := by
  simp only [Token.lexOK, Bool.and_eq_true, Bool.not_eq_true', bne_iff_ne, ne_eq] at h
  obtain ⟨⟨hall, hinf⟩, hlast⟩ := h
  have hscan := scanChars_comment (r := r) hall hinf hlast
  have e := fun q => skipChars_of_scan q hscan
  have e4 : (Stream.mk pos (['<', '!', '-', '-'] ++ (t.text ++ '-' :: '-' :: '>' :: r))).adv 4
      = ⟨pos + 4, t.text ++ '-' :: '-' :: '>' :: r⟩ := by
    rw [adv_app pos _ _ 4 rfl]; rfl
  have e3 := skipString_app litCommentClose (pos + 4 + strLen t.text) r
  have hl : (t.text.getLast? == some '-') = false := by simpa using hlast
  simp only [renderToken, List.append_assoc, List.cons_append, List.nil_append, parseComment,
    Option.bind_eq_bind]
  rw [show '<' :: '!' :: '-' :: '-' :: (t.text ++ '-' :: '-' :: '>' :: r) =
    ['<', '!', '-', '-'] ++ (t.text ++ '-' :: '-' :: '>' :: r) from rfl, e4, e (pos + 4)]
  simp only [Option.bind_some, sliceBack_app]
  rw [show '-' :: '-' :: '>' :: r = litCommentClose ++ r from rfl, e3]
  simp only [Option.bind_some, litDashDash, hinf, hl, Bool.false_eq_true, if_false, Token.place, renderToken]
  rw [sliceBack_eq (['<', '!', '-', '-'] ++ t.text ++ ['-', '-', '>']) (by simp [litCommentClose])]
  simp only [Option.some.injEq, Prod.mk.injEq, Stream.mk.injEq, and_true, true_and]
  simp only [strLen, strLen_app, litCommentClose, show utf8Len '<' = 1 from by decide,
    show utf8Len '!' = 1 from by decide, show utf8Len '-' = 1 from by decide,
    show utf8Len '>' = 1 from by decide]
  omega

theorem parsePI_none (pos : Nat) (t sp : StrSpan) (r : Str) (h : (Token.pi t none sp).lexOK = true) :
    parsePI ⟨pos, renderToken (.pi t none sp) ++ r⟩ =
      some ((Token.pi t none sp).place pos, ⟨pos + strLen (renderToken (.pi t none sp)), r⟩) := by
  simp only [Token.lexOK] at h
  have hq : Stops isNameChar ('?' :: '>' :: r) := Stops.cons _ (by decide)
  have hs : Stops isXmlSpace ('?' :: '>' :: r) := Stops.cons _ (by decide)
  have hscan := scanChars_pi (a := []) (r := r) (by simp) (by simp [hasInfix, litPiClose])
  have e := fun q => skipChars_of_scan (a := []) q hscan
  have e2 : (Stream.mk pos (['<', '?'] ++ (t.text ++ '?' :: '>' :: r))).adv 2
      = ⟨pos + 2, t.text ++ '?' :: '>' :: r⟩ := by
    rw [adv_app pos _ _ 2 rfl]; rfl
  simp only [renderToken, List.append_assoc, List.cons_append, List.nil_append, parsePI,
    Option.bind_eq_bind]
  rw [show '<' :: '?' :: (t.text ++ '?' :: '>' :: r) = ['<', '?'] ++ (t.text ++ '?' :: '>' :: r) from rfl,
    e2, consumeName_app (pos + 2) h hq]
  simp only [Option.bind_some, skipSpaces_stop _ hs]
  have e' := e (pos + 2 + strLen t.text)
  simp only [List.nil_append, strLen, Nat.add_zero] at e'
  rw [e']
  simp only [Option.bind_some]
  rw [show '?' :: '>' :: r = litPiClose ++ r from rfl, skipString_app]
  simp only [Option.bind_some]
  rw [sliceBack_eq [] rfl, sliceBack_eq (['<', '?'] ++ t.text ++ litPiClose) (by simp)]
  simp only [List.isEmpty_nil, if_true, Token.place, renderToken, Option.some.injEq, Prod.mk.injEq,
    Stream.mk.injEq, and_true, Token.pi.injEq, true_and, StrSpan.mk.injEq]
  refine ⟨by simp [litPiClose], ?_⟩
  simp only [strLen, strLen_app, litPiClose, show utf8Len '<' = 1 from by decide,
    show utf8Len '?' = 1 from by decide, show utf8Len '>' = 1 from by decide]
  omega

theorem parsePI_some (pos : Nat) (t c sp : StrSpan) (r : Str)
    (h : (Token.pi t (some c) sp).lexOK = true) :
    parsePI ⟨pos, renderToken (.pi t (some c) sp) ++ r⟩ =
      some ((Token.pi t (some c) sp).place pos,
        ⟨pos + strLen (renderToken (.pi t (some c) sp)), r⟩) := by
  simp only [Token.lexOK, Bool.and_eq_true, Bool.not_eq_true', List.isEmpty_eq_false_iff] at h
  obtain ⟨⟨⟨⟨⟨hname, _⟩, hne⟩, hhead⟩, hall⟩, hinf⟩ := h
  obtain ⟨cc, cs, hc⟩ := List.exists_cons_of_ne_nil hne
  have hcc : isXmlSpace cc = false := by simpa [hc] using hhead
  have hq : Stops isNameChar (' ' :: (c.text ++ '?' :: '>' :: r)) := Stops.cons _ (by decide)
  have hs : Stops isXmlSpace (c.text ++ '?' :: '>' :: r) := by
    rw [hc]; exact Stops.cons _ hcc
  have hscan := scanChars_pi (r := r) hall hinf
  have e := fun q => skipChars_of_scan q hscan
  have e2 : (Stream.mk pos (['<', '?'] ++ (t.text ++ ' ' :: (c.text ++ '?' :: '>' :: r)))).adv 2
      = ⟨pos + 2, t.text ++ ' ' :: (c.text ++ '?' :: '>' :: r)⟩ := by
    rw [adv_app pos _ _ 2 rfl]; rfl
  have esp : skipSpaces ⟨pos + 2 + strLen t.text, ' ' :: (c.text ++ '?' :: '>' :: r)⟩ =
      ⟨pos + 2 + strLen t.text + 1, c.text ++ '?' :: '>' :: r⟩ := by
    have := skipBytes_app (f := isXmlSpace) (pos + 2 + strLen t.text) (a := [' '])
      (by simp [show isXmlSpace ' ' = true from by decide]) hs
    simpa [skipSpaces, strLen, show utf8Len ' ' = 1 from by decide] using this
  simp only [renderToken, List.append_assoc, List.cons_append, List.nil_append, parsePI,
    Option.bind_eq_bind]
  rw [show '<' :: '?' :: (t.text ++ ' ' :: (c.text ++ '?' :: '>' :: r)) =
      ['<', '?'] ++ (t.text ++ ' ' :: (c.text ++ '?' :: '>' :: r)) from rfl,
    e2, consumeName_app (pos + 2) hname hq]
  simp only [Option.bind_some, esp, e]
  rw [show '?' :: '>' :: r = litPiClose ++ r from rfl, skipString_app]
  simp only [Option.bind_some]
  rw [sliceBack_eq c.text rfl,
    sliceBack_eq (['<', '?'] ++ t.text ++ ' ' :: (c.text ++ litPiClose)) (by simp)]
  have hce : c.text.isEmpty = false := by simp [hc]
  simp only [hce, Bool.false_eq_true, if_false, Token.place, renderToken, Option.some.injEq,
    Prod.mk.injEq, Stream.mk.injEq, and_true, Token.pi.injEq, true_and, StrSpan.mk.injEq]
  refine ⟨by simp [litPiClose], ?_⟩
  simp only [strLen, strLen_app, litPiClose, show utf8Len '<' = 1 from by decide,
    show utf8Len '?' = 1 from by decide, show utf8Len '>' = 1 from by decide,
    show utf8Len ' ' = 1 from by decide]
  omega

end XotModel.Lex.Canon
