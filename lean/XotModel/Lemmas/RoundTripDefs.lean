/-
  XotModel.Lemmas.RoundTripDefs — the glue of the tree-level round trip (C01_main): the SPELLING of
  a tree, i.e. the `NSNode`s (Lemmas/ParseNsDefs.lean, the vocabulary of the builder theorems
  C02_spelled_ns) whose tokens are the tokens the serialiser writes (`serNode`, Model/SerTokens.lean).

  * `spellNode` / `spellKids` mirror `serNode` / `serKids`: the same threading of the
    `FullnameSerializer` stack, the same prefix choices, `<a/>` vs `<a></a>` as the serialiser
    decides, the end tag spelled exactly like the start tag, values spelled one `Piece` per
    character (`attrPieces`, `textPieces`: Lemmas/SerTokensPieces.lean), one character run per text
    node, every position 0, every whole-token span `noSpan`.
    They are total: where the serialiser fails (no usable prefix) the name is spelled unprefixed.
    A node yields a LIST of spelled nodes, so that `tokens (spell t) = serTokens t` holds for every
    tree, sound or not (an attribute node contributes what lies below it, an "empty" element may
    be followed by what its abnormal children contain).
  * `LexCanon` : the tokenizer contract the round trip assumes (to be discharged by the reference
    tokenizer `lexDocument` / `lexFragment`).
-/
import XotModel.Lemmas.ParseNsTop
import XotModel.Lemmas.ParseNsCheck
import XotModel.Lemmas.ParseErase
import XotModel.Lemmas.SerTokensLexTop
import XotModel.Lemmas.SerTokensDecode
import XotModel.Lemmas.SerTokensPieces
import XotModel.Lemmas.FStack

namespace XotModel

/-- The tokenizer contract: on the canonical rendering of a token list that meets the lexical side
    conditions `LexOK` (Model/LexOK.lean) the tokenizer returns, without error, that token list up to
    byte positions and whole-token spans; an absent prefix is reported as an empty span at offset 0
    (xmlparser's `"".into()`; since /repo a5fafb0 xot tells it by that offset from the empty prefix
    of the spelling `:local`, which it refuses). -/
def LexCanon (frag : Bool) (lex : Str → List Token × Option Nat) : Prop :=
  ∀ ts, LexOK frag ts = true →
    ∃ ts', lex (renderTokens ts) = (ts', none) ∧ ts'.map Token.erase = ts.map Token.erase ∧
      tokensPrefixOk ts' = true

/-- The prefix chosen, `none` (unprefixed) where the serialiser fails. -/
def okPrefix : Except XotError (Option Nat) → Option Nat
  | .ok p => p
  | .error _ => none

/-- The item `declTokens` writes for one `(prefix, namespace)` declaration. -/
def spellDecl (env : Env) (d : Nat × Nat) : List NSAttr :=
  if d.2 == Env.xmlNamespace then []
  else if d.1 == Env.emptyPrefix then
    [{ pfx := sp0 [], loc := sp0 xmlnsName, pieces := attrPieces (env.namespaceStr d.2), vstart := 0,
       junk := noSpan }]
  else
    [{ pfx := sp0 xmlnsName, loc := sp0 (env.prefixStr d.1), pieces := attrPieces (env.namespaceStr d.2),
       vstart := 0, junk := noSpan }]

/-- The item `attrTokens` writes for one attribute. -/
def spellAttr (env : Env) (s : FStack) (a : Nat × Str) : NSAttr :=
  { pfx := sp0 (prefixText env (okPrefix (s.attributePrefix env a.1))), loc := sp0 (env.localName a.1),
    pieces := attrPieces a.2, vstart := 0, junk := noSpan }

/-- The declarations an element writes (`serNode`): at the start node the in-scope ones it does not
    declare itself, then its own. -/
def writtenDecls (inScope : List (Nat × Nat)) (isTop : Bool) (n : Tree) : List (Nat × Nat) :=
  (if isTop then inScope.filter (fun d => !n.declaresPrefix d.1) else []) ++ n.nsDecls

/-- The items of an element's start tag. -/
def spellItems (env : Env) (inScope : List (Nat × Nat)) (isTop : Bool) (s' : FStack) (n : Tree) :
    List NSAttr :=
  (writtenDecls inScope isTop n).flatMap (spellDecl env) ++ n.attrs.map (spellAttr env s')

/-- The spelling of the subtree `n`, mirroring `serNode env false inScope isTop s n`. -/
def spellNode (env : Env) (inScope : List (Nat × Nat)) (isTop : Bool) (s : FStack) : Tree → List NSNode
  | .node v ks =>
    match v with
    | .element name =>
      let n := Tree.node (.element name) ks
      let s' := s.push n.nsDecls
      let pfx := sp0 (prefixText env (okPrefix (s'.elementPrefix env name)))
      let loc := sp0 (env.localName name)
      if n.firstChild?.isNone then
        .empty pfx loc noSpan (spellItems env inScope isTop s' n) noSpan :: spellKids env inScope s' ks
      else
        [.elem pfx loc noSpan (spellItems env inScope isTop s' n) noSpan (spellKids env inScope s' ks)
          pfx loc noSpan]
    | .text str => .chars [.txt (textPieces str) 0] :: spellKids env inScope s ks
    | .comment str => .comment (sp0 str) noSpan :: spellKids env inScope s ks
    | .pi target data => .pi (sp0 (env.localName target)) (data.map sp0) noSpan :: spellKids env inScope s ks
    | _ => spellKids env inScope s ks
where
  spellKids (env : Env) (inScope : List (Nat × Nat)) (s : FStack) : List Tree → List NSNode
    | [] => []
    | k :: ks => spellNode env inScope false s k ++ spellKids env inScope s ks

/-- The spelling of the node at `start` in `t`, mirroring `serTokensAt`. -/
def spellAt (env : Env) (t : Tree) (start : Path) : List NSNode :=
  match t.at? start, namespacesInScope t start with
  | some n, some inScope => spellNode env inScope true (FStack.new inScope) n
  | _, _ => []

/-- The spelling of a whole tree, mirroring `serTokensTop`. -/
def spellTop (env : Env) (t : Tree) : List NSNode := spellAt env t []

end XotModel
