/-
  Lexical safety of the escaping functions the HTML serialiser calls (C19_text, C19_attr):
  a character with a row never appears raw (`tableHides`, Lemmas/Entity), and every `&` of the
  output starts one of the table's references (`refsOnly`).
-/
import XotModel.Lemmas.Entity
import XotModel.Model.Html5

namespace XotModel
open Gen

/-- Every `&` of the string is the first character of one of `refs` written out in full. -/
def refsOnly (refs : List Str) : Str → Bool
  | [] => true
  | c :: rest =>
    (if c = '&' then refs.any (fun r => r.isPrefixOf (c :: rest)) else true) && refsOnly refs rest

/-- What `refsOnly` says, position by position. -/
theorem refsOnly_spec {refs : List Str} : ∀ {s : Str}, refsOnly refs s = true →
    ∀ i, s[i]? = some '&' → ∃ r ∈ refs, r <+: s.drop i
  | [], _, i, hi => by simp at hi
  | c :: rest, h, i, hi => by
    simp only [refsOnly, Bool.and_eq_true] at h
    cases i with
    | zero =>
      simp only [List.getElem?_cons_zero, Option.some.injEq] at hi
      subst hi
      simp only [if_true, List.any_eq_true] at h
      obtain ⟨r, hr, hp⟩ := h.1
      exact ⟨r, hr, by simpa using List.isPrefixOf_iff_prefix.mp hp⟩
    | succ j =>
      simp only [List.getElem?_cons_succ] at hi
      obtain ⟨r, hr, hp⟩ := refsOnly_spec h.2 j hi
      exact ⟨r, hr, by simpa using hp⟩

theorem refsOnly_append_noAmp (refs : List Str) (a b : Str) (h : '&' ∉ a) :
    refsOnly refs (a ++ b) = refsOnly refs b := by
  induction a with
  | nil => rfl
  | cons c a ih =>
    simp only [List.mem_cons, not_or] at h
    have hc : ¬ c = '&' := fun e => h.1 e.symm
    simp only [List.cons_append, refsOnly, hc, if_false, Bool.true_and]
    exact ih h.2

/-- `&` has a row; every escape string is `&` followed by characters other than `&`, and is one
    of `refs`. -/
def tableRefs (refs : List Str) (t : List (Char × Str)) : Bool :=
  (t.lookup '&').isSome &&
    t.all (fun r => (match r.2 with
      | c :: tl => c == '&' && !tl.contains '&'
      | [] => false) && refs.contains r.2)

theorem htmlLookup_mem {t : List (Char × Str)} {c : Char} {esc : Str} (h : t.lookup c = some esc) :
    (c, esc) ∈ t := by
  induction t with
  | nil => simp at h
  | cons r t ih =>
    obtain ⟨k, v⟩ := r
    simp only [List.lookup] at h
    split at h
    · rename_i heq
      simp at heq h
      subst heq; subst h; simp
    · exact List.mem_cons_of_mem _ (ih h)

theorem escapeWith_refsOnly {refs : List Str} {t : List (Char × Str)} (ht : tableRefs refs t = true)
    (c : Char) (rest : Str) :
    refsOnly refs (escapeWith t c ++ rest) = refsOnly refs rest := by
  simp only [tableRefs, Bool.and_eq_true, List.all_eq_true] at ht
  obtain ⟨hamp, hrows⟩ := ht
  unfold escapeWith
  cases hl : t.lookup c with
  | none =>
    have hc : ¬ c = '&' := by
      intro e; subst e; simp [hl] at hamp
    simp [refsOnly, hc]
  | some esc =>
    have hrow := hrows (c, esc) (htmlLookup_mem hl)
    simp only at hrow
    cases esc with
    | nil => simp at hrow
    | cons d tl =>
      simp only [Bool.and_eq_true, beq_iff_eq, Bool.not_eq_true', List.contains_eq_mem,
        decide_eq_false_iff_not, decide_eq_true_eq] at hrow
      obtain ⟨⟨hd, htl⟩, hmem⟩ := hrow
      subst hd
      simp only [List.cons_append, refsOnly, if_true]
      refine Eq.trans ?_ (refsOnly_append_noAmp refs tl rest htl)
      have : (refs.any fun r => r.isPrefixOf ('&' :: (tl ++ rest))) = true := by
        rw [List.any_eq_true]
        refine ⟨'&' :: tl, hmem, ?_⟩
        rw [List.isPrefixOf_iff_prefix]
        exact ⟨rest, by simp⟩
      rw [this, Bool.true_and]

theorem flatMap_escape_refsOnly {refs : List Str} {t : List (Char × Str)} (ht : tableRefs refs t = true)
    (s : Str) : refsOnly refs (s.flatMap (escapeWith t)) = true := by
  induction s with
  | nil => rfl
  | cons c s ih =>
    rw [List.flatMap_cons, escapeWith_refsOnly ht]
    exact ih

/-- Every reference the four escaping tables can write. -/
def knownRefs : List Str :=
  (htmlTextEscapes ++ htmlAttrEscapes ++ attrEscapes ++ (('>', textGtEscape) :: textEscapes)).map (·.2)

/-- The references are what they should be: `&name;` / `&#xH;` spellings, nothing else. -/
theorem knownRefs_eq : knownRefs.eraseDups =
    [['&','a','m','p',';'], ['&','l','t',';'], ['&','n','b','s','p',';'], ['&','a','p','o','s',';'],
     ['&','q','u','o','t',';'], ['&','#','x','9',';'], ['&','#','x','A',';'], ['&','#','x','D',';'],
     ['&','g','t',';']] := by decide

/-! ### The four functions -/

theorem serializeTextHtml_safe (s : Str) :
    '<' ∉ serializeTextHtml s ∧ refsOnly knownRefs (serializeTextHtml s) = true :=
  ⟨flatMap_escape_hides (by decide) s, flatMap_escape_refsOnly (by decide) s⟩

theorem serializeText_false_safe (s : Str) :
    '<' ∉ serializeText false s ∧ refsOnly knownRefs (serializeText false s) = true := by
  rw [serializeText_false_eq]
  exact ⟨flatMap_escape_hides (by decide) s, flatMap_escape_refsOnly (by decide) s⟩

theorem serializeAttributeHtml_safe (s : Str) :
    '"' ∉ serializeAttributeHtml s ∧ refsOnly knownRefs (serializeAttributeHtml s) = true :=
  ⟨flatMap_escape_hides (by decide) s, flatMap_escape_refsOnly (by decide) s⟩

theorem serializeAttribute_safe (s : Str) :
    '"' ∉ serializeAttribute s ∧ '<' ∉ serializeAttribute s ∧
      refsOnly knownRefs (serializeAttribute s) = true :=
  ⟨flatMap_escape_hides (by decide) s, flatMap_escape_hides (by decide) s,
   flatMap_escape_refsOnly (by decide) s⟩

end XotModel
