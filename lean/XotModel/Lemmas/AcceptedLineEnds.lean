/-
  XotModel.Lemmas.AcceptedLineEnds — what line-end normalisation (`normalizeLineEnds`: CR LF → LF,
  then CR → LF; `DocumentBuilder::comment` / `processing_instruction`) keeps of the lexical
  conditions of a comment text / of processing-instruction data: XML Chars, no `--` / `?>` inside,
  the last character, a first character that is not white space, non-emptiness.
-/
import XotModel.Lemmas.AcceptedContent
import XotModel.Lemmas.LineEnds

namespace XotModel
namespace Accepted

/-- Two neighbouring characters `a`, `b`. -/
def adj (a b : Char) : Str → Bool
  | c :: d :: rest => (c == a && d == b) || adj a b (d :: rest)
  | _ => false

theorem hasInfix2_eq_adj (a b : Char) : ∀ s : Str, hasInfix [a, b] s = adj a b s
  | [] => rfl
  | [c] => by simp [hasInfix, adj, List.isPrefixOf]
  | c :: d :: rest => by
    rw [hasInfix, hasInfix2_eq_adj a b (d :: rest), adj]
    congr 1
    simp only [List.isPrefixOf, Bool.and_true]
    rw [Bool.eq_iff_iff]
    simp only [Bool.and_eq_true, beq_iff_eq]
    exact ⟨fun h => ⟨h.1.symm, h.2.symm⟩, fun h => ⟨h.1.symm, h.2.symm⟩⟩

theorem adj_cons_false {a b c : Char} {s : Str} (h : adj a b (c :: s) = false) : adj a b s = false := by
  cases s with
  | nil => rfl
  | cons d rest =>
    rw [adj, Bool.or_eq_false_iff] at h
    exact h.2

/-- The head of `replaceCrLf (d :: rest)` is `d` or LF. -/
theorem replaceCrLf_head (d : Char) (rest : Str) :
    ∃ tl, replaceCrLf (d :: rest) = d :: tl ∨ replaceCrLf (d :: rest) = '\n' :: tl := by
  cases rest with
  | nil => exact ⟨[], .inl (by simp [replaceCrLf])⟩
  | cons e rest' =>
    unfold replaceCrLf
    split
    · exact ⟨_, .inr rfl⟩
    · exact ⟨_, .inl rfl⟩

theorem adj_replaceCrLf {a b : Char} (ha : a ≠ '\n') (hb : b ≠ '\n') :
    ∀ s : Str, adj a b s = false → adj a b (replaceCrLf s) = false
  | [], _ => by simp [replaceCrLf, adj]
  | [c], _ => by simp [replaceCrLf, adj]
  | c :: d :: rest, h => by
    have h' := h
    rw [adj, Bool.or_eq_false_iff] at h'
    unfold replaceCrLf
    split
    · -- LF followed by the rest
      have ih := adj_replaceCrLf ha hb rest (adj_cons_false h'.2)
      cases hr : replaceCrLf rest with
      | nil => simp [adj]
      | cons x xs =>
        rw [adj, ← hr, ih, Bool.or_false]
        have : (('\n' : Char) == a) = false := by simpa using fun e : '\n' = a => ha e.symm
        simp [this]
    · have ih := adj_replaceCrLf ha hb (d :: rest) h'.2
      obtain ⟨tl, htl | htl⟩ := replaceCrLf_head d rest
      · rw [htl] at ih ⊢
        rw [adj, ih, Bool.or_false]
        exact h'.1
      · rw [htl] at ih ⊢
        rw [adj, ih, Bool.or_false]
        have : (('\n' : Char) == b) = false := by simpa using fun e : '\n' = b => hb e.symm
        simp [this]

theorem adj_replaceCr {a b : Char} (ha : a ≠ '\n') (hb : b ≠ '\n') :
    ∀ s : Str, adj a b s = false → adj a b (replaceCr s) = false
  | [], _ => by simp [replaceCr, adj]
  | [c], _ => by simp [replaceCr, adj]
  | c :: d :: rest, h => by
    rw [adj, Bool.or_eq_false_iff] at h
    have ih := adj_replaceCr ha hb (d :: rest) h.2
    simp only [replaceCr, List.map_cons] at ih ⊢
    rw [adj, ih, Bool.or_false]
    by_cases hc : c = '\r'
    · have : (('\n' : Char) == a) = false := by simpa using fun e : '\n' = a => ha e.symm
      simp [hc, this]
    · by_cases hd : d = '\r'
      · have : (('\n' : Char) == b) = false := by simpa using fun e : '\n' = b => hb e.symm
        simp [hd, this]
      · simpa [hc, hd] using h.1

/-- Normalisation creates no new pair of neighbours `a`, `b` (neither of them LF). -/
theorem hasInfix2_normalize {a b : Char} (ha : a ≠ '\n') (hb : b ≠ '\n') {s : Str}
    (h : hasInfix [a, b] s = false) : hasInfix [a, b] (normalizeLineEnds s) = false := by
  rw [hasInfix2_eq_adj] at h ⊢
  exact adj_replaceCr ha hb _ (adj_replaceCrLf ha hb s h)

/-- The last character stays (a CR is only dropped in front of an LF). -/
theorem replaceCrLf_getLast? : ∀ s : Str, (replaceCrLf s).getLast? = s.getLast?
  | [] => by simp [replaceCrLf]
  | [c] => by simp [replaceCrLf]
  | c :: d :: rest => by
    unfold replaceCrLf
    split
    · rename_i hcd
      cases rest with
      | nil => simp [replaceCrLf, hcd.2]
      | cons e rest' =>
        have hne := replaceCrLf_ne_nil (e :: rest') (by simp)
        rw [List.getLast?_cons_of_ne_nil hne, replaceCrLf_getLast? (e :: rest')]
        simp [List.getLast?_cons_cons]
    · have hne := replaceCrLf_ne_nil (d :: rest) (by simp)
      rw [List.getLast?_cons_of_ne_nil hne, replaceCrLf_getLast? (d :: rest)]
      simp [List.getLast?_cons_cons]

theorem normalizeLineEnds_getLast? (s : Str) :
    (normalizeLineEnds s).getLast? = s.getLast?.map (fun c => if c = '\r' then '\n' else c) := by
  unfold normalizeLineEnds replaceCr
  rw [List.getLast?_map, replaceCrLf_getLast?]

theorem normalizeLineEnds_last_ne {s : Str} {x : Char} (hx : x ≠ '\n') (h : s.getLast? ≠ some x) :
    (normalizeLineEnds s).getLast? ≠ some x := by
  rw [normalizeLineEnds_getLast?]
  cases hl : s.getLast? with
  | none => simp
  | some c =>
    rw [hl] at h
    simp only [Option.map_some, ne_eq, Option.some.injEq]
    split
    · exact fun e => hx e.symm
    · exact fun e => h (by rw [e])

theorem normalizeLineEnds_all {s : Str} (h : s.all isXmlChar = true) :
    (normalizeLineEnds s).all isXmlChar = true :=
  replaceCr_all _ (replaceCrLf_all s h)

theorem normalizeLineEnds_ne_nil {s : Str} (h : s ≠ []) : normalizeLineEnds s ≠ [] := by
  unfold normalizeLineEnds replaceCr
  intro hn
  exact replaceCrLf_ne_nil s h (List.map_eq_nil_iff.mp hn)

/-- A first character that is not white space stays the first character. -/
theorem normalizeLineEnds_head {s : Str} (h : s.head?.any isXmlSpace = false) :
    (normalizeLineEnds s).head?.any isXmlSpace = false := by
  cases s with
  | nil => simp [normalizeLineEnds_nil]
  | cons c rest =>
    have hc : isXmlSpace c = false := by simpa using h
    have hcr : c ≠ '\r' := by
      intro e; rw [e] at hc; revert hc; decide
    have : ∃ tl, replaceCrLf (c :: rest) = c :: tl := by
      cases rest with
      | nil => exact ⟨[], by simp [replaceCrLf]⟩
      | cons d rest' =>
        refine ⟨replaceCrLf (d :: rest'), ?_⟩
        rw [replaceCrLf]
        simp [hcr]
    obtain ⟨tl, htl⟩ := this
    simp only [normalizeLineEnds, htl, replaceCr, List.map_cons, hcr, if_false, List.head?_cons,
      Option.any_some, hc]

/-- The comment conditions survive normalisation, and the result has no CR. -/
theorem commentAcc_normalize {s : Str}
    (h : (s.all isXmlChar && !hasInfix ['-', '-'] s && s.getLast? != some '-') = true) :
    (normalizeLineEnds s).all isXmlChar = true ∧ hasInfix ['-', '-'] (normalizeLineEnds s) = false ∧
      (normalizeLineEnds s).getLast? ≠ some '-' ∧ (normalizeLineEnds s).contains '\r' = false := by
  simp only [Bool.and_eq_true, Bool.not_eq_true', bne_iff_ne, ne_eq] at h
  refine ⟨normalizeLineEnds_all h.1.1, hasInfix2_normalize (by decide) (by decide) h.1.2,
    normalizeLineEnds_last_ne (by decide) h.2, ?_⟩
  simpa using normalizeLineEnds_no_cr s

/-- The PI-data conditions survive normalisation, and the result has no CR. -/
theorem piData_normalize {s : Str}
    (h : (!s.isEmpty && !(s.head?.any isXmlSpace) && s.all isXmlChar && !hasInfix ['?', '>'] s) = true) :
    (!(normalizeLineEnds s).isEmpty && !((normalizeLineEnds s).head?.any isXmlSpace) &&
      (normalizeLineEnds s).all isXmlChar && !hasInfix ['?', '>'] (normalizeLineEnds s) &&
      !(normalizeLineEnds s).contains '\r') = true := by
  simp only [Bool.and_eq_true, Bool.not_eq_true', List.isEmpty_eq_false_iff] at h
  obtain ⟨⟨⟨h1, h2⟩, h3⟩, h4⟩ := h
  simp only [Bool.and_eq_true, Bool.not_eq_true', List.isEmpty_eq_false_iff]
  refine ⟨⟨⟨⟨normalizeLineEnds_ne_nil h1, normalizeLineEnds_head h2⟩, normalizeLineEnds_all h3⟩,
    hasInfix2_normalize (by decide) (by decide) h4⟩, ?_⟩
  simpa using normalizeLineEnds_no_cr s

end Accepted
end XotModel
