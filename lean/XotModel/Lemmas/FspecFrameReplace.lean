/-
  FspecFrameReplace — the frame of `replace` for EVERY forest with the invariant (no `Forest.Normal`), through the
  pair reading `specReplaceP`: the replacing subtree is cut (pair merge at the place it leaves), put in the place of
  the replaced one and merged by `mergeNew3`.  A node outside the replacing subtree whose parent is neither the
  parent of the replaced node nor the old parent of the replacing one, and lies in neither subtree, keeps its
  parent, its value and the handles of its siblings.  Modelled on `frame_specMoveP` (Lemmas/FspecAllFrame.lean).
-/
import XotModel.Lemmas.FspecFrameComposite
import XotModel.Lemmas.FspecAllRepl6
import XotModel.Lemmas.FspecReplFrame2

namespace XotModel
open HTree Spec PairAll

/-! ### `mergeNew3` as an optional list function: handles, lookups -/

/-- The merges of the replacing node at its new place, or nothing. -/
def new3Opt (c : Bool) (n : Nat) : List HTree → List HTree :=
  if c then mergeNew3 n else id

theorem mergeNew3At_eq_new3Opt (g : Forest) (q n : Nat) :
    g.mergeNew3At q n = g.editAt (some q) (new3Opt g.consolidation n) := by
  unfold new3Opt Forest.mergeNew3At
  cases hc : g.consolidation with
  | false => simp only [Bool.false_eq_true, if_false]; exact (Forest.editAt_id g (some q)).symm
  | true => simp only [if_true]

theorem handlesList_absorbNext_sublist (j : HTree) : ∀ rest : List HTree,
    (handlesList (absorbNext j rest)).Sublist (handlesList (j :: rest))
  | [] => List.Sublist.refl _
  | z :: rest => by
    rw [absorbNext_cons]
    cases hj : joinLeft j z with
    | none => simp only [Option.map_none, Option.getD_none]; exact List.Sublist.refl _
    | some j' =>
      simp only [Option.map_some, Option.getD_some]
      rw [handlesList_cons, handlesList_cons, handlesList_cons, handlesList_joinLeft hj]
      exact (List.Sublist.refl _).append (List.sublist_append_right _ _)

theorem handlesList_mergeNew3_sublist (n : Nat) : ∀ (L : List HTree),
    (handlesList (mergeNew3 n L)).Sublist (handlesList L)
  | [] => List.Sublist.refl _
  | [x] => List.Sublist.refl _
  | x :: y :: rest => by
    rw [mergeNew3_cons_cons]
    split
    · cases hj : joinLeft x y with
      | none =>
        simp only [Option.map_none, Option.getD_none]
        rw [handlesList_cons, handlesList_cons (k := x)]
        exact (List.Sublist.refl _).append (handlesList_mergeNewHead_sublist y rest)
      | some j =>
        simp only [Option.map_some, Option.getD_some]
        refine (handlesList_absorbNext_sublist j rest).trans ?_
        rw [handlesList_cons, handlesList_cons, handlesList_cons, handlesList_joinLeft hj]
        exact (List.Sublist.refl _).append (List.sublist_append_right _ _)
    · split
      · exact handlesList_mergeNewHead_sublist x (y :: rest)
      · rw [handlesList_cons, handlesList_cons (k := x)]
        exact (List.Sublist.refl _).append (handlesList_mergeNew3_sublist n (y :: rest))

theorem new3Opt_sublist (c : Bool) (n : Nat) (L : List HTree) :
    (handlesList (new3Opt c n L)).Sublist (handlesList L) := by
  unfold new3Opt
  split
  · exact handlesList_mergeNew3_sublist n L
  · exact List.Sublist.refl _

theorem findList?_absorbNext {z : Nat} {j : HTree} {rest : List HTree} (h : LeafZ z (j :: rest)) :
    findList? z (absorbNext j rest) = findList? z (j :: rest) := by
  cases rest with
  | nil => rfl
  | cons y rest =>
    rw [absorbNext_cons]
    by_cases hb : j.value.isText = true ∧ y.value.isText = true
    · obtain ⟨s, hs⟩ := text_of_isText hb.1
      obtain ⟨u, hu⟩ := text_of_isText hb.2
      obtain ⟨hj1, hj2⟩ := h j (by simp) hb.1
      obtain ⟨hy1, hy2⟩ := h y (by simp) hb.2
      rw [joinLeft_text hs hu]
      simp only [Option.map_some, Option.getD_some]
      rw [findList?_cons, findList?_cons, findList?_cons, find?_setValue _ hj2, find?_leaf hj1 hj2,
        find?_leaf hy1 hy2]
      rfl
    · rw [joinLeft_none hb]
      rfl

theorem findList?_mergeNew3 {z n : Nat} : ∀ (L : List HTree), LeafZ z L → findList? z (mergeNew3 n L) = findList? z L
  | [], _ => rfl
  | [x], _ => rfl
  | x :: y :: rest, h => by
    rw [mergeNew3_cons_cons]
    split
    · by_cases hb : x.value.isText = true ∧ y.value.isText = true
      · obtain ⟨s, hs⟩ := text_of_isText hb.1
        obtain ⟨u, hu⟩ := text_of_isText hb.2
        obtain ⟨hx1, hx2⟩ := h x (by simp) hb.1
        obtain ⟨hy1, hy2⟩ := h y (by simp) hb.2
        rw [joinLeft_text hs hu]
        simp only [Option.map_some, Option.getD_some]
        have hLZ : LeafZ z (x.setValue (.text (s ++ u)) :: rest) := by
          intro k hk hkt
          rcases List.mem_cons.1 hk with e | e
          · rw [e, setValue_kids, setValue_handle]; exact ⟨hx1, hx2⟩
          · exact h k (by simp [e]) hkt
        rw [findList?_absorbNext hLZ, findList?_cons, findList?_cons, findList?_cons, find?_setValue _ hx2,
          find?_leaf hx1 hx2, find?_leaf hy1 hy2]
        rfl
      · rw [joinLeft_none hb]
        simp only [Option.map_none, Option.getD_none]
        rw [findList?_cons, findList?_cons (k := x),
          findList?_mergeNewHead (fun k hk => h k (List.mem_cons_of_mem _ hk))]
    · split
      · exact findList?_mergeNewHead h
      · rw [findList?_cons, findList?_cons (k := x),
          findList?_mergeNew3 (y :: rest) (fun k hk => h k (List.mem_cons_of_mem _ hk))]

theorem findList?_new3Opt {z : Nat} (c : Bool) (n : Nat) {L : List HTree} (h : LeafZ z L) :
    findList? z (new3Opt c n L) = findList? z L := by
  unfold new3Opt
  split
  · exact findList?_mergeNew3 L h
  · rfl

/-! ### Putting `t` in the place of the child `a` -/

theorem leafZ_putTop {z a : Nat} {t : HTree} {L : List HTree} (h : LeafZ z L)
    (ht : t.value.isText = true → t.kids = [] ∧ t.handle ≠ z) : LeafZ z (replaceTop a (fun _ => [t]) L) := by
  intro k hk hkt
  rcases mem_replaceTop hk with e | ⟨w, _, hkw⟩
  · exact h k e hkt
  · have : k = t := by simpa using hkw
    subst this; exact ht hkt

theorem count_putTop_le (z a : Nat) (t : HTree) : ∀ L : List HTree,
    (handlesList (replaceTop a (fun _ => [t]) L)).count z ≤ (handlesList L).count z + (handles t).count z
  | [] => by simp [replaceTop_nil, handlesList_nil]
  | k :: ks => by
    rw [replaceTop_cons]
    split
    · simp only [List.singleton_append, handlesList_cons, List.count_append]; omega
    · have := count_putTop_le z a t ks
      simp only [handlesList_cons, List.count_append]; omega

/-- The second half of the frame: `t` is put in the place of the child `a` of `q` in `Y` and merged. -/
theorem frame_put_stepP {Y : Forest} {t : HTree} {q : Nat} {vq : Value} (a c : Nat)
    {LY : List HTree} (sY : SiteAt Y q vq LY)
    (hcount : ∀ z, Y.allHandles.count z + (handles t).count z ≤ 1)
    {x : Nat} {cx : Ctx} (hx : Y.ctx? x = some cx) (hne : cx.parent ≠ q)
    (hleaf : LeafZ cx.parent LY)
    (hleaft : t.value.isText = true → t.kids = [] ∧ t.handle ≠ cx.parent)
    (hpt : cx.parent ∉ handles t) (hpA : ∀ k ∈ LY, k.handle = a → cx.parent ∉ handles k) :
    ∃ cx', ((Y.editAt (some q) (replaceTop a (fun _ => [t]))).mergeNew3At q c).ctx? x = some cx' ∧
      cx'.shape = cx.shape := by
  rw [mergeNew3At_eq_new3Opt, Forest.editAt_consolidation, Forest.editAt_editAt]
  apply sY.frame _ _ hx hne
  · simp only [Function.comp]
    rw [findList?_new3Opt _ _ (leafZ_putTop hleaf hleaft), ReplFrame.findList?_putTop hpt LY hpA]
  · apply sY.nodup_of_count
    intro z
    simp only [Function.comp]
    have h1 := (new3Opt_sublist Y.consolidation c (replaceTop a (fun _ => [t]) LY)).count_le z
    have h2 := count_putTop_le z a t LY
    have h3 := hcount z
    omega

/-- **Frame of replace, pair reading**, the replacing node NOT next to the replaced one: every forest with the
    invariant. -/
theorem frame_specReplaceP_far {f : Forest} {a b q : Nat} {vq : Value} {l : List HTree} {A : HTree}
    {r : List HTree} {t : HTree} (inv : f.Inv) (ra : ReplArgs f a b q vq l A r t)
    (hnadj : adjacentTo f a b = false)
    {x : Nat} {cx : Ctx} (hx : f.ctx? x = some cx)
    (h1 : cx.parent ≠ q) (h2 : some cx.parent ≠ f.parent? b) (h3 : cx.parent ∉ handles t) (h4 : x ∉ handles t)
    (h5 : cx.parent ∉ handles A) :
    ∃ cx', (specReplaceP a b f).ctx? x = some cx' ∧ cx'.shape = cx.shape := by
  have nd := inv.nodup
  have sq := ra.sq
  have hgb := ra.hgb
  have hqt := ra.hqt
  have hvq : vq.isText = false := not_text_of_site_value ra.hvq
  unfold specReplaceP
  rw [hnadj]
  simp only [Bool.false_eq_true, if_false]
  rw [hgb, Forest.parent?_of_ctx ra.ctx_a]
  simp only
  obtain ⟨ndL, _⟩ := sq.nodupKids
  have hleaft : t.value.isText = true → t.kids = [] ∧ t.handle ≠ cx.parent := by
    intro ht
    exact ⟨leaf_of_text inv.valid hgb ht, fun e => h3 (e ▸ fs_handle_mem_handles t)⟩
  have hleafq : LeafZ cx.parent (l ++ A :: r) := leafZ_of_site sq inv.valid hx
  have hpA : ∀ k ∈ l ++ A :: r, k.handle = a → cx.parent ∉ handles k := by
    intro k hk hka
    have : k = A := PairAfter.eq_of_handle ndL hk (by simp) (hka.trans ra.ha.symm)
    rw [this]; exact h5
  have hcountY : ∀ z, (specRemoveP b f).allHandles.count z + (handles t).count z ≤ 1 := by
    intro z
    have := count_specRemoveP nd hgb z
    have := (List.nodup_iff_count.1 nd) z
    omega
  cases hpar : f.parent? b with
  | none =>
    rw [Forest.nbOf_root hpar, Forest.mergeLeftAt_none, ← specRemoveP_root hpar]
    have sY : SiteAt (specRemoveP b f) q vq (l ++ A :: r) := by
      rw [specRemoveP_root hpar]; exact sq.dropRoot hgb hqt
    obtain ⟨cx1, hx1, hs1⟩ := frame_specRemoveP inv hgb hx (by rw [hpar]; simp) h3 h4
    have hp1 : cx1.parent = cx.parent := congrArg Prod.fst hs1
    obtain ⟨cx', h', hs'⟩ := frame_put_stepP (t := t) a b sY hcountY hx1 (by rw [hp1]; exact h1)
      (by rw [hp1]; exact hleafq) (by rw [hp1]; exact hleaft) (by rw [hp1]; exact h3) (by rw [hp1]; exact hpA)
    exact ⟨cx', h', hs'.trans hs1⟩
  | some po =>
    rw [hpar] at h2
    have hne_po : cx.parent ≠ po := fun e => h2 (by rw [e])
    have hpot : po ∉ handles t := parent_not_mem_subtree nd hgb hpar
    rw [mergeLeftAt_eq_pairOpt]
    simp only [Forest.editAt_consolidation]
    by_cases hpq : po = q
    · -- same child list: one edit
      subst hpq
      rw [mergeNew3At_eq_new3Opt]
      simp only [Forest.editAt_consolidation]
      rw [Forest.editAt_editAt, Forest.editAt_editAt, Forest.editAt_editAt]
      have hdropb : ∀ k ∈ l ++ A :: r, k.handle = b → cx.parent ∉ handles k := by
        intro k hk hkb
        rw [ra.kid_eq hk hkb]; exact h3
      have hLZ1 : LeafZ cx.parent (dropTop b (l ++ A :: r)) :=
        fun k hk hkt => hleafq k (mem_of_mem_dropTop hk) hkt
      have hLZ2 := leafZ_putTop (a := a) hLZ1 hleaft
      apply sq.frame _ _ hx h1
      · simp only [Function.comp]
        rw [findList?_new3Opt _ _ (leafZ_pairOpt _ _ hLZ2), findList?_pairOpt _ _ hLZ2,
          ReplFrame.findList?_putTop h3 _ (fun k hk hka => hpA k (mem_of_mem_dropTop hk) hka),
          findList?_dropTop _ hdropb]
      · apply sq.nodup_of_count
        intro z
        simp only [Function.comp]
        have c1 := (new3Opt_sublist f.consolidation b
          (pairOpt f.consolidation (f.nbOf b) (replaceTop a (fun _ => [t]) (dropTop b (l ++ A :: r))))).count_le z
        have c2 := (pairOpt_sublist f.consolidation (f.nbOf b)
          (replaceTop a (fun _ => [t]) (dropTop b (l ++ A :: r)))).count_le z
        have c3 := count_putTop_le z a t (dropTop b (l ++ A :: r))
        have c4 : (handlesList (dropTop b (l ++ A :: r))).count z + (handles t).count z ≤
            (handlesList (l ++ A :: r)).count z := by
          -- `t` is a child of `po = q`
          cases hctx : f.ctx? b with
          | none => rw [Forest.parent?_of_no_ctx hctx] at hpar; cases hpar
          | some cc =>
            obtain ⟨e0, vo, so⟩ := SiteAt.of_ctx nd hctx
            have hpp : cc.parent = po := by
              rw [Forest.parent?_of_ctx hctx] at hpar; exact Option.some.inj hpar
            rw [hpp] at so
            have hL : cc.left ++ cc.self :: cc.right = l ++ A :: r := by
              have e1 := so.kids
              rw [sq.kids] at e1
              have e2 := Option.some.inj e1
              injection e2 with _ _ e3
              exact e3.symm
            obtain ⟨ndL', _⟩ := so.nodupKids
            obtain ⟨tl, tr⟩ := tops_ne_of_nodup ndL'
            have hself : cc.self = t := by
              have := Forest.get?_of_ctx nd hctx
              rw [hgb] at this
              exact (Option.some.inj this).symm
            rw [← hL, dropTop_mid e0 (fun k hk => e0 ▸ tl k hk) (fun k hk => e0 ▸ tr k hk), count_handles_mid,
              hself]
            exact Nat.le_refl _
        have c5 := (List.nodup_iff_count.1 nd) z
        omega
    · -- another child list: the old-place merge moved in front of the put
      cases hctx : f.ctx? b with
      | none => rw [Forest.parent?_of_no_ctx hctx] at hpar; cases hpar
      | some cc =>
        obtain ⟨e0, vo, so⟩ := SiteAt.of_ctx nd hctx
        have hself : cc.self = t := by
          have := Forest.get?_of_ctx nd hctx
          rw [hgb] at this
          exact (Option.some.inj this).symm
        obtain ⟨po', lo, k, ro⟩ := cc
        simp only at e0 so hself
        subst hself
        have hpo' : po' = po := by
          rw [Forest.parent?_of_ctx hctx] at hpar
          exact Option.some.inj hpar
        subst hpo'
        obtain ⟨ndLo, hpoL⟩ := so.nodupKids
        obtain ⟨tl, tr⟩ := tops_ne_of_nodup ndLo
        have hnatI : ∀ g, NatFor (HTree.editAt po' g) (replaceTop a (fun _ => [k])) :=
          fun g => ReplFrame.natFor_putTop (kidMap_editAt _ _) a (editAt_of_not_mem k hpot)
        have hnatP : NatFor (HTree.editAt q (replaceTop a (fun _ => [k]))) (pairOpt f.consolidation (f.nbOf b)) := by
          unfold pairOpt
          split
          · exact natFor_adjOpt (kidMap_editAt _ _) _
          · exact natFor_id _
        rw [Forest.editAt_comm _ hpq hnatP (hnatI _), Forest.editAt_editAt, ← specRemoveP_kid hpar]
        obtain ⟨cx1, hx1, hs1⟩ := frame_specRemoveP inv hgb hx (by rw [hpar]; exact h2) h3 h4
        have hp1 : cx1.parent = cx.parent := congrArg Prod.fst hs1
        have hsub : (handlesList ((pairOpt f.consolidation (f.nbOf b) ∘ dropTop b) (lo ++ k :: ro))).Sublist
            (handlesList (lo ++ k :: ro)) := by
          simp only [Function.comp]
          exact (pairOpt_sublist _ _ _).trans (handlesList_dropTop_sublist _ _)
        have hLZq : LeafZ q (lo ++ k :: ro) := by
          intro k' hk' hkt
          exact ⟨so.leaf inv.valid k' hk' hkt, PairAfter.text_ne_site sq hvq (PairAfter.site_getKid so hk') hkt⟩
        have hlook : findList? q ((pairOpt f.consolidation (f.nbOf b) ∘ dropTop b) (lo ++ k :: ro)) =
            findList? q (lo ++ k :: ro) := by
          simp only [Function.comp]
          rw [findList?_pairOpt, findList?_dropTop]
          · intro k' hk' hkc
            have : k' = k := PairAfter.eq_of_handle ndLo hk' (by simp) (hkc.trans e0.symm)
            rw [this]; exact hqt
          · intro k' hk' hkt
            exact hLZq k' (mem_of_mem_dropTop hk') hkt
        have sY := so.other sq.kids (fun e => hpq e.symm) _ hsub hlook
        rw [← specRemoveP_kid hpar] at sY
        have hkm := kidMap_editAt po' (pairOpt f.consolidation (f.nbOf b) ∘ dropTop b)
        obtain ⟨cx', h', hs'⟩ := frame_put_stepP (t := k) a b sY hcountY hx1 (by rw [hp1]; exact h1)
          (by
            rw [hp1]
            intro k' hk' hkt
            obtain ⟨k0, hk0, e⟩ := List.mem_map.1 hk'
            subst e
            rw [hkm.value] at hkt
            obtain ⟨hl0, hz0⟩ := hleafq k0 hk0 hkt
            refine ⟨?_, by rw [hkm.handle]; exact hz0⟩
            exact ReplGapNF.editAt_kids_leaf hl0 (PairAfter.leaf_ne_site so (PairAfter.site_getKid sq hk0) hl0))
          (by rw [hp1]; exact hleaft) (by rw [hp1]; exact h3)
          (by
            rw [hp1]
            intro k' hk' hka
            obtain ⟨k0, hk0, e⟩ := List.mem_map.1 hk'
            subst e
            rw [hkm.handle] at hka
            intro hin
            exact hpA k0 hk0 hka ((handles_editAt_sublist
              (fun L => (pairOpt_sublist _ _ _).trans (handlesList_dropTop_sublist _ _)) k0).subset hin))
        exact ⟨cx', h', hs'.trans hs1⟩

/-- **Frame of `replace`**: every forest with the invariant, every geometry. -/
theorem replace_frame_all {f : Forest} {a b q : Nat} {A t : HTree} (inv : f.Inv)
    (hok : (f.replace a b).2 = .ok) (hA : f.get? a = some A) (hb : f.get? b = some t)
    (hq : f.parent? a = some q)
    {x : Nat} {cx : Ctx} (hx : f.ctx? x = some cx)
    (h1 : cx.parent ≠ q) (h2 : some cx.parent ≠ f.parent? b) (h3 : cx.parent ∉ handles t)
    (h4 : x ∉ handles t) (h5 : cx.parent ∉ handles A) (h6 : x ∉ handles A) :
    ∃ cx', (f.replace a b).1.ctx? x = some cx' ∧ cx'.shape = cx.shape := by
  rw [replace_pair inv hok]
  obtain ⟨q', vq, l, A', r, t', ra, _⟩ := replace_unpack inv hok
  have e1 : A' = A := by
    have := ra.live_a; rw [hA] at this; exact (Option.some.inj this).symm
  have e2 : t' = t := by
    have := ra.hgb; rw [hb] at this; exact (Option.some.inj this).symm
  have e3 : q' = q := by
    have := Forest.parent?_of_ctx ra.ctx_a; rw [hq] at this; exact (Option.some.inj this).symm
  subst e1 e2 e3
  cases hadj : adjacentTo f a b with
  | true =>
    unfold specReplaceP
    rw [hadj, if_pos rfl]
    exact frame_specRemoveP inv hA hx (by rw [hq]; exact fun e => h1 (Option.some.inj e)) h5 h6
  | false => exact frame_specReplaceP_far inv ra hadj hx h1 h2 h3 h4 h5

end XotModel
