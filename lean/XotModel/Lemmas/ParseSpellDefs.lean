/-
  XotModel.Lemmas.ParseSpellDefs — spelling as data at document level (specification side of C02_spelled).

  * `PNode`   : an abstract document without namespaces (element / attribute names are local
                names in no namespace): what a text denotes.
  * `SNode`   : one spelling of such a document — which pieces spell every attribute value and
                every run of character data, where CDATA sections are interleaved, whether an
                element is written `<a/>` or `<a></a>`, and every byte position (all positions and
                all whole-token spans are arbitrary: the tree does not depend on them).
  * `tokens`  : the token list a tokenizer returns for that spelling.
  * `denote`  : the abstract document a spelling denotes.
  * `encode`  : the abstract document as an id tree, names interned in document order.
-/
import XotModel.Model.Parse
import XotModel.Lemmas.ParseContent

namespace XotModel

/-- Abstract document node (no namespaces). -/
inductive PNode where
  | elem (name : Str) (attrs : List (Str × Str)) (kids : List PNode)
  | text (s : Str)
  | comment (s : Str)
  | pi (target : Str) (data : Option Str)
  deriving Repr, Inhabited

/-- One attribute as spelled: `name = "pieces"`. -/
structure SAttr where
  name : StrSpan
  /-- start of the (empty) prefix span -/
  pstart : Nat
  pieces : List Piece
  vstart : Nat
  junk : StrSpan
  deriving Repr, Inhabited

/-- One part of a run of character data. -/
inductive SPart where
  | txt (ps : List Piece) (start : Nat)
  | cd (t : StrSpan) (junk : StrSpan)
  deriving Repr, Inhabited

/-- A spelled node. `junk` fields are the whole-token spans xot never looks at. -/
inductive SNode where
  /-- `<name attrs> kids </cname>` -/
  | elem (name : StrSpan) (pstart : Nat) (junk : StrSpan) (attrs : List SAttr) (openSp : StrSpan)
      (kids : List SNode) (cname : StrSpan) (cpstart : Nat) (closeSp : StrSpan)
  /-- `<name attrs/>` -/
  | empty (name : StrSpan) (pstart : Nat) (junk : StrSpan) (attrs : List SAttr) (endSp : StrSpan)
  /-- a maximal run of text and CDATA parts -/
  | chars (parts : List SPart)
  | comment (text : StrSpan) (junk : StrSpan)
  | pi (target : StrSpan) (content : Option StrSpan) (junk : StrSpan)
  deriving Inhabited

def SAttr.token (a : SAttr) : Token :=
  .attribute ⟨[], a.pstart⟩ a.name ⟨renderPieces a.pieces, a.vstart⟩ a.junk

def SPart.token : SPart → Token
  | .txt ps start => .text ⟨renderPieces ps, start⟩
  | .cd t junk => .cdata t junk

/-- The tokens of a spelled node. -/
def SNode.tokens : SNode → List Token
  | .elem name pstart junk attrs openSp kids cname cpstart closeSp =>
    .elementStart ⟨[], pstart⟩ name junk :: (attrs.map SAttr.token ++
      (.elementEnd .open openSp :: (tokensList kids ++ [.elementEnd (.close ⟨[], cpstart⟩ cname) closeSp])))
  | .empty name pstart junk attrs endSp =>
    .elementStart ⟨[], pstart⟩ name junk :: (attrs.map SAttr.token ++ [.elementEnd .empty endSp])
  | .chars parts => parts.map SPart.token
  | .comment text junk => [.comment text junk]
  | .pi target content junk => [.pi target content junk]
where
  tokensList : List SNode → List Token
    | [] => []
    | k :: ks => SNode.tokens k ++ tokensList ks

/-- The character data one part contributes: a text part is decoded, a CDATA part is its content
    with line ends normalised. -/
def SPart.value : SPart → Str
  | .txt ps _ => valueOf false ps
  | .cd t _ => replaceCr (replaceCrLf t.text)

def partsValue (parts : List SPart) : Str := parts.flatMap SPart.value

def SAttr.denote (a : SAttr) : Str × Str := (a.name.text, valueOf true a.pieces)

/-- The abstract nodes a spelled node denotes (a character-data run without characters denotes
    nothing). -/
def SNode.denote : SNode → List PNode
  | .elem name _ _ attrs _ kids _ _ _ => [.elem name.text (attrs.map SAttr.denote) (denoteList kids)]
  | .empty name _ _ attrs _ => [.elem name.text (attrs.map SAttr.denote) []]
  | .chars parts => if partsValue parts = [] then [] else [.text (partsValue parts)]
  -- line ends are normalised in comments and processing instructions too (XML 1.0, 2.11)
  | .comment text _ => [.comment (normalizeLineEnds text.text)]
  | .pi target content _ => [.pi target.text (content.map (fun c => normalizeLineEnds c.text))]
where
  denoteList : List SNode → List PNode
    | [] => []
    | k :: ks => SNode.denote k ++ denoteList ks

/-- Attribute leaves for `(name, value)` pairs, names interned in order (namespace 0). -/
def encodeAttrs : Env → List (Str × Str) → Env × List Tree
  | env, [] => (env, [])
  | env, (a, v) :: rest =>
    let r := env.internName a Env.noNamespace
    let r2 := encodeAttrs r.1 rest
    (r2.1, .node (.attribute r.2 v) [] :: r2.2)

/-- The abstract document as an id tree: element name first, then its attribute names, then the
    children, in document order — the order in which a parser meets them. -/
def PNode.encode : Env → PNode → Env × Tree
  | env, .elem name attrs kids =>
    let r := env.internName name Env.noNamespace
    let ra := encodeAttrs r.1 attrs
    let rk := encodeList ra.1 kids
    (rk.1, .node (.element r.2) (ra.2 ++ rk.2))
  | env, .text s => (env, .node (.text s) [])
  | env, .comment s => (env, .node (.comment s) [])
  | env, .pi target data =>
    let r := env.internName target Env.noNamespace
    (r.1, .node (.pi r.2 data) [])
where
  encodeList : Env → List PNode → Env × List Tree
    | env, [] => (env, [])
    | env, k :: ks =>
      let r := PNode.encode env k
      let r2 := encodeList r.1 ks
      (r2.1, r.2 :: r2.2)

/-! ### Well-formedness of a spelling -/

/-- (`pstart = 0`: the absent prefix is xmlparser's `"".into()`, offset 0; an empty prefix at another
    offset is a colon with nothing in front of it, refused since /repo a5fafb0.) -/
def SAttr.Well (a : SAttr) : Prop :=
  WellSpelled a.pieces ∧ a.name.text ≠ ['x', 'm', 'l', 'n', 's'] ∧ a.pstart = 0

def SPart.Well : SPart → Prop
  | .txt ps _ => ps ≠ [] ∧ WellSpelled ps
  | .cd _ _ => True

def SNode.isChars : SNode → Bool
  | .chars _ => true
  | _ => false

/-- No two neighbouring character-data runs (they would be one run). -/
def noAdjChars : List SNode → Bool
  | a :: b :: rest => !(a.isChars && b.isChars) && noAdjChars (b :: rest)
  | _ => true

def attrsWell (attrs : List SAttr) : Prop :=
  (∀ a ∈ attrs, a.Well) ∧ (attrs.map (fun a => a.name.text)).Nodup

/-- A spelling is well formed: attribute values and text parts are well spelled, attribute names
    are pairwise different and none is `xmlns`, the end tag repeats the start tag's name, no two
    character-data runs are neighbours, no processing-instruction target is `xml` (any letter case),
    the absent prefixes have offset 0 (as the tokenizer reports them; `check_qname` of /repo a5fafb0
    takes an empty prefix at another offset for a colon with nothing in front). -/
def SNode.Well : SNode → Prop
  | .elem name pstart _ attrs _ kids cname cpstart _ =>
    attrsWell attrs ∧ cname.text = name.text ∧ noAdjChars kids = true ∧ wellList kids ∧
      pstart = 0 ∧ cpstart = 0
  | .empty _ pstart _ attrs _ => attrsWell attrs ∧ pstart = 0
  | .chars parts => ∀ p ∈ parts, p.Well
  | .comment _ _ => True
  -- the target `xml` (any letter case) is reserved
  | .pi target _ _ => isReservedPiTarget target.text = false
where
  wellList : List SNode → Prop
    | [] => True
    | k :: ks => SNode.Well k ∧ wellList ks

end XotModel
