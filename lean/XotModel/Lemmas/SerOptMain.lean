/-
  C14_options, tree level: for a representable document and ANY token parameters (`unescaped_gt`,
  CDATA-section elements) the serialised string is the canonical rendering of a token list that meets the
  tokenizer contract, and the builder turns that list into the ORIGINAL tree — the default round trip
  (C01, Lemmas/RoundTrip*.lean) transported along "same spelling up to the character data runs".
-/
import XotModel.Lemmas.SerOptSpell
import XotModel.Lemmas.SerOptResp
import XotModel.Lemmas.RoundTripEncode
import XotModel.Lemmas.RoundTripSerialises
import XotModel.Lemmas.RoundTripDeepEqual
import XotModel.Lemmas.LexCanon
import XotModel.Model.ParseString

namespace XotModel

variable (env : Env) (pr : TokenParams)

/-- What the serialisation of a representable fragment under any token parameters stands for. -/
structure OptFacts (t : Tree) (ts ts' : List Token) : Prop where
  /-- the default serialisation succeeds as well -/
  hts : serTokensTop env t = .ok ts
  /-- the tokens differ from the default ones by the spelling of the text nodes only -/
  hrel : TokRel ts ts'
  /-- they are the tokens of a spelling the builder admits … -/
  htok : NSNode.tokens.tokensList (spellAtO env pr t []) = ts'
  hwell : WellNsDoc (spellAtO env pr t [])
  /-- … which denotes what the default spelling denotes -/
  hden : NSNode.denote.denoteList baseScope (spellAtO env pr t []) =
    NSNode.denote.denoteList baseScope (spellTop env t)

theorem optFacts {t : Tree} (hr : RepresentableFragment env t = true) {ts' : List Token}
    (h : serTokensAtO env pr t [] = .ok ts') : ∃ ts, OptFacts env pr t ts ts' := by
  obtain ⟨htok, ts, hts⟩ := spellAtO_tokens env pr t [] ts' h
  obtain ⟨_, _, hn, _⟩ := (representableFragment_iff env t).mp hr
  have hresp := spellAt_resp env pr t [] hn
  obtain ⟨ks, rfl, hf⟩ := topFacts hr hts
  have hrel := respList_tokRel _ _ hresp
  rw [htok, spellAt_tokens env _ [] ts hts] at hrel
  exact ⟨ts, hts, hrel, htok, respList_wellNsDoc hresp (spellTop_well hf), (respList_denote _ _ _ hresp).symm⟩

/-- On the round-trip domain the serialised string is the rendering of `serTokensAtO`. -/
theorem serializeString_ok_representable {t : Tree} (hr : RepresentableFragment env t = true) (start : Path)
    {s : Str} (hs : serializeString env pr t start = .ok s) :
    ∃ ts', serTokensAtO env pr t start = .ok ts' ∧ s = renderTokens ts' := by
  obtain ⟨henv, _, hn, _⟩ := (representableFragment_iff env t).mp hr
  have := serializeString_serTokensAtO env pr t start (by rw [envOK_xmlPrefix env henv]; simp)
    (nodeOK_declsNamed env t hn)
  rw [show serializeString env pr t start = serializeStringWith xmlEscapers env pr t start from rfl, this] at hs
  cases hts : serTokensAtO env pr t start with
  | ok ts => rw [hts] at hs; cases hs; exact ⟨ts, rfl, rfl⟩
  | error e => rw [hts] at hs; cases hs

/-- `LexOK` in document mode. -/
theorem options_lexOK {t : Tree} (hr : Representable env t = true) {ts' : List Token}
    (h : serTokensAtO env pr t [] = .ok ts') : LexOK false ts' = true := by
  have hfrag : RepresentableFragment env t = true := by
    simp only [Representable, Bool.and_eq_true] at hr; exact hr.1
  obtain ⟨ts, hf⟩ := optFacts env pr hfrag h
  exact tokRel_lexOK false hf.hrel (lexOK_document env t hr ts hf.hts)

/-- `LexOK` in fragment mode. -/
theorem options_lexOK_fragment {t : Tree} (hr : RepresentableFragment env t = true) {ts' : List Token}
    (h : serTokensAtO env pr t [] = .ok ts') : LexOK true ts' = true := by
  obtain ⟨ts, hf⟩ := optFacts env pr hr h
  exact tokRel_lexOK true hf.hrel (lexOK_fragment env t hr ts hf.hts)

/-- The builder on the tokens of any parameter set returns the original tree (`parse`). -/
theorem options_build {t : Tree} (hr : Representable env t = true) {ts' : List Token}
    (h : serTokensAtO env pr t [] = .ok ts') (len : Nat) :
    ∃ p, build .document len env ts' none = .ok p ∧ p.tree = t ∧ p.env = env := by
  simp only [Representable, Bool.and_eq_true] at hr
  obtain ⟨hfrag, hsingle⟩ := hr
  obtain ⟨ts, hf⟩ := optFacts env pr hfrag h
  obtain ⟨ks, rfl, htf⟩ := topFacts hfrag hf.hts
  obtain ⟨p0, hb, ht, he⟩ := build_document_spelled_ns htf.he.envBaseNs len
    (spellAtO env pr (.node .document ks) []) hf.hwell
    (by rw [hf.hden]; exact wellFormedTop_of_abstractNs (spellTop_abstractTop htf hsingle))
  rw [hf.htok] at hb
  rw [hf.hden, spellTop_encode htf] at ht he
  exact ⟨p0, hb, ht, he⟩

/-- `parse_fragment`. -/
theorem options_build_fragment {t : Tree} (hr : RepresentableFragment env t = true) {ts' : List Token}
    (h : serTokensAtO env pr t [] = .ok ts') (len : Nat) :
    ∃ p, build .fragment len env ts' none = .ok p ∧ p.tree = t ∧ p.env = env := by
  obtain ⟨ts, hf⟩ := optFacts env pr hr h
  obtain ⟨ks, rfl, htf⟩ := topFacts hr hf.hts
  obtain ⟨p0, hb, ht, he⟩ := build_fragment_spelled_ns htf.he.envBaseNs len
    (spellAtO env pr (.node .document ks) []) hf.hwell
  rw [hf.htok] at hb
  rw [hf.hden, spellTop_encode htf] at ht he
  exact ⟨p0, hb, ht, he⟩

/-- **The closed loop under any token parameters** (`parse`): the serialised STRING parses back to the
    original tree, tables unchanged. -/
theorem options_roundtrip {t : Tree} (hr : Representable env t = true) {s : Str}
    (hs : serializeString env pr t [] = .ok s) :
    ∃ p, parseString .document env s = .ok p ∧ p.tree = t ∧ p.env = env := by
  have hfrag : RepresentableFragment env t = true := by
    simp only [Representable, Bool.and_eq_true] at hr; exact hr.1
  obtain ⟨ts', hser, rfl⟩ := serializeString_ok_representable env pr hfrag [] hs
  obtain ⟨ts, hl, her⟩ := lexDocument_render_erase ts' (options_lexOK env pr hr hser)
  obtain ⟨p0, hb, ht, he⟩ := options_build env pr hr hser (strLen (renderTokens ts'))
  obtain ⟨p, hp, h1, h2, _⟩ := build_erase_ok .document _ (strLen (renderTokens ts')) env ts' ts her.1.symm her.2 p0 hb
  refine ⟨p, ?_, by rw [h1, ht], by rw [h2, he]⟩
  simp only [parseString, lexMode, hl]
  exact hp

/-- `parse_fragment`. -/
theorem options_roundtrip_fragment {t : Tree} (hr : RepresentableFragment env t = true) {s : Str}
    (hs : serializeString env pr t [] = .ok s) :
    ∃ p, parseString .fragment env s = .ok p ∧ p.tree = t ∧ p.env = env := by
  obtain ⟨ts', hser, rfl⟩ := serializeString_ok_representable env pr hr [] hs
  obtain ⟨ts, hl, her⟩ := lexFragment_render_erase ts' (options_lexOK_fragment env pr hr hser)
  obtain ⟨p0, hb, ht, he⟩ := options_build_fragment env pr hr hser (strLen (renderTokens ts'))
  obtain ⟨p, hp, h1, h2, _⟩ := build_erase_ok .fragment _ (strLen (renderTokens ts')) env ts' ts her.1.symm her.2 p0 hb
  refine ⟨p, ?_, by rw [h1, ht], by rw [h2, he]⟩
  simp only [parseString, lexMode, hl]
  exact hp

/-- The parameters never decide about success: `serialize_xml_string` succeeds under `pr` iff it does
    under the default parameters (`to_string`), i.e. iff `namesWritable` (C01_serialises). -/
theorem serTokensAtO_ok_default {t : Tree} {start : Path} {ts' : List Token}
    (h : serTokensAtO env pr t start = .ok ts') : ∃ ts, serTokensAt env false t start = .ok ts :=
  (spellAtO_tokens env pr t start ts' h).2

/-- **When does it succeed?**  Exactly when the default serialisation does: iff every namespaced name has a
    usable prefix in scope (`namesWritable`, C01_serialises). -/
theorem options_serialises {t : Tree} (hr : RepresentableFragment env t = true) :
    (∃ s, serializeString env pr t [] = .ok s) ↔ namesWritable env t [] = some true := by
  obtain ⟨henv, _, hn, _⟩ := (representableFragment_iff env t).mp hr
  have hren := serializeString_serTokensAtO env pr t [] (by rw [envOK_xmlPrefix env henv]; simp)
    (nodeOK_declsNamed env t hn)
  rw [← serTokensTop_ok_iff hr]
  constructor
  · rintro ⟨s, hs⟩
    obtain ⟨ts', h1, _⟩ := serializeString_ok_representable env pr hr [] hs
    obtain ⟨ts, h2⟩ := serTokensAtO_ok_default env pr h1
    simp [serTokensTop, h2, exceptIsOk]
  · intro h
    cases h0 : serTokensTop env t with
    | error e => simp [h0, exceptIsOk] at h
    | ok ts0 =>
      obtain ⟨ts, h1⟩ := serTokensAtO_of_default env pr t [] ts0 h0
      refine ⟨renderTokens ts, ?_⟩
      rw [show serializeString env pr t [] = serializeStringWith xmlEscapers env pr t [] from rfl, hren, h1]

/-- A representable tree is `deep_equal` to itself (the crate's own comparison). -/
theorem deepEqual_self_representable {t : Tree} (hr : RepresentableFragment env t = true) :
    deepEqual t t = true := by
  obtain ⟨_, _, hn, _⟩ := (representableFragment_iff env t).mp hr
  have hv := valid_of_nodeOK t hn
  exact (deepEqual_iff_canon t t hv hv).mpr rfl

end XotModel
