/-
  The invariant the construction routes maintain (`Good`: handles pairwise distinct and below
  `next`, as one statement about counts so that it transfers along permutations of the handle
  list), and the loops of `Element::xotify`: the two map-insertion loops and the `append` loop.
-/
import XotModel.Lemmas.FfixedMaps

namespace XotModel
open HTree

/-- Every handle occurs at most once, and only handles below `next` occur. -/
def Good (f : Forest) : Prop := ∀ a, f.allHandles.count a ≤ (if a < f.next then 1 else 0)

namespace Good
variable {f : Forest}

theorem nodup (h : Good f) : (handlesList f.roots).Nodup := by
  rw [List.nodup_iff_count]
  intro a
  have := h a
  unfold Forest.allHandles at this
  split at this <;> omega

theorem below (h : Good f) : ∀ a ∈ handlesList f.roots, a < f.next := by
  intro a ha
  have := h a
  unfold Forest.allHandles at this
  have hp : 0 < (handlesList f.roots).count a := List.count_pos_iff.2 ha
  split at this
  · assumption
  · omega

theorem of_nodup_below (hn : (handlesList f.roots).Nodup) (hb : ∀ a ∈ handlesList f.roots, a < f.next) :
    Good f := by
  intro a
  unfold Forest.allHandles
  have h1 := List.nodup_iff_count.1 hn a
  split
  · exact h1
  · rename_i hlt
    have : (handlesList f.roots).count a = 0 := List.count_eq_zero.2 (fun hm => hlt (hb a hm))
    omega

/-- The handle list is permuted, `next` does not decrease. -/
theorem of_count_eq {f' : Forest} (h : Good f) (hn : f.next ≤ f'.next)
    (hc : ∀ a, (handlesList f'.roots).count a = (handlesList f.roots).count a) : Good f' := by
  intro a
  have := h a
  unfold Forest.allHandles at this ⊢
  rw [hc a]
  split at this
  · rw [if_pos (by omega)]; exact this
  · split <;> omega

/-- One fresh handle (`f.next`) is added. -/
theorem of_count_new {f' : Forest} (h : Good f) (hn : f'.next = f.next + 1)
    (hc : ∀ a, (handlesList f'.roots).count a =
      (handlesList f.roots).count a + (if a = f.next then 1 else 0)) : Good f' := by
  intro a
  have := h a
  unfold Forest.allHandles at this ⊢
  rw [hc a, hn]
  by_cases e : a = f.next
  · subst e
    simp only [Nat.lt_irrefl, if_false] at this
    simp; omega
  · simp only [e, if_false, Nat.add_zero]
    split at this
    · rw [if_pos (by omega)]; exact this
    · split <;> omega

theorem newNode (h : Good f) (v : Value) : Good (f.newNode v).1 := by
  apply h.of_count_new (by simp [Forest.newNode])
  intro a
  simp only [Forest.newNode, handlesList_append_ff, List.count_append, handlesList, handles,
    List.append_nil, List.count_cons, List.count_nil, beq_iff_eq]
  by_cases e : a = f.next
  · simp [e]
  · have : ¬ (f.next = a) := fun e' => e e'.symm
    simp [e, this]

end Good

/-- Counting lemma: moving the root `tc` to the end of the children of the root `p`. -/
theorem count_move_last {X Y A B ks : List HTree} {tc : HTree} {p : Nat} {v : Value}
    (hXY : X ++ Y = A ++ HTree.node p v ks :: B) (a : Nat) :
    (handlesList (A ++ HTree.node p v (ks ++ [tc]) :: B)).count a =
      (handlesList (X ++ tc :: Y)).count a := by
  have e := congrArg (fun l => (handlesList l).count a) hXY
  simp only [handlesList_append_ff, handlesList, handles, List.count_append, List.count_cons,
    List.append_nil] at e ⊢
  omega

namespace Forest

def nsVal (p : Nat × Nat) : Value := .namespace p.1 p.2
def attrVal (a : Nat × Str) : Value := .attribute a.1 a.2

theorem good_after_insert {f : Forest} {A ks : List HTree} {el : Nat} {v e : Value}
    (hroots : f.roots = A ++ [HTree.node el v ks]) (hg : Good f) :
    Good { f with roots := A ++ [HTree.node el v (ks ++ [.node f.next e []])], next := f.next + 1 } := by
  apply hg.of_count_new rfl
  intro a
  simp only [hroots, handlesList_append_ff, handlesList, handles, List.count_append, List.count_cons,
    List.count_nil, List.append_nil, beq_iff_eq]
  by_cases e : a = f.next
  · simp [e]; omega
  · have : ¬ (f.next = a) := fun e' => e e'.symm
    simp [e, this]

/-- The prefix loop of `Element::xotify`. -/
theorem insertPrefixes_spec {A : List HTree} {el nm : Nat} : ∀ (ps : List (Nat × Nat)) (f : Forest)
    (ks : List HTree), f.roots = A ++ [HTree.node el (.element nm) ks] → Good f →
    (∀ c ∈ ks, c.value.category = .namespace) →
    (ks.map (fun c => entryKey c.value) ++ ps.map (·.1)).Nodup →
    f.insertPrefixes el ps =
      some { f with roots := A ++ [HTree.node el (.element nm) (ks ++ leavesFrom f.next (ps.map nsVal))],
                    next := f.next + ps.length }
  | [], f, ks, hroots, _, _, _ => by
    simp [insertPrefixes, leavesFrom, ← hroots]
  | p :: ps, f, ks, hroots, hg, hcat, hkeys => by
    have hr : MapReady .namespaces (entryKey (.namespace p.1 p.2)) ks := by
      intro c hc
      refine ⟨hcat c hc, ?_⟩
      intro e
      have hnd := List.nodup_append.1 hkeys
      exact hnd.2.2 _ (List.mem_map.2 ⟨c, hc, rfl⟩) p.1 (by simp) (by simpa [entryKey] using e)
    have hroots' : f.roots = A ++ HTree.node el (.element nm) ks :: [] := hroots
    unfold insertPrefixes
    rw [mapInsert_fresh f .namespaces _ hroots' hg.nodup hg.below hr]
    simp only
    rw [insertPrefixes_spec ps _ (ks ++ [.node f.next (.namespace p.1 p.2) []]) rfl
      (good_after_insert hroots hg)]
    · simp [leavesFrom, nsVal, Nat.add_assoc, Nat.add_comm 1]
    · intro c hc
      rw [List.mem_append, List.mem_singleton] at hc
      rcases hc with hc | rfl
      · exact hcat c hc
      · rfl
    · have hk : entryKey (HTree.node f.next (Value.namespace p.1 p.2) []).value = p.1 := rfl
      simp only [List.map_append, List.map_cons, List.map_nil, hk, List.append_assoc,
        List.cons_append, List.nil_append]
      exact hkeys

/-- The attribute loop of `Element::xotify`. -/
theorem insertAttributes_spec {A nsK : List HTree} {el nm : Nat}
    (hns : ∀ c ∈ nsK, c.value.category = .namespace) : ∀ (as : List (Nat × Str)) (f : Forest)
    (atK : List HTree), f.roots = A ++ [HTree.node el (.element nm) (nsK ++ atK)] → Good f →
    (∀ c ∈ atK, c.value.category = .attribute) →
    (atK.map (fun c => entryKey c.value) ++ as.map (·.1)).Nodup →
    f.insertAttributes el as =
      some { f with roots := A ++ [HTree.node el (.element nm) (nsK ++ (atK ++ leavesFrom f.next (as.map attrVal)))],
                    next := f.next + as.length }
  | [], f, atK, hroots, _, _, _ => by
    simp [insertAttributes, leavesFrom, ← hroots]
  | a :: as, f, atK, hroots, hg, hcat, hkeys => by
    have hr : MapReady .attributes (entryKey (.attribute a.1 a.2)) (nsK ++ atK) := by
      refine ⟨nsK, atK, rfl, hns, ?_⟩
      intro c hc
      refine ⟨hcat c hc, ?_⟩
      intro e
      have hnd := List.nodup_append.1 hkeys
      exact hnd.2.2 _ (List.mem_map.2 ⟨c, hc, rfl⟩) a.1 (by simp) (by simpa [entryKey] using e)
    have hroots' : f.roots = A ++ HTree.node el (.element nm) (nsK ++ atK) :: [] := hroots
    unfold insertAttributes
    rw [mapInsert_fresh f .attributes _ hroots' hg.nodup hg.below hr]
    simp only
    have hg' := good_after_insert (e := .attribute a.1 a.2) hroots hg
    rw [List.append_assoc] at hg'
    rw [List.append_assoc nsK atK]
    rw [insertAttributes_spec hns as _ (atK ++ [.node f.next (.attribute a.1 a.2) []])
      (show _ = A ++ [HTree.node el (.element nm) (nsK ++ (atK ++ [.node f.next (.attribute a.1 a.2) []]))] by
        simp) hg']
    · simp [leavesFrom, attrVal, Nat.add_assoc, Nat.add_comm 1]
    · intro c hc
      rw [List.mem_append, List.mem_singleton] at hc
      rcases hc with hc | rfl
      · exact hcat c hc
      · rfl
    · have hk : entryKey (HTree.node f.next (Value.attribute a.1 a.2) []).value = a.1 := rfl
      simp only [List.map_append, List.map_cons, List.map_nil, hk, List.append_assoc,
        List.cons_append, List.nil_append]
      exact hkeys

end Forest
end XotModel
