/-
  The `FullnameSerializer` stack (Model/Names `FStack`) against nearest-declaration-wins scoping:
  the top frame of the stack is the flattened scope of the declaration frames pushed so far.
-/
import XotModel.Model.Names

namespace XotModel

/-- Declaration lists of the open elements, innermost first (the last one is the scope the
    serialiser started with). -/
abbrev Frames := List (List (Nat × Nat))

/-- Nearest declaration wins: the binding of a prefix in the innermost frame that declares it. -/
def lookupFrames : Frames → Nat → Option Nat
  | [], _ => none
  | f :: fs, p =>
    match List.lookup p f with
    | some n => some n
    | none => lookupFrames fs p

/-- No prefix is declared twice on one element. -/
def UniquePrefixes (decls : List (Nat × Nat)) : Prop := (decls.map Prod.fst).Nodup

/-- `info` is the flattened scope of `fs`: one entry per bound prefix, carrying its binding. -/
def Flat (info : List (Nat × Nat)) (fs : Frames) : Prop :=
  UniquePrefixes info ∧ ∀ p n, (p, n) ∈ info ↔ lookupFrames fs p = some n

theorem lookup_none_iff (p : Nat) (l : List (Nat × Nat)) :
    List.lookup p l = none ↔ p ∉ l.map Prod.fst := by
  induction l with
  | nil => simp
  | cons d l ih =>
    obtain ⟨q, n⟩ := d
    by_cases h : p = q
    · subst h; simp [List.lookup]
    · have h' : (p == q) = false := by simpa using h
      simp [List.lookup, h', ih, h]

theorem lookup_some_iff {l : List (Nat × Nat)} (hu : UniquePrefixes l) (p n : Nat) :
    List.lookup p l = some n ↔ (p, n) ∈ l := by
  induction l with
  | nil => simp
  | cons d l ih =>
    obtain ⟨q, m⟩ := d
    have hu' : UniquePrefixes l := (List.nodup_cons.mp hu).2
    have hq : q ∉ l.map Prod.fst := (List.nodup_cons.mp hu).1
    by_cases h : p = q
    · subst h
      simp only [List.lookup, beq_self_eq_true, List.mem_cons, Prod.mk.injEq, true_and, Option.some.injEq]
      constructor
      · intro hm; exact Or.inl hm.symm
      · rintro (hm | hm)
        · exact hm.symm
        · exact absurd (List.mem_map_of_mem (f := Prod.fst) hm) hq
    · have h' : (p == q) = false := by simpa using h
      simp [List.lookup, h', ih hu', h]

theorem lookupFrames_nil_cons (fs : Frames) (p : Nat) : lookupFrames ([] :: fs) p = lookupFrames fs p := by
  simp [lookupFrames]

/-- One frame is its own flattened scope. -/
theorem flat_single {d : List (Nat × Nat)} (hu : UniquePrefixes d) : Flat d [d] := by
  refine ⟨hu, fun p n => ?_⟩
  simp only [lookupFrames]
  cases h : List.lookup p d with
  | none =>
    simp only [reduceCtorEq, iff_false]
    intro hm
    exact (lookup_none_iff p d).mp h (List.mem_map_of_mem (f := Prod.fst) hm)
  | some m =>
    have := (lookup_some_iff hu p m).mp h
    simp only [Option.some.injEq]
    constructor
    · intro hm
      have h2 := (lookup_some_iff hu p n).mpr hm
      rw [h] at h2; exact Option.some.inj h2
    · rintro rfl; exact this

theorem any_key_iff (decls : List (Nat × Nat)) (p : Nat) :
    (decls.any (fun d => d.1 == p)) = true ↔ p ∈ decls.map Prod.fst := by
  simp only [List.any_eq_true, List.mem_map]
  constructor
  · rintro ⟨d, hd, he⟩; exact ⟨d, hd, by simpa using he⟩
  · rintro ⟨d, hd, he⟩; exact ⟨d, hd, by simpa using he⟩

theorem mem_fullnameInfoNew (decls cur : List (Nat × Nat)) (p n : Nat) :
    (p, n) ∈ fullnameInfoNew decls cur ↔
      ((p, n) ∈ cur ∧ p ∉ decls.map Prod.fst) ∨ (p, n) ∈ decls := by
  unfold fullnameInfoNew
  simp only [List.mem_append, List.mem_filter]
  have : (!decls.any (fun x => x.1 == p)) = true ↔ p ∉ decls.map Prod.fst := by
    rw [← any_key_iff]
    cases decls.any (fun x => x.1 == p) <;> simp
  constructor
  · rintro (⟨h1, h2⟩ | h)
    · exact Or.inl ⟨h1, this.mp (by simpa using h2)⟩
    · exact Or.inr h
  · rintro (⟨h1, h2⟩ | h)
    · exact Or.inl ⟨h1, by simpa using this.mpr h2⟩
    · exact Or.inr h

/-- `FullnameInfo::new` keeps the invariant: the new top is the flattened scope of the frames
    extended by the element's declarations. -/
theorem flat_push {cur : List (Nat × Nat)} {fs : Frames} {decls : List (Nat × Nat)}
    (hf : Flat cur fs) (hu : UniquePrefixes decls) :
    Flat (fullnameInfoNew decls cur) (decls :: fs) := by
  obtain ⟨hcu, hc⟩ := hf
  refine ⟨?_, fun p n => ?_⟩
  · unfold UniquePrefixes fullnameInfoNew
    rw [List.map_append, List.nodup_append]
    refine ⟨(List.Nodup.sublist (List.Sublist.map _ List.filter_sublist) hcu), hu, ?_⟩
    intro a ha b hb hab
    subst hab
    obtain ⟨d, hd, rfl⟩ := List.mem_map.mp ha
    have hd2 := (List.mem_filter.mp hd).2
    have : (decls.any (fun x => x.1 == d.1)) = true := (any_key_iff decls d.1).mpr hb
    simp [this] at hd2
  · rw [mem_fullnameInfoNew]
    simp only [lookupFrames]
    cases h : List.lookup p decls with
    | none =>
      have hp := (lookup_none_iff p decls).mp h
      simp only []
      rw [← hc]
      constructor
      · rintro (⟨h1, _⟩ | h2)
        · exact h1
        · exact absurd (List.mem_map_of_mem (f := Prod.fst) h2) hp
      · intro h1; exact Or.inl ⟨h1, hp⟩
    | some m =>
      have hm := (lookup_some_iff hu p m).mp h
      have hp : p ∈ decls.map Prod.fst := List.mem_map_of_mem (f := Prod.fst) hm
      simp only [Option.some.injEq]
      constructor
      · rintro (⟨_, h2⟩ | h2)
        · exact absurd hp h2
        · have := (lookup_some_iff hu p n).mpr h2
          rw [h] at this; exact Option.some.inj this
      · rintro rfl; exact Or.inr hm

/-- The stack against the frames of the open elements: every stack entry is the flattened scope
    of the frames below it; an element without declarations adds an empty frame and no entry. -/
inductive StackInv : FStack → Frames → Prop
  | base (d : List (Nat × Nat)) : UniquePrefixes d → StackInv [d] [d]
  | skip (s : FStack) (fs : Frames) : StackInv s fs → StackInv s ([] :: fs)
  | push (s : FStack) (fs : Frames) (decls : List (Nat × Nat)) :
      StackInv s fs → UniquePrefixes decls → decls ≠ [] →
      StackInv (fullnameInfoNew decls s.top :: s) (decls :: fs)

/-- Invariant: the entries of `top` are the nearest-declaration-wins scope. -/
theorem StackInv.flat {s : FStack} {fs : Frames} (h : StackInv s fs) : Flat s.top fs := by
  induction h with
  | base d hu => exact flat_single hu
  | skip s fs _ ih =>
    exact ⟨ih.1, fun p n => by rw [lookupFrames_nil_cons]; exact ih.2 p n⟩
  | push s fs decls _ hu _ ih => exact flat_push ih hu

/-- `push` keeps the invariant (unique prefixes per element). -/
theorem StackInv.push' {s : FStack} {fs : Frames} (h : StackInv s fs) {decls : List (Nat × Nat)}
    (hu : UniquePrefixes decls) : StackInv (s.push decls) (decls :: fs) := by
  unfold FStack.push
  cases decls with
  | nil => exact StackInv.skip s fs h
  | cons d ds => exact StackInv.push s fs (d :: ds) h hu (by simp)

/-- `pop(has_namespace_declarations)` undoes the `push` of the same element. -/
theorem FStack.pop_push (s : FStack) (decls : List (Nat × Nat)) :
    (s.push decls).pop (!decls.isEmpty) = s := by
  unfold FStack.push FStack.pop
  cases decls <;> simp

end XotModel
