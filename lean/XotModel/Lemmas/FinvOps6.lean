/-
  Finv (C04), part 22: the composite edits whose intermediate states may violate the
  no-adjacent-text clause.  Proved here: `replace` and `elementWrap` when the node taken out does
  not sit between two text nodes in strict mode (`textGap = false`; in particular whenever
  consolidation has ever been off); `elementUnwrap` when its first step is `remove`;
  `cloneInto` / `cloneKids`, and `cloneNode` of a non-element.
-/
import XotModel.Lemmas.FinvReach

namespace XotModel
open HTree

namespace Forest

theorem cutOK_of_textGap {f : Forest} {a : Nat} (h : f.textGap a = false) : f.CutOK a := by
  intro hoff ctx hctx
  unfold textGap at h
  rw [hctx] at h
  simp only [hoff, Bool.not_false, Bool.true_and] at h
  unfold lastText headText lastB headB textFlags
  rw [List.getLast?_map, List.head?_map]
  exact h

theorem dropSubtree_inv {f : Forest} (hi : f.Inv) {a : Nat} (hcut : f.CutOK a) : (f.dropSubtree a).Inv := by
  unfold dropSubtree
  by_cases hm : a ∈ f.allHandles
  · obtain ⟨path, l, k, r, lc⟩ := exists_loc hm
    rw [cut_of_loc lc hi.nodup]
    exact cut_inv hi lc hcut
  · rw [cut_of_not_mem hm]; exact hi

theorem detachRaw_inv {f : Forest} (hi : f.Inv) {a : Nat} (hcut : f.CutOK a) : (f.detachRaw a).Inv := by
  unfold detachRaw
  by_cases hm : a ∈ f.allHandles
  · obtain ⟨path, l, k, r, lc⟩ := exists_loc hm
    rw [cut_of_loc lc hi.nodup]
    simp only
    have h1 := cut_inv hi lc hcut
    refine Inv.of_perm (f' := ({ f with roots := plug path (l ++ r) } : Forest).addRoot k) hi rfl rfl rfl rfl ?_ ?_
    · unfold addRoot allHandles
      simp only [fi_handlesList_append, fi_handlesList_cons, fi_handlesList_nil, List.append_nil]
      have := cut_perm hi.nodup (cut_of_loc lc hi.nodup)
      exact this
    · show validList (!f.everOff) (plug path (l ++ r) ++ [k]) = true
      rw [validList_append, Bool.and_eq_true]
      exact ⟨h1.valid, by simp [hi.validTree_of_loc lc]⟩
  · rw [cut_of_not_mem hm]; exact hi

/-- `replace`, when the replaced node does not sit between two text nodes in strict mode. -/
theorem replace_inv_of_noGap {f : Forest} (hi : f.Inv) (a b : Nat) (hg : f.textGap a = false) :
    (f.replace a b).1.Inv := by
  unfold replace
  split
  · exact hi
  cases f.parent? a with
  | none => exact hi
  | some parent =>
    simp only
    split
    · exact hi
    split
    · exact hi
    split
    · exact hi
    split
    · exact remove_inv hi a
    · have h1 := dropSubtree_inv hi (cutOK_of_textGap hg)
      cases f.prevSibling a with
      | none => exact prepend_inv h1 parent b
      | some p =>
        simp only
        have h2 := insertAfter_inv h1 p b
        cases hia : (f.dropSubtree a).insertAfter p b with
        | mk f2 r =>
          rw [hia] at h2
          simp only
          cases r with
          | ok =>
            cases f.nextSibling a with
            | none => exact h2
            | some n => exact removeConsolidate_inv h2 _ _
          | err e => exact h2
          | panic => exact h2

theorem ctx?_newNode {f : Forest} (v : Value) {x : Nat} {c : Ctx} (h : f.ctx? x = some c) :
    (f.newNode v).1.ctx? x = some c := by
  unfold ctx? newNode at *
  simp only
  rw [List.findSome?_append, h]
  rfl

theorem cutOK_newNode {f : Forest} (hi : f.Inv) (v : Value) {a : Nat} (hcut : f.CutOK a) (ha : a ∈ f.allHandles) :
    (f.newNode v).1.CutOK a := by
  intro hoff ctx hctx
  cases hc : f.ctx? a with
  | some c =>
    rw [ctx?_newNode v hc] at hctx
    have e : c = ctx := Option.some.inj hctx
    subst e
    exact hcut hoff _ hc
  | none =>
    -- `a` is a root of `f`, hence of the new forest: no context
    exfalso
    obtain ⟨path, l, k, r, lc⟩ := exists_loc ha
    cases path with
    | cons fr rest =>
      obtain ⟨p, hp⟩ := ctx?_of_loc_ne lc (by simp) hi.nodup
      rw [hp] at hc; cases hc
    | nil =>
      have lc' : Loc (f.newNode v).1.roots a [] l k (r ++ [.node f.next v []]) := by
        refine ⟨?_, lc.hk⟩
        show f.roots ++ [_] = _
        rw [lc.eq]; simp
      rw [ctx?_of_loc_nil lc' (newNode_inv hi v).nodup] at hctx
      cases hctx

/-- `element_wrap`, when the wrapped node does not sit between two text nodes in strict mode. -/
theorem elementWrap_inv_of_noGap {f : Forest} (hi : f.Inv) (node name : Nat) (hg : f.textGap node = false) :
    (f.elementWrap node name).1.Inv := by
  unfold elementWrap
  split
  · exact hi
  split
  · exact hi
  rename_i hnn
  split
  · exact hi
  have hlive : node ∈ f.allHandles := by
    obtain ⟨sv, hsv, _⟩ := value?_of_isNormalNode (by simpa using hnn)
    exact mem_allHandles_of_isLive (isLive_of_value? hsv)
  cases f.parent? node with
  | some parent =>
    simp only
    have h1 : (f.newElement name).1.Inv := newNode_inv hi _
    have hc1 : (f.newElement name).1.CutOK node := cutOK_newNode hi _ (cutOK_of_textGap hg) hlive
    cases hn : f.newElement name with
    | mk f1 wrapper =>
      rw [hn] at h1 hc1
      simp only
      have h2 := detachRaw_inv h1 hc1
      have h3 := append_inv h2 wrapper node
      cases ha : (f1.detachRaw node).append wrapper node with
      | mk f3 r3 =>
        rw [ha] at h3
        simp only
        cases r3 with
        | ok =>
          simp only
          cases f.prevSibling node with
          | some p => exact insertAfter_inv h3 p wrapper
          | none => exact prepend_inv h3 parent wrapper
        | err e => exact h3
        | panic => exact h3
  | none =>
    simp only
    have h1 : (f.newElement name).1.Inv := newNode_inv hi _
    cases hn : f.newElement name with
    | mk f1 wrapper =>
      rw [hn] at h1
      simp only
      exact append_inv h1 wrapper node

/-- `element_unwrap` of an element without normal children is `remove`. -/
theorem elementUnwrap_inv_of_childless {f : Forest} (hi : f.Inv) (node : Nat)
    (h : f.firstChild node = none) : (f.elementUnwrap node).1.Inv := by
  unfold elementUnwrap
  split
  · exact hi
  · rw [h]; exact remove_inv hi node

theorem elementUnwrap_refused_inv {f : Forest} (hi : f.Inv) (node : Nat)
    (h : f.isElement node = false ∨ f.parent? node = none ∧ (f.firstChild node).isSome = true) :
    (f.elementUnwrap node).1.Inv := by
  unfold elementUnwrap
  rcases h with h | ⟨h1, h2⟩
  · simp [h]; exact hi
  · split
    · exact hi
    · cases hf : f.firstChild node with
      | none => rw [hf] at h2; cases h2
      | some first => simp [h1]; exact hi

theorem clone_step_inv {f f2 : Forest} (hi : f.Inv) {v : Value} {current : Nat} {r : Res} {n : Nat}
    (heq : (f.newNode v).1.anyAppend current (f.newNode v).2 = (f2, r, n)) : f2.Inv := by
  have h2 := anyAppend_inv (newNode_inv hi v) current (f.newNode v).2
  rw [heq] at h2
  exact h2

mutual
  theorem cloneInto_inv (current : Nat) : ∀ (t : HTree) (f f' : Forest), f.Inv →
      cloneInto f current t = some f' → f'.Inv
    | .node h v ks, f, f' => by
      intro hi hc
      unfold cloneInto at hc
      cases v with
      | document => exact cloneKids_inv current ks f f' hi hc
      | _ =>
        simp only at hc
        split at hc
        · rename_i f2 _ heq
          exact cloneKids_inv _ ks f2 f' (clone_step_inv hi heq) hc
        · cases hc
  theorem cloneKids_inv (current : Nat) : ∀ (ks : List HTree) (f f' : Forest), f.Inv →
      cloneKids f current ks = some f' → f'.Inv
    | [], f, f' => by
      intro hi hc; rw [cloneKids] at hc; cases hc; exact hi
    | k :: ks, f, f' => by
      intro hi hc
      rw [cloneKids] at hc
      split at hc
      · rename_i f1 heq
        exact cloneKids_inv current ks f1 f' (cloneInto_inv current k f f1 hi heq) hc
      · cases hc
end

/-- `clone_node` of anything but an element (document: children replayed under a new document;
    other nodes: one new node). -/
theorem cloneNode_inv_of_not_element {f : Forest} (hi : f.Inv) (node : Nat)
    (hne : f.isElement node = false) : (f.cloneNode node).1.Inv := by
  unfold cloneNode
  cases hg : f.get? node with
  | none => exact hi
  | some src =>
    simp only
    split
    · have h1 : f.newDocument.1.Inv := newNode_inv hi _
      cases hn : f.newDocument with
      | mk f1 top =>
        rw [hn] at h1
        simp only
        cases hc : cloneKids f1 top src.kids with
        | some f2 => exact cloneKids_inv top _ f1 f2 h1 hc
        | none => exact h1
    · rename_i name hsv
      exfalso
      unfold isElement value? at hne
      rw [hg] at hne
      simp [hsv, Value.isElement] at hne
    · exact newNode_inv hi _

end Forest
end XotModel
