/-
  C17_inside / C17_errors: every span the builder records and every span an error carries has
  both end points in `[0, len]`, provided every token span ends inside the source.
-/
import XotModel.Model.Parse
import XotModel.Model.TokenShape
import XotModel.Lemmas.ParseContentErr
import XotModel.Lemmas.ParseQName

namespace XotModel

/-- Both end points lie in `[0, len]`. -/
def Span.InBounds (len : Nat) (sp : Span) : Prop := sp.start ≤ len ∧ sp.stop ≤ len

theorem StrSpan.span_inBounds {len : Nat} {s : StrSpan} (h : s.Inside len) : s.span.InBounds len := by
  unfold StrSpan.Inside StrSpan.stop at h
  unfold StrSpan.span StrSpan.stop Span.InBounds
  simp only
  omega

theorem fromPrefixName_inBounds {len : Nat} {p n : StrSpan} (hp : p.Inside len) (hn : n.Inside len) :
    (Span.fromPrefixName p n).InBounds len := by
  unfold StrSpan.Inside StrSpan.stop at hp hn
  unfold Span.fromPrefixName Span.InBounds StrSpan.stop
  split <;> simp only <;> omega

theorem contentErr_inBounds {len : Nat} {attr : Bool} {v : StrSpan} {e : ContentErr} (hv : v.Inside len)
    (h : parseContentGo attr v.start 0 v.text = .error e) : (ParseErr.ofContent e).span.InBounds len := by
  have hw := parseGo_error_within attr v.start _ v.text 0 e rfl h
  unfold StrSpan.Inside StrSpan.stop at hv
  cases e with
  | unclosed t p =>
    obtain ⟨a, b⟩ := hw
    simp only [ParseErr.ofContent, ParseErr.span, Span.InBounds]; omega
  | invalid t a b =>
    obtain ⟨x, y, z⟩ := hw
    simp only [ParseErr.ofContent, ParseErr.span, Span.InBounds]; omega

/-! ### The span map -/

def SpanMap.AllIn (len : Nat) (m : SpanMap) : Prop := ∀ e ∈ m, e.2.InBounds len

theorem lookup_mem {α β : Type} [BEq α] [LawfulBEq α] {l : List (α × β)} {k : α} {v : β}
    (h : l.lookup k = some v) : (k, v) ∈ l := by
  induction l with
  | nil => simp at h
  | cons x xs ih =>
    obtain ⟨a, b⟩ := x
    simp only [List.lookup] at h
    split at h
    · rename_i heq
      simp only [Option.some.injEq] at h
      have : k = a := by simpa using heq
      subst this; subst h; simp
    · exact List.mem_cons_of_mem _ (ih h)

theorem SpanMap.get_inBounds {len : Nat} {m : SpanMap} (h : m.AllIn len) {k : SpanKey} {sp : Span}
    (hg : m.get k = some sp) : sp.InBounds len :=
  h (k, sp) (lookup_mem hg)

theorem SpanMap.add_allIn {len : Nat} {m : SpanMap} (h : m.AllIn len) (k : SpanKey) {sp : Span}
    (hs : sp.InBounds len) : (m.add k sp).AllIn len := by
  intro e he
  simp only [SpanMap.add, List.mem_cons, List.mem_filter] at he
  rcases he with rfl | ⟨he, _⟩
  · exact hs
  · exact h e he

theorem SpanMap.extendText_allIn {len : Nat} {m : SpanMap} (h : m.AllIn len) (node : Path) {sp : Span}
    (hs : sp.InBounds len) : (m.extendText node sp).AllIn len := by
  unfold SpanMap.extendText
  split
  · rename_i existing hg
    exact SpanMap.add_allIn h _ ⟨(SpanMap.get_inBounds h hg).1, hs.2⟩
  · exact SpanMap.add_allIn h _ hs

theorem SpanMap.addAttributeSpans_allIn {len : Nat} (node : Path) (l : List (Nat × Span × Span)) :
    ∀ {m : SpanMap}, m.AllIn len → (∀ a ∈ l, a.2.1.InBounds len ∧ a.2.2.InBounds len) →
      (m.addAttributeSpans node l).AllIn len := by
  induction l with
  | nil => intro m h _; exact h
  | cons a rest ih =>
    intro m h ha
    obtain ⟨n, s1, s2⟩ := a
    simp only [SpanMap.addAttributeSpans]
    have := ha (n, s1, s2) (by simp)
    exact ih (SpanMap.add_allIn (SpanMap.add_allIn h _ this.1) _ this.2) (fun x hx => ha x (by simp [hx]))

/-! ### Builder invariant -/

def AttributeBuilder.SpansIn (len : Nat) (ab : AttributeBuilder) : Prop :=
  ab.nameSpan.InBounds len ∧ ab.valueSpan.InBounds len ∧ ab.prefixSpan.InBounds len

def ElementBuilder.SpansIn (len : Nat) (eb : ElementBuilder) : Prop :=
  eb.span.InBounds len ∧ eb.prefixSpan.InBounds len ∧ ∀ ab ∈ eb.attributes, ab.SpansIn len

def SpansIn (len : Nat) (b : Builder) : Prop :=
  b.spans.AllIn len ∧ ∀ eb, b.eb = some eb → eb.SpansIn len

/-- A step result is good: the new builder keeps the invariant / the error span is in bounds. -/
def StepGood (len : Nat) : Step Builder → Prop
  | .ok b' => SpansIn len b'
  | .err e _ => e.span.InBounds len
  | .panic => True

theorem spansIn_new (len : Nat) (env : Env) : SpansIn len (Builder.new env) :=
  ⟨fun e he => by simp [Builder.new] at he, fun eb h => by simp [Builder.new] at h⟩

theorem prefix_good {len : Nat} {b : Builder} (h : SpansIn len b) (p : Str) {u : StrSpan} {sp : Span}
    (hu : u.Inside len) (hsp : sp.InBounds len) : StepGood len (b.prefix p u sp) := by
  unfold Builder.prefix
  split
  · rename_i e he
    exact contentErr_inBounds hu he
  · split
    · exact hsp
    · dsimp only
      split
      · trivial
      · rename_i eb heb
        split
        · exact hsp
        · refine ⟨h.1, fun eb' he => ?_⟩
          simp only [Option.some.injEq] at he
          subst he
          exact h.2 eb heb

theorem attribute_good {len : Nat} {b : Builder} (h : SpansIn len b) {p l v : StrSpan}
    (hp : p.Inside len) (hl : l.Inside len) (hv : v.Inside len) : StepGood len (b.attribute p l v) := by
  unfold Builder.attribute
  split
  · trivial
  · rename_i eb heb
    split
    · exact fromPrefixName_inBounds hp hl
    · split
      · rename_i e he
        exact contentErr_inBounds hv he
      · refine ⟨h.1, fun eb' he => ?_⟩
        simp only [Option.some.injEq] at he
        subst he
        obtain ⟨h1, h2, h3⟩ := h.2 eb heb
        refine ⟨h1, h2, fun ab hab => ?_⟩
        simp only [List.mem_append, List.mem_singleton] at hab
        rcases hab with hab | rfl
        · exact h3 ab hab
        · exact ⟨fromPrefixName_inBounds hp hl, StrSpan.span_inBounds hv, StrSpan.span_inBounds hp⟩

theorem attributeNameId_err {len : Nat} {env env' : Env} {stack : NsStack} {pfx name : Str} {sp : Span} {e : ParseErr}
    (hs : sp.InBounds len) (h : attributeNameId env stack pfx name sp = .err e env') : e.span.InBounds len := by
  unfold attributeNameId at h
  dsimp only at h
  split at h
  · cases h
  · split at h
    · cases h
    · cases h; exact hs

theorem elementNameId_err {len : Nat} {env env' : Env} {stack : NsStack} {pfx name : Str} {sp : Span} {e : ParseErr}
    (hs : sp.InBounds len) (h : elementNameId env stack pfx name sp = .err e env') : e.span.InBounds len := by
  unfold elementNameId at h
  dsimp only at h
  split at h
  · cases h
  · cases h; exact hs

/-- Result of the attribute loop: errors in bounds, collected spans in bounds. -/
theorem addAttributes_good {len : Nat} (stack : NsStack) (node : Path) (abs : List AttributeBuilder) :
    ∀ (st : AttrLoop), (∀ ab ∈ abs, ab.SpansIn len) →
      (∀ a ∈ st.aspans, a.2.1.InBounds len ∧ a.2.2.InBounds len) →
      match addAttributes stack node st abs with
      | .ok st' => ∀ a ∈ st'.aspans, a.2.1.InBounds len ∧ a.2.2.InBounds len
      | .err e _ => e.span.InBounds len
      | .panic => True := by
  induction abs with
  | nil => intro st _ hs; simpa [addAttributes] using hs
  | cons ab rest ih =>
    intro st hab hs
    have hab0 := hab ab (by simp)
    simp only [addAttributes]
    cases hn : attributeNameId st.env stack ab.pfx ab.name ab.prefixSpan with
    | panic => trivial
    | err e env => exact attributeNameId_err hab0.2.2 hn
    | ok r =>
      obtain ⟨env1, nameId⟩ := r
      simp only
      by_cases hrep : st.seenNames.contains nameId = true
      · simp only [hrep, if_true]
        exact hab0.1
      · simp only [hrep]
        by_cases hdup : (nameId == Env.xmlIdName && st.seenIds.contains (xmlIdValue nameId ab.value)) = true
        · simp only [hdup, if_true]
          exact hab0.2.1
        · simp only [hdup]
          refine ih _ (fun x hx => hab x (by simp [hx])) ?_
          intro a ha
          simp only [List.mem_append, List.mem_singleton] at ha
          rcases ha with ha | rfl
          · exact hs a ha
          · exact ⟨hab0.1, hab0.2.1⟩

theorem openElement_good {len : Nat} {b : Builder} (h : SpansIn len b) : StepGood len b.openElement := by
  unfold Builder.openElement
  split
  · trivial
  · rename_i eb heb
    obtain ⟨h1, h2, h3⟩ := h.2 eb heb
    dsimp only
    split
    · trivial
    · rename_i e env he
      exact elementNameId_err h2 he
    · rename_i env1 nameId _
      have hl := addAttributes_good (len := len) (eb.namespaces :: b.nsStack) (b.curPath ++ [b.cur.rkids.length])
        eb.attributes { env := env1, seenIds := b.seenIds, idNodes := b.idNodes, seenNames := [], rkids := namespaceKids eb.namespaces, aspans := [] }
        h3 (fun a ha => by simp at ha)
      split
      · trivial
      · rename_i e env he
        rw [he] at hl; exact hl
      · rename_i st hst
        rw [hst] at hl
        refine ⟨?_, fun eb' he => by simp at he⟩
        exact SpanMap.addAttributeSpans_allIn _ _ (SpanMap.add_allIn h.1 _ h1) hl

theorem leave_good {len : Nat} {b : Builder} (h : SpansIn len b) (node : Path) {sp : StrSpan}
    (hs : sp.Inside len) : StepGood len (b.leave node sp) := by
  unfold Builder.leave Builder.toParent
  cases hpar : b.parents with
  | nil => trivial
  | cons p rest => exact ⟨SpanMap.add_allIn h.1 _ (StrSpan.span_inBounds hs), h.2⟩

theorem closeImmediate_good {len : Nat} {b : Builder} (h : SpansIn len b) {sp : StrSpan}
    (hs : sp.Inside len) : StepGood len (b.closeImmediate sp) := by
  unfold Builder.closeImmediate
  refine leave_good ?_ _ hs
  split
  · exact ⟨h.1, h.2⟩
  · exact h

theorem closeElement_good {len : Nat} {b : Builder} (h : SpansIn len b) {p l sp : StrSpan}
    (hp : p.Inside len) (hl : l.Inside len) (hs : sp.Inside len) : StepGood len (b.closeElement p l sp) := by
  unfold Builder.closeElement
  split
  · trivial
  · rename_i e env he
    exact elementNameId_err (StrSpan.span_inBounds hp) he
  · split
    · exact fromPrefixName_inBounds hp hl
    · split
      · split
        · exact fromPrefixName_inBounds hp hl
        · refine leave_good (b := _) ?_ _ hs
          exact ⟨h.1, h.2⟩
      · refine leave_good (b := _) ?_ _ hs
        exact ⟨h.1, h.2⟩

theorem addText_spans (b : Builder) (c : Str) : (b.addText c).1.spans = b.spans ∧ (b.addText c).1.eb = b.eb := by
  unfold Builder.addText; split <;> exact ⟨rfl, rfl⟩

theorem text_good {len : Nat} {b : Builder} (h : SpansIn len b) {t : StrSpan} (ht : t.Inside len) :
    StepGood len (b.text t) := by
  unfold Builder.text
  split
  · rename_i e he
    exact contentErr_inBounds ht he
  · rename_i content _
    obtain ⟨h1, h2⟩ := addText_spans b content
    refine ⟨?_, fun eb he => h.2 eb (by rw [← h2]; exact he)⟩
    simp only
    rw [h1]
    exact SpanMap.extendText_allIn h.1 _ (StrSpan.span_inBounds ht)

theorem cdata_good {len : Nat} {b : Builder} (h : SpansIn len b) {t : StrSpan} (ht : t.Inside len) :
    StepGood len (b.cdata t) := by
  unfold Builder.cdata
  split
  · exact h
  · obtain ⟨h1, h2⟩ := addText_spans b (replaceCr (replaceCrLf t.text))
    refine ⟨?_, fun eb he => h.2 eb (by rw [← h2]; exact he)⟩
    simp only
    rw [h1]
    exact SpanMap.extendText_allIn h.1 _ (StrSpan.span_inBounds ht)

theorem stepCore_good {len : Nat} {b : Builder} (h : SpansIn len b) (t : Token) (ht : t.Inside len) :
    StepGood len (b.stepCore t) := by
  cases t with
  | «attribute» p l v sp =>
    obtain ⟨hp, hl, hv, _⟩ := ht
    simp only [Builder.stepCore]
    split
    · exact prefix_good h _ hv (fromPrefixName_inBounds hp hl)
    · split
      · exact prefix_good h _ hv (fromPrefixName_inBounds hp hl)
      · exact attribute_good h hp hl hv
  | text t => exact text_good h ht
  | cdata t sp => exact cdata_good h ht.1
  | elementStart p l sp =>
    obtain ⟨hp, hl, _⟩ := ht
    refine ⟨h.1, fun eb he => ?_⟩
    simp only [Builder.element, Option.some.injEq] at he
    subst he
    exact ⟨fromPrefixName_inBounds hp hl, StrSpan.span_inBounds hp, fun ab hab => by simp [ElementBuilder.new] at hab⟩
  | elementEnd e sp =>
    cases e with
    | «open» => exact openElement_good h
    | close p l => exact closeElement_good h ht.1 ht.2.1 ht.2.2
    | empty =>
      simp only [Builder.stepCore]
      have ho := openElement_good h
      split
      · rename_i b1 h1
        rw [h1] at ho
        exact closeImmediate_good ho ht
      · rename_i r hne
        cases hb : b.openElement with
        | ok b2 => exact absurd hb (hne b2)
        | err e env => rw [hb] at ho; exact ho
        | panic => trivial
  | comment t sp =>
    refine ⟨?_, h.2⟩
    exact SpanMap.add_allIn h.1 _ (StrSpan.span_inBounds ht.1)
  | pi target content sp =>
    obtain ⟨ht1, ht2, _⟩ := ht
    simp only [Builder.stepCore]
    split
    · exact StrSpan.span_inBounds ht1
    refine ⟨?_, h.2⟩
    simp only [Builder.processingInstruction, Builder.addLeaf]
    have h1 := SpanMap.add_allIn (k := ⟨b.curPath ++ [b.cur.rkids.length], .piTarget⟩) h.1 (StrSpan.span_inBounds ht1)
    cases content with
    | none => exact h1
    | some c => exact SpanMap.add_allIn h1 _ (StrSpan.span_inBounds (ht2 c rfl))
  | declaration v e s sp =>
    simp only [Builder.stepCore]
    split
    · exact StrSpan.span_inBounds ht.1
    · exact h
  | dtdStart sp => exact StrSpan.span_inBounds ht
  | dtdEnd sp => exact StrSpan.span_inBounds ht
  | emptyDtd sp => exact StrSpan.span_inBounds ht
  | entityDecl sp => exact StrSpan.span_inBounds ht

/-- The names `check_qname` looks at lie inside the source when the token does. -/
theorem Token.qname_inside {len : Nat} {t : Token} {p l : StrSpan} (ht : t.Inside len)
    (hq : t.qname = some (p, l)) : p.Inside len ∧ l.Inside len := by
  cases t with
  | elementEnd e sp =>
    cases e <;> simp only [Token.qname, Option.some.injEq, Prod.mk.injEq, reduceCtorEq] at hq
    obtain ⟨rfl, rfl⟩ := hq; exact ⟨ht.1, ht.2.1⟩
  | «attribute» pfx loc value sp =>
    simp only [Token.qname, Option.some.injEq, Prod.mk.injEq] at hq; obtain ⟨rfl, rfl⟩ := hq
    exact ⟨ht.1, ht.2.1⟩
  | elementStart pfx loc sp =>
    simp only [Token.qname, Option.some.injEq, Prod.mk.injEq] at hq; obtain ⟨rfl, rfl⟩ := hq
    exact ⟨ht.1, ht.2.1⟩
  | _ => simp [Token.qname] at hq

theorem step_good {len : Nat} {b : Builder} (h : SpansIn len b) (t : Token) (ht : t.Inside len) :
    StepGood len (b.step t) := by
  refine b.step_cases t (fun _ => stepCore_good h t ht) ?_
  intro p l hq _
  obtain ⟨hp, hl⟩ := Token.qname_inside ht hq
  unfold StrSpan.Inside StrSpan.stop at hp
  unfold StrSpan.Inside at hl
  simp only [StepGood, ParseErr.span, Span.InBounds]
  omega

theorem run_good {len : Nat} (ts : List Token) (lexErr : Option Nat) (hlex : ∀ p, lexErr = some p → p ≤ len) :
    ∀ {b : Builder}, SpansIn len b → (∀ t ∈ ts, t.Inside len) → StepGood len (b.run ts lexErr) := by
  induction ts with
  | nil =>
    intro b h _
    cases lexErr with
    | none =>
      simp only [Builder.run]
      split
      · rename_i eb heb; exact (h.2 eb heb).1
      · exact h
    | some p => exact ⟨hlex p rfl, hlex p rfl⟩
  | cons t ts ih =>
    intro b h ht
    simp only [Builder.run]
    have hs := step_good h t (ht t (by simp))
    split
    · rename_i b1 h1
      rw [h1] at hs
      exact ih hs (fun x hx => ht x (by simp [hx]))
    · rename_i r hne
      cases hb : b.step t with
      | ok b2 => exact absurd hb (hne b2)
      | err e env => rw [hb] at hs; exact hs
      | panic => trivial

/-! ### Epilogues -/

def BuildGood (len : Nat) : BuildResult → Prop
  | .ok p => p.spans.AllIn len
  | .err e _ => e.span.InBounds len
  | .panic => True

theorem unclosed_good {len : Nat} {b : Builder} (h : SpansIn len b) : BuildGood len b.unclosed := by
  unfold Builder.unclosed
  split
  · rename_i sp hg; exact SpanMap.get_inBounds h.1 hg
  · trivial

theorem topLevelScan_err {len : Nat} {spans : SpanMap} (h : spans.AllIn len) (ks : List Tree) :
    ∀ (i : Nat) (elems : List Nat) (e : ParseErr), topLevelScan spans i ks elems = .err e → e.span.InBounds len := by
  induction ks with
  | nil => intro i elems e he; simp [topLevelScan] at he
  | cons k rest ih =>
    intro i elems e he
    simp only [topLevelScan] at he
    split at he
    · exact ih _ _ _ he
    · split at he
      · rename_i sp hg
        cases he
        exact SpanMap.get_inBounds h hg
      · cases he
    · exact ih _ _ _ he

theorem finishDocument_good {len : Nat} {b : Builder} (h : SpansIn len b) : BuildGood len (b.finishDocument len) := by
  unfold Builder.finishDocument
  split
  · split
    · trivial
    · rename_i e he
      exact topLevelScan_err h.1 _ _ _ _ he
    · split
      · exact ⟨Nat.le_refl _, Nat.le_refl _⟩
      · exact h.1
      · split
        · rename_i sp hg; exact SpanMap.get_inBounds h.1 hg
        · trivial
  · exact unclosed_good h

theorem finishFragment_good {len : Nat} {b : Builder} (h : SpansIn len b) : BuildGood len b.finishFragment := by
  unfold Builder.finishFragment
  split
  · exact h.1
  · exact unclosed_good h

theorem build_good {len : Nat} (m : Mode) (env : Env) (ts : List Token) (lexErr : Option Nat)
    (hin : ∀ t ∈ ts, t.Inside len) (hlex : ∀ p, lexErr = some p → p ≤ len) :
    BuildGood len (build m len env ts lexErr) := by
  unfold build
  have hr := run_good ts lexErr hlex (spansIn_new len env) hin
  split
  · trivial
  · rename_i e env' he
    rw [he] at hr; exact hr
  · rename_i b hb
    rw [hb] at hr
    cases m with
    | document => exact finishDocument_good hr
    | fragment => exact finishFragment_good hr

end XotModel
