/-
  XotModel.Lemmas.ScopeUndecl — `deduplicate_namespaces` never removes a binding to the
  no-namespace id (`xmlns=""`, and `xmlns:p=""` which Xot accepts), over whole trees.

  Per element this is `mem_dedupToRemove` (the no-namespace id is never in `to_remove`) plus
  `eraseKids_facts` (a declaration whose namespace is not in `to_remove` survives — this needs
  unique prefixes on the element: the removal loop goes by PREFIX and takes the first node with
  that key).  Here it is chained through `rbWalk` and down the path of an inner call.
-/
import XotModel.Lemmas.ScopeInner
import XotModel.Lemmas.ScopeUnres

namespace XotModel

/-- Every binding to the no-namespace id in `b` (before) is in `a` (after). -/
def KeepsUndecl (a b : List (Nat × Nat)) : Prop :=
  ∀ kv ∈ b, kv.2 = Env.noNamespace → kv ∈ a

/-- Pointwise `KeepsUndecl` over the per-node declaration lists (`declsOfTree`). -/
inductive AllKeep : List (List (Nat × Nat)) → List (List (Nat × Nat)) → Prop
  | nil : AllKeep [] []
  | cons {a b : List (Nat × Nat)} {as bs : List (List (Nat × Nat))} :
      KeepsUndecl a b → AllKeep as bs → AllKeep (a :: as) (b :: bs)

theorem AllKeep.refl : ∀ l, AllKeep l l
  | [] => .nil
  | _ :: as => .cons (fun _ h _ => h) (AllKeep.refl as)

theorem AllKeep.append {a b c d : List (List (Nat × Nat))} (h1 : AllKeep a b) (h2 : AllKeep c d) :
    AllKeep (a ++ c) (b ++ d) := by
  induction h1 with
  | nil => exact h2
  | cons hs _ ih => exact .cons hs ih

theorem AllKeep.length_eq {a b : List (List (Nat × Nat))} (h : AllKeep a b) : a.length = b.length := by
  induction h with
  | nil => rfl
  | cons _ _ ih => simp [ih]

/-- Read at a position. -/
theorem AllKeep.get {a b : List (List (Nat × Nat))} (h : AllKeep a b) (i : Nat)
    (x y : List (Nat × Nat)) (hx : a[i]? = some x) (hy : b[i]? = some y) : KeepsUndecl x y := by
  induction h generalizing i with
  | nil => simp at hx
  | cons hs _ ih =>
    cases i with
    | zero =>
      simp only [List.getElem?_cons_zero, Option.some.injEq] at hx hy
      subst hx hy
      exact hs
    | succ j => exact ih j (by simpa using hx) (by simpa using hy)

theorem declsOfList_eraseKids (decls : List (Nat × Nat)) (toRemove : List Nat) (ks : List Tree) :
    declsOfTree.declsOfList (eraseKids decls toRemove ks) = declsOfTree.declsOfList ks := by
  apply eraseKids_induction (P := fun l => declsOfTree.declsOfList l = declsOfTree.declsOfList ks)
  · intro p ns _ _ l hl; rw [declsOfList_removeNsKid]; exact hl
  · rfl

mutual
theorem rb_keeps (env : Env) : ∀ (x : Tree) (top : List (Nat × Nat)) (tr : Tracker),
    UniqueDeclsBelow x → AllKeep (declsOfTree (rbWalk env top x tr).2) (declsOfTree x)
  | .node v ks, top, tr, hu => by
    have hkids := fun (top : List (Nat × Nat)) (tr : Tracker) =>
      rb_keeps_list env ks top tr (fun i k hk => hu.kid hk)
    cases v with
    | element name =>
      have hnd : ((declsOfKids ks).map Prod.fst).Nodup := by
        simpa [nsDecls_node] using hu.self (t := .node (.element name) ks) rfl
      simp only [rbWalk, nsDecls_node, eraseOwn_node, declsOfTree, declsOfList_eraseKids]
      refine .cons ?_ (hkids _ _)
      intro kv hkv h0
      refine (eraseKids_facts env [] (.element name) ks _ _ (rb_values env ks _ _) hnd).2.1 kv hkv ?_
      intro hin
      exact (mem_dedupToRemove.1 hin).2.1 h0
    | document => simp only [rbWalk, declsOfTree, nsDecls_node, declsOfKids_congr _ ks (rb_values env ks _ _)]; exact .cons (fun _ h _ => h) (hkids _ _)
    | text s => simp only [rbWalk, declsOfTree, nsDecls_node, declsOfKids_congr _ ks (rb_values env ks _ _)]; exact .cons (fun _ h _ => h) (hkids _ _)
    | pi a b => simp only [rbWalk, declsOfTree, nsDecls_node, declsOfKids_congr _ ks (rb_values env ks _ _)]; exact .cons (fun _ h _ => h) (hkids _ _)
    | comment s => simp only [rbWalk, declsOfTree, nsDecls_node, declsOfKids_congr _ ks (rb_values env ks _ _)]; exact .cons (fun _ h _ => h) (hkids _ _)
    | «attribute» a b => simp only [rbWalk, declsOfTree, nsDecls_node, declsOfKids_congr _ ks (rb_values env ks _ _)]; exact .cons (fun _ h _ => h) (hkids _ _)
    | «namespace» a b => simp only [rbWalk, declsOfTree, nsDecls_node, declsOfKids_congr _ ks (rb_values env ks _ _)]; exact .cons (fun _ h _ => h) (hkids _ _)
theorem rb_keeps_list (env : Env) : ∀ (ks : List Tree) (top : List (Nat × Nat)) (tr : Tracker),
    (∀ (i : Nat) (k : Tree), ks[i]? = some k → UniqueDeclsBelow k) →
    AllKeep (declsOfTree.declsOfList (rbWalk.rbList env top ks tr).2) (declsOfTree.declsOfList ks)
  | [], top, tr, _ => by simpa [rbWalk.rbList, declsOfTree.declsOfList] using AllKeep.nil
  | k :: ks, top, tr, hu => by
    have h1 := rb_keeps env k top tr (hu 0 k rfl)
    have h2 := rb_keeps_list env ks top (rbWalk env top k tr).1
      (fun i k' hk => hu (i + 1) k' (by simpa using hk))
    simp only [rbWalk.rbList, declsOfTree.declsOfList, rb_value env k top tr]
    split
    · exact h2
    · exact h1.append h2
end

/-! ### Down the path of an inner call -/

theorem keep_modify (g : Tree → Tree) : ∀ (l : List Tree) (i : Nat) (k : Tree), l[i]? = some k →
    (g k).value = k.value → AllKeep (declsOfTree (g k)) (declsOfTree k) →
    declsOfKids (l.modify i g) = declsOfKids l ∧
      AllKeep (declsOfTree.declsOfList (l.modify i g)) (declsOfTree.declsOfList l)
  | [], _, _, h, _, _ => by simp at h
  | a :: l, 0, k, h, hv, hk => by
    simp only [List.getElem?_cons_zero, Option.some.injEq] at h
    subst h
    simp only [List.modify_zero_cons, declsOfKids, hv, declsOfTree.declsOfList, true_and]
    split
    · exact AllKeep.refl _
    · exact hk.append (AllKeep.refl _)
  | a :: l, i + 1, k, h, hv, hk => by
    simp only [List.getElem?_cons_succ] at h
    obtain ⟨h1, h2⟩ := keep_modify g l i k h hv hk
    simp only [List.modify_succ_cons, declsOfKids, h1, declsOfTree.declsOfList, true_and]
    split
    · exact h2
    · exact (AllKeep.refl _).append h2

theorem keep_modifyAt (f : Tree → Tree) : ∀ (q : Path) (x sub : Tree), x.at? q = some sub →
    (f sub).value = sub.value → AllKeep (declsOfTree (f sub)) (declsOfTree sub) →
    (scopeModifyAt f x q).value = x.value ∧ AllKeep (declsOfTree (scopeModifyAt f x q)) (declsOfTree x)
  | [], x, sub, h, hv, hk => by
    simp only [Tree.at?, Option.some.injEq] at h
    subst h
    exact ⟨by simpa [scopeModifyAt] using hv, by simpa [scopeModifyAt] using hk⟩
  | i :: q, .node v l, sub, h, hv, hk => by
    simp only [Tree.at?] at h
    cases hki : l[i]? with
    | none => simp [hki] at h
    | some k =>
      simp only [hki] at h
      obtain ⟨h1, h2⟩ := keep_modifyAt f q k sub h hv hk
      obtain ⟨h3, h4⟩ := keep_modify (fun k => scopeModifyAt f k q) l i k hki h1 h2
      refine ⟨rfl, ?_⟩
      simp only [scopeModifyAt, declsOfTree, nsDecls_node, h3]
      exact .cons (fun _ h _ => h) h4

/-- `deduplicate_namespaces(node)`, any node: every binding to the no-namespace id stays. -/
theorem dedup_keeps_undeclarations (env : Env) (t t' : Tree) (path : Path) (sub : Tree)
    (hs : t.at? path = some sub) (hu : UniqueDeclsBelow sub)
    (h : deduplicateNamespaces env t path = some t') : AllKeep (declsOfTree t') (declsOfTree t) := by
  rw [deduplicateNamespaces_inner env t path sub hs] at h
  simp only [Option.some.injEq] at h
  subst h
  exact (keep_modifyAt _ path t sub hs (rb_value env sub [] []) (rb_keeps env sub [] [] hu)).2

end XotModel
