/-
  Proofs of two C14 property theorems, kept out of Props/C14.lean (which holds statements and short proofs).
-/
import XotModel.Lemmas.Output
import XotModel.Lemmas.Pretty
import XotModel.Lemmas.PrettyWhere
import XotModel.Lemmas.PrettyBetween
import XotModel.Lemmas.Doctype
import XotModel.Lemmas.Prolog
import XotModel.Lemmas.XmlDeclRest
import XotModel.Lemmas.Entity

namespace XotModel
open Gen

theorem pretty_content (esc : Escapers) (env : Env) (pr : TokenParams) (sup : List Nat) (t : Tree)
    (start : Path) (ks : List (Path × Output × PrettyOutputToken))
    (h : prettyTokensWith esc env pr sup t start = .ok ks) :
    tokensWith esc env pr t start = .ok (ks.map erasePretty) := by
  unfold prettyTokensWith at h
  unfold tokensWith
  have := prettyAll_erase esc env pr t sup [] (initStack t start) (genOutputs t start)
  cases hp : prettyAllWith esc env pr sup t [] (initStack t start) (genOutputs t start) with
  | ok l =>
    simp only [hp] at h this
    cases h
    rw [this]
  | err e => simp [hp] at h
  | panic => simp [hp] at h

theorem pretty_string_bytes (esc : Escapers) (env : Env) (pr : TokenParams) (sup : List Nat) (t : Tree)
    (start : Path) (s : Str) (h : serializePrettyWith esc env pr sup t start = .ok s) :
    ∃ ks : List (Path × Output × PrettyOutputToken),
      tokensWith esc env pr t start = .ok (ks.map erasePretty) ∧
      s = ks.flatMap (fun k => prettyTokenBytes k.2.2) ∧
      ∀ k ∈ ks, prettyTokenBytes k.2.2 =
        (if k.2.2.indentation > 0 then indentBytes k.2.2.indentation else [])
          ++ tokenBytes (erasePretty k).2.2 ++ (if k.2.2.newline then prettyNewline else []) := by
  unfold serializePrettyWith serializePrettyWriteWith bufferToString at h
  have ho := writePrettyGo_outcome esc env pr t sup [] (initStack t start) (genOutputs t start)
  cases hr : prettyAllWith esc env pr sup t [] (initStack t start) (genOutputs t start) with
  | ok ks =>
    have hk : prettyTokensWith esc env pr sup t start = .ok ks := by simp [prettyTokensWith, hr]
    refine ⟨ks, pretty_content esc env pr sup t start ks hk, ?_, ?_⟩
    · rw [writePrettyGo_of_prettyAll_ok esc env pr t sup _ _ _ _ hr] at h
      simp at h
      rw [← h]; rfl
    · intro k _
      obtain ⟨p, o, ind, sp, tx, nl⟩ := k
      cases sp <;> simp [prettyTokenBytes, tokenBytes, erasePretty]
  | err e => rw [hr] at ho; simp only [] at ho; rw [ho] at h; cases h
  | panic => rw [hr] at ho; simp only [] at ho; rw [ho] at h; cases h

theorem pretty_where_tree_mixed (esc : Escapers) (env : Env) (pr : TokenParams) (sup : List Nat)
    (t : Tree) (start : Path) (n : Tree) (inScope : List (Nat × Nat)) (hat : t.at? start = some n)
    (hs : namespacesInScope t start = some inScope)
    (ks : List (Path × Output × PrettyOutputToken))
    (h : prettyTokensWith esc env pr sup t start = .ok ks)
    (k : Path × Output × PrettyOutputToken) (hk : k ∈ ks)
    (hw : k.2.2.indentation > 0 ∨ k.2.2.newline = true) :
    ∃ rel, k.1 = start ++ rel ∧
      ∀ a name, OpenAbove n rel a → a.value = .element name → a.firstChild?.isSome = true →
        hasInlineChild a = false ∧ sup.contains name = false := by
  obtain ⟨rel, node, hp, hnode, hm⟩ :=
    pretty_where_notMixed sup t esc env pr start n inScope hat hs ks h k hk hw
  refine ⟨rel, hp, fun a name ha hv hc => ?_⟩
  have hopen : entryFor sup a ∈ openEntryOf sup a := by simp [openEntryOf, hv, hc]
  have hin := openAbove_entry sup n rel a ha _ hopen
  have hne : entryFor sup a ≠ StackEntry.mixed := by
    intro he
    have : PStack.inMixed (pentriesAbove sup n rel) = true := by
      simp only [PStack.inMixed, List.any_eq_true]
      exact ⟨_, hin, by simp [he]⟩
    rw [hm] at this
    cases this
  have h3 : ¬ (hasInlineChild a = true ∨ sup.contains name = true) :=
    fun hor => hne ((entryFor_mixed_iff sup a name hv).mpr hor)
  simp only [not_or, Bool.not_eq_true] at h3
  exact h3

theorem doctype_document_top (t : Tree) (start : Path) (i : Nat) (doc el : Tree)
    (hdoc : t.at? start = some doc) (hel : t.at? (start ++ [i]) = some el) :
    (doctypeStack t (start ++ [i]) el).top = ((initStack t start).push el.nsDecls).top := by
  obtain ⟨rest, hanc⟩ := ancestorsOrSelf_of_at? t start doc hdoc
  have hanc2 := ancestorsOrSelf_child t start i _ el hanc hel
  have h1 : namespacesInScope t start = some (namespacesInScopeChain (doc :: rest)) := by
    simp [namespacesInScope, hanc]
  have h2 : namespacesInScope t (start ++ [i]) = some (namespacesInScopeChain (el :: doc :: rest)) := by
    simp [namespacesInScope, hanc2]
  unfold doctypeStack initStack
  rw [h1, h2]
  simp only [Option.getD_some, FStack.new, FStack.push]
  by_cases he : el.nsDecls.isEmpty = true
  · simp only [he, if_true, FStack.top, List.headD_cons]
    have hnil : el.nsDecls = [] := by simpa using he
    simp [namespacesInScopeChain, traverseChain, hnil, traverseDecls]
  · simp only [he, FStack.top, List.headD_cons]
    exact fullnameInfoNew_inScope_child el (doc :: rest)

theorem pretty_content_conv (esc : Escapers) (env : Env) (pr : TokenParams) (sup : List Nat)
    (t : Tree) (start : Path) (l : List (Path × Output × OutputToken))
    (h : tokensWith esc env pr t start = .ok l) :
    ∃ ks, prettyTokensWith esc env pr sup t start = .ok ks ∧ ks.map erasePretty = l := by
  unfold tokensWith at h
  cases hr : renderAllWith esc env pr t (initStack t start) (genOutputs t start) with
  | ok l' =>
    simp only [hr] at h
    cases h
    obtain ⟨ks, hk, he⟩ := renderAll_lift_pretty esc env pr t sup [] _ _ _ hr
    exact ⟨ks, by simp [prettyTokensWith, hk], he⟩
  | err e => simp [hr] at h
  | panic => simp [hr] at h

theorem pretty_where_entry (sup : List Nat) (ps : PStack) (name : Nat) (ks : List Tree)
    (hc : (Tree.node (.element name) ks).firstChild?.isSome = true) :
    (prettify sup ps (.node (.element name) ks) .startTagClose).1 =
      (if hasInlineChild (.node (.element name) ks) || sup.contains name then StackEntry.mixed
       else StackEntry.unmixed (elementSpace (.node (.element name) ks))) :: ps := by
  unfold prettify
  simp only [hc, if_true, Tree.value]
  by_cases hi : hasInlineChild (.node (.element name) ks) = true
  · simp [hi]
  · by_cases hs : sup.contains name = true
    · have : name ∈ sup := by simpa using hs
      simp [hi, this]
    · have : name ∉ sup := by simpa using hs
      simp [hi, this]

theorem decl_grammar (esc : Escapers) (env : Env) (p : XmlParams) (t : Tree) (start : Path) (s : Str)
    (h : serializeXmlStringWith esc env p t start = .ok s)
    (henc : ∀ d e, p.declaration = some d → d.encoding = some e → Prolog.isEncName e = true)
    (hids : ∀ d, p.doctype = some d → Prolog.idsOk d = true)
    (hname : ∀ name, doctypeName env t start = .ok name → Prolog.isXmlName name = true) :
    ∃ dt body, serializeXmlStringWith esc env p.body t start = .ok body ∧
      s = p.declBytes ++ dt ++ body ∧
      (∀ d, p.declaration = some d → Prolog.xmlDecl s = some ('\n' :: (dt ++ body))) ∧
      (p.declaration = none → p.declBytes = []) ∧
      (∀ d, p.doctype = some d → Prolog.doctypeDecl (dt ++ body) = some ('\n' :: body)) ∧
      (p.doctype = none → dt = []) := by
  obtain ⟨dt, body, hdt, hb, hs⟩ := xmlString_split esc env p t start s h
  refine ⟨dt, body, hb, hs, ?_, ?_, ?_, ?_⟩
  · intro d hd
    rw [hs, List.append_assoc]
    simp only [XmlParams.declBytes, hd]
    exact Prolog.xmlDecl_written d _ (fun e he => henc d e hd he)
  · intro hd; simp [XmlParams.declBytes, hd]
  · intro d hd
    simp only [DoctypeWritten, hd] at hdt
    obtain ⟨name, hn, rfl⟩ := hdt
    exact Prolog.doctypeDecl_written d name body (hname name hn) (hids d hd)
  · intro hd; simpa [DoctypeWritten, hd] using hdt

theorem cdata_literals_ok :
    cdataOpen = ['<','!','[','C','D','A','T','A','['] ∧
    cdataSplit = [']',']',']',']','>'] ++ cdataOpen ++ ['>'] ∧
    cdataCr = [']',']','>'] ++ ['&','#','x','D',';'] ++ cdataOpen ∧
    cdataClose = [']',']','>'] := by decide

theorem gt_tables_ok :
    tableOk textEscapes = true ∧ tableCovers false textEscapes = true ∧
    refOk '>' textGtEscape = true ∧ tableNoGtBracket textEscapes = true ∧
    textGtEscape.contains '>' = false := by decide

theorem cdata_sections_roundtrip (s : Str) : cdataSectionsContent (serializeCdata s) = some s := by
  obtain ⟨hO, hS, hR, hC⟩ := cdata_literals_ok
  have h := cdataGo_sections hO hS hR hC s 0 0 (by omega) (by intro; rfl)
  simp only [List.replicate_zero, List.nil_append, Nat.zero_add] at h
  unfold cdataSectionsContent serializeCdata
  rw [hO]
  simp only [List.cons_append, List.nil_append]
  rw [afterSection_open, h]

theorem gt_text_roundtrip (s : Str) : parseText (serializeText true s) = .ok s := by
  obtain ⟨h1, h2, h3, _, _⟩ := gt_tables_ok
  unfold parseText parseContent serializeText
  simp only [if_true]
  rw [serializeTextGtGo_eq]
  simpa using gt_roundtrip h1 h2 h3 s [] 0 0

theorem gt_no_cdata_end (s : Str) : hasCdataEnd (serializeText true s) = false := by
  obtain ⟨_, _, _, h4, h5⟩ := gt_tables_ok
  unfold serializeText
  simp only [if_true]
  rw [serializeTextGtGo_eq]
  exact gtOut_noCdataEnd h4 h5 s [] rfl

theorem pretty_text_token_plain (esc : Escapers) (env : Env) (pr : TokenParams) (sup : List Nat)
    (t : Tree) (start : Path) (ks : List (Path × Output × PrettyOutputToken))
    (h : prettyTokensWith esc env pr sup t start = .ok ks)
    (p : Path) (c : Str) (tok : PrettyOutputToken) (hk : (p, Output.text c, tok) ∈ ks) :
    tok.indentation = 0 ∧ tok.newline = false := by
  obtain ⟨h1, h2⟩ := pretty_token_kinds sup t esc env pr start ks h _ hk
  constructor
  · cases hi : tok.indentation with
    | zero => rfl
    | succ m => exact absurd (h1 (by simp [hi])) (by simp [Output.opensMarkup])
  · cases hn : tok.newline with
    | false => rfl
    | true => exact absurd (h2 hn) (by simp [Output.closesMarkup])

end XotModel
