/-
  Proofs of two C14 property theorems, kept out of Props/C14.lean (which holds statements and short proofs).
-/
import XotModel.Lemmas.Output
import XotModel.Lemmas.Pretty
import XotModel.Lemmas.PrettyWhere
import XotModel.Lemmas.PrettyBetween

namespace XotModel
open Gen

theorem pretty_content (esc : Escapers) (env : Env) (pr : TokenParams) (sup : List Nat) (t : Tree)
    (start : Path) (ks : List (Path × Output × PrettyOutputToken))
    (h : prettyTokensWith esc env pr sup t start = .ok ks) :
    tokensWith esc env pr t start = .ok (ks.map erasePretty) := by
  unfold prettyTokensWith at h
  unfold tokensWith
  have := prettyAll_erase esc env pr t sup [] (initStack t start) (genOutputs t start)
  cases hp : prettyAllWith esc env pr sup t [] (initStack t start) (genOutputs t start) with
  | ok l =>
    simp only [hp] at h this
    cases h
    rw [this]
  | err e => simp [hp] at h
  | panic => simp [hp] at h

theorem pretty_string_bytes (esc : Escapers) (env : Env) (pr : TokenParams) (sup : List Nat) (t : Tree)
    (start : Path) (s : Str) (h : serializePrettyWith esc env pr sup t start = .ok s) :
    ∃ ks : List (Path × Output × PrettyOutputToken),
      tokensWith esc env pr t start = .ok (ks.map erasePretty) ∧
      s = ks.flatMap (fun k => prettyTokenBytes k.2.2) ∧
      ∀ k ∈ ks, prettyTokenBytes k.2.2 =
        (if k.2.2.indentation > 0 then indentBytes k.2.2.indentation else [])
          ++ tokenBytes (erasePretty k).2.2 ++ (if k.2.2.newline then prettyNewline else []) := by
  unfold serializePrettyWith serializePrettyWriteWith bufferToString at h
  have ho := writePrettyGo_outcome esc env pr t sup [] (initStack t start) (genOutputs t start)
  cases hr : prettyAllWith esc env pr sup t [] (initStack t start) (genOutputs t start) with
  | ok ks =>
    have hk : prettyTokensWith esc env pr sup t start = .ok ks := by simp [prettyTokensWith, hr]
    refine ⟨ks, pretty_content esc env pr sup t start ks hk, ?_, ?_⟩
    · rw [writePrettyGo_of_prettyAll_ok esc env pr t sup _ _ _ _ hr] at h
      simp at h
      rw [← h]; rfl
    · intro k _
      obtain ⟨p, o, ind, sp, tx, nl⟩ := k
      cases sp <;> simp [prettyTokenBytes, tokenBytes, erasePretty]
  | err e => rw [hr] at ho; simp only [] at ho; rw [ho] at h; cases h
  | panic => rw [hr] at ho; simp only [] at ho; rw [ho] at h; cases h

theorem pretty_where_tree_mixed (esc : Escapers) (env : Env) (pr : TokenParams) (sup : List Nat)
    (t : Tree) (start : Path) (n : Tree) (inScope : List (Nat × Nat)) (hat : t.at? start = some n)
    (hs : namespacesInScope t start = some inScope)
    (ks : List (Path × Output × PrettyOutputToken))
    (h : prettyTokensWith esc env pr sup t start = .ok ks)
    (k : Path × Output × PrettyOutputToken) (hk : k ∈ ks)
    (hw : k.2.2.indentation > 0 ∨ k.2.2.newline = true) :
    ∃ rel, k.1 = start ++ rel ∧
      ∀ a name, OpenAbove n rel a → a.value = .element name → a.firstChild?.isSome = true →
        hasInlineChild a = false ∧ sup.contains name = false := by
  obtain ⟨rel, node, hp, hnode, hm⟩ :=
    pretty_where_notMixed sup t esc env pr start n inScope hat hs ks h k hk hw
  refine ⟨rel, hp, fun a name ha hv hc => ?_⟩
  have hopen : entryFor sup a ∈ openEntryOf sup a := by simp [openEntryOf, hv, hc]
  have hin := openAbove_entry sup n rel a ha _ hopen
  have hne : entryFor sup a ≠ StackEntry.mixed := by
    intro he
    have : PStack.inMixed (pentriesAbove sup n rel) = true := by
      simp only [PStack.inMixed, List.any_eq_true]
      exact ⟨_, hin, by simp [he]⟩
    rw [hm] at this
    cases this
  have h3 : ¬ (hasInlineChild a = true ∨ sup.contains name = true) :=
    fun hor => hne ((entryFor_mixed_iff sup a name hv).mpr hor)
  simp only [not_or, Bool.not_eq_true] at h3
  exact h3

end XotModel
