/-
  Lemmas/FwsPrune — `Fws.pruneText` (delete the text nodes in a set): identity, composition,
  congruence, what survives, and preservation of structural validity.
-/
import XotModel.Lemmas.FwsChar

namespace XotModel
namespace Fws
open HTree

theorem pruneText_handle (S : Nat → Bool) (t : HTree) : (pruneText S t).handle = t.handle := by
  cases t; simp [pruneText, HTree.handle]

theorem pruneText_value (S : Nat → Bool) (t : HTree) : (pruneText S t).value = t.value := by
  cases t; simp [pruneText, HTree.value]

theorem pruneText_kids (S : Nat → Bool) (t : HTree) : (pruneText S t).kids = pruneTextKids S t.kids := by
  cases t; simp [pruneText, HTree.kids]

/-- The list form: filter, then recurse. -/
theorem pruneTextKids_eq (S : Nat → Bool) : ∀ ks : List HTree,
    pruneTextKids S ks = (ks.filter (fun k => !(k.value.isText && S k.handle))).map (pruneText S)
  | [] => rfl
  | k :: ks => by
    simp only [pruneTextKids, List.filter_cons]
    rw [pruneTextKids_eq S ks]
    cases k.value.isText && S k.handle <;> simp

theorem pruneTextKids_append (S : Nat → Bool) (l r : List HTree) :
    pruneTextKids S (l ++ r) = pruneTextKids S l ++ pruneTextKids S r := by
  simp [pruneTextKids_eq]

mutual
  theorem pruneText_id (S : Nat → Bool) : ∀ t : HTree, (∀ h ∈ handles t, S h = false) → pruneText S t = t
    | .node h v ks, hs => by
      simp only [pruneText]
      rw [pruneTextKids_id S ks (fun x hx => hs x (by simp [handles, hx]))]
  theorem pruneTextKids_id (S : Nat → Bool) : ∀ ks : List HTree, (∀ h ∈ handlesList ks, S h = false) →
      pruneTextKids S ks = ks
    | [], _ => rfl
    | k :: ks, hs => by
      have hk : S k.handle = false := hs _ (by simp [handlesList, handle_mem_handles])
      simp only [pruneTextKids, hk, Bool.and_false]
      rw [pruneText_id S k (fun x hx => hs x (by simp [handlesList, hx])),
        pruneTextKids_id S ks (fun x hx => hs x (by simp [handlesList, hx]))]
      rfl
end

mutual
  theorem pruneText_congr (S S' : Nat → Bool) : ∀ t : HTree, (∀ h ∈ handles t, S h = S' h) →
      pruneText S t = pruneText S' t
    | .node h v ks, hs => by
      simp only [pruneText]
      rw [pruneTextKids_congr S S' ks (fun x hx => hs x (by simp [handles, hx]))]
  theorem pruneTextKids_congr (S S' : Nat → Bool) : ∀ ks : List HTree, (∀ h ∈ handlesList ks, S h = S' h) →
      pruneTextKids S ks = pruneTextKids S' ks
    | [], _ => rfl
    | k :: ks, hs => by
      have hk : S k.handle = S' k.handle := hs _ (by simp [handlesList, handle_mem_handles])
      simp only [pruneTextKids, hk]
      rw [pruneText_congr S S' k (fun x hx => hs x (by simp [handlesList, hx])),
        pruneTextKids_congr S S' ks (fun x hx => hs x (by simp [handlesList, hx]))]
end

mutual
  theorem pruneText_comp (S1 S2 : Nat → Bool) : ∀ t : HTree,
      pruneText S2 (pruneText S1 t) = pruneText (fun h => S1 h || S2 h) t
    | .node h v ks => by
      simp only [pruneText]
      rw [pruneTextKids_comp S1 S2 ks]
  theorem pruneTextKids_comp (S1 S2 : Nat → Bool) : ∀ ks : List HTree,
      pruneTextKids S2 (pruneTextKids S1 ks) = pruneTextKids (fun h => S1 h || S2 h) ks
    | [] => rfl
    | k :: ks => by
      have ihk := pruneText_comp S1 S2 k
      have ihks := pruneTextKids_comp S1 S2 ks
      simp only [pruneTextKids]
      by_cases h1 : (k.value.isText && S1 k.handle) = true
      · have h3 : (k.value.isText && (S1 k.handle || S2 k.handle)) = true := by
          simp only [Bool.and_eq_true, Bool.or_eq_true] at h1 ⊢
          exact ⟨h1.1, Or.inl h1.2⟩
        simp only [h1, h3, if_true]
        exact ihks
      · simp only [h1, Bool.false_eq_true, if_false, pruneTextKids, pruneText_value, pruneText_handle]
        by_cases h2 : (k.value.isText && S2 k.handle) = true
        · have h3 : (k.value.isText && (S1 k.handle || S2 k.handle)) = true := by
            simp only [Bool.and_eq_true, Bool.or_eq_true] at h2 ⊢
            exact ⟨h2.1, Or.inr h2.2⟩
          simp only [h2, h3, if_true]
          exact ihks
        · have h3 : ¬ (k.value.isText && (S1 k.handle || S2 k.handle)) = true := by
            simp only [Bool.and_eq_true, Bool.or_eq_true, not_and] at h1 h2 ⊢
            intro ht hh
            rcases hh with hh | hh
            · exact h1 ht hh
            · exact h2 ht hh
          simp only [h2, h3, Bool.false_eq_true, if_false, ihk, ihks]
end

/-! ### handles of the result -/

mutual
  theorem pruneText_sublist (S : Nat → Bool) : ∀ t : HTree, (handles (pruneText S t)).Sublist (handles t)
    | .node h v ks => by
      simp only [pruneText, handles]
      exact (pruneTextKids_sublist S ks).cons_cons h
  theorem pruneTextKids_sublist (S : Nat → Bool) : ∀ ks : List HTree,
      (handlesList (pruneTextKids S ks)).Sublist (handlesList ks)
    | [] => List.Sublist.refl _
    | k :: ks => by
      simp only [pruneTextKids, handlesList]
      cases k.value.isText && S k.handle
      · simp only [Bool.false_eq_true, if_false, handlesList]
        exact (pruneText_sublist S k).append (pruneTextKids_sublist S ks)
      · simp only [if_true]
        exact (pruneTextKids_sublist S ks).trans (List.sublist_append_right _ _)
end

theorem find?_none_of_not_mem {h : Nat} {t : HTree} (hn : h ∉ handles t) : find? h t = none := by
  cases hf : find? h t with
  | none => rfl
  | some q => exact absurd (find?_support h t q hf) hn

mutual
  /-- Whatever is found in the pruned tree is the pruned image of what the original holds there,
      and it was not deleted. -/
  theorem find_pruneText (S : Nat → Bool) (h : Nat) : ∀ (t x : HTree), (handles t).Nodup →
      find? h (pruneText S t) = some x → h ≠ t.handle →
      ∃ q, find? h t = some q ∧ x = pruneText S q ∧ (q.value.isText && S h) = false
    | .node h' v ks, x, nd, hx, hne => by
      simp only [HTree.handle] at hne
      have e : ¬ h' = h := fun e => hne e.symm
      simp only [pruneText, find?, e, if_false] at hx ⊢
      exact findList_pruneText S h ks x (nodup_kids (t := .node h' v ks) nd).2 hx
  theorem findList_pruneText (S : Nat → Bool) (h : Nat) : ∀ (ks : List HTree) (x : HTree), (handlesList ks).Nodup →
      findList? h (pruneTextKids S ks) = some x →
      ∃ q, findList? h ks = some q ∧ x = pruneText S q ∧ (q.value.isText && S h) = false
    | [], x, _, hx => by simp [pruneTextKids, findList?] at hx
    | k :: ks, x, nd, hx => by
      obtain ⟨ndk, ndks, disj⟩ := nodup_handlesList_cons nd
      have inRest : findList? h (pruneTextKids S ks) = some x →
          ∃ q, findList? h (k :: ks) = some q ∧ x = pruneText S q ∧ (q.value.isText && S h) = false := by
        intro hx'
        obtain ⟨q, hq, e1, e2⟩ := findList_pruneText S h ks x ndks hx'
        have hin : h ∈ handlesList ks := findList?_support h ks q hq
        have : find? h k = none := find?_none_of_not_mem (fun hk => disj h hk hin)
        exact ⟨q, by simp [findList?, this, hq], e1, e2⟩
      simp only [pruneTextKids] at hx
      cases hd : k.value.isText && S k.handle
      · simp only [hd, Bool.false_eq_true, if_false, findList?] at hx
        cases hf : find? h (pruneText S k) with
        | some y =>
          rw [hf] at hx
          simp only [Option.some.injEq] at hx
          subst hx
          by_cases e : h = k.handle
          · subst e
            rw [← pruneText_handle S k, find?_self] at hf
            simp only [Option.some.injEq] at hf
            exact ⟨k, by simp [findList?, find?_self], hf.symm, hd⟩
          · obtain ⟨q, hq, e1, e2⟩ := find_pruneText S h k y ndk hf e
            exact ⟨q, by simp [findList?, hq], e1, e2⟩
        | none =>
          rw [hf] at hx
          exact inRest hx
      · simp only [hd, if_true] at hx
        exact inRest hx
end

/-! ### validity is preserved -/

/-- Is the first tree of a list a text node? -/
def headIsText : List HTree → Bool
  | [] => false
  | b :: _ => b.value.isText

theorem noAdj_cons (a : HTree) (xs : List HTree) :
    noAdjacentText (a :: xs) = (!(a.value.isText && headIsText xs) && noAdjacentText xs) := by
  cases xs with
  | nil => simp [noAdjacentText, headIsText]
  | cons b rest => simp [noAdjacentText, headIsText]

theorem noAdj_prune (S : Nat → Bool) : ∀ ks : List HTree, noAdjacentText ks = true →
    noAdjacentText (pruneTextKids S ks) = true
  | [], _ => rfl
  | a :: xs, h => by
    rw [noAdj_cons] at h
    simp only [Bool.and_eq_true, Bool.not_eq_true'] at h
    have ih := noAdj_prune S xs h.2
    simp only [pruneTextKids]
    cases hd : a.value.isText && S a.handle
    · simp only [Bool.false_eq_true, if_false]
      rw [noAdj_cons, pruneText_value]
      simp only [Bool.and_eq_true, Bool.not_eq_true', ih, and_true]
      cases hat : a.value.isText
      · simp
      · have hx : headIsText xs = false := by simpa [hat] using h.1
        cases xs with
        | nil => simp [pruneTextKids, headIsText]
        | cons b rest =>
          simp only [headIsText] at hx
          simp [pruneTextKids, hx, headIsText, pruneText_value]
    · simpa using ih

theorem pairwise_prune (S : Nat → Bool) {ks : List HTree} (h : ks.Pairwise (fun a b => rank a ≤ rank b)) :
    (pruneTextKids S ks).Pairwise (fun a b => rank a ≤ rank b) := by
  rw [pruneTextKids_eq, List.pairwise_map]
  have := h.filter (fun k => !(k.value.isText && S k.handle))
  simpa [rank, pruneText_value] using this

theorem keys_prune (S : Nat → Bool) (c : Category) (hc : c ≠ .normal) : ∀ ks : List HTree,
    ((pruneTextKids S ks).filter (fun k => k.value.category == c)).map (fun k => Forest.entryKey k.value) =
      (ks.filter (fun k => k.value.category == c)).map (fun k => Forest.entryKey k.value)
  | [] => rfl
  | k :: ks => by
    simp only [pruneTextKids]
    cases hd : k.value.isText && S k.handle
    · simp only [Bool.false_eq_true, if_false, List.filter_cons, pruneText_value]
      cases k.value.category == c <;> simp [keys_prune S c hc ks, pruneText_value]
    · simp only [if_true, List.filter_cons]
      have : (k.value.category == c) = false := by
        have ht : k.value.isText = true := by
          cases h1 : k.value.isText <;> simp [h1] at hd ⊢
        cases hv : k.value <;> simp [hv, Value.isText] at ht
        cases c <;> simp [Value.category] at hc ⊢
      simp [this, keys_prune S c hc ks]

mutual
  theorem validTree_prune (b : Bool) (S : Nat → Bool) : ∀ t : HTree, validTree b t = true →
      validTree b (pruneText S t) = true
    | .node h v ks, hv => by
      simp only [validTree, Bool.and_eq_true] at hv
      obtain ⟨⟨⟨⟨⟨h1, h2⟩, h3⟩, h4⟩, h5⟩, h6⟩ := hv
      simp only [pruneText, validTree, Bool.and_eq_true]
      refine ⟨⟨⟨⟨⟨?_, ?_⟩, ?_⟩, ?_⟩, ?_⟩, validList_prune b S ks h6⟩
      · rw [pruneTextKids_eq]
        simp only [List.all_eq_true, List.mem_map, List.mem_filter] at h1 ⊢
        rintro x ⟨y, ⟨hy, _⟩, rfl⟩
        rw [pruneText_value]
        exact h1 y hy
      · exact pairwise_kidsOrdered (pairwise_prune S (kidsOrdered_pairwise h2))
      · unfold keysUnique at h3 ⊢
        rw [keys_prune S _ (by simp)]
        exact h3
      · unfold keysUnique at h4 ⊢
        rw [keys_prune S _ (by simp)]
        exact h4
      · cases b
        · simp
        · simp only [Bool.not_true, Bool.false_or] at h5 ⊢
          exact noAdj_prune S ks h5
  theorem validList_prune (b : Bool) (S : Nat → Bool) : ∀ ks : List HTree, validList b ks = true →
      validList b (pruneTextKids S ks) = true
    | [], _ => rfl
    | k :: ks, hv => by
      simp only [validList, Bool.and_eq_true] at hv
      simp only [pruneTextKids]
      cases k.value.isText && S k.handle
      · simp only [Bool.false_eq_true, if_false, validList, Bool.and_eq_true]
        exact ⟨validTree_prune b S k hv.1, validList_prune b S ks hv.2⟩
      · simpa using validList_prune b S ks hv.2
end

end Fws
end XotModel
