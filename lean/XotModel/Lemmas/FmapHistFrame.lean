/-
  Lemmas for C11 histories, part 1: the frame for ALL the other nodes of the forest.

  `SameViews f f' x`: both views of the node `x` (entry nodes with their handles and values) and
  its being an element are the same in `f` and `f'`.  `frame_withKids`: replacing, in the child
  list of `e`, a run of entry leaves by another run of entry leaves leaves every node other
  than `e` with the same views.
-/
import XotModel.Lemmas.FmapMove
import XotModel.Model.FmapSpec2

namespace XotModel
namespace Fmap
open HTree
open Forest (MapKind entryKey mapChildren)

/-- The (handle, value) pairs of the entry nodes of a view, in order: `abs`, `absNodes` and
    `absKN` are projections of it. -/
def absHV (k : MapKind) (f : Forest) (e : Nat) : List (Nat × Value) :=
  match f.get? e with
  | some t => (mapChildren k t).map hv
  | none => []

theorem abs_of_absHV (k : MapKind) (f : Forest) (e : Nat) :
    abs k f e = (absHV k f e).map (fun p => (entryKey p.2, payloadOf p.2)) := by
  unfold Fmap.abs absHV absT
  cases f.get? e with
  | none => rfl
  | some t => simp only [List.map_map]; rfl

theorem absNodes_of_absHV (k : MapKind) (f : Forest) (e : Nat) :
    absNodes k f e = (absHV k f e).map (·.1) := by
  unfold absNodes absHV
  cases f.get? e with
  | none => rfl
  | some t => simp only [List.map_map]; rfl

theorem absKN_of_absHV (k : MapKind) (f : Forest) (e : Nat) :
    absKN k f e = (absHV k f e).map (fun p => (entryKey p.2, p.1)) := by
  unfold absKN absHV
  cases f.get? e with
  | none => rfl
  | some t => simp only [List.map_map]; rfl

theorem absHV_shallow (k : MapKind) (f : Forest) (e : Nat) :
    absHV k f e = match (f.get? e).map shallow with
      | some s => kidsOfP k s.2
      | none => [] := by
  unfold absHV
  cases f.get? e with
  | none => rfl
  | some t =>
    simp only [Option.map_some, shallow]
    rw [mapChildren_eq, kidsOf_hv]

/-- The node `x` has the same views and the same element-ness in `f` and in `f'`. -/
structure SameViews (f f' : Forest) (x : Nat) : Prop where
  hv : ∀ k, absHV k f' x = absHV k f x
  elem : f'.isElement x = f.isElement x

theorem SameViews.refl (f : Forest) (x : Nat) : SameViews f f x := ⟨fun _ => rfl, rfl⟩

theorem SameViews.trans {f f1 f2 : Forest} {x : Nat} (a : SameViews f f1 x) (b : SameViews f1 f2 x) :
    SameViews f f2 x :=
  ⟨fun k => (b.hv k).trans (a.hv k), b.elem.trans a.elem⟩

theorem SameViews.abs {f f' : Forest} {x : Nat} (s : SameViews f f' x) (k : MapKind) :
    abs k f' x = abs k f x := by
  rw [abs_of_absHV, abs_of_absHV, s.hv k]

theorem SameViews.nodes {f f' : Forest} {x : Nat} (s : SameViews f f' x) (k : MapKind) :
    absNodes k f' x = absNodes k f x := by
  rw [absNodes_of_absHV, absNodes_of_absHV, s.hv k]

theorem SameViews.kn {f f' : Forest} {x : Nat} (s : SameViews f f' x) (k : MapKind) :
    absKN k f' x = absKN k f x := by
  rw [absKN_of_absHV, absKN_of_absHV, s.hv k]

theorem sameViews_of_shallow {f f' : Forest} {x : Nat}
    (h : (f'.get? x).map shallow = (f.get? x).map shallow) : SameViews f f' x := by
  refine ⟨fun k => ?_, (views_of_shallow f f' x h).2.2.1⟩
  rw [absHV_shallow, absHV_shallow, h]

theorem sameViews_of_get {f f' : Forest} {x : Nat} (h : f'.get? x = f.get? x) : SameViews f f' x :=
  sameViews_of_shallow (by rw [h])

/-- `x` is not in the forest, or is a childless node that is not an element (an attribute or
    namespace node). -/
def Entryish (f : Forest) (x : Nat) : Prop :=
  ∀ t, f.get? x = some t → t.kids = [] ∧ t.value.isElement = false

theorem entryish_of_none {f : Forest} {x : Nat} (h : f.get? x = none) : Entryish f x := by
  intro t ht; rw [h] at ht; cases ht

theorem entryish_of_get {f : Forest} {x : Nat} {t : HTree} (h : f.get? x = some t)
    (hk : t.kids = []) (hv : t.value.isElement = false) : Entryish f x := by
  intro t' ht'; rw [h] at ht'; cases ht'; exact ⟨hk, hv⟩

theorem Entryish.absHV_nil {f : Forest} {x : Nat} (h : Entryish f x) (k : MapKind) :
    absHV k f x = [] := by
  unfold absHV
  cases hg : f.get? x with
  | none => rfl
  | some t =>
    simp only
    rw [mapChildren_eq, (h t hg).1]
    cases k <;> rfl

theorem Entryish.isElement {f : Forest} {x : Nat} (h : Entryish f x) : f.isElement x = false := by
  unfold Forest.isElement Forest.value?
  cases hg : f.get? x with
  | none => rfl
  | some t => simp [(h t hg).2]

theorem sameViews_of_entryish {f f' : Forest} {x : Nat} (h1 : Entryish f x) (h2 : Entryish f' x) :
    SameViews f f' x :=
  ⟨fun k => by rw [h1.absHV_nil, h2.absHV_nil], by rw [h1.isElement, h2.isElement]⟩

theorem isElement_false_of_cat (v : Value) (h : v.category ≠ .normal) : v.isElement = false := by
  cases v <;> simp [Value.category, Value.isElement] at h ⊢

/-! ### Lookups in a child list whose entry leaves changed -/

theorem handlesList_leaves (m : List HTree) (hm : ∀ c ∈ m, c.kids = []) :
    handlesList m = m.map (·.handle) := by
  induction m with
  | nil => rfl
  | cons c m ih =>
    simp only [handlesList, List.map_cons]
    rw [handles_eq, hm c List.mem_cons_self, ih (fun x hx => hm x (List.mem_cons_of_mem _ hx))]
    simp [handlesList]

theorem findList?_leaves_none (x : Nat) (m : List HTree) (hm : ∀ c ∈ m, c.kids = [])
    (hx : x ∉ m.map (·.handle)) : findList? x m = none := by
  apply findList?_none_of_not_mem
  rw [handlesList_leaves m hm]
  exact hx

theorem findList?_skip_leaves (x : Nat) (a m b : List HTree) (hm : ∀ c ∈ m, c.kids = [])
    (hx : x ∉ m.map (·.handle)) : findList? x (a ++ m ++ b) = findList? x (a ++ b) := by
  rw [findList?_append, findList?_append, findList?_append, findList?_leaves_none x m hm hx]
  simp

/-- A handle that was below `e` and is not among the new children is gone. -/
theorem not_mem_withKids (roots : List HTree) (e : Nat) (ev : Value) (ks ks' : List HTree)
    (hnd : (handlesList roots).Nodup) (hf : findList? e roots = some (.node e ev ks)) (x : Nat)
    (hx : x ∈ handlesList ks) (hx' : x ∉ handlesList ks') : x ∉ handlesList (withKids roots e ks') := by
  obtain ⟨pre, post, h1, h2⟩ :=
    handlesList_mapAtList_split e (atKids (fun _ => ks')) roots _ hnd hf
  unfold withKids
  rw [h2]
  rw [h1] at hnd
  have ha := List.nodup_append.mp hnd
  have hb := List.nodup_append.mp ha.1
  have hxt : x ∈ handles (.node e ev ks) := by simp only [handles, List.mem_cons]; exact Or.inr hx
  have hne : x ≠ e := by
    intro hh
    have := hb.2.1
    simp only [handles, List.nodup_cons] at this
    exact this.1 (hh ▸ hx)
  intro hm
  simp only [List.mem_append] at hm
  rcases hm with (hm | hm) | hm
  · exact hb.2.2 _ hm _ hxt rfl
  · change x ∈ handles (.node e ev ks') at hm
    simp only [handles, List.mem_cons] at hm
    rcases hm with hm | hm
    · exact hne hm
    · exact hx' hm
  · exact ha.2.2 _ (List.mem_append_right _ hxt) _ hm rfl

/-- The frame.  In the child list of `e` the run `m` of entry leaves is replaced by the run `m'`
    of entry leaves (each new leaf is an old one of the run or was not in the forest): every
    node other than `e` keeps its views. -/
theorem frame_withKids {f f' : Forest} {e : Nat} {ev : Value} (pre m m' post : List HTree)
    (hl : Located f e ev (pre ++ m ++ post))
    (hr : f'.roots = withKids f.roots e (pre ++ m' ++ post))
    (hl' : Located f' e ev (pre ++ m' ++ post))
    (hm : ∀ c ∈ m, c.kids = [] ∧ c.value.isElement = false)
    (hm' : ∀ c ∈ m', c.kids = [] ∧ c.value.isElement = false)
    (hnew : ∀ c ∈ m', c.handle ∈ m.map (·.handle) ∨ f.get? c.handle = none)
    (x : Nat) (hx : x ≠ e) : SameViews f f' x := by
  have hin : ∀ c ∈ m, c ∈ pre ++ m ++ post := fun c hc =>
    List.mem_append_left _ (List.mem_append_right _ hc)
  have hin' : ∀ c ∈ m', c ∈ pre ++ m' ++ post := fun c hc =>
    List.mem_append_left _ (List.mem_append_right _ hc)
  have old : x ∈ m.map (·.handle) → Entryish f x := by
    intro h
    obtain ⟨c, hc, rfl⟩ := List.mem_map.mp h
    exact entryish_of_get (hl.childFound c (hin c hc)) (hm c hc).1 (hm c hc).2
  by_cases h1 : x ∈ m'.map (·.handle)
  · obtain ⟨c, hc, hcx⟩ := List.mem_map.mp h1
    have e2 : Entryish f' x := by
      rw [← hcx]
      exact entryish_of_get (hl'.childFound c (hin' c hc)) (hm' c hc).1 (hm' c hc).2
    have e1 : Entryish f x := by
      rcases hnew c hc with h | h
      · rw [← hcx]; rw [hcx]; exact old (hcx ▸ h)
      · rw [← hcx]; exact entryish_of_none h
    exact sameViews_of_entryish e1 e2
  · by_cases h2 : x ∈ m.map (·.handle)
    · refine sameViews_of_entryish (old h2) (entryish_of_none ?_)
      show findList? x f'.roots = none
      rw [hr]
      apply findList?_none_of_not_mem
      have hkn := hl.kidsNodup.1
      rw [handlesList_append, handlesList_append] at hkn
      have hmh : handlesList m = m.map (·.handle) := handlesList_leaves m (fun c hc => (hm c hc).1)
      have hmh' : handlesList m' = m'.map (·.handle) :=
        handlesList_leaves m' (fun c hc => (hm' c hc).1)
      have ha := List.nodup_append.mp hkn
      have hb := List.nodup_append.mp ha.1
      apply not_mem_withKids f.roots e ev _ _ hl.nodup hl.get x
      · rw [handlesList_append, handlesList_append, hmh]
        exact List.mem_append_left _ (List.mem_append_right _ h2)
      · rw [handlesList_append, handlesList_append, hmh']
        simp only [List.mem_append, not_or]
        refine ⟨⟨?_, h1⟩, ?_⟩
        · intro hp; exact hb.2.2 _ hp _ (hmh ▸ h2) rfl
        · intro hp
          exact ha.2.2 _ (List.mem_append_right _ (hmh ▸ h2)) _ hp rfl
    · apply sameViews_of_shallow
      have hH : (findList? x (pre ++ m' ++ post)).map shallow =
          (findList? x (pre ++ m ++ post)).map shallow := by
        rw [findList?_skip_leaves x pre m' post (fun c hc => (hm' c hc).1) h1,
          findList?_skip_leaves x pre m post (fun c hc => (hm c hc).1) h2]
      have := shallow_findList?_withKids e x ev _ _ hx hH f.roots hl.nodup hl.get
      show (findList? x f'.roots).map shallow = _
      rw [hr]
      exact this

end Fmap
end XotModel
