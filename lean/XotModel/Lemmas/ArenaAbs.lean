/-
  XotModel.Lemmas.ArenaAbs — the abstraction relation between an arena and a state of the forest
  model: `Abs a g w rs f` says that the forest `f` is the arena `a` read through the list-level
  content `g` and the view `w` (handle numbering, values), with the parentless live slots `rs` as
  roots in the forest's order.  The forest model's reads (`get?`, `isRoot`, `ancestors`) answer
  what the list level says.
-/
import XotModel.Lemmas.ArenaTree3

namespace XotModel
namespace Arena

/-- Payloads as values (indextree is generic in the payload; any injection will do). -/
def dec (n : Nat) : Value := .element n

structure Abs (a : Arena) (g : Shape) (w : View) (rs : List Nat) (f : Forest) : Prop where
  ctx : TreeCtx a g w
  trees : IsTrees g w rs f.roots
  rsNodup : rs.Nodup
  rsMem : ∀ i, i ∈ rs ↔ (Live a i ∧ g.par i = none)
  below : ∀ u, Live a u → w.rho u < f.next
  vals : ∀ i s v, a.slot i = some s → s.data = .data v → w.val i = dec v
  clean : f.corrupt = false

theorem UpChain.top {par : Nat → Option Nat} {u : Nat} {l : List Nat} (h : UpChain par u l) :
    ∃ r, par r = none ∧ Reach par u r := by
  induction h with
  | @root c hc => exact ⟨c, hc, .refl _⟩
  | @step c q l hc _ ih =>
    obtain ⟨r, h1, h2⟩ := ih
    exact ⟨r, h1, .step hc h2⟩

namespace Abs
variable {a : Arena} {g : Shape} {w : View} {rs : List Nat} {f : Forest}

theorem rsLive (h : Abs a g w rs f) : ∀ k ∈ rs, Live a k := fun k hk => ((h.rsMem k).mp hk).1

/-- Every live slot lies in the tree of exactly one root. -/
theorem root_of (h : Abs a g w rs f) (u : Nat) (hu : Live a u) :
    ∃ r, r ∈ rs ∧ Reach g.par u r ∧ ∀ r' ∈ rs, Reach g.par u r' → r' = r := by
  obtain ⟨l, hl, _⟩ := h.ctx.rep.upChain u hu
  obtain ⟨r, hr, hur⟩ := hl.top
  have hrl : Live a r := by
    cases hur with
    | refl => exact hu
    | step hp hq =>
      -- the last node of a non-trivial path is a parent of something
      clear hl
      have : ∀ {x y : Nat}, Reach g.par x y → Live a x → Live a y := by
        intro x y hxy
        induction hxy with
        | refl => exact fun hx => hx
        | step hp' _ ih => exact fun _ => ih (h.ctx.rep.live_of_par hp').2
      exact this hq (h.ctx.rep.live_of_par hp).2
  refine ⟨r, (h.rsMem r).mpr ⟨hrl, hr⟩, hur, fun r' hr' hur' => ?_⟩
  have hr'n := ((h.rsMem r').mp hr').2
  rcases Reach.linear hur hur' with h1 | h1
  · cases h1 with
    | refl => rfl
    | step hp _ => rw [hr] at hp; cases hp
  · cases h1 with
    | refl => rfl
    | step hp _ => rw [hr'n] at hp; cases hp

theorem get?_live (h : Abs a g w rs f) (u : Nat) (hu : Live a u) :
    ∃ tu, IsTree g w u tu ∧ f.get? (w.rho u) = some tu := by
  obtain ⟨r, hr, hur, huniq⟩ := h.root_of u hu
  exact IsTrees.find_some h.ctx h.trees h.rsLive u hu r hr hur huniq

theorem isRoot_iff (h : Abs a g w rs f) (u : Nat) (hu : Live a u) : f.isRoot (w.rho u) = true ↔ u ∈ rs := by
  unfold Forest.isRoot
  rw [List.any_eq_true]
  constructor
  · rintro ⟨t, ht, e⟩
    simp only [decide_eq_true_eq] at e
    have hm := h.trees.handles_map
    have : t.handle ∈ f.roots.map HTree.handle := List.mem_map.mpr ⟨t, ht, rfl⟩
    rw [hm] at this
    obtain ⟨r, hr, er⟩ := List.mem_map.mp this
    have : r = u := h.ctx.inj r u (h.rsLive r hr) hu (er.trans e)
    subst this; exact hr
  · intro hu'
    have hm := h.trees.handles_map
    have : w.rho u ∈ rs.map w.rho := List.mem_map.mpr ⟨u, hu', rfl⟩
    rw [← hm] at this
    obtain ⟨t, ht, e⟩ := List.mem_map.mp this
    exact ⟨t, ht, by simpa using e⟩

/-- `findSome?` of `ancestorsOf` over the roots. -/
theorem findSome_ancestors {cs : List Nat} {ts : List HTree} (x : TreeCtx a g w) (ht : IsTrees g w cs ts)
    (hc : ∀ k ∈ cs, Live a k) (u : Nat) (hu : Live a u) (r : Nat) (hr : r ∈ cs) (hur : Reach g.par u r)
    (huniq : ∀ r' ∈ cs, Reach g.par u r' → r' = r) :
    ∃ l, ts.findSome? (HTree.ancestorsOf (w.rho u)) = some l ∧
      ∀ y, y ∈ l ↔ ∃ v, y = w.rho v ∧ Reach g.par u v ∧ Reach g.par v r := by
  match ht with
  | .nil => cases hr
  | @IsTrees.cons _ _ c0 cs0 t0 ts0 h1 h2 =>
    by_cases e : c0 = r
    · subst e
      obtain ⟨l, h3, h4⟩ := IsTree.ancestorsOf_some x h1 (hc _ (by simp)) u hu hur
      exact ⟨l, by simp [List.findSome?, h3], h4⟩
    · have hn : ¬ Reach g.par u c0 := fun hr' => e (huniq c0 (by simp) hr')
      have h5 := IsTree.ancestorsOf_none x h1 (hc _ (by simp)) u hu hn
      have hr' : r ∈ cs0 := by
        rcases List.mem_cons.mp hr with h | h
        · exact absurd h.symm e
        · exact h
      obtain ⟨l, h3, h4⟩ := findSome_ancestors x h2 (fun k hk => hc k (List.mem_cons_of_mem _ hk)) u hu r hr' hur
        (fun r' hr'' => huniq r' (List.mem_cons_of_mem _ hr''))
      exact ⟨l, by simp [List.findSome?, h5, h3], h4⟩

theorem ancestors_contains (h : Abs a g w rs f) (p c : Nat) (hp : Live a p) (hc : Live a c) :
    (f.ancestors (w.rho p)).contains (w.rho c) = true ↔ Reach g.par p c := by
  obtain ⟨r, hr, hpr, huniq⟩ := h.root_of p hp
  obtain ⟨l, hl, hmem⟩ := findSome_ancestors h.ctx h.trees h.rsLive p hp r hr hpr huniq
  unfold Forest.ancestors
  rw [hl]
  simp only [Option.getD_some, List.contains_iff_mem]
  rw [hmem]
  constructor
  · rintro ⟨v, e, h1, h2⟩
    have hvl : Live a v := by
      have : ∀ {x y : Nat}, Reach g.par x y → Live a x → Live a y := by
        intro x y hxy
        induction hxy with
        | refl => exact fun hx => hx
        | step hp' _ ih => exact fun _ => ih (h.ctx.rep.live_of_par hp').2
      exact this h1 hp
    rw [h.ctx.inj c v hc hvl e]; exact h1
  · intro hpc
    refine ⟨c, rfl, hpc, ?_⟩
    -- `c` lies between `p` and the root of `p`
    rcases Reach.linear hpc hpr with h1 | h1
    · exact h1
    · cases h1 with
      | refl => exact .refl _
      | step hp' _ => rw [((h.rsMem r).mp hr).2] at hp'; cases hp'

end Abs

end Arena
end XotModel
