/-
  FspecPairBefore2 — `insert_before` against the pair reading, part 2: the package `Tail` built in
  the three geometries of the moved node (parentless, child of another node, child of the
  reference's parent), and the outcome of the old-place consolidation in the form the pair
  specification needs (`OldP`), from `Forest.Inv` only.
-/
import XotModel.Lemmas.FspecPairBefore

namespace XotModel
open HTree Spec

namespace PairBefore

/-! ### `Tail` when the moved node is a parentless tree -/

theorem tail_root {X : Forest} {c : Nat} {t : HTree} {q : Nat} {vq : Value} {A : List HTree} {kr : HTree}
    {B : List HTree} (sq : SiteAt X q vq (A ++ kr :: B)) (hgc : X.get? c = some t) (hroot : X.ctx? c = none)
    (hq : q ∉ handles t) (hleafT : t.value.isText = true → t.kids = [])
    (hleaf : ∀ k ∈ A ++ kr :: B, k.value.isText = true → k.kids = []) (hrc : kr.handle ≠ c) :
    Tail X (X.editAt none (dropTop c)) c t q vq A kr B := by
  have nd := sq.nd
  obtain ⟨ndL, _⟩ := sq.nodupKids
  have sY := sq.dropRoot hgc hq
  have hnotin : ∀ k ∈ A ++ kr :: B, k.handle ≠ c := by
    intro k hk e
    obtain ⟨P, Q, hPQ⟩ := List.append_of_mem hk
    have s' : SiteAt X q vq (P ++ k :: Q) := hPQ ▸ sq
    have := s'.ctx
    rw [e, hroot] at this
    cases this
  have hgetk : ∀ k ∈ A ++ kr :: B, X.get? k.handle = some k := by
    intro k hk
    obtain ⟨P, Q, hPQ⟩ := List.append_of_mem hk
    have s' : SiteAt X q vq (P ++ k :: Q) := hPQ ▸ sq
    exact s'.getKid
  have F := far_root (keep := Keep.earlier) hgc hroot sq hq
  refine ⟨hgc, rfl, sY, hnotin, ?_,
    fun _ => selfPrev_prevOf (fun k hk => hnotin k (List.mem_append_left _ hk))
      (Forest.prevSibling_of_ctx sq.ctx),
    fun k hk => Forest.textOf_of_get (hgetk k hk), ?_⟩
  · rw [Forest.checkedInsertBefore_ok hgc sq hq hrc, Forest.parent?_of_no_ctx hroot,
      Forest.placeBefore_of_ctx t sY.nd sY.ctx]
  · intro htt k hk hkt v
    exact F.flow2 rfl k.handle v ⟨k, hk, rfl⟩ (hnotin k hk) (hleafT htt) (fun ka hka e => by
      rw [eq_of_handle_eq ndL hka hk e]; exact hleaf k hk hkt)

/-! ### `Tail` when the moved node is a child of another node -/

/-- A value update of a leaf child of `q` followed by the removal of the leaf `t` (a child of
    `po ≠ q`): two edits. -/
theorem setSplice_kid {X : Forest} {po q : Nat} {vo vq : Value} {l : List HTree} {t : HTree} {r Lq : List HTree}
    (so : SiteAt X po vo (l ++ t :: r)) (sq : SiteAt X q vq Lq) (hne : po ≠ q) (hq : q ∉ handles t)
    (hleaf : t.kids = []) {ka : HTree} (hka : ka ∈ Lq) (hkaleaf : ka.kids = []) (v : Value) :
    (X.setValue ka.handle v).spliceOut t.handle =
      (X.editAt (some po) (dropTop t.handle)).editAt (some q) (replaceTop ka.handle (fun k => [k.setValue v])) := by
  obtain ⟨A, B, hL⟩ := List.append_of_mem hka
  subst hL
  have nd := sq.nd
  rw [Forest.setValue_of_ctx v nd sq.ctx]
  have hpoa : po ≠ ka.handle := by
    intro e
    have := sq.getKid
    rw [← e, so.kids] at this
    have := Option.some.inj this
    rw [← this] at hkaleaf
    simp only [HTree.kids] at hkaleaf
    cases l <;> cases hkaleaf
  have sZo := sq.other so.kids hne (replaceTop ka.handle (fun k => [k.setValue v]))
    (by rw [handlesList_setValTop]; exact List.Sublist.refl _)
    (findList?_setValTop v hpoa _)
  have hψt : HTree.editAt q (replaceTop ka.handle (fun k => [k.setValue v])) t = t := editAt_of_not_mem t hq
  rw [List.map_append, List.map_cons, hψt] at sZo
  rw [Forest.spliceOut_leaf sZo.nd sZo.getKid hleaf, Forest.parent?_of_ctx sZo.ctx]
  exact Forest.editAt_comm X hne (natFor_dropTop (kidMap_editAt _ _) _) (natFor_setValTop (kidMap_editAt _ _) _ _)

theorem tail_kid {X : Forest} {po q : Nat} {vo vq : Value} {l : List HTree} {t : HTree} {r : List HTree}
    {A : List HTree} {kr : HTree} {B : List HTree}
    (so : SiteAt X po vo (l ++ t :: r)) (sq : SiteAt X q vq (A ++ kr :: B)) (hne : po ≠ q) (hq : q ∉ handles t)
    (hleafT : t.value.isText = true → t.kids = [])
    (hleaf : ∀ k ∈ A ++ kr :: B, k.value.isText = true → k.kids = []) :
    ∃ A' kr' B', kr'.handle = kr.handle ∧ kr'.value = kr.value ∧
      Tail X (X.editAt (some po) (dropTop t.handle)) t.handle t q vq A' kr' B' := by
  have nd := sq.nd
  obtain ⟨ndLo, hpoL⟩ := so.nodupKids
  have hpot : po ∉ handles t := by
    intro hin
    apply hpoL
    rw [fs_handlesList_append, handlesList_cons]
    exact List.mem_append_right _ (List.mem_append_left _ hin)
  let φ : HTree → HTree := HTree.editAt po (dropTop t.handle)
  have hφ : KidMap φ := kidMap_editAt _ _
  have hlook : findList? q (dropTop t.handle (l ++ t :: r)) = findList? q (l ++ t :: r) := by
    apply findList?_dropTop
    intro k hk e
    rw [eq_of_handle_eq ndLo hk (by simp) e]
    exact hq
  have sY0 := so.other sq.kids hne.symm (dropTop t.handle) (handlesList_dropTop_sublist _ _) hlook
  have sY : SiteAt (X.editAt (some po) (dropTop t.handle)) q vq (A.map φ ++ φ kr :: B.map φ) := by
    simpa using sY0
  have hgetk : ∀ k ∈ A ++ kr :: B, X.get? k.handle = some k := by
    intro k hk
    obtain ⟨P, Q, hPQ⟩ := List.append_of_mem hk
    have s' : SiteAt X q vq (P ++ k :: Q) := hPQ ▸ sq
    exact s'.getKid
  have hnotin0 : ∀ k ∈ A ++ kr :: B, k.handle ≠ t.handle := by
    intro k hk e
    obtain ⟨P, Q, hPQ⟩ := List.append_of_mem hk
    have s' : SiteAt X q vq (P ++ k :: Q) := hPQ ▸ sq
    have h1 := s'.ctx
    rw [e, so.ctx] at h1
    injection (Option.some.inj h1) with ep _ _ _
    exact hne ep
  have hmem : ∀ k' ∈ A.map φ ++ φ kr :: B.map φ, ∃ k ∈ A ++ kr :: B, φ k = k' := by
    intro k' hk'
    have : k' ∈ (A ++ kr :: B).map φ := by simpa using hk'
    obtain ⟨k, hk, e⟩ := List.mem_map.1 this
    exact ⟨k, hk, e⟩
  have hrc : kr.handle ≠ t.handle := hnotin0 kr (by simp)
  refine ⟨A.map φ, φ kr, B.map φ, hφ.handle kr, hφ.value kr, so.getKid, Forest.editAt_consolidation _ _ _, sY,
    ?_, ?_, ?_, ?_, ?_⟩
  · intro k' hk'
    obtain ⟨k, hk, e⟩ := hmem k' hk'
    rw [← e, hφ.handle]
    exact hnotin0 k hk
  · rw [hφ.handle, Forest.checkedInsertBefore_ok so.getKid sq hq hrc, Forest.parent?_of_ctx so.ctx]
    have hctx := sY.ctx
    rw [hφ.handle] at hctx
    rw [Forest.placeBefore_of_ctx t sY.nd hctx]
  · intro _
    apply selfPrev_prevOf
    · intro k' hk'
      obtain ⟨k, hk, e⟩ := hmem k' (List.mem_append_left _ hk')
      rw [← e, hφ.handle]
      exact hnotin0 k hk
    · rw [hφ.handle, prevOf_map hφ]
      exact Forest.prevSibling_of_ctx sq.ctx
  · intro k' hk'
    obtain ⟨k, hk, e⟩ := hmem k' hk'
    rw [← e, hφ.handle, textData_map hφ]
    exact Forest.textOf_of_get (hgetk k hk)
  · intro htt k' hk' hkt v
    obtain ⟨k, hk, e⟩ := hmem k' hk'
    subst e
    rw [hφ.value] at hkt
    rw [hφ.handle]
    exact setSplice_kid so sq hne hq (hleafT htt) hk (hleaf k hk hkt) v

/-! ### `Tail` when the moved node is a child of the reference's parent -/

theorem tail_same {X : Forest} {q : Nat} {vq : Value} {l1 : List HTree} {t : HTree} {r1 : List HTree}
    {A : List HTree} {kr : HTree} {B : List HTree}
    (sX : SiteAt X q vq (l1 ++ t :: r1)) (hAB : l1 ++ r1 = A ++ kr :: B)
    (hleafT : t.value.isText = true → t.kids = [])
    (hleaf : ∀ k ∈ l1 ++ r1, k.value.isText = true → k.kids = [])
    (hprev : t.value.isText = true → X.selfPrev t.handle (X.prevSibling kr.handle) = prevOf A kr) :
    Tail X (X.editAt (some q) (dropTop t.handle)) t.handle t q vq A kr B := by
  have nd := sX.nd
  obtain ⟨ndL, hqL⟩ := sX.nodupKids
  obtain ⟨tl, tr⟩ := tops_ne_of_nodup ndL
  have hqt : q ∉ handles t := by
    intro hin
    apply hqL
    rw [fs_handlesList_append, handlesList_cons]
    exact List.mem_append_right _ (List.mem_append_left _ hin)
  have F := far_same (keep := Keep.earlier) sX
  have sY : SiteAt (X.editAt (some q) (dropTop t.handle)) q vq (A ++ kr :: B) := by
    have := F.ysite
    rwa [List.map_id, hAB] at this
  have hsubset : ∀ k ∈ A ++ kr :: B, k ∈ l1 ++ t :: r1 := by
    intro k hk
    rw [← hAB] at hk
    cases List.mem_append.1 hk with
    | inl h => exact List.mem_append_left _ h
    | inr h => exact List.mem_append_right _ (List.mem_cons_of_mem _ h)
  have hnotin : ∀ k ∈ A ++ kr :: B, k.handle ≠ t.handle := by
    intro k hk
    rw [← hAB] at hk
    cases List.mem_append.1 hk with
    | inl h => exact tl k h
    | inr h => exact tr k h
  have hgetk : ∀ k ∈ A ++ kr :: B, X.get? k.handle = some k := by
    intro k hk
    obtain ⟨P, Q, hPQ⟩ := List.append_of_mem (hsubset k hk)
    have s' : SiteAt X q vq (P ++ k :: Q) := hPQ ▸ sX
    exact s'.getKid
  have ndL2 : (handlesList (A ++ kr :: B)).Nodup := by
    rw [← hAB]
    rw [fs_handlesList_append, handlesList_cons] at ndL
    rw [fs_handlesList_append]
    exact ((List.Sublist.refl _).append (List.sublist_append_right _ _)).nodup ndL
  refine ⟨sX.getKid, Forest.editAt_consolidation _ _ _, sY, hnotin, ?_, hprev,
    fun k hk => Forest.textOf_of_get (hgetk k hk), ?_⟩
  · obtain ⟨P, Q, hPQ⟩ := List.append_of_mem (hsubset kr (by simp))
    have s' : SiteAt X q vq (P ++ kr :: Q) := hPQ ▸ sX
    rw [Forest.checkedInsertBefore_ok sX.getKid s' hqt (hnotin kr (by simp)), Forest.parent?_of_ctx sX.ctx,
      Forest.placeBefore_of_ctx t sY.nd sY.ctx]
  · intro htt k hk hkt v
    have hk' : k ∈ l1 ++ r1 := hAB ▸ hk
    exact F.flow2 rfl k.handle v ⟨k, hk', rfl⟩ (hnotin k hk) (hleafT htt) (fun ka hka e => by
      rw [eq_of_handle_eq ndL2 (hAB ▸ hka) hk e]; exact hleaf k hk' hkt)

/-! ### The old-place consolidation, pair reading -/

theorem mergeAdj_noop {a b : Nat} : ∀ L : List HTree,
    (∀ x ∈ L, ∀ y ∈ L, x.handle = a → y.handle = b → ¬ (x.value.isText = true ∧ y.value.isText = true)) →
    mergeAdj a b L = L
  | [], _ => mergeAdj_nil a b
  | [x], _ => mergeAdj_single a b x
  | x :: y :: rest, h => by
    rw [mergeAdj_cons_cons]
    split
    · rename_i hh
      rw [joinLeft_none (h x (by simp) y (by simp) hh.1 hh.2)]
      rfl
    · rw [mergeAdj_noop (y :: rest) (fun x' hx' y' hy' =>
        h x' (List.mem_cons_of_mem _ hx') y' (List.mem_cons_of_mem _ hy'))]

/-- The state `X` after the old-place consolidation around the child `t` of `po` (child list
    `l1 ++ t :: r1` there), and the function `M` the pair specification applies to the old child
    list after the cut. -/
structure OldP (f : Forest) (po : Nat) (vo : Value) (l : List HTree) (t : HTree) (r : List HTree) (X : Forest)
    (l1 r1 : List HTree) (M : List HTree → List HTree) : Prop where
  site : SiteAt X po vo (l1 ++ t :: r1)
  eqX : X = f.editAt (some po) (fun _ => l1 ++ t :: r1)
  spec : ∀ g : Forest, g.consolidation = f.consolidation →
    g.mergeLeftAt (some po) (f.nbOf t.handle) = g.editAt (some po) M
  nat : ∀ φ, KidMap φ → NatFor φ M
  far : M (l ++ r) = l1 ++ r1
  leaf1 : ∀ k ∈ l1 ++ r1, k.value.isText = true → k.kids = []
  sub : (handlesList (l1 ++ t :: r1)).Sublist (handlesList (l ++ t :: r))
  look : ∀ z, (∀ k ∈ l ++ r, k.value.isText = true → k.handle ≠ z) →
    findList? z (l1 ++ t :: r1) = findList? z (l ++ t :: r)
  cases : (l1 = l ∧ r1 = r ∧ X = f ∧ ∀ L', (∀ x ∈ L', x ∈ l ++ t :: r) → M L' = L') ∨
    (∃ l' a b r' x y, l = l' ++ [a] ∧ r = b :: r' ∧ a.value = .text x ∧ b.value = .text y ∧
      f.consolidation = true ∧ l1 = l' ++ [a.setValue (.text (x ++ y))] ∧ r1 = r' ∧
      M = mergeAdj a.handle b.handle)

/-- Nothing merged. -/
theorem oldP_same {f : Forest} {po : Nat} {vo : Value} {l : List HTree} {t : HTree} {r : List HTree}
    (so : SiteAt f po vo (l ++ t :: r))
    (hleaf : ∀ k ∈ l ++ t :: r, k.value.isText = true → k.kids = [])
    (h2 : f.consolidation = true → ∀ a b, l.getLast? = some a → r.head? = some b →
      ¬ (a.value.isText = true ∧ b.value.isText = true)) :
    ∃ M, OldP f po vo l t r f l r M := by
  obtain ⟨ndL, _⟩ := so.nodupKids
  have hsubset : ∀ k ∈ l ++ r, k ∈ l ++ t :: r := by
    intro k hk
    cases List.mem_append.1 hk with
    | inl h => exact List.mem_append_left _ h
    | inr h => exact List.mem_append_right _ (List.mem_cons_of_mem _ h)
  have heqX : f = f.editAt (some po) (fun _ => l ++ t :: r) := by
    rw [so.congr (g := fun _ => l ++ t :: r) (g' := id) rfl, Forest.editAt_id]
  have hnb := so.nbOf
  -- the identity serves whenever the specification merges nothing
  have viaId : (∀ g : Forest, g.consolidation = f.consolidation → g.mergeLeftAt (some po) (f.nbOf t.handle) = g) →
      ∃ M, OldP f po vo l t r f l r M := by
    intro h
    refine ⟨id, so, heqX, ?_, fun φ _ => natFor_id φ, rfl, fun k hk => hleaf k (hsubset k hk),
      List.Sublist.refl _, fun _ _ => rfl, Or.inl ⟨rfl, rfl, rfl, fun _ _ => rfl⟩⟩
    intro g hg
    rw [h g hg, Forest.editAt_id]
  rcases Bool.eq_false_or_eq_true f.consolidation with hc | hc
  case inr =>
    exact viaId (fun g hg => Forest.mergeLeftAt_off (hg.trans hc) _ _)
  cases hl : l.getLast? with
  | none =>
    apply viaId
    intro g _
    rw [hnb, hl]
    exact Forest.mergeLeftAt_none_left g po _
  | some a =>
    cases hr : r.head? with
    | none =>
      apply viaId
      intro g _
      rw [hnb, hr]
      exact Forest.mergeLeftAt_none_right g po _
    | some b =>
      have hal : a ∈ l := List.mem_of_getLast? hl
      have hbr : b ∈ r := List.mem_of_mem_head? hr
      have hnoop : ∀ L', (∀ x ∈ L', x ∈ l ++ t :: r) → mergeAdj a.handle b.handle L' = L' := by
        intro L' hL'
        apply mergeAdj_noop
        intro x hx y hy ex ey
        rw [eq_of_handle_eq ndL (hL' x hx) (List.mem_append_left _ hal) ex,
          eq_of_handle_eq ndL (hL' y hy) (List.mem_append_right _ (List.mem_cons_of_mem _ hbr)) ey]
        exact h2 hc a b hl hr
      refine ⟨mergeAdj a.handle b.handle, so, heqX, ?_, fun φ hφ => natFor_mergeAdj hφ _ _, hnoop _ hsubset,
        fun k hk => hleaf k (hsubset k hk), List.Sublist.refl _, fun _ _ => rfl,
        Or.inl ⟨rfl, rfl, rfl, hnoop⟩⟩
      intro g hg
      rw [hnb, hl, hr]
      simp only [Option.map_some]
      rw [Forest.mergeLeftAt_some, hg.trans hc]
      rfl

/-- The two text nodes around the leaving node were merged. -/
theorem oldP_merged {f : Forest} {po : Nat} {vo : Value} {l' : List HTree} {a t b : HTree} {r' : List HTree}
    {x y : Str} (so : SiteAt f po vo ((l' ++ [a]) ++ t :: b :: r'))
    (hleaf : ∀ k ∈ (l' ++ [a]) ++ t :: b :: r', k.value.isText = true → k.kids = [])
    (hc : f.consolidation = true) (hx : a.value = .text x) (hy : b.value = .text y) :
    OldP f po vo (l' ++ [a]) t (b :: r')
      (f.editAt (some po) (fun _ => l' ++ a.setValue (.text (x ++ y)) :: ([t] ++ r')))
      (l' ++ [a.setValue (.text (x ++ y))]) r' (mergeAdj a.handle b.handle) := by
  obtain ⟨ndL, _⟩ := so.nodupKids
  obtain ⟨tl, tr⟩ := tops_ne_of_nodup ndL
  have hat : a.value.isText = true := by rw [hx]; rfl
  have hbt : b.value.isText = true := by rw [hy]; rfl
  have haleaf : a.kids = [] := hleaf a (by simp) hat
  have hbleaf : b.kids = [] := hleaf b (by simp) hbt
  have e0 : l' ++ a.setValue (.text (x ++ y)) :: ([t] ++ r') = (l' ++ [a.setValue (.text (x ++ y))]) ++ t :: r' := by
    simp
  have hsub : (handlesList ((l' ++ [a.setValue (.text (x ++ y))]) ++ t :: r')).Sublist
      (handlesList ((l' ++ [a]) ++ t :: b :: r')) := by
    simp only [fs_handlesList_append, handlesList_cons, setValue_handles, handlesList_nil, List.append_nil,
      List.append_assoc]
    refine (List.Sublist.refl _).append ((List.Sublist.refl _).append ((List.Sublist.refl _).append ?_))
    exact List.sublist_append_right _ _
  rw [e0]
  refine ⟨?_, rfl, ?_, fun φ hφ => natFor_mergeAdj hφ _ _, ?_, ?_, hsub, ?_, Or.inr ⟨l', a, b, r', x, y, rfl, rfl, hx,
    hy, hc, rfl, rfl, rfl⟩⟩
  · exact so.edit (fun _ => (l' ++ [a.setValue (.text (x ++ y))]) ++ t :: r') hsub
  · intro g hg
    rw [so.nbOf, List.getLast?_concat, List.head?_cons]
    simp only [Option.map_some]
    rw [Forest.mergeLeftAt_some, hg.trans hc]
    rfl
  · have e1 : (l' ++ [a]) ++ b :: r' = l' ++ a :: b :: r' := by simp
    have hl' : ∀ k ∈ l', k.handle ≠ a.handle := by
      have : (handlesList (l' ++ a :: (t :: b :: r'))).Nodup := by
        have e2 : l' ++ a :: (t :: b :: r') = (l' ++ [a]) ++ t :: b :: r' := by simp
        rw [e2]; exact ndL
      exact (tops_ne_of_nodup this).1
    rw [e1, mergeAdj_mid_text hx hy r' hl']
    simp
  · intro k hk htx
    cases List.mem_append.1 hk with
    | inl h =>
      cases List.mem_append.1 h with
      | inl h' => exact hleaf k (by simp [h']) htx
      | inr h' =>
        have : k = a.setValue (.text (x ++ y)) := by simpa using h'
        rw [this, setValue_kids]; exact haleaf
    | inr h => exact hleaf k (by simp [h]) htx
  · intro z hz
    have hza : a.handle ≠ z := hz a (by simp) hat
    have hzb : b.handle ≠ z := hz b (by simp) hbt
    have hfb : find? z b = none := by
      cases b with
      | node bh bv bks =>
        simp only [HTree.kids] at hbleaf
        simp only [HTree.handle] at hzb
        subst hbleaf
        rw [find?_node, if_neg hzb, findList?_nil]
    simp only [findList?_append, findList?_cons, find?_setValue _ hza, hfb, findList?_nil]
    rfl

/-- The old-place step of a move of the child `t` of `po`, from `Forest.Inv`. -/
theorem oldP {f : Forest} {po : Nat} {vo : Value} {l : List HTree} {t : HTree} {r : List HTree}
    (inv : f.Inv) (so : SiteAt f po vo (l ++ t :: r)) :
    ∃ X l1 r1 M, (f.removeConsolidate (prevOf l t) (nextOf r t)).1 = X ∧ OldP f po vo l t r X l1 r1 M := by
  have hvalid := so.valid inv.valid
  have hord := (validTree_node hvalid).2.1
  have hleafAll := so.leaf inv.valid
  have hleaf : ∀ k ∈ r, k.value.isText = true → k.kids = [] :=
    fun k hk => hleafAll k (List.mem_append_right _ (List.mem_cons_of_mem _ hk))
  have so' : SiteAt f po vo (l ++ ([t] ++ r)) := so
  rcases oldSite (k := t) so' hleaf (hcat_of_ordered hord) with ⟨h1, h2⟩ | ⟨hc, l', a, b, r', x, y, el, er, hx, hy, hp, hn, h3⟩
  · obtain ⟨M, O⟩ := oldP_same so hleafAll h2
    exact ⟨f, l, r, M, by rw [h1], O⟩
  · subst el er
    exact ⟨_, _, _, _, by rw [h3], oldP_merged so hleafAll hc hx hy⟩

end PairBefore
end XotModel
