/-
  XotModel.Lemmas.SpanDescLeaf — the C17 description invariant `DInv` under the builder operations
  that add a leaf to the current node, extend its last text child, or close it.
-/
import XotModel.Lemmas.SpanDescEnv

namespace XotModel

/-! ### Span maps -/

theorem hasKey_add_cases {m : SpanMap} {k k' : SpanKey} {s : Span} (h : HasKey (m.add k s) k') :
    k' = k ∨ HasKey m k' := by
  by_cases hk : k' = k
  · exact .inl hk
  · right
    unfold HasKey at h ⊢
    rw [get_add_other _ _ _ _ hk] at h
    exact h

theorem hasKey_of_get {m : SpanMap} {k : SpanKey} {s : Span} (h : m.get k = some s) : HasKey m k := by
  unfold HasKey; rw [h]; rfl

theorem get_none_of_not_hasKey {m : SpanMap} {k : SpanKey} (h : ¬ HasKey m k) : m.get k = none := by
  unfold HasKey at h
  cases hg : m.get k with
  | none => rfl
  | some s => rw [hg] at h; exact absurd rfl h

theorem nextPath_eq (b : Builder) : framesPath (b.cur :: b.parents) = b.curPath ++ [b.cur.rkids.length] := by
  rw [framesPath_cons, curPath_eq]

/-- A key whose path is not the next node's path is not touched ⇒ protected keys are not touched. -/
theorem prot_of_next {b : Builder} {g' : SpanKey → Option Span}
    (hget : ∀ k : SpanKey, k.path ≠ b.curPath ++ [b.cur.rkids.length] → g' k = b.spans.get k) :
    ∀ k, Prot (b.cur :: b.parents) k → g' k = b.spans.get k := by
  intro k hk
  refine hget k (fun he => ?_)
  exact not_prot_new (b.cur :: b.parents) k [] (by rw [he, nextPath_eq]; simp) hk

/-! ### One more finished child -/

theorem frameDesc_cons {ts : List Token} {g : SpanKey → Option Span} {env : Env} {stack : NsStack} {path : Path}
    {f : Frame} {k : Tree} (h : FrameDesc ts g env stack path f)
    (hk : Desc ts g env stack (path ++ [f.rkids.length]) k)
    (hattr : ∀ n w, k.value ≠ .attribute n w) (hns : ∀ p n, k.value ≠ .namespace p n) :
    FrameDesc ts g env stack path { f with rkids := k :: f.rkids } := by
  refine ⟨⟨hk, h.1⟩, ?_⟩
  have h2 := h.2
  show (match f.value with
    | .element id => StartFacts ts g env stack path id (k :: f.rkids) ∧
        stack.head? = some (sdDeclsOf (k :: f.rkids).reverse)
    | _ => stack = baseStack)
  cases hv : f.value with
  | element id =>
    rw [hv] at h2
    refine ⟨⟨h2.1.1, fun x hx n v hxv => ?_⟩, by rw [declsOf_reverse_cons _ hns]; exact h2.2⟩
    simp only [List.mem_cons] at hx
    rcases hx with rfl | hx
    · exact absurd hxv (hattr n v)
    · exact h2.1.2 x hx n v hxv
  | _ => rw [hv] at h2; exact h2

theorem desc_leaf {ts : List Token} {g : SpanKey → Option Span} {env : Env} {stack : NsStack} {path : Path}
    {v : Value} (h : NodeFacts ts g env (innerStack v [] stack) path v []) :
    Desc ts g env stack path (.node v []) := by
  rw [Desc]; exact ⟨h, trivial⟩

/-! ### `add` of a leaf -/

theorem addLeaf_dinv {ts done done' : List Token} {b : Builder} (h : DInv ts done b)
    (hpre : done' <+: ts) (v : Value) (m' : SpanMap) (env' : Env) (he : SdEnvApp b.env env')
    (hattr : ∀ n w, v ≠ .attribute n w) (hns : ∀ p n, v ≠ .namespace p n)
    (hget : ∀ k : SpanKey, k.path ≠ b.curPath ++ [b.cur.rkids.length] → m'.get k = b.spans.get k)
    (hkeys : ∀ k, HasKey m' k → HasKey b.spans k ∨ k.path = b.curPath ++ [b.cur.rkids.length])
    (hfacts : NodeFacts ts m'.get env' (innerStack v [] b.nsStack) (b.curPath ++ [b.cur.rkids.length]) v [])
    (hopn : ∀ s, v = .text s → OpenText done' m'.get (b.curPath ++ [b.cur.rkids.length]) s) :
    DInv ts done' { (b.addLeaf v).1 with spans := m', env := env' } := by
  have hprot := prot_of_next (g' := m'.get) hget
  obtain ⟨hcur, hpar⟩ := h.stack
  have hpfx : PfxDesc ts m'.get env' ({ b.cur with rkids := .node v [] :: b.cur.rkids } :: b.parents) b.openPrefixes :=
    pfxDesc_head (f := b.cur) rfl (pfxDesc_mono he _ _ (fun k hk => hprot k (.inr hk)) h.pfx)
  refine ⟨hpre, ⟨?_, ?_⟩, hpfx, h.eb, ?_, ?_⟩
  · have hc' : FrameDesc ts m'.get env' b.nsStack (framesPath b.parents) b.cur :=
      frameDesc_mono he (fun k hk => hprot k (.inl (.inl hk)))
        (fun kind hkind => hprot ⟨framesPath b.parents, kind⟩ (.inr (.inl ⟨rfl, hkind⟩))) hcur
    exact frameDesc_cons hc' (desc_leaf (by rw [← curPath_eq]; exact hfacts)) hattr hns
  · exact stackDesc_mono he b.parents _ (fun k hk => hprot k (prot_cons hk)) hpar
  · intro s ks more hr
    simp only [Builder.addLeaf, List.cons.injEq, Tree.node.injEq] at hr
    obtain ⟨⟨hv, _⟩, hm⟩ := hr
    subst hm
    exact hopn s hv
  · intro k hk
    rcases hkeys k hk with hk | hk
    · exact (h.seen k hk).grow (by simp [Builder.addLeaf])
    · rw [hk, ← nextPath_eq]
      exact seen_next (by simp [Builder.addLeaf])

/-! ### Extending the last text child -/

theorem extendText_some {m : SpanMap} {node : Path} {s ex : Span} (h : m.get ⟨node, .text⟩ = some ex) :
    m.extendText node s = m.add ⟨node, .text⟩ ⟨ex.start, s.stop⟩ := by
  unfold SpanMap.extendText; rw [h]

theorem extendText_none {m : SpanMap} {node : Path} {s : Span} (h : m.get ⟨node, .text⟩ = none) :
    m.extendText node s = m.add ⟨node, .text⟩ s := by
  unfold SpanMap.extendText; rw [h]

/-- `consolidate_text`: the token `t` (text, or CDATA with content) extends the text child. -/
theorem mergeText_dinv {ts done : List Token} {b b' : Builder} (h : DInv ts done b) {t : Token} {tsp : StrSpan}
    {content s : Str} {ks more : List Tree}
    (hpre : done ++ [t] <+: ts) (hreal : t.isReal = true) (hspan : t.textSpan? = some tsp)
    (hval : runValue [t] = some content) (hr : b.cur.rkids = .node (.text s) ks :: more)
    (hc : b'.cur = { b.cur with rkids := .node (.text (s ++ content)) ks :: more })
    (hp : b'.parents = b.parents) (henv : b'.env = b.env) (hns : b'.nsStack = b.nsStack) (heb : b'.eb = b.eb)
    (hop : b'.openPrefixes = b.openPrefixes)
    (hs : b'.spans = b.spans.extendText (b.curPath ++ [more.length]) tsp.span) :
    DInv ts (done ++ [t]) b' := by
  obtain ⟨run, skips, sp, hsuf, hsk, hok, hv, hg⟩ := h.opn s ks more hr
  rw [extendText_some hg] at hs
  have hkey : ∀ k : SpanKey, k ≠ ⟨b.curPath ++ [more.length], .text⟩ → b'.spans.get k = b.spans.get k := by
    intro k hk; rw [hs]; exact get_add_other _ _ _ _ hk
  -- the new description of the text node
  have hopen : OpenText (done ++ [t]) b'.spans.get (b.curPath ++ [more.length]) (s ++ content) := by
    refine ⟨run ++ skips ++ [t], [], ⟨sp.start, tsp.stop⟩, ?_, (fun x hx => by cases hx),
      hok.extend hsk hreal hspan, ?_, (by rw [hs]; exact get_add_self _ _ _)⟩
    · obtain ⟨pre, hp⟩ := hsuf
      exact ⟨pre, by rw [← hp]; simp⟩
    · have h1 := runValue_append run skips s [] hv (runValue_passive skips hsk)
      rw [List.append_nil] at h1
      exact runValue_append (run ++ skips) [t] s content h1 hval
  obtain ⟨hcur, hpar⟩ := h.stack
  have hlen : (b.cur.rkids).length = more.length + 1 := by rw [hr]; rfl
  have hcp : b.curPath = framesPath b.parents := rfl
  have hpfx : PfxDesc ts b'.spans.get b'.env (b'.cur :: b'.parents) b'.openPrefixes := by
    rw [hc, hp, henv, hop]
    refine pfxDesc_head (f := b.cur) rfl (pfxDesc_mono (SdEnvApp.refl _) _ _ (fun k hk => hkey k (fun hkk => ?_)) h.pfx)
    refine not_ownKey_of_length (b.cur :: b.parents) k ?_ hk
    rw [hkk]
    simp [Builder.curPath]
  refine ⟨hpre, ?_, hpfx, (by rw [heb]; exact h.eb), ?_, ?_⟩
  · rw [hc, hp, henv, hns]
    refine ⟨?_, ?_⟩
    · -- the current frame
      have hold := hcur.1
      rw [hr] at hold
      obtain ⟨hhead, hmore⟩ := hold
      refine ⟨⟨?_, ?_⟩, ?_⟩
      · -- the text node itself
        rw [Desc] at hhead ⊢
        refine ⟨by rw [← hcp]; exact hopen.toFacts hpre, ?_⟩
        refine descList_mono (SdEnvApp.refl _) ks _ _ 0 (fun k j hk => hkey k (fun hkk => ?_)) hhead.2
        rw [hkk, hcp] at hk
        exact snoc_not_prefix_self _ j hk
      · refine descR_mono (SdEnvApp.refl _) more (fun k ⟨i, hi, hpf⟩ => hkey k (fun hkk => ?_)) hmore
        rw [hkk, hcp] at hpf
        have := prefix_snoc_ne (r := []) hpf (List.prefix_refl _)
        omega
      · have h2 := hcur.2
        show (match b.cur.value with
          | .element id => StartFacts ts b'.spans.get b.env b.nsStack (framesPath b.parents) id
              (.node (.text (s ++ content)) ks :: more) ∧
              b.nsStack.head? = some (sdDeclsOf (Tree.node (.text (s ++ content)) ks :: more).reverse)
          | _ => b.nsStack = baseStack)
        cases hvv : b.cur.value with
        | element id =>
          rw [hvv] at h2
          have hd : sdDeclsOf (Tree.node (.text (s ++ content)) ks :: more).reverse = sdDeclsOf b.cur.rkids.reverse := by
            rw [hr, declsOf_reverse_cons _ (by intro p n hh; cases hh),
              declsOf_reverse_cons _ (by intro p n hh; cases hh)]
          refine ⟨?_, by rw [hd]; exact h2.2⟩
          have hs' := h2.1.mono (g' := b'.spans.get) (SdEnvApp.refl _) (fun kind _ => hkey _ (fun hkk => by
            have := congrArg (fun k : SpanKey => k.path.length) hkk
            simp [hcp] at this))
          refine ⟨hs'.1, fun x hx n v hxv => ?_⟩
          simp only [List.mem_cons] at hx
          rcases hx with rfl | hx
          · cases hxv
          · exact hs'.2 x (by rw [hr]; simp [hx]) n v hxv
        | _ => rw [hvv] at h2; exact h2
    · refine stackDesc_mono (SdEnvApp.refl _) b.parents _ (fun k hk => hkey k (fun hkk => ?_)) hpar
      exact not_prot_new b.parents k [more.length] (by rw [hkk, hcp]) hk
  · intro s' ks' more' hr'
    rw [hc] at hr'
    simp only [List.cons.injEq, Tree.node.injEq, Value.text.injEq] at hr'
    obtain ⟨⟨hs'', _⟩, hm'⟩ := hr'
    subst hs'' hm'
    have : b'.curPath = b.curPath := by simp only [Builder.curPath, hp]
    rw [this]
    exact hopen
  · intro k hk
    rw [hc, hp]
    have : HasKey b.spans k := by
      rw [hs] at hk
      rcases hasKey_add_cases hk with rfl | hk
      · exact hasKey_of_get hg
      · exact hk
    exact (h.seen k this).grow (by simp [hlen])

/-! ### Closing the current element -/

theorem desc_close {ts : List Token} {g : SpanKey → Option Span} {env : Env} {stack : NsStack} {path : Path}
    {f : Frame} {id : Nat} (hv : f.value = .element id) (h : FrameDesc ts g env stack path f)
    (hend : EndFacts ts g path) : Desc ts g env stack.tail path f.close := by
  have h2 := h.2
  rw [hv] at h2
  have hst : sdDeclsOf f.rkids.reverse :: stack.tail = stack := by
    cases hs : stack with
    | nil => rw [hs] at h2; simp at h2
    | cons d rest => rw [hs] at h2; simp only [List.head?_cons, Option.some.injEq] at h2; rw [h2.2]; rfl
  unfold Frame.close
  rw [Desc, hv]
  show NodeFacts ts g env (sdDeclsOf f.rkids.reverse :: stack.tail) path (.element id) f.rkids.reverse ∧
    Desc.descList ts g env (sdDeclsOf f.rkids.reverse :: stack.tail) path 0 f.rkids.reverse
  rw [hst]
  exact ⟨⟨h2.1.of_perm (fun k hk => by simpa using hk), hend⟩, descList_of_R stack path _ h.1⟩

/-- `close_element` / `close_element_immediate` after the name checks: the current element, whose
    start tag is described, moves under its parent and gets its `ElementEnd` span. -/
theorem leave_dinv {ts done done' : List Token} {b b1 b' : Builder} (h : DInv ts done b) (hpre : done' <+: ts)
    {id : Nat} (hel : b.cur.value = .element id) {e : ElementEnd} {sp : StrSpan}
    (htok : Token.elementEnd e sp ∈ ts) (hne : e ≠ .open)
    (hcur : b1.cur = b.cur) (hpar : b1.parents = b.parents) (hsp : b1.spans = b.spans) (heb : b1.eb = b.eb)
    (hns : b1.nsStack = b.nsStack.tail) (hop : b1.openPrefixes = b.openPrefixes.tail) (he : SdEnvApp b.env b1.env)
    (hlink : ∀ p l, e = .close p l →
      b.openPrefixes.head? = some p.text ∧ ∃ ns, b1.env.names[id]? = some (l.text, ns))
    (hr : b1.leave b.curPath sp = .ok b') : DInv ts done' b' := by
  unfold Builder.leave Builder.toParent at hr
  rw [hpar] at hr
  cases hp : b.parents with
  | nil => rw [hp] at hr; cases hr
  | cons p rest =>
    rw [hp] at hr
    simp only [Step.ok.injEq] at hr
    subst hr
    simp only [hcur, hsp, heb, hns, hop]
    obtain ⟨hc, hps⟩ := h.stack
    rw [hp] at hc hps
    obtain ⟨hpf, hrest⟩ := hps
    have hcp : b.curPath = framesPath (p :: rest) := by rw [curPath_eq, hp]
    have hkey : ∀ k : SpanKey, k ≠ ⟨b.curPath, .elementEnd⟩ →
        (b.spans.add ⟨b.curPath, .elementEnd⟩ sp.span).get k = b.spans.get k :=
      fun k hk => get_add_other _ _ _ _ hk
    have hprot : ∀ k, Prot (b.cur :: p :: rest) k →
        (b.spans.add ⟨b.curPath, .elementEnd⟩ sp.span).get k = b.spans.get k := by
      intro k hk
      refine hkey k (fun hkk => ?_)
      rw [hkk, hcp] at hk
      exact not_prot_end b.cur (p :: rest) hk
    have hos : outerStack b.cur.value b.nsStack = b.nsStack.tail := by rw [hel]; rfl
    rw [hos] at hpf hrest
    -- the closed element, described at its place
    have hc' := frameDesc_mono he (fun k hk => hprot k (.inl (.inl hk)))
        (fun kind hkind => hprot ⟨framesPath (p :: rest), kind⟩ (.inr (.inl ⟨rfl, hkind⟩))) hc
    obtain ⟨⟨ps, ls, wsp, hstok, hsg, hshead, nss, hsname⟩, hprest⟩ := pfxDesc_element hel h.pfx
    rw [hp] at hsg hprest
    have hlnk : EndLink ts (b.spans.add ⟨b.curPath, .elementEnd⟩ sp.span).get (framesPath (p :: rest)) e := by
      intro q l hql
      obtain ⟨hh, ns', hn'⟩ := hlink q l hql
      refine ⟨ps, ls, wsp, hstok, ?_, ?_, ?_⟩
      · rw [hkey _ (fun hkk => by have h2 := congrArg SpanKey.kind hkk; cases h2)]; exact hsg
      · rw [hshead] at hh; exact Option.some.inj hh
      · obtain ⟨z, hz⟩ := he.nm
        rw [hz, getElem?_append_of_some hsname] at hn'
        have := Option.some.inj hn'
        exact (congrArg Prod.fst this)
    have hclosed := desc_close hel hc' ⟨e, sp, htok, hne, by rw [← hcp]; exact get_add_self _ _ _, hlnk⟩
    have hpf' := frameDesc_mono he (fun k hk => hprot k (.inl (.inr (.inl hk))))
        (fun kind hkind => hprot ⟨framesPath rest, kind⟩ (.inr (.inr (.inl ⟨rfl, hkind⟩)))) hpf
    have hval : b.cur.close.value = .element id := hel
    have hpfx : PfxDesc ts (b.spans.add ⟨b.curPath, .elementEnd⟩ sp.span).get b1.env
        ({ p with rkids := b.cur.close :: p.rkids } :: rest) b.openPrefixes.tail :=
      pfxDesc_head (f := p) rfl (pfxDesc_mono he _ _ (fun k hk => hprot k (.inr (.inr hk))) hprest)
    refine ⟨hpre, ⟨?_, ?_⟩, hpfx, h.eb, ?_, ?_⟩
    · exact frameDesc_cons hpf' (by rw [← framesPath_cons]; exact hclosed)
        (by rw [hval]; intro n w hh; cases hh) (by rw [hval]; intro q n hh; cases hh)
    · exact stackDesc_mono he rest _ (fun k hk => hprot k (prot_cons (prot_cons hk))) hrest
    · intro s ks more hr'
      simp only [List.cons.injEq] at hr'
      have := congrArg Tree.value hr'.1
      rw [hval] at this
      cases this
    · intro k hk
      rcases hasKey_add_cases hk with rfl | hk
      · rw [hcp]
        exact seen_next (f := p) (by simp)
      · have := h.seen k hk
        rw [hp] at this
        exact this.pop (by simp)

end XotModel
