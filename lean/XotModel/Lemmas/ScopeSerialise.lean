/-
  XotModel.Lemmas.ScopeSerialise — the serialiser's name checks as membership in the top frame.

  `element_fullname` / `attribute_fullname` succeed iff the name is in no namespace, in the XML
  namespace, or some (non-empty, for attributes) prefix of the top frame is bound to its namespace
  (`sc_elementFullname_ok`, `sc_attributeFullname_ok`); `unresolved_namespaces` never reports the
  no-namespace id or the XML namespace.
-/
import XotModel.Lemmas.ScopeWalk

namespace XotModel

/-! ### Name checks as membership in the top frame -/

/-- Some prefix is bound to `ns`. -/
def knownIn (l : List (Nat × Nat)) (ns : Nat) : Bool := l.any (fun kv => kv.2 == ns)

/-- Some non-empty prefix is bound to `ns` (what an attribute name needs). -/
def attrKnownIn (l : List (Nat × Nat)) (ns : Nat) : Bool :=
  l.any (fun kv => kv.2 == ns && kv.1 != Env.emptyPrefix)

theorem mem_prefixesByNamespace_sc (l : List (Nat × Nat)) (ns p : Nat) :
    p ∈ prefixesByNamespace l ns ↔ (p, ns) ∈ l := by
  simp only [prefixesByNamespace, List.mem_map, List.mem_filter, List.mem_reverse]
  constructor
  · rintro ⟨⟨a, b⟩, ⟨hm, hb⟩, rfl⟩
    simp only [beq_iff_eq] at hb
    subst hb
    exact hm
  · intro h
    exact ⟨(p, ns), ⟨h, by simp⟩, rfl⟩

theorem knownIn_iff (l : List (Nat × Nat)) (ns : Nat) : knownIn l ns = true ↔ ∃ p, (p, ns) ∈ l := by
  simp only [knownIn, List.any_eq_true, beq_iff_eq]
  constructor
  · rintro ⟨⟨a, b⟩, hm, rfl⟩; exact ⟨a, hm⟩
  · rintro ⟨p, hp⟩; exact ⟨(p, ns), hp, rfl⟩

theorem attrKnownIn_iff (l : List (Nat × Nat)) (ns : Nat) :
    attrKnownIn l ns = true ↔ ∃ p, p ≠ Env.emptyPrefix ∧ (p, ns) ∈ l := by
  simp only [attrKnownIn, List.any_eq_true, Bool.and_eq_true, beq_iff_eq, bne_iff_ne]
  constructor
  · rintro ⟨⟨a, b⟩, hm, rfl, hne⟩; exact ⟨a, hne, hm⟩
  · rintro ⟨p, hne, hp⟩; exact ⟨(p, ns), hp, rfl, hne⟩

theorem sc_elementPrefixByNamespace_isSome (l : List (Nat × Nat)) (ns : Nat) :
    (elementPrefixByNamespace l ns).isSome = knownIn l ns := by
  unfold elementPrefixByNamespace
  cases hP : prefixesByNamespace l ns with
  | nil =>
    have : knownIn l ns = false := by
      apply Bool.eq_false_iff.2
      intro h
      obtain ⟨p, hp⟩ := (knownIn_iff l ns).1 h
      have := (mem_prefixesByNamespace_sc l ns p).2 hp
      simp [hP] at this
    simp [this]
  | cons p rest =>
    have : knownIn l ns = true :=
      (knownIn_iff l ns).2 ⟨p, (mem_prefixesByNamespace_sc l ns p).1 (by simp [hP])⟩
    rw [this]
    split <;> simp

theorem sc_attributePrefixByNamespace_isSome (l : List (Nat × Nat)) (ns : Nat) :
    (attributePrefixByNamespace l ns).isSome = attrKnownIn l ns := by
  unfold attributePrefixByNamespace
  apply Bool.eq_iff_iff.2
  rw [List.find?_isSome, attrKnownIn_iff]
  simp only [bne_iff_ne, ne_eq]
  constructor
  · rintro ⟨p, hp, hne⟩; exact ⟨p, hne, (mem_prefixesByNamespace_sc l ns p).1 hp⟩
  · rintro ⟨p, hne, hp⟩; exact ⟨p, (mem_prefixesByNamespace_sc l ns p).2 hp, hne⟩

theorem sc_elementPrefix_ok (env : Env) (top : List (Nat × Nat)) (name : Nat) :
    exceptIsOk (FStack.elementPrefix env [top] name) =
      (env.nsOfName name == Env.noNamespace || env.nsOfName name == Env.xmlNamespace ||
        knownIn top (env.nsOfName name)) := by
  rw [← sc_elementPrefixByNamespace_isSome]
  simp only [FStack.elementPrefix, FStack.top, List.headD_cons]
  cases h0 : env.nsOfName name == Env.noNamespace
  · cases h1 : env.nsOfName name == Env.xmlNamespace
    · simp only [Bool.false_eq_true, ↓reduceIte, Bool.false_or]
      cases elementPrefixByNamespace top (env.nsOfName name) with
      | none => rfl
      | some p => cases hp : p == Env.emptyPrefix <;> simp [hp, exceptIsOk]
    · simp [exceptIsOk]
  · simp [exceptIsOk]

theorem sc_attributePrefix_ok (env : Env) (top : List (Nat × Nat)) (name : Nat) :
    exceptIsOk (FStack.attributePrefix env [top] name) =
      (env.nsOfName name == Env.noNamespace || env.nsOfName name == Env.xmlNamespace ||
        attrKnownIn top (env.nsOfName name)) := by
  rw [← sc_attributePrefixByNamespace_isSome]
  simp only [FStack.attributePrefix, FStack.top, List.headD_cons]
  cases h0 : env.nsOfName name == Env.noNamespace
  · cases h1 : env.nsOfName name == Env.xmlNamespace
    · simp only [Bool.false_eq_true, ↓reduceIte, Bool.false_or]
      cases attributePrefixByNamespace top (env.nsOfName name) <;> rfl
    · simp [exceptIsOk]
  · simp [exceptIsOk]

theorem sc_elementFullname_ok (env : Env) (top : List (Nat × Nat)) (name : Nat) :
    exceptIsOk (FStack.elementFullname env [top] name) =
      (env.nsOfName name == Env.noNamespace || env.nsOfName name == Env.xmlNamespace ||
        knownIn top (env.nsOfName name)) := by
  rw [← sc_elementPrefix_ok]
  simp only [FStack.elementFullname]
  cases FStack.elementPrefix env [top] name <;> rfl

theorem sc_attributeFullname_ok (env : Env) (top : List (Nat × Nat)) (name : Nat) :
    exceptIsOk (FStack.attributeFullname env [top] name) =
      (env.nsOfName name == Env.noNamespace || env.nsOfName name == Env.xmlNamespace ||
        attrKnownIn top (env.nsOfName name)) := by
  rw [← sc_attributePrefix_ok]
  simp only [FStack.attributeFullname]
  cases FStack.attributePrefix env [top] name <;> rfl

/-! ### `unresolved_namespaces` never reports the no-namespace id or the XML namespace -/

theorem unresolvedOfElement_real (env : Env) (top : List (Nat × Nat)) (t : Tree) (name ns : Nat)
    (h : ns ∈ unresolvedOfElement env top t name) :
    ns ≠ Env.noNamespace ∧ ns ≠ Env.xmlNamespace := by
  simp only [unresolvedOfElement, List.mem_append, List.mem_filterMap, sc_elementPrefix_ok,
    sc_attributePrefix_ok] at h
  rcases h with h | ⟨a, _, h⟩
  · by_cases hc : (env.nsOfName name == Env.noNamespace || env.nsOfName name == Env.xmlNamespace ||
        knownIn top (env.nsOfName name)) = true
    · simp [hc] at h
    · simp only [hc, Bool.not_false, ↓reduceIte, List.mem_singleton] at h
      subst h
      simp only [Bool.or_eq_true, beq_iff_eq, not_or] at hc
      exact ⟨hc.1.1, hc.1.2⟩
  · by_cases hc : (env.nsOfName a == Env.noNamespace || env.nsOfName a == Env.xmlNamespace ||
        attrKnownIn top (env.nsOfName a)) = true
    · simp [hc] at h
    · simp only [hc, Bool.not_false, ↓reduceIte, Option.some.injEq] at h
      subst h
      simp only [Bool.or_eq_true, beq_iff_eq, not_or] at hc
      exact ⟨hc.1.1, hc.1.2⟩

mutual
theorem unresolvedRec_real (env : Env) (ns : Nat) : ∀ (t : Tree) (top : List (Nat × Nat)),
    ns ∈ unresolvedRec env top t → ns ≠ Env.noNamespace ∧ ns ≠ Env.xmlNamespace
  | .node v ks, top, h => by
    cases v with
    | element name =>
      simp only [unresolvedRec, List.mem_append] at h
      rcases h with h | h
      · exact unresolvedOfElement_real env _ _ _ _ h
      · exact unresolvedRecList_real env ns ks _ h
    | document => exact unresolvedRecList_real env ns ks top (by simpa [unresolvedRec] using h)
    | text s => exact unresolvedRecList_real env ns ks top (by simpa [unresolvedRec] using h)
    | pi a b => exact unresolvedRecList_real env ns ks top (by simpa [unresolvedRec] using h)
    | comment s => exact unresolvedRecList_real env ns ks top (by simpa [unresolvedRec] using h)
    | «attribute» a b => exact unresolvedRecList_real env ns ks top (by simpa [unresolvedRec] using h)
    | «namespace» a b => exact unresolvedRecList_real env ns ks top (by simpa [unresolvedRec] using h)
theorem unresolvedRecList_real (env : Env) (ns : Nat) : ∀ (ks : List Tree) (top : List (Nat × Nat)),
    ns ∈ unresolvedRec.unresolvedRecList env top ks → ns ≠ Env.noNamespace ∧ ns ≠ Env.xmlNamespace
  | [], top, h => by simp [unresolvedRec.unresolvedRecList] at h
  | k :: ks, top, h => by
    simp only [unresolvedRec.unresolvedRecList, List.mem_append] at h
    rcases h with h | h
    · exact unresolvedRec_real env ns k top h
    · exact unresolvedRecList_real env ns ks top h
end

end XotModel
