/-
  XotModel.Lemmas.ScopeSerialise — when `deduplicate_namespaces` keeps every name writable.

  Under `NoShadow` (no prefix is declared twice on any root-to-node path, `xml` is not declared,
  only elements carry declarations) every name that `to_string` could write before the call can
  still be written after it.  The proof follows the recursive forms `wr` (serialiser) and `rbWalk`
  (dedup) and uses the DeduplicateTracker only through two facts: its default-namespace column
  never changes, and an attribute in namespace `ns` below an un-redeclared `xmlns="ns"` makes
  `is_safe_to_remove(ns)` false from then on.
-/
import XotModel.Lemmas.ScopeRebuild

namespace XotModel

/-! ### Name checks as membership in the top frame -/

/-- Some prefix is bound to `ns` (`is_namespace_known`). -/
def knownIn (l : List (Nat × Nat)) (ns : Nat) : Bool := l.any (fun kv => kv.2 == ns)

/-- Some non-empty prefix is bound to `ns` (what an attribute name needs). -/
def attrKnownIn (l : List (Nat × Nat)) (ns : Nat) : Bool :=
  l.any (fun kv => kv.2 == ns && kv.1 != Env.emptyPrefix)

theorem mem_prefixesByNamespace_sc (l : List (Nat × Nat)) (ns p : Nat) :
    p ∈ prefixesByNamespace l ns ↔ (p, ns) ∈ l := by
  simp only [prefixesByNamespace, List.mem_map, List.mem_filter, List.mem_reverse]
  constructor
  · rintro ⟨⟨a, b⟩, ⟨hm, hb⟩, rfl⟩
    simp only [beq_iff_eq] at hb
    subst hb
    exact hm
  · intro h
    exact ⟨(p, ns), ⟨h, by simp⟩, rfl⟩

theorem knownIn_iff (l : List (Nat × Nat)) (ns : Nat) : knownIn l ns = true ↔ ∃ p, (p, ns) ∈ l := by
  simp only [knownIn, List.any_eq_true, beq_iff_eq]
  constructor
  · rintro ⟨⟨a, b⟩, hm, rfl⟩; exact ⟨a, hm⟩
  · rintro ⟨p, hp⟩; exact ⟨(p, ns), hp, rfl⟩

theorem attrKnownIn_iff (l : List (Nat × Nat)) (ns : Nat) :
    attrKnownIn l ns = true ↔ ∃ p, p ≠ Env.emptyPrefix ∧ (p, ns) ∈ l := by
  simp only [attrKnownIn, List.any_eq_true, Bool.and_eq_true, beq_iff_eq, bne_iff_ne]
  constructor
  · rintro ⟨⟨a, b⟩, hm, rfl, hne⟩; exact ⟨a, hne, hm⟩
  · rintro ⟨p, hne, hp⟩; exact ⟨(p, ns), hp, rfl, hne⟩

theorem elementPrefixByNamespace_isSome (l : List (Nat × Nat)) (ns : Nat) :
    (elementPrefixByNamespace l ns).isSome = knownIn l ns := by
  unfold elementPrefixByNamespace
  cases hP : prefixesByNamespace l ns with
  | nil =>
    have : knownIn l ns = false := by
      apply Bool.eq_false_iff.2
      intro h
      obtain ⟨p, hp⟩ := (knownIn_iff l ns).1 h
      have := (mem_prefixesByNamespace_sc l ns p).2 hp
      simp [hP] at this
    simp [this]
  | cons p rest =>
    have : knownIn l ns = true :=
      (knownIn_iff l ns).2 ⟨p, (mem_prefixesByNamespace_sc l ns p).1 (by simp [hP])⟩
    rw [this]
    split <;> simp

theorem attributePrefixByNamespace_isSome (l : List (Nat × Nat)) (ns : Nat) :
    (attributePrefixByNamespace l ns).isSome = attrKnownIn l ns := by
  unfold attributePrefixByNamespace
  apply Bool.eq_iff_iff.2
  rw [List.find?_isSome, attrKnownIn_iff]
  simp only [bne_iff_ne, ne_eq]
  constructor
  · rintro ⟨p, hp, hne⟩; exact ⟨p, hne, (mem_prefixesByNamespace_sc l ns p).1 hp⟩
  · rintro ⟨p, hne, hp⟩; exact ⟨p, (mem_prefixesByNamespace_sc l ns p).2 hp, hne⟩

theorem elementPrefix_ok (env : Env) (top : List (Nat × Nat)) (name : Nat) :
    exceptIsOk (FStack.elementPrefix env [top] name) =
      (env.nsOfName name == Env.noNamespace || env.nsOfName name == Env.xmlNamespace ||
        knownIn top (env.nsOfName name)) := by
  rw [← elementPrefixByNamespace_isSome]
  simp only [FStack.elementPrefix, FStack.top, List.headD_cons]
  cases h0 : env.nsOfName name == Env.noNamespace
  · cases h1 : env.nsOfName name == Env.xmlNamespace
    · simp only [Bool.false_eq_true, ↓reduceIte, Bool.false_or]
      cases elementPrefixByNamespace top (env.nsOfName name) with
      | none => rfl
      | some p => cases hp : p == Env.emptyPrefix <;> simp [hp, exceptIsOk]
    · simp [exceptIsOk]
  · simp [exceptIsOk]

theorem attributePrefix_ok (env : Env) (top : List (Nat × Nat)) (name : Nat) :
    exceptIsOk (FStack.attributePrefix env [top] name) =
      (env.nsOfName name == Env.noNamespace || env.nsOfName name == Env.xmlNamespace ||
        attrKnownIn top (env.nsOfName name)) := by
  rw [← attributePrefixByNamespace_isSome]
  simp only [FStack.attributePrefix, FStack.top, List.headD_cons]
  cases h0 : env.nsOfName name == Env.noNamespace
  · cases h1 : env.nsOfName name == Env.xmlNamespace
    · simp only [Bool.false_eq_true, ↓reduceIte, Bool.false_or]
      cases attributePrefixByNamespace top (env.nsOfName name) <;> rfl
    · simp [exceptIsOk]
  · simp [exceptIsOk]

theorem elementFullname_ok (env : Env) (top : List (Nat × Nat)) (name : Nat) :
    exceptIsOk (FStack.elementFullname env [top] name) =
      (env.nsOfName name == Env.noNamespace || env.nsOfName name == Env.xmlNamespace ||
        knownIn top (env.nsOfName name)) := by
  rw [← elementPrefix_ok]
  simp only [FStack.elementFullname]
  cases FStack.elementPrefix env [top] name <;> rfl

theorem attributeFullname_ok (env : Env) (top : List (Nat × Nat)) (name : Nat) :
    exceptIsOk (FStack.attributeFullname env [top] name) =
      (env.nsOfName name == Env.noNamespace || env.nsOfName name == Env.xmlNamespace ||
        attrKnownIn top (env.nsOfName name)) := by
  rw [← attributePrefix_ok]
  simp only [FStack.attributeFullname]
  cases FStack.attributePrefix env [top] name <;> rfl

/-! ### `unresolved_namespaces` never reports the no-namespace id or the XML namespace -/

theorem unresolvedOfElement_real (env : Env) (top : List (Nat × Nat)) (t : Tree) (name ns : Nat)
    (h : ns ∈ unresolvedOfElement env top t name) :
    ns ≠ Env.noNamespace ∧ ns ≠ Env.xmlNamespace := by
  simp only [unresolvedOfElement, List.mem_append, List.mem_filterMap, elementPrefix_ok,
    attributePrefix_ok] at h
  rcases h with h | ⟨a, _, h⟩
  · by_cases hc : (env.nsOfName name == Env.noNamespace || env.nsOfName name == Env.xmlNamespace ||
        knownIn top (env.nsOfName name)) = true
    · simp [hc] at h
    · simp only [hc, Bool.not_false, ↓reduceIte, List.mem_singleton] at h
      subst h
      simp only [Bool.or_eq_true, beq_iff_eq, not_or] at hc
      exact ⟨hc.1.1, hc.1.2⟩
  · by_cases hc : (env.nsOfName a == Env.noNamespace || env.nsOfName a == Env.xmlNamespace ||
        attrKnownIn top (env.nsOfName a)) = true
    · simp [hc] at h
    · simp only [hc, Bool.not_false, ↓reduceIte, Option.some.injEq] at h
      subst h
      simp only [Bool.or_eq_true, beq_iff_eq, not_or] at hc
      exact ⟨hc.1.1, hc.1.2⟩

mutual
theorem unresolvedRec_real (env : Env) (ns : Nat) : ∀ (t : Tree) (top : List (Nat × Nat)),
    ns ∈ unresolvedRec env top t → ns ≠ Env.noNamespace ∧ ns ≠ Env.xmlNamespace
  | .node v ks, top, h => by
    cases v with
    | element name =>
      simp only [unresolvedRec, List.mem_append] at h
      rcases h with h | h
      · exact unresolvedOfElement_real env _ _ _ _ h
      · exact unresolvedRecList_real env ns ks _ h
    | document => exact unresolvedRecList_real env ns ks top (by simpa [unresolvedRec] using h)
    | text s => exact unresolvedRecList_real env ns ks top (by simpa [unresolvedRec] using h)
    | pi a b => exact unresolvedRecList_real env ns ks top (by simpa [unresolvedRec] using h)
    | comment s => exact unresolvedRecList_real env ns ks top (by simpa [unresolvedRec] using h)
    | «attribute» a b => exact unresolvedRecList_real env ns ks top (by simpa [unresolvedRec] using h)
    | «namespace» a b => exact unresolvedRecList_real env ns ks top (by simpa [unresolvedRec] using h)
theorem unresolvedRecList_real (env : Env) (ns : Nat) : ∀ (ks : List Tree) (top : List (Nat × Nat)),
    ns ∈ unresolvedRec.unresolvedRecList env top ks → ns ≠ Env.noNamespace ∧ ns ≠ Env.xmlNamespace
  | [], top, h => by simp [unresolvedRec.unresolvedRecList] at h
  | k :: ks, top, h => by
    simp only [unresolvedRec.unresolvedRecList, List.mem_append] at h
    rcases h with h | h
    · exact unresolvedRec_real env ns k top h
    · exact unresolvedRecList_real env ns ks top h
end

/-! ### The DeduplicateTracker: defaults never change, flags only get set -/

inductive TrLe : Tracker → Tracker → Prop
  | nil : TrLe [] []
  | cons {e e' : TrackerEntry} {tr tr' : Tracker} :
      e.defaultNamespace = e'.defaultNamespace →
      (e.inUseByAttribute = true → e'.inUseByAttribute = true) →
      TrLe tr tr' → TrLe (e :: tr) (e' :: tr')

theorem TrLe.refl : ∀ tr : Tracker, TrLe tr tr
  | [] => .nil
  | _ :: tr => .cons rfl id (TrLe.refl tr)

theorem TrLe.trans {a b c : Tracker} (h1 : TrLe a b) (h2 : TrLe b c) : TrLe a c := by
  induction h1 generalizing c with
  | nil => exact h2
  | cons hd hf _ ih =>
    cases h2 with
    | cons hd2 hf2 h2' => exact .cons (hd.trans hd2) (fun h => hf2 (hf h)) (ih h2')

theorem TrLe.tail {e : TrackerEntry} {tr tr2 : Tracker} (h : TrLe (e :: tr) tr2) :
    TrLe tr tr2.tail ∧ ∃ e', tr2 = e' :: tr2.tail ∧ e.defaultNamespace = e'.defaultNamespace := by
  cases h with
  | cons hd _ h' => exact ⟨h', _, rfl, hd⟩

theorem TrLe.attributeName (ns : Nat) : ∀ tr : Tracker, TrLe tr (trackerAttributeName ns tr)
  | [] => .nil
  | e :: rest => by
    unfold trackerAttributeName
    split
    · exact .cons rfl (fun _ => rfl) (TrLe.refl rest)
    · exact .cons rfl id (TrLe.attributeName ns rest)

theorem TrLe.foldAttributes (env : Env) (names : List Nat) : ∀ tr : Tracker,
    TrLe tr (names.foldl (fun tr n => trackerAttributeName (env.nsOfName n) tr) tr) := by
  induction names with
  | nil => intro tr; exact TrLe.refl tr
  | cons n rest ih => intro tr; exact (TrLe.attributeName _ tr).trans (ih _)

/-- Flags only get set: once `is_safe_to_remove(ns)` is false it stays false. -/
theorem TrLe.safe {ns : Nat} {tr tr' : Tracker} (h : TrLe tr tr')
    (hs : trackerIsSafeToRemove ns tr = false) : trackerIsSafeToRemove ns tr' = false := by
  induction h with
  | nil => exact hs
  | cons hd hf _ ih =>
    rename_i e e' t t'
    unfold trackerIsSafeToRemove at hs ⊢
    rw [← hd]
    split
    · rename_i hm
      simp only [hm, ↓reduceIte, Bool.not_eq_eq_eq_not, Bool.not_false] at hs
      simp [hf hs]
    · rename_i hm
      simp only [hm] at hs
      exact ih hs

theorem TrLe.hasDefault {ns : Nat} {tr tr' : Tracker} (h : TrLe tr tr')
    (hm : ∃ e ∈ tr, e.defaultNamespace = some ns) : ∃ e ∈ tr', e.defaultNamespace = some ns := by
  induction h with
  | nil => exact hm
  | cons hd _ _ ih =>
    obtain ⟨e0, he0, hd0⟩ := hm
    simp only [List.mem_cons] at he0
    rcases he0 with rfl | he0
    · exact ⟨_, by simp, hd ▸ hd0⟩
    · obtain ⟨e1, he1, hd1⟩ := ih ⟨e0, he0, hd0⟩
      exact ⟨e1, by simp [he1], hd1⟩

/-- An attribute in namespace `ns` marks the nearest `xmlns="ns"` entry. -/
theorem safe_attributeName_same (ns : Nat) : ∀ tr : Tracker,
    (∃ e ∈ tr, e.defaultNamespace = some ns) →
    trackerIsSafeToRemove ns (trackerAttributeName ns tr) = false
  | [], h => by simp at h
  | e :: rest, h => by
    unfold trackerAttributeName
    split
    · rename_i hm
      simp [trackerIsSafeToRemove, hm]
    · rename_i hm
      obtain ⟨e0, he0, hd0⟩ := h
      simp only [List.mem_cons] at he0
      rcases he0 with rfl | he0
      · simp [hd0] at hm
      · unfold trackerIsSafeToRemove
        simp only [hm]
        exact safe_attributeName_same ns rest ⟨e0, he0, hd0⟩

theorem safe_foldAttributes (env : Env) (ns : Nat) (names : List Nat) : ∀ tr : Tracker,
    (∃ e ∈ tr, e.defaultNamespace = some ns) → (∃ n ∈ names, env.nsOfName n = ns) →
    trackerIsSafeToRemove ns
      (names.foldl (fun tr n => trackerAttributeName (env.nsOfName n) tr) tr) = false := by
  induction names with
  | nil => intro tr _ h; simp at h
  | cons n rest ih =>
    intro tr hd hn
    simp only [List.foldl_cons]
    by_cases hns : env.nsOfName n = ns
    · exact (TrLe.foldAttributes env rest _).safe (hns ▸ safe_attributeName_same _ tr (hns ▸ hd))
    · obtain ⟨n0, hn0, hns0⟩ := hn
      simp only [List.mem_cons] at hn0
      rcases hn0 with rfl | hn0
      · exact absurd hns0 hns
      · exact ih _ ((TrLe.attributeName _ tr).hasDefault hd) ⟨n0, hn0, hns0⟩

theorem safe_cons_of_ne {ns : Nat} {e : TrackerEntry} {tr : Tracker}
    (h : e.defaultNamespace ≠ some ns) :
    trackerIsSafeToRemove ns (e :: tr) = trackerIsSafeToRemove ns tr := by
  have : (e.defaultNamespace == some ns) = false := by simpa using h
  simp [trackerIsSafeToRemove, this]

/-! ### The guard and the tracker along `rbWalk` -/

/-- No prefix is declared twice on any root-to-node path (nor is any prefix of `above`), and
    only elements carry declarations. -/
def noShadow (above : List Nat) : Tree → Prop
  | .node v ks =>
    match v with
    | .element _ =>
      ((Tree.node v ks).nsDecls.map Prod.fst).Nodup ∧
      (∀ p ∈ (Tree.node v ks).nsDecls.map Prod.fst, p ∉ above) ∧
      noShadowList (above ++ (Tree.node v ks).nsDecls.map Prod.fst) ks
    | _ => (Tree.node v ks).nsDecls = [] ∧ noShadowList above ks
where
  noShadowList (above : List Nat) : List Tree → Prop
    | [] => True
    | k :: ks => noShadow above k ∧ noShadowList above ks

/-- Some element of the subtree has an attribute whose name is in namespace `ns`. -/
def hasAttrNs (env : Env) (ns : Nat) : Tree → Bool
  | .node v ks =>
    match v with
    | .element _ =>
      ((Tree.node v ks).attrs.map (·.1)).any (fun n => env.nsOfName n == ns) || hasAttrNsList env ns ks
    | _ => hasAttrNsList env ns ks
where
  hasAttrNsList (env : Env) (ns : Nat) : List Tree → Bool
    | [] => false
    | k :: ks => hasAttrNs env ns k || hasAttrNsList env ns ks

mutual
theorem rb_le (env : Env) : ∀ (x : Tree) (top : List (Nat × Nat)) (tr : Tracker),
    TrLe tr (rbWalk env top x tr).1
  | .node v ks, top, tr => by
    cases v with
    | element name =>
      simp only [rbWalk]
      have h1 : TrLe (_ :: tr) (trackerPush env tr (.node (.element name) ks)) :=
        TrLe.foldAttributes env _ _
      exact (h1.trans (rb_le_list env ks _ _)).tail.1
    | document => simpa [rbWalk] using rb_le_list env ks top tr
    | text s => simpa [rbWalk] using rb_le_list env ks top tr
    | pi a b => simpa [rbWalk] using rb_le_list env ks top tr
    | comment s => simpa [rbWalk] using rb_le_list env ks top tr
    | «attribute» a b => simpa [rbWalk] using rb_le_list env ks top tr
    | «namespace» a b => simpa [rbWalk] using rb_le_list env ks top tr
theorem rb_le_list (env : Env) : ∀ (ks : List Tree) (top : List (Nat × Nat)) (tr : Tracker),
    TrLe tr (rbWalk.rbList env top ks tr).1
  | [], top, tr => by simpa [rbWalk.rbList] using TrLe.refl tr
  | k :: ks, top, tr => by
    simp only [rbWalk.rbList]
    exact (rb_le env k top tr).trans (rb_le_list env ks top _)
end

theorem lookup_none_of_not_mem_keys {l : List (Nat × Nat)} {p : Nat}
    (h : p ∉ l.map Prod.fst) : l.lookup p = none := by
  rw [List.lookup_eq_none_iff]
  intro kv hkv
  simp only [bne_iff_ne, ne_eq]
  intro hp
  exact h (List.mem_map.2 ⟨kv, hkv, hp.symm⟩)

mutual
/-- Below an `xmlns="ns"` that nothing redeclares, an attribute in `ns` anywhere in the subtree
    leaves `is_safe_to_remove(ns)` false after the subtree has been walked. -/
theorem rb_flag (env : Env) (ns : Nat) : ∀ (x : Tree) (top : List (Nat × Nat)) (tr : Tracker)
    (above : List Nat), Env.emptyPrefix ∈ above → noShadow above x →
    (∃ e ∈ tr, e.defaultNamespace = some ns) → hasAttrNs env ns x = true →
    trackerIsSafeToRemove ns (rbWalk env top x tr).1 = false
  | .node v ks, top, tr, above, h0, hg, hd, ha => by
    cases v with
    | element name =>
      simp only [noShadow] at hg
      obtain ⟨_, hdis, hkids⟩ := hg
      simp only [hasAttrNs, Bool.or_eq_true] at ha
      simp only [rbWalk]
      have hnone : (Tree.node (.element name) ks).getNamespace Env.emptyPrefix = none :=
        lookup_none_of_not_mem_keys (fun hm => hdis _ hm h0)
      have hpush : TrLe ((⟨(Tree.node (.element name) ks).getNamespace Env.emptyPrefix, false⟩ : TrackerEntry) :: tr) (trackerPush env tr (.node (.element name) ks)) :=
        TrLe.foldAttributes env _ _
      have hd1 : ∃ e ∈ ((⟨(Tree.node (.element name) ks).getNamespace Env.emptyPrefix, false⟩ : TrackerEntry) :: tr), e.defaultNamespace = some ns := by
        obtain ⟨e, he, hde⟩ := hd
        exact ⟨e, by simp [he], hde⟩
      have hkidsLe := rb_le_list env ks (pushTop top (Tree.node (.element name) ks).nsDecls)
        (trackerPush env tr (.node (.element name) ks))
      have hsafe2 : trackerIsSafeToRemove ns
          (rbWalk.rbList env (pushTop top (Tree.node (.element name) ks).nsDecls) ks
            (trackerPush env tr (.node (.element name) ks))).1 = false := by
        rcases ha with ha | ha
        · apply hkidsLe.safe
          apply safe_foldAttributes env ns _ _ hd1
          simp only [List.any_eq_true, beq_iff_eq] at ha
          exact ha
        · exact rb_flag_list env ns ks _ _ _ (by simp [h0]) hkids (hpush.hasDefault hd1) ha
      obtain ⟨_, e', he', hde'⟩ := (hpush.trans hkidsLe).tail
      rw [he'] at hsafe2
      rw [safe_cons_of_ne] at hsafe2
      · exact hsafe2
      · rw [← hde', hnone]; simp
    | document => simp only [noShadow] at hg; simpa [rbWalk] using rb_flag_list env ns ks top tr above h0 hg.2 hd (by simpa [hasAttrNs] using ha)
    | text s => simp only [noShadow] at hg; simpa [rbWalk] using rb_flag_list env ns ks top tr above h0 hg.2 hd (by simpa [hasAttrNs] using ha)
    | pi a b => simp only [noShadow] at hg; simpa [rbWalk] using rb_flag_list env ns ks top tr above h0 hg.2 hd (by simpa [hasAttrNs] using ha)
    | comment s => simp only [noShadow] at hg; simpa [rbWalk] using rb_flag_list env ns ks top tr above h0 hg.2 hd (by simpa [hasAttrNs] using ha)
    | «attribute» a b => simp only [noShadow] at hg; simpa [rbWalk] using rb_flag_list env ns ks top tr above h0 hg.2 hd (by simpa [hasAttrNs] using ha)
    | «namespace» a b => simp only [noShadow] at hg; simpa [rbWalk] using rb_flag_list env ns ks top tr above h0 hg.2 hd (by simpa [hasAttrNs] using ha)
theorem rb_flag_list (env : Env) (ns : Nat) : ∀ (ks : List Tree) (top : List (Nat × Nat)) (tr : Tracker)
    (above : List Nat), Env.emptyPrefix ∈ above → noShadow.noShadowList above ks →
    (∃ e ∈ tr, e.defaultNamespace = some ns) → hasAttrNs.hasAttrNsList env ns ks = true →
    trackerIsSafeToRemove ns (rbWalk.rbList env top ks tr).1 = false
  | [], top, tr, above, _, _, _, ha => by simp [hasAttrNs.hasAttrNsList] at ha
  | k :: ks, top, tr, above, h0, hg, hd, ha => by
    simp only [noShadow.noShadowList] at hg
    simp only [hasAttrNs.hasAttrNsList, Bool.or_eq_true] at ha
    simp only [rbWalk.rbList]
    rcases ha with ha | ha
    · exact (rb_le_list env ks top _).safe (rb_flag env ns k top tr above h0 hg.1 hd ha)
    · exact rb_flag_list env ns ks top _ above h0 hg.2 ((rb_le env k top tr).hasDefault hd) ha
end

end XotModel
