/-
  XotModel.Lemmas.AcceptedRun — the builder invariant behind "accepted ⇒ representable", part 2:
  every step of `_parse` on a token with the tokenizer's lexical classes (`Token.accLex`) keeps
  `AccInv`; hence the tree an accepted run returns satisfies `TreeAcc` in the base scope, and the
  tables it leaves keep the standing facts (`EnvFacts`).
-/
import XotModel.Lemmas.ParseQName
import XotModel.Lemmas.AcceptedStep
import XotModel.Lemmas.AcceptedLineEnds

namespace XotModel.Accepted

open XotModel

/-- The invariant of the token loop. -/
structure AccInv (b : Builder) : Prop where
  facts : EnvFacts b.env
  chain : ChainAcc b.env (b.cur :: b.parents) b.nsStack
  eb : ∀ e, b.eb = some e → EbAcc b.env e

theorem accInv_new {env : Env} (hf : EnvFacts env) : AccInv (Builder.new env) := by
  refine ⟨hf, ⟨⟨trivial, fun k hk => by simp [Builder.new] at hk, fun h => by simp [Builder.new, Value.isElement] at h, .inr rfl⟩, ?_⟩,
    fun e he => by simp [Builder.new] at he⟩
  simp [ChainAcc, parentStack, Builder.new, Value.isElement, base2]

/-! ### Adding to the current frame -/

theorem addText_chain {b : Builder} {env : Env} (content : Str)
    (hc : ChainAcc env (b.cur :: b.parents) b.nsStack) (hne : content ≠ []) (hall : content.all isXmlChar = true) :
    ChainAcc env ((b.addText content).1.cur :: (b.addText content).1.parents) (b.addText content).1.nsStack := by
  obtain ⟨hcur, hrest⟩ := hc
  unfold Builder.addText
  split
  · next s ks more hk =>
    refine ⟨⟨hcur.val, fun k hk' => ?_, fun he => ?_, hcur.kind⟩, hrest⟩
    · simp only [List.mem_cons] at hk'
      rcases hk' with rfl | hk'
      · have hold := hcur.kids (.node (.text s) ks) (by rw [hk]; simp)
        rw [treeAcc_node] at hold ⊢
        simp only [ctx, Value.isElement, Bool.false_eq_true, if_false] at hold ⊢
        refine ⟨⟨by simp [hold.1.1], ?_⟩, hold.2⟩
        simp only [List.all_append, hold.1.2, hall, Bool.and_self]
      · exact hcur.kids k (by rw [hk]; simp [hk'])
    · obtain ⟨st', hst⟩ := hcur.top he
      refine ⟨st', ?_⟩
      rw [hst, hk, rdecls_cons _ rfl, rdecls_cons _ rfl]
  · exact ⟨hcur.addKid (treeAcc_leaf rfl ⟨hne, hall⟩) rfl, hrest⟩

theorem addLeaf_chain {b : Builder} {env : Env} (v : Value)
    (hc : ChainAcc env (b.cur :: b.parents) b.nsStack) (hv : ValAcc env b.nsStack v) (he : v.isElement = false)
    (hn : nsPair v = none) :
    ChainAcc env ((b.addLeaf v).1.cur :: (b.addLeaf v).1.parents) (b.addLeaf v).1.nsStack :=
  ⟨hc.1.addKid (treeAcc_leaf he hv) hn, hc.2⟩

/-! ### Leaving an element -/

/-- `toParent`, when the namespace stack has been popped for an element. -/
theorem toParent_chain {b b' : Builder} {env : Env} {st : NsStack}
    (hc : ChainAcc env (b.cur :: b.parents) st) (hr : b.toParent = .ok b') :
    ChainAcc env (b'.cur :: b'.parents) (parentStack b.cur st) := by
  unfold Builder.toParent at hr
  split at hr
  · cases hr
  · rename_i p rest hpar
    simp only [Step.ok.injEq] at hr
    subst hr
    rw [hpar] at hc
    obtain ⟨hcur, hp, hrest⟩ := hc
    refine ⟨hp.addKid hcur.close ?_, hrest⟩
    exact kind_nsPair hcur.kind

theorem leave_chain {b b' : Builder} {env : Env} {st : NsStack} (node : Path) (sp : StrSpan)
    (hc : ChainAcc env (b.cur :: b.parents) st) (hr : b.leave node sp = .ok b') :
    ChainAcc env (b'.cur :: b'.parents) (parentStack b.cur st) ∧ b'.nsStack = b.nsStack ∧ b'.env = b.env ∧
      b'.eb = b.eb := by
  unfold Builder.leave at hr
  cases hb : b.toParent with
  | ok b2 =>
    rw [hb] at hr
    simp only [Step.ok.injEq] at hr
    subst hr
    have := toParent_chain hc hb
    unfold Builder.toParent at hb
    split at hb
    · cases hb
    · simp only [Step.ok.injEq] at hb
      subst hb
      exact ⟨this, rfl, rfl, rfl⟩
  | err e env => rw [hb] at hr; cases hr
  | panic => rw [hb] at hr; cases hr

theorem closeImmediate_acc {b b' : Builder} (sp : StrSpan) (h : AccInv b) (hr : b.closeImmediate sp = .ok b') :
    AccInv b' ∧ b'.env = b.env := by
  unfold Builder.closeImmediate at hr
  by_cases he : b.cur.value.isElement = true
  · simp only [he, if_true] at hr
    obtain ⟨h1, h2, h3, h4⟩ := leave_chain (b := { b with nsStack := b.nsStack.tail, openPrefixes := b.openPrefixes.tail })
      (st := b.nsStack) _ sp h.chain hr
    simp only at h2 h3 h4
    refine ⟨⟨by rw [h3]; exact h.facts, ?_, by rw [h4, h3]; exact h.eb⟩, h3⟩
    rw [h3, h2]
    simpa [parentStack, he] using h1
  · simp only [he, Bool.false_eq_true, if_false] at hr
    obtain ⟨h1, h2, h3, h4⟩ := leave_chain (st := b.nsStack) _ sp h.chain hr
    refine ⟨⟨by rw [h3]; exact h.facts, ?_, by rw [h4, h3]; exact h.eb⟩, h3⟩
    rw [h3, h2]
    simpa [parentStack, he] using h1

theorem closeElement_acc {b b' : Builder} (pfx loc sp : StrSpan) (h : AccInv b)
    (hr : b.closeElement pfx loc sp = .ok b') : AccInv b' ∧ EnvReach b.env b'.env := by
  unfold Builder.closeElement at hr
  cases hn : elementNameId b.env b.nsStack pfx.text loc.text pfx.span with
  | panic => rw [hn] at hr; cases hr
  | err e env => rw [hn] at hr; cases hr
  | ok r =>
    obtain ⟨env1, nameId⟩ := r
    rw [hn] at hr
    simp only at hr
    obtain ⟨hr1, _, _, _⟩ := elementNameId_acc hn
    have hchain := ChainAcc.mono hr1.app h.chain
    have hebs : ∀ e, b.eb = some e → EbAcc env1 e := fun e he => (h.eb e he).mono hr1.app
    split at hr
    · cases hr
    · split at hr
      · rename_i n hcur
        have he : b.cur.value.isElement = true := by rw [hcur]; rfl
        split at hr
        · cases hr
        · obtain ⟨h1, h2, h3, h4⟩ := leave_chain
            (b := { b with env := env1, nsStack := b.nsStack.tail, openPrefixes := b.openPrefixes.tail })
            (st := b.nsStack) _ sp hchain hr
          simp only at h2 h3 h4
          refine ⟨⟨by rw [h3]; exact hr1.facts h.facts, ?_, by rw [h4, h3]; exact hebs⟩, by rw [h3]; exact hr1⟩
          rw [h3, h2]
          simpa [parentStack, he] using h1
      · rename_i hcur
        have he : b.cur.value.isElement = false := by
          cases hv : b.cur.value <;> simp_all [Value.isElement]
        obtain ⟨h1, h2, h3, h4⟩ := leave_chain (b := { b with env := env1 }) (st := b.nsStack) _ sp hchain hr
        simp only at h2 h3 h4
        refine ⟨⟨by rw [h3]; exact hr1.facts h.facts, ?_, by rw [h4, h3]; exact hebs⟩, by rw [h3]; exact hr1⟩
        rw [h3, h2]
        simpa [parentStack, he] using h1

/-! ### Declarations and attributes of the pending start tag -/

theorem prefix_acc {b b' : Builder} (p : Str) (u : StrSpan) (sp : Span) (h : AccInv b)
    (hp : ncNameOK p = true) (hu : u.text.all isXmlChar = true) (hr : b.prefix p u sp = .ok b') :
    AccInv b' ∧ EnvReach b.env b'.env := by
  unfold Builder.prefix at hr
  split at hr
  · cases hr
  · rename_i uri hdec
    split at hr
    · cases hr
    rename_i hres
    dsimp only at hr
    split at hr
    · cases hr
    · rename_i eb heb
      split at hr
      · cases hr
      · simp only [Step.ok.injEq] at hr
        subst hr
        have hreach : EnvReach b.env ((b.env.internPrefix p).1.internNamespace uri).1 :=
          EnvReach.ns uri (EnvReach.pfx p (EnvReach.refl _))
        have hE := (h.eb eb heb).mono hreach.app
        refine ⟨⟨hreach.facts h.facts, ChainAcc.mono hreach.app h.chain, ?_⟩, hreach⟩
        intro e he
        simp only [Option.some.injEq] at he
        subst he
        refine ⟨hE.name, fun d hd => ?_, hE.attrs⟩
        simp only [List.mem_append, List.mem_singleton] at hd
        rcases hd with hd | rfl
        · exact hE.decls d hd
        · obtain ⟨p1, p2⟩ := internPrefix_facts b.env p
          obtain ⟨n1, n2⟩ := internNamespace_facts (b.env.internPrefix p).1 uri
          have happ := internNamespace_app (b.env.internPrefix p).1 uri
          refine ⟨Nat.lt_of_lt_of_le p1 (EnvApp.prefixes_le happ), n1, ?_, ?_, ?_⟩
          · rw [EnvApp.prefixStr happ p1, p2]; exact hp
          · rw [n2]; exact parseGo_all hu hdec
          · rw [EnvApp.prefixStr happ p1, p2, n2]; simpa using hres

theorem attribute_acc {b b' : Builder} (pfx loc value : StrSpan) (h : AccInv b)
    (hq : qnameOK pfx.text loc.text = true) (hv : value.text.all isXmlChar = true)
    (hx : ¬ (pfx.text = [] ∧ loc.text = xmlnsName)) (hr : b.attribute pfx loc value = .ok b') :
    AccInv b' ∧ b'.env = b.env := by
  unfold Builder.attribute at hr
  split at hr
  · cases hr
  · rename_i eb heb
    split at hr
    · cases hr
    · split at hr
      · cases hr
      · rename_i v hdec
        simp only [Step.ok.injEq] at hr
        subst hr
        have hE := h.eb eb heb
        refine ⟨⟨h.facts, h.chain, ?_⟩, rfl⟩
        intro e he
        simp only [Option.some.injEq] at he
        subst he
        refine ⟨hE.name, hE.decls, fun ab hab => ?_⟩
        simp only [List.mem_append, List.mem_singleton] at hab
        rcases hab with hab | rfl
        · exact hE.attrs ab hab
        · simp only [qnameOK, Bool.and_eq_true, Bool.not_eq_true', List.isEmpty_eq_false_iff] at hq
          refine ⟨?_, parseGo_all hv hdec, hx⟩
          simp only [ncNameNE, Bool.and_eq_true, hq.1.2, Bool.not_eq_true', List.isEmpty_eq_false_iff, true_and]
          exact hq.2

/-! ### One token -/

theorem step_acc {b b' : Builder} (t : Token) (h : AccInv b) (ht : t.accLex = true) (hr : b.step t = .ok b') :
    AccInv b' ∧ EnvReach b.env b'.env := by
  replace hr := Builder.step_ok_core hr
  cases t with
  | «attribute» pfx loc value sp =>
    simp only [Token.accLex, Bool.and_eq_true] at ht
    have hq := ht.1
    simp only [qnameOK, Bool.and_eq_true] at hq
    simp only [Builder.stepCore] at hr
    split at hr
    · exact prefix_acc _ _ _ h hq.1.2 ht.2 hr
    · next hp =>
      split at hr
      · exact prefix_acc _ _ _ h rfl ht.2 hr
      · next hd =>
        obtain ⟨h1, h2⟩ := attribute_acc pfx loc value h ht.1 ht.2 (by
          intro hh
          apply hd
          simp [hh.1, hh.2, xmlnsName]) hr
        exact ⟨h1, by rw [h2]; exact EnvReach.refl _⟩
  | text t =>
    simp only [Token.accLex, Bool.and_eq_true, Bool.not_eq_true', List.isEmpty_eq_false_iff] at ht
    simp only [Builder.stepCore, Builder.text] at hr
    split at hr
    · cases hr
    · rename_i content hdec
      simp only [Step.ok.injEq] at hr; subst hr
      have hc := addText_chain (b := b) content h.chain (parseGo_ne_nil ht.2 hdec ht.1) (parseGo_all ht.2 hdec)
      have e1 : (b.addText content).1.env = b.env := by unfold Builder.addText; split <;> rfl
      have e2 : (b.addText content).1.eb = b.eb := by unfold Builder.addText; split <;> rfl
      exact ⟨⟨by simp only [e1]; exact h.facts, by simp only [e1]; exact hc, by simp only [e1, e2]; exact h.eb⟩,
        by simp only [e1]; exact EnvReach.refl _⟩
  | cdata t sp =>
    simp only [Token.accLex] at ht
    simp only [Builder.stepCore, Builder.cdata] at hr
    split at hr
    · simp only [Step.ok.injEq] at hr; subst hr; exact ⟨h, EnvReach.refl _⟩
    · rename_i hne
      simp only [Step.ok.injEq] at hr; subst hr
      have hv := cdata_value ht (by simpa using hne)
      have hc := addText_chain (b := b) (replaceCr (replaceCrLf t.text)) h.chain hv.2 hv.1
      have e1 : (b.addText (replaceCr (replaceCrLf t.text))).1.env = b.env := by unfold Builder.addText; split <;> rfl
      have e2 : (b.addText (replaceCr (replaceCrLf t.text))).1.eb = b.eb := by unfold Builder.addText; split <;> rfl
      exact ⟨⟨by simp only [e1]; exact h.facts, by simp only [e1]; exact hc, by simp only [e1, e2]; exact h.eb⟩,
        by simp only [e1]; exact EnvReach.refl _⟩
  | elementStart pfx loc sp =>
    simp only [Token.accLex, qnameOK, Bool.and_eq_true, Bool.not_eq_true', List.isEmpty_eq_false_iff] at ht
    simp only [Builder.stepCore, Builder.element, Step.ok.injEq] at hr
    subst hr
    refine ⟨⟨h.facts, h.chain, fun e he => ?_⟩, EnvReach.refl _⟩
    simp only [Option.some.injEq] at he
    subst he
    refine ⟨?_, fun d hd => by simp [ElementBuilder.new] at hd, fun ab hab => by simp [ElementBuilder.new] at hab⟩
    simp only [ElementBuilder.new, ncNameNE, Bool.and_eq_true, ht.1.2, Bool.not_eq_true', List.isEmpty_eq_false_iff,
      true_and]
    exact ht.2
  | elementEnd e sp =>
    cases e with
    | «open» =>
      obtain ⟨h1, h2, h3⟩ := openElement_acc h.facts h.chain h.eb hr
      exact ⟨⟨h1.facts h.facts, h2, fun e he => by rw [h3] at he; cases he⟩, h1⟩
    | close pfx loc => exact closeElement_acc pfx loc sp h hr
    | empty =>
      simp only [Builder.stepCore] at hr
      cases hb : b.openElement with
      | ok b1 =>
        rw [hb] at hr
        obtain ⟨h1, h2, h3⟩ := openElement_acc h.facts h.chain h.eb hb
        obtain ⟨k1, k2⟩ := closeImmediate_acc sp ⟨h1.facts h.facts, h2, fun e he => by rw [h3] at he; cases he⟩ hr
        exact ⟨k1, by rw [k2]; exact h1⟩
      | err e env => rw [hb] at hr; cases hr
      | panic => rw [hb] at hr; cases hr
  | comment t sp =>
    simp only [Token.accLex] at ht
    simp only [Builder.stepCore, Builder.comment, Step.ok.injEq] at hr
    subst hr
    have hval : ValAcc b.env b.nsStack (.comment (normalizeLineEnds t.text)) := by
      obtain ⟨c1, c2, c3, c4⟩ := commentAcc_normalize ht
      simp only [ValAcc, commentAcc, Bool.and_eq_true, Bool.not_eq_true', bne_iff_ne, ne_eq]
      exact ⟨⟨⟨c1, c2⟩, c3⟩, c4⟩
    exact ⟨⟨h.facts, addLeaf_chain (.comment (normalizeLineEnds t.text)) h.chain hval rfl rfl, h.eb⟩,
      EnvReach.refl _⟩
  | pi target content sp =>
    simp only [Builder.stepCore] at hr
    split at hr
    · cases hr
    rename_i hres
    simp only [Builder.processingInstruction, Step.ok.injEq] at hr
    subst hr
    have hreach : EnvReach b.env (b.env.internName target.text Env.noNamespace).1 :=
      EnvReach.name _ _ (EnvReach.refl _)
    obtain ⟨n1, n2, n3⟩ := internName_facts b.env target.text Env.noNamespace
    have hval : ValAcc (b.env.internName target.text Env.noNamespace).1 b.nsStack
        (.pi (b.env.internName target.text Env.noNamespace).2
          (content.map fun c => normalizeLineEnds c.text)) := by
      refine ⟨n1, n3, ?_, ?_, ?_⟩
      · rw [n2]; cases content <;> simp only [Token.accLex, Bool.and_eq_true] at ht
        · exact ht
        · exact ht.1.1.1.1
      · cases content with
        | none => rfl
        | some c =>
          simp only [Token.accLex, Bool.and_eq_true] at ht
          simp only [Option.map_some, dataAcc]
          apply piData_normalize
          simp only [Bool.and_eq_true]
          exact ⟨⟨⟨ht.1.1.1.2, ht.1.1.2⟩, ht.1.2⟩, ht.2⟩
      · rw [n2]; simpa using hres
    refine ⟨⟨hreach.facts h.facts, ?_, fun e he => (h.eb e he).mono hreach.app⟩, hreach⟩
    exact addLeaf_chain (b := { b with env := (b.env.internName target.text Env.noNamespace).1 }) _
      (ChainAcc.mono hreach.app h.chain) hval rfl rfl
  | declaration v e s sp =>
    simp only [Builder.stepCore] at hr
    split at hr
    · cases hr
    · simp only [Step.ok.injEq] at hr; subst hr; exact ⟨h, EnvReach.refl _⟩
  | dtdStart sp => simp [Builder.stepCore] at hr
  | dtdEnd sp => simp [Builder.stepCore] at hr
  | emptyDtd sp => simp [Builder.stepCore] at hr
  | entityDecl sp => simp [Builder.stepCore] at hr

theorem run_acc (ts : List Token) (lexErr : Option Nat) :
    ∀ {b b' : Builder}, AccInv b → (∀ t ∈ ts, t.accLex = true) → b.run ts lexErr = .ok b' →
      AccInv b' ∧ EnvReach b.env b'.env := by
  induction ts with
  | nil =>
    intro b b' h _ hr
    cases lexErr with
    | none =>
      simp only [Builder.run] at hr
      split at hr
      · cases hr
      · simp only [Step.ok.injEq] at hr; subst hr; exact ⟨h, EnvReach.refl _⟩
    | some p => simp [Builder.run] at hr
  | cons t ts ih =>
    intro b b' h hts hr
    simp only [Builder.run] at hr
    cases hb : b.step t with
    | ok b1 =>
      rw [hb] at hr
      obtain ⟨h1, r1⟩ := step_acc t h (hts t (by simp)) hb
      obtain ⟨h2, r2⟩ := ih h1 (fun t' ht' => hts t' (by simp [ht'])) hr
      exact ⟨h2, r1.trans r2⟩
    | err e env => rw [hb] at hr; cases hr
    | panic => rw [hb] at hr; cases hr

/-! ### The finished tree -/

theorem chain_zip {env : Env} : ∀ (rest : List Frame) (f : Frame) (st : NsStack),
    ChainAcc env (f :: rest) st → TreeAcc env base2 (zipInto f.close rest)
  | [], f, st, hc => by
    have h2 : parentStack f st = base2 := hc.2
    rw [← h2]
    exact hc.1.close
  | p :: rest, f, st, hc => by
    obtain ⟨hf, hp, hrest⟩ := hc
    have : zipInto f.close (p :: rest) = zipInto (Frame.close { p with rkids := f.close :: p.rkids }) rest := rfl
    rw [this]
    exact chain_zip rest _ (parentStack f st) ⟨hp.addKid hf.close (kind_nsPair hf.kind), hrest⟩

/-- Whatever `build` accepts from tokens with the tokenizer's lexical classes: the tables keep the
    standing facts and only grow by interning, and every node of the tree is as `TreeAcc` says. -/
theorem build_acc {m : Mode} {len : Nat} {env : Env} {ts : List Token} {lexErr : Option Nat} {p : Parsed}
    (hf : EnvFacts env) (hts : ∀ t ∈ ts, t.accLex = true) (h : build m len env ts lexErr = .ok p) :
    EnvFacts p.env ∧ EnvReach env p.env ∧ TreeAcc p.env base2 p.tree := by
  unfold build at h
  split at h
  · cases h
  · cases h
  · rename_i b hb
    obtain ⟨hinv, hreach⟩ := run_acc ts lexErr (accInv_new hf) hts hb
    have hroot : TreeAcc b.env base2 b.root := chain_zip b.parents b.cur b.nsStack hinv.chain
    have hparsed : ∀ q, Builder.finishDocument len b = .ok q ∨ Builder.finishFragment b = .ok q → q = b.parsed := by
      intro q hq
      rcases hq with hq | hq
      · unfold Builder.finishDocument at hq
        split at hq
        · split at hq
          · cases hq
          · cases hq
          · split at hq
            · cases hq
            · simp only [BuildResult.ok.injEq] at hq; exact hq.symm
            · split at hq <;> cases hq
        · exact absurd hq (unclosed_not_ok b q)
      · unfold Builder.finishFragment at hq
        split at hq
        · simp only [BuildResult.ok.injEq] at hq; exact hq.symm
        · exact absurd hq (unclosed_not_ok b q)
    have : p = b.parsed := by
      cases m with
      | document => exact hparsed p (.inl h)
      | fragment => exact hparsed p (.inr h)
    subst this
    exact ⟨hinv.facts, hreach, hroot⟩

end XotModel.Accepted
