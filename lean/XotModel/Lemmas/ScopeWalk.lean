/-
  XotModel.Lemmas.ScopeWalk — folds over `xot.traverse(node)` as structural recursion.

  The loops of nameaccess.rs / xml_serializer.rs run over the edge stream with a stack that every
  element pushes at `Start` and pops at `End`.  Here the stack discipline is discharged once:
  the serialiser's "every name has a prefix" fold is a recursive function of the top frame.
-/
import XotModel.Lemmas.ScopeStack

namespace XotModel

theorem foldl_scopeTraverse {σ : Type} (step : σ → ScopeEdge → σ) (pre : Path) (v : Value)
    (ks : List Tree) (st : σ) :
    (scopeTraverse pre (.node v ks)).foldl step st =
      if v.isNormal then
        step ((scopeTraverse.go pre 0 ks).foldl step (step st (.start pre (.node v ks))))
          (.stop pre (.node v ks))
      else (scopeTraverse.go pre 0 ks).foldl step st := by
  unfold scopeTraverse
  split <;> simp [List.foldl_append]

theorem foldl_go_nil {σ : Type} (step : σ → ScopeEdge → σ) (pre : Path) (i : Nat) (st : σ) :
    (scopeTraverse.go pre i []).foldl step st = st := by
  simp [scopeTraverse.go]

theorem foldl_go_cons {σ : Type} (step : σ → ScopeEdge → σ) (pre : Path) (i : Nat) (k : Tree)
    (ks : List Tree) (st : σ) :
    (scopeTraverse.go pre i (k :: ks)).foldl step st =
      (scopeTraverse.go pre (i + 1) ks).foldl step ((scopeTraverse (pre ++ [i]) k).foldl step st) := by
  simp [scopeTraverse.go, List.foldl_append]

/-- The top frame after `push`. -/
def pushTop (top decls : List (Nat × Nat)) : List (Nat × Nat) :=
  if decls.isEmpty then top else fullnameInfoNew decls top

theorem FStack.top_push (s : FStack) (decls : List (Nat × Nat)) :
    (s.push decls).top = pushTop s.top decls := by
  unfold FStack.push pushTop
  cases decls <;> simp [FStack.top]

/-- Name checks of one element against the top frame (what `element_fullname` /
    `attribute_fullname` need). -/
def elementOk (env : Env) (top : List (Nat × Nat)) (t : Tree) (name : Nat) : Bool :=
  !(env.nsOfName name == Env.noNamespace && FStack.hasDefaultNamespace [top]) &&
    exceptIsOk (FStack.elementFullname env [top] name) &&
    (t.attrs.map (·.1)).all (fun n => exceptIsOk (FStack.attributeFullname env [top] n))

/-- `to_string` finds every prefix, as a recursive function of the top frame. -/
def wr (env : Env) (top : List (Nat × Nat)) : Tree → Bool
  | .node v ks =>
    match v with
    | .element name =>
      elementOk env (pushTop top (Tree.node v ks).nsDecls) (.node v ks) name &&
        wrList env (pushTop top (Tree.node v ks).nsDecls) ks
    | _ => wrList env top ks
where
  wrList (env : Env) (top : List (Nat × Nat)) : List Tree → Bool
    | [] => true
    | k :: ks => wr env top k && wrList env top ks

theorem hasDefaultNamespace_top (s : FStack) :
    s.hasDefaultNamespace = FStack.hasDefaultNamespace [s.top] := by
  simp [FStack.hasDefaultNamespace, FStack.top]

theorem elementFullname_top (env : Env) (s : FStack) (name : Nat) :
    FStack.elementFullname env s name = FStack.elementFullname env [s.top] name := by
  simp [FStack.elementFullname, FStack.elementPrefix, FStack.top]

theorem attributeFullname_top (env : Env) (s : FStack) (name : Nat) :
    FStack.attributeFullname env s name = FStack.attributeFullname env [s.top] name := by
  simp [FStack.attributeFullname, FStack.attributePrefix, FStack.top]

mutual
theorem writable_fold (env : Env) : ∀ (t : Tree) (pre : Path) (st : WritableState),
    (scopeTraverse pre t).foldl (writableStep env) st =
      { fs := st.fs, ok := st.ok && wr env st.fs.top t }
  | .node v ks, pre, st => by
    rw [foldl_scopeTraverse]
    cases v with
    | element name =>
      simp only [Value.isNormal, Value.category, beq_self_eq_true, ↓reduceIte]
      rw [show writableStep env st (.start pre (.node (.element name) ks)) =
          { fs := st.fs.push (Tree.node (.element name) ks).nsDecls,
            ok := st.ok && (!(env.nsOfName name == Env.noNamespace &&
                (st.fs.push (Tree.node (.element name) ks).nsDecls).hasDefaultNamespace) &&
              exceptIsOk ((st.fs.push (Tree.node (.element name) ks).nsDecls).elementFullname env name)) &&
              ((Tree.node (.element name) ks).attrs.map (·.1)).all (fun n =>
                exceptIsOk ((st.fs.push (Tree.node (.element name) ks).nsDecls).attributeFullname env n)) } from rfl]
      rw [writable_fold_list env ks pre 0]
      simp only [writableStep, Tree.value, Value.isElement, ↓reduceIte, hasNamespaceDeclarations,
        FStack.pop_push_sc, FStack.top_push, wr, elementOk]
      congr 1
      rw [elementFullname_top, FStack.top_push, hasDefaultNamespace_top, FStack.top_push]
      simp only [attributeFullname_top env (st.fs.push _), FStack.top_push, Bool.and_assoc]
    | document => simpa [Value.isNormal, Value.category, writableStep, Tree.value, Value.isElement, wr] using writable_fold_list env ks pre 0 st
    | text s => simpa [Value.isNormal, Value.category, writableStep, Tree.value, Value.isElement, wr] using writable_fold_list env ks pre 0 st
    | pi a b => simpa [Value.isNormal, Value.category, writableStep, Tree.value, Value.isElement, wr] using writable_fold_list env ks pre 0 st
    | comment s => simpa [Value.isNormal, Value.category, writableStep, Tree.value, Value.isElement, wr] using writable_fold_list env ks pre 0 st
    | «attribute» a b => simpa [Value.isNormal, Value.category, wr] using writable_fold_list env ks pre 0 st
    | «namespace» a b => simpa [Value.isNormal, Value.category, wr] using writable_fold_list env ks pre 0 st
theorem writable_fold_list (env : Env) : ∀ (ks : List Tree) (pre : Path) (i : Nat) (st : WritableState),
    (scopeTraverse.go pre i ks).foldl (writableStep env) st =
      { fs := st.fs, ok := st.ok && wr.wrList env st.fs.top ks }
  | [], pre, i, st => by simp [foldl_go_nil, wr.wrList]
  | k :: ks, pre, i, st => by
    rw [foldl_go_cons, writable_fold env k, writable_fold_list env ks]
    simp [wr.wrList, Bool.and_assoc]
end

/-- `namesWritable` as a recursive function. -/
theorem namesWritableChain_eq (env : Env) (chain : List Tree) (sub : Tree) :
    namesWritableChain env chain sub = wr env (namespacesInScopeChain chain) sub := by
  simp [namesWritableChain, writable_fold, FStack.new, FStack.top]

/-! ### `unresolved_namespaces` as a recursive function -/

theorem elementPrefix_top (env : Env) (s : FStack) (name : Nat) :
    FStack.elementPrefix env s name = FStack.elementPrefix env [s.top] name := by
  simp [FStack.elementPrefix, FStack.top]

theorem attributePrefix_top (env : Env) (s : FStack) (name : Nat) :
    FStack.attributePrefix env s name = FStack.attributePrefix env [s.top] name := by
  simp [FStack.attributePrefix, FStack.top]

/-- The namespaces one element contributes: of its own name when `element_prefix` fails in the
    top frame, then of every attribute name for which `attribute_prefix` fails. -/
def unresolvedOfElement (env : Env) (top : List (Nat × Nat)) (t : Tree) (name : Nat) : List Nat :=
  (if !exceptIsOk (FStack.elementPrefix env [top] name) then [env.nsOfName name] else []) ++
    (t.attrs.map (·.1)).filterMap fun n =>
      if !exceptIsOk (FStack.attributePrefix env [top] n) then some (env.nsOfName n) else none

def unresolvedRec (env : Env) (top : List (Nat × Nat)) : Tree → List Nat
  | .node v ks =>
    match v with
    | .element name =>
      unresolvedOfElement env (pushTop top (Tree.node v ks).nsDecls) (.node v ks) name ++
        unresolvedRecList env (pushTop top (Tree.node v ks).nsDecls) ks
    | _ => unresolvedRecList env top ks
where
  unresolvedRecList (env : Env) (top : List (Nat × Nat)) : List Tree → List Nat
    | [] => []
    | k :: ks => unresolvedRec env top k ++ unresolvedRecList env top ks

theorem foldl_push_if {α : Type} (c : α → Bool) (f : α → Nat) (l : List α) : ∀ (out : List Nat),
    l.foldl (fun out n => if c n then out ++ [f n] else out) out =
      out ++ l.filterMap (fun n => if c n then some (f n) else none) := by
  induction l with
  | nil => intro out; simp
  | cons a rest ih =>
    intro out
    simp only [List.foldl_cons, ih, List.filterMap_cons]
    cases c a <;> simp

mutual
theorem unresolved_fold (env : Env) : ∀ (t : Tree) (pre : Path) (st : UnresolvedState),
    (scopeTraverse pre t).foldl (unresolvedStep env) st =
      { fs := st.fs, out := st.out ++ unresolvedRec env st.fs.top t }
  | .node v ks, pre, st => by
    rw [foldl_scopeTraverse]
    cases v with
    | element name =>
      simp only [Value.isNormal, Value.category, beq_self_eq_true, ↓reduceIte]
      have hstart : unresolvedStep env st (.start pre (.node (.element name) ks)) =
          { fs := st.fs.push (Tree.node (.element name) ks).nsDecls,
            out := st.out ++ unresolvedOfElement env
              (pushTop st.fs.top (Tree.node (.element name) ks).nsDecls) (.node (.element name) ks) name } := by
        simp only [unresolvedStep, Tree.value, unresolvedOfElement,
          elementPrefix_top env (st.fs.push _), attributePrefix_top env (st.fs.push _), FStack.top_push]
        rw [foldl_push_if (fun n => !exceptIsOk (FStack.attributePrefix env
          [pushTop st.fs.top (Tree.node (.element name) ks).nsDecls] n)) (fun n => env.nsOfName n)]
        split <;> simp
      rw [hstart, unresolved_fold_list env ks pre 0]
      simp only [unresolvedStep, Tree.value, Value.isElement, ↓reduceIte, hasNamespaceDeclarations,
        FStack.pop_push_sc, FStack.top_push, unresolvedRec, List.append_assoc]
    | document => simpa [Value.isNormal, Value.category, unresolvedStep, Tree.value, Value.isElement, unresolvedRec] using unresolved_fold_list env ks pre 0 st
    | text s => simpa [Value.isNormal, Value.category, unresolvedStep, Tree.value, Value.isElement, unresolvedRec] using unresolved_fold_list env ks pre 0 st
    | pi a b => simpa [Value.isNormal, Value.category, unresolvedStep, Tree.value, Value.isElement, unresolvedRec] using unresolved_fold_list env ks pre 0 st
    | comment s => simpa [Value.isNormal, Value.category, unresolvedStep, Tree.value, Value.isElement, unresolvedRec] using unresolved_fold_list env ks pre 0 st
    | «attribute» a b => simpa [Value.isNormal, Value.category, unresolvedRec] using unresolved_fold_list env ks pre 0 st
    | «namespace» a b => simpa [Value.isNormal, Value.category, unresolvedRec] using unresolved_fold_list env ks pre 0 st
theorem unresolved_fold_list (env : Env) : ∀ (ks : List Tree) (pre : Path) (i : Nat) (st : UnresolvedState),
    (scopeTraverse.go pre i ks).foldl (unresolvedStep env) st =
      { fs := st.fs, out := st.out ++ unresolvedRec.unresolvedRecList env st.fs.top ks }
  | [], pre, i, st => by simp [foldl_go_nil, unresolvedRec.unresolvedRecList]
  | k :: ks, pre, i, st => by
    rw [foldl_go_cons, unresolved_fold env k, unresolved_fold_list env ks]
    simp [unresolvedRec.unresolvedRecList, List.append_assoc]
end

/-- `unresolved_namespaces(node)`: the name stack starts EMPTY. -/
theorem unresolvedNamespacesSub_eq (env : Env) (sub : Tree) :
    unresolvedNamespacesSub env sub = unresolvedRec env [] sub := by
  simp [unresolvedNamespacesSub, unresolved_fold, FStack.new, FStack.top]

end XotModel
