/-
  C06 lemmas: `replaceBelow h F` (the shape of `cut`, `spliceOut`, `placeAfter`, `placeBefore`):
  handle bookkeeping by counting, and the frame (parents and values of the nodes outside).
-/
import XotModel.Lemmas.FatomSetValue

namespace XotModel
open HTree

theorem handle_replaceBelow (h : Nat) (F : HTree → List HTree) (t : HTree) :
    (replaceBelow h F t).handle = t.handle := by
  cases t with | node p v ks => rfl

mutual
  theorem replaceBelow_id (h : Nat) (F : HTree → List HTree) : ∀ t : HTree,
      h ∉ handlesList t.kids → replaceBelow h F t = t
    | .node p v ks => by
      intro hm
      unfold replaceBelow
      rw [replaceKids_id h F ks hm]
  theorem replaceKids_id (h : Nat) (F : HTree → List HTree) : ∀ ks : List HTree,
      h ∉ handlesList ks → replaceKids h F ks = ks
    | [] => by simp [replaceKids]
    | k :: ks => by
      intro hm
      unfold handlesList at hm
      unfold replaceKids
      have hk : k.handle ≠ h := fun e => hm (List.mem_append_left _ (e ▸ handle_mem_handles k))
      simp only [hk, if_false]
      rw [replaceBelow_id h F k, replaceKids_id h F ks]
      · exact fun h' => hm (List.mem_append_right _ h')
      · intro h'; apply hm; apply List.mem_append_left; rw [handles_eq]; exact List.mem_cons_of_mem _ h'
end

theorem replaceBelow_id' (h : Nat) (F : HTree → List HTree) (t : HTree) (hm : h ∉ handles t) :
    replaceBelow h F t = t := by
  apply replaceBelow_id
  intro h'; apply hm; rw [handles_eq]; exact List.mem_cons_of_mem _ h'

theorem findList?_cons_self {h : Nat} {k : HTree} {ks : List HTree} {t : HTree}
    (hk : k.handle = h) (e : findList? h (k :: ks) = some t) : t = k := by
  unfold findList? at e
  rw [← hk, find?_self] at e
  simpa using e.symm

mutual
  /-- Handle bookkeeping of a replacement, as multiplicities. -/
  theorem replaceBelow_count (h : Nat) (F : HTree → List HTree) : ∀ (T t : HTree),
      (handles T).Nodup → T.handle ≠ h → find? h T = some t → ∀ a,
      (handles (replaceBelow h F T)).count a + (handles t).count a =
        (handles T).count a + (handlesList (F t)).count a
    | .node q v ks, t => by
      intro hn hq e a
      simp only [HTree.handle] at hq
      unfold find? at e
      simp only [hq, if_false] at e
      unfold handles at hn
      have := replaceKids_count h F ks t (List.nodup_cons.1 hn).2 e a
      simp only [replaceBelow, handles, List.count_cons]
      omega
  theorem replaceKids_count (h : Nat) (F : HTree → List HTree) : ∀ (ks : List HTree) (t : HTree),
      (handlesList ks).Nodup → findList? h ks = some t → ∀ a,
      (handlesList (replaceKids h F ks)).count a + (handles t).count a =
        (handlesList ks).count a + (handlesList (F t)).count a
    | [], t => by simp [findList?]
    | k :: ks, t => by
      intro hn e a
      unfold handlesList at hn
      have hna := List.nodup_append.1 hn
      unfold replaceKids
      by_cases hk : k.handle = h
      · have := findList?_cons_self hk e
        subst this
        simp only [hk, if_true, handlesList, fa_handlesList_append, List.count_append]
        omega
      · simp only [hk, if_false]
        cases hf : find? h k with
        | some t' =>
          have e' : t' = t := by unfold findList? at e; rw [hf] at e; simpa using e
          subst e'
          have hm : h ∉ handlesList ks := fun h' => hna.2.2 _ (find?_some_mem hf) _ h' rfl
          rw [replaceKids_id h F ks hm]
          have := replaceBelow_count h F k t' hna.1 hk hf a
          simp only [handlesList, List.count_append]
          omega
        | none =>
          have e' : findList? h ks = some t := by unfold findList? at e; rw [hf] at e; exact e
          rw [replaceBelow_id' h F k ((find?_none_iff _ _).1 hf)]
          have := replaceKids_count h F ks t hna.2.1 e' a
          simp only [handlesList, List.count_append]
          omega
end

theorem parentKids_append (x p : Nat) : ∀ (A B : List HTree),
    parentKids x p (A ++ B) = match parentKids x p A with
      | some q => some q
      | none => parentKids x p B
  | [], B => by simp [parentKids]
  | a :: A, B => by
    simp only [List.cons_append, parentKids]
    by_cases ha : a.handle = x
    · simp [ha]
    · simp only [ha, if_false]
      cases parentBelow x a with
      | some q => rfl
      | none => exact parentKids_append x p A B

theorem fa_findList?_append (x : Nat) : ∀ (A B : List HTree),
    findList? x (A ++ B) = match findList? x A with
      | some q => some q
      | none => findList? x B
  | [], B => by simp [findList?]
  | a :: A, B => by
    simp only [List.cons_append, findList?]
    cases find? x a with
    | some q => rfl
    | none => exact fa_findList?_append x A B

mutual
  /-- Frame: the parent of a node outside the replaced subtree and outside what replaces it. -/
  theorem replaceBelow_parent (h x : Nat) (F : HTree → List HTree) : ∀ (T t : HTree),
      (handles T).Nodup → find? h T = some t → x ∉ handles t → x ∉ handlesList (F t) →
      parentBelow x (replaceBelow h F T) = parentBelow x T
    | .node q v ks, t => by
      intro hn e hx hF
      unfold handles at hn
      by_cases hq : q = h
      · have : h ∉ handlesList ks := hq ▸ (List.nodup_cons.1 hn).1
        rw [replaceBelow_id h F (.node q v ks) this]
      · unfold find? at e
        simp only [hq, if_false] at e
        simp only [replaceBelow, parentBelow]
        exact replaceKids_parent h x q F ks t (List.nodup_cons.1 hn).2 e hx hF
  theorem replaceKids_parent (h x p : Nat) (F : HTree → List HTree) : ∀ (ks : List HTree) (t : HTree),
      (handlesList ks).Nodup → findList? h ks = some t → x ∉ handles t → x ∉ handlesList (F t) →
      parentKids x p (replaceKids h F ks) = parentKids x p ks
    | [], t => by simp [findList?]
    | k :: ks, t => by
      intro hn e hx hF
      unfold handlesList at hn
      have hna := List.nodup_append.1 hn
      unfold replaceKids
      by_cases hk : k.handle = h
      · have := findList?_cons_self hk e
        subst this
        simp only [hk, if_true]
        rw [parentKids_append, parentKids_none_of_not_mem hF]
        simp only [parentKids]
        have hne : ¬ t.handle = x := fun e' => hx (e' ▸ handle_mem_handles t)
        simp only [hne, if_false, parentBelow_none_of_not_mem hx]
      · simp only [hk, if_false]
        cases hf : find? h k with
        | some t' =>
          have e' : t' = t := by unfold findList? at e; rw [hf] at e; simpa using e
          subst e'
          have hm : h ∉ handlesList ks := fun h' => hna.2.2 _ (find?_some_mem hf) _ h' rfl
          rw [replaceKids_id h F ks hm]
          simp only [parentKids, handle_replaceBelow]
          rw [replaceBelow_parent h x F k t' hna.1 hf hx hF]
        | none =>
          have e' : findList? h ks = some t := by unfold findList? at e; rw [hf] at e; exact e
          rw [replaceBelow_id' h F k ((find?_none_iff _ _).1 hf)]
          simp only [parentKids]
          rw [replaceKids_parent h x p F ks t hna.2.1 e' hx hF]
end

mutual
  /-- Frame: the value of a node outside the replaced subtree and outside what replaces it. -/
  theorem replaceBelow_value (h x : Nat) (F : HTree → List HTree) : ∀ (T t : HTree),
      (handles T).Nodup → find? h T = some t → x ∉ handles t → x ∉ handlesList (F t) →
      (find? x (replaceBelow h F T)).map HTree.value = (find? x T).map HTree.value
    | .node q v ks, t => by
      intro hn e hx hF
      unfold handles at hn
      by_cases hq : q = h
      · have : h ∉ handlesList ks := hq ▸ (List.nodup_cons.1 hn).1
        rw [replaceBelow_id h F (.node q v ks) this]
      · unfold find? at e
        simp only [hq, if_false] at e
        simp only [replaceBelow, find?]
        by_cases hqx : q = x
        · simp [hqx, HTree.value]
        · simp only [hqx, if_false]
          exact replaceKids_value h x F ks t (List.nodup_cons.1 hn).2 e hx hF
  theorem replaceKids_value (h x : Nat) (F : HTree → List HTree) : ∀ (ks : List HTree) (t : HTree),
      (handlesList ks).Nodup → findList? h ks = some t → x ∉ handles t → x ∉ handlesList (F t) →
      (findList? x (replaceKids h F ks)).map HTree.value = (findList? x ks).map HTree.value
    | [], t => by simp [findList?]
    | k :: ks, t => by
      intro hn e hx hF
      unfold handlesList at hn
      have hna := List.nodup_append.1 hn
      unfold replaceKids
      by_cases hk : k.handle = h
      · have := findList?_cons_self hk e
        subst this
        simp only [hk, if_true]
        rw [fa_findList?_append, (findList?_none_iff _ _).2 hF]
        simp only [findList?, (find?_none_iff _ _).2 hx]
      · simp only [hk, if_false]
        cases hf : find? h k with
        | some t' =>
          have e' : t' = t := by unfold findList? at e; rw [hf] at e; simpa using e
          subst e'
          have hm : h ∉ handlesList ks := fun h' => hna.2.2 _ (find?_some_mem hf) _ h' rfl
          rw [replaceKids_id h F ks hm]
          have := replaceBelow_value h x F k t' hna.1 hf hx hF
          simp only [findList?]
          cases h1 : find? x (replaceBelow h F k) with
          | some a =>
            rw [h1] at this
            cases h2 : find? x k with
            | some b => rw [h2] at this; simpa using this
            | none => rw [h2] at this; simp at this
          | none =>
            rw [h1] at this
            cases h2 : find? x k with
            | some b => rw [h2] at this; simp at this
            | none => rfl
        | none =>
          have e' : findList? h ks = some t := by unfold findList? at e; rw [hf] at e; exact e
          rw [replaceBelow_id' h F k ((find?_none_iff _ _).1 hf)]
          have := replaceKids_value h x F ks t hna.2.1 e' hx hF
          simp only [findList?]
          cases find? x k with
          | some b => rfl
          | none => exact this
end

mutual
  theorem leafOk_replaceBelow (h : Nat) (F : HTree → List HTree)
      (hF : ∀ k, leafOk k = true → leafOkList (F k) = true) : ∀ T : HTree,
      leafOk T = true → leafOk (replaceBelow h F T) = true
    | .node q v ks => by
      intro hl
      simp only [leafOk, replaceBelow, Bool.and_eq_true] at hl ⊢
      refine ⟨?_, leafOkList_replaceKids h F hF ks hl.2⟩
      cases ks with
      | nil => simp [replaceKids]
      | cons k ks =>
        simp only [List.isEmpty_cons, Bool.false_or] at hl
        rw [Bool.or_assoc, hl.1, Bool.or_true]
  theorem leafOkList_replaceKids (h : Nat) (F : HTree → List HTree)
      (hF : ∀ k, leafOk k = true → leafOkList (F k) = true) : ∀ ks : List HTree,
      leafOkList ks = true → leafOkList (replaceKids h F ks) = true
    | [] => by simp [replaceKids]
    | k :: ks => by
      intro hl
      simp only [leafOkList, Bool.and_eq_true] at hl
      unfold replaceKids
      by_cases hk : k.handle = h
      · simp only [hk, if_true, leafOkList_append, Bool.and_eq_true]
        exact ⟨hF k hl.1, hl.2⟩
      · simp only [hk, if_false, leafOkList, Bool.and_eq_true]
        exact ⟨leafOk_replaceBelow h F hF k hl.1, leafOkList_replaceKids h F hF ks hl.2⟩
end

theorem map_replaceBelow_eq (h : Nat) (F : HTree → List HTree) : ∀ rs : List HTree,
    rs.any (fun r => r.handle = h) = false → rs.map (replaceBelow h F) = replaceKids h F rs
  | [] => by simp [replaceKids]
  | r :: rs => by
    intro e
    rw [List.any_cons, Bool.or_eq_false_iff] at e
    have hr : ¬ r.handle = h := by simpa using e.1
    simp only [List.map_cons, replaceKids, hr, if_false]
    rw [map_replaceBelow_eq h F rs e.2]

theorem parentKids_eq_findSome (x p : Nat) : ∀ rs : List HTree,
    rs.any (fun r => r.handle = x) = false → parentKids x p rs = rs.findSome? (parentBelow x)
  | [] => by simp [parentKids]
  | r :: rs => by
    intro e
    rw [List.any_cons, Bool.or_eq_false_iff] at e
    have hr : ¬ r.handle = x := by simpa using e.1
    simp only [parentKids, hr, if_false, List.findSome?_cons]
    cases parentBelow x r with
    | some q => rfl
    | none => exact parentKids_eq_findSome x p rs e.2

theorem any_handle_replaceKids_of_any (h x : Nat) (F : HTree → List HTree) : ∀ rs : List HTree,
    rs.any (fun r => r.handle = h) = false →
    (replaceKids h F rs).any (fun r => r.handle = x) = rs.any (fun r => r.handle = x)
  | [] => by simp [replaceKids]
  | r :: rs => by
    intro e
    rw [List.any_cons, Bool.or_eq_false_iff] at e
    have hr : ¬ r.handle = h := by simpa using e.1
    simp only [replaceKids, hr, if_false, List.any_cons, handle_replaceBelow]
    rw [any_handle_replaceKids_of_any h x F rs e.2]

end XotModel
