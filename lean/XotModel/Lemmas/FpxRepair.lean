/-
  Fpx, part 3: `create_missing_prefixes` in the forest model (Model/FatomSpec2.lean) on a forest
  satisfying the invariant: the call list of `create_missing_prefixes_for_element` exists (no panic of
  the walk, the prefix loop ends: C10's fuel lemma) and consists of namespace insertions on ELEMENTS
  (the node itself and the recorded `undeclare_nodes`), so it runs to the end; both refusals precede
  the first call.
-/
import XotModel.Lemmas.FpxCalls
import XotModel.Lemmas.FpxBridge
import XotModel.Lemmas.RepairFuel

namespace XotModel
namespace Repair

/-- The subtree at `q` is an element node. -/
def ElemAt (t : Tree) (q : Path) : Prop := ∃ name ks, t.at? q = some (.node (.element name) ks)

mutual
/-- Every recorded `undeclare` node is an element of the subtree it was recorded in. -/
theorem fpx_undOf_elem (nsOf : Nat → Nat) : ∀ (t : Tree) (top : List (Nat × Nat)) (pre q : Path),
    q ∈ undOf nsOf top pre t → ∃ q', q = pre ++ q' ∧ ElemAt t q'
  | .node v ks, top, pre, q, h => by
    by_cases hv : v.isElement = true
    · cases v <;> simp [Value.isElement] at hv
      rename_i name
      rw [undOf_element, List.mem_append] at h
      rcases h with h | h
      · split at h
        · simp only [List.mem_singleton] at h; subst h
          exact ⟨[], by simp, name, ks, rfl⟩
        · cases h
      · obtain ⟨j, k, q', hk, rfl, he⟩ := fpx_undOfKids_elem nsOf ks _ pre 0 q h
        refine ⟨(0 + j) :: q', rfl, ?_⟩
        obtain ⟨n, kk, hn⟩ := he
        exact ⟨n, kk, by simp only [Tree.at?, Nat.zero_add, hk]; exact hn⟩
    · rw [undOf_other nsOf top pre v ks (by simpa using hv)] at h
      obtain ⟨j, k, q', hk, rfl, he⟩ := fpx_undOfKids_elem nsOf ks _ pre 0 q h
      refine ⟨(0 + j) :: q', rfl, ?_⟩
      obtain ⟨n, kk, hn⟩ := he
      exact ⟨n, kk, by simp only [Tree.at?, Nat.zero_add, hk]; exact hn⟩
theorem fpx_undOfKids_elem (nsOf : Nat → Nat) : ∀ (ks : List Tree) (top : List (Nat × Nat)) (pre : Path) (i : Nat)
    (q : Path), q ∈ undOfKids nsOf top pre i ks →
      ∃ j k q', ks[j]? = some k ∧ q = pre ++ (i + j) :: q' ∧ ElemAt k q'
  | [], top, pre, i, q, h => by simp [undOfKids, collectKids] at h
  | k :: ks, top, pre, i, q, h => by
    rw [undOfKids_cons, List.mem_append] at h
    rcases h with h | h
    · obtain ⟨q', rfl, he⟩ := fpx_undOf_elem nsOf k top (pre ++ [i]) q h
      exact ⟨0, k, q', rfl, by simp, he⟩
    · obtain ⟨j, k', q', hk, rfl, he⟩ := fpx_undOfKids_elem nsOf ks top pre (i + 1) q h
      exact ⟨j + 1, k', q', by simpa using hk, by congr 2; omega, he⟩
end

theorem fpx_at?_append (t : Tree) (p q : Path) : t.at? (p ++ q) = (t.at? p).bind (fun s => s.at? q) :=
  Axes.at?_append t p q

end Repair

open HTree Repair

namespace Forest

theorem fpx_isLive_of_isElement {f : Forest} {h : Nat} (he : f.isElement h = true) : f.isLive h = true := by
  rw [isLive_iff_value?]
  unfold isElement at he
  cases hv : f.value? h with
  | none => rw [hv] at he; cases he
  | some v => rfl

/-- The call list of `create_missing_prefixes_for_element(node)` for an element of a forest with the
    invariant: it exists, and every call is a namespace insertion on an element. -/
theorem fpx_repairCalls {f : Forest} (hi : f.Inv) (env : Env) {node : Nat} (he : f.isElement node = true) :
    ∃ env' cs, f.repairCalls env node = some (env', cs) ∧ ∀ c ∈ cs, c.isNsEdit f := by
  obtain ⟨r, q, s, h1, h2, h3, h4, h5, h6, h7⟩ := fpx_located hi.nodup (fpx_isLive_of_isElement he)
  unfold repairCalls
  simp only [h1, h3, h7]
  rw [repairWalk_eq]
  simp only [withAcc, Bool.false_eq_true, if_false]
  have ha := assignPrefixes_isSome
    (collectRec env.nsOfName (inheritedDecls r.erase q) q s.erase ⟨[], [], []⟩).missing env
    ((collectRec env.nsOfName (inheritedDecls r.erase q) q s.erase ⟨[], [], []⟩).used ++
      ((namespacesInScope r.erase q).getD []).map (·.1)) 0
  cases hap : assignPrefixes env _ 0 _ with
  | none => rw [hap] at ha; cases ha
  | some res =>
    obtain ⟨env', newDecls⟩ := res
    refine ⟨env', _, rfl, ?_⟩
    intro c hc
    rcases List.mem_append.mp hc with hc | hc
    · obtain ⟨d, _, rfl⟩ := List.mem_map.mp hc
      exact he
    · obtain ⟨up, hup, h2'⟩ := List.mem_filterMap.mp hc
      simp only [Option.map_eq_some_iff] at h2'
      obtain ⟨hh, hhh, rfl⟩ := h2'
      obtain ⟨q', rfl, name, ks, hel⟩ := fpx_undOf_elem _ _ _ _ _ hup
      have hat : r.erase.at? (q ++ q') = some (.node (.element name) ks) := by
        rw [fpx_at?_append, h7]; exact hel
      show f.isElement hh = true
      rw [fpx_isElement_of_at? hi.nodup h2 hhh hat]; rfl

/-- `create_missing_prefixes_for_element(node)` on an element: `Ok`, the invariant is kept, no node
    changes between element and non-element. -/
theorem fpx_repairElementF {f : Forest} (hi : f.Inv) (env : Env) {node : Nat} (he : f.isElement node = true) :
    (f.repairElementF env node).2.2 = .ok ∧ (f.repairElementF env node).1.Inv ∧
      ∀ x, (f.repairElementF env node).1.isElement x = f.isElement x := by
  obtain ⟨env', cs, h1, h2⟩ := fpx_repairCalls hi env he
  unfold repairElementF
  rw [h1]
  exact fpx_runCalls_ok cs hi h2

/-- The loop over the top-level elements of a document (fragment). -/
theorem fpx_repairElementsF : ∀ (es : List Nat) (env : Env) {f : Forest}, f.Inv →
    (∀ e ∈ es, f.isElement e = true) → (repairElementsF es env f).2.2 = .ok
  | [], _, _, _, _ => rfl
  | e :: rest, env, f, hi, hes => by
    obtain ⟨h1, h2, h3⟩ := fpx_repairElementF hi env (hes e (by simp))
    unfold repairElementsF
    rcases hr : f.repairElementF env e with ⟨f', env', r⟩
    rw [hr] at h1 h2 h3
    simp only at h1 h2 h3
    subst h1
    simp only
    exact fpx_repairElementsF rest env' h2 (fun x hx => by rw [h3]; exact hes x (by simp [hx]))

/-- The element children collected by the document branch are elements of the forest. -/
theorem fpx_docElements {f : Forest} (hi : f.Inv) {node : Nat} {t : HTree} (hg : f.get? node = some t) :
    ∀ e ∈ (t.kids.filter (fun k => k.value.isElement)).map (·.handle), f.isElement e = true := by
  intro e hemem
  obtain ⟨k, hk, rfl⟩ := List.mem_map.mp hemem
  obtain ⟨hkm, hke⟩ := List.mem_filter.mp hk
  have hl : f.isLive node = true := by unfold isLive; rw [hg]; rfl
  obtain ⟨r, q, s, _, h2, _, h4, _, h6, _⟩ := fpx_located hi.nodup hl
  rw [hg] at h6
  simp only [Option.some.injEq] at h6
  subst h6
  obtain ⟨i, hik⟩ := List.getElem?_of_mem hkm
  have hat : r.at? (q ++ [i]) = some k := by
    have : ∀ (q : Path) (r t : HTree), r.at? q = some t → t.kids[i]? = some k → r.at? (q ++ [i]) = some k := by
      intro q
      induction q with
      | nil =>
        intro r t h hk'
        simp only [HTree.at?, Option.some.injEq] at h; subst h
        cases r with | node a b c => simp only [List.nil_append, HTree.at?, HTree.kids] at hk' ⊢; rw [hk']
      | cons j q ih =>
        intro r t h hk'
        cases r with
        | node a b c =>
          simp only [List.cons_append, HTree.at?] at h ⊢
          cases hc : c[j]? with
          | none => rw [hc] at h; cases h
          | some cj => rw [hc] at h; exact ih cj t h hk'
    exact this q r t h4 hik
  have := fpx_get?_of_at? hi.nodup h2 hat
  cases k with
  | node kh kv kk =>
    simp only [HTree.value] at hke
    have this' : f.get? kh = some (.node kh kv kk) := this
    show f.isElement kh = true
    simp [isElement, value?, this', HTree.value, hke]

/-- **`create_missing_prefixes` at forest level, every case**: the two refusals return the forest
    and the interning tables as they were; every other call answers `Ok`. -/
theorem fpx_createMissingPrefixes {f : Forest} (hi : f.Inv) (env : Env) (node : Nat) :
    (f.isDocument node = false → f.isElement node = false →
      f.createMissingPrefixes env node = (f, env, .err .notElement)) ∧
    (f.isDocument node = true → (∀ t, f.get? node = some t → ∀ k ∈ t.kids, k.value.isElement = false) →
      f.createMissingPrefixes env node = (f, env, .err .noElementAtTopLevel)) ∧
    ((f.isElement node = true ∨ (f.isDocument node = true ∧
        ∃ t k, f.get? node = some t ∧ k ∈ t.kids ∧ k.value.isElement = true)) →
      (f.createMissingPrefixes env node).2.2 = .ok) := by
  refine ⟨fun hd he => by simp [createMissingPrefixes, hd, he], fun hd hk => ?_, ?_⟩
  · unfold createMissingPrefixes
    simp only [hd, if_true]
    cases hg : f.get? node with
    | none => simp
    | some t =>
      have : t.kids.filter (fun k => k.value.isElement) = [] := by
        rw [List.filter_eq_nil_iff]; intro k hkm; simp [hk t hg k hkm]
      simp [this]
  · rintro (he | ⟨hd, t, k, hg, hkm, hke⟩)
    · have hd : f.isDocument node = false := by
        unfold isElement at he; unfold isDocument
        cases hv : f.value? node with
        | none => rw [hv] at he; cases he
        | some v => rw [hv] at he; cases v <;> simp_all [Value.isElement, Value.isDocument]
      unfold createMissingPrefixes
      simp only [hd, he, Bool.false_eq_true, if_false, Bool.not_true]
      exact (fpx_repairElementF hi env he).1
    · unfold createMissingPrefixes
      simp only [hd, if_true, hg]
      have hne : ((t.kids.filter (fun k => k.value.isElement)).map (·.handle)).isEmpty = false := by
        have : k ∈ t.kids.filter (fun k => k.value.isElement) := List.mem_filter.mpr ⟨hkm, hke⟩
        cases hf : t.kids.filter (fun k => k.value.isElement) with
        | nil => rw [hf] at this; cases this
        | cons a l => rfl
      simp only [hne, Bool.false_eq_true, if_false]
      exact fpx_repairElementsF _ env hi (fpx_docElements hi hg)

end Forest
end XotModel
