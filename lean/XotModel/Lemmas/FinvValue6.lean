/-
  Finv (C04), part 36: exactly which values a move can change.  `append(p, c)` can change the value
  of the previous sibling of `c` (old-site merge) and of the last child of `p` after that merge
  (a text `c` is merged into it) — nothing else; likewise for the other moves, `detach`, `remove`.
  Consequently every node inside the moved subtree other than its root keeps its value exactly,
  text included.
-/
import XotModel.Lemmas.FinvValue5

namespace XotModel
open HTree

namespace Forest

/-- With `T` = membership in a list of sites. -/
theorem VStep.exact {f f' : Forest} {sites : List Nat}
    (h : VStep (fun _ => False) (fun q => q ∈ sites) f f') (hi : f.Inv) {x : Nat} {v v' : Value}
    (hv : f.value? x = some v) (hv' : f'.value? x = some v') (hx : x ∉ sites) : v' = v := by
  rcases h.value hi hv hv' with h1 | h1 | h1
  · exact h1
  · exact absurd h1.1 hx
  · exact h1.1.elim

/-- The handles whose value `append(p, c)` may change. -/
def appendSites (f : Forest) (p c : Nat) : List Nat :=
  (f.prevSibling c).toList ++
    ((f.afterOldSite c).selfPrev c ((f.afterOldSite c).lastChild p)).toList
def prependSites (f : Forest) (p c : Nat) : List Nat :=
  (f.prevSibling c).toList ++
    ((f.afterOldSite c).selfNext c ((f.afterOldSite c).firstChild p)).toList
def insertAfterSites (f : Forest) (ref c : Nat) : List Nat :=
  (f.prevSibling c).toList ++ [f.insertAfterRef ref c] ++
    ((f.afterOldSite c).selfNext c ((f.afterOldSite c).nextSibling (f.insertAfterRef ref c))).toList
def insertBeforeSites (f : Forest) (ref c : Nat) : List Nat :=
  (f.prevSibling c).toList ++ [ref] ++
    ((f.afterOldSite c).selfPrev c ((f.afterOldSite c).prevSibling ref)).toList

/-- Under the invariant no node is its own previous sibling, so the reference `insert_after`
    works with is never the moved node once the sibling reference check has passed. -/
theorem insertAfterRef_ne {f : Forest} (w : f.W) {r c : Nat} (hrc : r ≠ c) :
    f.insertAfterRef r c ≠ c := by
  unfold insertAfterRef
  split
  · cases hp : f.prevSibling c with
    | none => simpa using hrc
    | some q => simpa using (prevSibling_sib w hp).ne
  · exact hrc

theorem append_value_exact {f : Forest} (hi : f.Inv) (p c : Nat) {x : Nat} {v v' : Value}
    (hv : f.value? x = some v) (hv' : (f.append p c).1.value? x = some v')
    (hx : x ∉ f.appendSites p c) : v' = v :=
  (vstep_append f p c (fun q h => by simp [appendSites, h]) (fun q h => by simp [appendSites, h])).exact
    hi hv hv' hx

theorem prepend_value_exact {f : Forest} (hi : f.Inv) (p c : Nat) {x : Nat} {v v' : Value}
    (hv : f.value? x = some v) (hv' : (f.prepend p c).1.value? x = some v')
    (hx : x ∉ f.prependSites p c) : v' = v :=
  (vstep_prepend f p c (fun q h => by simp [prependSites, h]) (fun q h => by simp [prependSites, h])).exact
    hi hv hv' hx

theorem insertAfter_value_exact {f : Forest} (hi : f.Inv) (r c : Nat) {x : Nat} {v v' : Value}
    (hv : f.value? x = some v) (hv' : (f.insertAfter r c).1.value? x = some v')
    (hx : x ∉ f.insertAfterSites r c) : v' = v :=
  by
    by_cases hrc : r = c
    · subst hrc
      have : f.insertAfter r r = (f, .err .invalidOperation) := by
        unfold insertAfter siblingReferenceCheck; simp
      rw [this, hv] at hv'; cases hv'; rfl
    · exact (vstep_insertAfter f r c (fun q h => by simp [insertAfterSites, h]) (by simp [insertAfterSites])
        (fun q h => by simp [insertAfterSites, h])
        (fun e => absurd e (insertAfterRef_ne hi.toW hrc))).exact hi hv hv' hx

theorem insertBefore_value_exact {f : Forest} (hi : f.Inv) (r c : Nat) {x : Nat} {v v' : Value}
    (hv : f.value? x = some v) (hv' : (f.insertBefore r c).1.value? x = some v')
    (hx : x ∉ f.insertBeforeSites r c) : v' = v :=
  (vstep_insertBefore f r c (fun q h => by simp [insertBeforeSites, h]) (by simp [insertBeforeSites])
    (fun q h => by simp [insertBeforeSites, h])).exact hi hv hv' hx

theorem detach_value_exact {f : Forest} (hi : f.Inv) (n : Nat) {x : Nat} {v v' : Value}
    (hv : f.value? x = some v) (hv' : (f.detach n).1.value? x = some v')
    (hx : f.prevSibling n ≠ some x) : v' = v :=
  (vstep_detach (T := fun q => q ∈ (f.prevSibling n).toList) f n (fun q h => by simp [h])).exact
    hi hv hv' (by simpa using hx)

theorem remove_value_exact {f : Forest} (hi : f.Inv) (n : Nat) {x : Nat} {v v' : Value}
    (hv : f.value? x = some v) (hv' : (f.remove n).1.value? x = some v')
    (hx : f.prevSibling n ≠ some x) : v' = v :=
  (vstep_remove (T := fun q => q ∈ (f.prevSibling n).toList) f n (fun q h => by simp [h])).exact
    hi hv hv' (by simpa using hx)

/-! ### The sites lie outside the moved subtree (or are its root) -/

/-- A sibling of `c` is not in the subtree of `c`. -/
theorem sib_not_mem_subtree {f : Forest} (w : f.W) {c q : Nat} {tc : HTree} (hg : f.get? c = some tc)
    (s : Sib f c q) : q ∉ handles tc := by
  intro hm
  obtain ⟨par, hpc, hpq⟩ := s.parent
  have h1 := mem_ancestors_of_subtree w hg hm
  rw [ancestors_step w hpq] at h1
  rcases List.mem_cons.1 h1 with e | e
  · exact s.ne e.symm
  · exact not_mem_ancestors_parent w hpc e

/-- A child, after the old-site merge, of a node that is not below `c` is not in the subtree of `c`
    unless it is `c` itself. -/
theorem site_outside {f : Forest} (w : f.W) {c par l : Nat} {tc : HTree} (hg : f.get? c = some tc)
    (hanc : c ∉ f.ancestors par) (hp : (f.afterOldSite c).parent? l = some par) (hlc : l ≠ c) :
    l ∉ handles tc := by
  obtain ⟨_, _, P, hP, fr⟩ := removeConsolidate_spec w (f.prevSibling c) (f.nextSibling c)
  by_cases hl : l ∈ P
  · exact sib_not_mem_subtree w hg (nextSibling_sib w (hP l hl).1)
  · have hpar : f.parent? l = some par := by rw [← fr.parent l hl]; exact hp
    intro hm
    have h1 := mem_ancestors_of_subtree w hg hm
    rw [ancestors_step w hpar] at h1
    rcases List.mem_cons.1 h1 with e | e
    · exact hlc e.symm
    · exact hanc e

theorem afterOldSite_W {f : Forest} (w : f.W) (c : Nat) : (f.afterOldSite c).W :=
  (removeConsolidate_spec w (f.prevSibling c) (f.nextSibling c)).1

/-- The old-site merge: nothing happened, or exactly the next sibling of `c` (a text node) is gone. -/
theorem afterOldSite_cases {f : Forest} (w : f.W) (c : Nat) :
    f.afterOldSite c = f ∨
    ∃ n, f.nextSibling c = some n ∧ Frame f (f.afterOldSite c) [n] ∧ (f.afterOldSite c).isLive n = false := by
  unfold afterOldSite removeConsolidate
  cases hc : f.consolidation with
  | false => exact Or.inl rfl
  | true =>
    simp only [Bool.not_true, Bool.false_eq_true, if_false]
    cases hp : f.prevSibling c with
    | none => exact Or.inl rfl
    | some p =>
      cases hn : f.nextSibling c with
      | none => exact Or.inl rfl
      | some n =>
        simp only
        cases hps : f.textOf p with
        | none => exact Or.inl rfl
        | some ps =>
          cases hns : f.textOf n with
          | none => exact Or.inl rfl
          | some ns =>
            obtain ⟨_, fr, hd⟩ := merge_spec w (ps ++ ns) hps hns
            exact Or.inr ⟨n, rfl, fr, hd⟩

/-- A node live after the old-site merge has the parent it had. -/
theorem afterOldSite_parent {f : Forest} (w : f.W) (c : Nat) {l : Nat}
    (hl : (f.afterOldSite c).isLive l = true) : (f.afterOldSite c).parent? l = f.parent? l := by
  rcases afterOldSite_cases w c with h | ⟨n, _, fr, hd⟩
  · rw [h]
  · apply fr.parent
    intro hm
    simp only [List.mem_singleton] at hm
    subst hm
    rw [hd] at hl; cases hl

/-- A sibling of `c` after the old-site merge is outside the subtree of `c` (eccbbb7: the
    neighbour the helper takes when it is handed `c` itself). -/
theorem own_sibling_outside {f : Forest} (w : f.W) {c q : Nat} {tc : HTree} (hg : f.get? c = some tc)
    (sb : Sib (f.afterOldSite c) c q) : q ∉ handles tc := by
  obtain ⟨par1, h1, h2⟩ := sb.parent
  have hl1 : (f.afterOldSite c).isLive c = true := (parent?_live h1).1
  rw [afterOldSite_parent w c hl1] at h1
  exact site_outside w hg (not_mem_ancestors_parent w h1) h2 sb.ne

/-- `append`: every node of the moved subtree other than its root keeps its value exactly. -/
theorem append_subtree_exact {f : Forest} (hi : f.Inv) (p c : Nat) {tc : HTree}
    (hg : f.get? c = some tc) {x : Nat} (hx : x ∈ handles tc) (hxc : x ≠ c) {v v' : Value}
    (hv : f.value? x = some v) (hv' : (f.append p c).1.value? x = some v') : v' = v := by
  have w := hi.toW
  cases hs : f.structureCheck (some p) c with
  | false =>
    have : f.append p c = (f, .err .invalidOperation) := by simp [append, hs]
    rw [this, hv] at hv'; cases hv'; rfl
  | true =>
    have ck := structureCheck_some hs
    apply append_value_exact hi p c hv hv'
    simp only [appendSites, List.mem_append, Option.mem_toList, not_or]
    refine ⟨fun h => sib_not_mem_subtree w hg (prevSibling_sib w h) hx, fun h => ?_⟩
    unfold selfPrev at h
    split at h
    · exact own_sibling_outside w hg (prevSibling_sib (afterOldSite_W w c) h) hx
    · exact site_outside w hg ck.notAnc (lastChild_parent (afterOldSite_W w c) h) hxc hx

theorem prepend_subtree_exact {f : Forest} (hi : f.Inv) (p c : Nat) {tc : HTree}
    (hg : f.get? c = some tc) {x : Nat} (hx : x ∈ handles tc) (hxc : x ≠ c) {v v' : Value}
    (hv : f.value? x = some v) (hv' : (f.prepend p c).1.value? x = some v') : v' = v := by
  have w := hi.toW
  cases hs : f.structureCheck (some p) c with
  | false =>
    have : f.prepend p c = (f, .err .invalidOperation) := by simp [prepend, hs]
    rw [this, hv] at hv'; cases hv'; rfl
  | true =>
    have ck := structureCheck_some hs
    apply prepend_value_exact hi p c hv hv'
    simp only [prependSites, List.mem_append, Option.mem_toList, not_or]
    refine ⟨fun h => sib_not_mem_subtree w hg (prevSibling_sib w h) hx, fun h => ?_⟩
    unfold selfNext at h
    split at h
    · exact own_sibling_outside w hg (nextSibling_sib (afterOldSite_W w c) h) hx
    · exact site_outside w hg ck.notAnc (firstChild_parent (afterOldSite_W w c) h) hxc hx

/-! ### `insert_after`, `insert_before` -/

/-- A node with a parent that is not below `c` is outside the subtree of `c`, or is `c`. -/
theorem outside_of_parent {f : Forest} (w : f.W) {c par l : Nat} {tc : HTree} (hg : f.get? c = some tc)
    (hanc : c ∉ f.ancestors par) (hp : f.parent? l = some par) (hlc : l ≠ c) : l ∉ handles tc := by
  intro hm
  have h1 := mem_ancestors_of_subtree w hg hm
  rw [ancestors_step w hp] at h1
  rcases List.mem_cons.1 h1 with e | e
  · exact hlc e.symm
  · exact hanc e

theorem insertBefore_subtree_exact {f : Forest} (hi : f.Inv) (r c : Nat) {tc : HTree}
    (hg : f.get? c = some tc) {x : Nat} (hx : x ∈ handles tc) (hxc : x ≠ c) {v v' : Value}
    (hv : f.value? x = some v) (hv' : (f.insertBefore r c).1.value? x = some v') : v' = v := by
  have w := hi.toW
  have w1 := afterOldSite_W w c
  cases hs : f.structureCheck (f.parent? r) c with
  | false =>
    have : f.insertBefore r c = (f, .err .invalidOperation) := by simp [insertBefore, hs]
    rw [this, hv] at hv'; cases hv'; rfl
  | true =>
    cases hsr : f.siblingReferenceCheck r c with
    | false =>
      have : f.insertBefore r c = (f, .err .invalidOperation) := by simp [insertBefore, hs, hsr]
      rw [this, hv] at hv'; cases hv'; rfl
    | true =>
      cases hpr : f.parent? r with
      | none => rw [hpr] at hs; cases hs
      | some par =>
        rw [hpr] at hs
        have ck := structureCheck_some hs
        have hrc : r ≠ c := siblingReferenceCheck_ne hsr
        apply insertBefore_value_exact hi r c hv hv'
        simp only [insertBeforeSites, List.mem_append, Option.mem_toList, List.mem_singleton, not_or]
        refine ⟨⟨fun h => sib_not_mem_subtree w hg (prevSibling_sib w h) hx, ?_⟩, fun h => ?_⟩
        · intro e
          subst e
          exact outside_of_parent w hg ck.notAnc hpr hrc hx
        · unfold selfPrev at h
          split at h
          · exact own_sibling_outside w hg (prevSibling_sib w1 h) hx
          have sb := prevSibling_sib w1 h
          obtain ⟨par1, h1, h2⟩ := sb.parent
          have hl1 : (f.afterOldSite c).isLive r = true := (parent?_live h1).1
          rw [afterOldSite_parent w c hl1, hpr] at h1
          cases h1
          exact site_outside w hg ck.notAnc h2 hxc hx

theorem insertAfterRef_cases (f : Forest) (r c : Nat) :
    f.insertAfterRef r c = r ∨ f.prevSibling c = some (f.insertAfterRef r c) := by
  unfold insertAfterRef
  split
  · cases hp : f.prevSibling c with
    | none => exact Or.inl rfl
    | some q => exact Or.inr rfl
  · exact Or.inl rfl

theorem insertAfter_subtree_exact {f : Forest} (hi : f.Inv) (r c : Nat) {tc : HTree}
    (hg : f.get? c = some tc) {x : Nat} (hx : x ∈ handles tc) (hxc : x ≠ c) {v v' : Value}
    (hv : f.value? x = some v) (hv' : (f.insertAfter r c).1.value? x = some v') : v' = v := by
  have w := hi.toW
  have w1 := afterOldSite_W w c
  cases hs : f.structureCheck (f.parent? r) c with
  | false =>
    have : f.insertAfter r c = (f, .err .invalidOperation) := by simp [insertAfter, hs]
    rw [this, hv] at hv'; cases hv'; rfl
  | true =>
    cases hsr : f.siblingReferenceCheck r c with
    | false =>
      have : f.insertAfter r c = (f, .err .invalidOperation) := by simp [insertAfter, hs, hsr]
      rw [this, hv] at hv'; cases hv'; rfl
    | true =>
      cases hpr : f.parent? r with
      | none => rw [hpr] at hs; cases hs
      | some par =>
        rw [hpr] at hs
        have ck := structureCheck_some hs
        have hrc : r ≠ c := siblingReferenceCheck_ne hsr
        -- the reference actually used: outside the subtree, and its parent is not below `c`
        have href : f.insertAfterRef r c ∉ handles tc ∧
            ∀ par', f.parent? (f.insertAfterRef r c) = some par' → c ∉ f.ancestors par' := by
          rcases insertAfterRef_cases f r c with e | e
          · rw [e]
            exact ⟨outside_of_parent w hg ck.notAnc hpr hrc, fun par' h => by
              rw [hpr] at h; cases h; exact ck.notAnc⟩
          · have sb := prevSibling_sib w e
            refine ⟨sib_not_mem_subtree w hg sb, fun par' h => ?_⟩
            obtain ⟨q, h1, h2⟩ := sb.parent
            rw [h2] at h; cases h
            exact not_mem_ancestors_parent w h1
        apply insertAfter_value_exact hi r c hv hv'
        simp only [insertAfterSites, List.mem_append, Option.mem_toList, List.mem_singleton, not_or]
        refine ⟨⟨fun h => sib_not_mem_subtree w hg (prevSibling_sib w h) hx, ?_⟩, fun h => ?_⟩
        · intro e
          exact href.1 (e ▸ hx)
        · unfold selfNext at h
          split at h
          · exact own_sibling_outside w hg (nextSibling_sib w1 h) hx
          have sb := nextSibling_sib w1 h
          obtain ⟨par1, h1, h2⟩ := sb.parent
          have hl1 : (f.afterOldSite c).isLive (f.insertAfterRef r c) = true := (parent?_live h1).1
          rw [afterOldSite_parent w c hl1] at h1
          exact site_outside w hg (href.2 par1 h1) h2 hxc hx

end Forest
end XotModel
