/-
  XotModel.Lemmas.ArenaStaleExamples — closed arenas with freed slots, reached by histories of calls
  with live arguments (hence well-formed), for the examples about removed ids in `Props/C04`, `C06`;
  and two ways of recognising an arena that is NOT well-formed.
-/
import XotModel.Lemmas.ArenaExamples
import XotModel.Lemmas.ArenaStaleIndex
import XotModel.Lemmas.ArenaStaleLive

namespace XotModel
namespace Arena

/-- `sampleB` (`1:0 [2:0 [4:0], 3:0]`) after `remove(3:0)`: slot 2 is free, all its pointers are
    `None`; `3:0` is a removed id. -/
def sampleF : Arena := sampleB.after (remove · ⟨3, 0⟩)

/-- `sampleB` after `remove_subtree(2:0)`: slots 1 and 3 are free (`2:0`, `4:0` are removed ids); slot 1
    keeps `first_child = last_child = 4:0`, slot 3 keeps `parent = 2:0`. -/
def sampleG : Arena := sampleB.after (removeSubtree · ⟨2, 0⟩)

/-- `sampleG` after `new_node` (slot 1 is reused: `2:1`) and `2:1.checked_append(3:0)`:
    `1:0 []`, `2:1 [3:0]`; slot 3 is still free and still says `parent = 2:0`. -/
def sampleH : Arena := (sampleG.after (newNode · 50)).after (checkedAppend · ⟨2, 1⟩ ⟨3, 0⟩)

theorem sampleF_steps : Steps {} sampleF :=
  .tail sampleB_steps (.remove ⟨3, 0⟩ _ (liveId_of_isLiveId (by decide)) (Or.inl ⟨_, rfl, rfl⟩) rfl)

theorem sampleG_steps : Steps {} sampleG :=
  .tail sampleB_steps (.removeSubtree ⟨2, 0⟩ _ (liveId_of_isLiveId (by decide)) rfl)

theorem sampleH_steps : Steps {} sampleH := by
  refine .tail (.tail sampleG_steps (.newNode 50 ⟨2, 1⟩ _ rfl)) (.append ⟨2, 1⟩ ⟨3, 0⟩ (.ok ()) _ ?_ ?_ rfl)
  all_goals exact liveId_of_isLiveId (by decide)

theorem sampleF_wf : Wf sampleF := (sampleF_steps.wf Wf.empty).1
theorem sampleG_wf : Wf sampleG := (sampleG_steps.wf Wf.empty).1
theorem sampleH_wf : Wf sampleH := (sampleH_steps.wf Wf.empty).1

/-- A live slot that names a live parent whose `first_child` is `None`: not well-formed. -/
theorem not_wf_of_orphan {a : Arena} {c : Nat} {sc sp : Slot} {y : NodeId} (hc : a.slot c = some sc) (h0 : 0 ≤ sc.stamp)
    (hp : sc.parent = some y) (hsp : a.slot y.index0 = some sp) (h0p : 0 ≤ sp.stamp) (hf : sp.first = none) :
    ¬ Wf a := by
  rintro ⟨g, r⟩
  have P := r.ptrs c sc hc h0
  rw [P.parent] at hp
  cases hpar : g.par c with
  | none => rw [hpar] at hp; cases hp
  | some p =>
    rw [hpar] at hp
    simp only [Option.map_some, Option.some.injEq] at hp
    have hpi : y.index0 = p := by rw [← hp]; simp
    rw [hpi] at hsp
    have hm := (r.parKids c p hpar).2
    have Pp := r.ptrs p sp hsp h0p
    rw [Pp.first] at hf
    cases hk : g.kids p with
    | nil => rw [hk] at hm; cases hm
    | cons k ks => rw [hk] at hf; cases hf

end Arena
end XotModel
