/-
  `insert_before(r, tc)` with `r` a child of a root and `tc` a root; `prepend(p, tc)` into a root
  without normal children.
-/
import XotModel.Lemmas.FfixedPlace

namespace XotModel
open HTree

theorem ctxKids_split (h p : Nat) (k2 : List HTree) (r : HTree) (hr : r.handle = h) :
    ∀ (k1 left : List HTree), h ∉ handlesList k1 →
      ctxKids h p left (k1 ++ r :: k2) = some ⟨p, left ++ k1, r, k2⟩
  | [], left, _ => by
    simp only [List.nil_append, List.append_nil]
    unfold ctxKids
    rw [if_pos hr]
  | k :: k1, left, hn => by
    simp only [handlesList, List.mem_append, not_or] at hn
    have hk : k.handle ≠ h := fun e => hn.1 (e ▸ handle_mem_handles_ff k)
    simp only [List.cons_append]
    unfold ctxKids
    rw [if_neg hk, ffx_ctxBelow_none_of_not_mem' h k hn.1]
    simp only
    rw [ctxKids_split h p k2 r hr k1 (left ++ [k]) hn.2]
    simp

namespace Forest

theorem prevSibling_eq {f : Forest} {h : Nat} {c : HTree.Ctx} (hc : f.ctx? h = some c) :
    f.prevSibling h = c.left.getLast?.bind (fun p =>
      if p.value.category == c.self.value.category then some p.handle else none) := by
  unfold prevSibling; rw [hc]
  cases hk : c.left.getLast? <;> simp [hk]

theorem ff_firstChild_eq {f : Forest} {p : Nat} {tp : HTree} (hg : f.get? p = some tp) :
    f.firstChild p = ((tp.kids.dropWhile (fun k => !k.value.isNormal)).head?).map (·.handle) := by
  unfold firstChild; rw [hg]

theorem ff_prependPoint_eq {f : Forest} {p : Nat} {tp : HTree} (hg : f.get? p = some tp) :
    f.prependPoint p =
      ((tp.kids.takeWhile (fun k => k.value.category != .normal)).getLast?).map (·.handle) := by
  unfold prependPoint; rw [hg]

end Forest

namespace RootAt
variable {f : Forest} {X Y : List HTree} {tc : HTree}

theorem ctx?_kid (h : RootAt f X tc Y) {A B k1 k2 : List HTree} {p : Nat} {v : Value} {r : HTree}
    (hXY : X ++ Y = A ++ HTree.node p v (k1 ++ r :: k2) :: B) :
    f.ctx? r.handle = some ⟨p, k1, r, k2⟩ := by
  obtain ⟨hrm, hA, _, h1⟩ := h.kid_facts hXY
  have hntc : r.handle ∉ handles tc := h.rest_not_mem_tc hrm
  unfold Forest.ctx?
  have e1 : f.roots.findSome? (ctxBelow r.handle) = (X ++ Y).findSome? (ctxBelow r.handle) := by
    rw [h.roots, List.findSome?_append, List.findSome?_cons, ffx_ctxBelow_none_of_not_mem' _ _ hntc,
      List.findSome?_append]
  rw [e1, hXY, List.findSome?_append]
  have hAn : A.findSome? (ctxBelow r.handle) = none := by
    rw [List.findSome?_eq_none_iff]
    intro t ht
    apply ffx_ctxBelow_none_of_not_mem'
    intro hm; exact hA (mem_handlesList_ff.2 ⟨t, ht, hm⟩)
  rw [hAn, List.findSome?_cons]
  simp only [Option.none_or]
  unfold ctxBelow
  rw [ctxKids_split r.handle p k2 r rfl k1 [] h1]
  simp

theorem mem_subtrees_kid {A B k1 k2 : List HTree} {p : Nat} {v : Value} {r : HTree}
    (hXY : X ++ Y = A ++ HTree.node p v (k1 ++ r :: k2) :: B) : r ∈ subtreesList (X ++ Y) := by
  rw [hXY, subtreesList_append]
  simp only [subtreesList, subtrees, List.mem_append, List.mem_cons]
  refine Or.inr (Or.inl (Or.inr ?_))
  rw [subtreesList_append]
  simp [subtreesList, self_mem_subtrees]

/-- `insert_before(r, tc)`: `r` a child of the root `p`, `tc` another root. -/
theorem insertBefore_kid (h : RootAt f X tc Y) {A B k1 k2 : List HTree} {p : Nat} {v : Value}
    {r : HTree} (hXY : X ++ Y = A ++ HTree.node p v (k1 ++ r :: k2) :: B)
    (hpv : v.isElement = true ∨ v.isDocument = true)
    (hcn : tc.value.isNormal = true) (hcd : tc.value.isDocument = false)
    (hrn : r.value.isNormal = true)
    (htext : f.consolidation = true → tc.value.isText = true →
      r.value.isText = false ∧ ∀ k, k1.getLast? = some k → k.value.isText = false) :
    f.insertBefore r.handle tc.handle =
      ({ f with roots := A ++ HTree.node p v (k1 ++ tc :: r :: k2) :: B }, .ok) := by
  have hn := h.nodup_rest
  rw [hXY] at hn
  obtain ⟨hA, _, _, _, _⟩ := root_facts hn
  have hp : findList? p (X ++ Y) = some (HTree.node p v (k1 ++ r :: k2)) := by
    rw [hXY]; exact findList?_root hA
  obtain ⟨hrm, _, _, _⟩ := h.kid_facts hXY
  have hctx := h.ctx?_kid hXY
  have hpar : f.parent? r.handle = some p := by unfold Forest.parent?; rw [hctx]; rfl
  have hsc := h.structureCheck_ok hp hpv hcn hcd
  have hgetr : f.get? r.handle = some r := h.get?_of_mem_subtrees_rest (mem_subtrees_kid hXY)
  have hne : ¬ (r.handle = tc.handle) := h.ne_of_rest hrm
  have hsib : f.siblingReferenceCheck r.handle tc.handle = true := by
    unfold Forest.siblingReferenceCheck Forest.isNormalNode
    rw [Forest.value?_of_get? hgetr]
    simp [hne, hrn]
  have hkmem : ∀ k, k1.getLast? = some k → k ∈ subtreesList (X ++ Y) := by
    intro k hk
    obtain ⟨k0, rfl⟩ := List.getLast?_eq_some_iff.1 hk
    rw [hXY, subtreesList_append]
    simp only [subtreesList, subtrees, List.mem_append, List.mem_cons]
    refine Or.inr (Or.inl (Or.inr ?_))
    rw [subtreesList_append, subtreesList_append]
    simp [subtreesList, self_mem_subtrees]
  have hprev : (f.prevSibling r.handle == some tc.handle) = false := by
    rw [Forest.prevSibling_eq hctx]
    simp only
    cases hk : k1.getLast? with
    | none => simp
    | some k =>
      have : k.handle ≠ tc.handle :=
        h.ne_of_rest (handles_subset_of_mem_subtreesList (hkmem k hk) _ (handle_mem_handles_ff k))
      simp only [Option.bind_some]
      split <;> simp [this]
  have hcp : f.prevSibling tc.handle = none := by unfold Forest.prevSibling; rw [h.ctx?_self]
  have hcn' : f.nextSibling tc.handle = none := by unfold Forest.nextSibling; rw [h.ctx?_self]
  have hadd : f.addConsolidate tc.handle (f.prevSibling r.handle) (some r.handle) = (f, false) := by
    cases hc : f.consolidation with
    | false => exact Forest.addConsolidate_off_ff _ _ _ _ hc
    | true =>
      cases ht : tc.value.isText with
      | false =>
        exact Forest.addConsolidate_of_textOf_none _ _ _ _
          (Forest.textOf_eq_none_of_value (Forest.value?_of_get? h.get?_self) ht)
      | true =>
        obtain ⟨hrt, hkt⟩ := htext hc ht
        apply Forest.addConsolidate_no_text_neighbour
        · intro l hl
          rw [Forest.prevSibling_eq hctx] at hl
          simp only at hl
          cases hk : k1.getLast? with
          | none => rw [hk] at hl; simp at hl
          | some k =>
            rw [hk] at hl
            simp only [Option.bind_some] at hl
            split at hl
            · cases hl
              exact Forest.textOf_eq_none_of_value
                (Forest.value?_of_get? (h.get?_of_mem_subtrees_rest (hkmem k hk))) (hkt k hk)
            · cases hl
        · intro n hn'
          cases hn'
          exact Forest.textOf_eq_none_of_value (Forest.value?_of_get? hgetr) hrt
  unfold Forest.insertBefore
  simp only [hpar, hsc, hsib, hprev, hcp, hcn', Forest.removeConsolidate_none, hadd,
    Bool.not_true, Bool.false_eq_true, if_false, h.checkedInsertBefore_kid hXY, if_true]

/-- `prepend(p, tc)` when the root `p` has no normal child: `tc` becomes the last raw child. -/
theorem prepend_root (h : RootAt f X tc Y) {A B ks : List HTree} {p : Nat} {v : Value}
    (hXY : X ++ Y = A ++ HTree.node p v ks :: B)
    (hpv : v.isElement = true ∨ v.isDocument = true)
    (hcn : tc.value.isNormal = true) (hcd : tc.value.isDocument = false)
    (hks : ∀ k ∈ ks, k.value.isNormal = false) :
    f.prepend p tc.handle = ({ f with roots := A ++ HTree.node p v (ks ++ [tc]) :: B }, .ok) := by
  have hn := h.nodup_rest
  rw [hXY] at hn
  obtain ⟨hA, _, _, _, _⟩ := root_facts hn
  have hp : findList? p (X ++ Y) = some (HTree.node p v ks) := by rw [hXY]; exact findList?_root hA
  have hpm := mem_rest_of_find hp
  have hget : f.get? p = some (HTree.node p v ks) := by rw [h.get?_rest hpm]; exact hp
  have hsc := h.structureCheck_ok hp hpv hcn hcd
  have hdw : ks.dropWhile (fun k => !k.value.isNormal) = [] := by
    apply ffx_dropWhile_all; intro k hk; simp [hks k hk]
  have hfc : f.firstChild p = none := by
    rw [Forest.ff_firstChild_eq hget]; simp [HTree.kids, hdw]
  have htw : ks.takeWhile (fun k => k.value.category != .normal) = ks := by
    apply ffx_takeWhile_all
    intro k hk
    have := hks k hk
    simp only [Value.isNormal, beq_eq_false_iff_ne, ne_eq] at this
    simpa using this
  have hpp : f.prependPoint p = ks.getLast?.map HTree.handle := by
    rw [Forest.ff_prependPoint_eq hget]; simp only [HTree.kids, htw]
  have hcp : f.prevSibling tc.handle = none := by unfold Forest.prevSibling; rw [h.ctx?_self]
  have hcn' : f.nextSibling tc.handle = none := by unfold Forest.nextSibling; rw [h.ctx?_self]
  have hadd : f.addConsolidate tc.handle none none = (f, false) :=
    Forest.addConsolidate_no_text_neighbour _ _ _ _ (by intro _ e; cases e) (by intro _ e; cases e)
  obtain ⟨hpl1, hpl2⟩ := h.placeAtEnd hXY
  unfold Forest.prepend
  simp only [hsc, hfc, hcp, hcn', Forest.removeConsolidate_none, hadd, hpp, Bool.not_true,
    Bool.false_eq_true, if_false]
  cases hl : ks.getLast? with
  | some l => simp [hpl1 l hl]
  | none => simp [hpl2 hl]

end RootAt
end XotModel
