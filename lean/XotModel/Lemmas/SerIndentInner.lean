/-
  C14_indent_roundtrip_inner, part 1: the indenting writer started at an element INSIDE a tree writes
  what it writes for the root of the standalone document of that element (Model/InnerStartSpec.lean).

  * `serNodeO_topRel`, `spellNodeP_topRel`: below the start node the token list `serNodeO` and the indented
    spelling `spellNodeP` see the name stack only through its top frame up to the built-in `xml` binding
    (`TopRel`, Lemmas/InnerStartTokens.lean), and do not look at `inScope` at all.
  * `entryFor_nsLeaves_append` …: namespace nodes put in front of the children of an element change neither
    its `Pretty` stack entry (`has_inline_child`, suppress list, `xml:space`) nor what is written for its content.
  * `serNodeO_standalone`, `spellNodeP_standalone`: the inner element, written as start node with the stack
    `[namespaces_in_scope(node)]`, against the standalone element written below a document node.
-/
import XotModel.Lemmas.SerIndentWhere
import XotModel.Lemmas.InnerStartSerialises

namespace XotModel
open Gen XotModel.Repair

variable (env : Env) (pr : TokenParams) (sup : List Nat)

/-! ### Below the start node: only the top frame, up to the built-in `xml` binding -/

mutual
theorem serNodeO_topRel (i1 i2 : List (Nat × Nat)) (cd : Bool) (n : Tree) (s1 s2 : FStack)
    (h : TopRel s1.top s2.top) :
    serNodeO env pr i1 false s1 cd n = serNodeO env pr i2 false s2 cd n := by
  cases n with
  | node v ks =>
    have hk := fun cd' => serKidsO_topRel i1 i2 cd' ks s1 s2 h
    cases v with
    | document => simpa [serNodeO] using hk false
    | «attribute» a b => simpa [serNodeO] using hk false
    | «namespace» a b => simpa [serNodeO] using hk false
    | text str => rw [serNodeO, serNodeO, hk]
    | comment str => rw [serNodeO, serNodeO, hk]
    | pi target data => rw [serNodeO, serNodeO, hk]
    | element name =>
      have ht := topRel_push h (Tree.node (.element name) ks).nsDecls
      have hk' := serKidsO_topRel i1 i2 (kidsCd pr (.element name)) ks _ _ ht
      have hd : (s1.push (Tree.node (.element name) ks).nsDecls).hasDefaultNamespace =
          (s2.push (Tree.node (.element name) ks).nsDecls).hasDefaultNamespace := by
        rw [hasDefaultNamespace_eq, hasDefaultNamespace_eq]; exact topRel_hasDefault ht
      have he := topRel_elementPrefix (env := env) ht name
      have ha := topRel_attrTokens (env := env) ht (Tree.node (.element name) ks).attrs
      rw [serNodeO, serNodeO]
      simp only [hd, he, ha, hk', Bool.false_eq_true, if_false]

theorem serKidsO_topRel (i1 i2 : List (Nat × Nat)) (cd : Bool) (ks : List Tree) (s1 s2 : FStack)
    (h : TopRel s1.top s2.top) :
    serNodeO.serKidsO env pr i1 s1 cd ks = serNodeO.serKidsO env pr i2 s2 cd ks := by
  cases ks with
  | nil => simp [serNodeO.serKidsO]
  | cons k ks =>
    rw [serNodeO.serKidsO, serNodeO.serKidsO, serNodeO_topRel i1 i2 cd k s1 s2 h,
      serKidsO_topRel i1 i2 cd ks s1 s2 h]
end

theorem spellAttr_topRel {s1 s2 : FStack} (h : TopRel s1.top s2.top) (a : Nat × Str) :
    spellAttr env s1 a = spellAttr env s2 a := by
  unfold spellAttr
  rw [topRel_attributePrefix (env := env) h a.1]

/-- Below the start node the items of a start tag are the element's own declarations and attributes. -/
theorem spellItems_topRel (i1 i2 : List (Nat × Nat)) {s1 s2 : FStack} (h : TopRel s1.top s2.top) (n : Tree) :
    spellItems env i1 false s1 n = spellItems env i2 false s2 n := by
  simp only [spellItems, writtenDecls, Bool.false_eq_true, if_false, List.nil_append]
  congr 1
  exact List.map_congr_left (fun a _ => spellAttr_topRel env h a)

mutual
theorem spellNodeP_topRel (i1 i2 : List (Nat × Nat)) (cd : Bool) (ps : PStack) (n : Tree) (s1 s2 : FStack)
    (h : TopRel s1.top s2.top) :
    spellNodeP env pr sup i1 false s1 cd ps n = spellNodeP env pr sup i2 false s2 cd ps n := by
  cases n with
  | node v ks =>
    have hk := fun cd' pc gap => spellKidsP_topRel i1 i2 cd' pc gap ks s1 s2 h
    cases v with
    | document => simpa [spellNodeP] using hk false ps []
    | «attribute» a b => simpa [spellNodeP] using hk false ps []
    | «namespace» a b => simpa [spellNodeP] using hk false ps []
    | text str => rw [spellNodeP, spellNodeP, hk]
    | comment str => rw [spellNodeP, spellNodeP, hk]
    | pi target data => rw [spellNodeP, spellNodeP, hk]
    | element name =>
      have ht := topRel_push h (Tree.node (.element name) ks).nsDecls
      have hk' := fun pc gap => spellKidsP_topRel i1 i2 (kidsCd pr (.element name)) pc gap ks _ _ ht
      have he := topRel_elementPrefix (env := env) ht name
      have hi := spellItems_topRel env i1 i2 ht (Tree.node (.element name) ks)
      rw [spellNodeP, spellNodeP]
      simp only [he, hi, hk']

theorem spellKidsP_topRel (i1 i2 : List (Nat × Nat)) (cd : Bool) (pc : PStack) (gap : Str) (ks : List Tree)
    (s1 s2 : FStack) (h : TopRel s1.top s2.top) :
    spellNodeP.spellKidsP env pr sup i1 s1 cd pc gap ks = spellNodeP.spellKidsP env pr sup i2 s2 cd pc gap ks := by
  cases ks with
  | nil => simp [spellNodeP.spellKidsP]
  | cons k ks =>
    rw [spellNodeP.spellKidsP, spellNodeP.spellKidsP, spellNodeP_topRel i1 i2 cd pc k s1 s2 h,
      spellKidsP_topRel i1 i2 cd pc gap ks s1 s2 h]
end

/-! ### Namespace nodes in front of the children -/

theorem normalKids_nsLeaves_append (v : Value) (X : List (Nat × Nat)) (ks : List Tree) :
    (Tree.node v (nsLeaves X ++ ks)).normalKids = (Tree.node v ks).normalKids := by
  simp only [Tree.normalKids, Tree.kids]
  rw [List.dropWhile_append_of_pos (nsLeaves_abnormal X)]

theorem hasInlineChild_nsLeaves_append (v : Value) (X : List (Nat × Nat)) (ks : List Tree) :
    hasInlineChild (.node v (nsLeaves X ++ ks)) = hasInlineChild (.node v ks) := by
  simp only [hasInlineChild, normalKids_nsLeaves_append]

theorem elementSpace_nsLeaves_append (v : Value) (X : List (Nat × Nat)) (ks : List Tree) :
    elementSpace (.node v (nsLeaves X ++ ks)) = elementSpace (.node v ks) := by
  simp only [elementSpace, Tree.getAttribute, attrs_nsLeaves_append]

/-- The `Pretty` stack entry of an element does not see namespace nodes. -/
theorem entryFor_nsLeaves_append (v : Value) (X : List (Nat × Nat)) (ks : List Tree) :
    entryFor sup (.node v (nsLeaves X ++ ks)) = entryFor sup (.node v ks) := by
  unfold entryFor
  rw [hasInlineChild_nsLeaves_append, elementSpace_nsLeaves_append]
  rfl

/-- Childless namespace nodes contribute no token … -/
theorem serKidsO_nsLeaves_append (i : List (Nat × Nat)) (s : FStack) (cd : Bool) (X : List (Nat × Nat))
    (ks : List Tree) :
    serNodeO.serKidsO env pr i s cd (nsLeaves X ++ ks) = serNodeO.serKidsO env pr i s cd ks := by
  induction X with
  | nil => rfl
  | cons d X ih =>
    have : nsLeaves (d :: X) ++ ks = Tree.node (.namespace d.1 d.2) [] :: (nsLeaves X ++ ks) := rfl
    rw [this, serNodeO.serKidsO, ih]
    have h0 : serNodeO env pr i false s cd (Tree.node (.namespace d.1 d.2) []) = .ok [] := by
      simp [serNodeO, serNodeO.serKidsO]
    rw [h0, appendOk_ok_nil_left]

/-- … no spelled node, and no white space. -/
theorem spellKidsP_nsLeaves_append (i : List (Nat × Nat)) (s : FStack) (cd : Bool) (pc : PStack) (gap : Str)
    (X : List (Nat × Nat)) (ks : List Tree) :
    spellNodeP.spellKidsP env pr sup i s cd pc gap (nsLeaves X ++ ks) =
      spellNodeP.spellKidsP env pr sup i s cd pc gap ks := by
  induction X with
  | nil => rfl
  | cons d X ih =>
    have : nsLeaves (d :: X) ++ ks = Tree.node (.namespace d.1 d.2) [] :: (nsLeaves X ++ ks) := rfl
    rw [this, spellNodeP.spellKidsP, ih]
    simp [spellNodeP, spellNodeP.spellKidsP, Tree.value, Value.isNormal, Value.category]

/-- The built-in `xml` binding is spelled as nothing. -/
theorem flatMap_spellDecl_filter_keepNB (l : List (Nat × Nat)) :
    (l.filter keepNB).flatMap (spellDecl env) = l.flatMap (spellDecl env) := by
  induction l with
  | nil => rfl
  | cons d l ih =>
    by_cases hd : keepNB d = true
    · simp only [List.filter_cons, hd, if_true, List.flatMap_cons, ih]
    · have hb : isBaseXml d = true := by simpa [keepNB] using hd
      have h2 : (d.2 == Env.xmlNamespace) = true := by
        simp only [isBaseXml, Bool.and_eq_true] at hb; exact hb.2
      have h0 : spellDecl env d = [] := by simp [spellDecl, h2]
      have hd' : keepNB d = false := by simpa using hd
      simp only [List.filter_cons, hd', Bool.false_eq_true, if_false, List.flatMap_cons, ih, h0,
        List.nil_append]

/-! ### The start element against the standalone element -/

section Standalone

variable (I : List (Nat × Nat)) (name : Nat) (ks : List Tree)

/-- The frames inside the two start elements. -/
theorem topRel_standalone :
    TopRel ((FStack.new I).push (Tree.node (.element name) ks).nsDecls).top
      ((FStack.new basePrefixes).push (Tree.node (.element name)
        (nsLeaves (inheritedExtra I (.node (.element name) ks)) ++ ks)).nsDecls).top := by
  rw [nsDecls_nsLeaves_append, top_push, top_push]
  exact topRel_start I _

/-- **Tokens, any token parameters**: the inner element written as start node against the standalone element
    written below its document node: the same tokens, or the same error. -/
theorem serNodeO_standalone (cd cd' : Bool) :
    serNodeO env pr I true (FStack.new I) cd (.node (.element name) ks) =
      serNodeO env pr basePrefixes false (FStack.new basePrefixes) cd'
        (.node (.element name) (nsLeaves (inheritedExtra I (.node (.element name) ks)) ++ ks)) := by
  have ht := topRel_standalone I name ks
  generalize hX : inheritedExtra I (.node (.element name) ks) = X at ht
  have hN : (Tree.node (.element name) (nsLeaves X ++ ks)).nsDecls = X ++ (Tree.node (.element name) ks).nsDecls :=
    nsDecls_nsLeaves_append _ X ks
  have hA := attrs_nsLeaves_append (.element name) X ks
  have hF := firstChild_nsLeaves_append (.element name) X ks
  have hd : ((FStack.new I).push (Tree.node (.element name) ks).nsDecls).hasDefaultNamespace =
      ((FStack.new basePrefixes).push (Tree.node (.element name) (nsLeaves X ++ ks)).nsDecls).hasDefaultNamespace := by
    rw [hasDefaultNamespace_eq, hasDefaultNamespace_eq]; exact topRel_hasDefault ht
  have he := topRel_elementPrefix (env := env) ht name
  have ha := topRel_attrTokens (env := env) ht (Tree.node (.element name) ks).attrs
  have hk : serNodeO.serKidsO env pr I ((FStack.new I).push (Tree.node (.element name) ks).nsDecls)
        (kidsCd pr (.element name)) ks =
      serNodeO.serKidsO env pr basePrefixes
        ((FStack.new basePrefixes).push (Tree.node (.element name) (nsLeaves X ++ ks)).nsDecls)
        (kidsCd pr (.element name)) (nsLeaves X ++ ks) := by
    rw [serKidsO_nsLeaves_append]
    exact serKidsO_topRel env pr _ _ _ ks _ _ ht
  have hdecl : ((I.filter (fun d => !(Tree.node (.element name) ks).declaresPrefix d.1)) ++
        (Tree.node (.element name) ks).nsDecls).flatMap (declTokens env) =
      (Tree.node (.element name) (nsLeaves X ++ ks)).nsDecls.flatMap (declTokens env) := by
    rw [hN, List.flatMap_append, List.flatMap_append, ← hX, inheritedExtra_eq, flatMap_declTokens_filter_keepNB]
  rw [serNodeO, serNodeO]
  simp only [if_true, Bool.false_eq_true, if_false, List.nil_append, hd, he, ha, hk, hdecl, hA, hF]

/-- **Indented spelling**: the same two elements are spelled alike by the indenting writer, white space runs
    included, in content with any `Pretty` stack. -/
theorem spellNodeP_standalone (cd cd' : Bool) (ps : PStack) :
    spellNodeP env pr sup I true (FStack.new I) cd ps (.node (.element name) ks) =
      spellNodeP env pr sup basePrefixes false (FStack.new basePrefixes) cd' ps
        (.node (.element name) (nsLeaves (inheritedExtra I (.node (.element name) ks)) ++ ks)) := by
  have ht := topRel_standalone I name ks
  generalize hX : inheritedExtra I (.node (.element name) ks) = X at ht
  have hN : (Tree.node (.element name) (nsLeaves X ++ ks)).nsDecls = X ++ (Tree.node (.element name) ks).nsDecls :=
    nsDecls_nsLeaves_append _ X ks
  have hA := attrs_nsLeaves_append (.element name) X ks
  have hF := firstChild_nsLeaves_append (.element name) X ks
  have hE := entryFor_nsLeaves_append sup (.element name) X ks
  have he := topRel_elementPrefix (env := env) ht name
  have hk : ∀ pc gap, spellNodeP.spellKidsP env pr sup I ((FStack.new I).push (Tree.node (.element name) ks).nsDecls)
        (kidsCd pr (.element name)) pc gap ks =
      spellNodeP.spellKidsP env pr sup basePrefixes
        ((FStack.new basePrefixes).push (Tree.node (.element name) (nsLeaves X ++ ks)).nsDecls)
        (kidsCd pr (.element name)) pc gap (nsLeaves X ++ ks) := by
    intro pc gap
    rw [spellKidsP_nsLeaves_append]
    exact spellKidsP_topRel env pr sup _ _ _ pc gap ks _ _ ht
  have hi : spellItems env I true ((FStack.new I).push (Tree.node (.element name) ks).nsDecls)
        (.node (.element name) ks) =
      spellItems env basePrefixes false
        ((FStack.new basePrefixes).push (Tree.node (.element name) (nsLeaves X ++ ks)).nsDecls)
        (.node (.element name) (nsLeaves X ++ ks)) := by
    simp only [spellItems, writtenDecls, if_true, Bool.false_eq_true, if_false, List.nil_append, hA]
    congr 1
    · rw [hN, List.flatMap_append, List.flatMap_append, ← hX, inheritedExtra_eq, flatMap_spellDecl_filter_keepNB]
    · exact List.map_congr_left (fun a _ => spellAttr_topRel env ht a)
  rw [spellNodeP, spellNodeP]
  simp only [he, hk, hi, hF, hE]

end Standalone

/-! ### The strings -/

theorem named_base (hx : env.prefixStr Env.xmlPrefix ≠ []) : Named env (FStack.new basePrefixes) :=
  named_initStack env (Tree.node .document []) [] hx rfl

/-- **The indented string of a document holding just one element** (`nodeOK` below it): the rendering of
    `spellNodeP` of the element and one line feed; it fails exactly where `serNodeO` fails. -/
theorem serializePretty_single (hx : env.prefixStr Env.xmlPrefix ≠ []) (e : Tree) (he : e.value.isElement = true)
    (hok : e.allNodes (nodeOK env) = true) :
    serializePretty env pr sup (.node .document [e]) [] =
      (match serNodeO env pr basePrefixes false (FStack.new basePrefixes) false e with
       | .ok _ => .ok (renderTokens (NSNode.tokens.tokensList
            (spellNodeP env pr sup basePrefixes false (FStack.new basePrefixes) false [] e)) ++ ['\n'])
       | .error err => .err err) := by
  have hin := inScope_document_single e he
  have hinit : initStack (.node .document [e]) [] = FStack.new basePrefixes := by
    simp [initStack, namespacesInScope, Tree.ancestorsOrSelf, hin]
  have hgen : genOutputs (.node .document [e]) [] = genNode basePrefixes false [0] e := by
    simp [genOutputs, Tree.at?, namespacesInScope, Tree.ancestorsOrSelf, hin, genNode_document, genNode.genKids]
  have hdoc : e.value.isDocument = false := by
    cases hv : e.value <;> simp [hv, Value.isElement, Value.isDocument] at he ⊢
  have hm : e.value.isMarkup = true := by
    cases hv : e.value <;> simp [hv, Value.isElement, Value.isMarkup] at he ⊢
  have hat : (Tree.node .document [e]).at? [0] = some e := by simp [Tree.at?]
  have hcd : isCdataElement pr ((Tree.node .document [e]).parentAt? [0]) = false := by
    simp [Tree.parentAt?, Tree.at?, isCdataElement, Tree.value]
  rw [show serializePretty env pr sup (.node .document [e]) [] =
    serializePrettyWith xmlEscapers env pr sup (.node .document [e]) [] from rfl,
    serializePretty_runPEvents, hinit, hgen,
    runP_node env pr sup _ basePrefixes false [0] e _ [] hat (named_base env hx) hok hdoc, hcd,
    wrapP_markup [] hm, indOf_nil, nlOf_nil]
  cases serNodeO env pr basePrefixes false (FStack.new basePrefixes) false e <;> rfl

/-- **The indented serialisation of an inner element is the indented serialisation of its standalone
    document** — the same text or the same error — for any token parameters and suppress list; `I` is
    `namespaces_in_scope(element)`.  The tree and the standalone element are `nodeOK` everywhere. -/
theorem serializePretty_inner (henv : envOK env = true) (t : Tree) (q : Path) (name : Nat) (ks : List Tree)
    (I : List (Nat × Nat)) (hat : t.at? q = some (.node (.element name) ks))
    (hsc : namespacesInScope t q = some I) (hok : t.allNodes (nodeOK env) = true)
    (hok' : (Tree.node (.element name)
      (nsLeaves (inheritedExtra I (.node (.element name) ks)) ++ ks)).allNodes (nodeOK env) = true) :
    serializePretty env pr sup t q =
      serializePretty env pr sup (.node .document [.node (.element name)
        (nsLeaves (inheritedExtra I (.node (.element name) ks)) ++ ks)]) [] := by
  have hx : env.prefixStr Env.xmlPrefix ≠ [] := by rw [envOK_xmlPrefix env henv]; simp
  rw [serializePretty_at env pr sup t q _ I hat hsc henv hok rfl, serializePretty_single env pr sup hx _ rfl hok']
  simp only [serTokensAtO, hat, hsc]
  rw [serNodeO_standalone env pr I name ks _ false, spellNodeP_standalone env pr sup I name ks _ false []]
  simp only [wrapP, Tree.value, indOf_nil, nlOf_nil, List.nil_append]
  rfl

/-- In terms of `standalone`. -/
theorem serializePretty_standalone (henv : envOK env = true) (t : Tree) (q : Path) (name : Nat) (ks : List Tree)
    (X : List (Nat × Nat)) (hat : t.at? q = some (.node (.element name) ks)) (hok : t.allNodes (nodeOK env) = true)
    (hst : standalone t q = some (.node .document [.node (.element name) (nsLeaves X ++ ks)]))
    (hr : Representable env (.node .document [.node (.element name) (nsLeaves X ++ ks)]) = true) :
    serializePretty env pr sup t q =
      serializePretty env pr sup (.node .document [.node (.element name) (nsLeaves X ++ ks)]) [] := by
  obtain ⟨rest, hchain⟩ := ancestorsOrSelf_of_at? t q _ hat
  have hsc : namespacesInScope t q = some (namespacesInScopeChain (.node (.element name) ks :: rest)) := by
    simp [namespacesInScope, hchain]
  have heq := standalone_eq t q name ks rest hat hchain
  rw [hst, Option.some.injEq] at heq
  rw [heq] at hr ⊢
  have hfrag := hr
  simp only [Representable, Bool.and_eq_true] at hfrag
  obtain ⟨_, _, hn, _⟩ := (representableFragment_iff env _).mp hfrag.1
  have hok' := allNodes_kid hn (List.mem_singleton.mpr rfl)
  exact serializePretty_inner env pr sup henv t q name ks _ hat hsc hok hok'

/-- Without doctype, with indentation: `serialize_xml_string` is the declaration bytes and the indented body,
    for any start node; it fails as the body fails. -/
theorem xmlString_pretty_eq (p : XmlParams) (t : Tree) (start : Path) (hdt : p.doctype = none)
    (hind : p.indentation = some sup) :
    serializeXmlString env p t start =
      (match serializePretty env p.tokenParams sup t start with
       | .ok body => .ok (p.declBytes ++ body)
       | .err e => .err e
       | .panic => .panic) := by
  show serializeXmlStringWith xmlEscapers env p t start =
    (match serializePrettyWith xmlEscapers env p.tokenParams sup t start with
     | .ok body => .ok (p.declBytes ++ body)
     | .err e => .err e
     | .panic => .panic)
  unfold serializeXmlStringWith serializeXmlWriteWith serializePrettyWith
  simp only [hdt, hind, bufferToString, XmlParams.declBytes, List.append_nil]
  cases (serializePrettyWriteWith xmlEscapers env p.tokenParams sup t start).2 <;> rfl

/-- **C14_indent_roundtrip_inner**: an element anywhere inside a `nodeOK` tree (sane tables, no repeated
    `xml:id` value below it), serialised with indentation (any suppress list, any token parameters, with or
    without XML declaration, no doctype): the call is the same call on the standalone document, and `parse` of
    the text gives `prettyTree sup` of the standalone document. -/
theorem indent_inner_roundtrip (p : XmlParams) (t : Tree) (q : Path) (name : Nat) (ks : List Tree)
    (henv : envOK env = true) (hok : t.allNodes (nodeOK env) = true)
    (hat : t.at? q = some (.node (.element name) ks))
    (hids : (xmlIdValues env (.node (.element name) ks)).Nodup)
    (hdt : p.doctype = none) (hind : p.indentation = some sup) :
    ∃ X, standalone t q = some (.node .document [.node (.element name) (nsLeaves X ++ ks)]) ∧
      Representable env (.node .document [.node (.element name) (nsLeaves X ++ ks)]) = true ∧
      serializeXmlString env p t q =
        serializeXmlString env p (.node .document [.node (.element name) (nsLeaves X ++ ks)]) [] ∧
      ∀ s, (∀ d e, p.declaration = some d → d.encoding = some e → Prolog.isEncName e = true) →
        serializeXmlString env p t q = .ok s →
        ∃ r, parseString .document env s = .ok r ∧
          r.tree = prettyTree sup (.node .document [.node (.element name) (nsLeaves X ++ ks)]) ∧ r.env = env := by
  obtain ⟨X, h1, hr⟩ := standalone_representable henv t q name ks hok hat hids
  have heq : serializeXmlString env p t q =
      serializeXmlString env p (.node .document [.node (.element name) (nsLeaves X ++ ks)]) [] := by
    rw [xmlString_pretty_eq env sup p t q hdt hind, xmlString_pretty_eq env sup p _ [] hdt hind,
      serializePretty_standalone env p.tokenParams sup henv t q name ks X hat hok h1 hr]
  refine ⟨X, h1, hr, heq, ?_⟩
  intro s henc hs
  rw [heq] at hs
  exact indent_decl_roundtrip env sup p hr hdt hind henc hs

end XotModel
