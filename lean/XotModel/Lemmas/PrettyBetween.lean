/-
  Whitespace of `Pretty` between two consecutive tokens (continuation of Lemmas/PrettyAdjacent):
  the stack around a text event holds the `Mixed` entry of the text node's parent, hence a text
  token has no whitespace on either side; together with the tag grammar: whitespace is written
  only between a token that closes markup and a token that opens markup.
-/
import XotModel.Lemmas.PrettyAdjacent

namespace XotModel

/-! ### The trees the indentation clause of C14 ranges over -/

/-- Text / comment / PI / attribute / namespace nodes are leaves and no document node has a text
    child (a well-formed document, or an element-rooted subtree of one: `StructValid` trees have
    no document node below the root).  Fragments with top-level text are excluded: `Pretty` keeps
    no stack entry for a document node (see `fragment_text_gets_newline`). -/
def TextOkAt (v : Value) (ks : List Tree) : Prop :=
  (v.isLeafKind = true → ks = []) ∧ (v = .document → ∀ k ∈ ks, k.value.isText = false)

def TextOk (n : Tree) : Prop := n.Forall TextOkAt

theorem Tree.forall_at? (p : Value → List Tree → Prop) (n : Tree) (rel : Path) (a : Tree)
    (h : n.Forall p) (hat : n.at? rel = some a) : p a.value a.kids := by
  induction rel generalizing n with
  | nil =>
    simp only [Tree.at?, Option.some.injEq] at hat
    subst hat
    cases n with
    | node v ks => exact ((Tree.forall_node p v ks).mp h).1
  | cons i rel ih =>
    cases n with
    | node v ks =>
      rw [at?_cons] at hat
      cases hk : ks[i]? with
      | none => simp [hk] at hat
      | some k =>
        simp only [hk, Option.bind_some] at hat
        exact ih k (((Tree.forall_node p v ks).mp h).2 k (List.mem_of_getElem? hk)) hat

theorem at?_snoc (n : Tree) (rel : Path) (i : Nat) (node : Tree) (h : n.at? (rel ++ [i]) = some node) :
    ∃ a, n.at? rel = some a ∧ a.kids[i]? = some node := by
  rw [at?_append] at h
  cases ha : n.at? rel with
  | none => simp [ha] at h
  | some a =>
    simp only [ha] at h
    cases a with
    | node v ks =>
      rw [at?_cons] at h
      cases hk : ks[i]? with
      | none => simp [hk] at h
      | some k =>
        simp only [hk, Option.bind_some, Tree.at?, Option.some.injEq] at h
        subst h
        exact ⟨_, rfl, hk⟩

theorem mem_dropWhile_of_not {α : Type} (p : α → Bool) (l : List α) (x : α) (hx : x ∈ l)
    (hp : p x = false) : x ∈ l.dropWhile p := by
  induction l with
  | nil => cases hx
  | cons y l ih =>
    rw [List.dropWhile_cons]
    split
    · rename_i hy
      rcases List.mem_cons.mp hx with rfl | hx
      · rw [hp] at hy; cases hy
      · exact ih hx
    · exact hx

theorem mem_normalKids (a k : Tree) (hk : k ∈ a.kids) (hn : k.value.isNormal = true) :
    k ∈ a.normalKids :=
  mem_dropWhile_of_not _ _ k hk (by simp [hn])

variable (sup : List Nat)

/-- The parent of a text node (in a `TextOk` tree) is an element whose stack entry is `Mixed`. -/
theorem text_parent_mixed (n : Tree) (hok : TextOk n) (rel : Path) (i : Nat) (c : Str) (node : Tree)
    (hat : n.at? (rel ++ [i]) = some node) (hv : node.value = .text c) :
    PStack.inMixed (pentriesAbove sup n (rel ++ [i])) = true := by
  obtain ⟨a, ha, hk⟩ := at?_snoc n rel i node hat
  have hmem : node ∈ a.kids := List.mem_of_getElem? hk
  obtain ⟨hleaf, hdoc⟩ := Tree.forall_at? TextOkAt n rel a hok ha
  have hnorm : node.value.isNormal = true := by rw [hv]; rfl
  have hnk : node ∈ a.normalKids := mem_normalKids a node hmem hnorm
  have hinl : hasInlineChild a = true := by
    simp only [hasInlineChild, List.any_eq_true]
    exact ⟨node, hnk, by rw [hv]; rfl⟩
  have hfc : a.firstChild?.isSome = true := by
    unfold Tree.firstChild?
    cases hh : a.normalKids with
    | nil => rw [hh] at hnk; cases hnk
    | cons x xs => rfl
  have hopen : StackEntry.mixed ∈ openEntryOf sup a := by
    cases hav : a.value with
    | element name => simp [openEntryOf, hav, hfc, entryFor, hinl]
    | document =>
      have := hdoc hav node hmem
      rw [hv] at this
      cases this
    | text s => have := hleaf (by rw [hav]; rfl); rw [this] at hmem; cases hmem
    | comment s => have := hleaf (by rw [hav]; rfl); rw [this] at hmem; cases hmem
    | pi tg d => have := hleaf (by rw [hav]; rfl); rw [this] at hmem; cases hmem
    | «attribute» x y => have := hleaf (by rw [hav]; rfl); rw [this] at hmem; cases hmem
    | «namespace» x y => have := hleaf (by rw [hav]; rfl); rw [this] at hmem; cases hmem
  have hin := openAbove_entry sup n (rel ++ [i]) a
    ⟨rel, [i], rfl, by simp, ⟨node, hat⟩, ha⟩ _ hopen
  simp only [PStack.inMixed, List.any_eq_true]
  exact ⟨_, hin, rfl⟩

theorem ownEvent_text {inScope : List (Nat × Nat)} {b : Bool} {n : Tree} {c : Str}
    (h : OwnEvent inScope b n (.text c)) : n.value = .text c := by
  unfold OwnEvent edgeStart edgeEnd at h
  cases hv : n.value <;> simp [hv] at h
  · have h2 := h.2
    unfold extraPrefixes at h2
    simp at h2
  · rw [h]

variable (t : Tree)

/-- A text event of the stream: either the start node is the text node and the stream is that
    single event, or the stack around it is inside mixed content. -/
theorem text_event_stack (start : Path) (n : Tree) (inScope : List (Nat × Nat))
    (hat : t.at? start = some n) (hs : namespacesInScope t start = some inScope) (hok : TextOk n)
    (ps : PStack) (p : Path) (c : Str)
    (hx : (ps, p, Output.text c) ∈ ptrace sup t [] (genOutputs t start)) :
    (genOutputs t start).length = 1 ∨ ps.inMixed = true := by
  obtain ⟨rel, h1, h2⟩ := genOutputs_ptrace sup t start n inScope hat hs _ hx
  simp only at h1 h2
  have hev := ptrace_mem_events sup t _ _ _ hx
  simp only at hev
  have hg : genOutputs t start = genNode inScope true start n := by simp [genOutputs, hat, hs]
  rw [hg] at hev
  obtain ⟨rel', n', hp', hat', _, hown⟩ := genNode_tagged inScope true start n _ _ hev
  have hrr : rel' = rel := by
    rw [h1] at hp'
    exact (List.append_cancel_left hp').symm
  subst hrr
  have hv := ownEvent_text hown
  rcases List.eq_nil_or_concat rel' with hnil | ⟨rel0, i, hsn⟩
  · left
    subst hnil
    simp only [Tree.at?, Option.some.injEq] at hat'
    subst hat'
    cases n with
    | node v ks =>
      simp only [Tree.value] at hv
      subst hv
      have hks : ks = [] := ((Tree.forall_node TextOkAt _ ks).mp hok).1.1 rfl
      subst hks
      rw [hg, genNode_text]
      simp [genNode.genKids]
  · right
    rw [List.concat_eq_append] at hsn
    subst hsn
    rw [h2]
    simp only [pentriesFor]
    exact text_parent_mixed sup n hok rel0 i c n' hat' hv

/-- Whitespace between two consecutive pretty tokens: the first closes markup, the second opens
    markup, and the stack between them (the entries of the open elements above the second token's
    node, its own included for an end tag) is neither mixed nor in `preserve` scope. -/
theorem pretty_between (esc : Escapers) (env : Env) (pr : TokenParams) (start : Path) (n : Tree)
    (inScope : List (Nat × Nat)) (hat : t.at? start = some n)
    (hs : namespacesInScope t start = some inScope) (hok : TextOk n)
    (ks pre post : List (Path × Output × PrettyOutputToken)) (k1 k2 : Path × Output × PrettyOutputToken)
    (h : prettyTokensWith esc env pr sup t start = .ok ks) (hks : ks = pre ++ k1 :: k2 :: post)
    (hw : k1.2.2.newline = true ∨ k2.2.2.indentation > 0) :
    k1.2.1.closesMarkup = true ∧ k2.2.1.opensMarkup = true ∧
    ∃ rel, k2.1 = start ++ rel ∧
      PStack.inMixed (pentriesFor sup k2.2.1 n rel) = false ∧
      PStack.inSpacePreserve (pentriesFor sup k2.2.1 n rel) = false := by
  unfold prettyTokensWith at h
  cases hp : prettyAllWith esc env pr sup t [] (initStack t start) (genOutputs t start) with
  | err e => simp [hp] at h
  | panic => simp [hp] at h
  | ok l =>
    simp only [hp] at h
    cases h
    obtain ⟨ps1, m1, m2, e1, e2⟩ := prettyAll_adjacent sup t esc env pr [] _ _ _ pre post k1 k2 hp hks
    have hevs := prettyAll_events sup t esc env pr [] _ _ _ hp
    have hlen : (genOutputs t start).length ≠ 1 := by
      rw [← hevs, hks]
      simp
      omega
    obtain ⟨p1, o1, tok1⟩ := k1
    obtain ⟨p2, o2, tok2⟩ := k2
    simp only at m1 m2 e1 e2 hw ⊢
    have hind1 : tok1.newline = (prettifyAt sup t ps1 p1 o1).2.2 := congrArg Prod.snd e1
    have hind2 : tok2.indentation = (prettifyAt sup t (pstep sup t ps1 (p1, o1)) p2 o2).2.1 :=
      congrArg Prod.fst e2
    -- the stack between the two events is neither mixed nor in preserve scope
    have hS : (pstep sup t ps1 (p1, o1)).inMixed = false ∧
        (pstep sup t ps1 (p1, o1)).inSpacePreserve = false := by
      rcases hw with hw | hw
      · rw [hind1] at hw
        have := (prettifyAt_newline_after sup t ps1 p1 o1 hw).2
        exact ⟨getNewline_true this, getNewline_true_preserve this⟩
      · rw [hind2] at hw
        exact (prettifyAt_indent_before sup t _ p2 o2 hw).2
    -- neither event is a text event
    have hnt1 : ∀ c, o1 ≠ Output.text c := by
      rintro c rfl
      rcases text_event_stack sup t start n inScope hat hs hok ps1 p1 c m1 with h1 | h1
      · exact hlen h1
      · rw [pstep_neutral sup t ps1 p1 _ rfl, h1] at hS
        cases hS.1
    have hnt2 : ∀ c, o2 ≠ Output.text c := by
      rintro c rfl
      rcases text_event_stack sup t start n inScope hat hs hok _ p2 c m2 with h1 | h1
      · exact hlen h1
      · rw [h1] at hS
        cases hS.1
    -- the tag grammar
    have hgram : o2.contTag = o1.inTag := by
      have hg : genOutputs t start = genNode inScope true start n := by simp [genOutputs, hat, hs]
      have := genNode_gram inScope true start n
      rw [← hg, ← hevs, hks] at this
      simp only [List.map_append, List.map_cons] at this
      exact gram_adjacent _ _ _ _ this
    obtain ⟨rel, hr1, hr2⟩ := genOutputs_ptrace sup t start n inScope hat hs _ m2
    simp only at hr1 hr2
    have hc1 : o1.closesMarkup = true ∧ o2.opensMarkup = true := by
      rcases hw with hw | hw
      · rw [hind1] at hw
        have hc := (prettifyAt_newline_after sup t ps1 p1 o1 hw).1
        refine ⟨hc, ?_⟩
        cases o1 <;> simp [Output.closesMarkup] at hc <;>
          (simp only [Output.inTag] at hgram
           cases o2 <;> simp [Output.contTag] at hgram <;>
             first | rfl | exact absurd rfl (hnt2 _))
      · rw [hind2] at hw
        have ho := (prettifyAt_indent_before sup t _ p2 o2 hw).1
        refine ⟨?_, ho⟩
        cases o2 <;> simp [Output.opensMarkup] at ho <;>
          (simp only [Output.contTag] at hgram
           cases o1 <;> simp [Output.inTag] at hgram <;>
             first | rfl | exact absurd rfl (hnt1 _))
    refine ⟨hc1.1, hc1.2, rel, hr1, ?_, ?_⟩
    · rw [← hr2]; exact hS.1
    · rw [← hr2]; exact hS.2

/-- The first token is never indented (the stack starts empty). -/
theorem prettifyAt_nil_indent (p : Path) (o : Output) : (prettifyAt sup t [] p o).2.1 = 0 := by
  unfold prettifyAt
  cases t.at? p with
  | none => rfl
  | some node =>
    cases o <;> simp [prettify, PStack.getIndentation, PStack.inMixed, PStack.inSpacePreserve]
    split
    · split <;> rfl
    · rfl

/-! ### What the markup tokens look like -/

theorem getLast?_snoc' {α : Type} (l : List α) (x : α) : (l ++ [x]).getLast? = some x := by simp

theorem getLast?_cons_snoc {α : Type} (c : α) (a b : List α) (x : α) :
    (c :: (a ++ (b ++ [x]))).getLast? = some x := by
  rw [show c :: (a ++ (b ++ [x])) = (c :: a ++ b) ++ [x] by simp]
  exact getLast?_snoc' _ _

/-- A token that opens markup begins with `<` — except the (empty) end-tag token of an element
    without children, whose tag was already closed by `/>`. -/
theorem render_opensMarkup (esc : Escapers) (env : Env) (pr : TokenParams) (s s' : FStack) (node : Tree)
    (parent : Option Tree) (o : Output) (tok : OutputToken) (ho : o.opensMarkup = true)
    (h : renderXmlWith esc env pr s node parent o = .ok (s', tok)) :
    tok.space = false ∧
    (tok.text.head? = some '<' ∨
      ((∃ name, o = .endTag name) ∧ node.firstChild?.isSome = false ∧ tok.text = [])) := by
  cases o with
  | startTagOpen name =>
    simp only [renderXmlWith] at h
    split at h
    · cases h
    · split at h
      · cases h; exact ⟨rfl, Or.inl (by simp [fmt, Gen.fmtStartTagOpen])⟩
      · cases h
  | endTag name =>
    simp only [renderXmlWith] at h
    split at h
    · split at h
      · cases h; exact ⟨rfl, Or.inl (by simp [fmt, Gen.fmtEndTag])⟩
      · cases h
    · rename_i hc
      cases h
      exact ⟨rfl, Or.inr ⟨⟨name, rfl⟩, by simpa using hc, rfl⟩⟩
  | comment c =>
    simp only [renderXmlWith] at h
    cases h
    exact ⟨rfl, Or.inl (by simp [fmt, Gen.fmtComment])⟩
  | pi tg d =>
    simp only [renderXmlWith] at h
    split at h
    · cases h
    · split at h
      · cases h; exact ⟨rfl, Or.inl (by simp [fmt, Gen.fmtPiData])⟩
      · cases h; exact ⟨rfl, Or.inl (by simp [fmt, Gen.fmtPi])⟩
  | text c => cases ho
  | pfx a b => cases ho
  | «attribute» a v => cases ho
  | startTagClose => cases ho

/-- A token that closes markup ends with `>` — with the same exception. -/
theorem render_closesMarkup (esc : Escapers) (env : Env) (pr : TokenParams) (s s' : FStack) (node : Tree)
    (parent : Option Tree) (o : Output) (tok : OutputToken) (ho : o.closesMarkup = true)
    (h : renderXmlWith esc env pr s node parent o = .ok (s', tok)) :
    tok.text.getLast? = some '>' ∨
      ((∃ name, o = .endTag name) ∧ node.firstChild?.isSome = false ∧ tok.text = []) := by
  cases o with
  | startTagClose =>
    simp only [renderXmlWith] at h
    split at h <;> cases h
    · exact Or.inl (by simp [Gen.litEmptyTagClose])
    · exact Or.inl (by simp [Gen.litTagClose])
  | endTag name =>
    simp only [renderXmlWith] at h
    split at h
    · split at h
      · cases h; exact Or.inl (by simpa [fmt, Gen.fmtEndTag] using getLast?_cons_snoc '/' _ [] '>')
      · cases h
    · rename_i hc
      cases h
      exact Or.inr ⟨⟨name, rfl⟩, by simpa using hc, rfl⟩
  | comment c =>
    simp only [renderXmlWith] at h
    cases h
    exact Or.inl (by simpa [fmt, Gen.fmtComment] using getLast?_cons_snoc '-' c ['-','-'] '>')
  | pi tg d =>
    simp only [renderXmlWith] at h
    split at h
    · cases h
    · split at h
      · cases h; exact Or.inl (by simpa [fmt, Gen.fmtPiData] using getLast?_cons_snoc '?' (env.localName tg ++ ' ' :: _) ['?'] '>')
      · cases h; exact Or.inl (by simpa [fmt, Gen.fmtPi] using getLast?_cons_snoc '?' (env.localName tg) ['?'] '>')
  | text c => cases ho
  | pfx a b => cases ho
  | «attribute» a v => cases ho
  | startTagOpen name => cases ho

/-- Every token of a successful pretty stream is what `render_output` returned for its event. -/
theorem prettyAll_rendered (esc : Escapers) (env : Env) (pr : TokenParams) (ps : PStack) (s : FStack)
    (evs : List (Path × Output)) (ks : List (Path × Output × PrettyOutputToken))
    (h : prettyAllWith esc env pr sup t ps s evs = .ok ks) :
    ∀ k ∈ ks, ∃ s1 s2, renderAtWith esc env pr t s1 k.1 k.2.1 = .ok (s2, ⟨k.2.2.space, k.2.2.text⟩) := by
  induction evs generalizing ps s ks with
  | nil =>
    simp only [prettyAllWith] at h
    cases h
    simp
  | cons po evs ih =>
    obtain ⟨p, o⟩ := po
    simp only [prettyAllWith] at h
    cases hr : renderAtWith esc env pr t s p o with
    | ok st =>
      obtain ⟨s', tok⟩ := st
      simp only [hr] at h
      cases hrest : prettyAllWith esc env pr sup t (prettifyAt sup t ps p o).1 s' evs with
      | ok l =>
        simp only [hrest] at h
        cases h
        intro k hk
        rcases List.mem_cons.mp hk with rfl | hk
        · exact ⟨s, s', hr⟩
        · exact ih _ _ _ hrest k hk
      | err e => simp [hrest] at h
      | panic => simp [hrest] at h
    | err e => simp [hr] at h
    | panic => simp [hr] at h

/-- The shape of the markup tokens of the pretty stream. -/
theorem pretty_token_shape (esc : Escapers) (env : Env) (pr : TokenParams) (start : Path)
    (ks : List (Path × Output × PrettyOutputToken))
    (h : prettyTokensWith esc env pr sup t start = .ok ks)
    (k : Path × Output × PrettyOutputToken) (hk : k ∈ ks) :
    (k.2.1.opensMarkup = true → k.2.2.space = false ∧
      (k.2.2.text.head? = some '<' ∨ ((∃ name, k.2.1 = .endTag name) ∧ k.2.2.text = []))) ∧
    (k.2.1.closesMarkup = true →
      (k.2.2.text.getLast? = some '>' ∨ ((∃ name, k.2.1 = .endTag name) ∧ k.2.2.text = []))) := by
  unfold prettyTokensWith at h
  cases hp : prettyAllWith esc env pr sup t [] (initStack t start) (genOutputs t start) with
  | err e => simp [hp] at h
  | panic => simp [hp] at h
  | ok l =>
    simp only [hp] at h
    cases h
    obtain ⟨s1, s2, hr⟩ := prettyAll_rendered sup t esc env pr [] _ _ _ hp k hk
    unfold renderAtWith at hr
    cases hn : t.at? k.1 with
    | none => simp [hn] at hr
    | some node =>
      simp only [hn] at hr
      constructor
      · intro ho
        obtain ⟨a, b⟩ := render_opensMarkup esc env pr s1 s2 node _ _ _ ho hr
        exact ⟨a, b.imp id (fun x => ⟨x.1, x.2.2⟩)⟩
      · intro ho
        exact (render_closesMarkup esc env pr s1 s2 node _ _ _ ho hr).imp id (fun x => ⟨x.1, x.2.2⟩)

/-- Per token, on every tree: indentation only in front of a token that opens markup, a newline
    only behind a token that closes markup. -/
theorem pretty_token_kinds (esc : Escapers) (env : Env) (pr : TokenParams) (start : Path)
    (ks : List (Path × Output × PrettyOutputToken))
    (h : prettyTokensWith esc env pr sup t start = .ok ks)
    (k : Path × Output × PrettyOutputToken) (hk : k ∈ ks) :
    (k.2.2.indentation > 0 → k.2.1.opensMarkup = true) ∧
    (k.2.2.newline = true → k.2.1.closesMarkup = true) := by
  unfold prettyTokensWith at h
  cases hp : prettyAllWith esc env pr sup t [] (initStack t start) (genOutputs t start) with
  | err e => simp [hp] at h
  | panic => simp [hp] at h
  | ok l =>
    simp only [hp] at h
    cases h
    obtain ⟨ps', _, heq⟩ := prettyAll_ptrace sup t esc env pr [] _ _ _ hp k hk
    constructor
    · intro hw
      rw [show k.2.2.indentation = _ from congrArg Prod.fst heq] at hw
      exact (prettifyAt_indent_before sup t ps' _ _ hw).1
    · intro hw
      rw [show k.2.2.newline = _ from congrArg Prod.snd heq] at hw
      exact (prettifyAt_newline_after sup t ps' _ _ hw).1

/-- The first token is not indented. -/
theorem pretty_first_token (esc : Escapers) (env : Env) (pr : TokenParams) (start : Path)
    (k : Path × Output × PrettyOutputToken) (ks : List (Path × Output × PrettyOutputToken))
    (h : prettyTokensWith esc env pr sup t start = .ok (k :: ks)) : k.2.2.indentation = 0 := by
  unfold prettyTokensWith at h
  cases hp : prettyAllWith esc env pr sup t [] (initStack t start) (genOutputs t start) with
  | err e => simp [hp] at h
  | panic => simp [hp] at h
  | ok l =>
    simp only [hp] at h
    cases h
    cases hg : genOutputs t start with
    | nil => rw [hg] at hp; simp [prettyAllWith] at hp
    | cons po evs =>
      rw [hg] at hp
      obtain ⟨p, o⟩ := po
      simp only [prettyAllWith] at hp
      split at hp
      · split at hp
        · cases hp
          exact prettifyAt_nil_indent sup t p o
        · cases hp
        · cases hp
      · cases hp
      · cases hp

end XotModel
