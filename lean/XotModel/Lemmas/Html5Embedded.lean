/-
  Specification side of "MathML, SVG and XHTML elements are written under a default-namespace
  declaration of their namespace" (C19_embedded): a replay of the rendered token stream that
  tracks the default namespace the *written* start tags declare.
-/
import XotModel.Model.Html5

namespace XotModel
open Gen

/-- The default namespace in force on top of a replay stack (`Env.noNamespace` = none declared). -/
def dOf (st : List (Nat × Nat)) : Nat := (st.head?.map (·.2)).getD Env.noNamespace

/-- Replay of a rendered stream.  Stack, innermost first: (namespace of the open element, default
    namespace in force inside its start tag as written so far).  A start tag inherits the default
    of the enclosing element unless its own token carries the `xmlns="…"` declaration; a written
    `xmlns="…"` token replaces it.  At the `>` of an element whose namespace must be written
    unprefixed the default namespace in force must be the element's own: otherwise `none`. -/
def embeddedReplay (c : HtmlCtx) :
    List (Nat × Nat) → List (Path × Output × OutputToken) → Option (List (Nat × Nat))
  | st, [] => some st
  | st, (_, o, tok) :: rest =>
    match o with
    | .startTagOpen name =>
      let ns := c.env.nsOfName name
      let injected := tok.text ==
        fmt fmtHtmlStartTagOpenNs [c.env.localName name, serializeAttributeHtml (c.env.namespaceStr ns)]
      embeddedReplay c ((ns, if injected then ns else dOf st) :: st) rest
    | .pfx p ns =>
      if p == Env.emptyPrefix && !tok.text.isEmpty then
        match st with
        | (ens, _) :: st' => embeddedReplay c ((ens, ns) :: st') rest
        | [] => embeddedReplay c st rest
      else embeddedReplay c st rest
    | .startTagClose =>
      match st with
      | (ens, d) :: _ =>
        if c.h.mustBeUnprefixed ens && d != ens then none else embeddedReplay c st rest
      | [] => embeddedReplay c st rest
    | .endTag _ => embeddedReplay c st.tail rest
    | _ => embeddedReplay c st rest

/-- Every start tag of a MathML / SVG / XHTML element is written under a default-namespace
    declaration of its namespace. -/
def embeddedUnderDefault (c : HtmlCtx) (l : List (Path × Output × OutputToken)) : Bool :=
  (embeddedReplay c [] l).isSome

theorem embeddedReplay_append (c : HtmlCtx) (a b : List (Path × Output × OutputToken)) :
    ∀ st, embeddedReplay c st (a ++ b) = (embeddedReplay c st a).bind (fun st' => embeddedReplay c st' b) := by
  induction a with
  | nil => intro st; simp [embeddedReplay]
  | cons k a ih =>
    intro st
    obtain ⟨p, o, tok⟩ := k
    cases o with
    | startTagOpen name => simp only [List.cons_append, embeddedReplay, ih]
    | startTagClose =>
      cases st with
      | nil => simp only [List.cons_append, embeddedReplay, ih]
      | cons e st =>
        obtain ⟨ens, d⟩ := e
        simp only [List.cons_append, embeddedReplay, ih]
        split <;> simp
    | endTag name => simp only [List.cons_append, embeddedReplay, ih]
    | pfx q ns =>
      simp only [List.cons_append, embeddedReplay]
      split
      · cases st with
        | nil => simp only [ih]
        | cons e st => simp only [ih]
      · simp only [ih]
    | «attribute» name v => simp only [List.cons_append, embeddedReplay, ih]
    | text s => simp only [List.cons_append, embeddedReplay, ih]
    | comment s => simp only [List.cons_append, embeddedReplay, ih]
    | pi tg d => simp only [List.cons_append, embeddedReplay, ih]

end XotModel
