/-
  Specification side of "MathML and SVG elements are written under a default-namespace
  declaration" (C19): a replay of the rendered token stream that tracks the default namespace
  the *written* start tags declare.
-/
import XotModel.Model.Html5

namespace XotModel
open Gen

/-- Replay of a rendered stream.  Stack, innermost first: (namespace of the open element, default
    namespace in force inside its start tag as written so far).  `Env.noNamespace` = none declared.
    At the end of each start tag of a MathML / SVG element the default namespace in force must be
    the element's own. -/
def embeddedUnderDefault (c : HtmlCtx) : List (Nat × Nat) → List (Path × Output × OutputToken) → Bool
  | _, [] => true
  | st, (_, o, tok) :: rest =>
    match o with
    | .startTagOpen name =>
      let ns := c.env.nsOfName name
      let inherited := (st.head?.map (·.2)).getD Env.noNamespace
      let injected := tok.text ==
        fmt fmtHtmlStartTagOpenNs [c.env.localName name, serializeAttributeHtml (c.env.namespaceStr ns)]
      embeddedUnderDefault c ((ns, if injected then ns else inherited) :: st) rest
    | .pfx p ns =>
      if p == Env.emptyPrefix && !tok.text.isEmpty then
        match st with
        | (ens, _) :: st' => embeddedUnderDefault c ((ens, ns) :: st') rest
        | [] => embeddedUnderDefault c st rest
      else embeddedUnderDefault c st rest
    | .startTagClose =>
      match st with
      | (ens, d) :: _ =>
        (if ens == c.h.mathml || ens == c.h.svg then d == ens else true) && embeddedUnderDefault c st rest
      | [] => embeddedUnderDefault c st rest
    | .endTag _ => embeddedUnderDefault c st.tail rest
    | _ => embeddedUnderDefault c st rest

end XotModel
