/-
  XotModel.Lemmas.ArenaSplice — helper facts for the children-take-the-node's-place step of
  `NodeId::remove`: the list-level splice, its parent paths, first / last child of the new
  parent.
-/
import XotModel.Lemmas.ArenaRange

namespace XotModel
namespace Arena

/-- List-level splice: the children of the parentless node `i` go under `p` between `L` and `R`. -/
def Shape.splice (g : Shape) (i p : Nat) (L R : List Nat) : Shape :=
  ⟨fun j => if j ∈ g.kids i then some p else g.par j,
   fun q => if q = p then L ++ g.kids i ++ R else if q = i then [] else g.kids q, g.free⟩

/-- The arena after the two `connect_neighbors` of the range transplant. -/
def spliceArena (a : Arena) (i p c1 ck : Nat) (V N : Option NodeId) (K : List Nat) : Arena :=
  unlink (unlink (setParents (a.mod i (fun s => { s with first := none, last := none })) K (some (a.idAt p)))
    (some (a.idAt p)) V (some (a.idAt c1))) (some (a.idAt p)) (some (a.idAt ck)) N

theorem MetaEq.spliceArena (a : Arena) (i p c1 ck : Nat) (V N : Option NodeId) (K : List Nat) :
    MetaEq a (spliceArena a i p c1 ck V N K) := by
  unfold Arena.spliceArena
  exact (MetaEq.mod a i (f := fun s => { s with first := none, last := none }) (fun s => ⟨rfl, rfl⟩)).trans
    ((MetaEq.setParents _ K _).trans ((MetaEq.unlink _ _ _ _).trans (MetaEq.unlink _ _ _ _)))

theorem newFirst_splice (f : Nat → NodeId) (L K R : List Nat) (c1 ck : Nat) (h : K.head? = some c1) :
    newFirst (newFirst ((L ++ R).head?.map f) (L.getLast?.map f) (some (f c1))) (some (f ck)) (R.head?.map f)
      = (L ++ K ++ R).head?.map f := by
  cases L with
  | nil =>
    cases K with
    | nil => simp at h
    | cons y K' => simp at h; subst h; simp [newFirst]
  | cons y L' =>
    cases hl : (y :: L').getLast? with
    | none => simp at hl
    | some l => simp [newFirst]

theorem newLast_splice (f : Nat → NodeId) (L K R : List Nat) (c1 ck : Nat) (h : K.getLast? = some ck) :
    newLast (newLast ((L ++ R).getLast?.map f) (L.getLast?.map f) (some (f c1))) (some (f ck)) (R.head?.map f)
      = (L ++ K ++ R).getLast?.map f := by
  cases R with
  | nil => simp [newLast, h]
  | cons y R' =>
    simp only [newLast, List.head?_cons, Option.map_some, List.getLast?_append]
    cases hl : (y :: R').getLast? with
    | none => simp at hl
    | some l => simp

/-- Paths in the parent function after re-parenting the children `K` of `i` to `p`, where `i` is not
    above `p`: from `p` upwards nothing changes. -/
theorem Reach.splice_up {par : Nat → Option Nat} {K : List Nat} {i p : Nat}
    (hK : ∀ c ∈ K, par c = some i) {u v : Nat} (hu : ¬ Reach par u i)
    (h : Reach (fun j => if j ∈ K then some p else par j) u v) : Reach par u v := by
  induction h with
  | refl => exact .refl _
  | @step c q d hc _ ih =>
    have hcK : c ∉ K := fun hm => hu (.single (hK c hm))
    simp only [if_neg hcK] at hc
    exact .step hc (ih (fun hr => hu (.step hc hr)))

theorem Reach.splice {par : Nat → Option Nat} {K : List Nat} {i p : Nat}
    (hK : ∀ c ∈ K, par c = some i) (hp : ¬ Reach par p i) {u v : Nat}
    (h : Reach (fun j => if j ∈ K then some p else par j) u v) :
    Reach par u v ∨ (∃ c ∈ K, Reach par u c ∧ Reach par p v) := by
  induction h with
  | refl => exact Or.inl (.refl _)
  | @step c q d hc hr ih =>
    by_cases hcK : c ∈ K
    · simp only [if_pos hcK, Option.some.injEq] at hc
      subst hc
      exact Or.inr ⟨c, hcK, .refl _, Reach.splice_up hK hp hr⟩
    · simp only [if_neg hcK] at hc
      rcases ih with ih | ⟨c', hc', h1, h2⟩
      · exact Or.inl (.step hc ih)
      · exact Or.inr ⟨c', hc', .step hc h1, h2⟩

end Arena
end XotModel
