/-
  SelfMergeBridge — `add_consolidate_text_nodes` after xot eccbbb7 reads the neighbour it is handed
  as "the node's own sibling" when that neighbour is the node itself.  `addConsolidateOld` is the
  helper as it was before (neighbours taken as given); the present helper is the old one applied to
  the substituted neighbours (`addConsolidate_eq_old`), and the two agree whenever neither
  neighbour is the node itself, or the node is not a text node, or consolidation is off.
-/
import XotModel.Model.Manip

namespace XotModel
namespace Forest

/-- `add_consolidate_text_nodes` before eccbbb7: the neighbours are taken as given. -/
def addConsolidateOld (f : Forest) (node : Nat) (prev next : Option Nat) : Forest × Bool :=
  if !f.consolidation then (f, false) else
  match f.textOf node with
  | none => (f, false)
  | some added =>
    let viaPrev : Option Forest :=
      match prev with
      | some p => (match f.textOf p with
          | some ps => some ((f.setValue p (.text (ps ++ added))).spliceOut node)
          | none => none)
      | none => none
    match viaPrev with
    | some f' => (f', true)
    | none =>
      match next with
      | some n => (match f.textOf n with
          | some ns => ((f.setValue n (.text (added ++ ns))).spliceOut node, true)
          | none => (f, false))
      | none => (f, false)

/-- The previous neighbour the patched helper works with. -/
def selfPrev (f : Forest) (node : Nat) (prev : Option Nat) : Option Nat :=
  if prev == some node then f.prevSibling node else prev

/-- The next neighbour the patched helper works with. -/
def selfNext (f : Forest) (node : Nat) (next : Option Nat) : Option Nat :=
  if next == some node then f.nextSibling node else next

/-- The helper is the old helper on the substituted neighbours. -/
theorem addConsolidate_eq_old (f : Forest) (node : Nat) (prev next : Option Nat) :
    f.addConsolidate node prev next =
      f.addConsolidateOld node (f.selfPrev node prev) (f.selfNext node next) := by
  unfold addConsolidate addConsolidateOld selfPrev selfNext
  rfl

theorem selfPrev_of_ne {f : Forest} {node : Nat} {prev : Option Nat} (h : prev ≠ some node) :
    f.selfPrev node prev = prev := by
  unfold selfPrev; simp [h]

theorem selfNext_of_ne {f : Forest} {node : Nat} {next : Option Nat} (h : next ≠ some node) :
    f.selfNext node next = next := by
  unfold selfNext; simp [h]

@[simp] theorem selfPrev_none (f : Forest) (node : Nat) : f.selfPrev node none = none := by
  unfold selfPrev; simp

@[simp] theorem selfNext_none (f : Forest) (node : Nat) : f.selfNext node none = none := by
  unfold selfNext; simp

theorem selfPrev_self (f : Forest) (node : Nat) :
    f.selfPrev node (some node) = f.prevSibling node := by
  unfold selfPrev; simp

theorem selfNext_self (f : Forest) (node : Nat) :
    f.selfNext node (some node) = f.nextSibling node := by
  unfold selfNext; simp

/-- Neither neighbour is the node itself: the patched helper is the old one. -/
theorem addConsolidate_eq_old_of_ne {f : Forest} {node : Nat} {prev next : Option Nat}
    (hp : prev ≠ some node) (hn : next ≠ some node) :
    f.addConsolidate node prev next = f.addConsolidateOld node prev next := by
  rw [addConsolidate_eq_old, selfPrev_of_ne hp, selfNext_of_ne hn]

theorem addConsolidateOld_off {f : Forest} (h : f.consolidation = false) (node : Nat)
    (prev next : Option Nat) : f.addConsolidateOld node prev next = (f, false) := by
  simp [addConsolidateOld, h]

theorem addConsolidateOld_not_text {f : Forest} {node : Nat} (h : f.textOf node = none)
    (prev next : Option Nat) : f.addConsolidateOld node prev next = (f, false) := by
  unfold addConsolidateOld
  cases f.consolidation <;> simp [h]

theorem addConsolidateOld_none_none (f : Forest) (node : Nat) :
    f.addConsolidateOld node none none = (f, false) := by
  unfold addConsolidateOld
  split
  · rfl
  · cases f.textOf node <;> rfl

/-- The old helper looks at a neighbour only through `textOf`: neighbours that are not text nodes
    may be replaced by anything that is not a text node. -/
theorem addConsolidateOld_nontext_neighbours {f : Forest} {node : Nat} {prev next : Option Nat}
    (hprev : ∀ a, prev = some a → f.textOf a = none) (hnext : ∀ b, next = some b → f.textOf b = none) :
    f.addConsolidateOld node prev next = (f, false) := by
  unfold addConsolidateOld
  cases hcc : f.consolidation
  · simp
  · cases hn : f.textOf node with
    | none => simp
    | some added =>
      cases prev with
      | none =>
        cases next with
        | none => simp
        | some b => simp [hnext b rfl]
      | some a =>
        cases next with
        | none => simp [hprev a rfl]
        | some b => simp [hprev a rfl, hnext b rfl]

/-- Consolidation off, or the node is not a text node: both helpers leave the forest alone, so
    they agree whatever the neighbours. -/
theorem addConsolidate_eq_old_of_not_text {f : Forest} {node : Nat} (h : f.textOf node = none)
    (prev next : Option Nat) :
    f.addConsolidate node prev next = f.addConsolidateOld node prev next := by
  rw [addConsolidate_eq_old, addConsolidateOld_not_text h, addConsolidateOld_not_text h]

theorem addConsolidate_eq_old_of_off {f : Forest} (h : f.consolidation = false) (node : Nat)
    (prev next : Option Nat) :
    f.addConsolidate node prev next = f.addConsolidateOld node prev next := by
  rw [addConsolidate_eq_old, addConsolidateOld_off h, addConsolidateOld_off h]

/-- The bridging lemma in the form the move proofs use: a neighbour handed to the helper is the
    node itself only if the node is not a text node (or consolidation is off). -/
theorem addConsolidate_eq_old_of {f : Forest} {node : Nat} {prev next : Option Nat}
    (hp : prev = some node → f.consolidation = false ∨ f.textOf node = none)
    (hn : next = some node → f.consolidation = false ∨ f.textOf node = none) :
    f.addConsolidate node prev next = f.addConsolidateOld node prev next := by
  by_cases h1 : prev = some node
  · rcases hp h1 with h | h
    · exact addConsolidate_eq_old_of_off h _ _ _
    · exact addConsolidate_eq_old_of_not_text h _ _
  · by_cases h2 : next = some node
    · rcases hn h2 with h | h
      · exact addConsolidate_eq_old_of_off h _ _ _
      · exact addConsolidate_eq_old_of_not_text h _ _
    · exact addConsolidate_eq_old_of_ne h1 h2

end Forest
end XotModel
