/-
  XotModel.Lemmas.SerIndentLeafParse — what `parse_fragment` reads the indented output of a comment / PI / text
  start node as: the output IS the plain serialisation of the fragment `leafFragment v`
  (`D [ node, T "\n" ]` for a comment or a PI, `D [ node ]` for a text node), which is in the C01 fragment domain
  as soon as the tables are sane and the node's own value is in the XML domain.
-/
import XotModel.Lemmas.SerIndentLeaf
import XotModel.Lemmas.SerOptMain

namespace XotModel
open Gen

/-- The fragment the indented output of the start node is read as (specification side). -/
def leafFragment (v : Value) : Tree :=
  match v with
  | .text _ => .node .document [.node v []]
  | _ => .node .document [.node v [], .node (.text prettyNewline) []]

theorem serializeText_newline (b : Bool) : serializeText b prettyNewline = prettyNewline := by
  cases b <;> decide

/-- The plain serialisation of `leafFragment v` is the token of `v` plus the line feed of `leafNewline`
    (a text node directly under a document node is never in a CDATA-section element: `parent = none` says the
    same). -/
theorem serializeString_leafFragment (env : Env) (pr : TokenParams) (v : Value) (hv : v.isLeafStart = true) :
    serializeString env pr (leafFragment v) [] = (leafText xmlEscapers env pr none v).appendOk (leafNewline v) := by
  cases v <;> simp [Value.isLeafStart] at hv
  · -- text
    rename_i s
    have hg : genOutputs (.node .document [.node (.text s) []]) [] = [([0], .text s)] := by
      simp [genOutputs, Tree.at?, namespacesInScope, Tree.ancestorsOrSelf, genNode, genNode.genKids,
        edgeStart, edgeEnd, Tree.value, Value.isNormal, Value.category]
    simp only [leafFragment]
    simp [serializeString, serializeStringWith, serializeWriteWith, hg, writeGoWith, renderAtWith, leafFragment,
      Tree.at?, Tree.parentAt?, renderXmlWith, isCdataElement, Tree.value, bufferToString, tokenBytes, leafText,
      Outcome.appendOk, leafNewline, Tree.kids]
  · -- pi
    rename_i tg d
    have hg : genOutputs (.node .document [.node (.pi tg d) [], .node (.text prettyNewline) []]) [] =
        [([0], .pi tg d), ([1], .text prettyNewline)] := by
      simp [genOutputs, Tree.at?, namespacesInScope, Tree.ancestorsOrSelf, genNode, genNode.genKids,
        edgeStart, edgeEnd, Tree.value, Value.isNormal, Value.category]
    by_cases hn : (env.namespaceStr (env.nsOfName tg)).isEmpty = true
    · simp only [leafFragment]
      cases d <;>
        simp [serializeString, serializeStringWith, serializeWriteWith, hg, writeGoWith, renderAtWith,
          Tree.at?, Tree.parentAt?, renderXmlWith, isCdataElement, Tree.value, bufferToString, tokenBytes, leafText,
          Outcome.appendOk, leafNewline, Tree.kids, hn, xmlEscapers, serializeText_newline]
    · simp only [leafFragment]
      simp [serializeString, serializeStringWith, serializeWriteWith, hg, writeGoWith, renderAtWith, leafFragment,
        Tree.at?, Tree.parentAt?, renderXmlWith, Tree.value, bufferToString, leafText,
        Outcome.appendOk, Tree.kids, hn]
  · -- comment
    rename_i c
    have hg : genOutputs (.node .document [.node (.comment c) [], .node (.text prettyNewline) []]) [] =
        [([0], .comment c), ([1], .text prettyNewline)] := by
      simp [genOutputs, Tree.at?, namespacesInScope, Tree.ancestorsOrSelf, genNode, genNode.genKids,
        edgeStart, edgeEnd, Tree.value, Value.isNormal, Value.category]
    simp only [leafFragment]
    simp [serializeString, serializeStringWith, serializeWriteWith, hg, writeGoWith, renderAtWith, leafFragment,
      Tree.at?, Tree.parentAt?, renderXmlWith, isCdataElement, Tree.value, bufferToString, tokenBytes, leafText,
      Outcome.appendOk, leafNewline, Tree.kids, xmlEscapers, serializeText_newline]

/-- `leafFragment v` is in the fragment round-trip domain when the tables are sane and the value is in the XML
    domain. -/
theorem representableFragment_leafFragment (env : Env) (v : Value) (hv : v.isLeafStart = true)
    (henv : envOK env = true) (hval : valueOK env v = true) :
    RepresentableFragment env (leafFragment v) = true := by
  have hnl : valueOK env (.text prettyNewline) = true := by simp [valueOK]; decide
  have hdoc : valueOK env .document = true := rfl
  cases v <;> simp [Value.isLeafStart] at hv <;>
    simp [RepresentableFragment, henv, leafFragment, Tree.value, Value.isDocument, Tree.allNodes,
      Tree.allNodes.allList, nodeOK, hval, hnl, hdoc, OrderedKids, KindsOk, UniqueKids, noAdjText, attrNames, nsPrefixes,
      Value.isLeafKind, Value.isText, Value.isElement, Value.isNormal, Value.category, Value.phase,
      xmlIdValues, xmlIdValues.idsList]

/-- `parentAt?` under which the token of a text node is `serialize_text` (not a CDATA section); always true for a
    comment or a PI. -/
def leafPlainParent (pr : TokenParams) (parent : Option Tree) (v : Value) : Bool :=
  !(v.isText && isCdataElement pr parent)

theorem leafText_parent (esc : Escapers) (env : Env) (pr : TokenParams) (parent : Option Tree) (v : Value)
    (h : leafPlainParent pr parent v = true) : leafText esc env pr parent v = leafText esc env pr none v := by
  cases v <;> simp [leafText, leafPlainParent, Value.isText, isCdataElement] at h ⊢
  simp [h]

/-- **Round trip of the indented output of a comment / PI / text start node** (no declaration, no doctype, any
    token parameters, any suppress list): `parse_fragment` of the output gives `leafFragment v` — the node, and
    behind a comment or a PI one text node holding the line feed —, tables unchanged.  A text node under a
    CDATA-section element is excluded (its output is the same with and without indentation). -/
theorem leaf_indent_roundtrip (env : Env) (pr : TokenParams) (sup : List Nat) (t : Tree) (start : Path) (v : Value)
    (hat : t.at? start = some (.node v [])) (hv : v.isLeafStart = true)
    (henv : envOK env = true) (hval : valueOK env v = true)
    (hpar : leafPlainParent pr (t.parentAt? start) v = true)
    (s : Str) (hs : serializePretty env pr sup t start = .ok s) :
    ∃ q, parseString .fragment env s = .ok q ∧ q.tree = leafFragment v ∧ q.env = env := by
  have h1 := serializePretty_leaf xmlEscapers env pr sup t start v hat hv
  rw [leafText_parent _ _ _ _ _ hpar, ← serializeString_leafFragment env pr v hv] at h1
  have h2 : serializeString env pr (leafFragment v) [] = .ok s := by
    rw [← h1]; exact hs
  exact options_roundtrip_fragment env pr (representableFragment_leafFragment env v hv henv hval) h2

end XotModel
