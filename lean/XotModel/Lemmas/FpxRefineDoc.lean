/-
  FpxRefine, part 7: the `for element in elements` loop of the document branch.  The forest model
  (`Forest.repairElementsF`) re-erases the root after every element, the tree model (`repairElements`)
  threads the tree: they agree because the call on one element changes nothing outside the strict
  subtree of that element — the later elements (its siblings) are found at the same paths.
-/
import XotModel.Lemmas.FpxRefineElement

namespace XotModel
open HTree Repair

namespace HTree

mutual
  /-- Old handles of a tree in which one subtree was replaced. -/
  theorem handles_graft_filter (nd : Nat) (S' : HTree) (P : Nat → Bool) : ∀ r : HTree,
      (∀ (q : Path) (S0 : HTree), r.at? q = some S0 → S0.handle = nd →
        (handles S').filter P = (handles S0).filter P) →
      (handles (mapAt nd (fun _ => S') r)).filter P = (handles r).filter P
    | .node h v ks, hx => by
      by_cases hh : h = nd
      · have e1 : mapAt nd (fun _ => S') (.node h v ks) = S' := by unfold mapAt; rw [if_pos hh]
        rw [e1]
        exact hx [] _ rfl hh
      · have e1 : mapAt nd (fun _ => S') (.node h v ks) = .node h v (mapAtList nd (fun _ => S') ks) := by
          unfold mapAt; rw [if_neg hh]
        rw [e1]
        simp only [fi_handles_node, List.filter_cons]
        rw [handlesList_graft_filter nd S' P ks (fun i k hik q S0 hq hS0 =>
          hx (i :: q) S0 (by simp only [HTree.at?, hik]; exact hq) hS0)]
  theorem handlesList_graft_filter (nd : Nat) (S' : HTree) (P : Nat → Bool) : ∀ ks : List HTree,
      (∀ (i : Nat) (k : HTree), ks[i]? = some k → ∀ (q : Path) (S0 : HTree), k.at? q = some S0 → S0.handle = nd →
        (handles S').filter P = (handles S0).filter P) →
      (handlesList (mapAtList nd (fun _ => S') ks)).filter P = (handlesList ks).filter P
    | [], _ => rfl
    | k :: ks, hx => by
      simp only [mapAtList, fi_handlesList_cons, List.filter_append]
      rw [handles_graft_filter nd S' P k (hx 0 k rfl),
        handlesList_graft_filter nd S' P ks (fun i k' hik => hx (i + 1) k' (by simpa using hik))]
end

theorem handles_graft_filter' {r S S' : HTree} {nd : Nat} {top : Path} (P : Nat → Bool) (hnd : (handles r).Nodup)
    (hS : r.at? top = some S) (hSh : S.handle = nd) (hf : (handles S').filter P = (handles S).filter P) :
    (handles (mapAt nd (fun _ => S') r)).filter P = (handles r).filter P := by
  apply handles_graft_filter nd S' P r
  intro q S0 hq hS0
  have : q = top := at?_handle_inj hnd hq hS (by rw [hS0, hSh])
  subst this
  rw [hq] at hS
  cases hS
  exact hf

theorem graft_handle (nd : Nat) (S' : HTree) (hS' : S'.handle = nd) (r : HTree) :
    (mapAt nd (fun _ => S') r).handle = r.handle := by
  cases r with
  | node h v ks =>
    unfold mapAt
    split
    · rename_i hh; rw [hS']; exact hh.symm
    · rfl

theorem mem_handlesList_getElem? : ∀ (ks : List HTree) (x : Nat), x ∈ handlesList ks →
    ∃ (j : Nat) (k : HTree), ks[j]? = some k ∧ x ∈ handles k
  | [], _, h => by simp [handlesList] at h
  | k :: ks, x, h => by
    simp only [fi_handlesList_cons, List.mem_append] at h
    rcases h with h | h
    · exact ⟨0, k, rfl, h⟩
    · obtain ⟨j, k', hj, hk'⟩ := mem_handlesList_getElem? ks x h
      exact ⟨j + 1, k', by simpa using hj, hk'⟩

/-- A handle strictly below the node at `p` has a path strictly extending `p`. -/
theorem pathOf_below {r S : HTree} {p : Path} {x : Nat} (hnd : (handles r).Nodup) (hS : r.at? p = some S)
    (hx : x ∈ handlesList S.kids) : ∃ j q, pathOf x r = some (p ++ j :: q) := by
  obtain ⟨j, k, hj, hxk⟩ := mem_handlesList_getElem? S.kids x hx
  have hsome := ftrav_pathOf_isSome x k hxk
  cases hq : pathOf x k with
  | none => rw [hq] at hsome; cases hsome
  | some q =>
    obtain ⟨s, hs, hsh⟩ := ftrav_pathOf_at? x k q hq
    have h1 : r.at? (p ++ [j]) = some k := at?_child hS hj
    have h2 : r.at? ((p ++ [j]) ++ q) = some s := by rw [at?_append', h1]; exact hs
    have := ftrav_pathOf_of_at? _ r s hnd h2
    rw [hsh] at this
    exact ⟨j, q, by rw [this]; simp⟩

end HTree

namespace Forest

/-- The root of the element theorem, as a replacement of the whole root tree. -/
theorem fpxr_roots_as_root {f : Forest} (hnd : f.allHandles.Nodup) {nd : Nat} {r : HTree} (S' : HTree)
    (hr : r ∈ f.roots) (hn : nd ∈ handles r) :
    mapAtList nd (fun _ => S') f.roots = mapAtList r.handle (fun _ => mapAt nd (fun _ => S') r) f.roots :=
  mapAtList_as_graft nd r.handle _ r hn f.roots hnd (Fmap.findList?_direct f.roots hnd r hr)

/-- **Paths outside the repaired element** are unchanged by `create_missing_prefixes_for_element`:
    with the data of `fpxr_repairElementF`, a handle `x` of the root whose path does not strictly
    extend the element's path is found at the same path afterwards. -/
theorem fpxr_path_stable {f f' : Forest} (hi : f.Inv) (hi' : f'.Inv) {nd : Nat} {r S S' : HTree} {path : Path}
    (hrm : r ∈ f.roots) (hS : r.at? path = some S) (hSh : S.handle = nd) (hS'h : S'.handle = nd)
    (hg' : f'.get? nd = some S') (hfil : (handles S').filter (· < f.next) = handles S)
    {x : Nat} {q : Path} (hx : pathOf x r = some q) (hq : path <+: q → q = path) :
    pathOf x (mapAt nd (fun _ => S') r) = some q := by
  have hndr : (handles r).Nodup := ftrav_nodup_mem _ r hi.nodup hrm
  have hxr : x ∈ handles r := ftrav_pathOf_mem hx
  have h1 : x ∉ handlesList S.kids := by
    intro hm
    obtain ⟨j, q', hq'⟩ := pathOf_below hndr hS hm
    rw [hx] at hq'
    simp only [Option.some.injEq] at hq'
    have := hq (by rw [hq']; exact List.prefix_append _ _)
    rw [hq'] at this
    have := congrArg List.length this
    simp at this
  have h2 : x ∉ handlesList S'.kids := by
    intro hm
    have hxS' : x ∈ handles S' := by
      cases S' with
      | node a b c => simp only [fi_handles_node, List.mem_cons]; exact Or.inr hm
    have hlt : x < f.next := hi.below x (ftrav_mem_handlesList _ r x hrm hxr)
    have hxS : x ∈ handles S := by
      rw [← hfil]; exact List.mem_filter.mpr ⟨hxS', by simpa using hlt⟩
    have hnd' : (handles S').Nodup := Fmap.findList?_nodup nd f'.roots S' hi'.nodup hg'
    cases S with
    | node a b c =>
      simp only [fi_handles_node, List.mem_cons] at hxS
      rcases hxS with e | e
      · simp only [HTree.handle] at hSh
        cases S' with
        | node a' b' c' =>
          simp only [HTree.handle] at hS'h
          simp only [fi_handles_node, List.nodup_cons] at hnd'
          simp only [HTree.kids] at hm
          exact hnd'.1 (by rw [hS'h, ← hSh, ← e]; exact hm)
      · exact h1 e
  rw [pathOf_graft' hndr hS hSh hS'h h1 h2, hx]

/-- The loop's elements: handle and raw child index. -/
def LoopOK (f : Forest) (r : HTree) (path : Path) (es : List (Nat × Nat)) : Prop :=
  ∀ e ∈ es, f.isElement e.1 = true ∧ pathOf e.1 r = some (path ++ [e.2])

/-- **The document loop, forest model against tree model.** -/
theorem fpxr_repairElementsF (path : Path) : ∀ (es : List (Nat × Nat)) (env : Env) {f : Forest} {r : HTree},
    f.Inv → r ∈ f.roots → LoopOK f r path es →
    ∃ r', r'.handle = r.handle ∧
      (repairElementsF (es.map (·.1)) env f).2.2 = .ok ∧
      (repairElementsF (es.map (·.1)) env f).1.Inv ∧
      (∀ x, (repairElementsF (es.map (·.1)) env f).1.isElement x = f.isElement x) ∧
      f.next ≤ (repairElementsF (es.map (·.1)) env f).1.next ∧
      (repairElementsF (es.map (·.1)) env f).1.roots = mapAtList r.handle (fun _ => r') f.roots ∧
      repairElements (es.map (·.2)) path env r.erase =
        .ok ((repairElementsF (es.map (·.1)) env f).2.1, r'.erase) ∧
      (handles r').filter (· < f.next) = handles r ∧
      ∀ x q, pathOf x r = some q → (∀ e ∈ es, (path ++ [e.2]) <+: q → q = path ++ [e.2]) →
        pathOf x r' = some q
  | [], env, f, r, hi, hrm, _ => by
    refine ⟨r, rfl, rfl, hi, fun _ => rfl, Nat.le_refl _, ?_, rfl, ?_, fun x q hx _ => hx⟩
    · exact (graftList_self r.handle r f.roots hi.nodup (Fmap.findList?_direct f.roots hi.nodup r hrm)).symm
    · exact handles_filter_self (fun x hx => hi.below x (ftrav_mem_handlesList _ r x hrm hx))
  | (e, i) :: rest, env, f, r, hi, hrm, hes => by
    obtain ⟨hee, hep⟩ := hes (e, i) (by simp)
    have hndr : (handles r).Nodup := ftrav_nodup_mem _ r hi.nodup hrm
    have hne : e ∈ handles r := ftrav_pathOf_mem hep
    have hroot : f.rootOf? e = some r := fpxr_rootOf_of_mem hi.nodup hrm hne
    obtain ⟨S, S', hg, hS, hS'h, hok, hi1, hel, hnext, hroots, hg1, hfil, htree⟩ :=
      fpxr_repairElementF hi env hee hroot hep
    have hSh : S.handle = e := Fmap.findList?_handle e _ _ hg
    -- one step of both loops
    rcases hrun : f.repairElementF env e with ⟨f1, env1, res1⟩
    rw [hrun] at hok hi1 hel hnext hroots hg1 htree
    simp only at hok hi1 hel hnext hroots hg1 htree
    subst hok
    let r1 := mapAt e (fun _ => S') r
    have hr1h : r1.handle = r.handle := graft_handle e S' hS'h r
    have hroots1 : f1.roots = mapAtList r.handle (fun _ => r1) f.roots := by
      rw [hroots]; exact fpxr_roots_as_root hi.nodup S' hrm hne
    have hr1m : r1 ∈ f1.roots := by
      rw [hroots, mapAtList_eq_map]; exact List.mem_map_of_mem hrm
    have hstab : ∀ x q, pathOf x r = some q → ((path ++ [i]) <+: q → q = path ++ [i]) →
        pathOf x r1 = some q :=
      fun x q hx hq => fpxr_path_stable hi hi1 hrm hS hSh hS'h hg1 hfil hx hq
    have hes1 : LoopOK f1 r1 path rest := by
      intro e' he'
      obtain ⟨h1, h2⟩ := hes e' (by simp [he'])
      refine ⟨by rw [hel]; exact h1, hstab _ _ h2 (fun hp => ?_)⟩
      exact (List.IsPrefix.eq_of_length hp (by simp)).symm
    obtain ⟨r2, k1, k2, k3, k4, k5, k6, k7, k8, k9⟩ := fpxr_repairElementsF path rest env1 hi1 hr1m hes1
    have hF : repairElementsF (((e, i) :: rest).map (·.1)) env f = repairElementsF (rest.map (·.1)) env1 f1 := by
      simp only [List.map_cons, repairElementsF, hrun]
    have hT : repairElements (((e, i) :: rest).map (·.2)) path env r.erase =
        repairElements (rest.map (·.2)) path env1 r1.erase := by
      simp only [List.map_cons, repairElements, htree]
      rfl
    rw [hF, hT]
    refine ⟨r2, k1.trans hr1h, k2, k3, fun x => (k4 x).trans (hel x), Nat.le_trans hnext k5, ?_, k7, ?_, ?_⟩
    · rw [k6, hr1h, hroots1]
      exact graftList_graftList r.handle r1 r2 hr1h f.roots
    · have h1 : (handles r1).filter (· < f.next) = handles r := by
        have := handles_graft_filter' (fun x => decide (x < f.next)) hndr hS hSh
          (S' := S') (by rw [hfil]; exact (handles_filter_self (fun x hx => hi.below x
            ((findList?_sublist e f.roots S hg).subset hx))).symm)
        rw [this]
        exact handles_filter_self (fun x hx => hi.below x (ftrav_mem_handlesList _ r x hrm hx))
      rw [← h1, ← k8, List.filter_filter]
      apply List.filter_congr
      intro x _
      by_cases hx : x < f.next
      · have : x < f1.next := Nat.lt_of_lt_of_le hx hnext
        simp [hx, this]
      · simp [hx]
    · intro x q hx hq
      apply k9 x q (hstab x q hx (hq (e, i) (by simp))) (fun e' he' => hq e' (by simp [he']))

end Forest
end XotModel
