/-
  FframeRestClear — the `get?`-form frame of `MutableNodeMap::clear()` (`Forest.mapClear`): the loop of removals is
  one replacement of the child list of the element (`Fmap.clear_fold`); every node other than the element and its
  entry nodes of that kind keeps value and child handles (`Fmap.shallow_findList?_withKids`).
-/
import XotModel.Lemmas.FframeGeneralAll
import XotModel.Lemmas.FmapOps3
import XotModel.Lemmas.FmapHistFrame

namespace XotModel
namespace Fmap
open HTree
open Forest (MapKind entryKey mapChildren)

/-- `clear()` on an element: the entries of the kind are dropped from its child list. -/
theorem mapClear_roots {f : Forest} {e nm : Nat} {N A S : List HTree} (h : MInv f e nm N A S) (k : MapKind) :
    (f.mapClear k e).1 = { f with roots := withKids f.roots e (preK k N ++ postK k A S) } := by
  unfold Forest.mapClear
  rw [h.isElement]
  simp only [Bool.not_true, Bool.false_eq_true, if_false]
  rw [h.loc.get]
  simp only
  rw [mapChildren_eq]
  simp only [HTree.kids]
  rw [h.sect.kidsOf]
  have hl : Located f e (.element nm) (preK k N ++ Sect.sec k N A ++ postK k A S) := by
    rw [← split_kids]; exact h.loc
  obtain ⟨h1, _⟩ := clear_fold e _ (preK k N) (postK k A S) (Sect.sec k N A) f hl
    (fun c hc => by rw [h.sect.sec_cat k c hc]; exact kindCat_ne_normal k)
  rw [h1]

end Fmap

open HTree Spec PairAll
open Forest (MapKind)

theorem getFrame_mapClear {f : Forest} (inv : f.Inv) {k : MapKind} {e : Nat}
    (he : f.isElement e = true) {z : Nat} (hne : z ≠ e)
    (hz : z ∉ f.entryHandles k e) : GetFrame f (f.mapClear k e).1 z := by
  obtain ⟨nm, N, A, S, h⟩ := Fmap.minv_of_inv f e inv he
  rw [Fmap.mapClear_roots h k]
  have hget : f.get? e = some (.node e (.element nm) (Fmap.preK k N ++ Fmap.Sect.sec k N A ++ Fmap.postK k A S)) := by
    rw [← Fmap.split_kids]; exact h.loc.get
  have hx : z ∉ (Fmap.Sect.sec k N A).map (·.handle) := by
    intro hm
    obtain ⟨c, hc, e'⟩ := List.mem_map.1 hm
    apply hz
    unfold Forest.entryHandles
    rw [hget]
    refine List.mem_map.2 ⟨c, List.mem_filter.2 ⟨?_, ?_⟩, e'⟩
    · exact List.mem_append_left _ (List.mem_append_right _ hc)
    · exact (Fmap.matches_iff_cat k c.value).2 (h.sect.sec_cat k c hc)
  have hH : (findList? z (Fmap.preK k N ++ Fmap.postK k A S)).map Fmap.shallow =
      (findList? z (Fmap.preK k N ++ Fmap.Sect.sec k N A ++ Fmap.postK k A S)).map Fmap.shallow := by
    rw [Fmap.findList?_skip_leaves z _ _ _ (h.leaf k) hx]
  have hsh := Fmap.shallow_findList?_withKids e z (.element nm) _ _ hne hH f.roots h.loc.nodup hget
  intro t ht
  have ht' : findList? z f.roots = some t := ht
  rw [ht'] at hsh
  show ∃ t', findList? z (Fmap.withKids f.roots e _) = some t' ∧ _
  unfold Fmap.withKids
  cases hg' : findList? z (mapAtList e (Fmap.atKids fun _ => Fmap.preK k N ++ Fmap.postK k A S) f.roots) with
  | none => rw [hg'] at hsh; cases hsh
  | some t' =>
    rw [hg'] at hsh
    simp only [Option.map_some, Option.some.injEq, Fmap.shallow, Prod.mk.injEq] at hsh
    refine ⟨t', rfl, hsh.1, ?_⟩
    have := congrArg (List.map Prod.fst) hsh.2
    simpa [List.map_map, Fmap.hv, Function.comp_def] using this

end XotModel
