/-
  Lemmas for C11, part 4: an element's child list in sections (namespaces, attributes, normal),
  what the two adapters select from it, and the reference map's elementary facts.
-/
import XotModel.Lemmas.FmapForest

namespace XotModel
namespace Fmap
open HTree
open Forest (MapKind entryKey mapChildren)

/-! ### The adapters' selections on a child list -/

def isNs (c : HTree) : Bool := c.value.category == .namespace
def isAt (c : HTree) : Bool := c.value.category == .attribute

/-- `A::children` on a bare child list. -/
def kidsOf (k : MapKind) (ks : List HTree) : List HTree :=
  match k with
  | .namespaces => ks.takeWhile isNs
  | .attributes => (ks.dropWhile isNs).takeWhile isAt

theorem mapChildren_eq (k : MapKind) (t : HTree) : mapChildren k t = kidsOf k t.kids := by
  cases k <;> rfl

/-- The category a view's entries have. -/
def kindCat : MapKind → Category
  | .attributes => .attribute
  | .namespaces => .namespace

theorem matches_iff_cat (k : MapKind) (v : Value) : k.matches v = true ↔ v.category = kindCat k := by
  cases k <;> cases v <;> simp [MapKind.matches, Value.category, kindCat]

/-! ### `kidsOrdered` as `Pairwise` -/

def rankLe (a b : HTree) : Prop := a.value.category.rank ≤ b.value.category.rank

theorem kidsOrdered_iff (ks : List HTree) : kidsOrdered ks = true ↔ ks.Pairwise rankLe := by
  induction ks with
  | nil => simp [kidsOrdered]
  | cons a l ih =>
    cases l with
    | nil => simp [kidsOrdered]
    | cons b rest =>
      simp only [kidsOrdered, Bool.and_eq_true, decide_eq_true_eq]
      rw [ih]
      constructor
      · intro ⟨h1, h2⟩
        refine List.pairwise_cons.mpr ⟨?_, h2⟩
        intro x hx
        rcases List.mem_cons.mp hx with rfl | hx
        · exact h1
        · exact Nat.le_trans h1 ((List.pairwise_cons.mp h2).1 x hx)
      · intro h
        have := List.pairwise_cons.mp h
        exact ⟨this.1 b List.mem_cons_self, this.2⟩

/-- A child list cut into its three sections. -/
structure Sect (ks N A S : List HTree) : Prop where
  eq : ks = N ++ A ++ S
  allNs : ∀ x ∈ N, x.value.category = .namespace
  allAt : ∀ x ∈ A, x.value.category = .attribute
  allNm : ∀ x ∈ S, x.value.category = .normal

theorem Sect.ordered {ks N A S : List HTree} (h : Sect ks N A S) : kidsOrdered ks = true := by
  rw [kidsOrdered_iff, h.eq]
  have c1 : ∀ l : List HTree, ∀ c : Category, (∀ x ∈ l, x.value.category = c) → l.Pairwise rankLe := by
    intro l c hc
    apply List.pairwise_of_forall_mem_list
    intro a ha b hb
    simp [rankLe, hc a ha, hc b hb]
  refine List.pairwise_append.mpr ⟨List.pairwise_append.mpr ⟨c1 N _ h.allNs, c1 A _ h.allAt, ?_⟩, c1 S _ h.allNm, ?_⟩
  · intro a ha b hb
    simp [rankLe, h.allNs a ha, h.allAt b hb, Category.rank]
  · intro a ha b hb
    simp only [rankLe, h.allNm b hb, Category.rank]
    rcases List.mem_append.mp ha with ha | ha
    · simp [h.allNs a ha]
    · simp [h.allAt a ha]

theorem isNs_iff (c : HTree) : isNs c = true ↔ c.value.category = .namespace := by
  simp [isNs]
theorem isAt_iff (c : HTree) : isAt c = true ↔ c.value.category = .attribute := by
  simp [isAt]

theorem Sect.kidsOf_ns {ks N A S : List HTree} (h : Sect ks N A S) : kidsOf .namespaces ks = N := by
  have hN : ∀ x ∈ N, isNs x = true := fun x hx => (isNs_iff x).mpr (h.allNs x hx)
  simp only [kidsOf, h.eq, List.append_assoc]
  rw [List.takeWhile_append_of_pos hN]
  suffices List.takeWhile isNs (A ++ S) = [] by simp [this]
  cases A with
  | nil =>
    cases S with
    | nil => rfl
    | cons s S =>
      have := h.allNm s List.mem_cons_self
      simp [isNs, this]
  | cons a A =>
    have := h.allAt a List.mem_cons_self
    simp [isNs, this]

theorem Sect.dropNs {ks N A S : List HTree} (h : Sect ks N A S) : ks.dropWhile isNs = A ++ S := by
  have hN : ∀ x ∈ N, isNs x = true := fun x hx => (isNs_iff x).mpr (h.allNs x hx)
  simp only [h.eq, List.append_assoc]
  rw [List.dropWhile_append_of_pos hN]
  cases A with
  | nil =>
    cases S with
    | nil => rfl
    | cons s S =>
      have := h.allNm s List.mem_cons_self
      simp [isNs, this]
  | cons a A =>
    have := h.allAt a List.mem_cons_self
    simp [isNs, this]

theorem Sect.kidsOf_at {ks N A S : List HTree} (h : Sect ks N A S) : kidsOf .attributes ks = A := by
  have hA : ∀ x ∈ A, isAt x = true := fun x hx => (isAt_iff x).mpr (h.allAt x hx)
  simp only [kidsOf, h.dropNs]
  rw [List.takeWhile_append_of_pos hA]
  cases S with
  | nil => simp
  | cons s S =>
    have := h.allNm s List.mem_cons_self
    simp [isAt, this]

theorem Sect.dropAt {ks N A S : List HTree} (h : Sect ks N A S) :
    (ks.dropWhile isNs).dropWhile isAt = S := by
  have hA : ∀ x ∈ A, isAt x = true := fun x hx => (isAt_iff x).mpr (h.allAt x hx)
  rw [h.dropNs, List.dropWhile_append_of_pos hA]
  cases S with
  | nil => simp
  | cons s S =>
    have := h.allNm s List.mem_cons_self
    simp [isAt, this]

/-- The section of a kind. -/
def Sect.sec (k : MapKind) (N A : List HTree) : List HTree :=
  match k with | .namespaces => N | .attributes => A

theorem Sect.kidsOf {ks N A S : List HTree} (h : Sect ks N A S) (k : MapKind) :
    kidsOf k ks = Sect.sec k N A := by
  cases k
  · exact h.kidsOf_at
  · exact h.kidsOf_ns

theorem mem_takeWhile_true {α : Type} (p : α → Bool) (l : List α) (x : α)
    (hx : x ∈ l.takeWhile p) : p x = true :=
  List.all_eq_true.mp (List.all_takeWhile (l := l) (p := p)) x hx

/-- An ordered child list has the three sections the adapters compute. -/
theorem sect_of_ordered (ks : List HTree) (ho : kidsOrdered ks = true) :
    Sect ks (ks.takeWhile isNs) ((ks.dropWhile isNs).takeWhile isAt)
      ((ks.dropWhile isNs).dropWhile isAt) := by
  rw [kidsOrdered_iff] at ho
  refine ⟨by simp, ?_, ?_, ?_⟩
  · intro x hx
    exact (isNs_iff x).mp (mem_takeWhile_true _ _ _ hx)
  · intro x hx
    exact (isAt_iff x).mp (mem_takeWhile_true _ _ _ hx)
  · -- everything after the first node that is neither is normal
    have hR : (ks.dropWhile isNs).Pairwise rankLe := ho.sublist (List.dropWhile_sublist _)
    have hS : ((ks.dropWhile isNs).dropWhile isAt).Pairwise rankLe := hR.sublist (List.dropWhile_sublist _)
    -- no namespace node after the namespace section
    have noNs : ∀ x ∈ ks.dropWhile isNs, x.value.category ≠ .namespace := by
      intro x hx
      cases hR' : ks.dropWhile isNs with
      | nil => rw [hR'] at hx; cases hx
      | cons a l =>
        have ha : isNs a = false := by
          have := List.head?_dropWhile_not isNs ks
          rw [hR'] at this
          simpa using this
        have ha' : a.value.category ≠ .namespace := by
          intro hc; rw [(isNs_iff a).mpr hc] at ha; cases ha
        rw [hR'] at hx hR
        rcases List.mem_cons.mp hx with rfl | hx
        · exact ha'
        · have := (List.pairwise_cons.mp hR).1 x hx
          intro hc
          simp only [rankLe, hc, Category.rank] at this
          cases hca : a.value.category with
          | «namespace» => exact ha' hca
          | «attribute» => rw [hca] at this; simp at this
          | normal => rw [hca] at this; simp at this
    intro x hx
    cases hS' : (ks.dropWhile isNs).dropWhile isAt with
    | nil => rw [hS'] at hx; cases hx
    | cons a l =>
      have ha : isAt a = false := by
        have := List.head?_dropWhile_not isAt (ks.dropWhile isNs)
        rw [hS'] at this
        simpa using this
      have hmem : ∀ y ∈ a :: l, y ∈ ks.dropWhile isNs := by
        intro y hy
        rw [← hS'] at hy
        exact (List.dropWhile_sublist _).subset hy
      have ha1 : a.value.category ≠ .attribute := by
        intro hc; rw [(isAt_iff a).mpr hc] at ha; cases ha
      have ha2 : a.value.category ≠ .namespace := noNs a (hmem a List.mem_cons_self)
      have haN : a.value.category = .normal := by
        cases hca : a.value.category with
        | «namespace» => exact absurd hca ha2
        | «attribute» => exact absurd hca ha1
        | normal => rfl
      rw [hS'] at hx hS
      rcases List.mem_cons.mp hx with rfl | hx
      · exact haN
      · have := (List.pairwise_cons.mp hS).1 x hx
        simp only [rankLe, haN, Category.rank] at this
        cases hcx : x.value.category with
        | «namespace» => rw [hcx] at this; simp at this
        | «attribute» => rw [hcx] at this; simp at this
        | normal => rfl

/-- Keys of one category among the children = keys of that section. -/
theorem Sect.filter_ns {ks N A S : List HTree} (h : Sect ks N A S) :
    ks.filter (fun k => k.value.category == .namespace) = N := by
  rw [h.eq, List.filter_append, List.filter_append]
  have h1 : N.filter (fun k => k.value.category == .namespace) = N :=
    List.filter_eq_self.mpr (fun x hx => by simp [h.allNs x hx])
  have h2 : A.filter (fun k => k.value.category == .namespace) = [] :=
    List.filter_eq_nil_iff.mpr (fun x hx => by simp [h.allAt x hx])
  have h3 : S.filter (fun k => k.value.category == .namespace) = [] :=
    List.filter_eq_nil_iff.mpr (fun x hx => by simp [h.allNm x hx])
  simp [h1, h2, h3]

theorem Sect.filter_at {ks N A S : List HTree} (h : Sect ks N A S) :
    ks.filter (fun k => k.value.category == .attribute) = A := by
  rw [h.eq, List.filter_append, List.filter_append]
  have h1 : N.filter (fun k => k.value.category == .attribute) = [] :=
    List.filter_eq_nil_iff.mpr (fun x hx => by simp [h.allNs x hx])
  have h2 : A.filter (fun k => k.value.category == .attribute) = A :=
    List.filter_eq_self.mpr (fun x hx => by simp [h.allAt x hx])
  have h3 : S.filter (fun k => k.value.category == .attribute) = [] :=
    List.filter_eq_nil_iff.mpr (fun x hx => by simp [h.allNm x hx])
  simp [h1, h2, h3]

theorem Sect.keysUnique_ns {ks N A S : List HTree} (h : Sect ks N A S) :
    keysUnique .namespace ks = true ↔ (N.map (fun k => entryKey k.value)).Nodup := by
  simp [keysUnique, h.filter_ns]

theorem Sect.keysUnique_at {ks N A S : List HTree} (h : Sect ks N A S) :
    keysUnique .attribute ks = true ↔ (A.map (fun k => entryKey k.value)).Nodup := by
  simp [keysUnique, h.filter_at]

/-! ### The reference map -/

theorem omInsert_split {β : Type} (l1 l2 : OMap β) (k : Nat) (v0 v : β) (h : ∀ a ∈ l1, a.1 ≠ k) :
    omInsert (l1 ++ (k, v0) :: l2) k v = l1 ++ (k, v) :: l2 := by
  induction l1 with
  | nil => simp [omInsert]
  | cons a l1 ih =>
    obtain ⟨ka, va⟩ := a
    have hka : ka ≠ k := h (ka, va) List.mem_cons_self
    simp only [List.cons_append, omInsert, if_neg hka]
    rw [ih (fun a ha => h a (List.mem_cons_of_mem _ ha))]

theorem omInsert_absent {β : Type} (l : OMap β) (k : Nat) (v : β) (h : ∀ a ∈ l, a.1 ≠ k) :
    omInsert l k v = l ++ [(k, v)] := by
  induction l with
  | nil => simp [omInsert]
  | cons a l ih =>
    obtain ⟨ka, va⟩ := a
    have hka : ka ≠ k := h (ka, va) List.mem_cons_self
    simp only [List.cons_append, omInsert, if_neg hka]
    rw [ih (fun a ha => h a (List.mem_cons_of_mem _ ha))]

theorem omRemove_split {β : Type} (l1 l2 : OMap β) (k : Nat) (v0 : β) (h : ∀ a ∈ l1, a.1 ≠ k) :
    omRemove (l1 ++ (k, v0) :: l2) k = l1 ++ l2 := by
  induction l1 with
  | nil => simp [omRemove]
  | cons a l1 ih =>
    obtain ⟨ka, va⟩ := a
    have hka : ka ≠ k := h (ka, va) List.mem_cons_self
    simp only [List.cons_append, omRemove, if_neg hka]
    rw [ih (fun a ha => h a (List.mem_cons_of_mem _ ha))]

theorem omRemove_absent {β : Type} (l : OMap β) (k : Nat) (h : ∀ a ∈ l, a.1 ≠ k) :
    omRemove l k = l := by
  induction l with
  | nil => simp [omRemove]
  | cons a l ih =>
    obtain ⟨ka, va⟩ := a
    have hka : ka ≠ k := h (ka, va) List.mem_cons_self
    simp only [omRemove, if_neg hka]
    rw [ih (fun a ha => h a (List.mem_cons_of_mem _ ha))]

theorem omModify_split {β : Type} (l1 l2 : OMap β) (k : Nat) (v0 : β) (g : β → β)
    (h : ∀ a ∈ l1, a.1 ≠ k) :
    omModify (l1 ++ (k, v0) :: l2) k g = l1 ++ (k, g v0) :: l2 := by
  induction l1 with
  | nil => simp [omModify]
  | cons a l1 ih =>
    obtain ⟨ka, va⟩ := a
    have hka : ka ≠ k := h (ka, va) List.mem_cons_self
    simp only [List.cons_append, omModify, if_neg hka]
    rw [ih (fun a ha => h a (List.mem_cons_of_mem _ ha))]

end Fmap
end XotModel
