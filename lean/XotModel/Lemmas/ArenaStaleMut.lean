/-
  XotModel.Lemmas.ArenaStaleMut — `detach`, `remove`, `remove_subtree` and the iterators called
  with an id whose slot is FREE.  None of these functions looks at a stamp: they index the slot
  vector with `id.index0()` and work on whatever the slot holds.  A freed slot keeps the pointers it
  had when it was freed (`free_node` overwrites `data` and `stamp` only):

    * `Unlinked`: `parent`, `previous_sibling`, `next_sibling` are `None` — what `detach` leaves, i.e.
      every slot freed by `remove`, and the ROOT of a subtree freed by `remove_subtree`;
    * `Cleared`: all five pointers are `None` — every slot freed by `remove` (its children were
      transplanted), every childless root freed by `remove_subtree`.
    The other slots freed by `remove_subtree` (the proper descendants) keep STALE pointers to their
    former parent, siblings and children.

  Proved here, for every arena (no invariant needed unless stated):
    * `detach` of an id whose slot is `Unlinked` (free or not): `Ok`, the arena literally unchanged;
    * `detach` of any id whose slot's three neighbour pointers are in range and not the slot itself:
      `Ok`, and only pointers are written (`MetaEq`: stamps, payloads, free list as before — every id
      keeps its class); WHICH pointers is `detach_eq` (`Lemmas/ArenaDetach.lean`): with stale pointers
      the former neighbours' slots are rewritten, whoever occupies them now (closed example in
      `Props/C04`: a live node loses its children);
    * `remove` / `remove_subtree` of an id whose slot is free and `Cleared`, on a well-formed arena:
      no refusal and no panic — `free_node` runs a second time on the slot (DOUBLE FREE): the stamp
      `c < 0` becomes `-c - 1 ≥ 0` while the payload stays `NextFree`, the slot is appended to the free
      list again.  The arena reached is NOT well-formed, and the id that was freed last
      (`stamp = -c - 1`) is reported NOT removed again;
    * the iterators from an id whose slot is `Cleared`: no refusal, no panic — they yield the id itself
      (`ancestors`, `following_siblings`, `preceding_siblings`, `descendants`, `traverse`,
      `reverse_traverse`) and no children.
-/
import XotModel.Lemmas.ArenaStaleChecked

namespace XotModel
namespace Arena

/-- `parent`, `previous_sibling`, `next_sibling` are `None`. -/
def Slot.Unlinked (s : Slot) : Prop := s.parent = none ∧ s.prev = none ∧ s.next = none

/-- All five pointers are `None`. -/
def Slot.Cleared (s : Slot) : Prop := s.Unlinked ∧ s.first = none ∧ s.last = none

instance (s : Slot) : Decidable s.Unlinked := by unfold Slot.Unlinked; infer_instance
instance (s : Slot) : Decidable s.Cleared := by unfold Slot.Cleared; infer_instance

theorem mod_fix (a : Arena) (i : Nat) (f : Slot → Slot) (s : Slot) (hs : a.slot i = some s) (hf : f s = s) :
    a.mod i f = a := by
  unfold mod
  have : a.nodes.modify i f = a.nodes := by
    apply List.ext_getElem?
    intro j
    rw [List.getElem?_modify]
    by_cases hj : i = j
    · subst hj
      unfold slot at hs
      simp [hs, hf]
    · simp [hj]
  rw [this]

/-- `detach` of an id whose slot has no parent and no sibling pointers writes back what is there. -/
theorem detach_unlinked (a : Arena) (x : NodeId) (s : Slot) (hs : a.slot x.index0 = some s) (hu : s.Unlinked) :
    detach a x = .done a () := by
  obtain ⟨h1, h2, h3⟩ := hu
  have e := detach_eq a x s hs (by rw [h1]; exact InRange.none a) (by rw [h2]; exact InRange.none a)
    (by rw [h3]; exact InRange.none a) (by rw [h1]; intro id h; cases h) (by rw [h2]; intro id h; cases h)
    (by rw [h3]; intro id h; cases h)
  rw [e, h1, h2, h3]
  have hun : ∀ b : Arena, unlink b none none none = b := fun b => by simp [unlink]
  rw [hun, mod_mod_same]
  rw [mod_fix a x.index0 _ s hs (by
    cases s
    simp only [Function.comp, clearSib] at *
    simp_all)]

/-- `detach` of ANY id whose slot exists and whose three neighbour pointers are in range and point to
    other slots: it answers `Ok` and writes pointers only. -/
theorem detach_metaEq (a : Arena) (x : NodeId) (s : Slot) (hs : a.slot x.index0 = some s)
    (hp : InRange a s.parent) (hv : InRange a s.prev) (hn : InRange a s.next)
    (h1 : ∀ id, s.parent = some id → id.index0 ≠ x.index0) (h2 : ∀ id, s.prev = some id → id.index0 ≠ x.index0)
    (h3 : ∀ id, s.next = some id → id.index0 ≠ x.index0) :
    ∃ a', detach a x = .done a' () ∧ MetaEq a a' := by
  refine ⟨_, detach_eq a x s hs hp hv hn h1 h2 h3, ?_⟩
  exact (MetaEq.mod a _ (f := clearSib) (fun s => ⟨rfl, rfl⟩)).trans
    ((MetaEq.unlink _ _ _ _).trans (MetaEq.mod _ _ (fun s => ⟨rfl, rfl⟩)))

/-- Pointer-only changes keep every id in its class. -/
theorem MetaEq.classify {a a' : Arena} (h : MetaEq a a') (x : NodeId) : a'.classify x = a.classify x := by
  unfold Arena.classify
  have h1 := h.stamp x.index0
  unfold slot at h1
  cases hs : a.nodes[x.index0]? with
  | none =>
    rw [hs] at h1
    cases hs' : a'.nodes[x.index0]? with
    | none => rfl
    | some s' => rw [hs'] at h1; simp at h1
  | some s =>
    rw [hs] at h1
    cases hs' : a'.nodes[x.index0]? with
    | none => rw [hs'] at h1; simp at h1
    | some s' =>
      rw [hs'] at h1
      simp only [Option.map_some, Option.some.injEq] at h1
      simp only [h1]

theorem asRemoved_of_neg (t : Int) (h0 : -32767 ≤ t) (h1 : t < 0) : Stamp.asRemoved t = -t - 1 := by
  unfold Stamp.asRemoved
  rw [if_pos (by omega), wrap16_id (-t) (by omega) (by omega), wrap16_id _ (by omega) (by omega)]

/-- `free_node` on a slot that is ALREADY free (well-formed arena): no panic; the stamp `c < 0`
    becomes `-c - 1 ≥ 0`, the payload stays a free-list link, the pointers stay; the other slots keep
    their stamps. -/
theorem Rep.freeNode_freed {a : Arena} {g : Shape} (r : Rep a g) (x : NodeId) (s : Slot)
    (hs : a.slot x.index0 = some s) (hn : s.stamp < 0) :
    ∃ a' n, Arena.freeNode a x = .done a' () ∧
      a'.slot x.index0 = some { s with data := .nextFree n, stamp := -s.stamp - 1 } ∧
      (∀ j, j ≠ x.index0 → (a'.slot j).map (·.stamp) = (a.slot j).map (·.stamp)) ∧
      a'.nodes.length = a.nodes.length := by
  obtain ⟨hlo, _⟩ := r.stampRange _ s hs
  have hst := asRemoved_of_neg s.stamp hlo hn
  -- the free list is not empty: its last element is a slot
  have hmem : x.index0 ∈ g.free := (r.free.mem _).mpr ⟨s, hs, hn⟩
  obtain ⟨l, hl⟩ : ∃ l, g.free.getLast? = some l := by
    cases h : g.free.getLast? with
    | some l => exact ⟨l, rfl⟩
    | none => rw [List.getLast?_eq_none_iff.mp h] at hmem; cases hmem
  obtain ⟨t, ht, _⟩ := (r.free.mem l).mp (List.mem_of_getLast? hl)
  have hlast : a.lastFree = some l := by rw [r.free.last, hl]
  let node' : Slot := { s with data := .nextFree none, stamp := Stamp.asRemoved s.stamp }
  have hreuse : Stamp.reuseable node'.stamp = true := by
    simp only [Stamp.reuseable, decide_eq_true_eq]; show Stamp.asRemoved s.stamp > -32768; omega
  have hb1 : ∀ j, (a.setSlot x.index0 node').slot j = if x.index0 = j then some node' else a.slot j :=
    fun j => slot_setSlot a x.index0 j s node' hs
  by_cases hli : l = x.index0
  · -- the slot is the last of the free list: its link now points to itself
    have hcomp : Arena.freeNode a x = .done { ((a.setSlot x.index0 node').setSlot l
        { node' with data := .nextFree (some x.index0) }) with lastFree := some x.index0 } () := by
      unfold Arena.freeNode
      have h1 : a.nodes[x.index0]? = some s := hs
      simp only [h1]
      rw [if_pos hreuse]
      have h2 : (a.setSlot x.index0 node').lastFree = some l := hlast
      rw [h2]
      have h3 : (a.setSlot x.index0 node').nodes[l]? = some node' := by
        have := hb1 l; unfold slot at this; rw [this, if_pos hli.symm]
      simp only []
      rw [show (a.setSlot x.index0 { s with data := Data.nextFree none, stamp := Stamp.asRemoved s.stamp }).nodes[l]? =
        some node' from h3]
    refine ⟨_, some x.index0, hcomp, ?_, ?_, ?_⟩
    · show (((a.setSlot x.index0 node').setSlot l _)).slot x.index0 = _
      rw [slot_setSlot _ l x.index0 node' _ (by rw [hb1, if_pos hli.symm]), if_pos hli]
      simp only [node', hst]
    · intro j hj
      show ((((a.setSlot x.index0 node').setSlot l _)).slot j).map _ = _
      rw [slot_setSlot _ l j node' _ (by rw [hb1, if_pos hli.symm]), if_neg (by rw [hli]; exact Ne.symm hj), hb1,
        if_neg (Ne.symm hj)]
    · simp [setSlot]
  · -- another slot is the last of the free list: it is linked to this one
    have htl : (a.setSlot x.index0 node').slot l = some t := by rw [hb1, if_neg (Ne.symm hli)]; exact ht
    have hcomp : Arena.freeNode a x = .done { ((a.setSlot x.index0 node').setSlot l
        { t with data := .nextFree (some x.index0) }) with lastFree := some x.index0 } () := by
      unfold Arena.freeNode
      have h1 : a.nodes[x.index0]? = some s := hs
      simp only [h1]
      rw [if_pos hreuse]
      have h2 : (a.setSlot x.index0 node').lastFree = some l := hlast
      rw [h2]
      have h3 : (a.setSlot x.index0 node').nodes[l]? = some t := htl
      simp only []
      rw [show (a.setSlot x.index0 { s with data := Data.nextFree none, stamp := Stamp.asRemoved s.stamp }).nodes[l]? =
        some t from h3]
    refine ⟨_, none, hcomp, ?_, ?_, ?_⟩
    · show (((a.setSlot x.index0 node').setSlot l _)).slot x.index0 = _
      rw [slot_setSlot _ l x.index0 t _ htl, if_neg hli, hb1, if_pos rfl]
      simp only [node', hst]
    · intro j hj
      show ((((a.setSlot x.index0 node').setSlot l _)).slot j).map _ = _
      rw [slot_setSlot _ l j t _ htl]
      by_cases hlj : l = j
      · rw [if_pos hlj, ← hlj, ht]; rfl
      · rw [if_neg hlj, hb1, if_neg (Ne.symm hj)]
    · simp [setSlot]

/-- An arena with a slot whose stamp is not negative but whose payload is a free-list link is not
    well-formed. -/
theorem not_wf_of_link {a : Arena} {i : Nat} {s : Slot} {n : Option Nat} (hs : a.slot i = some s) (h0 : 0 ≤ s.stamp)
    (hd : s.data = .nextFree n) : ¬ Wf a := by
  rintro ⟨g, r⟩
  obtain ⟨v, hv⟩ := (r.dataLive i s hs).mp h0
  rw [hd] at hv; cases hv

/-- `remove` of an id whose slot is `Cleared`, on any arena: exactly `free_node`. -/
theorem remove_cleared (a : Arena) (x : NodeId) (s : Slot) (hs : a.slot x.index0 = some s) (hc : s.Cleared) :
    remove a x = freeNode a x := by
  unfold remove
  rw [rd_some _ _ _ _ hs, hc.2.1, hc.2.2, detach_unlinked a x s hs hc.1]
  simp

/-- `remove_subtree` of an id whose slot is `Cleared`: `free_node`, then the loop ends at once. -/
theorem Rep.removeSubtree_cleared_freed {a : Arena} {g : Shape} (r : Rep a g) (x : NodeId) (s : Slot)
    (hs : a.slot x.index0 = some s) (hn : s.stamp < 0) (hc : s.Cleared) :
    Arena.removeSubtree a x = Arena.freeNode a x := by
  obtain ⟨a', n, hf, hs', _, hlen⟩ := r.freeNode_freed x s hs hn
  unfold Arena.removeSubtree
  rw [detach_unlinked a x s hs hc.1]
  simp only [Step.bind_done]
  have hfu : a.fuel = (a.nodes.length - 1) + 1 + 1 := by have := lt_of_slot hs; unfold fuel; omega
  rw [hfu]
  unfold removeSubtreeLoop
  simp only []
  rw [hf]
  simp only [Step.bind_done]
  rw [rd_some _ _ _ _ hs']
  simp only [hc.2.1, hc.1.2.2, hc.1.1, Option.or_none]
  have hfu' : a'.fuel = a'.nodes.length + 1 := rfl
  rw [hfu']
  unfold findAncestorWithNext
  simp only [Step.bind_done]
  unfold removeSubtreeLoop
  rfl

/-- DOUBLE FREE.  `remove` and `remove_subtree` of an id whose slot is free and `Cleared`, on a
    well-formed arena: `Ok`; the slot's stamp `c` becomes `-c - 1 ≥ 0` with the free-list link as
    payload; the arena reached is not well-formed; the id with stamp `-c - 1` (the one that was
    removed last from this slot) is no longer reported removed, every other id of the slot still is. -/
theorem Rep.remove_freed_cleared {a : Arena} {g : Shape} (r : Rep a g) (x : NodeId) (s : Slot)
    (hs : a.slot x.index0 = some s) (hn : s.stamp < 0) (hc : s.Cleared) :
    ∃ a', Arena.remove a x = .done a' () ∧ Arena.removeSubtree a x = .done a' () ∧ ¬ Wf a' ∧
      Arena.isRemoved a' x = .done a' (decide (x.stamp ≠ -s.stamp - 1)) ∧
      (∀ j, j ≠ x.index0 → (a'.slot j).map (·.stamp) = (a.slot j).map (·.stamp)) := by
  obtain ⟨a', n, hf, hs', hoth, _⟩ := r.freeNode_freed x s hs hn
  refine ⟨a', by rw [remove_cleared a x s hs hc, hf], by rw [r.removeSubtree_cleared_freed x s hs hn hc, hf],
    not_wf_of_link hs' (by show 0 ≤ -s.stamp - 1; omega) rfl, ?_, hoth⟩
  unfold Arena.isRemoved
  rw [rd_some _ _ _ _ hs']
  simp only [bne, ne_eq]
  congr 1
  by_cases h : x.stamp = -s.stamp - 1
  · simp [h]
  · have : ¬ (-s.stamp - 1 = x.stamp) := fun e => h e.symm
    simp [h, this]

/-! ### The iterators from an id whose slot is `Cleared` -/

theorem iterators_cleared (a : Arena) (x : NodeId) (s : Slot) (hs : a.slot x.index0 = some s) (hc : s.Cleared)
    (n : Nat) :
    children a x n = .done a [] ∧ reverseChildren a x n = .done a [] ∧
    ancestors a x (n + 1) = .done a [x] ∧ followingSiblings a x (n + 1) = .done a [x] ∧
    precedingSiblings a x (n + 1) = .done a [x] ∧
    traverse a x (n + 2) = .done a [.start x, .end x] ∧ reverseTraverse a x (n + 2) = .done a [.end x, .start x] ∧
    descendants a x (n + 2) = .done a [x] := by
  obtain ⟨⟨h1, h2, h3⟩, h4, h5⟩ := hc
  have hg : a.get x = some s := hs
  have wk0 : ∀ (f : Slot → Option NodeId) m, walk a f m none = .done a [] := fun f m => by cases m <;> rfl
  have wt0 : ∀ (f : Slot → Option NodeId) m t, walkTo a f m none t = .done a [] := fun f m t => by
    cases m <;> cases t <;> rfl
  have tg0 : ∀ m, traverseGo a x m none = .done a [] := fun m => by cases m <;> rfl
  have rg0 : ∀ m, reverseTraverseGo a x m none = .done a [] := fun m => by cases m <;> rfl
  have ht : traverse a x (n + 2) = .done a [.start x, .end x] := by
    unfold traverse traverseGo
    simp only [reduceCtorEq, if_false, nextTraverse]
    rw [rd_some _ _ _ _ hs, h4]
    simp only []
    unfold traverseGo
    simp only [if_true, tg0, Step.bind_done]
  refine ⟨?_, ?_, ?_, ?_, ?_, ht, ?_, ?_⟩
  · unfold children
    rw [rd_some _ _ _ _ hs, h4, h5, wt0]
  · unfold reverseChildren
    rw [rd_some _ _ _ _ hs, h5, wk0]
  · unfold ancestors walk
    simp only []
    rw [rd_some _ _ _ _ hs, h1, wk0]; rfl
  · unfold followingSiblings parentField
    rw [hg]
    simp only [h1]
    unfold walkTo
    simp only []
    rw [rd_some _ _ _ _ hs, h3, wt0]; rfl
  · unfold precedingSiblings parentField
    rw [hg]
    simp only [h1]
    unfold walkTo
    simp only []
    rw [rd_some _ _ _ _ hs, h2, wt0]; rfl
  · unfold reverseTraverse reverseTraverseGo
    simp only [reduceCtorEq, if_false, prevTraverse]
    rw [rd_some _ _ _ _ hs, h5]
    simp only []
    unfold reverseTraverseGo
    simp only [if_true, rg0, Step.bind_done]
  · unfold descendants
    rw [ht]
    simp [NodeEdge.startNode?]

end Arena
end XotModel
