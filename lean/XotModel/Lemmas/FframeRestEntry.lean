/-
  FframeRestEntry — the `get?`-form frame of `append_attribute_node` / `append_namespace_node`
  (`Forest.appendEntryNode`) and of `any_append`.  Key present in the target element: the existing entry node takes
  the value (it is an entry node of that kind of the target: NOT in `XCall.writtenParents`, see `writtenParents2`);
  the given node stays where it is.  Key absent: the node is detached (a leaf child of another element, or a
  parentless leaf) and placed at the end of the view.
-/
import XotModel.Lemmas.FframeRestClear
import XotModel.Lemmas.FmapHistStep
import XotModel.Lemmas.FanyorderRun

namespace XotModel
open HTree Spec PairAll
open Forest (MapKind)

/-- Shallow equality (value, children's handles and values) gives the frame. -/
theorem getFrame_of_shallow {f f' : Forest} {z : Nat}
    (h : (f'.get? z).map Fmap.shallow = (f.get? z).map Fmap.shallow) : GetFrame f f' z := by
  intro t ht
  rw [ht] at h
  cases hg' : f'.get? z with
  | none => rw [hg'] at h; cases h
  | some t' =>
    rw [hg'] at h
    simp only [Option.map_some, Option.some.injEq, Fmap.shallow, Prod.mk.injEq] at h
    refine ⟨t', rfl, h.1, ?_⟩
    have := congrArg (List.map Prod.fst) h.2
    simpa [List.map_map, Fmap.hv, Function.comp_def] using this

theorem mem_sec_of_cat {ks N A S : List HTree} (h : Fmap.Sect ks N A S) (k : MapKind) {t : HTree}
    (ht : t ∈ N ++ A ++ S) (hc : t.value.category = Fmap.kindCat k) : t ∈ Fmap.Sect.sec k N A := by
  rcases List.mem_append.1 ht with h1 | h1
  · rcases List.mem_append.1 h1 with h2 | h2
    · have := h.allNs t h2
      cases k
      · rw [this] at hc; cases hc
      · exact h2
    · have := h.allAt t h2
      cases k
      · exact h2
      · rw [this] at hc; cases hc
  · have := h.allNm t h1
    rw [this] at hc
    cases k <;> cases hc

theorem sec_handle_mem_entryHandles {f : Forest} {e nm : Nat} {N A S : List HTree} (h : Fmap.MInv f e nm N A S)
    (k : MapKind) {c : HTree} (hc : c ∈ Fmap.Sect.sec k N A) : c.handle ∈ f.entryHandles k e := by
  have hget : f.get? e = some (.node e (.element nm) (Fmap.preK k N ++ Fmap.Sect.sec k N A ++ Fmap.postK k A S)) := by
    rw [← Fmap.split_kids]; exact h.loc.get
  unfold Forest.entryHandles
  rw [hget]
  refine List.mem_map.2 ⟨c, List.mem_filter.2 ⟨?_, ?_⟩, rfl⟩
  · exact List.mem_append_left _ (List.mem_append_right _ hc)
  · exact (Fmap.matches_iff_cat k c.value).2 (h.sect.sec_cat k c hc)

/-- Key present: the call is `setValue` on the existing entry node. -/
theorem appendEntryNode_present {f : Forest} {k : MapKind} {p c : Nat} {v : Value} {n : HTree}
    (he : f.isElement p = true) (hval : f.value? c = some v) (hm : k.matches v = true)
    (hn : f.mapGetNode k p (Forest.entryKey v) = some n) :
    (f.appendEntryNode k p c).1 = f.setValue n.handle (Forest.entryUpdate n.value v) := by
  unfold Forest.appendEntryNode
  rw [he]
  simp only [Bool.not_true, Bool.false_eq_true, if_false, hval, hm]
  unfold Forest.mapInsertNode
  simp only [hval, hm, Bool.not_true, Bool.false_eq_true, if_false, hn]

/-- A parentless leaf, key absent. -/
theorem getFrame_appendEntryNode_root {f : Forest} (inv : f.Inv) {k : MapKind} {p c : Nat} {v : Value}
    (he : f.isElement p = true) (hm : k.matches v = true) (hroot : HTree.node c v [] ∈ f.roots)
    (habs : f.mapGetNode k p (Forest.entryKey v) = none) {z : Nat} (hzp : z ≠ p) (hzc : z ≠ c) :
    GetFrame f (f.appendEntryNode k p c).1 z := by
  obtain ⟨nm, N, A, S, h⟩ := Fmap.minv_of_inv f p inv he
  have hne := Fmap.leafRoot_ne_elem h k c v hm hroot
  obtain ⟨heq, _⟩ := Fmap.appendEntryNode_absent h k c v hm hroot habs
  rw [heq]
  have hl0 : Fmap.Located { f with roots := Fmap.rootsWithout f c } p (.element nm)
      (Fmap.preK k N ++ Fmap.Sect.sec k N A ++ Fmap.postK k A S) := by
    rw [← Fmap.split_kids]; exact Fmap.located_without h.loc c v hroot hne
  apply getFrame_of_shallow
  have hH : (findList? z (Fmap.preK k N ++ (Fmap.Sect.sec k N A ++ [HTree.node c v []]) ++ Fmap.postK k A S)).map
        Fmap.shallow =
      (findList? z (Fmap.preK k N ++ Fmap.Sect.sec k N A ++ Fmap.postK k A S)).map Fmap.shallow := by
    have : Fmap.preK k N ++ (Fmap.Sect.sec k N A ++ [HTree.node c v []]) ++ Fmap.postK k A S =
        (Fmap.preK k N ++ Fmap.Sect.sec k N A) ++ [HTree.node c v []] ++ Fmap.postK k A S := by simp
    rw [this, Fmap.findList?_skip_leaves z _ [HTree.node c v []] _ (by
      intro x hx; rw [List.mem_singleton.1 hx]; rfl) (by
      intro hx
      simp only [List.map_cons, List.map_nil, List.mem_singleton] at hx
      exact hzc hx)]
  have hsh := Fmap.shallow_findList?_withKids p z (.element nm) _ _ hzp hH (Fmap.rootsWithout f c) hl0.nodup hl0.get
  show (findList? z (Fmap.withKids (Fmap.rootsWithout f c) p _)).map Fmap.shallow = (findList? z f.roots).map _
  unfold Fmap.withKids
  rw [hsh]
  -- dropping the parentless leaf `c`
  congr 1
  unfold Fmap.rootsWithout
  exact Fmap.find?_leafRoot_filter f.roots h.loc.nodup c z v hroot hzc

/-- The entry handles of an element are a function of its shallow view. -/
theorem entryHandles_of_shallow {f f' : Forest} {p : Nat} (k : MapKind)
    (h : (f'.get? p).map Fmap.shallow = (f.get? p).map Fmap.shallow) :
    f'.entryHandles k p = f.entryHandles k p := by
  unfold Forest.entryHandles
  cases hg : f.get? p with
  | none =>
    rw [hg] at h
    cases hg' : f'.get? p with
    | none => rfl
    | some t' => rw [hg'] at h; cases h
  | some t =>
    rw [hg] at h
    cases hg' : f'.get? p with
    | none => rw [hg'] at h; cases h
    | some t' =>
      rw [hg'] at h
      simp only [Option.map_some, Option.some.injEq, Fmap.shallow, Prod.mk.injEq] at h
      have key : ∀ L : List HTree, (L.filter (fun c => k.matches c.value)).map (·.handle) =
          ((L.map Fmap.hv).filter (fun q => k.matches q.2)).map (·.1) := by
        intro L
        induction L with
        | nil => rfl
        | cons a L ih =>
          simp only [List.filter_cons, List.map_cons, Fmap.hv]
          split <;> simp [ih, Fmap.hv]
      show (t'.kids.filter _).map _ = (t.kids.filter _).map _
      rw [key, key, h.2]

theorem isElement_of_shallow {f f' : Forest} {p : Nat}
    (h : (f'.get? p).map Fmap.shallow = (f.get? p).map Fmap.shallow) : f'.isElement p = f.isElement p := by
  unfold Forest.isElement Forest.value?
  cases hg : f.get? p with
  | none =>
    rw [hg] at h
    cases hg' : f'.get? p with
    | none => rfl
    | some t' => rw [hg'] at h; cases h
  | some t =>
    rw [hg] at h
    cases hg' : f'.get? p with
    | none => rw [hg'] at h; cases h
    | some t' =>
      rw [hg'] at h
      simp only [Option.map_some, Option.some.injEq, Fmap.shallow, Prod.mk.injEq] at h
      simp only [Option.map_some, h.1]

/-- What an accepted `append_*_node` has checked. -/
theorem appendEntryNode_ok_unpack {f : Forest} {k : MapKind} {p c : Nat}
    (hok : (f.appendEntryNode k p c).2.1 = .ok) :
    f.isElement p = true ∧ ∃ v, f.value? c = some v ∧ k.matches v = true := by
  unfold Forest.appendEntryNode at hok
  cases he : f.isElement p with
  | false => rw [he] at hok; simp at hok
  | true =>
    rw [he] at hok
    simp only [Bool.not_true, Bool.false_eq_true, if_false] at hok
    cases hv : f.value? c with
    | none => rw [hv] at hok; simp at hok
    | some v =>
      rw [hv] at hok
      simp only at hok
      cases hm : k.matches v with
      | false => rw [hm] at hok; simp at hok
      | true => exact ⟨rfl, v, rfl, hm⟩

/-- **The frame of `append_attribute_node` / `append_namespace_node`.** -/
theorem getFrame_appendEntryNode {f : Forest} (inv : f.Inv) {k : MapKind} {p c : Nat} {t : HTree}
    (hok : (f.appendEntryNode k p c).2.1 = .ok) (hgc : f.get? c = some t) {z : Nat}
    (hwo : z ∉ f.siteW (f.parent? c)) (hzp : z ≠ p) (h3 : z ∉ handles t)
    (hze : z ∉ f.entryHandles k p) : GetFrame f (f.appendEntryNode k p c).1 z := by
  have nd := inv.nodup
  obtain ⟨he, v, hval, hm⟩ := appendEntryNode_ok_unpack hok
  have htv : t.value = v := by
    unfold Forest.value? at hval
    rw [hgc] at hval
    exact Option.some.inj hval
  have htc : t.handle = c := (findList?_some f.roots t hgc).1
  have hzc : z ≠ c := fun e => h3 (by rw [e, ← htc]; exact fs_handle_mem_handles t)
  obtain ⟨nm, N, A, S, h⟩ := Fmap.minv_of_inv f p inv he
  cases hn : f.mapGetNode k p (Forest.entryKey v) with
  | some n =>
    rw [appendEntryNode_present he hval hm hn, setValue_eq_spec]
    apply getFrame_specSetValue nd
    intro e
    apply hze
    rw [e]
    exact sec_handle_mem_entryHandles h k (Fmap.getNode_mem_sec h k _ n hn)
  | none =>
    have hcat : t.value.category = Fmap.kindCat k := by rw [htv]; exact (Fmap.matches_iff_cat k v).1 hm
    rcases Forest.root_or_ctx hgc with hroot | ⟨cx, hctx⟩
    · have hleaf := Fmap.leafRoot_of_inv f inv k c v hroot hval hm
      exact getFrame_appendEntryNode_root inv he hm hleaf hn hzp hzc
    · obtain ⟨e0, v2, so⟩ := SiteAt.of_ctx nd hctx
      have hself : cx.self = t := by
        have := Forest.get?_of_ctx nd hctx
        rw [hgc] at this
        exact (Option.some.inj this).symm
      obtain ⟨e2, l, k0, r⟩ := cx
      simp only at e0 so hself
      subst hself
      have hpar : f.parent? c = some e2 := Forest.parent?_of_ctx hctx
      have hloc2 : Fmap.Located f e2 v2 (l ++ k0 :: r) := ⟨nd, so.kids⟩
      -- the entry node is a leaf
      have hvalid := (validTree_node (so.valid inv.valid)).2.2.2
      have hvc := Fmap.validList_mem' _ _ hvalid k0 (by simp)
      have hleaf : k0.kids = [] := Fmap.entry_leaf _ k0 hvc (by rw [hcat]; exact Fmap.kindCat_ne_normal k)
      have a : Fmap.Attached f e2 v2 l r k0 := ⟨hloc2, hleaf⟩
      have hne : p ≠ e2 := by
        intro e
        subst e
        have hk : l ++ k0 :: r = N ++ A ++ S := by
          have := so.kids
          rw [h.loc.get] at this
          injection (Option.some.inj this) with _ _ e3
          exact e3.symm
        have hmem : k0 ∈ Fmap.Sect.sec k N A := mem_sec_of_cat h.sect k (by rw [← hk]; simp) hcat
        rw [h.getNode k] at hn
        have := List.find?_eq_none.1 hn k0 hmem
        rw [htv] at this
        simp at this
      have hmk : k.matches k0.value = true := by rw [htv]; exact hm
      have hn' : f.mapGetNode k p (Forest.entryKey k0.value) = none := by rw [htv]; exact hn
      have heq := Fmap.appendEntryNode_attached_eq h a hne k hmk hn'
      rw [htc] at heq
      rw [heq]
      -- the detachment
      have hdet := Fmap.detach_child hloc2 (by rw [hcat]; exact Fmap.kindCat_ne_normal k)
      have hfd : (f.detach c).1 = a.fd := by rw [← htc, hdet]; rfl
      have inv1 : a.fd.Inv := by rw [← hfd]; exact Forest.detach_inv inv c
      have hze2 : z ≠ e2 := by
        rw [hpar] at hwo
        exact ne_of_not_mem_siteW hwo
      have g1 : GetFrame f a.fd z := getFrame_of_shallow (a.shallow_eq z hze2 (by rw [htc]; exact fun e => hzc e.symm))
      have hpc : k0.handle ≠ p := by
        rw [htc]
        intro e
        rw [e, h.loc.get] at hgc
        have := Option.some.inj hgc
        rw [← this] at hcat
        cases k <;> simp [HTree.value, Value.category, Fmap.kindCat] at hcat
      have hshp := a.shallow_eq p hne hpc
      have he1 : a.fd.isElement p = true := by rw [isElement_of_shallow hshp]; exact he
      have hze1 : z ∉ a.fd.entryHandles k p := by rw [entryHandles_of_shallow k hshp]; exact hze
      have hroot1 : HTree.node c v [] ∈ a.fd.roots := by
        have := a.root_mem
        rw [htc, htv] at this
        exact this
      have hval1 : a.fd.value? c = some v := by
        simp [Forest.value?, Fmap.leafRoot_get a.fd a.fd_nodup c v hroot1, HTree.value]
      cases hn1 : a.fd.mapGetNode k p (Forest.entryKey v) with
      | none => exact g1.trans (getFrame_appendEntryNode_root inv1 he1 hm hroot1 hn1 hzp hzc)
      | some n1 =>
        obtain ⟨nm1, N1, A1, S1, h1⟩ := Fmap.minv_of_inv a.fd p inv1 he1
        rw [appendEntryNode_present he1 hval1 hm hn1, setValue_eq_spec]
        apply g1.trans
        apply getFrame_specSetValue inv1.nodup
        intro e
        apply hze1
        rw [e]
        exact sec_handle_mem_entryHandles h1 k (Fmap.getNode_mem_sec h1 k _ n1 hn1)

end XotModel
