/-
  XotModel.Lemmas.LexSlice — the slice theorem of the reference tokenizer, for ALL inputs
  (well-formed or not): every span of every token of `lexDocument s` / `lexFragment s` is a
  slice of `s` at its byte offset, a reported error position is a char boundary of `s`, prefixes
  abut their local names, attributes and `>` / `/>` occur only inside start tags — i.e. the
  token-shape contract `TokenShape` (Model/TokenShape.lean) holds of the tokenizer's output —
  and in document mode there is no stray close tag.

  Loop induction (`fun_induction lexLoop`) over the step analysis of LexSliceStep.lean.
-/
import XotModel.Lemmas.LexSliceStep

namespace XotModel.Lex.Slice

open XotModel.Lex.Stream

/-! ### What a token step delivers -/

theorem TokStep.good {src : Str} {tk tk' : Tokenizer} {t : Token} (hw : SWf src tk.stream)
    (h : TokStep tk t tk') : t.All (StrSpan.SliceOf src) ∧ t.Abuts := by
  cases h with
  | decl _ hr => exact ⟨(parseDeclaration_good hw hr).all, (parseDeclaration_good hw hr).abuts⟩
  | doctype _ _ hr _ =>
    exact ⟨(parseDoctype_good hw hr).1.all, (parseDoctype_good hw hr).1.abuts⟩
  | entity _ hr => exact ⟨(parseEntityDecl_good hw hr).all, (parseEntityDecl_good hw hr).abuts⟩
  | comment _ hr => exact ⟨(parseComment_good hw hr).all, (parseComment_good hw hr).abuts⟩
  | pi _ hr => exact ⟨(parsePI_good hw hr).all, (parsePI_good hw hr).abuts⟩
  | dtdEnd _ _ => exact ⟨hw.sliceBack _, trivial⟩
  | start _ hr => exact ⟨(parseElementStart_good hw hr).all, (parseElementStart_good hw hr).abuts⟩
  | cdata _ hr => exact ⟨(parseCdata_good hw hr).all, (parseCdata_good hw hr).abuts⟩
  | text _ hr => exact ⟨(parseText_good hw hr).all, (parseText_good hw hr).abuts⟩
  | close _ hr => exact ⟨(parseCloseElement_good hw hr).all, (parseCloseElement_good hw hr).abuts⟩
  | attr _ hr _ =>
    rcases parseAttribute_good hw hr with g | ⟨_, _, g⟩ | ⟨_, _, g⟩ <;> exact ⟨g.all, g.abuts⟩
  | tagOpen _ hr =>
    rcases parseAttribute_good hw hr with g | ⟨_, _, g⟩ | ⟨_, _, g⟩ <;> exact ⟨g.all, g.abuts⟩
  | tagEmpty _ hr =>
    rcases parseAttribute_good hw hr with g | ⟨_, _, g⟩ | ⟨_, _, g⟩ <;> exact ⟨g.all, g.abuts⟩

/-! ### Tag bookkeeping -/

theorem tagsOk_other {t : Token} {rest : List Token} (hk : kind t = .other ∨ kind t = .endClose)
    (h : TagsOk false rest) : TagsOk false (t :: rest) := by
  cases t with
  | elementEnd e sp => cases e <;> simp_all [kind, TagsOk]
  | _ => simp_all [kind, TagsOk]

theorem tagsOk_start {t : Token} {rest : List Token} (hk : kind t = .start)
    (h : TagsOk true rest) : TagsOk false (t :: rest) := by
  cases t with
  | elementEnd e sp => cases e <;> simp_all [kind]
  | _ => simp_all [kind, TagsOk]

theorem tagsOk_attr {t : Token} {rest : List Token} (hk : kind t = .attr)
    (h : TagsOk true rest) : TagsOk true (t :: rest) := by
  cases t with
  | elementEnd e sp => cases e <;> simp_all [kind]
  | _ => simp_all [kind, TagsOk]

theorem tagsOk_end {t : Token} {rest : List Token} (hk : kind t = .endOpen ∨ kind t = .endEmpty)
    (h : TagsOk false rest) : TagsOk true (t :: rest) := by
  cases t with
  | elementEnd e sp => cases e <;> simp_all [kind, TagsOk]
  | _ => simp_all [kind]

theorem beq_attr_false {st : State} (h : st ≠ .attributes) : (st == State.attributes) = false := by
  cases st <;> simp_all

theorem stateAfterTag_beq (d : Nat) (f : Bool) : (stateAfterTag d f == State.attributes) = false := by
  unfold stateAfterTag
  split <;> rfl

theorem TokStep.tagsOk {src : Str} {tk tk' : Tokenizer} {t : Token} (hw : SWf src tk.stream)
    (h : TokStep tk t tk') {rest : List Token}
    (hr : TagsOk (tk'.state == .attributes) rest) : TagsOk (tk.state == .attributes) (t :: rest) := by
  cases h with
  | decl hst hp =>
    rw [hst]
    exact tagsOk_other (.inl (parseDeclaration_good hw hp).kind) hr
  | doctype st hst hp hs =>
    rw [hst]
    have e : (st == State.attributes) = false := by rcases hs with rfl | rfl <;> rfl
    simp only [e] at hr
    exact tagsOk_other (.inl (parseDoctype_good hw hp).1.kind) hr
  | entity hst hp =>
    rw [hst] at hr ⊢
    exact tagsOk_other (.inl (parseEntityDecl_good hw hp).kind) hr
  | comment hst hp =>
    simp only [beq_attr_false hst] at hr ⊢
    exact tagsOk_other (.inl (parseComment_good hw hp).kind) hr
  | pi hst hp =>
    simp only [beq_attr_false hst] at hr ⊢
    exact tagsOk_other (.inl (parsePI_good hw hp).kind) hr
  | dtdEnd hst _ =>
    rw [hst]
    exact tagsOk_other (.inl rfl) hr
  | start hst hp =>
    have e : (tk.state == State.attributes) = false := by rcases hst with h | h <;> rw [h] <;> rfl
    rw [e]
    exact tagsOk_start (parseElementStart_good hw hp).kind hr
  | cdata hst hp =>
    rw [hst] at hr ⊢
    exact tagsOk_other (.inl (parseCdata_good hw hp).kind) hr
  | text hst hp =>
    rw [hst] at hr ⊢
    exact tagsOk_other (.inl (parseText_good hw hp).kind) hr
  | close hst hp =>
    rw [hst]
    simp only [stateAfterTag_beq] at hr
    exact tagsOk_other (.inr (parseCloseElement_good hw hp).kind) hr
  | attr hst hp hk =>
    rw [hst] at hr ⊢
    exact tagsOk_attr hk hr
  | tagOpen hst hp =>
    rw [hst]
    simp only [stateAfterTag_beq] at hr
    exact tagsOk_end (.inl rfl) hr
  | tagEmpty hst hp =>
    rw [hst]
    simp only [stateAfterTag_beq] at hr
    exact tagsOk_end (.inr rfl) hr

/-! ### The loop -/

/-- The invariant of the tokenizer loop. -/
theorem lexLoop_inv (src : Str) (tk : Tokenizer) (position : Nat) :
    SWf src tk.stream → IsBoundary src position →
    (∀ t ∈ (lexLoop tk position).1, t.All (StrSpan.SliceOf src) ∧ t.Abuts) ∧
      TagsOk (tk.state == .attributes) (lexLoop tk position).1 ∧
      ∀ p, (lexLoop tk position).2 = some p → IsBoundary src p := by
  fun_induction lexLoop tk position with
  | case1 tk pos hc =>
    intro _ _
    exact ⟨fun t ht => (by cases ht), trivial, fun p hp => (by cases hp)⟩
  | case2 tk pos hc tk' hs ih =>
    intro hw hb
    have he : tk.stream.atEnd = false := by
      cases h : tk.stream.atEnd <;> simp_all
    have sk := parseNextImpl_skipStep he (fun h => hc (.inr h)) hs
    obtain ⟨h1, h2, h3⟩ := ih (hw.reach sk.reach) hb
    refine ⟨h1, ?_, h3⟩
    rw [beq_attr_false sk.notAttr]
    rw [beq_attr_false sk.notAttr'] at h2
    exact h2
  | case3 tk pos hc t tk' hs r ih =>
    intro hw hb
    have he : tk.stream.atEnd = false := by
      cases h : tk.stream.atEnd <;> simp_all
    have hw' : SWf src tk'.stream := hw.reach (parseNextImpl_token he hs).reach
    have ts := parseNextImpl_tokStep hw he hs
    obtain ⟨h1, h2, h3⟩ := ih hw' hw'.boundary
    refine ⟨?_, ts.tagsOk hw h2, h3⟩
    intro t' ht'
    rcases List.mem_cons.mp ht' with rfl | ht'
    · exact ts.good hw
    · exact h1 t' ht'
  | case4 tk pos hc hs =>
    intro _ hb
    refine ⟨fun t ht => (by cases ht), trivial, fun p hp => ?_⟩
    simp only [Option.some.injEq] at hp
    subst hp
    exact hb

/-! ### Depth bookkeeping (document mode) -/

theorem noStray_same {t : Token} {d : Nat} {rest : List Token}
    (hk : kind t = .other ∨ kind t = .start ∨ kind t = .attr ∨ kind t = .endEmpty)
    (h : NoStrayClose d rest) : NoStrayClose d (t :: rest) := by
  cases t with
  | elementEnd e sp => cases e <;> simp_all [kind, NoStrayClose]
  | _ => simp_all [kind, NoStrayClose]

theorem noStray_close {t : Token} {d : Nat} {rest : List Token} (hk : kind t = .endClose)
    (hd : 0 < d) (h : NoStrayClose (d - 1) rest) : NoStrayClose d (t :: rest) := by
  cases d with
  | zero => omega
  | succ d =>
    cases t with
    | elementEnd e sp => cases e <;> simp_all [kind, NoStrayClose]
    | _ => simp_all [kind]

/-- Document mode: in state `Elements` an element is open. -/
def DocInv (tk : Tokenizer) : Prop :=
  tk.fragment = false ∧ (tk.state = .elements → 0 < tk.depth)

theorem stateAfterTag_elements {d : Nat} (h : stateAfterTag d false = .elements) : 0 < d := by
  unfold stateAfterTag at h
  split at h
  · cases h
  · rename_i hn
    cases d with
    | zero => simp at hn
    | succ d => omega

theorem TokStep.depth {src : Str} {tk tk' : Tokenizer} {t : Token} (hw : SWf src tk.stream)
    (h : TokStep tk t tk') (hi : DocInv tk) :
    DocInv tk' ∧ ∀ rest, NoStrayClose tk'.depth rest → NoStrayClose tk.depth (t :: rest) := by
  obtain ⟨hf, hd⟩ := hi
  cases h with
  | decl hst hp =>
    exact ⟨⟨hf, fun h => by cases h⟩, fun rest hr =>
      noStray_same (.inl (parseDeclaration_good hw hp).kind) hr⟩
  | doctype st hst hp hs =>
    exact ⟨⟨hf, fun h => by rcases hs with rfl | rfl <;> cases h⟩, fun rest hr =>
      noStray_same (.inl (parseDoctype_good hw hp).1.kind) hr⟩
  | entity hst hp =>
    exact ⟨⟨hf, hd⟩, fun rest hr => noStray_same (.inl (parseEntityDecl_good hw hp).kind) hr⟩
  | comment hst hp =>
    exact ⟨⟨hf, hd⟩, fun rest hr => noStray_same (.inl (parseComment_good hw hp).kind) hr⟩
  | pi hst hp =>
    exact ⟨⟨hf, hd⟩, fun rest hr => noStray_same (.inl (parsePI_good hw hp).kind) hr⟩
  | dtdEnd hst _ =>
    exact ⟨⟨hf, fun h => by cases h⟩, fun rest hr => noStray_same (.inl rfl) hr⟩
  | start hst hp =>
    exact ⟨⟨hf, fun h => by cases h⟩, fun rest hr =>
      noStray_same (.inr (.inl (parseElementStart_good hw hp).kind)) hr⟩
  | cdata hst hp =>
    exact ⟨⟨hf, hd⟩, fun rest hr => noStray_same (.inl (parseCdata_good hw hp).kind) hr⟩
  | text hst hp =>
    exact ⟨⟨hf, hd⟩, fun rest hr => noStray_same (.inl (parseText_good hw hp).kind) hr⟩
  | close hst hp =>
    have hpos := hd hst
    have e : closeDepth tk.depth = tk.depth - 1 := by simp only [closeDepth, hpos, if_true]
    refine ⟨⟨hf, fun h => ?_⟩, fun rest hr => ?_⟩
    · simp only [hf] at h
      exact stateAfterTag_elements h
    · simp only [e] at hr
      exact noStray_close (parseCloseElement_good hw hp).kind hpos hr
  | attr hst hp hk =>
    exact ⟨⟨hf, hd⟩, fun rest hr => noStray_same (.inr (.inr (.inl hk))) hr⟩
  | tagOpen hst hp =>
    refine ⟨⟨hf, fun _ => Nat.succ_pos _⟩, fun rest hr => ?_⟩
    simpa [NoStrayClose] using hr
  | tagEmpty hst hp =>
    refine ⟨⟨hf, fun h => ?_⟩, fun rest hr => noStray_same (.inr (.inr (.inr rfl))) hr⟩
    simp only [hf] at h
    exact stateAfterTag_elements h

theorem lexLoop_noStray (src : Str) (tk : Tokenizer) (position : Nat) :
    SWf src tk.stream → DocInv tk → NoStrayClose tk.depth (lexLoop tk position).1 := by
  fun_induction lexLoop tk position with
  | case1 tk pos hc => intro _ _; trivial
  | case2 tk pos hc tk' hs ih =>
    intro hw hi
    have he : tk.stream.atEnd = false := by
      cases h : tk.stream.atEnd <;> simp_all
    have sk := parseNextImpl_skipStep he (fun h => hc (.inr h)) hs
    have := ih (hw.reach sk.reach) ⟨sk.fragment.trans hi.1, fun h => absurd h sk.notElem'⟩
    rw [sk.depth] at this
    exact this
  | case3 tk pos hc t tk' hs r ih =>
    intro hw hi
    have he : tk.stream.atEnd = false := by
      cases h : tk.stream.atEnd <;> simp_all
    have hw' : SWf src tk'.stream := hw.reach (parseNextImpl_token he hs).reach
    obtain ⟨hi', hn⟩ := (parseNextImpl_tokStep hw he hs).depth hw hi
    exact hn _ (ih hw' hi')
  | case4 tk pos hc hs => intro _ _; trivial

end XotModel.Lex.Slice

namespace XotModel

open XotModel.Lex.Slice

/-! ### The tokenizers at their start -/

theorem Lex.Slice.ofStr_swf (s : Str) : SWf s (Lex.Tokenizer.ofStr s).stream := by
  unfold Lex.Tokenizer.ofStr
  dsimp only
  split
  · exact (SWf.ofStr s).adv 1
  · exact SWf.ofStr s

theorem Lex.Slice.lexDocument_inv (s : Str) :
    (∀ t ∈ (lexDocument s).1, t.All (StrSpan.SliceOf s) ∧ t.Abuts) ∧
      TagsOk false (lexDocument s).1 ∧ ∀ p, (lexDocument s).2 = some p → IsBoundary s p :=
  lexLoop_inv s (Lex.Tokenizer.ofStr s) _ (ofStr_swf s) (ofStr_swf s).boundary

theorem Lex.Slice.lexFragment_inv (s : Str) :
    (∀ t ∈ (lexFragment s).1, t.All (StrSpan.SliceOf s) ∧ t.Abuts) ∧
      TagsOk false (lexFragment s).1 ∧ ∀ p, (lexFragment s).2 = some p → IsBoundary s p :=
  lexLoop_inv s (Lex.Tokenizer.ofFragment s) _ (SWf.ofStr s) (SWf.ofStr s).boundary

/-! ### The slice theorem -/

/-- Every span of every token of a document is a slice of the source at its byte offset. -/
theorem lexDocument_sliceOf (s : Str) : ∀ t ∈ (lexDocument s).1, t.All (StrSpan.SliceOf s) :=
  fun t ht => ((lexDocument_inv s).1 t ht).1

/-- Every span of every token of a fragment is a slice of the source at its byte offset. -/
theorem lexFragment_sliceOf (s : Str) : ∀ t ∈ (lexFragment s).1, t.All (StrSpan.SliceOf s) :=
  fun t ht => ((lexFragment_inv s).1 t ht).1

/-- The position reported with a tokenizer error is a char boundary of the source. -/
theorem lexDocument_errpos (s : Str) (p : Nat) : (lexDocument s).2 = some p → IsBoundary s p :=
  (lexDocument_inv s).2.2 p

/-- The position reported with a tokenizer error is a char boundary of the source. -/
theorem lexFragment_errpos (s : Str) (p : Nat) : (lexFragment s).2 = some p → IsBoundary s p :=
  (lexFragment_inv s).2.2 p

/-- A non-empty prefix ends one byte (the colon) before its local name. -/
theorem lexDocument_abuts (s : Str) : ∀ t ∈ (lexDocument s).1, t.Abuts :=
  fun t ht => ((lexDocument_inv s).1 t ht).2

/-- A non-empty prefix ends one byte (the colon) before its local name. -/
theorem lexFragment_abuts (s : Str) : ∀ t ∈ (lexFragment s).1, t.Abuts :=
  fun t ht => ((lexFragment_inv s).1 t ht).2

/-- Attributes and `>` / `/>` occur exactly between an element start and the end of its tag. -/
theorem lexDocument_tagsOk (s : Str) : TagsOk false (lexDocument s).1 := (lexDocument_inv s).2.1

/-- Attributes and `>` / `/>` occur exactly between an element start and the end of its tag. -/
theorem lexFragment_tagsOk (s : Str) : TagsOk false (lexFragment s).1 := (lexFragment_inv s).2.1

/-- The token-shape contract holds of the tokenizer's output on every input. -/
theorem lexDocument_shape (s : Str) : TokenShape (strLen s) (lexDocument s).1 (lexDocument s).2 where
  inside t ht := Token.inside_of_all t (Token.All.imp (fun _ h => h.inside) t (lexDocument_sliceOf s t ht))
  abuts := lexDocument_abuts s
  tags := lexDocument_tagsOk s
  lexPos p hp := (lexDocument_errpos s p hp).le

/-- The token-shape contract holds of the tokenizer's output on every input. -/
theorem lexFragment_shape (s : Str) : TokenShape (strLen s) (lexFragment s).1 (lexFragment s).2 where
  inside t ht := Token.inside_of_all t (Token.All.imp (fun _ h => h.inside) t (lexFragment_sliceOf s t ht))
  abuts := lexFragment_abuts s
  tags := lexFragment_tagsOk s
  lexPos p hp := (lexFragment_errpos s p hp).le

/-- Every span of every token is what `s.get(start..end)` returns. -/
theorem lexDocument_slices (s : Str) :
    ∀ t ∈ (lexDocument s).1, t.All (fun sp => sliceBytes s sp.start sp.stop = some sp.text) :=
  fun t ht => Token.All.imp (fun _ h => sliceBytes_of_sliceOf h) t (lexDocument_sliceOf s t ht)

/-- Every span of every token is what `s.get(start..end)` returns. -/
theorem lexFragment_slices (s : Str) :
    ∀ t ∈ (lexFragment s).1, t.All (fun sp => sliceBytes s sp.start sp.stop = some sp.text) :=
  fun t ht => Token.All.imp (fun _ h => sliceBytes_of_sliceOf h) t (lexFragment_sliceOf s t ht)

/-- In document mode the tokenizer never returns an end tag when no element is open. -/
theorem lexDocument_noStrayClose (s : Str) : NoStrayClose 0 (lexDocument s).1 :=
  lexLoop_noStray s (Lex.Tokenizer.ofStr s) _ (ofStr_swf s) ⟨rfl, fun h => by cases h⟩

end XotModel
