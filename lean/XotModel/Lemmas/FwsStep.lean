/-
  Lemmas/FwsStep — one iteration of the removal loop: with consolidation off (as the loop runs
  since /repo 1e1d5fd), and also in a strictly valid forest (no adjacent text nodes), `remove` of
  a text node deletes that node and nothing else (`pruned`), no consolidation fires; positions
  of everything that is not deleted survive.
-/
import XotModel.Lemmas.FwsPrune

namespace XotModel
namespace Fws
open HTree

/-! ### the pruned forest -/

theorem pruned_sublist (f : Forest) (S : Nat → Bool) : (pruned f S).allHandles.Sublist f.allHandles :=
  pruneTextKids_sublist S f.roots

theorem pruned_nodup {f : Forest} (S : Nat → Bool) (nd : f.allHandles.Nodup) : (pruned f S).allHandles.Nodup :=
  (pruned_sublist f S).nodup nd

theorem pruned_valid {f : Forest} {b : Bool} (S : Nat → Bool) (hv : validList b f.roots = true) :
    validList b (pruned f S).roots = true := validList_prune b S f.roots hv

theorem pruned_pruned (f : Forest) (S1 S2 : Nat → Bool) :
    pruned (pruned f S1) S2 = pruned f (fun h => S1 h || S2 h) := by
  unfold pruned
  simp only [pruneTextKids_comp]

theorem pruned_get? {f : Forest} (S : Nat → Bool) (nd : f.allHandles.Nodup) {h : Nat} {x : HTree}
    (hx : (pruned f S).get? h = some x) :
    ∃ q, f.get? h = some q ∧ x = pruneText S q ∧ (q.value.isText && S h) = false :=
  findList_pruneText S h f.roots x nd hx

theorem pruned_textOf {f : Forest} (S : Nat → Bool) (nd : f.allHandles.Nodup) {h : Nat} {s : Str}
    (hs : (pruned f S).textOf h = some s) : f.textOf h = some s := by
  unfold Forest.textOf Forest.value? at hs ⊢
  cases hx : (pruned f S).get? h with
  | none => rw [hx] at hs; simp at hs
  | some x =>
    obtain ⟨q, hq, e, _⟩ := pruned_get? S nd hx
    rw [hx] at hs
    rw [hq]
    simp only [Option.map_some] at hs ⊢
    rw [e, pruneText_value] at hs
    exact hs

/-- Ancestors have children, so they are not text nodes. -/
theorem Occurs.anc_not_text {f : Forest} {b : Bool} (hv : validList b f.roots = true) {t : HTree} {anc : List HTree}
    (o : Occurs f t anc) : ∀ a ∈ anc, a.value.isText = false := by
  induction o with
  | root _ => intro a ha; cases ha
  | @kid p k anc op hk ih =>
    intro a ha
    rcases List.mem_cons.1 ha with rfl | ha
    · exact parent_not_text (op.valid hv) hk
    · exact ih a ha

/-- A position whose node is not deleted survives pruning. -/
theorem Occurs.prune {f : Forest} {b : Bool} (S : Nat → Bool) (hv : validList b f.roots = true)
    {t : HTree} {anc : List HTree} (o : Occurs f t anc) (hk : (t.value.isText && S t.handle) = false) :
    Occurs (pruned f S) (pruneText S t) (anc.map (pruneText S)) := by
  induction o with
  | @root r hr =>
    refine .root ?_
    show pruneText S r ∈ pruneTextKids S f.roots
    rw [pruneTextKids_eq]
    exact List.mem_map.2 ⟨r, List.mem_filter.2 ⟨hr, by simp [hk]⟩, rfl⟩
  | @kid p k anc op hkp ih =>
    have hp : (p.value.isText && S p.handle) = false := by
      rw [parent_not_text (op.valid hv) hkp]; rfl
    refine .kid (ih hp) ?_
    rw [pruneText_kids, pruneTextKids_eq]
    exact List.mem_map.2 ⟨k, List.mem_filter.2 ⟨hkp, by simp [hk]⟩, rfl⟩

/-! ### `cut` of a text node is a pruning -/

mutual
  theorem replaceBelow_id (n : Nat) (g : HTree → List HTree) : ∀ t : HTree, n ∉ handles t → replaceBelow n g t = t
    | .node h v ks, hn => by
      simp only [replaceBelow]
      rw [replaceKids_id n g ks (fun hx => hn (by simp [handles, hx]))]
  theorem replaceKids_id (n : Nat) (g : HTree → List HTree) : ∀ ks : List HTree, n ∉ handlesList ks →
      replaceKids n g ks = ks
    | [], _ => rfl
    | k :: ks, hn => by
      have e : ¬ k.handle = n := fun e => hn (by simp [handlesList, ← e, handle_mem_handles])
      simp only [replaceKids, e, if_false]
      rw [replaceBelow_id n g k (fun hx => hn (by simp [handlesList, hx])),
        replaceKids_id n g ks (fun hx => hn (by simp [handlesList, hx]))]
end

mutual
  theorem find?_some_of_mem (h : Nat) : ∀ t : HTree, h ∈ handles t → ∃ q, find? h t = some q
    | .node h' v ks, hm => by
      simp only [find?]
      by_cases e : h' = h
      · exact ⟨.node h' v ks, by simp [e]⟩
      · simp only [e, if_false]
        simp only [handles, List.mem_cons] at hm
        rcases hm with hm | hm
        · exact absurd hm.symm e
        · exact findList?_some_of_mem h ks hm
  theorem findList?_some_of_mem (h : Nat) : ∀ ks : List HTree, h ∈ handlesList ks → ∃ q, findList? h ks = some q
    | [], hm => by simp [handlesList] at hm
    | k :: ks, hm => by
      simp only [findList?]
      cases hf : find? h k with
      | some t => exact ⟨t, rfl⟩
      | none =>
        simp only [handlesList, List.mem_append] at hm
        rcases hm with hm | hm
        · obtain ⟨q, hq⟩ := find?_some_of_mem h k hm
          rw [hq] at hf; cases hf
        · exact findList?_some_of_mem h ks hm
end

mutual
  theorem replaceBelow_prune (n : Nat) : ∀ t : HTree, (handles t).Nodup → n ∈ handlesList t.kids →
      (∀ q, find? n t = some q → q.value.isText = true) →
      replaceBelow n (fun _ => []) t = pruneText (fun h => h == n) t
    | .node h v ks, nd, hn, ht => by
      obtain ⟨hne, ndk⟩ := nodup_kids nd
      simp only [HTree.kids, HTree.handle] at hn hne ndk
      have e : ¬ h = n := fun e => hne (e ▸ hn)
      simp only [replaceBelow, pruneText]
      rw [replaceKids_prune n ks ndk hn (fun q hq => ht q (by simp [find?, e, hq]))]
  theorem replaceKids_prune (n : Nat) : ∀ ks : List HTree, (handlesList ks).Nodup → n ∈ handlesList ks →
      (∀ q, findList? n ks = some q → q.value.isText = true) →
      replaceKids n (fun _ => []) ks = pruneTextKids (fun h => h == n) ks
    | [], _, hn, _ => by simp [handlesList] at hn
    | k :: ks, nd, hn, ht => by
      obtain ⟨ndk, ndks, disj⟩ := nodup_handlesList_cons nd
      simp only [replaceKids, pruneTextKids]
      by_cases e : k.handle = n
      · have hkt : k.value.isText = true := ht k (by simp [findList?, ← e, find?_self])
        have hnks : n ∉ handlesList ks := disj n (e ▸ handle_mem_handles k)
        simp only [e, if_true, hkt, beq_self_eq_true, Bool.and_self, List.nil_append]
        rw [pruneTextKids_id _ ks (fun x hx => by
          simp only [beq_eq_false_iff_ne, ne_eq]; rintro rfl; exact hnks hx)]
      · have hne : (k.handle == n) = false := by simp [e]
        simp only [e, if_false, hne, Bool.and_false, Bool.false_eq_true]
        by_cases hin : n ∈ handles k
        · have hnks : n ∉ handlesList ks := disj n hin
          have hkids : n ∈ handlesList k.kids := by
            rw [handles_eq] at hin
            rcases List.mem_cons.1 hin with h | h
            · exact absurd h.symm e
            · exact h
          rw [replaceBelow_prune n k ndk hkids (fun q' hq' => ht q' (by simp [findList?, hq'])),
            replaceKids_id n _ ks hnks,
            pruneTextKids_id _ ks (fun x hx => by
              simp only [beq_eq_false_iff_ne, ne_eq]; rintro rfl; exact hnks hx)]
        · have hn' : n ∈ handlesList ks := by
            simp only [handlesList, List.mem_append] at hn
            exact hn.resolve_left hin
          rw [replaceBelow_id n _ k hin,
            pruneText_id _ k (fun x hx => by
              simp only [beq_eq_false_iff_ne, ne_eq]; rintro rfl; exact hin hx),
            replaceKids_prune n ks ndks hn' (fun q hq => ht q (by
              simp [findList?, find?_none_of_not_mem hin, hq]))]
end

theorem replaceKids_eq_map (n : Nat) (g : HTree → List HTree) : ∀ ks : List HTree,
    (∀ k ∈ ks, k.handle ≠ n) → replaceKids n g ks = ks.map (replaceBelow n g)
  | [], _ => rfl
  | k :: ks, h => by
    have e : ¬ k.handle = n := h k List.mem_cons_self
    simp only [replaceKids, e, if_false, List.map_cons]
    rw [replaceKids_eq_map n g ks (fun k' hk' => h k' (List.mem_cons_of_mem _ hk'))]

theorem filter_root_prune {ks l r : List HTree} {k : HTree} (nd : (handlesList ks).Nodup)
    (hs : ks = l ++ k :: r) (hk : k.value.isText = true) :
    ks.filter (fun x => x.handle != k.handle) = pruneTextKids (fun h => h == k.handle) ks := by
  subst hs
  obtain ⟨_, dl, dr⟩ := split_disjoint nd
  have hl : ∀ a ∈ l, a.handle ≠ k.handle := fun a ha e =>
    dl a ha _ (handle_mem_handles k) (e ▸ handle_mem_handles a)
  have hr : ∀ a ∈ r, a.handle ≠ k.handle := fun a ha e =>
    dr a ha _ (handle_mem_handles k) (e ▸ handle_mem_handles a)
  have pl : pruneTextKids (fun h => h == k.handle) l = l :=
    pruneTextKids_id _ l (fun x hx => by
      simp only [beq_eq_false_iff_ne, ne_eq]; rintro rfl
      obtain ⟨a, ha, hin⟩ := mem_handlesList.1 hx
      exact dl a ha _ (handle_mem_handles k) hin)
  have pr : pruneTextKids (fun h => h == k.handle) r = r :=
    pruneTextKids_id _ r (fun x hx => by
      simp only [beq_eq_false_iff_ne, ne_eq]; rintro rfl
      obtain ⟨a, ha, hin⟩ := mem_handlesList.1 hx
      exact dr a ha _ (handle_mem_handles k) hin)
  rw [pruneTextKids_append, pl]
  simp only [pruneTextKids, hk, beq_self_eq_true, Bool.and_self, if_true, pr, List.filter_append,
    List.filter_cons, bne_self_eq_false, Bool.false_eq_true, if_false]
  congr 1
  · exact List.filter_eq_self.2 (fun a ha => by simp [hl a ha])
  · exact List.filter_eq_self.2 (fun a ha => by simp [hr a ha])

/-! ### no consolidation -/

theorem removeConsolidate_noop (f : Forest) (prev next : Option Nat)
    (h : ∀ ph, prev = some ph → f.textOf ph = none) : (f.removeConsolidate prev next).1 = f := by
  unfold Forest.removeConsolidate
  split
  · rfl
  · cases prev with
    | none => rfl
    | some ph =>
      cases next with
      | none => rfl
      | some nh => simp only [h ph rfl]

theorem noAdj_split : ∀ (l : List HTree) (q k : HTree) (r : List HTree),
    noAdjacentText (l ++ q :: k :: r) = true → (q.value.isText && k.value.isText) = false
  | [], q, k, r, h => by
    simp only [List.nil_append, noAdjacentText, Bool.and_eq_true, Bool.not_eq_true'] at h
    exact h.1
  | [a], q, k, r, h => by
    simp only [List.cons_append, List.nil_append, noAdjacentText, Bool.and_eq_true] at h
    exact noAdj_split [] q k r (by simpa [noAdjacentText] using h.2)
  | a :: b :: l, q, k, r, h => by
    simp only [List.cons_append, noAdjacentText, Bool.and_eq_true] at h
    exact noAdj_split (b :: l) q k r h.2

theorem noAdj_of_valid {t : HTree} (hv : validTree true t = true) : noAdjacentText t.kids = true := by
  cases t with
  | node h v ks =>
    simp only [validTree, Bool.and_eq_true] at hv
    simpa [HTree.kids] using hv.1.2

/-- `remove_subtree` of a text node deletes exactly that node. -/
theorem dropSubtree_text {g : Forest} (nd : g.allHandles.Nodup)
    {k : HTree} {anc : List HTree} (o : Occurs g k anc) (hk : k.value.isText = true) :
    g.dropSubtree k.handle = pruned g (fun h => h == k.handle) := by
  have hget := o.get? nd
  cases anc with
  | nil =>
    have hr := o.mem_roots
    have hroot : g.isRoot k.handle = true := by
      unfold Forest.isRoot
      exact List.any_eq_true.2 ⟨k, hr, by simp⟩
    obtain ⟨l, r, hs⟩ := List.append_of_mem hr
    simp only [Forest.dropSubtree, Forest.cut, hget, hroot, if_true]
    unfold pruned
    rw [filter_root_prune nd hs hk]
  | cons p anc =>
    obtain ⟨op, hkp⟩ := o.parent
    obtain ⟨l, r, hs⟩ := List.append_of_mem hkp
    have hnr : ∀ x ∈ g.roots, x.handle ≠ k.handle := by
      intro x hx e
      have h1 := (Occurs.root hx : Occurs g x []).ctx_root nd
      rw [e, o.ctx nd hs] at h1
      cases h1
    have hroot : g.isRoot k.handle = false := by
      unfold Forest.isRoot
      rw [Bool.eq_false_iff]
      intro h
      obtain ⟨x, hx, he⟩ := List.any_eq_true.1 h
      exact hnr x hx (by simpa using he)
    simp only [Forest.dropSubtree, Forest.cut, hget, hroot, Bool.false_eq_true, if_false]
    unfold pruned
    rw [← replaceKids_eq_map _ _ _ hnr]
    rw [replaceKids_prune k.handle g.roots nd (o.sublist.subset (handle_mem_handles k))
      (fun q hq => by
        have : g.get? k.handle = some q := hq
        rw [hget] at this
        cases this; exact hk)]

/-- In a forest without adjacent text nodes the previous sibling of a text node is not text. -/
theorem prev_not_text {g : Forest} (nd : g.allHandles.Nodup) (hv : validList true g.roots = true)
    {k : HTree} {anc : List HTree} (o : Occurs g k anc) (hk : k.value.isText = true) {ph : Nat}
    (hph : g.prevSibling k.handle = some ph) : g.textOf ph = none := by
  cases anc with
  | nil =>
    simp [Forest.prevSibling, o.ctx_root nd] at hph
  | cons p anc =>
    obtain ⟨op, hkp⟩ := o.parent
    obtain ⟨l, r, hs⟩ := List.append_of_mem hkp
    unfold Forest.prevSibling at hph
    rw [o.ctx nd hs] at hph
    simp only at hph
    rcases List.eq_nil_or_concat l with rfl | ⟨l', q, rfl⟩
    · simp at hph
    · rw [List.concat_eq_append] at hs hph
      rw [List.getLast?_concat] at hph
      simp only at hph
      split at hph
      · cases hph
        have hs' : p.kids = l' ++ q :: k :: r := by rw [hs]; simp
        have hq : q.value.isText = false := by
          have := noAdj_split l' q k r (hs' ▸ noAdj_of_valid (op.valid hv))
          simpa [hk] using this
        have oq : Occurs g q (p :: anc) := .kid op (by rw [hs']; simp)
        rw [textOf_at nd oq]
        cases hqv : q.value <;> rw [hqv] at hq <;> simp [Value.isText] at hq ⊢
      · cases hph

/-- No consolidation: `remove` of a text node is `remove_subtree`. -/
theorem remove_eq_drop {g : Forest} (nd : g.allHandles.Nodup) (hv : validList true g.roots = true)
    {k : HTree} {anc : List HTree} (o : Occurs g k anc) (hk : k.value.isText = true) :
    (g.remove k.handle).1 = g.dropSubtree k.handle := by
  unfold Forest.remove
  simp only
  apply removeConsolidate_noop
  intro ph hph
  have h1 := prev_not_text nd hv o hk hph
  rw [dropSubtree_text nd o hk]
  cases ht : (pruned g (fun h => h == k.handle)).textOf ph with
  | none => rfl
  | some s => rw [pruned_textOf _ nd ht] at h1; cases h1

/-- `remove` of a text node in a forest without adjacent text nodes deletes exactly that node. -/
theorem remove_text {g : Forest} (nd : g.allHandles.Nodup) (hv : validList true g.roots = true)
    {k : HTree} {anc : List HTree} (o : Occurs g k anc) (hk : k.value.isText = true) :
    (g.remove k.handle).1 = pruned g (fun h => h == k.handle) := by
  rw [remove_eq_drop nd hv o hk, dropSubtree_text nd o hk]

/-! ### the loop runs with consolidation switched off -/

theorem dropSubtree_consolidation (g : Forest) (n : Nat) : (g.dropSubtree n).consolidation = g.consolidation := by
  unfold Forest.dropSubtree Forest.cut
  cases g.get? n with
  | none => rfl
  | some t =>
    simp only
    split <;> rfl

/-- With consolidation off `remove` is `remove_subtree`. -/
theorem remove_eq_drop_off {g : Forest} (hc : g.consolidation = false) (n : Nat) :
    (g.remove n).1 = g.dropSubtree n := by
  unfold Forest.remove
  simp only
  unfold Forest.removeConsolidate
  simp [dropSubtree_consolidation, hc]

/-- `remove` of a text node with consolidation off deletes exactly that node — whatever its
    neighbours are. -/
theorem remove_text_off {g : Forest} (nd : g.allHandles.Nodup) (hc : g.consolidation = false)
    {k : HTree} {anc : List HTree} (o : Occurs g k anc) (hk : k.value.isText = true) :
    (g.remove k.handle).1 = pruned g (fun h => h == k.handle) := by
  rw [remove_eq_drop_off hc, dropSubtree_text nd o hk]

/-- Positions only depend on the trees. -/
theorem Occurs.of_roots_eq {f f' : Forest} (h : f.roots = f'.roots) {t : HTree} {anc : List HTree}
    (o : Occurs f t anc) : Occurs f' t anc := by
  induction o with
  | root hr => exact .root (h ▸ hr)
  | kid _ hk ih => exact .kid ih hk

end Fws
end XotModel
