/-
  FframeRestMoved — inside the moved subtree.  Generic: if the node `c` carries the SAME subtree `t` before and after
  (`get? c = some t` in both forests), every node of `t` has the same `get?` in both forests.  Instance: `detach`
  (the subtree is listed as a parentless tree).
-/
import XotModel.Lemmas.FframeRestAll

namespace XotModel
open HTree Spec PairAll

/-- A subtree carried over unchanged: every node inside it reads the same. -/
theorem get?_inside_of_subtree {f f' : Forest} (nd : f.allHandles.Nodup) (nd' : f'.allHandles.Nodup) {c : Nat}
    {t : HTree} (hg : f.get? c = some t) (hg' : f'.get? c = some t) {z : Nat} (hz : z ∈ handles t) :
    f'.get? z = f.get? z := by
  obtain ⟨anc, o⟩ := Fws.occurs_of_get? hg
  obtain ⟨anc', o'⟩ := Fws.occurs_of_get? hg'
  obtain ⟨q, hq⟩ := Fws.find?_some_of_mem z t hz
  rw [o.find_local nd z q hq, o'.find_local nd' z q hq]

theorem frameAt_of_get?_eq {f f' : Forest} {z : Nat} (hl : f.isLive z = true) (e : f'.get? z = f.get? z) :
    Forest.FrameAt f f' z := by
  obtain ⟨u, hu⟩ := Forest.get_of_live hl
  exact Forest.FrameAt.of_get hu (e.trans hu) rfl rfl

/-- `detach(n)` keeps the subtree of `n` as it is. -/
theorem detach_get_moved {f : Forest} (inv : f.Inv) {n : Nat} {t : HTree} (hg : f.get? n = some t) :
    (f.detach n).1.get? n = some t := by
  have inv' := Forest.detach_inv inv n
  have e : (f.detach n).1 = (specRemoveP n f).editAt none (insertLast t) := by
    rw [detach_pair inv (Forest.isLive_of_get hg), specDetachP_eq inv.nodup hg]
  have hmem : t ∈ (f.detach n).1.roots := by
    rw [e]
    show t ∈ (specRemoveP n f).roots ++ [t]
    simp
  have := Fmap.findList?_direct (f.detach n).1.roots inv'.nodup t hmem
  rw [(findList?_some f.roots t hg).1] at this
  exact this

end XotModel

namespace XotModel
open HTree Spec PairAll

/-- `element_wrap(n)` keeps the subtree of `n` as it is (below the wrapper). -/
theorem wrap_get_moved {f : Forest} (inv : f.Inv) {n name : Nat} {t : HTree}
    (hok : (f.elementWrap n name).2.1 = .ok) (hg : f.get? n = some t) :
    (f.elementWrap n name).1.get? n = some t := by
  have nd := inv.nodup
  have inv' := Forest.elementWrap_inv inv n name
  have nd' := inv'.nodup
  have htn : t.handle = n := (findList?_some f.roots t hg).1
  have e : (f.elementWrap n name).1 = specWrap n name f := by
    cases hpar : f.parent? n with
    | none => exact (wrap_spec_root inv hpar hok).1
    | some p => exact (wrap_spec_kid inv hpar hok).1
  -- the wrapper occurs in the new forest with `t` as its child
  suffices h : ∃ anc, Fws.Occurs (f.elementWrap n name).1 (HTree.node f.next (.element name) [t]) anc by
    obtain ⟨anc, oW⟩ := h
    have ot : Fws.Occurs (f.elementWrap n name).1 t (HTree.node f.next (.element name) [t] :: anc) :=
      Fws.Occurs.kid oW (by simp [HTree.kids])
    have := ot.get? nd'
    rw [htn] at this
    exact this
  rw [e]
  unfold specWrap
  rw [hg]
  simp only
  rcases Forest.root_or_ctx hg with hroot | ⟨c, hctx⟩
  · have hno : f.ctx? n = none := Forest.ctx_none_of_root nd hroot
    rw [Forest.parent?_of_no_ctx hno]
    simp only
    refine ⟨[], Fws.Occurs.root ?_⟩
    show HTree.node f.next (.element name) [t] ∈ dropTop n f.roots ++ [HTree.node f.next (.element name) [t]]
    simp
  · obtain ⟨e0, v, so⟩ := SiteAt.of_ctx nd hctx
    obtain ⟨p, l, k, r⟩ := c
    simp only at e0 so
    have hself : k = t := by
      have := Forest.get?_of_ctx nd hctx
      rw [hg] at this
      exact (Option.some.inj this).symm
    subst hself
    have hpar : f.parent? n = some p := Forest.parent?_of_ctx hctx
    rw [hpar]
    simp only
    obtain ⟨ndL, _⟩ := so.nodupKids
    obtain ⟨tl, tr⟩ := tops_ne_of_nodup ndL
    have hrep : replaceTop n (fun k' => [HTree.node f.next (.element name) [k']]) (l ++ k :: r) =
        l ++ [HTree.node f.next (.element name) [k]] ++ r := by
      rw [← e0]; exact replaceTop_mid rfl tl
    have hgp := Forest.get?_editAt_self (replaceTop n (fun k' => [HTree.node f.next (.element name) [k']])) so.kids
    rw [hrep] at hgp
    have hgp' : ({ f.editAt (some p) (replaceTop n (fun k' => [HTree.node f.next (.element name) [k']])) with
        next := f.next + 1 } : Forest).get? p = some (.node p v (l ++ [HTree.node f.next (.element name) [k]] ++ r)) := hgp
    obtain ⟨anc, oP⟩ := Fws.occurs_of_get? hgp'
    exact ⟨_, Fws.Occurs.kid oP (by simp [HTree.kids])⟩

end XotModel
