/-
  FframeRestMoved — inside the moved subtree.  Generic: if the node `c` carries the SAME subtree `t` before and after
  (`get? c = some t` in both forests), every node of `t` has the same `get?` in both forests.  Instance: `detach`
  (the subtree is listed as a parentless tree).
-/
import XotModel.Lemmas.FframeRestAll

namespace XotModel
open HTree Spec PairAll

/-- A subtree carried over unchanged: every node inside it reads the same. -/
theorem get?_inside_of_subtree {f f' : Forest} (nd : f.allHandles.Nodup) (nd' : f'.allHandles.Nodup) {c : Nat}
    {t : HTree} (hg : f.get? c = some t) (hg' : f'.get? c = some t) {z : Nat} (hz : z ∈ handles t) :
    f'.get? z = f.get? z := by
  obtain ⟨anc, o⟩ := Fws.occurs_of_get? hg
  obtain ⟨anc', o'⟩ := Fws.occurs_of_get? hg'
  obtain ⟨q, hq⟩ := Fws.find?_some_of_mem z t hz
  rw [o.find_local nd z q hq, o'.find_local nd' z q hq]

theorem frameAt_of_get?_eq {f f' : Forest} {z : Nat} (hl : f.isLive z = true) (e : f'.get? z = f.get? z) :
    Forest.FrameAt f f' z := by
  obtain ⟨u, hu⟩ := Forest.get_of_live hl
  exact Forest.FrameAt.of_get hu (e.trans hu) rfl rfl

/-- `detach(n)` keeps the subtree of `n` as it is. -/
theorem detach_get_moved {f : Forest} (inv : f.Inv) {n : Nat} {t : HTree} (hg : f.get? n = some t) :
    (f.detach n).1.get? n = some t := by
  have inv' := Forest.detach_inv inv n
  have e : (f.detach n).1 = (specRemoveP n f).editAt none (insertLast t) := by
    rw [detach_pair inv (Forest.isLive_of_get hg), specDetachP_eq inv.nodup hg]
  have hmem : t ∈ (f.detach n).1.roots := by
    rw [e]
    show t ∈ (specRemoveP n f).roots ++ [t]
    simp
  have := Fmap.findList?_direct (f.detach n).1.roots inv'.nodup t hmem
  rw [(findList?_some f.roots t hg).1] at this
  exact this

end XotModel
