/-
  XotModel.Lemmas.PrettyBytes — C14_pretty_only_whitespace on the CONCATENATED bytes: the run of white space the
  indenting writer puts between two consecutive tokens stands behind a `>` and in front of a `<` of the plain
  output (not only of the neighbouring tokens: the empty end-tag token of `<e/>` is looked through).
-/
import XotModel.Lemmas.PrettyEmptyEnd
import XotModel.Lemmas.SerIndentMain

namespace XotModel
open Gen

variable (sup : List Nat) (t : Tree)

/-- What `serialize_node` writes for the token (no indentation, no newline). -/
def prettyBody (k : Path × Output × PrettyOutputToken) : Str :=
  (if k.2.2.space then tokenSpace else []) ++ k.2.2.text

/-- The empty end-tag token of an element written `<e/>`: it has no blank, no indentation, and the token in
    front of it is the `/>` of the same element, without a newline. -/
theorem pretty_empty_endTag (esc : Escapers) (env : Env) (pr : TokenParams) (start : Path) (n : Tree)
    (inScope : List (Nat × Nat)) (hat : t.at? start = some n)
    (hs : namespacesInScope t start = some inScope) (hok : TextOk n)
    (ks pre post : List (Path × Output × PrettyOutputToken)) (k2 : Path × Output × PrettyOutputToken)
    (h : prettyTokensWith esc env pr sup t start = .ok ks) (hks : ks = pre ++ k2 :: post)
    (name : Nat) (ho : k2.2.1 = .endTag name) (htx : k2.2.2.text = []) :
    k2.2.2.space = false ∧ k2.2.2.indentation = 0 ∧
    ∃ pre' k1, pre = pre' ++ [k1] ∧ k1.2.2.text = litEmptyTagClose ∧ k1.2.2.space = false ∧
      k1.2.2.newline = false := by
  unfold prettyTokensWith at h
  cases hp : prettyAllWith esc env pr sup t [] (initStack t start) (genOutputs t start) with
  | err e => simp [hp] at h
  | panic => simp [hp] at h
  | ok l =>
    simp only [hp] at h
    cases h
    have hevs := prettyAll_events sup t esc env pr [] _ _ _ hp
    obtain ⟨s1, s2, hr⟩ := prettyAll_rendered sup t esc env pr [] _ _ _ hp k2 (by simp [hks])
    obtain ⟨p2, o2, tok2⟩ := k2
    simp only at ho htx hr ⊢
    subst ho
    unfold renderAtWith at hr
    cases hn : t.at? p2 with
    | none => simp [hn] at hr
    | some node =>
      simp only [hn, renderXmlWith] at hr
      by_cases hfc : node.firstChild?.isSome = true
      · exfalso
        simp only [hfc, if_true] at hr
        cases hfn : s1.elementFullname env name with
        | error e => simp [hfn] at hr
        | ok full =>
          simp only [hfn, Outcome.ok.injEq, Prod.mk.injEq, OutputToken.mk.injEq] at hr
          have := hr.2.2
          rw [htx] at this
          simp [fmt, fmtEndTag] at this
      · have hnone : node.firstChild?.isNone = true := by
          cases hx : node.firstChild? <;> simp [hx] at hfc ⊢
        have hcl : childlessAt t p2 = true := by simp [childlessAt, hn, hnone]
        simp only [hfc, Bool.false_eq_true, if_false, Outcome.ok.injEq, Prod.mk.injEq, OutputToken.mk.injEq] at hr
        have hg : genOutputs t start = genNode inScope true start n := by simp [genOutputs, hat, hs]
        have EG := genNode_EGram t inScope true start n hat hok none
        rw [← hg, ← hevs, hks, List.map_append, List.map_cons] at EG
        have hlast := EGram_at t _ _ _ EG name rfl hcl
        simp only at hlast
        unfold lastOr at hlast
        cases hl : (pre.map (fun k => (k.1, k.2.1))).getLast? with
        | none => simp [hl] at hlast
        | some x =>
          simp only [hl, Option.some.injEq] at hlast
          subst hlast
          obtain ⟨ys, hys⟩ := List.getLast?_eq_some_iff.mp hl
          obtain ⟨l1, l2, hpre, _, hl2⟩ := List.map_eq_append_iff.mp hys
          cases l2 with
          | nil => simp at hl2
          | cons k1 l2' =>
            cases l2' with
            | cons _ _ => simp at hl2
            | nil =>
              simp only [List.map_cons, List.map_nil, List.cons.injEq, Prod.mk.injEq, and_true] at hl2
              obtain ⟨p1, o1, tok1⟩ := k1
              simp only at hl2
              obtain ⟨rfl, rfl⟩ := hl2
              subst hpre
              obtain ⟨ps1, _, _, e1, e2⟩ := prettyAll_adjacent sup t esc env pr [] _ _ _ l1 post
                (p1, .startTagClose, tok1) (p1, .endTag name, tok2) hp (by simp [hks])
              simp only [prettifyAt, hn, prettify, hfc, Bool.false_eq_true, if_false, Prod.mk.injEq] at e1 e2
              obtain ⟨s1', s2', hr1⟩ := prettyAll_rendered sup t esc env pr [] _ _ _ hp
                (p1, .startTagClose, tok1) (by simp [hks])
              simp only [renderAtWith, hn, renderXmlWith, hnone, if_true, Outcome.ok.injEq, Prod.mk.injEq,
                OutputToken.mk.injEq] at hr1
              exact ⟨hr.2.1.symm, e2.1, l1, _, rfl, hr1.2.2.symm, hr1.2.1.symm, e1.2⟩

/-- **The white space between two consecutive tokens, on the concatenated bytes** (`TextOk` trees). -/
theorem pretty_whitespace_bytes (esc : Escapers) (env : Env) (pr : TokenParams) (start : Path) (n : Tree)
    (inScope : List (Nat × Nat)) (hat : t.at? start = some n)
    (hs : namespacesInScope t start = some inScope) (hok : TextOk n)
    (ks pre post : List (Path × Output × PrettyOutputToken)) (k1 k2 : Path × Output × PrettyOutputToken)
    (h : prettyTokensWith esc env pr sup t start = .ok ks) (hks : ks = pre ++ k1 :: k2 :: post)
    (hw : k1.2.2.newline = true ∨ k2.2.2.indentation > 0) :
    ((pre ++ [k1]).flatMap prettyBody).getLast? = some '>' ∧
    ((k2 :: post).flatMap prettyBody).head? = some '<' ∧
    (prettyBody k2).head? = some '<' := by
  obtain ⟨c1, c2, _⟩ := pretty_between sup t esc env pr start n inScope hat hs hok ks pre post k1 k2 h hks hw
  have s1 := (pretty_token_shape sup t esc env pr start ks h k1 (by simp [hks])).2 c1
  have s2 := (pretty_token_shape sup t esc env pr start ks h k2 (by simp [hks])).1 c2
  have hk2 : (prettyBody k2).head? = some '<' := by
    rcases s2.2 with hh | ⟨⟨name, hn⟩, he⟩
    · simp [prettyBody, s2.1, hh]
    · exfalso
      obtain ⟨_, hi, pre', k1', hpre, _, _, hnl⟩ := pretty_empty_endTag sup t esc env pr start n inScope hat hs hok
        ks (pre ++ [k1]) post k2 h (by simp [hks]) name hn he
      have := congrArg List.getLast? hpre
      simp at this
      subst this
      rcases hw with hw | hw
      · rw [hnl] at hw; cases hw
      · omega
  refine ⟨?_, ?_, hk2⟩
  · rcases s1 with hh | ⟨⟨name, hn⟩, he⟩
    · simp [List.flatMap_append, prettyBody, List.getLast?_append, hh]
    · obtain ⟨hsp, _, pre', k0, hpre, htx, hsp0, _⟩ := pretty_empty_endTag sup t esc env pr start n inScope hat hs
        hok ks pre (k2 :: post) k1 h hks name hn he
      subst hpre
      simp [List.flatMap_append, prettyBody, List.getLast?_append, hsp, he, htx, hsp0,
        litEmptyTagClose]
  · simp only [List.flatMap_cons, List.head?_append, hk2, Option.some_or]

/-- The inserted run itself: line feed and blanks only. -/
theorem pretty_run_ws (k1 k2 : PrettyOutputToken) :
    ((if k1.newline then prettyNewline else []) ++
      (if k2.indentation > 0 then indentBytes k2.indentation else [])).all isWsChar = true := by
  simp only [List.all_append, Bool.and_eq_true]
  constructor
  · split <;> simp [prettyNewline, isWsChar]
  · split
    · exact indentBytes_ws _
    · rfl

end XotModel
