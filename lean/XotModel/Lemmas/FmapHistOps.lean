/-
  Lemmas for C11 histories, part 3: every model function behind a `MapOp2` as a `Touch` of the
  addressed element, with the reference-map operation of `specStep` as its meaning.
-/
import XotModel.Lemmas.FmapHistPrims

namespace XotModel
namespace Fmap
open HTree
open Forest (MapKind entryKey mapChildren MapEntry)

/-! ### Reference-map facts -/

theorem omModify_of_get_some (m : OMap Payload) (key : Nat) (G : Payload → Payload) (p0 : Payload)
    (h : omGet m key = some p0) : omModify m key G = omInsert m key (G p0) := by
  induction m with
  | nil => simp [omGet] at h
  | cons a m ih =>
    obtain ⟨ka, va⟩ := a
    simp only [omModify, omInsert]
    by_cases hk : ka = key
    · subst hk
      simp only [omGet, List.lookup, beq_self_eq_true, Option.some.injEq] at h
      subst h
      simp
    · simp only [if_neg hk]
      have hb : (key == ka) = false := by simpa using fun hh : key = ka => hk hh.symm
      simp only [omGet, List.lookup, hb] at h
      rw [ih h]

theorem contains_iff_get (m : OMap Payload) (key : Nat) :
    omContainsKey m key = true ↔ ∃ p, omGet m key = some p := by
  unfold omContainsKey
  cases omGet m key <;> simp

theorem get_none_of_not_contains (m : OMap Payload) (key : Nat) (h : omContainsKey m key = false) :
    omGet m key = none := by
  unfold omContainsKey at h
  cases hg : omGet m key with
  | none => rfl
  | some _ => rw [hg] at h; cases h

theorem getNode_none_iff (f : Forest) (k : MapKind) (e key : Nat) :
    f.mapGetNode k e key = none ↔ omContainsKey (abs k f e) key = false := by
  rw [← containsKey_eq]
  cases f.mapGetNode k e key <;> simp

theorem getNode_payload (f : Forest) (k : MapKind) (e key : Nat) (n : HTree)
    (h : f.mapGetNode k e key = some n) : omGet (abs k f e) key = some (payloadOf n.value) := by
  rw [← get_eq, h]; rfl

theorem mkEntry_matches (k : MapKind) (key : Nat) (p : Payload) : k.matches (mkEntry k key p) = true := by
  cases k <;> cases p <;> rfl

theorem mkEntry_key (k : MapKind) (key : Nat) (p : Payload) : entryKey (mkEntry k key p) = key := by
  cases k <;> cases p <;> rfl

theorem liftP_matches (k : MapKind) (g : Payload → Payload) (v : Value) :
    k.matches (liftP k g v) = true := mkEntry_matches _ _ _

/-! ### `insert` -/

theorem mapInsert_found (f : Forest) (k : MapKind) (e : Nat) (v : Value) (n : HTree)
    (he : f.isElement e = true) (hn : f.mapGetNode k e (entryKey v) = some n) :
    f.mapInsert k e v = (f.setValue n.handle (Forest.entryUpdate n.value v), .ok) := by
  simp [Forest.mapInsert, he, hn]

/-- A parentless entry leaf is appended: the key's entry takes the value, or the node becomes
    the last entry. -/
theorem touch_appendLeafRoot {f : Forest} (hi : f.Inv) (k : MapKind) (e nd : Nat) (v : Value)
    (he : f.isElement e = true) (hm : k.matches v = true) (hroot : HTree.node nd v [] ∈ f.roots) :
    (f.appendEntryNode k e nd).2.1 = .ok ∧
    Touch f (f.appendEntryNode k e nd).1 e k (opInsert v (abs k f e)) := by
  obtain ⟨nm, N, A, S, h⟩ := minv_of_inv f e hi he
  have hval : f.value? nd = some v := by
    simp [Forest.value?, leafRoot_get f hi.nodup nd v hroot, HTree.value]
  cases hn : f.mapGetNode k e (entryKey v) with
  | some n =>
    obtain ⟨_, _, heq, _, _⟩ := appendEntryNode_existing h k nd v hval hm n hn
    rw [heq]
    exact ⟨rfl, touch_setValue hi h k (entryKey v) n v hm hn⟩
  | none =>
    obtain ⟨hr, t, _⟩ := touch_place hi h k nd v hm hroot hn
    exact ⟨by rw [hr], t⟩

/-- `new_*_node(v)` followed by `append_*_node`. -/
theorem touch_appendNew {f : Forest} (hi : f.Inv) (k : MapKind) (e : Nat) (v : Value)
    (he : f.isElement e = true) (hm : k.matches v = true) :
    ((f.newNode v).1.appendEntryNode k e f.next).2.1 = .ok ∧
    Touch f ((f.newNode v).1.appendEntryNode k e f.next).1 e k (opInsert v (abs k f e)) := by
  have hi1 := newNode_inv f hi v
  have he1 := isElement_newNode f v e he
  have hroot : HTree.node f.next v [] ∈ (f.newNode v).1.roots := by simp [newNode_eq]
  have s := newNode_sameViews f hi v (matches_not_element k v hm)
  obtain ⟨hok, t⟩ := touch_appendLeafRoot hi1 k e f.next v he1 hm hroot
  rw [(s e).abs k] at t
  exact ⟨hok, t.precomp s⟩

theorem mapInsert_absent_eq (f : Forest) (hi : f.Inv) (k : MapKind) (e : Nat) (v : Value)
    (he : f.isElement e = true) (hm : k.matches v = true)
    (hn : f.mapGetNode k e (entryKey v) = none) :
    f.mapInsert k e v = res3 ((f.newNode v).1.appendEntryNode k e f.next) := by
  have hi1 := newNode_inv f hi v
  have he1 := isElement_newNode f v e he
  have hg : (f.newNode v).1.get? f.next = some (.node f.next v []) :=
    findList?_direct _ hi1.nodup (.node f.next v []) (by simp [newNode_eq])
  have hval : (f.newNode v).1.value? f.next = some v := by simp [Forest.value?, hg, HTree.value]
  have hn1 : (f.newNode v).1.mapGetNode k e (entryKey v) = none := by
    rw [getNode_none_iff] at hn ⊢
    rw [(newNode_sameViews f hi v (matches_not_element k v hm) e).abs k]
    exact hn
  simp only [Forest.mapInsert, he, hn, Forest.appendEntryNode, he1, hval, hm, Forest.mapInsertNode,
    hn1, res3, Bool.not_true, Bool.false_eq_true, if_false]
  rfl

theorem touch_mapInsert {f : Forest} (hi : f.Inv) (k : MapKind) (e : Nat) (v : Value)
    (he : f.isElement e = true) (hm : k.matches v = true) :
    (f.mapInsert k e v).2 = .ok ∧ Touch f (f.mapInsert k e v).1 e k (opInsert v (abs k f e)) := by
  cases hn : f.mapGetNode k e (entryKey v) with
  | some n =>
    obtain ⟨nm, N, A, S, h⟩ := minv_of_inv f e hi he
    rw [mapInsert_found f k e v n he hn]
    exact ⟨rfl, touch_setValue hi h k (entryKey v) n v hm hn⟩
  | none =>
    rw [mapInsert_absent_eq f hi k e v he hm hn]
    exact touch_appendNew hi k e v he hm

/-! ### `remove`, `clear` -/

theorem omRemove_absent_get (f : Forest) (k : MapKind) (e key : Nat)
    (hn : f.mapGetNode k e key = none) : omRemove (abs k f e) key = abs k f e :=
  omRemove_of_not_contains _ _ ((getNode_none_iff f k e key).mp hn)

theorem touch_mapRemove {f : Forest} (hi : f.Inv) (k : MapKind) (e key : Nat)
    (he : f.isElement e = true) :
    (f.mapRemove k e key).2 = .ok ∧
    Touch f (f.mapRemove k e key).1 e k (omRemove (abs k f e) key) := by
  cases hn : f.mapGetNode k e key with
  | some n =>
    obtain ⟨nm, N, A, S, h⟩ := minv_of_inv f e hi he
    have : f.mapRemove k e key = f.remove n.handle := by simp [Forest.mapRemove, he, hn]
    rw [this]
    exact touch_remove hi h k key n hn
  | none =>
    have : f.mapRemove k e key = (f, .ok) := by simp [Forest.mapRemove, he, hn]
    rw [this, omRemove_absent_get f k e key hn]
    exact ⟨rfl, Touch.refl hi he k⟩

theorem touch_mapClear {f : Forest} (hi : f.Inv) (k : MapKind) (e : Nat)
    (he : f.isElement e = true) :
    (f.mapClear k e).2 = .ok ∧ Touch f (f.mapClear k e).1 e k (omClear (abs k f e)) := by
  obtain ⟨nm, N, A, S, h⟩ := minv_of_inv f e hi he
  exact touch_clear hi h k

/-! ### Writing through `get_mut` / `and_modify` -/

/-- The forest after the payload of the entry under `key` was overwritten with `G` of it. -/
theorem touch_modify {f : Forest} (hi : f.Inv) (k : MapKind) (e key : Nat) (n : HTree)
    (entry : Value) (G : Payload → Payload) (he : f.isElement e = true)
    (hm : k.matches entry = true) (hn : f.mapGetNode k e key = some n)
    (hG : payloadOf entry = G (payloadOf n.value)) :
    Touch f (f.setValue n.handle (Forest.entryUpdate n.value entry)) e k
      (omModify (abs k f e) key G) := by
  obtain ⟨nm, N, A, S, h⟩ := minv_of_inv f e hi he
  rw [omModify_of_get_some _ key G _ (getNode_payload f k e key n hn), ← hG]
  exact touch_setValue hi h k key n entry hm hn

theorem omModify_absent_get (f : Forest) (k : MapKind) (e key : Nat) (G : Payload → Payload)
    (hn : f.mapGetNode k e key = none) : omModify (abs k f e) key G = abs k f e :=
  omModify_of_get_none _ _ _ (get_none_of_not_contains _ _ ((getNode_none_iff f k e key).mp hn))

theorem touch_getMutSet {f : Forest} (hi : f.Inv) (k : MapKind) (e key : Nat) (new : Value)
    (he : f.isElement e = true) (hm : k.matches new = true) :
    (f.mapGetMutSet k e key new).2.1 = .ok ∧
    Touch f (f.mapGetMutSet k e key new).1 e k
      (omModify (abs k f e) key (fun _ => payloadOf new)) := by
  cases hn : f.mapGetNode k e key with
  | some n =>
    have : f.mapGetMutSet k e key new =
        (f.setValue n.handle (Forest.entryUpdate n.value new), .ok, true) := by
      simp [Forest.mapGetMutSet, he, hn]
    rw [this]
    exact ⟨rfl, touch_modify hi k e key n new _ he hm hn rfl⟩
  | none =>
    have : f.mapGetMutSet k e key new = (f, .ok, false) := by
      simp [Forest.mapGetMutSet, he, hn]
    rw [this, omModify_absent_get f k e key _ hn]
    exact ⟨rfl, Touch.refl hi he k⟩

theorem getNode_cat {f : Forest} (hi : f.Inv) (k : MapKind) (e key : Nat) (n : HTree)
    (he : f.isElement e = true) (hn : f.mapGetNode k e key = some n) :
    n.value.category = kindCat k ∧ entryKey n.value = key := by
  obtain ⟨nm, N, A, S, h⟩ := minv_of_inv f e hi he
  have hn' := hn
  rw [h.getNode k] at hn'
  exact ⟨h.sect.sec_cat k n (List.mem_of_find?_eq_some hn'), (getNode_mem f k e key n hn).2⟩

theorem entryAndModify_found (f : Forest) (k : MapKind) (e key : Nat) (g : Value → Value) (n : HTree)
    (he : f.isElement e = true) (hn : f.mapGetNode k e key = some n) :
    f.entryAndModify k e key g =
      (f.setValue n.handle (Forest.entryUpdate n.value (g n.value)), .ok, .occupied key) := by
  have hc : omContainsKey (abs k f e) key = true := by rw [← containsKey_eq, hn]; rfl
  simp only [Forest.entryAndModify, he, mapEntry_eq, hc, hn, Bool.not_true, Bool.false_eq_true,
    if_false, if_true]

theorem entryAndModify_absent (f : Forest) (k : MapKind) (e key : Nat) (g : Value → Value)
    (he : f.isElement e = true) (hn : f.mapGetNode k e key = none) :
    f.entryAndModify k e key g = (f, .ok, .vacant key) := by
  have hc := (getNode_none_iff f k e key).mp hn
  simp only [Forest.entryAndModify, he, mapEntry_eq, hc, Bool.not_true, Bool.false_eq_true,
    if_false]

theorem liftP_payload (k : MapKind) (key : Nat) (g : Payload → Payload) (n : HTree)
    (hc : n.value.category = kindCat k) (hk : entryKey n.value = key) :
    payloadOf (liftP k g n.value) = modP k key g (payloadOf n.value) := by
  unfold modP
  rw [← hk, mkEntry_self k n.value hc]

theorem touch_entryAndModify {f : Forest} (hi : f.Inv) (k : MapKind) (e key : Nat)
    (g : Payload → Payload) (he : f.isElement e = true) :
    (f.entryAndModify k e key (liftP k g)).2.1 = .ok ∧
    Touch f (f.entryAndModify k e key (liftP k g)).1 e k
      (omModify (abs k f e) key (modP k key g)) := by
  cases hn : f.mapGetNode k e key with
  | some n =>
    rw [entryAndModify_found f k e key _ n he hn]
    obtain ⟨hc, hk⟩ := getNode_cat hi k e key n he hn
    exact ⟨rfl, touch_modify hi k e key n _ _ he (liftP_matches k g _) hn (liftP_payload k key g n hc hk)⟩
  | none =>
    rw [entryAndModify_absent f k e key _ he hn, omModify_absent_get f k e key _ hn]
    exact ⟨rfl, Touch.refl hi he k⟩

/-! ### The entry API -/

theorem vacInsert_fst (f : Forest) (k : MapKind) (e : Nat) (v : Value) :
    (f.vacInsert k e v).1 = (f.mapInsert k e v).1 := by
  unfold Forest.vacInsert
  cases f.mapInsert k e v with
  | mk f1 r => cases r <;> rfl

theorem occInsert_fst (f : Forest) (k : MapKind) (e : Nat) (v : Value) :
    (f.occInsert k e v).1 = (f.mapInsert k e v).1 := by
  unfold Forest.occInsert
  cases f.mapInsert k e v with
  | mk f1 r => cases r <;> simp <;> split <;> rfl

theorem occRemove_fst (f : Forest) (k : MapKind) (e key : Nat) :
    (f.occRemove k e key).1 = (f.mapRemove k e key).1 := by
  unfold Forest.occRemove
  cases f.mapRemove k e key with
  | mk f1 r => cases r <;> simp <;> split <;> rfl

theorem opInsert_of_contains_false (v : Value) (m : OMap Payload)
    (h : omContainsKey m (entryKey v) = false) : opOrInsert v m = opInsert v m := by
  simp [opOrInsert, h]

theorem touch_vacInsert {f : Forest} (hi : f.Inv) (k : MapKind) (e : Nat) (v : Value)
    (he : f.isElement e = true) (hm : k.matches v = true) :
    (f.vacInsert k e v).2 = .ok ∧ Touch f (f.vacInsert k e v).1 e k (opInsert v (abs k f e)) := by
  obtain ⟨nm, N, A, S, h⟩ := minv_of_inv f e hi he
  refine ⟨(vacInsert_refines h k v hm).2, ?_⟩
  rw [vacInsert_fst]
  exact (touch_mapInsert hi k e v he hm).2

theorem touch_occInsert {f : Forest} (hi : f.Inv) (k : MapKind) (e : Nat) (v : Value)
    (he : f.isElement e = true) (hm : k.matches v = true)
    (hc : omContainsKey (abs k f e) (entryKey v) = true) :
    (f.occInsert k e v).2 = .ok ∧ Touch f (f.occInsert k e v).1 e k (opInsert v (abs k f e)) := by
  obtain ⟨nm, N, A, S, h⟩ := minv_of_inv f e hi he
  refine ⟨(occInsert_refines h k v hm hc).2, ?_⟩
  rw [occInsert_fst]
  exact (touch_mapInsert hi k e v he hm).2

theorem touch_entryOrInsert {f : Forest} (hi : f.Inv) (k : MapKind) (e : Nat) (d : Value)
    (he : f.isElement e = true) (hm : k.matches d = true) :
    (f.entryOrInsert k e d).2 = .ok ∧
    Touch f (f.entryOrInsert k e d).1 e k (opOrInsert d (abs k f e)) := by
  unfold Forest.entryOrInsert opOrInsert
  rw [he, mapEntry_eq]
  simp only [Bool.not_true, Bool.false_eq_true, if_false]
  cases hc : omContainsKey (abs k f e) (entryKey d) with
  | true =>
    simp only [if_true]
    rw [occGetMut_eq, hc]
    exact ⟨rfl, Touch.refl hi he k⟩
  | false =>
    simp only [Bool.false_eq_true, if_false]
    exact touch_vacInsert hi k e d he hm

theorem touch_vacantInsert {f : Forest} (hi : f.Inv) (k : MapKind) (e : Nat) (d : Value)
    (he : f.isElement e = true) (hm : k.matches d = true) :
    (f.vacantInsert k e d).2 = .ok ∧
    Touch f (f.vacantInsert k e d).1 e k (opOrInsert d (abs k f e)) := by
  unfold Forest.vacantInsert opOrInsert
  rw [he, mapEntry_eq]
  simp only [Bool.not_true, Bool.false_eq_true, if_false]
  cases hc : omContainsKey (abs k f e) (entryKey d) with
  | true =>
    simp only [if_true]
    exact ⟨trivial, Touch.refl hi he k⟩
  | false =>
    simp only [Bool.false_eq_true, if_false]
    exact touch_vacInsert hi k e d he hm

theorem touch_occupiedInsert {f : Forest} (hi : f.Inv) (k : MapKind) (e : Nat) (v : Value)
    (he : f.isElement e = true) (hm : k.matches v = true) :
    (f.occupiedInsert k e v).2 = .ok ∧
    Touch f (f.occupiedInsert k e v).1 e k (opOccInsert v (abs k f e)) := by
  unfold Forest.occupiedInsert opOccInsert
  rw [he, mapEntry_eq]
  simp only [Bool.not_true, Bool.false_eq_true, if_false]
  cases hc : omContainsKey (abs k f e) (entryKey v) with
  | true =>
    simp only [if_true]
    exact touch_occInsert hi k e v he hm hc
  | false =>
    simp only [Bool.false_eq_true, if_false]
    exact ⟨trivial, Touch.refl hi he k⟩

theorem touch_entryInsert {f : Forest} (hi : f.Inv) (k : MapKind) (e : Nat) (v : Value)
    (he : f.isElement e = true) (hm : k.matches v = true) :
    (f.entryInsert k e v).2 = .ok ∧ Touch f (f.entryInsert k e v).1 e k (opInsert v (abs k f e)) := by
  unfold Forest.entryInsert
  rw [he, mapEntry_eq]
  simp only [Bool.not_true, Bool.false_eq_true, if_false]
  cases hc : omContainsKey (abs k f e) (entryKey v) with
  | true => simp only [if_true]; exact touch_occInsert hi k e v he hm hc
  | false => simp only [Bool.false_eq_true, if_false]; exact touch_vacInsert hi k e v he hm

theorem touch_entryRemove {f : Forest} (hi : f.Inv) (k : MapKind) (e key : Nat)
    (he : f.isElement e = true) :
    (f.entryRemove k e key).2 = .ok ∧
    Touch f (f.entryRemove k e key).1 e k (omRemove (abs k f e) key) := by
  obtain ⟨nm, N, A, S, h⟩ := minv_of_inv f e hi he
  refine ⟨(entryRemove_refines h k key).2, ?_⟩
  unfold Forest.entryRemove
  rw [he, mapEntry_eq]
  simp only [Bool.not_true, Bool.false_eq_true, if_false]
  cases hc : omContainsKey (abs k f e) key with
  | true =>
    simp only [if_true]
    rw [occRemove_fst]
    exact (touch_mapRemove hi k e key he).2
  | false =>
    simp only [Bool.false_eq_true, if_false]
    rw [omRemove_of_not_contains _ _ hc]
    exact Touch.refl hi he k

theorem touch_entryAndModifyOrInsert {f : Forest} (hi : f.Inv) (k : MapKind) (e : Nat) (d : Value)
    (g : Payload → Payload) (he : f.isElement e = true) (hm : k.matches d = true) :
    (f.entryAndModifyOrInsert k e d (liftP k g)).2 = .ok ∧
    Touch f (f.entryAndModifyOrInsert k e d (liftP k g)).1 e k
      (opModifyOrInsert k d g (abs k f e)) := by
  obtain ⟨nm, N, A, S, h⟩ := minv_of_inv f e hi he
  refine ⟨(entryAndModifyOrInsert_spec h k d (liftP k g) hm
    (fun v _ => liftP_matches k g v)).2.1, ?_⟩
  unfold Forest.entryAndModifyOrInsert opModifyOrInsert
  cases hn : f.mapGetNode k e (entryKey d) with
  | some n =>
    have hc : omContainsKey (abs k f e) (entryKey d) = true := by rw [← containsKey_eq, hn]; rfl
    rw [entryAndModify_found f k e _ _ n he hn]
    simp only [hc, if_true]
    obtain ⟨hcat, hk⟩ := getNode_cat hi k e _ n he hn
    exact touch_modify hi k e _ n _ _ he (liftP_matches k g _) hn (liftP_payload k _ g n hcat hk)
  | none =>
    have hc := (getNode_none_iff f k e (entryKey d)).mp hn
    rw [entryAndModify_absent f k e _ _ he hn]
    simp only [hc, Bool.false_eq_true, if_false]
    exact (touch_vacInsert hi k e d he hm).2

/-! ### Node-style removal -/

theorem touch_detachEntry {f : Forest} (hi : f.Inv) (k : MapKind) (e key : Nat)
    (he : f.isElement e = true) :
    let r : Forest × Res := match f.mapGetNode k e key with
      | some n => f.detach n.handle
      | none => (f, .ok)
    r.2 = .ok ∧ Touch f r.1 e k (omRemove (abs k f e) key) := by
  intro r
  cases hn : f.mapGetNode k e key with
  | some n =>
    obtain ⟨nm, N, A, S, h⟩ := minv_of_inv f e hi he
    obtain ⟨hok, t, _⟩ := touch_detach hi h k key n hn
    simp only [r, hn]
    exact ⟨hok, t⟩
  | none =>
    simp only [r, hn]
    rw [omRemove_absent_get f k e key hn]
    exact ⟨trivial, Touch.refl hi he k⟩

theorem touch_removeEntry {f : Forest} (hi : f.Inv) (k : MapKind) (e key : Nat)
    (he : f.isElement e = true) :
    let r : Forest × Res := match f.mapGetNode k e key with
      | some n => f.remove n.handle
      | none => (f, .ok)
    r.2 = .ok ∧ Touch f r.1 e k (omRemove (abs k f e) key) := by
  intro r
  cases hn : f.mapGetNode k e key with
  | some n =>
    obtain ⟨nm, N, A, S, h⟩ := minv_of_inv f e hi he
    simp only [r, hn]
    exact touch_remove hi h k key n hn
  | none =>
    simp only [r, hn]
    rw [omRemove_absent_get f k e key hn]
    exact ⟨trivial, Touch.refl hi he k⟩

end Fmap
end XotModel
