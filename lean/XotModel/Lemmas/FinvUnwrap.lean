/-
  Finv (C04), part 24: `element_unwrap`.  Step 1: `remove_element` evaluated on the explicit
  forest (the attribute / namespace children are spliced out one by one, then the element itself:
  its normal children take its place).
-/
import XotModel.Lemmas.FinvWrap

namespace XotModel
open HTree

theorem Sorted.append_iff {a b : List HTree} :
    Sorted (a ++ b) ↔ Sorted a ∧ Sorted b ∧ ∀ x ∈ a, ∀ y ∈ b, rankOf x ≤ rankOf y := by
  unfold Sorted
  rw [List.map_append, List.pairwise_append]
  constructor
  · intro ⟨h1, h2, h3⟩
    exact ⟨h1, h2, fun x hx y hy => h3 _ (List.mem_map.mpr ⟨x, hx, rfl⟩) _ (List.mem_map.mpr ⟨y, hy, rfl⟩)⟩
  · intro ⟨h1, h2, h3⟩
    refine ⟨h1, h2, fun p hp q hq => ?_⟩
    obtain ⟨x, hx, rfl⟩ := List.mem_map.mp hp
    obtain ⟨y, hy, rfl⟩ := List.mem_map.mp hq
    exact h3 x hx y hy

/-- Splicing the normal children `nk` of an element `T` into its parent's child list (non-strict
    part: everything but the adjacency of text nodes). -/
theorem KidsOK.splice {v : Value} {l r nk ab : List HTree} {T : HTree}
    (h : KidsOK false v (l ++ T :: r)) (hT : KidsOK false T.value (ab ++ nk))
    (hTe : T.value.isElement = true) (hnk : ∀ y ∈ nk, y.value.category = .normal) :
    KidsOK false v (l ++ nk ++ r) := by
  have hTn : T.value.category = .normal := by
    cases hv : T.value <;> simp_all [Value.isElement, Value.category]
  have hpk := parent_kind_of_kidsOK h (k := T) (by simp)
  obtain ⟨h1, h2, h3, h4, _⟩ := h
  have keys : ∀ c : Category, c ≠ .normal → KeysU c (l ++ T :: r) → KeysU c (l ++ nk ++ r) := by
    intro c hc hu
    unfold KeysU at *
    have e1 : (nk.filter (fun k => k.value.category == c)) = [] := by
      rw [List.filter_eq_nil_iff]
      intro y hy
      simp [hnk y hy, Ne.symm hc]
    have e2 : ((T :: r).filter (fun k => k.value.category == c)) = r.filter (fun k => k.value.category == c) := by
      rw [List.filter_cons]; simp [hTn, Ne.symm hc]
    simp only [List.filter_append, e1, e2, List.append_nil] at hu ⊢
    exact hu
  refine ⟨?_, ?_, keys _ (by decide) h3, keys _ (by decide) h4, fun hs => by cases hs⟩
  · intro y hy
    simp only [List.mem_append] at hy
    rcases hy with (hy | hy) | hy
    · exact h1 y (by simp [hy])
    · have hnd : y.value.isDocument = false := by
        have := hT.allowed y (by simp [hy])
        cases hv : T.value <;> simp_all [Value.isElement, kidAllowed]
      exact Forest.kidAllowed_of_parent hpk (hnk y hy) hnd
    · exact h1 y (by simp [hy])
  · have hs1 := Sorted.append_iff.mp h2
    obtain ⟨sl, sTr, cross⟩ := hs1
    have sTr' : Sorted ([T] ++ r) := sTr
    obtain ⟨_, sr, crossT⟩ := Sorted.append_iff.mp sTr'
    have hr2 : ∀ y ∈ r, 2 ≤ rankOf y := by
      intro y hy; have := crossT T (by simp) y hy; rwa [rankOf_normal hTn] at this
    have snk : Sorted nk := (Sorted.append_iff.mp hT.sorted).2.1
    rw [List.append_assoc]
    refine Sorted.append_iff.mpr ⟨sl, Sorted.append_iff.mpr ⟨snk, sr, ?_⟩, ?_⟩
    · intro x hx y hy
      have := hr2 y hy
      have h2' := fi_rank_le_two x.value.category
      simp only [rankOf] at this ⊢
      omega
    · intro x hx y hy
      rw [List.mem_append] at hy
      rcases hy with hy | hy
      · have h2' := fi_rank_le_two x.value.category
        simp only [rankOf, hnk y hy, Category.rank]
        exact h2'
      · exact cross x hx y (by simp [hy])

namespace Forest

/-- Splicing out a run of leaf children at the front of a child list. -/
theorem foldl_spliceOut_leaves (path : List ZipFrame) (fr : ZipFrame) (nk : List HTree) :
    ∀ (ab : List HTree) (g : Forest), g.allHandles.Nodup →
      g.roots = plug (path ++ [fr]) (ab ++ nk) → (∀ k ∈ ab, k.kids = []) →
      ab.foldl (fun acc k => acc.spliceOut k.handle) g = { g with roots := plug (path ++ [fr]) nk }
  | [], g, _, hr, _ => by
    simp only [List.foldl_nil, List.nil_append] at hr ⊢
    rw [← hr]
  | k :: ab, g, nd, hr, hleaf => by
    have lck : Loc g.roots k.handle (path ++ [fr]) [] k (ab ++ nk) := ⟨by rw [hr]; simp, rfl⟩
    have e := spliceOut_of_loc_ne lck (by simp) nd
    rw [hleaf k (by simp)] at e
    simp only [List.nil_append, List.append_nil] at e
    rw [List.foldl_cons, e]
    have nd' : ({ g with roots := plug (path ++ [fr]) (ab ++ nk) } : Forest).allHandles.Nodup := by
      have hp := spliceOut_perm nd (isLive_of_loc lck nd)
      rw [e] at hp
      exact List.Nodup.sublist (List.sublist_append_left _ _) (hp.symm.nodup nd)
    rw [foldl_spliceOut_leaves path fr nk ab _ nd' rfl (fun k' hk' => hleaf k' (by simp [hk']))]

/-- `remove_element` at a located non-root element. -/
theorem removeElement_of_loc {f : Forest} (hi : f.Inv) {node : Nat} {init : List ZipFrame} {fr : ZipFrame}
    {l : List HTree} {T : HTree} {r : List HTree} (lc : Loc f.roots node (init ++ [fr]) l T r) :
    f.removeElement node =
      { f with roots := plug (init ++ [fr]) (l ++ T.kids.dropWhile fiAbn ++ r) } := by
  have nd := hi.nodup
  have hTvalid := hi.validTree_of_loc lc
  rw [validTree_eq, Bool.and_eq_true] at hTvalid
  have hsplit : T.kids.takeWhile fiAbn ++ T.kids.dropWhile fiAbn = T.kids := List.takeWhile_append_dropWhile
  have hleaf : ∀ k ∈ T.kids.takeWhile fiAbn, k.kids = [] := by
    intro k hk
    have hkm : k ∈ T.kids := List.takeWhile_subset _ hk
    have hkv : validTree (!f.everOff) k = true := by
      obtain ⟨a, b, hab⟩ := List.append_of_mem hkm
      have := hTvalid.2
      rw [hab] at this
      simp only [validList_append, validList_cons, Bool.and_eq_true] at this
      exact this.2.1
    have hka : fiAbn k = true := by
      have := List.all_takeWhile (l := T.kids) (p := fiAbn)
      rw [List.all_eq_true] at this
      exact this k hk
    have hkc : k.value.category ≠ .normal := by simpa [fiAbn] using hka
    apply fi_kids_nil_of_valid hkv <;>
      cases hv : k.value <;> simp_all [Value.isElement, Value.isDocument, Value.category]
  unfold removeElement
  rw [get?_of_loc lc nd, abn_eq_not_isNormal]
  simp only
  have hroots : f.roots = plug ((init ++ [fr]) ++ [⟨l, node, T.value, r⟩]) (T.kids.takeWhile fiAbn ++ T.kids.dropWhile fiAbn) := by
    rw [plug_append, hsplit, lc.eq, ← lc.hk]
    simp [node_eta]
  rw [foldl_spliceOut_leaves (init ++ [fr]) ⟨l, node, T.value, r⟩ _ _ f nd hroots hleaf]
  have nd' : ({ f with roots := plug ((init ++ [fr]) ++ [⟨l, node, T.value, r⟩]) (T.kids.dropWhile fiAbn) } : Forest).allHandles.Nodup := by
    refine List.Nodup.sublist ?_ nd
    have key : ∀ (pth : List ZipFrame) (X Y : List HTree), (handlesList X).Sublist (handlesList Y) →
        (handlesList (plug pth X)).Sublist (handlesList (plug pth Y)) := by
      intro pth
      induction pth with
      | nil => intro X Y h; exact h
      | cons fr0 rest ih =>
        intro X Y h
        simp only [plug_cons, fi_handlesList_append, fi_handlesList_cons, fi_handles_node]
        exact List.Sublist.append_left (List.Sublist.append_right (List.Sublist.cons_cons _ (ih X Y h)) _) _
    unfold allHandles
    simp only
    rw [hroots]
    apply key
    rw [fi_handlesList_append]
    exact List.sublist_append_right _ _
  have lcT : Loc ({ f with roots := plug ((init ++ [fr]) ++ [⟨l, node, T.value, r⟩]) (T.kids.dropWhile fiAbn) } : Forest).roots
      node (init ++ [fr]) l (.node node T.value (T.kids.dropWhile fiAbn)) r :=
    ⟨by simp [plug_append], rfl⟩
  rw [spliceOut_of_loc_ne lcT (by simp) nd']
  simp

end Forest
theorem KidsOK.weaken {s : Bool} {v : Value} {ks : List HTree} (h : KidsOK s v ks) : KidsOK false v ks :=
  ⟨h.allowed, h.sorted, h.attrs, h.nss, fun hs => by cases hs⟩

theorem KidsOK.strengthen {v : Value} {ks : List HTree} (h : KidsOK false v ks)
    (ht : noAdjB (textFlags ks) = true) : KidsOK true v ks :=
  ⟨h.allowed, h.sorted, h.attrs, h.nss, fun _ => ht⟩

theorem noAdjB_snoc (x : List Bool) (b : Bool) : noAdjB (x ++ [b]) = (noAdjB x && !(lastB x && b)) := by
  rw [noAdjB_append]; simp [noAdjB, headB]

theorem noAdjB_glue (x : List Bool) (b : Bool) (y : List Bool) :
    noAdjB (x ++ b :: y) = (noAdjB (x ++ [b]) && noAdjB (b :: y)) := by
  rw [noAdjB_append, noAdjB_snoc, noAdjB_cons]
  simp only [headB, List.head?_cons, Option.getD_some]
  cases noAdjB x <;> cases noAdjB y <;> cases lastB x <;> cases b <;> cases (y.head?.getD false) <;> rfl

namespace Forest

theorem removeConsolidate_noop {g : Forest} {p n : Nat} (h : g.textOf p = none ∨ g.textOf n = none) :
    g.removeConsolidate (some p) (some n) = (g, false) := by
  unfold removeConsolidate
  split
  · rfl
  · simp only
    rcases h with h | h
    · rw [h]
    · cases g.textOf p <;> simp [h]

theorem fi_removeConsolidate_none_left (g : Forest) (n : Option Nat) :
    g.removeConsolidate none n = (g, false) := by
  unfold removeConsolidate
  split
  · rfl
  · cases n <;> rfl

theorem fi_removeConsolidate_none_right (g : Forest) (p : Option Nat) :
    g.removeConsolidate p none = (g, false) := by
  unfold removeConsolidate
  split
  · rfl
  · cases p <;> rfl

/-- Second half of `element_unwrap` (strict mode): consolidate `Lk` with its right neighbour, when
    everything to the left of `Lk` (inclusive) and everything to its right is in order. -/
theorem fixRight {g : Forest} (nd : g.allHandles.Nodup) (hcons : g.consolidation = true)
    {init : List ZipFrame} {fr : ZipFrame} {a : List HTree} {Lk : HTree} {r : List HTree}
    (hr : g.roots = plug (init ++ [fr]) (a ++ Lk :: r))
    (hstruct : KidsOK false fr.v (a ++ Lk :: r)) (hvalid : validList true (a ++ Lk :: r) = true)
    (hLn : Lk.value.category = .normal)
    (htl : noAdjB (textFlags (a ++ [Lk])) = true) (htr : noAdjB (textFlags r) = true) :
    ∃ Y X, (g.removeConsolidate (some Lk.handle) (g.nextSibling Lk.handle)).1 =
        { g with roots := plug (init ++ [fr]) Y } ∧
      (handlesList Y ++ X).Perm (handlesList (a ++ Lk :: r)) ∧ kidsOK true fr.v Y = true ∧
      validList true Y = true := by
  have lcL : Loc g.roots Lk.handle (init ++ [fr]) a Lk r := ⟨hr, rfl⟩
  have noop : (g.removeConsolidate (some Lk.handle) (g.nextSibling Lk.handle)).1 = g →
      noAdjB (textFlags (a ++ Lk :: r)) = true →
      ∃ Y X, (g.removeConsolidate (some Lk.handle) (g.nextSibling Lk.handle)).1 =
        { g with roots := plug (init ++ [fr]) Y } ∧
      (handlesList Y ++ X).Perm (handlesList (a ++ Lk :: r)) ∧ kidsOK true fr.v Y = true ∧
      validList true Y = true := by
    intro h1 h2
    refine ⟨a ++ Lk :: r, [], ?_, by simp, (kidsOK_iff _ _ _).mpr (hstruct.strengthen h2), hvalid⟩
    rw [h1, ← hr]
  cases r with
  | nil =>
    apply noop
    · rw [nextSibling_of_loc_snoc lcL nd]; simp [fi_removeConsolidate_none_right]
    · simpa using htl
  | cons Nr r0 =>
    have lcN : Loc g.roots Nr.handle (init ++ [fr]) (a ++ [Lk]) Nr r0 := ⟨by rw [hr]; simp, rfl⟩
    have htl' : noAdjB (textFlags a) = true ∧ (lastB (textFlags a) && Lk.value.isText) = false := by
      have := htl
      simp only [textFlags_append, textFlags_cons, textFlags_nil] at this
      rw [noAdjB_snoc, Bool.and_eq_true] at this
      exact ⟨this.1, by cases h : (lastB (textFlags a) && Lk.value.isText) <;> simp_all⟩
    have htr' : (Nr.value.isText && headB (textFlags r0)) = false ∧ noAdjB (textFlags r0) = true := by
      have := htr
      simp only [textFlags_cons] at this
      rw [noAdjB_cons, Bool.and_eq_true] at this
      exact ⟨by cases h : (Nr.value.isText && headB (textFlags r0)) <;> simp_all, this.2⟩
    by_cases hboth : Lk.value.isText = true ∧ Nr.value.isText = true
    · -- merge
      obtain ⟨hLt, hNt⟩ := hboth
      obtain ⟨ls, hLv⟩ := exists_text_of_isText hLt
      obtain ⟨ns, hNv⟩ := exists_text_of_isText hNt
      have hNn : Nr.value.category = .normal := category_normal_of_isText hNt
      have hNkids : Nr.kids = [] := by
        have : validTree true Nr = true := by
          simp only [validList_append, validList_cons, Bool.and_eq_true] at hvalid
          exact hvalid.2.2.1
        exact kids_nil_of_text this hNt
      have enext : g.nextSibling Lk.handle = some Nr.handle := by
        rw [nextSibling_of_loc_snoc lcL nd]; simp [hNn, hLn]
      have hroots : g.roots = plug (init ++ [fr]) (a ++ Lk :: ([] ++ Nr :: r0)) := by rw [hr]; simp
      rw [enext, removeConsolidate_merge nd hcons hroots hLv hNv hNkids]
      refine ⟨a ++ Lk.setValue (.text (ls ++ ns)) :: r0, [Nr.handle], by simp, ?_, ?_, ?_⟩
      · simp only [fi_handlesList_append, fi_handlesList_cons, handles_setValue, fi_handles_eq Nr, hNkids,
          fi_handlesList_nil, List.append_nil, List.append_assoc, List.cons_append, List.nil_append]
        refine List.Perm.append_left _ (List.Perm.append_left _ ?_)
        exact List.perm_append_comm (l₁ := handlesList r0) (l₂ := [Nr.handle])
      · refine (kidsOK_iff _ _ _).mpr (KidsOK.strengthen ?_ ?_)
        · have h1 : KidsOK false fr.v ((a ++ [Lk]) ++ Nr :: r0) := by simpa using hstruct
          have h2 : KidsOK false fr.v (a ++ Lk :: r0) := by simpa using h1.remove (fun hs => by cases hs)
          exact h2.sameKind (by rw [fi_setValue_value, hLv]; exact ⟨rfl, rfl, rfl, rfl⟩)
        · simp only [textFlags_append, textFlags_cons, fi_setValue_value, noAdjB_append, noAdjB_cons,
            Bool.and_eq_true, Bool.not_eq_true']
          simp only [hLt, hNt, Bool.true_and, Bool.and_true] at htl' htr'
          refine ⟨⟨htl'.1, ?_, htr'.2⟩, ?_⟩
          · simp only [Value.isText, Bool.true_and]; exact htr'.1
          · simp only [headB, List.head?_cons, Option.getD_some, Value.isText, Bool.and_true]
            exact htl'.2
      · simp only [validList_append, validList_cons, Bool.and_eq_true] at hvalid ⊢
        exact ⟨hvalid.1, validTree_setValue hvalid.2.1 (by rw [hLv]; intro x; rfl), hvalid.2.2.2⟩
    · -- nothing to merge
      apply noop
      · rw [nextSibling_of_loc_snoc lcL nd]
        simp only [List.head?_cons, Option.bind_some]
        split
        · have : g.textOf Lk.handle = none ∨ g.textOf Nr.handle = none := by
            by_cases hLt : Lk.value.isText = true
            · right
              have hNt : Nr.value.isText = false := by
                cases h : Nr.value.isText with
                | false => rfl
                | true => exact absurd ⟨hLt, h⟩ hboth
              exact textOf_none_of_value (value?_of_loc lcN nd) hNt
            · left
              exact textOf_none_of_value (value?_of_loc lcL nd) (by simpa using hLt)
          rw [removeConsolidate_noop this]
        · rw [fi_removeConsolidate_none_right]
      · simp only [textFlags_append, textFlags_cons, noAdjB_append, noAdjB_cons, Bool.and_eq_true,
          Bool.not_eq_true']
        refine ⟨⟨htl'.1, ⟨?_, htr'.1, htr'.2⟩⟩, ?_⟩
        · simp only [headB, List.head?_cons, Option.getD_some]
          cases h1 : Lk.value.isText with
          | false => rfl
          | true =>
            cases h2 : Nr.value.isText with
            | false => rfl
            | true => exact absurd ⟨h1, h2⟩ hboth
        · simp only [headB, List.head?_cons, Option.getD_some]
          exact htl'.2

/-- First half of `element_unwrap` (strict mode): consolidate the first unwrapped child `F` with
    its new left neighbour. -/
theorem fixLeft {g : Forest} (nd : g.allHandles.Nodup) (hcons : g.consolidation = true)
    {init : List ZipFrame} {fr : ZipFrame} {l : List HTree} {F : HTree} {q : List HTree}
    (hr : g.roots = plug (init ++ [fr]) (l ++ F :: q)) (hFn : F.value.category = .normal)
    (hFk : F.value.isText = true → F.kids = []) :
    (∃ l0 Pl ps fs, l = l0 ++ [Pl] ∧ Pl.value = .text ps ∧ F.value = .text fs ∧
      g.prevSibling F.handle = some Pl.handle ∧
      g.removeConsolidate (g.prevSibling F.handle) (some F.handle) =
        ({ g with roots := plug (init ++ [fr]) (l0 ++ Pl.setValue (.text (ps ++ fs)) :: q) }, true))
    ∨ (g.removeConsolidate (g.prevSibling F.handle) (some F.handle) = (g, false) ∧
        (lastText l && F.value.isText) = false) := by
  have lcF : Loc g.roots F.handle (init ++ [fr]) l F q := ⟨hr, rfl⟩
  by_cases hb : lastText l = true ∧ F.value.isText = true
  · left
    obtain ⟨l0, Pl, hl, hPt⟩ := exists_of_lastText hb.1
    obtain ⟨ps, hPv⟩ := exists_text_of_isText hPt
    obtain ⟨fs, hFv⟩ := exists_text_of_isText hb.2
    have hPn : Pl.value.category = .normal := category_normal_of_isText hPt
    have eprev : g.prevSibling F.handle = some Pl.handle := by
      rw [prevSibling_of_loc_snoc lcF nd, hl]; simp [hPn, hFn]
    have hroots : g.roots = plug (init ++ [fr]) (l0 ++ Pl :: ([] ++ F :: q)) := by rw [hr, hl]; simp
    refine ⟨l0, Pl, ps, fs, hl, hPv, hFv, eprev, ?_⟩
    rw [eprev, removeConsolidate_merge nd hcons hroots hPv hFv (hFk hb.2)]
    simp
  · right
    have hbf : (lastText l && F.value.isText) = false := by
      cases h1 : lastText l <;> cases h2 : F.value.isText <;> simp_all
    refine ⟨?_, hbf⟩
    rw [prevSibling_of_loc_snoc lcF nd]
    cases hl : l.getLast? with
    | none => simp [fi_removeConsolidate_none_left]
    | some Pl =>
      simp only [Option.bind_some]
      split
      · obtain ⟨l0, rfl⟩ : ∃ l0, l = l0 ++ [Pl] := by
          rcases List.eq_nil_or_concat l with h0 | ⟨l0, P', h0⟩
          · subst h0; simp at hl
          · rw [List.concat_eq_append] at h0; subst h0
            simp at hl; subst hl; exact ⟨l0, rfl⟩
        have lcP : Loc g.roots Pl.handle (init ++ [fr]) l0 Pl (F :: q) := ⟨by rw [hr]; simp, rfl⟩
        apply removeConsolidate_noop
        simp only [lastText_concat] at hbf
        by_cases hPt : Pl.value.isText = true
        · right
          exact textOf_none_of_value (value?_of_loc lcF nd) (by simpa [hPt] using hbf)
        · left
          exact textOf_none_of_value (value?_of_loc lcP nd) (by simpa using hPt)
      · rw [fi_removeConsolidate_none_left]

end Forest
end XotModel
