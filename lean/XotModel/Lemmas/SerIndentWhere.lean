/-
  C14_options_indent: the full parameter set (XML declaration), "differs only by added whitespace-only
  text nodes" (`AddsWs`), and where none is added: inside mixed or suppressed content (at any depth) and
  in the scope of `xml:space="preserve"`.
-/
import XotModel.Lemmas.SerIndentDoc

namespace XotModel
open Gen XotModel.Lex.Canon

variable (env : Env) (sup : List Nat)

/-! ### The full parameter set -/

/-- Without doctype, with indentation: the declaration bytes, then the indented body. -/
theorem xmlString_decl_pretty (p : XmlParams) (t : Tree) (start : Path) (hdt : p.doctype = none)
    (sup : List Nat) (hind : p.indentation = some sup) (s : Str) (hs : serializeXmlString env p t start = .ok s) :
    ∃ body, serializePretty env p.tokenParams sup t start = .ok body ∧ s = p.declBytes ++ body := by
  obtain ⟨dt, body, h1, h2, h3⟩ := xmlString_split xmlEscapers env p t start s hs
  simp only [DoctypeWritten, hdt] at h1
  subst h1
  refine ⟨body, ?_, by simpa using h3⟩
  unfold serializeXmlStringWith at h2
  rw [body_write, hind] at h2
  exact h2

/-- **C14_options_indent** (`parse`), full parameter set: indentation with any suppress list, any token
    parameters, with or without an XML declaration, no doctype. -/
theorem indent_decl_roundtrip (p : XmlParams) {t : Tree} (hr : Representable env t = true)
    (hdt : p.doctype = none) (hind : p.indentation = some sup)
    (henc : ∀ d e, p.declaration = some d → d.encoding = some e → Prolog.isEncName e = true)
    {s : Str} (hs : serializeXmlString env p t [] = .ok s) :
    ∃ q, parseString .document env s = .ok q ∧ q.tree = prettyTree sup t ∧ q.env = env := by
  obtain ⟨body, hb, rfl⟩ := xmlString_decl_pretty env p t [] hdt sup hind s hs
  cases hd : p.declaration with
  | none =>
    simp only [XmlParams.declBytes, hd, List.nil_append]
    exact indent_roundtrip env p.tokenParams sup hr hb
  | some d =>
    simp only [XmlParams.declBytes, hd]
    have hfrag : RepresentableFragment env t = true := by
      simp only [Representable, Bool.and_eq_true] at hr; exact hr.1
    obtain ⟨_, hdocv, _, _⟩ := (representableFragment_iff env t).mp hfrag
    cases t with
    | node v ks =>
      cases v <;> simp [Tree.value, Value.isDocument] at hdocv
      obtain ⟨rfl, ts, hser⟩ := serializePretty_document env p.tokenParams sup hr hb
      have hf := indentFacts env p.tokenParams sup hr hser
      obtain ⟨v, e, sa, sp, ts', hl, her⟩ := lexDocument_declaration_lines d _ hf.hmarkup hf.hlex
        (fun e he => isEncName_encChar (henc d e hd he))
      obtain ⟨p0, hb0, ht, he⟩ := hf.hbuild (strLen (d.bytes ++ renderLines (spellTopP env p.tokenParams sup ks)))
      obtain ⟨q, hq, h1, h2, _⟩ := build_erase_ok .document _
        (strLen (d.bytes ++ renderLines (spellTopP env p.tokenParams sup ks))) env _ ts' her.1.symm her.2 p0 hb0
      refine ⟨q, ?_, by rw [h1, ht], by rw [h2, he]⟩
      simp only [parseString, lexMode, hl, build_declaration_opt]
      exact hq

/-! ### Only whitespace-only text nodes are added -/

mutual
theorem AddsWs.refl : ∀ (n : Tree), AddsWs n n
  | .node v ks => .node v (AddsWsList.refl ks)
theorem AddsWsList.refl : ∀ (ks : List Tree), AddsWsList ks ks
  | [] => .nil
  | k :: ks => .cons (AddsWs.refl k) (AddsWsList.refl ks)
end

theorem wsNode_isWsText {w : Str} (hw : w.all isWsChar = true) : ∀ x ∈ wsNode w, x.isWsText = true := by
  intro x hx
  obtain ⟨rfl, hne⟩ := mem_wsNode hx
  have : w.isEmpty = false := by simpa using hne
  simp [Tree.isWsText, this, hw, -List.all_eq_true]

theorem addsWsList_ins_front {ws ks ks' : List Tree} (hws : ∀ x ∈ ws, x.isWsText = true)
    (h : AddsWsList ks ks') : AddsWsList ks (ws ++ ks') := by
  induction ws with
  | nil => exact h
  | cons w ws ih => exact .ins (hws w (by simp)) (ih (fun x hx => hws x (by simp [hx])))

mutual
theorem addsWs_prettyNode : ∀ (n : Tree) (ps : PStack), AddsWs n (prettyNode sup ps n)
  | .node v ks, ps => by
    cases v with
    | element name =>
      by_cases hc : (Tree.node (.element name) ks).firstChild?.isSome = true
      · simp only [prettyNode, hc, if_true]
        exact .node _ (addsWsList_prettyKids ks _ _ (gapOf_ws _) _ (wsNode_isWsText (gapEnd_ws _ ps)))
      · simp only [prettyNode, hc, Bool.false_eq_true, if_false]
        exact AddsWs.refl _
    | _ => exact AddsWs.refl _
theorem addsWsList_prettyKids : ∀ (ks : List Tree) (pc : PStack) (gap : Str), gap.all isWsChar = true →
    ∀ (tail : List Tree), (∀ x ∈ tail, x.isWsText = true) →
    AddsWsList ks (prettyNode.prettyKids sup pc gap ks ++ tail)
  | [], pc, gap, _, tail, ht => by
    simpa [prettyNode.prettyKids] using addsWsList_ins_front ht .nil
  | k :: ks, pc, gap, hg, tail, ht => by
    simp only [prettyNode.prettyKids, List.append_assoc, List.cons_append]
    apply addsWsList_ins_front
    · intro x hx
      split at hx
      · exact wsNode_isWsText hg x hx
      · cases hx
    · exact .cons (addsWs_prettyNode k pc) (addsWsList_prettyKids ks pc gap hg tail ht)
end

theorem addsWsList_map (ps : PStack) : ∀ (ks : List Tree), AddsWsList ks (ks.map (prettyNode sup ps))
  | [] => .nil
  | k :: ks => .cons (addsWs_prettyNode sup k ps) (addsWsList_map ps ks)

/-- **The tree the indented output is read as differs from the original only by added whitespace-only
    text nodes.** -/
theorem addsWs_prettyTree : ∀ (t : Tree), AddsWs t (prettyTree sup t)
  | .node v ks => .node v (addsWsList_map sup [] ks)

/-! ### Where none is added -/

theorem map_id_of_mem {α : Type} {f : α → α} : ∀ {l : List α}, (∀ x ∈ l, f x = x) → l.map f = l
  | [], _ => rfl
  | a :: l, h => by
    rw [List.map_cons, h a (by simp), map_id_of_mem (fun x hx => h x (by simp [hx]))]

/-- Inside mixed or suppressed content nothing is added, at any depth: the subtree is unchanged. -/
theorem prettyNode_mixed : ∀ (n : Tree) (ps : PStack), ps.inMixed = true → prettyNode sup ps n = n
  | .node v ks, ps, h => by
    cases v with
    | element name =>
      by_cases hc : (Tree.node (.element name) ks).firstChild?.isSome = true
      · have hm : PStack.inMixed (entryFor sup (.node (.element name) ks) :: ps) = true := by
          simp only [PStack.inMixed, List.any_cons, Bool.or_eq_true] at h ⊢
          exact .inr h
        have hg : PStack.getNewline (entryFor sup (.node (.element name) ks) :: ps) = false := by
          simp [PStack.getNewline, hm]
        simp only [prettyNode, hc, if_true, gapOf_notGranting hg, gapEnd_notGranting hg, prettyKids_nil_gap, wsNode,
          List.isEmpty_nil, List.append_nil]
        congr 1
        have : ∀ k ∈ ks, prettyNode sup (entryFor sup (.node (.element name) ks) :: ps) k = k := by
          intro k hk
          have : sizeOf k < sizeOf (Tree.node (.element name) ks) := by
            have := List.sizeOf_lt_of_mem hk
            simp only [Tree.node.sizeOf_spec]
            omega
          exact prettyNode_mixed k _ hm
        exact map_id_of_mem this
      · simp [prettyNode, hc]
    | _ => rfl
termination_by n => sizeOf n

/-- An element with a text child, or named in the suppress list: nothing is added anywhere inside it. -/
theorem prettyNode_mixed_element (ps : PStack) (name : Nat) (ks : List Tree)
    (h : hasInlineChild (.node (.element name) ks) = true ∨ sup.contains name = true) :
    prettyNode sup ps (.node (.element name) ks) = .node (.element name) ks := by
  by_cases hc : (Tree.node (.element name) ks).firstChild?.isSome = true
  · have he : entryFor sup (.node (.element name) ks) = .mixed :=
      (entryFor_mixed_iff sup _ name rfl).mpr h
    have hm : PStack.inMixed (entryFor sup (.node (.element name) ks) :: ps) = true := by
      simp [PStack.inMixed, he]
    have hg : PStack.getNewline (entryFor sup (.node (.element name) ks) :: ps) = false := by
      simp [PStack.getNewline, hm]
    simp only [prettyNode, hc, if_true, gapOf_notGranting hg, gapEnd_notGranting hg, prettyKids_nil_gap, wsNode,
      List.isEmpty_nil, List.append_nil]
    congr 1
    exact map_id_of_mem (fun k _ => prettyNode_mixed sup k _ hm)
  · simp [prettyNode, hc]

/-- In the scope of `xml:space="preserve"` (the innermost `preserve` / `default` among the open elements,
    the element itself included, is `preserve`) no white space node is added among the children; a
    descendant with `xml:space="default"` may get some again. -/
theorem prettyNode_preserve (ps : PStack) (name : Nat) (ks : List Tree)
    (h : PStack.inSpacePreserve (entryFor sup (.node (.element name) ks) :: ps) = true) :
    prettyNode sup ps (.node (.element name) ks) =
      .node (.element name) (ks.map (prettyNode sup (entryFor sup (.node (.element name) ks) :: ps))) := by
  by_cases hc : (Tree.node (.element name) ks).firstChild?.isSome = true
  · have hg : PStack.getNewline (entryFor sup (.node (.element name) ks) :: ps) = false := by
      simp [PStack.getNewline, h]
    simp only [prettyNode, hc, if_true, gapOf_notGranting hg, gapEnd_notGranting hg, prettyKids_nil_gap, wsNode,
      List.isEmpty_nil, List.append_nil]
  · have hnone : (Tree.node (.element name) ks).firstChild?.isNone = true := by
      cases h' : (Tree.node (.element name) ks).firstChild? <;> simp_all
    simp only [prettyNode, hc, Bool.false_eq_true, if_false]
    congr 1
    symm
    apply map_id_of_mem
    intro k hk
    have hab := firstChild_none_abnormal hnone k hk
    cases k with
    | node v kk =>
      cases v <;> simp [Tree.value, Value.isNormal, Value.category] at hab <;> rfl

end XotModel
