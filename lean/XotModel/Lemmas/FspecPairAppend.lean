/-
  FspecPairAppend — C05 for `append` and `prepend` against the PAIR reading of the consolidation
  clause (`Model/FspecSpec3.lean`: `specMoveP`), for EVERY forest satisfying the invariant —
  adjacent text nodes allowed (no `Forest.Normal`).

  Part 1 (this file): list facts (`mergeAdj` / `mergeNew` commute with maps over the children, the
  merges as plain functions `adjFn` / `newFn`), the package `Stage` (the forest `X` after xot's
  old-place consolidation, the forest `Y` after the cut, the destination child list in both) for
  the three geometries of the moved node (parentless, child of another node, child of the
  destination).
-/
import XotModel.Lemmas.FspecPair
import XotModel.Lemmas.FspecSamePrepend

namespace XotModel
open HTree Spec

namespace PairAppend

/-! ### `mergeAdj`, `mergeNew` under a map over the children -/

theorem joinLeft_map {φ : HTree → HTree} (hφ : KidMap φ) (x y : HTree) :
    joinLeft (φ x) (φ y) = (joinLeft x y).map φ := by
  unfold joinLeft
  rw [hφ.value, hφ.value]
  split
  · simp [hφ.setValue]
  · rfl

theorem joinRight_map {φ : HTree → HTree} (hφ : KidMap φ) (x y : HTree) :
    joinRight (φ x) (φ y) = (joinRight x y).map φ := by
  unfold joinRight
  rw [hφ.value, hφ.value]
  split
  · simp [hφ.setValue]
  · rfl

theorem natFor_mergeAdj {φ : HTree → HTree} (hφ : KidMap φ) (a b : Nat) : NatFor φ (mergeAdj a b)
  | [] => by simp [mergeAdj_nil]
  | [x] => by simp [mergeAdj_single]
  | x :: y :: rest => by
    have ih := natFor_mergeAdj hφ a b (y :: rest)
    simp only [List.map_cons] at ih ⊢
    rw [mergeAdj_cons_cons, mergeAdj_cons_cons, hφ.handle, hφ.handle, joinLeft_map hφ]
    split
    · cases joinLeft x y <;> simp
    · rw [ih]; simp

theorem natFor_mergeNewHead {φ : HTree → HTree} (hφ : KidMap φ) (t : HTree) (L : List HTree) :
    mergeNewHead (φ t) (L.map φ) = (mergeNewHead t L).map φ := by
  cases L with
  | nil => rfl
  | cons z rest =>
    simp only [List.map_cons, mergeNewHead, joinRight_map hφ]
    cases joinRight t z <;> simp

/-! ### The two merges of the specification as functions on one child list -/

/-- `mergeLeftAt` as a function on the child list. -/
def adjFn (cons : Bool) (nb : Option Nat × Option Nat) : List HTree → List HTree :=
  match cons, nb with
  | true, (some a, some b) => mergeAdj a b
  | _, _ => id

/-- `mergeNewAt` as a function on the child list. -/
def newFn (cons : Bool) (n : Nat) : List HTree → List HTree :=
  if cons then mergeNew n else id

theorem mergeLeftAt_eq (f : Forest) (p : Nat) (nb : Option Nat × Option Nat) :
    f.mergeLeftAt (some p) nb = f.editAt (some p) (adjFn f.consolidation nb) := by
  obtain ⟨a, b⟩ := nb
  cases a with
  | none => rw [Forest.mergeLeftAt_none_left]; cases f.consolidation <;> exact (Forest.editAt_id _ _).symm
  | some a =>
    cases b with
    | none => rw [Forest.mergeLeftAt_none_right]; cases f.consolidation <;> exact (Forest.editAt_id _ _).symm
    | some b =>
      rw [Forest.mergeLeftAt_some]
      cases f.consolidation
      · exact (Forest.editAt_id _ _).symm
      · rfl

theorem mergeNewAt_eq (f : Forest) (q n : Nat) :
    f.mergeNewAt q n = f.editAt (some q) (newFn f.consolidation n) := by
  unfold Forest.mergeNewAt newFn
  cases f.consolidation
  · exact (Forest.editAt_id _ _).symm
  · rfl

theorem natFor_adjFn {φ : HTree → HTree} (hφ : KidMap φ) (cons : Bool) (nb : Option Nat × Option Nat) :
    NatFor φ (adjFn cons nb) := by
  obtain ⟨a, b⟩ := nb
  cases cons <;> cases a <;> cases b <;> first | exact natFor_id φ | exact natFor_mergeAdj hφ _ _

theorem adjFn_off (nb : Option Nat × Option Nat) : adjFn false nb = id := by
  obtain ⟨a, b⟩ := nb
  cases a <;> cases b <;> rfl

theorem adjFn_none_left (cons : Bool) (b : Option Nat) : adjFn cons (none, b) = id := by
  cases cons <;> rfl

theorem adjFn_none_right (cons : Bool) (a : Option Nat) : adjFn cons (a, none) = id := by
  cases cons <;> cases a <;> rfl

theorem adjFn_on (a b : Nat) : adjFn true (some a, some b) = mergeAdj a b := rfl

/-- Nothing to merge when the children called `a`, `b` are not both text. -/
theorem mergeAdj_noop {a b : Nat} : ∀ (M : List HTree),
    (∀ x ∈ M, x.handle = a → ∀ y ∈ M, y.handle = b → ¬ (x.value.isText = true ∧ y.value.isText = true)) →
    mergeAdj a b M = M
  | [], _ => mergeAdj_nil a b
  | [x], _ => mergeAdj_single a b x
  | x :: y :: rest, h => by
    rw [mergeAdj_cons_cons]
    split
    · rename_i hh
      rw [joinLeft_none (h x (by simp) hh.1 y (by simp) hh.2)]
      rfl
    · rw [mergeAdj_noop (y :: rest) (fun x' hx' ex y' hy' ey =>
        h x' (List.mem_cons_of_mem _ hx') ex y' (List.mem_cons_of_mem _ hy') ey)]

theorem mem_insertFirstNormal {t x : HTree} : ∀ {L : List HTree}, x ∈ insertFirstNormal t L → x = t ∨ x ∈ L
  | [], h => by simp [insertFirstNormal] at h; exact Or.inl h
  | k :: ks, h => by
    simp only [insertFirstNormal] at h
    split at h
    · cases List.mem_cons.1 h with
      | inl e => exact Or.inl e
      | inr e => exact Or.inr e
    · cases List.mem_cons.1 h with
      | inl e => exact Or.inr (by rw [e]; simp)
      | inr e =>
        cases mem_insertFirstNormal e with
        | inl e' => exact Or.inl e'
        | inr e' => exact Or.inr (List.mem_cons_of_mem _ e')

theorem insertFirstNormal_append_normal (t : HTree) {a : HTree} (ha : a.value.isNormal = true) (R : List HTree) :
    ∀ l : List HTree, insertFirstNormal t (l ++ a :: R) = insertFirstNormal t l ++ a :: R
  | [] => by simp [insertFirstNormal, ha]
  | k :: ks => by
    simp only [List.cons_append, insertFirstNormal]
    split
    · rfl
    · rw [insertFirstNormal_append_normal t ha R ks]; rfl

/-! ### Children of a site -/

theorem getMem {f : Forest} {p : Nat} {v : Value} {L : List HTree} (s : SiteAt f p v L) {k : HTree} (hk : k ∈ L) :
    f.get? k.handle = some k := by
  obtain ⟨A, B, hAB⟩ := List.append_of_mem hk
  have s' : SiteAt f p v (A ++ k :: B) := hAB ▸ s
  exact s'.getKid

theorem parentMem {f : Forest} {p : Nat} {v : Value} {L : List HTree} (s : SiteAt f p v L) {k : HTree} (hk : k ∈ L) :
    f.parent? k.handle = some p := by
  obtain ⟨A, B, hAB⟩ := List.append_of_mem hk
  have s' : SiteAt f p v (A ++ k :: B) := hAB ▸ s
  exact Forest.parent?_of_ctx s'.ctx

/-- In a child list with distinct handles a child is determined by its handle. -/
theorem eq_of_handle {l : List HTree} {s : HTree} {r : List HTree} (nd : (handlesList (l ++ s :: r)).Nodup)
    {x : HTree} (hx : x ∈ l ++ s :: r) (e : x.handle = s.handle) : x = s := by
  obtain ⟨tl, tr⟩ := tops_ne_of_nodup nd
  cases List.mem_append.1 hx with
  | inl h => exact absurd e (tl x h)
  | inr h =>
    cases List.mem_cons.1 h with
    | inl h' => exact h'
    | inr h' => exact absurd e (tr x h')

theorem editAt_leaf {s : Nat} {g : List HTree → List HTree} {k : HTree} (hk : k.kids = []) (hne : k.handle ≠ s) :
    HTree.editAt s g k = k := by
  cases k with
  | node h v ks =>
    simp only [HTree.kids] at hk
    simp only [HTree.handle] at hne
    subst hk
    rw [editAt_node, if_neg hne]
    rfl

theorem textData_kidMap {φ : HTree → HTree} (hφ : KidMap φ) (k : HTree) : textData (φ k) = textData k := by
  unfold textData; rw [hφ.value]

theorem not_text_of_kids {vp : Value} (h : vp.isElement = true ∨ vp.isDocument = true) : vp.isText = false := by
  cases h with
  | inl h => cases vp <;> simp_all [Value.isElement, Value.isText]
  | inr h => cases vp <;> simp_all [Value.isDocument, Value.isText]

/-! ### The old-place consolidation, without `Forest.Normal` -/

/-- What xot's consolidation around the leaving node `t` (children `l ++ t :: r` of `po`) did:
    the forest `X` reached, with the child list `l1 ++ t :: r1`. -/
structure Old (f : Forest) (po : Nat) (vo : Value) (l : List HTree) (t : HTree) (r : List HTree)
    (X : Forest) (l1 r1 : List HTree) : Prop where
  hX : X = f.editAt (some po) (fun _ => l1 ++ t :: r1)
  sX : SiteAt X po vo (l1 ++ t :: r1)
  shape : (l1 = l ∧ r1 = r ∧ (f.consolidation = true → ∀ a b, l.getLast? = some a → r.head? = some b →
        ¬ (a.value.isText = true ∧ b.value.isText = true)))
    ∨ (f.consolidation = true ∧ ∃ l' a b r' x y, l = l' ++ [a] ∧ r = b :: r' ∧ a.value = .text x ∧
        b.value = .text y ∧ l1 = l' ++ [a.setValue (.text (x ++ y))] ∧ r1 = r')

theorem old_pair {f : Forest} {po : Nat} {vo : Value} {l : List HTree} {t : HTree} {r : List HTree}
    (inv : f.Inv) (so : SiteAt f po vo (l ++ t :: r)) :
    ∃ l1 r1, Old f po vo l t r (f.removeConsolidate (prevOf l t) (nextOf r t)).1 l1 r1 := by
  have hord := (validTree_node (so.valid inv.valid)).2.1
  have hleaf : ∀ k ∈ r, k.value.isText = true → k.kids = [] :=
    fun k hk => so.leaf inv.valid k (List.mem_append_right _ (List.mem_cons_of_mem _ hk))
  have so' : SiteAt f po vo (l ++ ([t] ++ r)) := so
  rcases oldSite (k := t) so' hleaf (hcat_of_ordered hord) with
    ⟨h1, h2⟩ | ⟨hc, l', a, b, r', x, y, el, er, hx, hy, _, _, h3⟩
  · refine ⟨l, r, ?_, ?_, Or.inl ⟨rfl, rfl, h2⟩⟩
    · rw [h1, so.congr (g := fun _ => l ++ t :: r) (g' := id) rfl, Forest.editAt_id]
    · rw [h1]; exact so
  · subst el er
    refine ⟨l' ++ [a.setValue (.text (x ++ y))], r', ?_, ?_, Or.inr ⟨hc, l', a, b, r', x, y, rfl, rfl, hx, hy, rfl, rfl⟩⟩
    · rw [h3]; simp
    · rw [h3]
      have := so.edit (fun _ => l' ++ a.setValue (.text (x ++ y)) :: ([t] ++ r')) (by
        simp only [fs_handlesList_append, handlesList_cons, setValue_handles, handlesList_nil, List.append_nil,
          List.append_assoc]
        refine (List.Sublist.refl _).append ((List.Sublist.refl _).append ((List.Sublist.refl _).append ?_))
        exact List.sublist_append_right _ _)
      simpa using this

namespace Old

variable {f : Forest} {po : Nat} {vo : Value} {l : List HTree} {t : HTree} {r : List HTree}
  {X : Forest} {l1 r1 : List HTree}

theorem cons_eq (O : Old f po vo l t r X l1 r1) : X.consolidation = f.consolidation := by
  rw [O.hX, Forest.editAt_consolidation]

/-- Nothing was merged: the specification's pair merge changes no list made of the old children
    and `t`. -/
theorem adj_id (nd : (handlesList (l ++ t :: r)).Nodup)
    (h : f.consolidation = true → ∀ a b, l.getLast? = some a → r.head? = some b →
      ¬ (a.value.isText = true ∧ b.value.isText = true))
    {M : List HTree} (hM : ∀ x ∈ M, x = t ∨ x ∈ l ++ r) :
    adjFn f.consolidation (l.getLast?.map (·.handle), r.head?.map (·.handle)) M = M := by
  rcases Bool.eq_false_or_eq_true f.consolidation with hc | hc
  case inr => rw [hc, adjFn_off]; rfl
  rw [hc]
  cases hl : l.getLast? with
  | none => rw [Option.map_none, adjFn_none_left]; rfl
  | some a =>
    cases hr : r.head? with
    | none => rw [Option.map_none, adjFn_none_right]; rfl
    | some b =>
      obtain ⟨l', el⟩ := List.getLast?_eq_some_iff.1 hl
      obtain ⟨r', er⟩ := List.head?_eq_some_iff.1 hr
      subst el er
      rw [Option.map_some, Option.map_some, adjFn_on]
      have nda : (handlesList (l' ++ a :: (t :: b :: r'))).Nodup := by
        have : l' ++ a :: (t :: b :: r') = (l' ++ [a]) ++ t :: b :: r' := by simp
        rw [this]; exact nd
      have ndb : (handlesList ((l' ++ [a] ++ [t]) ++ b :: r')).Nodup := by
        have : (l' ++ [a] ++ [t]) ++ b :: r' = (l' ++ [a]) ++ t :: b :: r' := by simp
        rw [this]; exact nd
      have hin : ∀ x ∈ M, x ∈ (l' ++ [a]) ++ t :: b :: r' := by
        intro x hx
        cases hM x hx with
        | inl e => rw [e]; simp
        | inr e =>
          cases List.mem_append.1 e with
          | inl e' => exact List.mem_append_left _ e'
          | inr e' => exact List.mem_append_right _ (List.mem_cons_of_mem _ e')
      apply mergeAdj_noop
      intro x hx ex y hy ey
      have hxa : x = a := eq_of_handle nda (by
        have := hin x hx
        simpa using this) ex
      have hyb : y = b := eq_of_handle ndb (by
        have := hin y hy
        simpa using this) ey
      rw [hxa, hyb]
      exact h hc a b hl (by simp)

/-- The specification's pair merge on the old child list without `t`. -/
theorem adj_plain (O : Old f po vo l t r X l1 r1) (nd : (handlesList (l ++ t :: r)).Nodup) :
    adjFn f.consolidation (l.getLast?.map (·.handle), r.head?.map (·.handle)) (l ++ r) = l1 ++ r1 := by
  rcases O.shape with ⟨e1, e2, h⟩ | ⟨hc, l', a, b, r', x, y, el, er, hx, hy, e1, e2⟩
  · rw [e1, e2]
    exact adj_id nd h (fun x hx => Or.inr hx)
  · subst el er
    rw [e1, e2, hc]
    have hl : (l' ++ [a]).getLast? = some a := by simp
    rw [hl, List.head?_cons, Option.map_some, Option.map_some, adjFn_on]
    have nda : (handlesList (l' ++ a :: (t :: b :: r'))).Nodup := by
      have : l' ++ a :: (t :: b :: r') = (l' ++ [a]) ++ t :: b :: r' := by simp
      rw [this]; exact nd
    have e : (l' ++ [a]) ++ b :: r' = l' ++ a :: b :: r' := by simp
    rw [e, mergeAdj_mid_text hx hy r' (tops_ne_of_nodup nda).1]
    simp

/-- … with `t` appended. -/
theorem adj_last (O : Old f po vo l t r X l1 r1) (nd : (handlesList (l ++ t :: r)).Nodup) :
    adjFn f.consolidation (l.getLast?.map (·.handle), r.head?.map (·.handle)) ((l ++ r) ++ [t]) = (l1 ++ r1) ++ [t] := by
  rcases O.shape with ⟨e1, e2, h⟩ | ⟨hc, l', a, b, r', x, y, el, er, hx, hy, e1, e2⟩
  · rw [e1, e2]
    exact adj_id nd h (fun x hx => by
      cases List.mem_append.1 hx with
      | inl e => exact Or.inr e
      | inr e => exact Or.inl (by simpa using e))
  · subst el er
    rw [e1, e2, hc]
    have hl : (l' ++ [a]).getLast? = some a := by simp
    rw [hl, List.head?_cons, Option.map_some, Option.map_some, adjFn_on]
    have nda : (handlesList (l' ++ a :: (t :: b :: r'))).Nodup := by
      have : l' ++ a :: (t :: b :: r') = (l' ++ [a]) ++ t :: b :: r' := by simp
      rw [this]; exact nd
    have e : ((l' ++ [a]) ++ b :: r') ++ [t] = l' ++ a :: b :: (r' ++ [t]) := by simp
    rw [e, mergeAdj_mid_text hx hy (r' ++ [t]) (tops_ne_of_nodup nda).1]
    simp

/-- … with `t` inserted as first normal child. -/
theorem adj_first (O : Old f po vo l t r X l1 r1) (nd : (handlesList (l ++ t :: r)).Nodup) :
    adjFn f.consolidation (l.getLast?.map (·.handle), r.head?.map (·.handle)) (insertFirstNormal t (l ++ r)) =
      insertFirstNormal t (l1 ++ r1) := by
  rcases O.shape with ⟨e1, e2, h⟩ | ⟨hc, l', a, b, r', x, y, el, er, hx, hy, e1, e2⟩
  · rw [e1, e2]
    exact adj_id nd h (fun x hx => mem_insertFirstNormal hx)
  · subst el er
    rw [e1, e2, hc]
    have hl : (l' ++ [a]).getLast? = some a := by simp
    rw [hl, List.head?_cons, Option.map_some, Option.map_some, adjFn_on]
    have nda : (handlesList (l' ++ a :: (t :: b :: r'))).Nodup := by
      have : l' ++ a :: (t :: b :: r') = (l' ++ [a]) ++ t :: b :: r' := by simp
      rw [this]; exact nd
    obtain ⟨tl, tr⟩ := tops_ne_of_nodup nda
    have han : a.value.isNormal = true := by rw [hx]; rfl
    have han' : (a.setValue (.text (x ++ y))).value.isNormal = true := by rw [setValue_value]; rfl
    have e : (l' ++ [a]) ++ b :: r' = l' ++ a :: b :: r' := by simp
    have e' : (l' ++ [a.setValue (.text (x ++ y))]) ++ r' = l' ++ a.setValue (.text (x ++ y)) :: r' := by simp
    rw [e, e', insertFirstNormal_append_normal t han, insertFirstNormal_append_normal t han',
      mergeAdj_mid_text hx hy r' (fun k hk => by
        cases mem_insertFirstNormal hk with
        | inl h => rw [h]; exact tr t (by simp)
        | inr h => exact tl k h)]

end Old

/-- Text children are leaves, also after the old-place consolidation. -/
theorem Old.leaf {f : Forest} {po : Nat} {vo : Value} {l : List HTree} {t : HTree} {r : List HTree}
    {X : Forest} {l1 r1 : List HTree} (O : Old f po vo l t r X l1 r1) (inv : f.Inv)
    (so : SiteAt f po vo (l ++ t :: r)) : ∀ k ∈ l1 ++ r1, k.value.isText = true → k.kids = [] := by
  have hl := so.leaf inv.valid
  have hsub : ∀ k ∈ l ++ r, k ∈ l ++ t :: r := by
    intro k hk
    cases List.mem_append.1 hk with
    | inl h => exact List.mem_append_left _ h
    | inr h => exact List.mem_append_right _ (List.mem_cons_of_mem _ h)
  rcases O.shape with ⟨e1, e2, _⟩ | ⟨hc, l', a, b, r', x, y, el, er, hx, hy, e1, e2⟩
  · rw [e1, e2]
    exact fun k hk => hl k (hsub k hk)
  · subst el er
    rw [e1, e2]
    intro k hk hkt
    cases List.mem_append.1 hk with
    | inl h =>
      cases List.mem_append.1 h with
      | inl h' => exact hl k (by simp [h']) hkt
      | inr h' =>
        have : k = a.setValue (.text (x ++ y)) := by simpa using h'
        rw [this, setValue_kids]
        exact hl a (by simp) (by rw [hx]; rfl)
    | inr h => exact hl k (by simp [h]) hkt

/-! ### The package: the forest after xot's old-place consolidation (`X`), after the cut (`Y`),
    and the destination child list in `Y` -/

structure Stage (X Y : Forest) (p c : Nat) (t : HTree) (vp : Value) (LY : List HTree) : Prop where
  xnd : X.allHandles.Nodup
  xget : X.get? c = some t
  xcut : X.editAt (X.parent? c) (dropTop c) = Y
  ysite : SiteAt Y p vp LY
  ynot : ∀ k ∈ LY, k.handle ≠ c
  xtext : ∀ k ∈ LY, X.textOf k.handle = textData k
  flow : ∀ a v, IsTop a LY → a ≠ c → t.kids = [] → (∀ ka ∈ LY, ka.handle = a → ka.value.isText = true) →
    (X.setValue a v).spliceOut c = Y.editAt (some p) (replaceTop a (fun k => [k.setValue v]))

theorem Stage.ycons {X Y : Forest} {p c : Nat} {t : HTree} {vp : Value} {LY : List HTree}
    (S : Stage X Y p c t vp LY) : Y.consolidation = X.consolidation := by
  rw [← S.xcut, Forest.editAt_consolidation]

theorem stage_of_far {X Y : Forest} {p c : Nat} {t : HTree} {vp : Value} {LY : List HTree} {keep : Keep}
    (F : Far X keep c t p vp LY X Y id) (hnot : ∀ k ∈ LY, k.handle ≠ c)
    (htext : ∀ k ∈ LY, X.textOf k.handle = textData k)
    (hleaf : ∀ k ∈ LY, k.value.isText = true → k.kids = []) : Stage X Y p c t vp LY :=
  ⟨F.xnd, F.xget, F.xcut, by have := F.ysite; rwa [List.map_id] at this, hnot, htext,
    fun a v hta hac hl hka => F.flow2 rfl a v hta hac hl (fun ka hk e => hleaf ka hk (hka ka hk e))⟩

/-- The moved node is a parentless tree. -/
theorem stage_root {f : Forest} {p c : Nat} {t : HTree} {vp : Value} {Lp : List HTree} (inv : f.Inv)
    (sp : SiteAt f p vp Lp) (hgc : f.get? c = some t) (hroot : f.ctx? c = none) (hpt : p ∉ handles t) :
    Stage f (f.editAt none (dropTop c)) p c t vp Lp := by
  refine stage_of_far (far_root (keep := Keep.earlier) hgc hroot sp hpt) ?_ ?_ (sp.leaf inv.valid)
  · intro k hk e
    have := parentMem sp hk
    rw [e, Forest.parent?_of_no_ctx hroot] at this
    cases this
  · intro k hk
    exact Forest.textOf_of_get (getMem sp hk)

/-- The moved node is a child of the destination parent. -/
theorem stage_same {X : Forest} {p : Nat} {vp : Value} {l1 : List HTree} {t : HTree} {r1 : List HTree}
    (sX : SiteAt X p vp (l1 ++ t :: r1)) (hleaf : ∀ k ∈ l1 ++ r1, k.value.isText = true → k.kids = []) :
    Stage X (X.editAt (some p) (dropTop t.handle)) p t.handle t vp (l1 ++ r1) := by
  obtain ⟨ndL, _⟩ := sX.nodupKids
  obtain ⟨tl, tr⟩ := tops_ne_of_nodup ndL
  have hsub : ∀ k ∈ l1 ++ r1, k ∈ l1 ++ t :: r1 := by
    intro k hk
    cases List.mem_append.1 hk with
    | inl h => exact List.mem_append_left _ h
    | inr h => exact List.mem_append_right _ (List.mem_cons_of_mem _ h)
  refine stage_of_far (far_same (keep := Keep.earlier) sX) ?_ ?_ hleaf
  · intro k hk
    cases List.mem_append.1 hk with
    | inl h => exact tl k h
    | inr h => exact tr k h
  · intro k hk
    exact Forest.textOf_of_get (getMem sX (hsub k hk))

/-- The moved node is a child of another node `po`. -/
theorem stage_kid {X : Forest} {po p : Nat} {vo vp : Value} {l1 : List HTree} {t : HTree} {r1 LX : List HTree}
    (sX : SiteAt X po vo (l1 ++ t :: r1)) (sXp : SiteAt X p vp LX) (hne : po ≠ p) (hpt : p ∉ handles t)
    (hvo : vo.isText = false) :
    Stage X (X.editAt (some po) (dropTop t.handle)) p t.handle t vp
      (LX.map (HTree.editAt po (dropTop t.handle))) := by
  have nd := sX.nd
  obtain ⟨ndL, _⟩ := sX.nodupKids
  have hpar : X.parent? t.handle = some po := Forest.parent?_of_ctx sX.ctx
  have hψ := kidMap_editAt po (dropTop t.handle)
  have sY : SiteAt (X.editAt (some po) (dropTop t.handle)) p vp (LX.map (HTree.editAt po (dropTop t.handle))) :=
    sX.other sXp.kids hne.symm (dropTop t.handle) (handlesList_dropTop_sublist _ _)
      (findList?_dropTop _ (fun k hk e => by rw [eq_of_handle ndL hk e]; exact hpt))
  refine ⟨nd, sX.getKid, by rw [hpar], sY, ?_, ?_, ?_⟩
  · intro k hk e
    obtain ⟨k0, hk0, ek⟩ := List.mem_map.1 hk
    rw [← ek, hψ.handle] at e
    have := parentMem sXp hk0
    rw [e, hpar] at this
    exact hne (Option.some.inj this)
  · intro k hk
    obtain ⟨k0, hk0, ek⟩ := List.mem_map.1 hk
    rw [← ek, hψ.handle, textData_kidMap hψ]
    exact Forest.textOf_of_get (getMem sXp hk0)
  · intro a v hta hac hleaf hatext
    obtain ⟨k, hk, eka⟩ := hta
    obtain ⟨ka, hka, ek⟩ := List.mem_map.1 hk
    have hkah : ka.handle = a := by rw [← eka, ← ek, hψ.handle]
    have hkat : ka.value.isText = true := by
      have := hatext k hk eka
      rwa [← ek, hψ.value] at this
    subst hkah
    have hpoa : po ≠ ka.handle := by
      intro e
      have := getMem sXp hka
      rw [← e, sX.kids] at this
      have := Option.some.inj this
      rw [← this] at hkat
      simp only [HTree.value] at hkat
      rw [hvo] at hkat; cases hkat
    obtain ⟨A, B, hAB⟩ := List.append_of_mem hka
    have sXp' : SiteAt X p vp (A ++ ka :: B) := hAB ▸ sXp
    have hset : X.setValue ka.handle v = X.editAt (some p) (replaceTop ka.handle (fun k => [k.setValue v])) :=
      Forest.setValue_of_ctx v nd sXp'.ctx
    rw [hset]
    have sZo := sXp.other sX.kids hne (replaceTop ka.handle (fun k => [k.setValue v]))
      (by rw [handlesList_setValTop]; exact List.Sublist.refl _)
      (findList?_setValTop v hpoa _)
    have hψt : HTree.editAt p (replaceTop ka.handle (fun k => [k.setValue v])) t = t := editAt_of_not_mem t hpt
    rw [List.map_append, List.map_cons, hψt] at sZo
    rw [Forest.spliceOut_leaf sZo.nd sZo.getKid hleaf, Forest.parent?_of_ctx sZo.ctx]
    exact Forest.editAt_comm X (p := po) (q := p) (g := dropTop t.handle)
      (g' := replaceTop ka.handle (fun k => [k.setValue v])) hne
      (natFor_dropTop (kidMap_editAt _ _) _) (natFor_setValTop (kidMap_editAt _ _) _ _)

end PairAppend
end XotModel
