/-
  Lemmas for C20 (extended construction programs), part 4: the SPECIFICATION preserves the C04
  invariant — `specRemove`, `specDetach`, `specUnwrap`, `specWrap` (this file), on the ordered-tree
  side, with the local-validity machinery of `Lemmas/FanyorderValid.lean` / `FanyorderInv.lean`.
  (C04 proves the same of the implementation; its lemma family cannot be imported next to C05's.)
-/
import XotModel.Lemmas.Fprog2Local
import XotModel.Lemmas.FspecAllFrame2

namespace XotModel
namespace Prog2
open HTree Spec Prog Fmap

/-- The strictness the invariant asks of every node. -/
def sx0 (f : Forest) : Nat → Bool := fun _ => !f.everOff

theorem valid0 {f : Forest} (inv : f.Inv) : validXList (sx0 f) f.roots = true := by
  show validXList (fun _ => !f.everOff) f.roots = true
  rw [validXList_const]; exact inv.valid

theorem strict0 {f : Forest} (inv : f.Inv) (q : Nat) : f.consolidation = false → sx0 f q = false := by
  intro hc
  rcases inv.consOn with h | h
  · rw [h] at hc; cases hc
  · show (!f.everOff) = false; rw [h]; rfl

/-- `Forest.Inv` of a new state from validity, distinct handles below `next`, unchanged flags. -/
theorem inv_of_valid {f g : Forest} (inv : f.Inv)
    (hc : g.consolidation = f.consolidation) (he : g.everOff = f.everOff) (hcor : g.corrupt = f.corrupt)
    (hval : validXList (sx0 f) g.roots = true)
    (hnd : g.allHandles.Nodup) (hbelow : ∀ z ∈ g.allHandles, z < g.next) : g.Inv := by
  refine ⟨by rw [hcor]; exact inv.notCorrupt, hnd, hbelow, ?_, by rw [hc, he]; exact inv.consOn⟩
  rw [he]
  have := hval
  show validList (!f.everOff) _ = true
  rw [← validXList_const]; exact this

/-- … when no handle is invented. -/
theorem inv_of_valid_count {f g : Forest} (inv : f.Inv)
    (hc : g.consolidation = f.consolidation) (he : g.everOff = f.everOff) (hcor : g.corrupt = f.corrupt)
    (hnext : g.next = f.next) (hval : validXList (sx0 f) g.roots = true)
    (hcount : ∀ z, g.allHandles.count z ≤ f.allHandles.count z) : g.Inv := by
  apply inv_of_valid inv hc he hcor hval
  · rw [List.nodup_iff_count]
    intro z
    exact Nat.le_trans (hcount z) ((List.nodup_iff_count.1 inv.nodup) z)
  · intro z hz
    rw [hnext]
    apply inv.below
    have hpos : 0 < g.allHandles.count z := List.count_pos_iff.2 hz
    exact List.count_pos_iff.1 (Nat.lt_of_lt_of_le hpos (hcount z))

/-- The site of a child, unpacked. -/
theorem site_of_kid {f : Forest} {n : Nat} {t : HTree} {cx : Ctx} (nd : f.allHandles.Nodup)
    (hg : f.get? n = some t) (hctx : f.ctx? n = some cx) :
    ∃ vo, cx.self = t ∧ t.handle = n ∧ SiteAt f cx.parent vo (cx.left ++ t :: cx.right) ∧
      f.parent? n = some cx.parent := by
  obtain ⟨e0, vo, so⟩ := SiteAt.of_ctx nd hctx
  have hself : cx.self = t := by
    have := Forest.get?_of_ctx nd hctx
    rw [hg] at this
    exact (Option.some.inj this).symm
  rw [hself] at so e0
  exact ⟨vo, hself, e0, so, Forest.parent?_of_ctx hctx⟩

/-! ### remove -/

theorem specRemove_fields (keep : Keep) (n : Nat) (f : Forest) :
    (specRemove keep n f).consolidation = f.consolidation ∧ (specRemove keep n f).everOff = f.everOff ∧
    (specRemove keep n f).corrupt = f.corrupt ∧ (specRemove keep n f).next = f.next := by
  unfold specRemove
  cases f.parent? n with
  | none => exact ⟨rfl, rfl, rfl, rfl⟩
  | some p =>
    simp only [Forest.mergeAt]
    split <;> exact ⟨rfl, rfl, rfl, rfl⟩

theorem specRemove_valid {f : Forest} {keep : Keep} {n : Nat} {t : HTree} (inv : f.Inv)
    (hg : f.get? n = some t) : validXList (sx0 f) (specRemove keep n f).roots = true := by
  have nd := inv.nodup
  have hv0 := valid0 inv
  rcases Forest.root_or_ctx hg with hroot | ⟨cx, hctx⟩
  · rw [specRemove_root (Forest.parent?_of_no_ctx (Forest.ctx_none_of_root nd hroot))]
    exact validXList_dropTop n hv0
  · obtain ⟨vo, _, htn, so, hpar⟩ := site_of_kid nd hg hctx
    rw [specRemove_kid hpar]
    obtain ⟨hlo, hmo⟩ := site_members (sx0 := sx0 f) so hv0 (fun _ _ h => h)
    exact merge_stage keep so hv0 (fun _ _ h => h) (strict0 inv _) (localOK_dropTop _ hlo)
      (validXList_dropTop _ hmo)

/-- **`specRemove` preserves the invariant.** -/
theorem specRemove_inv {f : Forest} {keep : Keep} {n : Nat} {t : HTree} (inv : f.Inv)
    (hg : f.get? n = some t) : (specRemove keep n f).Inv := by
  obtain ⟨a, b, c, d⟩ := specRemove_fields keep n f
  apply inv_of_valid_count inv a b c d (specRemove_valid inv hg)
  intro z
  have := count_specRemove (keep := keep) inv.nodup hg z
  omega

/-! ### detach -/

theorem mergeAt_none (f : Forest) (keep : Keep) : f.mergeAt keep none = f := rfl

/-- `specDetach` is `specRemove` plus the subtree as a new last root. -/
theorem specDetach_eq {f : Forest} {keep : Keep} {n : Nat} {t : HTree} (nd : f.allHandles.Nodup)
    (hg : f.get? n = some t) :
    specDetach keep n f = { specRemove keep n f with roots := (specRemove keep n f).roots ++ [t] } := by
  unfold specDetach specRemove
  rw [hg]
  simp only
  cases hp : f.parent? n with
  | none => rfl
  | some p =>
    have hpt : p ∉ handles t := by
      cases hctx : f.ctx? n with
      | none => rw [Forest.parent?_of_no_ctx hctx] at hp; cases hp
      | some cx =>
        obtain ⟨vo, _, _, so, hpar⟩ := site_of_kid nd hg hctx
        rw [hp] at hpar
        have e := Option.some.inj hpar
        obtain ⟨_, hpL⟩ := so.nodupKids
        intro hm
        apply hpL
        rw [← e, fs_handlesList_append, handlesList_cons]
        exact List.mem_append_right _ (List.mem_append_left _ hm)
    simp only [Forest.mergeAt, Forest.editAt]
    by_cases hc : f.consolidation = true
    · simp only [hc, if_true, insertLast, List.map_append, List.map_cons, List.map_nil]
      rw [editAt_of_not_mem t hpt]
    · simp only [hc, Bool.false_eq_true, if_false]
      rfl

theorem specDetach_inv {f : Forest} {keep : Keep} {n : Nat} {t : HTree} (inv : f.Inv)
    (hg : f.get? n = some t) : (specDetach keep n f).Inv := by
  rw [specDetach_eq inv.nodup hg]
  obtain ⟨a, b, c, d⟩ := specRemove_fields keep n f
  apply inv_of_valid_count (g := { specRemove keep n f with roots := (specRemove keep n f).roots ++ [t] }) inv a b c d
  · show validXList (sx0 f) ((specRemove keep n f).roots ++ [t]) = true
    rw [validXList_append, Bool.and_eq_true]
    refine ⟨specRemove_valid inv hg, ?_⟩
    rw [validXList_cons, Bool.and_eq_true]
    exact ⟨validX_findList f.roots t (valid0 inv) hg, rfl⟩
  · intro z
    have := count_specRemove (keep := keep) inv.nodup hg z
    show (handlesList ((specRemove keep n f).roots ++ [t])).count z ≤ _
    rw [fs_handlesList_append, List.count_append, handlesList_cons, handlesList_nil, List.append_nil]
    exact this

/-! ### element_unwrap -/

theorem specUnwrap_fields (keep : Keep) (n : Nat) (f : Forest) :
    (specUnwrap keep n f).consolidation = f.consolidation ∧ (specUnwrap keep n f).everOff = f.everOff ∧
    (specUnwrap keep n f).corrupt = f.corrupt ∧ (specUnwrap keep n f).next = f.next := by
  unfold specUnwrap
  cases f.parent? n with
  | none => exact ⟨rfl, rfl, rfl, rfl⟩
  | some p =>
    simp only [Forest.mergeAt]
    split <;> exact ⟨rfl, rfl, rfl, rfl⟩

theorem specUnwrap_kid {f : Forest} {keep : Keep} {n p : Nat} (h : f.parent? n = some p) :
    specUnwrap keep n f = f.editAt (some p)
      (mergeOpt f.consolidation keep ∘ replaceTop n (fun w => w.kids.filter (fun k => k.value.isNormal))) := by
  unfold specUnwrap
  rw [h, mergeAt_eq_mergeOpt, Forest.editAt_consolidation, Forest.editAt_editAt]

/-- The parent of a child is an element or a document. -/
theorem holds_of_kid {v : Value} {k : Value} (h : kidAllowed v k = true) :
    v.isElement = true ∨ v.isDocument = true := by
  cases v <;> simp_all [kidAllowed, Value.isElement, Value.isDocument]

theorem validX_kids {sx : Nat → Bool} {w : HTree} (h : validX sx w = true) :
    localOK (sx w.handle) w.value w.kids = true ∧ validXList sx w.kids = true := by
  cases w with
  | node hw vw ks =>
    rw [validX_node, Bool.and_eq_true] at h
    exact h

/-- **`specUnwrap` preserves the invariant** (the wrapper is an element; with normal children it has
    a parent). -/
theorem specUnwrap_inv {f : Forest} {keep : Keep} {n : Nat} {w : HTree} (inv : f.Inv)
    (hg : f.get? n = some w) (hel : w.value.isElement = true)
    (hpar : w.kids.filter (fun k => k.value.isNormal) = [] ∨ (f.parent? n).isSome = true) :
    (specUnwrap keep n f).Inv := by
  have nd := inv.nodup
  have hv0 := valid0 inv
  by_cases hK : w.kids.filter (fun k => k.value.isNormal) = []
  · rw [specUnwrap_eq_specRemove nd hg hK]
    exact specRemove_inv inv hg
  · have hsome : (f.parent? n).isSome = true := by
      rcases hpar with h | h
      · exact absurd h hK
      · exact h
    cases hctx : f.ctx? n with
    | none => rw [Forest.parent?_of_no_ctx hctx] at hsome; cases hsome
    | some cx =>
      obtain ⟨vo, _, hwn, so, hp⟩ := site_of_kid nd hg hctx
      obtain ⟨a, b, c, d⟩ := specUnwrap_fields keep n f
      obtain ⟨ndL, _⟩ := so.nodupKids
      obtain ⟨tl, tr⟩ := tops_ne_of_nodup ndL
      rw [hwn] at tl
      have hrep : replaceTop n (fun w => w.kids.filter (fun k => k.value.isNormal)) (cx.left ++ w :: cx.right) =
          cx.left ++ w.kids.filter (fun k => k.value.isNormal) ++ cx.right := replaceTop_mid hwn tl
      obtain ⟨hlo, hmo⟩ := site_members (sx0 := sx0 f) so hv0 (fun _ _ h => h)
      -- the wrapper and its children
      have hwv : validX (sx0 f) w = true := validX_findList f.roots w hv0 hg
      have hwn' : w.value.isNormal = true := by
        cases hv : w.value <;> simp_all [Value.isElement, Value.isNormal, Value.category]
      have hwal : kidAllowed vo w.value = true := by
        simp only [localOK, Bool.and_eq_true, List.all_eq_true] at hlo
        exact hlo.1.1.1.1 w (by simp)
      have hvo := holds_of_kid hwal
      obtain ⟨hwl, hwk⟩ := validX_kids hwv
      have hkal : ∀ x ∈ w.kids.filter (fun k => k.value.isNormal), kidAllowed vo x.value = true ∧ x.value.isNormal = true := by
        intro x hx
        obtain ⟨hxk, hxn⟩ := List.mem_filter.1 hx
        simp only [localOK, Bool.and_eq_true, List.all_eq_true] at hwl
        have h1 := hwl.1.1.1.1 x hxk
        have hxn' : x.value.isNormal = true := by simpa using hxn
        refine ⟨?_, hxn'⟩
        have hxd : x.value.isDocument = false := by
          cases hv : w.value <;> simp_all [kidAllowed, Value.isElement]
        exact kidAllowed_of hvo hxn' hxd
      apply inv_of_valid_count inv a b c d
      · rw [specUnwrap_kid hp]
        apply merge_stage keep so hv0 (fun _ _ h => h) (strict0 inv _)
        · rw [hrep]
          exact localOK_replace_mid hlo hwn' hkal
        · rw [hrep]
          exact validXList_replace_mid hmo (validXList_sublist List.filter_sublist hwk)
      · intro z
        rw [specUnwrap_kid hp]
        have h1 := so.count (mergeOpt f.consolidation keep ∘
          replaceTop n (fun w => w.kids.filter (fun k => k.value.isNormal))) z
        simp only [Function.comp] at h1
        rw [hrep] at h1
        have h2 := (mergeOpt_sublist f.consolidation keep
          (cx.left ++ w.kids.filter (fun k => k.value.isNormal) ++ cx.right)).count_le z
        have h3 := count_replace_kids z cx.left cx.right w (w.kids.filter (fun k => k.value.isNormal))
          List.filter_sublist
        omega

/-! ### element_wrap -/

/-- … when exactly one fresh handle (`f.next`) may appear. -/
theorem inv_of_valid_fresh {f g : Forest} (inv : f.Inv)
    (hc : g.consolidation = f.consolidation) (he : g.everOff = f.everOff) (hcor : g.corrupt = f.corrupt)
    (hnext : g.next = f.next + 1) (hval : validXList (sx0 f) g.roots = true)
    (hcount : ∀ z, g.allHandles.count z ≤ f.allHandles.count z + (if z = f.next then 1 else 0)) : g.Inv := by
  have hfresh : f.allHandles.count f.next = 0 := by
    rw [List.count_eq_zero]
    intro hm
    exact Nat.lt_irrefl _ (inv.below _ hm)
  apply inv_of_valid inv hc he hcor hval
  · rw [List.nodup_iff_count]
    intro z
    have h1 := hcount z
    have h2 := (List.nodup_iff_count.1 inv.nodup) z
    by_cases hz : z = f.next
    · rw [if_pos hz] at h1
      rw [hz] at h1 ⊢
      omega
    · rw [if_neg hz] at h1
      omega
  · intro z hz
    rw [hnext]
    have hpos : 0 < g.allHandles.count z := List.count_pos_iff.2 hz
    have h1 := hcount z
    by_cases hzn : z = f.next
    · omega
    · rw [if_neg hzn] at h1
      have : z ∈ f.allHandles := List.count_pos_iff.1 (by omega)
      have := inv.below z this
      omega

theorem localOK_single {b : Bool} {name : Nat} {t : HTree} (hn : t.value.isNormal = true)
    (hd : t.value.isDocument = false) : localOK b (.element name) [t] = true := by
  have hc : t.value.category = .normal := normal_category.1 hn
  simp [localOK, kidAllowed, hd, kidsOrdered, keysUnique, noAdjacentText, hc]

theorem specWrap_fields (n name : Nat) (f : Forest) {t : HTree} (hg : f.get? n = some t) :
    (specWrap n name f).consolidation = f.consolidation ∧ (specWrap n name f).everOff = f.everOff ∧
    (specWrap n name f).corrupt = f.corrupt ∧ (specWrap n name f).next = f.next + 1 := by
  unfold specWrap
  rw [hg]
  simp only
  cases f.parent? n with
  | none => exact ⟨rfl, rfl, rfl, rfl⟩
  | some p => exact ⟨rfl, rfl, rfl, rfl⟩

/-- **`specWrap` preserves the invariant** (the wrapped node is an element, text, comment or PI). -/
theorem specWrap_inv {f : Forest} {n name : Nat} {t : HTree} (inv : f.Inv) (hg : f.get? n = some t)
    (hn : t.value.isNormal = true) (hd : t.value.isDocument = false) : (specWrap n name f).Inv := by
  have nd := inv.nodup
  have hv0 := valid0 inv
  obtain ⟨a, b, c, d⟩ := specWrap_fields n name f hg
  have htv : validX (sx0 f) t = true := validX_findList f.roots t hv0 hg
  have hwv : validX (sx0 f) (.node f.next (.element name) [t]) = true := by
    rw [validX_node, Bool.and_eq_true]
    refine ⟨localOK_single hn hd, ?_⟩
    rw [validXList_cons, Bool.and_eq_true]
    exact ⟨htv, rfl⟩
  have hwc : ∀ z, (handles (.node f.next (.element name) [t])).count z =
      (handles t).count z + (if z = f.next then 1 else 0) := by
    intro z
    rw [handles_node, handlesList_cons, handlesList_nil, List.append_nil, List.count_cons]
    by_cases hz : z = f.next
    · simp [hz]
    · have : (f.next == z) = false := by simpa using fun e => hz e.symm
      simp [hz, this]
  apply inv_of_valid_fresh inv a b c d
  · rcases Forest.root_or_ctx hg with hroot | ⟨cx, hctx⟩
    · have hpar := Forest.parent?_of_no_ctx (Forest.ctx_none_of_root nd hroot)
      unfold specWrap
      rw [hg]
      simp only [hpar]
      show validXList (sx0 f) (dropTop n f.roots ++ [.node f.next (.element name) [t]]) = true
      rw [validXList_append, Bool.and_eq_true, validXList_cons, Bool.and_eq_true]
      exact ⟨validXList_dropTop n hv0, hwv, rfl⟩
    · obtain ⟨vo, _, htn, so, hp⟩ := site_of_kid nd hg hctx
      obtain ⟨ndL, _⟩ := so.nodupKids
      obtain ⟨tl, _⟩ := tops_ne_of_nodup ndL
      rw [htn] at tl
      have hrep : replaceTop n (fun k => [HTree.node f.next (.element name) [k]]) (cx.left ++ t :: cx.right) =
          cx.left ++ [.node f.next (.element name) [t]] ++ cx.right := replaceTop_mid htn tl
      unfold specWrap
      rw [hg]
      simp only [hp]
      show validXList (sx0 f) (f.editAt (some cx.parent) (replaceTop n (fun k => [HTree.node f.next (.element name) [k]]))).roots = true
      have hsite : validX (sx0 f) (.node cx.parent vo (cx.left ++ t :: cx.right)) = true :=
        validX_findList f.roots _ hv0 so.kids
      rw [validX_node, Bool.and_eq_true] at hsite
      obtain ⟨hloS, hmo⟩ := hsite
      have htal : kidAllowed vo t.value = true := by
        have := hloS
        simp only [localOK, Bool.and_eq_true, List.all_eq_true] at this
        exact this.1.1.1.1 t (by simp)
      have hvo := holds_of_kid htal
      apply stage so hv0 (fun _ _ h => h)
      · rw [hrep]
        have e : cx.left ++ [HTree.node f.next (.element name) [t]] ++ cx.right =
            cx.left ++ HTree.node f.next (.element name) [t] :: cx.right := by simp
        rw [e]
        exact localOK_replace_one hloS hn (kidAllowed_of hvo rfl rfl) rfl rfl
      · rw [hrep]
        exact validXList_replace_mid hmo (by rw [validXList_cons, Bool.and_eq_true]; exact ⟨hwv, rfl⟩)
  · intro z
    rcases Forest.root_or_ctx hg with hroot | ⟨cx, hctx⟩
    · have hpar := Forest.parent?_of_no_ctx (Forest.ctx_none_of_root nd hroot)
      unfold specWrap
      rw [hg]
      simp only [hpar]
      show (handlesList (dropTop n f.roots ++ [.node f.next (.element name) [t]])).count z ≤ _
      rw [fs_handlesList_append, List.count_append, handlesList_cons, handlesList_nil, List.append_nil, hwc z]
      have := count_dropTop_root nd hg hroot z
      omega
    · obtain ⟨vo, _, htn, so, hp⟩ := site_of_kid nd hg hctx
      obtain ⟨ndL, _⟩ := so.nodupKids
      obtain ⟨tl, _⟩ := tops_ne_of_nodup ndL
      rw [htn] at tl
      have hrep : replaceTop n (fun k => [HTree.node f.next (.element name) [k]]) (cx.left ++ t :: cx.right) =
          cx.left ++ [.node f.next (.element name) [t]] ++ cx.right := replaceTop_mid htn tl
      unfold specWrap
      rw [hg]
      simp only [hp]
      show (f.editAt (some cx.parent) (replaceTop n (fun k => [HTree.node f.next (.element name) [k]]))).allHandles.count z ≤ _
      have h1 := so.count (replaceTop n (fun k => [HTree.node f.next (.element name) [k]])) z
      rw [hrep] at h1
      have e : cx.left ++ [HTree.node f.next (.element name) [t]] ++ cx.right =
          cx.left ++ HTree.node f.next (.element name) [t] :: cx.right := by simp
      rw [e] at h1
      have h2 := count_handles_mid z cx.left t cx.right
      have h3 := count_handles_mid z cx.left (HTree.node f.next (.element name) [t]) cx.right
      have h4 := hwc z
      omega

end Prog2
end XotModel
