/-
  C06 lemmas: the attribute / namespace maps (`insert`, `insert_node`, `remove`, `clear`,
  `append_attribute_node`, `append_namespace_node`, `any_append`) and the setters.
-/
import XotModel.Lemmas.FatomInv

namespace XotModel
open HTree

namespace Forest

theorem mapChildren_sub (k : MapKind) (t : HTree) : ∀ c ∈ mapChildren k t, c ∈ t.kids := by
  intro c hc
  unfold mapChildren at hc
  cases k with
  | namespaces => exact (List.takeWhile_sublist _).subset hc
  | attributes =>
    exact (List.dropWhile_sublist _).subset ((List.takeWhile_sublist _).subset hc)

theorem mapChildren_matches (k : MapKind) (t : HTree) : ∀ c ∈ mapChildren k t,
    k.matches c.value = true := by
  intro c hc
  unfold mapChildren at hc
  cases k with
  | namespaces =>
    have := mem_takeWhile_imp' _ _ _ hc
    cases hv : c.value <;> simp_all [Value.category, MapKind.matches]
  | attributes =>
    have := mem_takeWhile_imp' _ _ _ hc
    cases hv : c.value <;> simp_all [Value.category, MapKind.matches]

theorem matches_leaf {k : MapKind} {v : Value} (h : k.matches v = true) :
    v.isElement = false ∧ v.isDocument = false := by
  cases k <;> cases v <;> simp_all [MapKind.matches, Value.isElement, Value.isDocument]

theorem mapInsertionPoint_spec {f : Forest} (w : f.W) {k : MapKind} {parent ip : Nat}
    (e : f.mapInsertionPoint k parent = some ip) :
    f.parent? ip = some parent ∧ ∃ t c, f.get? parent = some t ∧ c ∈ t.kids ∧ c.handle = ip ∧
      (c ∈ mapChildren k t ∨ (mapChildren k t = [] ∧ c.value.category = .namespace)) := by
  unfold mapInsertionPoint at e
  cases hg : f.get? parent with
  | none => rw [hg] at e; cases e
  | some t =>
    rw [hg] at e
    simp only at e
    cases hl : (mapChildren k t).getLast? with
    | some l =>
      rw [hl] at e
      simp only [Option.some.injEq] at e
      have hm := List.mem_of_getLast? hl
      have hk := mapChildren_sub k t l hm
      exact ⟨e ▸ (kid_spec w hg hk).2, t, l, rfl, hk, e, Or.inl hm⟩
    | none =>
      rw [hl] at e
      simp only at e
      have hemp : mapChildren k t = [] := List.getLast?_eq_none_iff.1 hl
      cases k with
      | namespaces => cases e
      | attributes =>
        simp only at e
        cases hl2 : (t.kids.takeWhile (fun c => c.value.category == .namespace)).getLast? with
        | none => rw [hl2] at e; cases e
        | some l =>
          rw [hl2] at e
          simp only [Option.map_some, Option.some.injEq] at e
          have hm := List.mem_of_getLast? hl2
          have hk : l ∈ t.kids := (List.takeWhile_sublist _).subset hm
          have hp := mem_takeWhile_imp' _ _ _ hm
          exact ⟨e ▸ (kid_spec w hg hk).2, t, l, rfl, hk, e, Or.inr ⟨hemp, by simpa using hp⟩⟩

theorem mapGetNode_spec {f : Forest} (w : f.W) {k : MapKind} {parent key : Nat} {n : HTree}
    (e : f.mapGetNode k parent key = some n) :
    f.get? n.handle = some n ∧ k.matches n.value = true ∧ n.kids = [] := by
  unfold mapGetNode at e
  cases hg : f.get? parent with
  | none => rw [hg] at e; cases e
  | some t =>
    rw [hg] at e
    simp only at e
    have hm := List.mem_of_find?_eq_some e
    have hk := mapChildren_sub k t n hm
    have hmatch := mapChildren_matches k t n hm
    have hgn := (kid_spec w hg hk).1
    refine ⟨hgn, hmatch, ?_⟩
    obtain ⟨h1, h2⟩ := matches_leaf hmatch
    exact leafOk_kids_nil (findList?_leafOk _ f.roots n w.leaves hgn) h1 h2

/-- Placing an entry node at the insertion point of the map never panics when the node is not
    the insertion point itself and not an ancestor of the element. -/
theorem mapPlace_ok {f : Forest} (w : f.W) {k : MapKind} {parent node : Nat}
    (hel : f.isElement parent = true) (hl : f.isLive node = true) (hne : parent ≠ node)
    (hanc : node ∉ f.ancestors parent)
    (hip : ∀ ip, f.mapInsertionPoint k parent = some ip → ip ≠ node) :
    OkRes f (f.mapPlace k parent node) := by
  have hlp : f.isLive parent = true := by
    rw [isLive_iff_value?]; obtain ⟨n, e⟩ := isElement_value hel; rw [e]; rfl
  unfold mapPlace
  cases hmi : f.mapInsertionPoint k parent with
  | none =>
    have := (checkedUnder_ok w hne hanc hl hlp (Or.inl hel)).2
    simp only [this.ok, if_true]
    obtain ⟨tc, hg⟩ := get?_of_isLive hl
    exact ⟨rfl, this.w, (this.frame tc hg).corrupt⟩
  | some ip =>
    have hpar := (mapInsertionPoint_spec w hmi).1
    have hne' : ip ≠ node := hip ip hmi
    have hanc' : node ∉ f.ancestors ip := by
      rw [ancestors_step w hpar]
      intro h'
      rcases List.mem_cons.1 h' with e | e
      · exact hne' e.symm
      · exact hanc e
    have := (checkedBeside_ok w hne' hanc' (isRoot_false_of_parent w hpar) hl
      (parent?_live hpar).1).1
    simp only [this.ok, if_true]
    obtain ⟨tc, hg⟩ := get?_of_isLive hl
    exact ⟨rfl, this.w, (this.frame tc hg).corrupt⟩

theorem okRes_setLeaf {f : Forest} (w : f.W) {h : Nat} {t : HTree} (hg : f.get? h = some t)
    (hk : t.kids = []) (v : Value) : OkRes f (f.setValue h v, .ok) :=
  ⟨rfl, setValue_W w h v (fun t' e => by rw [hg] at e; injection e with e; subst e; exact Or.inl hk),
    rfl⟩

/-- `MutableNodeMap::insert`: the documented panic on a non-element, otherwise carried out. -/
theorem mapInsert_outcome {f : Forest} (w : f.W) (k : MapKind) (parent : Nat) (entry : Value) :
    (f.isElement parent = false ∧ f.mapInsert k parent entry = (f, .panic)) ∨
    (f.isElement parent = true ∧ OkRes f (f.mapInsert k parent entry)) := by
  unfold mapInsert
  cases hel : f.isElement parent with
  | false => left; simp
  | true =>
    right
    refine ⟨rfl, ?_⟩
    simp only [Bool.not_true, Bool.false_eq_true, if_false]
    cases hgn : f.mapGetNode k parent (entryKey entry) with
    | some n =>
      obtain ⟨h1, _, h3⟩ := mapGetNode_spec w hgn
      exact okRes_setLeaf w h1 h3 _
    | none =>
      simp only
      have hlp : f.isLive parent = true := by
        rw [isLive_iff_value?]; obtain ⟨n, e⟩ := isElement_value hel; rw [e]; rfl
      obtain ⟨hwr, w1, fr1, hg1, hr1, hdead⟩ := newNode_spec w entry
      have kp := newNode_kept w entry hlp
      rcases hnew : f.newNode entry with ⟨f1, h⟩
      rw [hnew] at hwr w1 fr1 hg1 hr1 kp
      simp only at hwr w1 fr1 hg1 hr1 kp
      subst hwr
      have hne : parent ≠ f.next := fun e => by rw [e, hdead] at hlp; cases hlp
      have hanc : f.next ∉ f1.ancestors parent := by
        rw [kp.anc]; intro h'; rw [ancestors_live w h'] at hdead; cases hdead
      have hip : ∀ ip, f1.mapInsertionPoint k parent = some ip → ip ≠ f.next := by
        intro ip e he
        have := (mapInsertionPoint_spec w1 e).1
        rw [he, isRoot_noParent w1 hr1] at this
        cases this
      have m := mapPlace_ok w1 (by rw [kp.isElement]; exact hel) (isRoot_live hr1) hne hanc hip
      exact ⟨m.ok, m.w, by rw [m.corrupt, fr1.corrupt]⟩

theorem mapRemove_outcome {f : Forest} (w : f.W) (k : MapKind) (parent key : Nat) :
    (f.isElement parent = false ∧ f.mapRemove k parent key = (f, .panic)) ∨
    (f.isElement parent = true ∧ OkRes f (f.mapRemove k parent key)) := by
  unfold mapRemove
  cases hel : f.isElement parent with
  | false => left; simp
  | true =>
    right
    refine ⟨rfl, ?_⟩
    simp only [Bool.not_true, Bool.false_eq_true, if_false]
    cases f.mapGetNode k parent key with
    | some n => exact remove_ok w n.handle
    | none => exact ⟨rfl, w, rfl⟩

theorem foldRemove_ok : ∀ (L : List HTree) (f g : Forest), g.W → g.corrupt = f.corrupt →
    (L.foldl (fun acc c => (acc.remove c.handle).1) g).W ∧
    (L.foldl (fun acc c => (acc.remove c.handle).1) g).corrupt = f.corrupt
  | [], _, _, w, hc => ⟨w, hc⟩
  | c :: L, f, g, w, hc => by
    simp only [List.foldl_cons]
    have m := remove_ok w c.handle
    exact foldRemove_ok L f _ m.w (by rw [m.corrupt, hc])

theorem mapClear_outcome {f : Forest} (w : f.W) (k : MapKind) (parent : Nat) :
    (f.isElement parent = false ∧ f.mapClear k parent = (f, .panic)) ∨
    (f.isElement parent = true ∧ OkRes f (f.mapClear k parent)) := by
  unfold mapClear
  cases hel : f.isElement parent with
  | false => left; simp
  | true =>
    right
    refine ⟨rfl, ?_⟩
    simp only [Bool.not_true, Bool.false_eq_true, if_false]
    cases f.get? parent with
    | none => exact ⟨rfl, w, rfl⟩
    | some t =>
      obtain ⟨h1, h2⟩ := foldRemove_ok (mapChildren k t) f f w rfl
      exact ⟨rfl, h1, h2⟩

/-- `insert_node` with an entry node of the right kind. -/
theorem mapInsertNode_ok {f : Forest} (w : f.W) {k : MapKind} {parent node : Nat} {v : Value}
    (hel : f.isElement parent = true) (hv : f.value? node = some v) (hm : k.matches v = true) :
    OkRes f ((f.mapInsertNode k parent node).1, (f.mapInsertNode k parent node).2.1) := by
  have hl : f.isLive node = true := by rw [isLive_iff_value?, hv]; rfl
  obtain ⟨tn, hgn⟩ := get?_of_isLive hl
  have htv : tn.value = v := by
    unfold value? at hv; rw [hgn] at hv; simpa using hv
  obtain ⟨l1, l2⟩ := matches_leaf hm
  have hleaf : tn.kids = [] :=
    leafOk_kids_nil (findList?_leafOk _ f.roots tn w.leaves hgn) (htv ▸ l1) (htv ▸ l2)
  unfold mapInsertNode
  simp only [hv, hm, Bool.not_true, Bool.false_eq_true, if_false]
  cases hgk : f.mapGetNode k parent (entryKey v) with
  | some e =>
    obtain ⟨h1, _, h3⟩ := mapGetNode_spec w hgk
    exact okRes_setLeaf w h1 h3 _
  | none =>
    simp only
    have hne : parent ≠ node := by
      intro e
      rw [e] at hel
      unfold isElement at hel
      rw [hv] at hel
      simp [l1] at hel
    have hanc : node ∉ f.ancestors parent := leaf_not_ancestor w hgn hleaf hne.symm
    have hip : ∀ ip, f.mapInsertionPoint k parent = some ip → ip ≠ node := by
      intro ip e he
      obtain ⟨_, t, c, hgt, hck, hch, hcase⟩ := mapInsertionPoint_spec w e
      have hcn : c = tn := by
        have := (kid_spec w hgt hck).1
        rw [hch, he, hgn] at this
        injection this with this; exact this.symm
      rcases hcase with hin | ⟨_, hcat⟩
      · unfold mapGetNode at hgk
        rw [hgt] at hgk
        simp only at hgk
        have := List.find?_eq_none.1 hgk c hin
        rw [hcn, htv] at this
        simp at this
      · rw [hcn, htv] at hcat
        cases k <;> cases v <;> simp_all [MapKind.matches, Value.category]
        all_goals
          unfold mapInsertionPoint at e
          rw [hgt] at e
          simp_all
    exact mapPlace_ok w hel hl hne hanc hip

/-- `append_attribute_node` / `append_namespace_node`: refused with nothing changed or carried
    out. -/
theorem appendEntryNode_outcome {f : Forest} (w : f.W) (k : MapKind) (parent child : Nat)
    (hl : f.isLive child = true) :
    ((f.appendEntryNode k parent child).1 = f ∧
      (f.appendEntryNode k parent child).2.1 = .err .invalidOperation) ∨
    OkRes f ((f.appendEntryNode k parent child).1, (f.appendEntryNode k parent child).2.1) := by
  unfold appendEntryNode
  cases hel : f.isElement parent with
  | false => left; simp
  | true =>
    simp only [Bool.not_true, Bool.false_eq_true, if_false]
    cases hv : f.value? child with
    | none => rw [isLive_iff_value?, hv] at hl; cases hl
    | some v =>
      simp only
      cases hm : k.matches v with
      | false => left; simp
      | true =>
        right
        simp only [Bool.not_true, Bool.false_eq_true, if_false]
        exact mapInsertNode_ok w hel hv hm

/-- `any_append`: refused with nothing changed or carried out. -/
theorem anyAppend_outcome {f : Forest} (w : f.W) (parent child : Nat) (hl : f.isLive child = true) :
    ((f.anyAppend parent child).1 = f ∧ (f.anyAppend parent child).2.1 = .err .invalidOperation) ∨
    OkRes f ((f.anyAppend parent child).1, (f.anyAppend parent child).2.1) := by
  have happ : ((f.append parent child).1 = f ∧ (f.append parent child).2 = .err .invalidOperation) ∨
      OkRes f ((f.append parent child).1, (f.append parent child).2) := by
    rcases append_outcome w parent child with m | m
    · left; rw [m]; exact ⟨rfl, rfl⟩
    · right; exact ⟨m.ok, m.w, m.corrupt⟩
  unfold anyAppend
  cases hv : f.value? child with
  | none => exact happ
  | some v =>
    cases v <;> first
      | exact happ
      | exact appendEntryNode_outcome w .namespaces parent child hl
      | exact appendEntryNode_outcome w .attributes parent child hl

/-! ### Setters -/

theorem leaf_of_value {f : Forest} (w : f.W) {x : Nat} {v : Value} (hv : f.value? x = some v)
    (h1 : v.isElement = false) (h2 : v.isDocument = false) :
    ∃ t, f.get? x = some t ∧ t.kids = [] := by
  have hl : f.isLive x = true := by rw [isLive_iff_value?, hv]; rfl
  obtain ⟨t, hg⟩ := get?_of_isLive hl
  have htv : t.value = v := by unfold value? at hv; rw [hg] at hv; simpa using hv
  exact ⟨t, hg, leafOk_kids_nil (findList?_leafOk _ f.roots t w.leaves hg) (htv ▸ h1) (htv ▸ h2)⟩

theorem setElementName_outcome {f : Forest} (w : f.W) (node name : Nat) :
    (f.isElement node = false ∧ f.setElementName node name = (f, .panic)) ∨
    (f.isElement node = true ∧ OkRes f (f.setElementName node name)) := by
  unfold setElementName
  cases hel : f.isElement node with
  | false => left; simp
  | true =>
    right
    refine ⟨rfl, ?_⟩
    simp only [if_true]
    exact ⟨rfl, setValue_W w node _ (fun _ _ => Or.inr (Or.inl rfl)), rfl⟩

theorem setText_outcome {f : Forest} (w : f.W) (node : Nat) (s : Str) :
    f.setText node s = (f, .err .invalidOperation) ∨ OkRes f (f.setText node s) := by
  unfold setText
  cases ht : f.isText node with
  | false => left; simp
  | true =>
    right
    simp only [if_true]
    unfold isText at ht
    cases hv : f.value? node with
    | none => rw [hv] at ht; simp at ht
    | some v =>
      rw [hv] at ht
      have hvt : v.isText = true := by simpa using ht
      obtain ⟨t, hg, hk⟩ := leaf_of_value w hv (by cases v <;> simp_all [Value.isText, Value.isElement])
        (by cases v <;> simp_all [Value.isText, Value.isDocument])
      exact okRes_setLeaf w hg hk _

theorem setComment_outcome {f : Forest} (w : f.W) (node : Nat) (s : Str) :
    (∃ e, f.setComment node s = (f, .err e)) ∨ OkRes f (f.setComment node s) := by
  unfold setComment
  cases hv : f.value? node with
  | none => left; exact ⟨_, rfl⟩
  | some v =>
    cases v with
    | comment c =>
      simp only
      cases hasDoubleDash s with
      | true => left; exact ⟨_, rfl⟩
      | false =>
        right
        obtain ⟨t, hg, hk⟩ := leaf_of_value w hv rfl rfl
        exact okRes_setLeaf w hg hk _
    | _ => left; exact ⟨_, rfl⟩

theorem setPiData_outcome {f : Forest} (w : f.W) (node : Nat) (d : Option Str) :
    f.setPiData node d = (f, .err .invalidOperation) ∨ OkRes f (f.setPiData node d) := by
  unfold setPiData
  cases hv : f.value? node with
  | none => left; rfl
  | some v =>
    cases v with
    | pi tg dt =>
      right
      obtain ⟨t, hg, hk⟩ := leaf_of_value w hv rfl rfl
      exact okRes_setLeaf w hg hk _
    | _ => left; rfl

end Forest
end XotModel
