/-
  Node-map `insert` of a new key into a root element that has no normal children yet: the entry
  node is created with the next handle and becomes the last child.  Then the two insertion loops
  of `Element::xotify` (`newElementWithMaps`).
-/
import XotModel.Lemmas.FfixedPlace

namespace XotModel
open HTree

/-- Leaves with consecutive handles. -/
def leavesFrom (n : Nat) : List Value → List HTree
  | [] => []
  | v :: vs => .node n v [] :: leavesFrom (n + 1) vs

theorem leavesFrom_append (n : Nat) (a b : List Value) :
    leavesFrom n (a ++ b) = leavesFrom n a ++ leavesFrom (n + a.length) b := by
  induction a generalizing n with
  | nil => simp [leavesFrom]
  | cons v vs ih =>
    simp only [List.cons_append, leavesFrom, ih, List.length_cons]
    rw [Nat.add_assoc, Nat.add_comm 1 vs.length]

theorem eraseList_leavesFrom (n : Nat) (vs : List Value) :
    eraseList (leavesFrom n vs) = vs.map (fun v => Tree.node v []) := by
  induction vs generalizing n with
  | nil => rfl
  | cons v vs ih => simp [leavesFrom, eraseList, erase, ih]

theorem mem_handlesList_leavesFrom {n : Nat} {vs : List Value} {h : Nat} :
    h ∈ handlesList (leavesFrom n vs) ↔ n ≤ h ∧ h < n + vs.length := by
  induction vs generalizing n with
  | nil => simp [leavesFrom, handlesList]
  | cons v vs ih => simp [leavesFrom, handlesList, handles, ih]; omega

theorem nodup_handlesList_leavesFrom (n : Nat) (vs : List Value) :
    (handlesList (leavesFrom n vs)).Nodup := by
  induction vs generalizing n with
  | nil => simp [leavesFrom, handlesList]
  | cons v vs ih =>
    simp only [leavesFrom, handlesList, handles, List.cons_append, List.nil_append, List.nodup_cons]
    refine ⟨?_, ih (n + 1)⟩
    rw [mem_handlesList_leavesFrom]; omega

theorem mem_leavesFrom {n : Nat} {vs : List Value} {t : HTree} (h : t ∈ leavesFrom n vs) :
    t.value ∈ vs ∧ t.kids = [] := by
  induction vs generalizing n with
  | nil => cases h
  | cons v vs ih =>
    simp only [leavesFrom, List.mem_cons] at h
    rcases h with rfl | h
    · simp [HTree.value, HTree.kids]
    · have := ih h; exact ⟨List.mem_cons_of_mem _ this.1, this.2⟩

/-- The children so far allow a plain insertion of `key` at the end. -/
def MapReady (k : Forest.MapKind) (key : Nat) (ks : List HTree) : Prop :=
  match k with
  | .namespaces => ∀ c ∈ ks, c.value.category = .namespace ∧ Forest.entryKey c.value ≠ key
  | .attributes => ∃ nsK atK, ks = nsK ++ atK ∧ (∀ c ∈ nsK, c.value.category = .namespace) ∧
      (∀ c ∈ atK, c.value.category = .attribute ∧ Forest.entryKey c.value ≠ key)

theorem dropWhile_ns_of_attr (atK : List HTree) (h : ∀ c ∈ atK, c.value.category = .attribute) :
    atK.dropWhile (fun c => c.value.category == .namespace) = atK := by
  cases atK with
  | nil => rfl
  | cons a as =>
    have := h a (List.mem_cons_self ..)
    have hd : (Category.attribute == Category.namespace) = false := by decide
    simp [List.dropWhile, this, hd]

theorem takeWhile_ns_of_attr (atK : List HTree) (h : ∀ c ∈ atK, c.value.category = .attribute) :
    atK.takeWhile (fun c => c.value.category == .namespace) = [] := by
  cases atK with
  | nil => rfl
  | cons a as =>
    have := h a (List.mem_cons_self ..)
    have hd : (Category.attribute == Category.namespace) = false := by decide
    simp [List.takeWhile, this, hd]

theorem mapChildren_ready {k : Forest.MapKind} {key : Nat} {ks : List HTree} {h : Nat} {v : Value}
    (hr : MapReady k key ks) :
    (∀ c ∈ Forest.mapChildren k (.node h v ks), Forest.entryKey c.value ≠ key) ∧
    ((Forest.mapChildren k (.node h v ks)).getLast? = none →
       (k = .namespaces ∧ ks = []) ∨
       (k = .attributes ∧ ks.takeWhile (fun c => c.value.category == .namespace) = ks)) ∧
    (∀ l, (Forest.mapChildren k (.node h v ks)).getLast? = some l → ks.getLast? = some l) := by
  cases k with
  | namespaces =>
    have hall : ∀ c ∈ ks, (c.value.category == Category.namespace) = true := by
      intro c hc; simp [(hr c hc).1]
    have hmc : Forest.mapChildren .namespaces (.node h v ks) = ks := by
      simp only [Forest.mapChildren, HTree.kids]
      exact ffx_takeWhile_all _ _ hall
    rw [hmc]
    refine ⟨fun c hc => (hr c hc).2, ?_, fun l hl => hl⟩
    intro hl
    exact Or.inl ⟨rfl, List.getLast?_eq_none_iff.1 hl⟩
  | attributes =>
    obtain ⟨nsK, atK, rfl, hns, hat⟩ := hr
    have hnsall : ∀ c ∈ nsK, (c.value.category == Category.namespace) = true := by
      intro c hc; simp [hns c hc]
    have hatall : ∀ c ∈ atK, (c.value.category == Category.attribute) = true := by
      intro c hc; simp [(hat c hc).1]
    have hmc : Forest.mapChildren .attributes (.node h v (nsK ++ atK)) = atK := by
      simp only [Forest.mapChildren, HTree.kids]
      rw [List.dropWhile_append_of_pos hnsall, dropWhile_ns_of_attr atK (fun c hc => (hat c hc).1)]
      exact ffx_takeWhile_all _ _ hatall
    rw [hmc]
    refine ⟨fun c hc => (hat c hc).2, ?_, ?_⟩
    · intro hl
      have : atK = [] := List.getLast?_eq_none_iff.1 hl
      subst this
      refine Or.inr ⟨rfl, ?_⟩
      simpa using ffx_takeWhile_all _ _ hnsall
    · intro l hl
      simp [List.getLast?_append, hl]

namespace Forest

/-- `insert` of a new key into a root element without normal children: one new last child. -/
theorem mapInsert_fresh (f : Forest) {A B ks : List HTree} {el nm : Nat} (k : MapKind) (entry : Value)
    (hroots : f.roots = A ++ HTree.node el (.element nm) ks :: B)
    (hnd : (handlesList f.roots).Nodup)
    (hbelow : ∀ h ∈ handlesList f.roots, h < f.next)
    (hr : MapReady k (entryKey entry) ks) :
    f.mapInsert k el entry =
      ({ f with roots := A ++ HTree.node el (.element nm) (ks ++ [.node f.next entry []]) :: B,
                next := f.next + 1 }, .ok) := by
  have hnd' := hnd
  rw [hroots] at hnd'
  obtain ⟨hA, _, _, _, _⟩ := root_facts hnd'
  have hget : f.get? el = some (HTree.node el (.element nm) ks) := by
    unfold get?; rw [hroots]; exact findList?_root hA
  have hel : f.isElement el = true := by
    simp [isElement, value?_of_get? hget, HTree.value, Value.isElement]
  obtain ⟨hkeys, hnone, hsome⟩ := mapChildren_ready (h := el) (v := .element nm) hr
  have hgn : f.mapGetNode k el (entryKey entry) = none := by
    unfold mapGetNode; rw [hget]
    simp only [List.find?_eq_none, beq_iff_eq]
    exact hkeys
  -- the state after `new_node`
  let leaf : HTree := .node f.next entry []
  let f1 : Forest := { f with roots := f.roots ++ [leaf], next := f.next + 1 }
  have hR : RootAt f1 (A ++ HTree.node el (.element nm) ks :: B) leaf [] := by
    refine ⟨by simp [f1, hroots], ?_⟩
    show (handlesList (f.roots ++ [leaf])).Nodup
    rw [handlesList_append_ff]
    refine List.nodup_append.2 ⟨hnd, by simp [handlesList, handles, leaf], ?_⟩
    intro a ha b hb
    simp only [handlesList, handles, leaf, List.append_nil, List.mem_singleton] at hb
    have := hbelow a ha
    omega
  have hXY : (A ++ HTree.node el (.element nm) ks :: B) ++ [] =
      A ++ HTree.node el (.element nm) ks :: B := by simp
  have hget1 : f1.get? el = some (HTree.node el (.element nm) ks) := by
    have : el ∈ handlesList ((A ++ HTree.node el (.element nm) ks :: B) ++ []) := by
      rw [hXY, handlesList_append_ff]; simp [handlesList, handles]
    rw [hR.get?_rest this, hXY]; exact findList?_root hA
  have hip1 : f1.mapInsertionPoint k el = ks.getLast?.map HTree.handle := by
    unfold mapInsertionPoint; rw [hget1]
    cases hl : (mapChildren k (HTree.node el (.element nm) ks)).getLast? with
    | some l => simp only [hl, hsome l hl, Option.map_some]
    | none =>
      rcases hnone hl with ⟨rfl, rfl⟩ | ⟨rfl, htw⟩
      · simp only [hl]; rfl
      · simp only [hl, HTree.kids, htw]
  obtain ⟨hpl1, hpl2⟩ := hR.placeAtEnd hXY
  have hleaf : leaf.handle = f.next := rfl
  rw [hleaf] at hpl1 hpl2
  unfold mapInsert
  simp only [hel, hgn, Bool.not_true, Bool.false_eq_true, if_false]
  show f1.mapPlace k el f.next = _
  unfold mapPlace
  rw [hip1]
  cases hl : ks.getLast? with
  | some l => simp only [Option.map_some, hpl1 l hl]; rfl
  | none => simp only [Option.map_none, hpl2 hl]; rfl

end Forest
end XotModel
