/-
  The doctype writer spells the root element's name with the stack the serialiser will hold at
  that element's start tag (serialize.rs, Model/XmlDecl `doctypeStack`).
-/
import XotModel.Model.XmlDecl
import XotModel.Lemmas.Scope10
import XotModel.Lemmas.Events

namespace XotModel

/-- `namespace_traverse` started with a larger `seen` list yields the same pairs minus those whose
    prefix was already seen (only membership in `seen` matters). -/
theorem traverseDecls_seen (S : List Nat) (ds : List (Nat × Nat)) (s s0 : List Nat)
    (hs : ∀ q, q ∈ s ↔ q ∈ S ∨ q ∈ s0) :
    (traverseDecls s ds).2 = (traverseDecls s0 ds).2.filter (fun d => !S.contains d.1) ∧
    (∀ q, q ∈ (traverseDecls s ds).1 ↔ q ∈ S ∨ q ∈ (traverseDecls s0 ds).1) := by
  induction ds generalizing s s0 with
  | nil => simpa [traverseDecls] using hs
  | cons d ds ih =>
    obtain ⟨p, n⟩ := d
    by_cases h0 : s0.contains p = true
    · have hps : s.contains p = true := by
        have : p ∈ s0 := by simpa using h0
        simpa using (hs p).mpr (Or.inr this)
      rw [traverseDecls_cons_seen s p n ds hps, traverseDecls_cons_seen s0 p n ds h0]
      exact ih s s0 hs
    · have hp0 : p ∉ s0 := by simpa using h0
      by_cases hS : p ∈ S
      · have hps : s.contains p = true := by simpa using (hs p).mpr (Or.inl hS)
        rw [traverseDecls_cons_seen s p n ds hps, traverseDecls_cons_new s0 p n ds h0]
        obtain ⟨i1, i2⟩ := ih s (s0 ++ [p]) (fun q => by
          rw [hs q]; simp only [List.mem_append, List.mem_singleton]
          constructor
          · rintro (h | h); exact Or.inl h; exact Or.inr (Or.inl h)
          · rintro (h | h | h); exact Or.inl h; exact Or.inr h; exact Or.inl (h ▸ hS))
        refine ⟨?_, i2⟩
        simp only []
        split
        · exact i1
        · simp [List.filter_cons, hS, i1]
      · have hps : ¬ s.contains p = true := by
          intro h
          have : p ∈ s := by simpa using h
          rcases (hs p).mp this with h | h
          · exact hS h
          · exact hp0 h
        rw [traverseDecls_cons_new s p n ds hps, traverseDecls_cons_new s0 p n ds h0]
        obtain ⟨i1, i2⟩ := ih (s ++ [p]) (s0 ++ [p]) (fun q => by
          simp only [List.mem_append, List.mem_singleton, hs q]
          constructor
          · rintro ((h | h) | h); exact Or.inl h; exact Or.inr (Or.inl h); exact Or.inr (Or.inr h)
          · rintro (h | h | h); exact Or.inl (Or.inl h); exact Or.inl (Or.inr h); exact Or.inr h)
        refine ⟨?_, i2⟩
        simp only []
        split
        · exact i1
        · simp [List.filter_cons, hS, i1]

theorem traverseChain_seen (S : List Nat) (chain : List Tree) (s s0 : List Nat)
    (hs : ∀ q, q ∈ s ↔ q ∈ S ∨ q ∈ s0) :
    (traverseChain s chain).2 = (traverseChain s0 chain).2.filter (fun d => !S.contains d.1) ∧
    (∀ q, q ∈ (traverseChain s chain).1 ↔ q ∈ S ∨ q ∈ (traverseChain s0 chain).1) := by
  induction chain generalizing s s0 with
  | nil => simpa [traverseChain] using hs
  | cons t rest ih =>
    unfold traverseChain
    obtain ⟨a1, a2⟩ := traverseDecls_seen S t.nsDecls s s0 hs
    obtain ⟨b1, b2⟩ := ih (traverseDecls s t.nsDecls).1 (traverseDecls s0 t.nsDecls).1 a2
    simp only []
    exact ⟨by rw [a1, b1, List.filter_append], b2⟩

/-- The prefixes `namespace_traverse` has seen after one declaration list: the old ones and every
    prefix of the list. -/
theorem traverseDecls_seen_mem (s : List Nat) (ds : List (Nat × Nat)) (q : Nat) :
    q ∈ (traverseDecls s ds).1 ↔ q ∈ s ∨ q ∈ ds.map Prod.fst := by
  induction ds generalizing s with
  | nil => simp [traverseDecls]
  | cons d ds ih =>
    obtain ⟨p, n⟩ := d
    by_cases h : s.contains p = true
    · rw [traverseDecls_cons_seen s p n ds h, ih]
      have : p ∈ s := by simpa using h
      simp only [List.map_cons, List.mem_cons]
      constructor
      · rintro (h1 | h1); exact Or.inl h1; exact Or.inr (Or.inr h1)
      · rintro (h1 | h1 | h1); exact Or.inl h1; exact Or.inl (h1 ▸ this); exact Or.inr h1
    · rw [traverseDecls_cons_new s p n ds h]
      simp only [ih, List.mem_append, List.map_cons, List.mem_cons, List.not_mem_nil, or_false]
      constructor
      · rintro ((h1 | h1) | h1); exact Or.inl h1; exact Or.inr (Or.inl h1); exact Or.inr (Or.inr h1)
      · rintro (h1 | h1 | h1); exact Or.inl (Or.inl h1); exact Or.inl (Or.inr h1); exact Or.inr h1

/-- Every pair `namespace_traverse` yields for a declaration list comes from that list. -/
theorem traverseDecls_out_keys (s : List Nat) (ds : List (Nat × Nat)) :
    ∀ d ∈ (traverseDecls s ds).2, d.1 ∈ ds.map Prod.fst := by
  induction ds generalizing s with
  | nil => simp [traverseDecls]
  | cons d ds ih =>
    obtain ⟨p, n⟩ := d
    by_cases h : s.contains p = true
    · rw [traverseDecls_cons_seen s p n ds h]
      intro d hd; simp [ih s d hd]
    · rw [traverseDecls_cons_new s p n ds h]
      intro d hd
      simp only [] at hd
      split at hd
      · simp [ih _ d hd]
      · rcases List.mem_cons.mp hd with rfl | hd
        · simp
        · simp [ih _ d hd]

/-- Dropping the prefixes an element declares itself, the scope at the element and the scope at
    its parent agree: so `FullnameInfo::new(own, scope(element)) = FullnameInfo::new(own, scope(parent))`. -/
theorem fullnameInfoNew_inScope_child (el : Tree) (rest : List Tree) :
    fullnameInfoNew el.nsDecls (namespacesInScopeChain (el :: rest)) =
      fullnameInfoNew el.nsDecls (namespacesInScopeChain rest) := by
  unfold fullnameInfoNew
  congr 1
  let S := el.nsDecls.map Prod.fst
  have hpred : ∀ d : Nat × Nat,
      (!el.nsDecls.any (fun x => x.1 == d.1)) = (!S.contains d.1) := by
    intro d
    congr 1
    rw [Bool.eq_iff_iff]
    simp [S, any_key_iff]
  have hfun : (fun d : Nat × Nat => !el.nsDecls.any (fun x => x.1 == d.1)) = (fun d => !S.contains d.1) :=
    funext hpred
  have hfun' : (fun x : Nat × Nat => match x with | (p, _) => !el.nsDecls.any (fun x => match x with | (p2, _) => p2 == p))
      = (fun d => !S.contains d.1) := by
    funext d
    obtain ⟨p, n⟩ := d
    exact hpred (p, n)
  rw [hfun']
  unfold namespacesInScopeChain
  simp only [traverseChain]
  obtain ⟨c1, c2⟩ := traverseChain_seen S rest (traverseDecls [] el.nsDecls).1 []
    (fun q => by rw [traverseDecls_seen_mem]; simp [S])
  simp only [List.filter_append, c1, List.filter_filter, Bool.and_self]
  have hown : (traverseDecls [] el.nsDecls).2.filter (fun d => !S.contains d.1) = [] := by
    rw [List.filter_eq_nil_iff]
    intro d hd
    have := traverseDecls_out_keys [] el.nsDecls d hd
    simp [S, this]
  rw [hown, List.nil_append]
  congr 1
  apply List.filter_congr
  intro d _
  obtain ⟨p, n⟩ := d
  by_cases hS : p ∈ S
  · simp [hS]
  · have := c2 p
    simp only [hS, false_or] at this
    simp [hS, this]

theorem ancestorsOrSelf_of_at? (t : Tree) (path : Path) (n : Tree) (h : t.at? path = some n) :
    ∃ rest, t.ancestorsOrSelf path = some (n :: rest) := by
  induction path generalizing t with
  | nil =>
    simp only [Tree.at?, Option.some.injEq] at h
    subst h
    exact ⟨[], rfl⟩
  | cons i path ih =>
    cases t with
    | node v ks =>
      rw [at?_cons] at h
      cases hk : ks[i]? with
      | none => simp [hk] at h
      | some k =>
        simp only [hk, Option.bind_some] at h
        obtain ⟨rest, hr⟩ := ih k h
        exact ⟨rest ++ [.node v ks], by simp [Tree.ancestorsOrSelf, Tree.kids, hk, hr]⟩

theorem ancestorsOrSelf_child (t : Tree) (path : Path) (i : Nat) (chain : List Tree) (el : Tree)
    (hc : t.ancestorsOrSelf path = some chain) (hel : t.at? (path ++ [i]) = some el) :
    t.ancestorsOrSelf (path ++ [i]) = some (el :: chain) := by
  induction path generalizing t chain with
  | nil =>
    cases t with
    | node v ks =>
      simp only [List.nil_append] at hel ⊢
      rw [at?_cons] at hel
      cases hk : ks[i]? with
      | none => simp [hk] at hel
      | some k =>
        simp only [hk, Option.bind_some, Tree.at?, Option.some.injEq] at hel
        subst hel
        simp only [Tree.ancestorsOrSelf, Option.some.injEq] at hc
        subst hc
        simp [Tree.ancestorsOrSelf, Tree.kids, hk]
  | cons j path ih =>
    cases t with
    | node v ks =>
      simp only [List.cons_append] at hel ⊢
      rw [at?_cons] at hel
      simp only [Tree.ancestorsOrSelf, Tree.kids] at hc ⊢
      cases hk : ks[j]? with
      | none => simp [hk] at hel
      | some k =>
        simp only [hk, Option.bind_some] at hel hc ⊢
        cases hck : k.ancestorsOrSelf path with
        | none => simp [hck] at hc
        | some ch =>
          simp only [hck, Option.map_some, Option.some.injEq] at hc
          subst hc
          rw [ih k ch hck hel]
          simp

/-- Element start node: the first token's start tag carries the name the doctype writer computed. -/
theorem doctype_element (esc : Escapers) (env : Env) (pr : TokenParams) (t : Tree) (start : Path)
    (name : Nat) (ks : List Tree) (hat : t.at? start = some (.node (.element name) ks))
    (dn : Str) (toks : List (Path × Output × OutputToken))
    (hd : doctypeName env t start = .ok dn)
    (ht : tokensWith esc env pr t start = .ok toks) :
    toks.head?.map (fun k => (k.1, k.2.1, k.2.2.text)) =
      some (start, Output.startTagOpen name, fmt Gen.fmtStartTagOpen [dn]) := by
  obtain ⟨rest, hanc⟩ := ancestorsOrSelf_of_at? t start _ hat
  have hscope : namespacesInScope t start = some (namespacesInScopeChain (.node (.element name) ks :: rest)) := by
    simp [namespacesInScope, hanc]
  -- the doctype name
  unfold doctypeName at hd
  simp only [hat, Tree.value] at hd
  have hstack : doctypeStack t start (.node (.element name) ks) =
      (initStack t start).push (Tree.node (.element name) ks).nsDecls := by
    simp [doctypeStack, initStack]
  rw [hstack] at hd
  -- the first token
  unfold tokensWith at ht
  have hg : genOutputs t start =
      genNode (namespacesInScopeChain (.node (.element name) ks :: rest)) true start (.node (.element name) ks) := by
    simp [genOutputs, hat, hscope]
  rw [hg, genNode_element] at ht
  simp only [List.cons_append, List.nil_append, renderAllWith, renderAtWith, hat, renderXmlWith] at ht
  cases hf : ((initStack t start).push (Tree.node (.element name) ks).nsDecls).elementFullname env name with
  | error e => simp [hf] at hd
  | ok full =>
    simp only [hf] at hd ht
    cases hd
    by_cases hc : (env.nsOfName name == Env.noNamespace &&
        ((initStack t start).push (Tree.node (.element name) ks).nsDecls).hasDefaultNamespace) = true
    · simp [hc] at ht
    simp only [hc, Bool.false_eq_true, if_false] at ht
    split at ht
    · rename_i l hl
      split at hl
      · cases hl
        cases ht
        rfl
      · cases hl
      · cases hl
    · cases ht
    · cases ht

end XotModel
