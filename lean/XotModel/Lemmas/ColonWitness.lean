/-
  XotModel.Lemmas.ColonWitness — the three texts of C03_reject_colon_without_prefix, `<:a/>`,
  `<a :b='1'/>`, `<a></:a>`, through the reference tokenizer, step by step in the kernel (the token
  loop is defined by well-founded recursion, so it is unfolded with `lexLoop_skip` / `_token` / `_end`;
  each step of `parseNextImpl` reduces by `rfl`).  The tokenizer ACCEPTS the three texts: the empty
  prefix is an empty slice of the source, positioned at the colon (offset ≠ 0).
-/
import XotModel.Lemmas.LexCanonStep
import XotModel.Model.ParseString

namespace XotModel.Witness
open XotModel XotModel.Lex XotModel.Lex.Canon

macro "lex_skip" : tactic => `(tactic| rw [lexLoop_skip _ (by rfl) (by decide) (by rfl)])
macro "lex_token" : tactic => `(tactic| rw [lexLoop_token _ (by rfl) (by decide) (by rfl)])
macro "lex_end" : tactic => `(tactic| rw [lexLoop_end _ (by rfl)])

def colonElementText : Str := ['<', ':', 'a', '/', '>']
def colonAttributeText : Str := ['<', 'a', ' ', ':', 'b', '=', '\'', '1', '\'', '/', '>']
def colonEndTagText : Str := ['<', 'a', '>', '<', '/', ':', 'a', '>']

def colonElementTokens : List Token :=
  [.elementStart ⟨[], 1⟩ ⟨['a'], 2⟩ ⟨['<', ':', 'a'], 0⟩, .elementEnd .empty ⟨['/', '>'], 3⟩]

def colonAttributeTokens : List Token :=
  [.elementStart ⟨[], 0⟩ ⟨['a'], 1⟩ ⟨['<', 'a'], 0⟩,
   .attribute ⟨[], 3⟩ ⟨['b'], 4⟩ ⟨['1'], 7⟩ ⟨[':', 'b', '=', '\'', '1', '\''], 3⟩,
   .elementEnd .empty ⟨['/', '>'], 9⟩]

def colonEndTagTokens : List Token :=
  [.elementStart ⟨[], 0⟩ ⟨['a'], 1⟩ ⟨['<', 'a'], 0⟩, .elementEnd .open ⟨['>'], 2⟩,
   .elementEnd (.close ⟨[], 5⟩ ⟨['a'], 6⟩) ⟨['<', '/', ':', 'a', '>'], 3⟩]

theorem lex_colonElement : lexDocument colonElementText = (colonElementTokens, none) := by
  unfold lexDocument colonElementText
  lex_skip
  lex_skip
  lex_token
  lex_token
  lex_end
  rfl

theorem lex_colonAttribute : lexDocument colonAttributeText = (colonAttributeTokens, none) := by
  unfold lexDocument colonAttributeText
  lex_skip
  lex_skip
  lex_token
  lex_token
  lex_token
  lex_end
  rfl

theorem lex_colonEndTag : lexDocument colonEndTagText = (colonEndTagTokens, none) := by
  unfold lexDocument colonEndTagText
  lex_skip
  lex_skip
  lex_token
  lex_token
  lex_token
  lex_end
  rfl

end XotModel.Witness
