/-
  XotModel.Lemmas.ArenaStaleIndex — `detach`, `remove`, `remove_subtree`, `children`,
  `reverse_children` use NOTHING of the id they are given but its slot index: they never read a
  stamp and never store the id (every function indexes the slot vector with `id.index0()`; `detach`
  compares `Some(self)` with the new parent `None` only).  Hence, on every arena, a call with a STALE id
  IS the call with the current id of the slot: the NEW OCCUPANT is detached / removed / removed with
  its subtree — silently.  (The `checked_*` functions and the iterators that yield their start node
  do use the id as a value: it is compared with, stored in, or handed out next to current ids.)
-/
import XotModel.Lemmas.ArenaStaleMut

namespace XotModel
namespace Arena

theorem rd_index0 {α : Type} (a : Arena) (x y : NodeId) (h : x.index0 = y.index0) (k : Slot → Step α) :
    rd a x k = rd a y k := by unfold rd; rw [h]

theorem wr_index0 {α : Type} (a : Arena) (x y : NodeId) (h : x.index0 = y.index0) (f : Slot → Slot) (k : Arena → Step α) :
    wr a x f k = wr a y f k := by unfold wr; rw [h]

theorem freeNode_index0 (a : Arena) (x y : NodeId) (h : x.index0 = y.index0) : freeNode a x = freeNode a y := by
  unfold freeNode; rw [h]

theorem detachFromSiblings_index0 (a : Arena) (x y : NodeId) (h : x.index0 = y.index0) :
    detachFromSiblings a x x = detachFromSiblings a y y := by
  unfold detachFromSiblings
  rw [rd_index0 a x y h]
  congr 1; funext sf
  rw [wr_index0 a x y h]
  congr 1; funext a1
  rw [rd_index0 a1 x y h]
  congr 1; funext sl
  rw [wr_index0 a1 x y h]

theorem rewriteParents_index0 (fuel : Nat) (a : Arena) (x y : NodeId) (h : x.index0 = y.index0) :
    rewriteParents fuel a (some x) none = rewriteParents fuel a (some y) none := by
  cases fuel with
  | zero => rfl
  | succ n =>
    unfold rewriteParents
    simp only [reduceCtorEq, if_false]
    rw [wr_index0 a x y h]
    congr 1; funext a1
    rw [rd_index0 a1 x y h]

theorem detach_index0 (a : Arena) (x y : NodeId) (h : x.index0 = y.index0) : detach a x = detach a y := by
  unfold detach
  rw [detachFromSiblings_index0 a x y h]
  congr 1; funext a1 _
  rw [rewriteParents_index0 _ a1 x y h]

theorem remove_index0 (a : Arena) (x y : NodeId) (h : x.index0 = y.index0) : remove a x = remove a y := by
  unfold remove
  rw [rd_index0 a x y h]
  congr 1; funext node
  rw [detach_index0 a x y h]
  simp only [freeNode_index0 _ x y h]

theorem removeSubtreeLoop_index0 (fuel : Nat) (a : Arena) (x y : NodeId) (h : x.index0 = y.index0) :
    removeSubtreeLoop fuel a (some x) = removeSubtreeLoop fuel a (some y) := by
  cases fuel with
  | zero => rfl
  | succ n =>
    unfold removeSubtreeLoop
    simp only []
    rw [freeNode_index0 a x y h]
    congr 1; funext a1 _
    rw [rd_index0 a1 x y h]

theorem removeSubtree_index0 (a : Arena) (x y : NodeId) (h : x.index0 = y.index0) :
    removeSubtree a x = removeSubtree a y := by
  unfold removeSubtree
  rw [detach_index0 a x y h]
  congr 1; funext a1 _
  rw [removeSubtreeLoop_index0 _ a1 x y h]


theorem children_index0 (a : Arena) (x y : NodeId) (h : x.index0 = y.index0) (limit : Nat) :
    children a x limit = children a y limit ∧ reverseChildren a x limit = reverseChildren a y limit := by
  unfold children reverseChildren
  exact ⟨rd_index0 a x y h _, rd_index0 a x y h _⟩

/-- The calls with any id are the calls with the current id of its slot. -/
theorem one_arg_current (a : Arena) (x : NodeId) :
    detach a x = detach a (a.idAt x.index0) ∧ remove a x = remove a (a.idAt x.index0) ∧
    removeSubtree a x = removeSubtree a (a.idAt x.index0) :=
  ⟨detach_index0 a x _ (by simp), remove_index0 a x _ (by simp), removeSubtree_index0 a x _ (by simp)⟩

/-- The current id of the slot of a stale id is a live id, different from the stale one. -/
theorem Stale.current {a : Arena} {x : NodeId} (h : Stale a x) : LiveId a (a.idAt x.index0) ∧ a.idAt x.index0 ≠ x := by
  obtain ⟨s, hs, h0, hne⟩ := h
  refine ⟨LiveId.idAt ⟨s, hs, h0⟩, fun e => hne ?_⟩
  rw [idAt_of_slot hs] at e
  exact (congrArg NodeId.stamp e)

theorem rd_none {α : Type} (a : Arena) (x : NodeId) (k : Slot → Step α) (h : a.slot x.index0 = none) :
    rd a x k = .panic a := by
  unfold rd; unfold slot at h; rw [h]

/-- Every call with an id beyond the slot vector panics on its first `arena[id]` (index out of bounds;
    `following_siblings` / `preceding_siblings`: `arena.get(id).unwrap()`), nothing written. -/
theorem out_of_range_panics (a : Arena) (x : NodeId) (h : a.slot x.index0 = none) (n : Nat) :
    detach a x = .panic a ∧ remove a x = .panic a ∧ removeSubtree a x = .panic a ∧
    Arena.isRemoved a x = .panic a ∧ value a x = .panic a ∧
    children a x n = .panic a ∧ reverseChildren a x n = .panic a ∧
    ancestors a x (n + 1) = .panic a ∧ followingSiblings a x n = .panic a ∧ precedingSiblings a x n = .panic a ∧
    traverse a x (n + 1) = .panic a ∧ reverseTraverse a x (n + 1) = .panic a ∧ descendants a x (n + 1) = .panic a := by
  have hd : detach a x = .panic a := by
    unfold detach detachFromSiblings
    rw [rd_none a x _ h]; rfl
  have hg : a.get x = none := h
  have ht : traverse a x (n + 1) = .panic a := by
    unfold traverse traverseGo
    simp only [reduceCtorEq, if_false, nextTraverse]
    rw [rd_none a x _ h]
  refine ⟨hd, ?_, ?_, ?_, ?_, ?_, ?_, ?_, ?_, ?_, ht, ?_, ?_⟩
  · unfold remove; rw [rd_none a x _ h]
  · unfold removeSubtree; rw [hd]; rfl
  · unfold Arena.isRemoved; rw [rd_none a x _ h]
  · unfold value; rw [rd_none a x _ h]
  · unfold children; rw [rd_none a x _ h]
  · unfold reverseChildren; rw [rd_none a x _ h]
  · unfold ancestors walk; simp only []; rw [rd_none a x _ h]
  · unfold followingSiblings parentField; rw [hg]
  · unfold precedingSiblings parentField; rw [hg]
  · unfold reverseTraverse reverseTraverseGo
    simp only [reduceCtorEq, if_false, prevTraverse]
    rw [rd_none a x _ h]
  · unfold descendants; rw [ht]; rfl

end Arena
end XotModel
