/-
  C17_ordered: every recorded span and every error span satisfies `start ≤ end`, provided
  prefix / local-name spans abut the colon (token-shape contract) and the text / CDATA tokens
  come in source order (`TextOrdered`: an earlier part does not start after a later part ends).
-/
import XotModel.Lemmas.ParseQName
import XotModel.Model.Parse
import XotModel.Model.TokenShape
import XotModel.Lemmas.ParseSpans

namespace XotModel

def Span.Ord (sp : Span) : Prop := sp.start ≤ sp.stop

/-- The character-data slice of a text / CDATA token. -/
def Token.textSpan? : Token → Option StrSpan
  | .text t => some t
  | .cdata t _ => some t
  | _ => none

/-- Character-data tokens come in source order: an earlier one does not start after a later one
    ends. -/
def TextOrdered (ts : List Token) : Prop :=
  ts.Pairwise (fun a b => ∀ sa sb, a.textSpan? = some sa → b.textSpan? = some sb → sa.start ≤ sb.stop)

theorem StrSpan.span_ord (s : StrSpan) : s.span.Ord := by
  simp [StrSpan.span, StrSpan.stop, Span.Ord]

theorem fromPrefixName_ord {p n : StrSpan} (h : Abut p n) : (Span.fromPrefixName p n).Ord := by
  unfold Span.fromPrefixName Span.Ord
  rcases h with h | h
  · simp [h, StrSpan.stop]
  · unfold StrSpan.stop at h ⊢
    split <;> simp only <;> omega

theorem contentErr_ord {attr : Bool} {base : Nat} {s : Str} {e : ContentErr}
    (h : parseContentGo attr base 0 s = .error e) : (ParseErr.ofContent e).span.Ord := by
  have hw := parseGo_error_within attr base _ s 0 e rfl h
  cases e with
  | unclosed t p => simp [ParseErr.ofContent, ParseErr.span, Span.Ord]
  | invalid t a b =>
    obtain ⟨_, y, _⟩ := hw
    simpa [ParseErr.ofContent, ParseErr.span, Span.Ord] using y

/-! ### The span map -/

def SpanMap.AllOrd (m : SpanMap) : Prop := ∀ e ∈ m, e.2.Ord

/-- Every text span recorded so far starts no later than any coming character-data token ends. -/
def TextBefore (m : SpanMap) (rest : List Token) : Prop :=
  ∀ e ∈ m, e.1.kind = .text → ∀ t ∈ rest, ∀ sb, t.textSpan? = some sb → e.2.start ≤ sb.stop

/-- `m'` is `m` plus / minus entries, where every new entry is an ordered span under a key that
    is not a text key. -/
def NonTextExt (m m' : SpanMap) : Prop := ∀ e ∈ m', e ∈ m ∨ (e.1.kind ≠ .text ∧ e.2.Ord)

theorem NonTextExt.refl (m : SpanMap) : NonTextExt m m := fun _ h => Or.inl h

theorem NonTextExt.trans {a b c : SpanMap} (h1 : NonTextExt a b) (h2 : NonTextExt b c) : NonTextExt a c := by
  intro e he
  rcases h2 e he with h | h
  · exact h1 e h
  · exact Or.inr h

theorem NonTextExt.add (m : SpanMap) {k : SpanKey} {s : Span} (hk : k.kind ≠ .text) (hs : s.Ord) :
    NonTextExt m (m.add k s) := by
  intro e he
  simp only [SpanMap.add, List.mem_cons, List.mem_filter] at he
  rcases he with rfl | ⟨he, _⟩
  · exact Or.inr ⟨hk, hs⟩
  · exact Or.inl he

theorem NonTextExt.addAttributeSpans (node : Path) (l : List (Nat × Span × Span)) :
    ∀ (m : SpanMap), (∀ a ∈ l, a.2.1.Ord ∧ a.2.2.Ord) → NonTextExt m (m.addAttributeSpans node l) := by
  induction l with
  | nil => intro m _; exact NonTextExt.refl m
  | cons a rest ih =>
    intro m ha
    obtain ⟨n, s1, s2⟩ := a
    simp only [SpanMap.addAttributeSpans]
    have := ha (n, s1, s2) (by simp)
    exact ((NonTextExt.add m (by simp) this.1).trans (NonTextExt.add _ (by simp) this.2)).trans
      (ih _ (fun x hx => ha x (by simp [hx])))

theorem NonTextExt.allOrd {m m' : SpanMap} (h : NonTextExt m m') (ho : m.AllOrd) : m'.AllOrd := by
  intro e he
  rcases h e he with h | h
  · exact ho e h
  · exact h.2

theorem NonTextExt.textBefore {m m' : SpanMap} {rest : List Token} (h : NonTextExt m m')
    (ht : TextBefore m rest) : TextBefore m' rest := by
  intro e he hk
  rcases h e he with h | h
  · exact ht e h hk
  · exact absurd hk h.1

theorem TextBefore.tail {m : SpanMap} {t : Token} {rest : List Token} (h : TextBefore m (t :: rest)) :
    TextBefore m rest :=
  fun e he hk t' ht' => h e he hk t' (by simp [ht'])

/-- Recording one more character-data part `s`, the head of the remaining tokens. -/
theorem extendText_ord {m : SpanMap} {rest : List Token} (node : Path) (s : StrSpan)
    (ho : m.AllOrd) (hhead : ∀ e ∈ m, e.1.kind = .text → e.2.start ≤ s.stop) (ht : TextBefore m rest)
    (hlater : ∀ t ∈ rest, ∀ sb, t.textSpan? = some sb → s.start ≤ sb.stop) :
    (m.extendText node s.span).AllOrd ∧ TextBefore (m.extendText node s.span) rest := by
  unfold SpanMap.extendText
  split
  · rename_i ex hg
    have hmem := lookup_mem hg
    constructor
    · intro e he
      simp only [SpanMap.add, List.mem_cons, List.mem_filter] at he
      rcases he with rfl | ⟨he, _⟩
      · have := hhead (⟨node, .text⟩, ex) hmem rfl
        simpa [Span.Ord, StrSpan.span] using this
      · exact ho e he
    · intro e he hk
      simp only [SpanMap.add, List.mem_cons, List.mem_filter] at he
      rcases he with rfl | ⟨he, _⟩
      · exact ht (⟨node, .text⟩, ex) hmem rfl
      · exact ht e he hk
  · constructor
    · intro e he
      simp only [SpanMap.add, List.mem_cons, List.mem_filter] at he
      rcases he with rfl | ⟨he, _⟩
      · exact StrSpan.span_ord s
      · exact ho e he
    · intro e he hk
      simp only [SpanMap.add, List.mem_cons, List.mem_filter] at he
      rcases he with rfl | ⟨he, _⟩
      · exact hlater
      · exact ht e he hk

/-! ### Builder invariant -/

def AttributeBuilder.SpansOrd (ab : AttributeBuilder) : Prop :=
  ab.nameSpan.Ord ∧ ab.valueSpan.Ord ∧ ab.prefixSpan.Ord

def ElementBuilder.SpansOrd (eb : ElementBuilder) : Prop :=
  eb.span.Ord ∧ eb.prefixSpan.Ord ∧ ∀ ab ∈ eb.attributes, ab.SpansOrd

def SpansOrd (b : Builder) (rest : List Token) : Prop :=
  b.spans.AllOrd ∧ TextBefore b.spans rest ∧ ∀ eb, b.eb = some eb → eb.SpansOrd

def StepOrd (rest : List Token) : Step Builder → Prop
  | .ok b' => SpansOrd b' rest
  | .err e _ => e.span.Ord
  | .panic => True

theorem spansOrd_new (env : Env) (ts : List Token) : SpansOrd (Builder.new env) ts :=
  ⟨fun e he => by simp [Builder.new] at he, fun e he => by simp [Builder.new] at he,
   fun eb h => by simp [Builder.new] at h⟩

/-- A step that changes the span map only by ordered non-text entries and keeps `eb`. -/
theorem spansOrd_ext {b b' : Builder} {rest : List Token} (h : SpansOrd b rest)
    (hm : NonTextExt b.spans b'.spans) (he : ∀ eb, b'.eb = some eb → eb.SpansOrd) : SpansOrd b' rest :=
  ⟨hm.allOrd h.1, hm.textBefore h.2.1, he⟩

theorem prefix_ord {b : Builder} {rest : List Token} (h : SpansOrd b rest) (p : Str) (u : StrSpan) {sp : Span}
    (hsp : sp.Ord) : StepOrd rest (b.prefix p u sp) := by
  unfold Builder.prefix
  split
  · rename_i e he
    exact contentErr_ord he
  · split
    · exact hsp
    dsimp only
    split
    · trivial
    · rename_i eb heb
      split
      · exact hsp
      · refine spansOrd_ext h (NonTextExt.refl _) (fun eb' he => ?_)
        simp only [Option.some.injEq] at he
        subst he
        exact h.2.2 eb heb

theorem attribute_ord {b : Builder} {rest : List Token} (h : SpansOrd b rest) {p l : StrSpan} (v : StrSpan)
    (hab : Abut p l) : StepOrd rest (b.attribute p l v) := by
  unfold Builder.attribute
  split
  · trivial
  · rename_i eb heb
    split
    · exact fromPrefixName_ord hab
    · split
      · rename_i e he
        exact contentErr_ord he
      · refine spansOrd_ext h (NonTextExt.refl _) (fun eb' he => ?_)
        simp only [Option.some.injEq] at he
        subst he
        obtain ⟨h1, h2, h3⟩ := h.2.2 eb heb
        refine ⟨h1, h2, fun ab hab' => ?_⟩
        simp only [List.mem_append, List.mem_singleton] at hab'
        rcases hab' with hab' | rfl
        · exact h3 ab hab'
        · exact ⟨fromPrefixName_ord hab, StrSpan.span_ord v, StrSpan.span_ord p⟩

theorem attributeNameId_err_ord {env env' : Env} {stack : NsStack} {pfx name : Str} {sp : Span} {e : ParseErr}
    (hs : sp.Ord) (h : attributeNameId env stack pfx name sp = .err e env') : e.span.Ord := by
  unfold attributeNameId at h
  dsimp only at h
  split at h
  · cases h
  · split at h
    · cases h
    · cases h; exact hs

theorem elementNameId_err_ord {env env' : Env} {stack : NsStack} {pfx name : Str} {sp : Span} {e : ParseErr}
    (hs : sp.Ord) (h : elementNameId env stack pfx name sp = .err e env') : e.span.Ord := by
  unfold elementNameId at h
  dsimp only at h
  split at h
  · cases h
  · cases h; exact hs

theorem addAttributes_ord (stack : NsStack) (node : Path) (abs : List AttributeBuilder) :
    ∀ (st : AttrLoop), (∀ ab ∈ abs, ab.SpansOrd) → (∀ a ∈ st.aspans, a.2.1.Ord ∧ a.2.2.Ord) →
      match addAttributes stack node st abs with
      | .ok st' => ∀ a ∈ st'.aspans, a.2.1.Ord ∧ a.2.2.Ord
      | .err e _ => e.span.Ord
      | .panic => True := by
  induction abs with
  | nil => intro st _ hs; simpa [addAttributes] using hs
  | cons ab rest ih =>
    intro st hab hs
    have hab0 := hab ab (by simp)
    simp only [addAttributes]
    cases hn : attributeNameId st.env stack ab.pfx ab.name ab.prefixSpan with
    | panic => trivial
    | err e env => exact attributeNameId_err_ord hab0.2.2 hn
    | ok r =>
      obtain ⟨env1, nameId⟩ := r
      simp only
      by_cases hrep : st.seenNames.contains nameId = true
      · simp only [hrep, if_true]
        exact hab0.1
      · simp only [hrep]
        by_cases hdup : (nameId == Env.xmlIdName && st.seenIds.contains (xmlIdValue nameId ab.value)) = true
        · simp only [hdup, if_true]
          exact hab0.2.1
        · simp only [hdup]
          refine ih _ (fun x hx => hab x (by simp [hx])) ?_
          intro a ha
          simp only [List.mem_append, List.mem_singleton] at ha
          rcases ha with ha | rfl
          · exact hs a ha
          · exact ⟨hab0.1, hab0.2.1⟩

theorem openElement_ord {b : Builder} {rest : List Token} (h : SpansOrd b rest) : StepOrd rest b.openElement := by
  unfold Builder.openElement
  split
  · trivial
  · rename_i eb heb
    obtain ⟨h1, h2, h3⟩ := h.2.2 eb heb
    dsimp only
    split
    · trivial
    · rename_i e env he
      exact elementNameId_err_ord h2 he
    · rename_i env1 nameId _
      have hl := addAttributes_ord (eb.namespaces :: b.nsStack) (b.curPath ++ [b.cur.rkids.length])
        eb.attributes { env := env1, seenIds := b.seenIds, idNodes := b.idNodes, seenNames := [], rkids := namespaceKids eb.namespaces, aspans := [] }
        h3 (fun a ha => by simp at ha)
      split
      · trivial
      · rename_i e env he
        rw [he] at hl; exact hl
      · rename_i st hst
        rw [hst] at hl
        refine spansOrd_ext h ?_ (fun eb' he => by simp at he)
        exact (NonTextExt.add _ (by simp) h1).trans (NonTextExt.addAttributeSpans _ _ _ hl)

theorem leave_ord {b : Builder} {rest : List Token} (h : SpansOrd b rest) (node : Path) (sp : StrSpan) :
    StepOrd rest (b.leave node sp) := by
  unfold Builder.leave Builder.toParent
  cases hpar : b.parents with
  | nil => trivial
  | cons p ps => exact spansOrd_ext h (NonTextExt.add _ (by simp) (StrSpan.span_ord sp)) h.2.2

theorem closeImmediate_ord {b : Builder} {rest : List Token} (h : SpansOrd b rest) (sp : StrSpan) :
    StepOrd rest (b.closeImmediate sp) := by
  unfold Builder.closeImmediate
  refine leave_ord ?_ _ sp
  split
  · exact ⟨h.1, h.2.1, h.2.2⟩
  · exact h

theorem closeElement_ord {b : Builder} {rest : List Token} (h : SpansOrd b rest) {p l : StrSpan} (sp : StrSpan)
    (hab : Abut p l) : StepOrd rest (b.closeElement p l sp) := by
  unfold Builder.closeElement
  split
  · trivial
  · rename_i e env he
    exact elementNameId_err_ord (StrSpan.span_ord p) he
  · split
    · exact fromPrefixName_ord hab
    · split
      · split
        · exact fromPrefixName_ord hab
        · refine leave_ord (b := _) ?_ _ sp
          exact ⟨h.1, h.2.1, h.2.2⟩
      · refine leave_ord (b := _) ?_ _ sp
        exact ⟨h.1, h.2.1, h.2.2⟩

/-- Text / CDATA: `t` is the head of the remaining tokens. -/
theorem addText_ord {b : Builder} {rest : List Token} (content : Str) (s : StrSpan) (tok : Token)
    (htok : tok.textSpan? = some s) (h : SpansOrd b (tok :: rest))
    (hlater : ∀ t ∈ rest, ∀ sb, t.textSpan? = some sb → s.start ≤ sb.stop) :
    SpansOrd { (b.addText content).1 with
      spans := (b.addText content).1.spans.extendText (b.addText content).2 s.span } rest := by
  obtain ⟨h1, h2⟩ := addText_spans b content
  have hx := extendText_ord (m := b.spans) (rest := rest) (b.addText content).2 s h.1
    (fun e he hk => h.2.1 e he hk tok (by simp) s htok) h.2.1.tail hlater
  refine ⟨?_, ?_, fun eb he => h.2.2 eb (by rw [← h2]; exact he)⟩
  · simp only; rw [h1]; exact hx.1
  · simp only; rw [h1]; exact hx.2

theorem stepCore_ord {b : Builder} (t : Token) (rest : List Token) (h : SpansOrd b (t :: rest)) (hab : t.Abuts)
    (hlater : ∀ sa, t.textSpan? = some sa → ∀ t' ∈ rest, ∀ sb, t'.textSpan? = some sb → sa.start ≤ sb.stop) :
    StepOrd rest (b.stepCore t) := by
  have h' : SpansOrd b rest := ⟨h.1, h.2.1.tail, h.2.2⟩
  cases t with
  | «attribute» p l v sp =>
    simp only [Builder.stepCore]
    split
    · exact prefix_ord h' _ _ (fromPrefixName_ord hab)
    · split
      · exact prefix_ord h' _ _ (fromPrefixName_ord hab)
      · exact attribute_ord h' v hab
  | text t =>
    simp only [Builder.stepCore, Builder.text]
    split
    · rename_i e he
      exact contentErr_ord he
    · exact addText_ord _ t (.text t) rfl h (hlater t rfl)
  | cdata t sp =>
    simp only [Builder.stepCore, Builder.cdata]
    split
    · exact h'
    · exact addText_ord _ t (.cdata t sp) rfl h (hlater t rfl)
  | elementStart p l sp =>
    refine spansOrd_ext h' (NonTextExt.refl _) (fun eb he => ?_)
    simp only [Builder.element, Option.some.injEq] at he
    subst he
    exact ⟨fromPrefixName_ord hab, StrSpan.span_ord p, fun ab hab' => by simp [ElementBuilder.new] at hab'⟩
  | elementEnd e sp =>
    cases e with
    | «open» => exact openElement_ord h'
    | close p l => exact closeElement_ord h' sp hab
    | empty =>
      simp only [Builder.stepCore]
      have ho := openElement_ord h'
      cases hb : b.openElement with
      | ok b1 => rw [hb] at ho; exact closeImmediate_ord ho sp
      | err e env => rw [hb] at ho; exact ho
      | panic => trivial
  | comment t sp =>
    exact spansOrd_ext h' (NonTextExt.add _ (by simp) (StrSpan.span_ord t)) h'.2.2
  | pi target content sp =>
    simp only [Builder.stepCore]
    split
    · exact StrSpan.span_ord target
    refine spansOrd_ext h' ?_ h'.2.2
    simp only [Builder.processingInstruction, Builder.addLeaf]
    cases content with
    | none => exact NonTextExt.add _ (by simp) (StrSpan.span_ord target)
    | some c =>
      exact (NonTextExt.add _ (by simp) (StrSpan.span_ord target)).trans
        (NonTextExt.add _ (by simp) (StrSpan.span_ord c))
  | declaration v e s sp =>
    simp only [Builder.stepCore]
    split
    · exact StrSpan.span_ord v
    · exact h'
  | dtdStart sp => exact StrSpan.span_ord sp
  | dtdEnd sp => exact StrSpan.span_ord sp
  | emptyDtd sp => exact StrSpan.span_ord sp
  | entityDecl sp => exact StrSpan.span_ord sp

/-- The span of the `check_qname` error: from the colon to the end of the local name. -/
theorem qnameError_ord {t : Token} {p l : StrSpan} (hab : t.Abuts) (hq : t.qname = some (p, l))
    (hp : p.bareColon = true) : p.start ≤ l.stop := by
  have hA : Abut p l := by
    rcases Token.qname_elim hq with ⟨v, sp, rfl⟩ | ⟨sp, rfl⟩ | ⟨sp, rfl⟩ <;> exact hab
  simp only [StrSpan.bareColon, Bool.and_eq_true, bne_iff_ne, ne_eq] at hp
  rcases hA with ⟨_, h0⟩ | h
  · exact absurd h0 hp.2
  · unfold StrSpan.stop at h ⊢; omega

theorem pso_step_ord {b : Builder} (t : Token) (rest : List Token) (h : SpansOrd b (t :: rest)) (hab : t.Abuts)
    (hlater : ∀ sa, t.textSpan? = some sa → ∀ t' ∈ rest, ∀ sb, t'.textSpan? = some sb → sa.start ≤ sb.stop) :
    StepOrd rest (b.step t) := by
  refine b.step_cases t (fun _ => stepCore_ord t rest h hab hlater) ?_
  intro p l hq hp
  exact qnameError_ord hab hq hp

theorem run_ord (lexErr : Option Nat) (ts : List Token) :
    ∀ {b : Builder}, SpansOrd b ts → (∀ t ∈ ts, t.Abuts) → TextOrdered ts →
      match b.run ts lexErr with
      | .ok b' => b'.spans.AllOrd
      | .err e _ => e.span.Ord
      | .panic => True := by
  induction ts with
  | nil =>
    intro b h _ _
    cases lexErr with
    | none =>
      simp only [Builder.run]
      cases heb : b.eb with
      | some eb => exact (h.2.2 eb heb).1
      | none => exact h.1
    | some p => simp [Builder.run, ParseErr.span, Span.Ord]
  | cons t ts ih =>
    intro b h hab hto
    simp only [Builder.run]
    have hto' := List.pairwise_cons.mp hto
    have hs := pso_step_ord t ts h (hab t (by simp)) (fun sa hsa t' ht' sb hsb => hto'.1 t' ht' sa sb hsa hsb)
    cases hb : b.step t with
    | ok b1 =>
      rw [hb] at hs
      exact ih hs (fun x hx => hab x (by simp [hx])) hto'.2
    | err e env => rw [hb] at hs; exact hs
    | panic => trivial

/-! ### Epilogues -/

def BuildOrd : BuildResult → Prop
  | .ok p => p.spans.AllOrd
  | .err e _ => e.span.Ord
  | .panic => True

theorem unclosed_ord {b : Builder} (h : b.spans.AllOrd) : BuildOrd b.unclosed := by
  unfold Builder.unclosed
  split
  · rename_i sp hg; exact h _ (lookup_mem hg)
  · trivial

theorem topLevelScan_err_ord {spans : SpanMap} (h : spans.AllOrd) (ks : List Tree) :
    ∀ (i : Nat) (elems : List Nat) (e : ParseErr), topLevelScan spans i ks elems = .err e → e.span.Ord := by
  induction ks with
  | nil => intro i elems e he; simp [topLevelScan] at he
  | cons k rest ih =>
    intro i elems e he
    simp only [topLevelScan] at he
    split at he
    · exact ih _ _ _ he
    · split at he
      · rename_i sp hg
        cases he
        exact h _ (lookup_mem hg)
      · cases he
    · exact ih _ _ _ he

theorem build_ord (m : Mode) (len : Nat) (env : Env) (ts : List Token) (lexErr : Option Nat)
    (hab : ∀ t ∈ ts, t.Abuts) (hto : TextOrdered ts) : BuildOrd (build m len env ts lexErr) := by
  unfold build
  have hr := run_ord lexErr ts (spansOrd_new env ts) hab hto
  cases hb : (Builder.new env).run ts lexErr with
  | panic => trivial
  | err e env' => rw [hb] at hr; exact hr
  | ok b =>
    rw [hb] at hr
    cases m with
    | document =>
      simp only [Builder.finishDocument]
      split
      · split
        · trivial
        · rename_i e he
          exact topLevelScan_err_ord hr _ _ _ _ he
        · split
          · simp [BuildOrd, ParseErr.span, Span.Ord]
          · exact hr
          · split
            · rename_i sp hg; exact hr _ (lookup_mem hg)
            · trivial
      · exact unclosed_ord hr
    | fragment =>
      simp only [Builder.finishFragment]
      split
      · exact hr
      · exact unclosed_ord hr

/-! ### Boolean checker for closed token lists -/

def laterOkB (sa : StrSpan) (rest : List Token) : Bool :=
  rest.all fun t' => match t'.textSpan? with
    | none => true
    | some sb => decide (sa.start ≤ sb.stop)

def textOrderedB : List Token → Bool
  | [] => true
  | t :: rest =>
    (match t.textSpan? with
     | none => true
     | some sa => laterOkB sa rest) && textOrderedB rest

theorem textOrdered_of_B : ∀ ts : List Token, textOrderedB ts = true → TextOrdered ts := by
  intro ts
  induction ts with
  | nil => intro _; exact List.Pairwise.nil
  | cons t rest ih =>
    intro h
    simp only [textOrderedB, Bool.and_eq_true] at h
    refine List.Pairwise.cons ?_ (ih h.2)
    intro t' ht' sa sb hsa hsb
    rw [hsa] at h
    have := h.1
    simp only [laterOkB, List.all_eq_true] at this
    have := this t' ht'
    rw [hsb] at this
    simpa using this

end XotModel
