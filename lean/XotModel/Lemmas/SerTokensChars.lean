/-
  Character-level facts about the escaped strings inside the tokens of `serTokens`, in the form
  `Token.lexOK` (Model/LexOK.lean) asks for: XML Chars stay XML Chars, no raw `<` / `"`, no `]]>`,
  a non-empty text stays non-empty; NCNames are names.
-/
import XotModel.Model.SerTokens
import XotModel.Lemmas.Entity

namespace XotModel
open Gen

/-! ### Table-driven escaping keeps a character class -/

/-- Every escape string of the table consists of `P` characters. -/
def tableAll (P : Char → Bool) (t : List (Char × Str)) : Bool := t.all (fun r => r.2.all P)

theorem escapeWith_all {P : Char → Bool} {t : List (Char × Str)} (ht : tableAll P t = true) (c : Char)
    (hc : P c = true) : (escapeWith t c).all P = true := by
  unfold escapeWith
  cases hl : t.lookup c with
  | none => simp [hc]
  | some esc =>
    simp only
    induction t with
    | nil => simp at hl
    | cons r t ih =>
      obtain ⟨k, v⟩ := r
      simp only [tableAll, List.all_cons, Bool.and_eq_true] at ht
      simp only [List.lookup] at hl
      split at hl
      · simp only [Option.some.injEq] at hl; subst hl; exact ht.1
      · exact ih ht.2 hl

theorem flatMap_escape_all {P : Char → Bool} {t : List (Char × Str)} (ht : tableAll P t = true) (s : Str)
    (hs : s.all P = true) : (s.flatMap (escapeWith t)).all P = true := by
  simp only [List.all_eq_true, List.mem_flatMap] at hs ⊢
  rintro x ⟨c, hc, hx⟩
  have := escapeWith_all ht c (hs c hc)
  simp only [List.all_eq_true] at this
  exact this x hx

/-- No escape string of the table is empty. -/
def tableNonEmpty (t : List (Char × Str)) : Bool := t.all (fun r => !r.2.isEmpty)

theorem escapeWith_ne_nil {t : List (Char × Str)} (ht : tableNonEmpty t = true) (c : Char) :
    escapeWith t c ≠ [] := by
  unfold escapeWith
  cases hl : t.lookup c with
  | none => simp
  | some esc =>
    simp only
    induction t with
    | nil => simp at hl
    | cons r t ih =>
      obtain ⟨k, v⟩ := r
      simp only [tableNonEmpty, List.all_cons, Bool.and_eq_true] at ht
      simp only [List.lookup] at hl
      split at hl
      · simp only [Option.some.injEq] at hl; subst hl
        have := ht.1
        simp only [Bool.not_eq_true', List.isEmpty_eq_false_iff] at this
        exact this
      · exact ih ht.2 hl

/-! ### `hasInfix` -/

theorem isPrefixOf_mem {pat s : Str} (h : pat.isPrefixOf s = true) : ∀ c ∈ pat, c ∈ s := by
  induction pat generalizing s with
  | nil => simp
  | cons p ps ih =>
    cases s with
    | nil => simp [List.isPrefixOf] at h
    | cons a as =>
      simp only [List.isPrefixOf, Bool.and_eq_true, beq_iff_eq] at h
      intro c hc
      rcases List.mem_cons.mp hc with rfl | hc
      · simp [h.1]
      · exact List.mem_cons_of_mem _ (ih h.2 c hc)

/-- A string that contains the pattern contains each of its characters. -/
theorem hasInfix_mem {pat s : Str} (h : hasInfix pat s = true) : ∀ c ∈ pat, c ∈ s := by
  induction s with
  | nil =>
    simp only [hasInfix, List.isEmpty_iff] at h
    subst h; simp
  | cons a as ih =>
    simp only [hasInfix, Bool.or_eq_true] at h
    rcases h with h | h
    · exact isPrefixOf_mem h
    · intro c hc
      exact List.mem_cons_of_mem _ (ih h c hc)

/-! ### Attribute values and text as the serialiser writes them -/

/-- What `Token.lexOK` asks of an attribute value. -/
def attrCharOK (c : Char) : Bool := isXmlChar c && c != '"' && c != '<'

/-- What `Token.lexOK` asks of a text character. -/
def textCharOK (c : Char) : Bool := isXmlChar c && c != '<'

theorem serializeAttribute_lexOK (v : Str) (h : v.all isXmlChar = true) :
    (serializeAttribute v).all attrCharOK = true := by
  have h1 : (serializeAttribute v).all isXmlChar = true :=
    flatMap_escape_all (t := attrEscapes) (by decide) v h
  have h2 : '"' ∉ serializeAttribute v := flatMap_escape_hides (t := attrEscapes) (by decide) v
  have h3 : '<' ∉ serializeAttribute v := flatMap_escape_hides (t := attrEscapes) (by decide) v
  simp only [List.all_eq_true, attrCharOK, Bool.and_eq_true, bne_iff_ne, ne_eq] at h1 ⊢
  intro c hc
  refine ⟨⟨h1 c hc, ?_⟩, ?_⟩
  · rintro rfl; exact h2 hc
  · rintro rfl; exact h3 hc

theorem serializeText_chars (s : Str) (h : s.all isXmlChar = true) :
    (serializeText false s).all textCharOK = true := by
  rw [serializeText_false_eq]
  have h1 : (s.flatMap (escapeWith (('>', textGtEscape) :: textEscapes))).all isXmlChar = true :=
    flatMap_escape_all (by decide) s h
  have h3 : '<' ∉ s.flatMap (escapeWith (('>', textGtEscape) :: textEscapes)) :=
    flatMap_escape_hides (by decide) s
  simp only [List.all_eq_true, textCharOK, Bool.and_eq_true, bne_iff_ne, ne_eq] at h1 ⊢
  intro c hc
  refine ⟨h1 c hc, ?_⟩
  rintro rfl; exact h3 hc

theorem serializeText_noCdataEnd (s : Str) : hasInfix [']', ']', '>'] (serializeText false s) = false := by
  cases h : hasInfix [']', ']', '>'] (serializeText false s) with
  | false => rfl
  | true =>
    exfalso
    have hm := hasInfix_mem h '>' (by simp)
    rw [serializeText_false_eq] at hm
    exact flatMap_escape_hides (t := ('>', textGtEscape) :: textEscapes) (c := '>') (by decide) s hm

theorem serializeText_ne_nil (s : Str) (h : s ≠ []) : serializeText false s ≠ [] := by
  rw [serializeText_false_eq]
  cases s with
  | nil => exact absurd rfl h
  | cons c cs =>
    simp only [List.flatMap_cons, ne_eq, List.append_eq_nil_iff, not_and]
    intro h1
    exact absurd h1 (escapeWith_ne_nil (by decide) c)

/-! ### Names -/

theorem ncNameNE_nameOK (s : Str) (h : ncNameNE s = true) : nameOK s = true := by
  cases s with
  | nil => simp [ncNameNE] at h
  | cons c cs =>
    simp only [ncNameNE, ncNameOK, List.all_cons, Bool.and_eq_true, List.isEmpty_cons, Bool.not_false,
      and_true] at h
    simp only [nameOK, Bool.and_eq_true, List.all_eq_true]
    refine ⟨h.2, fun x hx => ?_⟩
    have := h.1.2
    simp only [List.all_eq_true, Bool.and_eq_true] at this
    exact (this x hx).1

theorem ncNameNE_qnameOK_local (p l : Str) (hp : ncNameOK p = true) (hl : ncNameNE l = true) :
    qnameOK p l = true := by
  simp only [ncNameNE, Bool.and_eq_true] at hl
  simp [qnameOK, hp, hl.1, hl.2]

theorem ncNameOK_nil : ncNameOK [] = true := rfl
theorem ncNameOK_xml : ncNameOK ['x', 'm', 'l'] = true := by decide
theorem ncNameNE_xmlns : ncNameNE xmlnsName = true := by decide

theorem lower_xml_ne {s : Str} (h : s.map asciiLowerChar ≠ ['x', 'm', 'l']) : s ≠ ['x', 'm', 'l'] := by
  rintro rfl
  exact h (by decide)

end XotModel
