/-
  C03, PI targets with a colon: the round-trip domain with the PI-target clause widened.

  `valueOK` (Model/SerTokens.lean, unchanged) asks of a PI target an NCName.  The tokenizer reads a target
  with `consume_name` (`nameOK`: a name-start character, then name characters, COLONS ALLOWED), the builder
  interns it as a name in no namespace, the serialiser writes it back as it is: `<?a:b?>` is accepted and
  round-trips.  `PiColon.valueOK` is `valueOK` with that one clause replaced by `nameOK`; `PiColon.nodeOK`,
  `PiColon.RepresentableFragment`, `PiColon.Representable` (= `RepresentablePi` of Props/C03.lean) are the
  same definitions over it.  The files Lemmas/PiColon*.lean re-run the proofs of the C01 round trip and of
  "accepted ⇒ representable" in the namespace `XotModel.PiColon` (where these names shadow the originals):
  the only place the NCName clause was used is `serNode_lexOK` (`ncNameNE_nameOK`: the written target must be
  read back whole by `consume_name`), which needs `nameOK` only.
-/
import XotModel.Model.SerTokens
import XotModel.Lemmas.SerTokensChars

namespace XotModel.PiColon

/-- What a node's own value must satisfy; PI target: what `consume_name` reads back (colons allowed). -/
def valueOK (env : Env) : Value → Bool
  | .document => true
  | .element name => ncNameNE (env.localName name)
  | .text s => !s.isEmpty && s.all isXmlChar
  | .comment s => s.all isXmlChar && !hasInfix ['-', '-'] s && s.getLast? != some '-' && !s.contains '\r'
  | .pi target data =>
    env.nsOfName target == Env.noNamespace && nameOK (env.localName target) &&
    (env.localName target).map asciiLowerChar != ['x', 'm', 'l'] &&
    (match data with
     | none => true
     | some d => !d.isEmpty && !(d.head?.any isXmlSpace) && d.all isXmlChar && !hasInfix ['?', '>'] d &&
        !d.contains '\r')
  | .attribute name v =>
    ncNameNE (env.localName name) && v.all isXmlChar &&
    !(env.nsOfName name == Env.noNamespace && env.localName name == xmlnsName) &&
    (!isXmlIdName env name || normalizeXmlId v == v)
  | .namespace p ns =>
    p != Env.xmlPrefix && ns != Env.xmlNamespace && env.namespaceStr ns != xmlnsNamespaceUri &&
    (p == Env.emptyPrefix ||
      (ncNameNE (env.prefixStr p) && env.prefixStr p != xmlnsName && ns != Env.noNamespace)) &&
    (ns == Env.noNamespace || !(env.namespaceStr ns).isEmpty) && (env.namespaceStr ns).all isXmlChar

def nodeOK (env : Env) (v : Value) (ks : List Tree) : Bool :=
  decide (OrderedKids ks) && decide (KindsOk v ks) && decide (UniqueKids ks) && noAdjText ks &&
  valueOK env v

def RepresentableFragment (env : Env) (t : Tree) : Bool :=
  envOK env && t.value.isDocument && t.allNodes (nodeOK env) && decide (xmlIdValues env t).Nodup

def Representable (env : Env) (t : Tree) : Bool := RepresentableFragment env t && singleRoot t

/-- The widened domain contains the original one. -/
theorem valueOK_of_valueOK (env : Env) (v : Value) (h : XotModel.valueOK env v = true) : valueOK env v = true := by
  cases v with
  | pi target data =>
    simp only [XotModel.valueOK, Bool.and_eq_true] at h
    simp only [valueOK, Bool.and_eq_true]
    exact ⟨⟨⟨h.1.1.1, ncNameNE_nameOK _ h.1.1.2⟩, h.1.2⟩, h.2⟩
  | _ => exact h

theorem nodeOK_of_nodeOK (env : Env) (v : Value) (ks : List Tree) (h : XotModel.nodeOK env v ks = true) :
    nodeOK env v ks = true := by
  simp only [XotModel.nodeOK, nodeOK, Bool.and_eq_true] at h ⊢
  exact ⟨h.1, valueOK_of_valueOK env v h.2⟩

mutual
theorem allNodes_of_allNodes (env : Env) : ∀ (t : Tree), t.allNodes (XotModel.nodeOK env) = true →
    t.allNodes (nodeOK env) = true
  | .node v ks, h => by
    rw [Tree.allNodes, Bool.and_eq_true] at h ⊢
    exact ⟨nodeOK_of_nodeOK env v ks h.1, allList_of_allList env ks h.2⟩
theorem allList_of_allList (env : Env) : ∀ (ks : List Tree), Tree.allNodes.allList (XotModel.nodeOK env) ks = true →
    Tree.allNodes.allList (nodeOK env) ks = true
  | [], _ => rfl
  | k :: ks, h => by
    rw [Tree.allNodes.allList, Bool.and_eq_true] at h ⊢
    exact ⟨allNodes_of_allNodes env k h.1, allList_of_allList env ks h.2⟩
end

end XotModel.PiColon

namespace XotModel

/-- `Representable` with the PI-target clause widened to what `consume_name` accepts. -/
abbrev RepresentablePi (env : Env) (t : Tree) : Bool := PiColon.Representable env t

/-- … for `parse_fragment`. -/
abbrev RepresentableFragmentPi (env : Env) (t : Tree) : Bool := PiColon.RepresentableFragment env t

end XotModel
