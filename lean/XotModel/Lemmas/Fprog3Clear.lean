/-
  Lemmas for C20 (`Prog3`): `clear()` of the attribute / namespace view of an ELEMENT is always
  accepted by the specification — each entry node collected at the start is still there when its turn
  comes (`Prog3.specRemoveAll` tests that): removing an entry node removes exactly that child
  (`Fmap.remove_child`), the element stays located with the remaining children (`Fmap.located_after_cut`).
-/
import XotModel.Lemmas.Fprog3Main
import XotModel.Lemmas.FmapOps3

namespace XotModel
namespace Prog3
open HTree Spec Prog XotModel.Props Fmap
open Forest (MapKind)

theorem removeAll_accepted (e : Nat) (ev : Value) (pre post : List HTree) :
    ∀ (cs : List HTree) (f : Forest), f.Inv → FlagsOk f → Located f e ev (pre ++ cs ++ post) →
      (∀ c ∈ cs, c.value.category ≠ .normal) → ∃ g, specRemoveAll (cs.map (·.handle)) f = some g
  | [], f, _, _, _, _ => ⟨f, rfl⟩
  | c :: cs, f, inv, hfl, hl, hc => by
    have hl' : Located f e ev (pre ++ c :: (cs ++ post)) := by
      have : pre ++ c :: cs ++ post = pre ++ c :: (cs ++ post) := by simp
      rw [← this]; exact hl
    have hrem := remove_child hl' (hc c List.mem_cons_self)
    have hl1 := located_after_cut hl'
    have hk : pre ++ (cs ++ post) = pre ++ cs ++ post := by simp
    rw [hk] at hrem hl1
    have hlive : f.isLive c.handle = true :=
      isLive_of_get (PairAfter.site_getKid (f := f) (p := e) (v := ev) ⟨hl'.nodup, hl'.get⟩ (by simp))
    obtain ⟨e1, i1, a1, b1⟩ := remove_call inv hfl hlive
    have e2 : specRemoveP c.handle f = { f with roots := withKids f.roots e (pre ++ cs ++ post) } := by
      have := congrArg (·.1) (e1.symm.trans hrem)
      exact this
    simp only [List.map_cons, specRemoveAll, hlive, if_true]
    rw [e2] at i1 a1 b1 ⊢
    exact removeAll_accepted e ev pre post cs _ i1 (hfl.of_eq a1 b1) hl1
      (fun x hx => hc x (List.mem_cons_of_mem _ hx))

/-- **`clear()` on an element is well-formed**: the specification accepts it. -/
theorem clear_accepted {f : Forest} (inv : f.Inv) (hfl : FlagsOk f) (k : MapKind) {e : Nat}
    (he : f.isElement e = true) : ∃ g, specRemoveAll (entryHandles f k e) f = some g := by
  obtain ⟨nm, N, A, S, h⟩ := minv_of_inv f e inv he
  unfold entryHandles
  rw [h.loc.get]
  simp only
  rw [mapChildren_eq]
  simp only [HTree.kids]
  rw [h.sect.kidsOf]
  have hl : Located f e (.element nm) (preK k N ++ Sect.sec k N A ++ postK k A S) := by
    rw [← split_kids]; exact h.loc
  exact removeAll_accepted e _ (preK k N) (postK k A S) (Sect.sec k N A) f inv hfl hl
    (fun c hc => by rw [h.sect.sec_cat k c hc]; exact kindCat_ne_normal k)

/-- `clear()` is accepted exactly on elements. -/
theorem mapClear_spec_isSome {f : Forest} (inv : f.Inv) (hfl : FlagsOk f) (k : MapKind) (e : Nat) :
    ((Call.mapClear k e).spec f).isSome = f.isElement e := by
  simp only [Call.spec, isElementAt_eq]
  by_cases he : f.isElement e = true
  · obtain ⟨g, hg⟩ := clear_accepted inv hfl k he
    simp [he, hg]
  · simp [he]

end Prog3
end XotModel
